# -*- coding: utf-8 -*-
# Sidecar contracts for hotxlfp/formulas/mathtrig.py (C16, C17, C01, C11)


@contract('hotxlfp.formulas.mathtrig:BASE', props=['C17', 'C01'])
class BASE:
    # proved: argument validation (errors instead of values / non-termination) and termination of the digit loop (variant: value);
    # the digits themselves (DECIMAL(BASE(n, r), r) = n) are decided by the bounded stand-in
    args = dict(value=SCALAR, base=SCALAR)
    cases = [dict(places=OMITTED), dict(places=SCALAR)]
    bounded_args = dict(places=CHOICE(OMITTED, 0, 1, 3, 12, -1, 2.5, True, None, 'x', '4'))
    float_tol = 0

    def pre(value, base, places):
        return not is_date(value) and not is_date(base) and (places is OMITTED or not is_date(places))

    def post(value, base, places, out):
        v = parse_number.spec(value)
        if is_err(v):
            return out.ret and same(out.value, v)
        b = parse_number.spec(base)
        if is_err(b):
            return out.ret and same(out.value, b)
        if places is not OMITTED:
            pl = parse_number.spec(places)
            if is_err(pl):
                return out.ret and same(out.value, pl)
            if pl < 0:
                return out.ret and same(out.value, NUM)
        if v < 0 or b < 2 or b > 36:
            return out.ret and is_err(out.value)
        return True

    def post_native(value, base, places, out):
        v = parse_number.spec(value)
        b = parse_number.spec(base)
        if is_err(v) or is_err(b) or v < 0 or b < 2 or b > 36 or not out.ret or is_err(out.value):
            return True
        # the text denotes int(v) in radix int(b), with letter digits above 9
        return int(out.value, int(b)) == int(v) and out.value == out.value.upper()

    loops = [dict(types=dict(value=INT, digits=SEQ(STR)),
                  inv=lambda value, base: is_int(value) and value >= 0 and is_int(base) and 2 <= base and base <= 36,
                  variant=lambda value: value)]
