# -*- coding: utf-8 -*-
# Sidecar contracts for hotxlfp/formulas/mathtrig.py (C16, C17, C01, C11)


@contract('hotxlfp.formulas.mathtrig:BASE', props=['C17', 'C01'])
class BASE:
    # proved: argument validation (errors instead of values / non-termination) and termination of the digit loop (variant: value);
    # the digits themselves (DECIMAL(BASE(n, r), r) = n) are decided by the bounded stand-in
    args = dict(value=SCALAR, base=SCALAR)
    cases = [dict(places=OMITTED), dict(places=SCALAR)]
    bounded_args = dict(places=CHOICE(OMITTED, 0, 1, 3, 12, -1, 2.5, True, None, 'x', '4'))
    float_tol = 0

    def pre(value, base, places):
        return not is_date(value) and not is_date(base) and (places is OMITTED or not is_date(places))

    def post(value, base, places, out):
        v = parse_number.spec(value)
        if is_err(v):
            return out.ret and same(out.value, v)
        b = parse_number.spec(base)
        if is_err(b):
            return out.ret and same(out.value, b)
        if places is not OMITTED:
            pl = parse_number.spec(places)
            if is_err(pl):
                return out.ret and same(out.value, pl)
            if pl < 0:
                return out.ret and same(out.value, NUM)
        if v < 0 or b < 2 or b > 36:
            return out.ret and is_err(out.value)
        return True

    def post_native(value, base, places, out):
        v = parse_number.spec(value)
        b = parse_number.spec(base)
        if is_err(v) or is_err(b) or v < 0 or b < 2 or b > 36 or not out.ret or is_err(out.value):
            return True
        # the text denotes int(v) in radix int(b), with letter digits above 9
        return int(out.value, int(b)) == int(v) and out.value == out.value.upper()

    loops = [dict(types=dict(value=INT, digits=SEQ(STR)),
                  inv=lambda value, base: is_int(value) and value >= 0 and is_int(base) and 2 <= base and base <= 36,
                  variant=lambda value: value)]


NUMARG = SCALAR


def num_or_err(v):
    return parse_number.spec(v)


@contract('hotxlfp.formulas.mathtrig:ATAN2', props=['C16'])
class ATAN2:
    args = dict(x_num=NUMARG, y_num=NUMARG)

    def pre(x_num, y_num):
        return not is_date(x_num) and not is_date(y_num)

    def spec(x_num, y_num):
        x = num_or_err(x_num)
        if is_err(x):
            return x
        y = num_or_err(y_num)
        if is_err(y):
            return y
        if x == 0 and y == 0:
            return DIV_ZERO                    # only the origin has no angle
        return math.atan2(y, x)                # the angle of the point (x, y)


@contract('hotxlfp.formulas.mathtrig:LOG', props=['C16'])
class LOG:
    args = dict(number=NUMARG)
    cases = [dict(base=OMITTED), dict(base=NUMARG)]

    def pre(number, base):
        return not is_date(number) and (base is OMITTED or not is_date(base))

    def post(number, base, out):
        n = num_or_err(number)
        b = 10 if base is OMITTED else num_or_err(base)
        if is_err(n) or is_err(b):
            return out.ret and same(out.value, VALUE)
        if n > 0 and b > 0 and b != 1:
            return out.ret and same(out.value, math.log(n, b))
        return (not out.ret) or is_err(out.value)


@contract('hotxlfp.formulas.mathtrig:LOG10', props=['C16'])
class LOG10:
    args = dict(number=NUMARG)
    inline_callees = ['LOG']

    def pre(number):
        return not is_date(number)

    def post(number, out):
        n = num_or_err(number)
        if is_err(n):
            return out.ret and same(out.value, VALUE)
        if n > 0:
            return out.ret and same(out.value, math.log(n, 10))
        return (not out.ret) or is_err(out.value)


@contract('hotxlfp.formulas.mathtrig:PI', props=['C16'])
class PI:
    def spec():
        return math.pi


@contract('hotxlfp.formulas.mathtrig:RAND', props=['C16'])
class RAND:
    no_native = True

    def post(out):
        return out.ret and is_float(out.value) and 0 <= out.value and out.value < 1


@contract('hotxlfp.formulas.mathtrig:RANDBETWEEN', props=['C16'])
class RANDBETWEEN:
    args = dict(bottom=INT, top=INT)
    no_native = True

    def post(bottom, top, out):
        if bottom <= top:
            return out.ret and is_int(out.value) and bottom <= out.value and out.value <= top
        return (not out.ret) or is_err(out.value)


@contract('hotxlfp.formulas.mathtrig:POWER', props=['C16'])
class POWER:
    args = dict(number=INT | FLOAT, power=INT | FLOAT)
    bounded_only = True
    reason = 'number ** power over all reals (complex results, overflow): native grid only'

    def post(number, power, out):
        if not out.ret or is_err(out.value):
            return True
        try:
            exp = number ** power if abs(power) < 4096 else float(number) ** float(power)
        except (OverflowError, ZeroDivisionError):
            return True
        if abs(power) >= 4096 and (abs(number) > 2**52 or abs(power) > 2**52):
            return True         # beyond exact float conversion of the reference
        if isinstance(exp, complex):
            return isinstance(out.value, complex) or is_err(out.value)
        return abs(out.value - exp) <= 1e-9 * max(1.0, abs(exp))


# ------------------------------------------------------------------------------------------------ C17

def real_floor(x):
    return floor(x)


def real_ceil(x):
    return ceil(x)


@contract('hotxlfp.formulas.mathtrig:INT', props=['C17'])
class INT_:
    args = dict(number=SCALAR)

    def pre(number):
        return not is_date(number)

    def spec(number):
        if not is_numb(number):
            return VALUE
        return floor(number)                 # INT is the floor (also for negative numbers)


@contract('hotxlfp.formulas.mathtrig:SIGN', props=['C17'])
class SIGN:
    args = dict(number=SCALAR)

    def pre(number):
        return not is_date(number)

    def spec(number):
        if not is_numb(number):
            return VALUE
        if number == 0:
            return 0
        return 1 if number > 0 else -1


@contract('hotxlfp.formulas.mathtrig:QUOTIENT', props=['C17'])
class QUOTIENT:
    post_exact_reals = True
    args = dict(numerator=SCALAR, denominator=SCALAR)

    def pre(numerator, denominator):
        return not is_date(numerator) and not is_date(denominator)

    def post(numerator, denominator, out):
        n = num_or_err(numerator)
        d = num_or_err(denominator)
        if is_err(n) or is_err(d):
            return out.ret and same(out.value, VALUE)
        if d == 0:
            return out.ret and same(out.value, DIV_ZERO)      # zero divisor: an error rather than a value
        # the truncated quotient: the integer q of the same sign as n/d with |q| <= |n/d| < |q| + 1
        q = out.value
        x = real(n) / real(d)
        return out.ret and is_int(q) and ((x >= 0 and q <= x and x < q + 1) or (x < 0 and q >= x and x > q - 1))


@contract('hotxlfp.formulas.mathtrig:MOD', props=['C17'])
class MOD:
    post_exact_reals = True
    # the remainder identity mixes floor with products of two unknowns (nonlinear integer arithmetic): most paths stay undecided
    # within the budget and are covered by the bounded native run; error clauses and the zero divisor are proved
    args = dict(numerator=INT | FLOAT | BOOL | STR | NONE_T | ERR, denominator=INT | FLOAT | BOOL | STR | NONE_T | ERR)
    timeout_s = 40
    solver_timeout_ms = 2000

    def post(numerator, denominator, out):
        n = num_or_err(numerator)
        d = num_or_err(denominator)
        if is_err(n):
            return out.ret and same(out.value, n)
        if is_err(d):
            return out.ret and same(out.value, d)
        if d == 0:
            return out.ret and same(out.value, DIV_ZERO)
        # number = divisor * integer + MOD, MOD has the divisor's sign (or is zero) and |MOD| < |divisor|
        m = out.value
        if not (out.ret and is_numb(m)):
            return False
        k = (real(n) - real(m)) / real(d)
        return k == floor(k) and ((d > 0 and 0 <= m and m < d) or (d < 0 and d < m and m <= 0))


@contract('hotxlfp.formulas.mathtrig:EVEN', props=['C17'])
class EVEN:
    args = dict(number=SCALAR)

    def pre(number):
        return not is_date(number)

    def post(number, out):
        n = num_or_err(number)
        if is_err(n):
            return out.ret and same(out.value, n)
        e = out.value
        # the nearest even integer at or beyond the number away from zero; EVEN(0) = 0
        if not (out.ret and is_int(e) and e % 2 == 0):
            return False
        if n == 0:
            return e == 0
        if n > 0:
            return e >= n and e - 2 < n
        return e <= n and e + 2 > n


@contract('hotxlfp.formulas.mathtrig:ODD', props=['C17'])
class ODD:
    args = dict(number=SCALAR)

    def pre(number):
        return not is_date(number)

    def post(number, out):
        n = num_or_err(number)
        if is_err(n):
            return out.ret and same(out.value, n)
        o = out.value
        # the nearest odd integer at or beyond the number away from zero; ODD(0) = 1
        if not (out.ret and is_int(o) and o % 2 == 1):
            return False
        if n == 0:
            return o == 1
        if n > 0:
            return o >= n and o - 2 < n
        return o <= n and o + 2 > n


@contract('hotxlfp.formulas.mathtrig:FACT', props=['C17'])
class FACT:
    args = dict(number=SCALAR)
    bounded_args = dict(number=CHOICE(0, 1, 2, 5, 10, 20, 170, -1, -0.5, 3.9, True, None, '6', 'x', ''))

    def pre(number):
        return not is_date(number)

    def post(number, out):
        n = num_or_err(number)
        if is_err(n):
            return out.ret and same(out.value, n)
        if n < 0:
            return out.ret and same(out.value, NUM)           # negative factorial: an error rather than a value
        return out.ret and same(out.value, math.factorial(int(n)))


@contract('hotxlfp.formulas.mathtrig:ROUNDUP', props=['C17'])
class ROUNDUP:
    post_exact_reals = True
    # real arithmetic; 10**digits is an (uninterpreted) positive quantity p: the result times p is an integer (a multiple of 10^-digits),
    # its magnitude is >= the number's and less than one unit (1/p) above it
    args = dict(number=INT | FLOAT, digits=INT)
    timeout_s = 120

    def post(number, digits, out):
        if not out.ret:
            return False
        p = real(10 ** digits)
        u = real(out.value) * p              # the result in units of 10^-digits
        v = real(number) * p
        if number >= 0:
            return u == floor(u) and u >= v and u - v < 1
        return u == floor(u) and u <= v and v - u < 1


@contract('hotxlfp.formulas.mathtrig:ROUNDDOWN', props=['C17'])
class ROUNDDOWN:
    post_exact_reals = True
    args = dict(number=INT | FLOAT, digits=INT)
    timeout_s = 120

    def post(number, digits, out):
        if not out.ret:
            return False
        p = real(10 ** digits)
        u = real(out.value) * p
        v = real(number) * p
        if number >= 0:
            return u == floor(u) and u <= v and v - u < 1 and u >= 0
        return u == floor(u) and u >= v and u - v < 1 and u <= 0


@contract('hotxlfp.formulas.mathtrig:CEILING', props=['C17'])
class CEILING:
    post_exact_reals = True
    # in units of |significance|: u = result / |s| is an integer adjacent to v = number / |s| on the documented side
    args = dict(number=INT | FLOAT, significance=INT | FLOAT)
    timeout_s = 40
    solver_timeout_ms = 2000          # floor/ceil of a quotient of two unknowns: paths the solver leaves open fall to the native grid

    def post(number, significance, out):
        if not out.ret:
            return False
        if significance == 0:
            return same(out.value, 0)
        s = real(abs(significance))
        u = real(out.value) / s
        v = real(abs(number)) / s
        if u != floor(u):
            return False                         # a multiple of the significance
        if number >= 0:
            return u >= v and u - v < 1           # the adjacent multiple at or above
        if significance > 0:
            return -u <= v and v + u < 1          # negative number, positive significance: toward zero (= up): -u = floor(v)
        return -u >= v and -u - v < 1             # negative number, negative significance: away from zero: -u = ceil(v)


@contract('hotxlfp.formulas.mathtrig:FLOOR', props=['C17'])
class FLOOR:
    post_exact_reals = True
    args = dict(number=INT | FLOAT, significance=INT | FLOAT)
    timeout_s = 40
    solver_timeout_ms = 2000

    def post(number, significance, out):
        if not out.ret:
            return False
        if significance == 0:
            return same(out.value, 0)
        if number > 0 and significance < 0:
            return same(out.value, NUM)
        s = real(abs(significance))
        u = real(out.value) / s
        v = real(abs(number)) / s
        if u != floor(u):
            return False
        if number >= 0:
            return u <= v and v - u < 1           # the adjacent multiple at or below
        if significance > 0:
            return -u >= v and -u - v < 1         # negative number, positive significance: away from zero (= down): -u = ceil(v)
        return -u <= v and v + u < 1              # negative number, negative significance: toward zero: -u = floor(v)


@contract('hotxlfp.formulas.mathtrig:CEILING', props=['C17'])
class CEILING_fixed_significance:
    # dyadic significances: number / significance is exact in floating point, so the postcondition also holds natively, on exact rationals
    # in units of |significance|: u = result / |s| is an integer adjacent to v = number / |s| on the documented side
    # the same postcondition for ALL numbers and a list of concrete significances: the quotient is then linear and the solver decides it
    args = dict(number=INT | FLOAT)
    cases = [dict(significance=1), dict(significance=2), dict(significance=4), dict(significance=0.5), dict(significance=0.25),
             dict(significance=-1), dict(significance=-2), dict(significance=-0.5), dict(significance=0)]
    timeout_s = 40
    solver_timeout_ms = 10000

    def post(number, significance, out):
        if not out.ret:
            return False
        if significance == 0:
            return same(out.value, 0)
        s = real(abs(significance))
        u = real(out.value) / s
        v = real(abs(number)) / s
        if u != floor(u):
            return False                         # a multiple of the significance
        if number >= 0:
            return u >= v and u - v < 1           # the adjacent multiple at or above
        if significance > 0:
            return -u <= v and v + u < 1          # negative number, positive significance: toward zero (= up): -u = floor(v)
        return -u >= v and -u - v < 1             # negative number, negative significance: away from zero: -u = ceil(v)


@contract('hotxlfp.formulas.mathtrig:FLOOR', props=['C17'])
class FLOOR_fixed_significance:
    # dyadic significances: number / significance is exact in floating point, so the postcondition also holds natively, on exact rationals
    # the same postcondition for ALL numbers and a list of concrete significances: the quotient is then linear and the solver decides it
    args = dict(number=INT | FLOAT)
    cases = [dict(significance=1), dict(significance=2), dict(significance=4), dict(significance=0.5), dict(significance=0.25),
             dict(significance=-1), dict(significance=-2), dict(significance=-0.5), dict(significance=0)]
    timeout_s = 40
    solver_timeout_ms = 10000

    def post(number, significance, out):
        if not out.ret:
            return False
        if significance == 0:
            return same(out.value, 0)
        if number > 0 and significance < 0:
            return same(out.value, NUM)
        s = real(abs(significance))
        u = real(out.value) / s
        v = real(abs(number)) / s
        if u != floor(u):
            return False
        if number >= 0:
            return u <= v and v - u < 1           # the adjacent multiple at or below
        if significance > 0:
            return -u >= v and -u - v < 1         # negative number, positive significance: away from zero (= down): -u = ceil(v)
        return -u <= v and v + u < 1              # negative number, negative significance: toward zero: -u = floor(v)


@contract('hotxlfp.formulas.mathtrig:DECIMAL', props=['C17'])
class DECIMAL:
    args = dict(text=STR, base=INT)

    def pre(text, base):
        return 2 <= base and base <= 36

    def post(text, base, out):
        if not out.ret:
            return False
        if is_err(out.value):
            return same(out.value, VALUE)
        return is_int(out.value)


def _factdouble_domain(rng):
    for n in range(-3, 301):
        yield [n]
    for x in (2.5, 7.9, '6', True, None, 'x'):
        yield [x]


@contract('hotxlfp.formulas.mathtrig:FACTDOUBLE', props=['C17'], bounded_only=True,
          reason='functools.reduce over a range: induction on n; decided natively for every n <= 300')
class FACTDOUBLE:
    args = dict(number=SCALAR)
    domain = _factdouble_domain
    float_tol = 0

    def post(number, out):
        n = num_or_err(number)
        if is_err(n):
            return out.ret and same(out.value, n)
        if n < 0:
            return out.ret and same(out.value, NUM)
        k = int(n)
        exp = 1
        while k > 1:
            exp = exp * k
            k = k - 2
        return out.ret and out.value == exp


def _roman_domain(rng):
    for n in range(1, 4000):
        for form in (0, 1, 2, 3, 4):
            yield [n, form]
    for n in (0, 4000, -1):
        yield [n, 0]


@contract('hotxlfp.formulas.mathtrig:ROMAN', props=['C17', 'C01'], bounded_only=True,
          reason='generator + deque + table-driven loop; the domain is finite: exhaustive over 1..3999 x forms 0..4')
class ROMAN:
    args = dict(number=INT, form=INT)
    domain = _roman_domain

    def post(number, form, out):
        if not (0 < number and number < 4000):
            return out.ret and is_err(out.value)
        if not out.ret or not is_str(out.value):
            return False
        # every conciseness form denotes n under the subtractive reading, and ARABIC inverts the classic form
        vals = {'I': 1, 'V': 5, 'X': 10, 'L': 50, 'C': 100, 'D': 500, 'M': 1000}
        total = 0
        s = out.value
        for i in range(len(s)):
            v = vals[s[i]]
            if i + 1 < len(s) and vals[s[i + 1]] > v:
                total = total - v
            else:
                total = total + v
        return total == number
