# -*- coding: utf-8 -*-
# Sidecar contracts for hotxlfp/parser.py, hotxlfp/formulas/error.py, hotxlfp/formulas/__init__.py, tinyemitter (C01, C08, C09, C10)

CANON = ['#ERROR!', '#DIV/0!', '#NAME?', '#N/A', '#NULL!', '#NUM!', '#REF!', '#VALUE!', '#GETTING_DATA']


def is_canonical_code(s):
    return is_str(s) and (s == '#ERROR!' or s == '#DIV/0!' or s == '#NAME?' or s == '#N/A' or s == '#NULL!' or s == '#NUM!' or
                          s == '#REF!' or s == '#VALUE!' or s == '#GETTING_DATA')


def error_of_message(m):
    if m == '#DIV/0!':
        return DIV_ZERO
    if m == '#NAME?':
        return NAME
    if m == '#N/A':
        return NOT_AVAILABLE
    if m == '#NULL!':
        return NULL
    if m == '#NUM!':
        return NUM
    if m == '#REF!':
        return REF
    if m == '#VALUE!':
        return VALUE
    if m == '#GETTING_DATA':
        return DATA
    return ERROR


@contract('hotxlfp.formulas.error:from_message', props=['C01', 'C08'])
class from_message:
    # message: any value (text, an error value - canonical or not -, a number ...)
    args = dict(message=SCALAR)
    for_callers = True

    def spec(message):
        return error_of_message(str(message))


@contract('hotxlfp.formulas.error:from_message', props=['C01', 'C08'])
class from_message_of_exception:
    # Parser.parse / call_function hand the exception object a host callable raised to from_message: any class, any args
    # (none, text, unhashable containers); assumed only: str() of it returns text
    args = dict(message=EXC)

    def post(message, out):
        return out.ret and is_canonical(out.value) and same(out.value, error_of_message(str(message)))


@lemma(props=['C01'])
class from_message_closed:
    """ the result is always one of the nine canonical singletons and str() of it is its code """
    args = dict(message=SCALAR)

    def claim(message):
        e = from_message.spec(message)
        return is_canonical(e) and is_canonical_code(errmsg(e))


@contract('hotxlfp.parser:Parser._throw_error', props=['C01', 'C08'])
class Parser_throw_error:
    args = dict(self=OBJECT('hotxlfp.parser:Parser'), error_name=SCALAR)
    no_native = True

    def post(self, error_name, out):
        # never returns: raises the canonical error spelled by the literal
        return (not out.ret) and out.exc == 'XLError' and same(out.err, from_message.spec(error_name))


@contract('hotxlfp.grammarparser.lexer:t_error', props=['C01'])
class t_error:
    args = dict(t=HOSTOBJ)
    no_native = True

    def post(t, out):
        return (not out.ret) and out.exc == 'XLError' and same(out.err, NAME)


@contract('hotxlfp.grammarparser.parser:Parser.parse', props=['C01'])
class GrammarParser_parse:
    # PLY's LR driver runs the grammar actions: assumed contract = returns any value or raises any Exception (total havoc)
    args = dict(self=OBJECT('hotxlfp.grammarparser.parser:FormulaParser'), input=STR)
    ret = ANY
    raises = ['XLError', 'AnyException']
    bounded_only = True
    reason = 'delegates to ply.yacc (external): assumed contract, exercised end-to-end by the bounded runs'

    def post(self, input, out):
        return True


@contract('hotxlfp.parser:Parser.parse', props=['C01', 'C02', 'C08'])
class Parser_parse:
    args = dict(self=OBJECT('hotxlfp.parser:Parser', debug=BOOL, parser=OBJECT('hotxlfp.grammarparser.parser:FormulaParser')),
                expression=STR)
    no_native = True

    def post(self, expression, out):
        # C01: returns normally a record with exactly result and error; error empty or one of the nine codes; when set the
        # result is empty; the result is never an error object
        if not out.ret:
            return False
        if not called('clear_tracebacks'):
            return False              # C02: every evaluation, failed or not, ends by dropping the tracebacks it left on the shared errors
        r = out.value
        if len(r) != 2 or not ('result' in r) or not ('error' in r):
            return False
        err = r['error']
        res = r['result']
        if is_err(res):
            return False
        if not (err is None or (is_canonical_code(err) and res is None)):
            return False
        # C02 (same outcome with debug output on or off) and C08: the record is a function of what the grammar parser did and of
        # nothing else - in particular not of self.debug
        if expression == '':
            return same(res, '') and err is None
        gs = callee_outcomes('grammarparser.parser:Parser.parse')
        if len(gs) != 1:
            return False
        g = gs[0]
        if g.ret and not is_err(g.value):
            return same(res, g.value) and err is None
        if g.ret:
            return res is None and same(err, errmsg(from_message.spec(g.value)))
        return res is None and same(err, errmsg(from_message.spec(g.raised)))


@contract('hotxlfp.tinyemitter:Emitter.emit', props=['C10'], host_effect=True, for_callers=True)
class Emitter_emit_effect:
    # as seen by callers in hotxlfp/parser.py: listeners are host code; closures passed as arguments escape to them
    no_native = True
    bounded_only = True
    reason = 'caller-side abstraction of emit (the method itself is verified by the C20 contract Emitter_emit)'

    def post(self, name, args, out):
        return True


@contract('hotxlfp.formulas:is_supported', props=['C09'])
class is_supported:
    args = dict(fname=STR)
    no_native = True
    bounded_only = True
    reason = 'reads the registry dict filled by the decorators at import: its content is read from the decorators (table obligation)'

    def spec(fname):
        return registry_has(fname)


@contract('hotxlfp.formulas:get_for', props=['C09'])
class get_for:
    args = dict(fname=STR)
    no_native = True
    bounded_only = True
    reason = 'reads the registry dict filled by the decorators at import'

    def spec(fname):
        if registry_has(fname):
            return registry_fn(fname)
        raises('SyntaxError')


PARSER = OBJECT('hotxlfp.parser:Parser', functions=SYMMAP, variables=SYMMAP, _e=SYMMAP_LISTS, debug=BOOL)
V = VALUE_T


def listener_failed():
    # the (single) emit of this call did not return: a listener raised
    es = callee_outcomes('tinyemitter:Emitter.emit')
    return len(es) == 1 and not es[0].ret


def one_emit(self, event):
    es = emits(self)
    return len(es) == 1 and es[0][0] == event


@contract('hotxlfp.parser:Parser.call_function', props=['C08', 'C09', 'C10'])
class Parser_call_function:
    args = dict(self=PARSER, name=STR)
    cases = [dict(args=OMITTED), dict(args=LISTN()), dict(args=LISTN(V)), dict(args=LISTN(V, V)), dict(args=LISTN(V, V, V))]
    no_native = True

    def post(self, name, args, out):
        actual = [] if args is OMITTED else args
        hc = host_calls()
        custom = map_has(self.functions, name) and not is_none(map_get(self.functions, name))
        if not custom and not registry_has(name):
            # C09: an unknown function is #NAME? - never a value, a silent blank or another exception - and nothing is called
            return (not out.ret) and out.exc == 'XLError' and same(out.err, NAME) and len(hc) == 0 and len(emits(self)) == 0
        fn = map_get(self.functions, name) if custom else registry_fn(name)
        # the registered function (custom ones take precedence) is applied exactly once to the arguments, in order
        if len(hc) != 1 or not same(hc[0].fn, fn) or len(hc[0].args) != len(actual):
            return False
        if not forall(0, len(actual), lambda j: same(hc[0].args[j], actual[j])):
            return False
        if not out.ret:
            # only a listener (host code) may make the call itself fail; an error or exception raised by the function is a value (C08)
            return len(emits(self)) == 1 and listener_failed()
        if not one_emit(self, 'callFunction'):
            return False
        # the value: what the function returned - unless a listener's setter replaced it (never by None)
        if hc[0].returned:
            return same(out.value, last_not_none(hc[0].ret, setter_values()))
        # ... or the error it raised (C08; #ERROR! for any other exception), likewise
        return is_err(last_not_none(out.value, [])) or len(setter_values()) >= 1


@contract('hotxlfp.parser:Parser.set_variable', props=['C09'])
class Parser_set_variable:
    args = dict(self=PARSER, name=STR, v=VALUE_T)
    no_native = True

    def post(self, name, v, out):
        return out.ret and same(out.value, self) and map_has(self.variables, name) and same(map_get(self.variables, name), v)


@contract('hotxlfp.parser:Parser.get_variable', props=['C09'])
class Parser_get_variable:
    args = dict(self=PARSER, name=STR)
    no_native = True

    def post(self, name, out):
        if map_has(self.variables, name):
            return out.ret and same(out.value, map_get(self.variables, name))
        return (not out.ret) and out.exc == 'KeyError'


@contract('hotxlfp.parser:Parser.set_function', props=['C09'])
class Parser_set_function:
    args = dict(self=PARSER, name=STR, f=HOSTFN)
    no_native = True

    def post(self, name, f, out):
        return out.ret and same(out.value, self) and map_has(self.functions, name) and same(map_get(self.functions, name), f)


@contract('hotxlfp.parser:Parser.call_variable', props=['C09', 'C10'])
class Parser_call_variable:
    args = dict(self=PARSER, name=STR)
    no_native = True

    def post(self, name, out):
        if not out.ret:
            # a failure is either a listener's (the emit did not return) or #NAME? - exactly when the variable is unknown and no listener
            # supplied a value; nothing else may fail, and the event has been raised in both cases
            es = callee_outcomes('tinyemitter:Emitter.emit')
            if len(es) == 1 and not es[0].ret:
                return one_emit(self, 'callVariable')
            return out.exc == 'XLError' and same(out.err, NAME) and not map_has(self.variables, name) and one_emit(self, 'callVariable')
        if not one_emit(self, 'callVariable'):
            return False
        # the value of the variable (also None, 0, '' ...) unless a listener's setter replaced it by something other than None
        if map_has(self.variables, name):
            return same(out.value, last_not_none(map_get(self.variables, name), setter_values()))
        return len(setter_values()) >= 1 and same(out.value, last_not_none(None, setter_values()))


@contract('hotxlfp.parser:Parser.call_cell_value', props=['C05', 'C10'])
class Parser_call_cell_value:
    args = dict(self=PARSER, label=STR)
    no_native = True

    def pre(self, label):
        return is_cell_label(label)

    def post(self, label, out):
        es = emits(self)
        if len(es) != 1 or es[0][0] != 'callCellValue':
            return False
        cell = es[0][1]
        # C10: the event carries the upper-cased label and the row / column it denotes with its absolute markers;
        # C05: references are case-insensitive because the label is upper-cased before anything else
        up = label.upper()
        parts = extract_label.abstract(up)
        if not (same(cell.label, up) and same(cell.row.index, parts[0].index) and same(cell.col.index, parts[1].index) and
                same(cell.row.is_absolute, parts[0].is_absolute) and same(cell.col.is_absolute, parts[1].is_absolute)):
            return False
        if not out.ret:
            return listener_failed()           # only a listener (host code) may make the reference fail
        # with no listener (no setter call) a cell is blank; otherwise the last value other than None handed to the setter
        return same(out.value, last_not_none(None, setter_values()))




def last_not_none(initial, values):
    """ C10: the last value other than None handed to the setter becomes the value (0, FALSE and '' count) """
    cur = initial
    for v in values:
        if v is not None:
            cur = v
    return cur


def same_part(x, y):
    # a row / column descriptor: index, the label text as written (upper-cased) and the absolute flag
    return same(x.index, y.index) and same(x.label, y.label) and same(x.is_absolute, y.is_absolute)


def corner_parts(first, second, p, q):
    # the smaller index goes to the top-left cell, the larger to the bottom-right one; equal indices: either way round
    if p.index < q.index:
        return same_part(first, p) and same_part(second, q)
    if p.index > q.index:
        return same_part(first, q) and same_part(second, p)
    return (same_part(first, p) and same_part(second, q)) or (same_part(first, q) and same_part(second, p))


def range_event_post(self, start_label, end_label, out):
    es = emits(self)
    if len(es) != 1 or es[0][0] != 'callRangeValue':
        return False
    a = es[0][1]
    b = es[0][2]
    s = extract_label.abstract(start_label.upper())
    e = extract_label.abstract(end_label.upper())
    # top-left and bottom-right however the corners were written
    if not (a.row.index <= b.row.index and a.col.index <= b.col.index):
        return False
    # the two row descriptors and the two column descriptors of the upper-cased corner labels, each whole (index, label,
    # absolute flag), distributed over the two cells
    if not (corner_parts(a.row, b.row, s[0], e[0]) and corner_parts(a.col, b.col, s[1], e[1])):
        return False
    # each cell's label agrees with the coordinates it carries
    if not (same(a.label, to_label.spec(a.row, a.col)) and same(b.label, to_label.spec(b.row, b.col))):
        return False
    if not out.ret:
        return listener_failed()
    return same(out.value, last_not_none(None, setter_values()))


@contract('hotxlfp.parser:Parser.call_range_value', props=['C05', 'C10'])
class Parser_call_range_value:
    # ~5 minutes of string solving: verified in the thorough tier only; the quick tier decides ranges with the bounded event runs
    args = dict(self=PARSER, start_label=STR, end_label=STR)
    no_native = True
    tiers = ('thorough',)
    timeout_s = 1500
    # split by the order in which the corners were written (rows ascending or not x columns ascending or not) and by the absolute
    # markers of the first corner: 16 parallel tasks that together cover every pair of labels
    cases = [dict(_where='corner_order_is', _k=k) for k in range(0, 16)]

    def corner_order_is(self, start_label, end_label, k):
        s = extract_label.abstract(start_label.upper())
        e = extract_label.abstract(end_label.upper())
        rows = s[0].index <= e[0].index
        cols = s[1].index <= e[1].index
        return (k % 2 == 1) == rows and ((k // 2) % 2 == 1) == cols and ((k // 4) % 2 == 1) == s[0].is_absolute and ((k // 8) % 2 == 1) == s[1].is_absolute

    def pre(self, start_label, end_label):
        return is_cell_label(start_label) and is_cell_label(end_label)

    def post(self, start_label, end_label, out):
        return range_event_post(self, start_label, end_label, out)


@contract('hotxlfp.formulas.error:clear_tracebacks', props=['C02'])
class clear_tracebacks:
    # resets __traceback__/__context__ of the nine shared error instances: no value-level effect (the model of an error value is
    # its code); the effect itself - no traceback left after parse() - is measured by the bounded run of C02
    no_native = True
    bounded_only = True
    reason = 'mutates interpreter-level attributes (__traceback__) that the value model does not represent'

    def spec():
        return None
