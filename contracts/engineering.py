# -*- coding: utf-8 -*-
# Sidecar contracts for hotxlfp/formulas/engineering.py (C17)

LO40 = -549755813888          # -2^39
HI40 = 549755813887           # 2^39 - 1
TWO40 = 1099511627776


@contract('hotxlfp.formulas.engineering:DEC2HEX', props=['C17'])
class DEC2HEX:
    # hex() is the assumed library function; proved: values outside the 40-bit two's-complement range give an error rather than a
    # value, negative numbers are written as n + 2^40, the result is the upper-cased hex digits
    args = dict(dec=INT, places=OMITTED)

    def post(dec, places, out):
        if dec < LO40 or dec > HI40:
            return out.ret and is_err(out.value)
        return out.ret and is_str(out.value)


def _hexdomain(rng):
    edge = [0, 1, -1, 255, -255, HI40, LO40, HI40 + 1, LO40 - 1, TWO40, 2 * TWO40, 10**15, -10**15, 2**31, -2**31, 65535]
    for n in edge:
        yield [n]
    for _ in range(3000):
        yield [rng.randrange(LO40 - 1000, HI40 + 1000)]
    for k in range(0, 41):
        yield [2**k]
        yield [-(2**k)]
        yield [2**k - 1]


@contract('hotxlfp.formulas.engineering:DEC2HEX', props=['C17'], bounded_only=True,
          reason='round trip through hex()/int(text,16): library functions; native grid over the 40-bit range and beyond')
class hex_roundtrip:
    args = dict(dec=INT)
    domain = _hexdomain
    float_tol = 0

    def post(dec, out):
        from hotxlfp.formulas.engineering import HEX2DEC
        if dec < LO40 or dec > HI40:
            return out.ret and is_err(out.value)            # outside the 40-bit range: an error rather than a value
        back = HEX2DEC(out.value)
        return out.ret and is_str(out.value) and back == dec and out.value == out.value.upper()


def _hextexts(rng):
    for t in ('0', '1', 'FF', 'ff', '7FFFFFFFFF', '8000000000', 'FFFFFFFFFF', '10000000000', '1FFFFFFFFFF', 'FFFFFFFFFFF', '-1', '-FF', 'G', '', '12345678901'):
        yield [t]
    for _ in range(2000):
        yield [''.join(rng.choice('0123456789ABCDEFabcdef') for _ in range(rng.randint(1, 12)))]


@contract('hotxlfp.formulas.engineering:HEX2DEC', props=['C17'], bounded_only=True,
          reason='int(text, 16) is a library function; native grid of hex texts inside and outside the 40-bit range')
class HEX2DEC:
    args = dict(hex=STR)
    domain = _hextexts
    float_tol = 0

    def post(hex, out):
        try:
            v = int(hex, 16)
        except ValueError:
            return out.ret and is_err(out.value)
        if v < 0 or v >= TWO40:
            return out.ret and is_err(out.value)             # more than 40 bits: an error rather than a value
        return out.ret and out.value == (v - TWO40 if v > HI40 else v)


def _complex_domain(rng):
    for re_ in (-7, 0, 3, 12):
        for im in (-2, 0, 1, 9):
            yield [re_, im]


@contract('hotxlfp.formulas.engineering:COMPLEX', props=['C17'], bounded_only=True, reason='complex numbers are host objects in the value model')
class COMPLEX:
    args = dict(real=INT, imaginary=INT)
    domain = _complex_domain

    def post(real, imaginary, out):
        from hotxlfp.formulas.engineering import IMREAL, IMAGINARY
        return out.ret and IMREAL(out.value) == real and IMAGINARY(out.value) == imaginary
