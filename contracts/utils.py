# -*- coding: utf-8 -*-
# Sidecar contracts for hotxlfp/formulas/utils.py and hotxlfp/helper/number.py


@contract('hotxlfp.helper.number:to_number', props=['C05', 'C06', 'C16'])
class to_number:
    args = dict(number=ANY)

    def spec(number):
        # text spells a number when int() / float() read it - and it is not one of the spellings only Python reads as a number
        # (digit grouping with '_'; nan / inf / infinity: float_of_text is a finite real here, flag finite_floats, and the
        # non-finite words are the bounded stand-in's)
        if is_str(number) and '_' not in number:
            if text_is_int(number):
                return int_of_text(number)
            if text_is_float(number):
                return float_of_text(number)
        return number


@contract('hotxlfp.formulas.utils:parse_number', props=['C16', 'C17'])
class parse_number:
    args = dict(string=ANY)

    def pre(string):
        return not is_obj(string)

    def spec(string):
        if is_numb(string) or is_err(string):
            return string
        if is_str(string) and '_' not in string:
            if text_is_int(string):
                return int_of_text(string)
            if text_is_float(string):
                return float_of_text(string)
        return VALUE


@contract('hotxlfp.formulas.utils:any_is_error', props=['C16', 'C17'])
class any_is_error:
    cases = [dict(iterable=TUPLE(SCALAR)), dict(iterable=TUPLE(SCALAR, SCALAR)), dict(iterable=TUPLE(SCALAR, SCALAR, SCALAR)),
             dict(iterable=TUPLE(SCALAR, SCALAR, SCALAR, SCALAR, SCALAR))]

    def spec(iterable):
        return exists(0, len(iterable), lambda j: is_err(iterable[j]))


@contract('hotxlfp.formulas.utils:iflatten', props=['C11', 'C12', 'C15'], bounded_only=True)
class iflatten:
    # generator + itertools.chain: outside pyvc's subset.  Callers use this contract; the body is checked only by the
    # bounded native run (all nestings from the sample domain).  The result is the sequence the generator yields.
    args = dict(iterable=ANY)

    def spec(iterable):
        if not is_list(iterable):
            return [iterable]
        return flat(iterable)


@contract('hotxlfp.formulas.utils:flatten', props=['C11', 'C02'])
class flatten:
    args = dict(l=ANY)

    def spec(l):
        if not is_list(l):
            return [l]
        return flat(l)


@contract('hotxlfp.formulas.utils:epoch_seconds', props=['C13', 'C14'])
class epoch_seconds:
    args = dict(date=DATE)

    def spec(date):
        return (date_us(date) - date_us(datetime.datetime(1970, 1, 1))) / 1000000


@contract('hotxlfp.formulas.utils:parse_date', props=['C13', 'C14'])
class parse_date:
    args = dict(date=SCALAR)

    def spec(date):
        if is_err(date) or is_date(date):
            return date
        n = text_number(date)
        if is_numb(n):
            if n < 0:
                return NUM
            return date_of_serial(n)
        if is_str(n):
            return dateutil_parse_or_value(n)
        return VALUE


@contract('hotxlfp.formulas.utils:serialize_date', props=['C13'])
class serialize_date:
    args = dict(date=DATE)

    def pre(date):
        # the statement quantifies over date-times from 1 January 1900 on
        return date_us(date) >= date_us(D1900)

    def spec(date):
        return serial(date)
