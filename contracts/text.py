# -*- coding: utf-8 -*-
# Sidecar contracts for hotxlfp/formulas/text.py (C15)


@contract('hotxlfp.formulas.text:LEFT', props=['C15'])
class LEFT:
    args = dict(text=SCALAR, num_chars=INT)

    def spec(text, num_chars):
        if num_chars < 0 or not is_str(text):
            return VALUE
        return first_chars(text, num_chars)


@contract('hotxlfp.formulas.text:RIGHT', props=['C15'])
class RIGHT:
    args = dict(text=SCALAR, num_chars=INT)

    def spec(text, num_chars):
        if num_chars < 0 or not is_str(text):
            return VALUE
        return last_chars(text, num_chars)


@contract('hotxlfp.formulas.text:MID', props=['C15'])
class MID:
    args = dict(text=SCALAR, start_num=INT, num_chars=INT)

    def spec(text, start_num, num_chars):
        if start_num < 1 or num_chars < 0 or not is_str(text):
            return VALUE
        if start_num > len(text):
            return ''
        return first_chars(text[start_num - 1:len(text)], num_chars)


@contract('hotxlfp.formulas.text:LEN', props=['C15'])
class LEN:
    args = dict(text=SCALAR)

    def spec(text):
        if is_err(text):
            return text
        return len(text_of(text))
