# -*- coding: utf-8 -*-
# Sidecar contracts for hotxlfp/formulas/text.py (C15)


@contract('hotxlfp.formulas.text:LEFT', props=['C15'])
class LEFT:
    args = dict(text=SCALAR, num_chars=INT)

    def spec(text, num_chars):
        if num_chars < 0 or not is_str(text):
            return VALUE
        return first_chars(text, num_chars)


@contract('hotxlfp.formulas.text:RIGHT', props=['C15'])
class RIGHT:
    args = dict(text=SCALAR, num_chars=INT)

    def spec(text, num_chars):
        if num_chars < 0 or not is_str(text):
            return VALUE
        return last_chars(text, num_chars)


@contract('hotxlfp.formulas.text:MID', props=['C15'])
class MID:
    args = dict(text=SCALAR, start_num=INT, num_chars=INT)

    def spec(text, start_num, num_chars):
        if start_num < 1 or num_chars < 0 or not is_str(text):
            return VALUE
        if start_num > len(text):
            return ''
        return first_chars(text[start_num - 1:len(text)], num_chars)


@contract('hotxlfp.formulas.text:LEN', props=['C15'])
class LEN:
    args = dict(text=SCALAR)

    def spec(text):
        if is_err(text):
            return text
        return len(text_of(text))


@contract('hotxlfp.formulas.text:UPPER', props=['C15'])
class UPPER:
    # "changes only letter case" and idempotence are properties of str.upper (assumed, sampled natively)
    args = dict(text=SCALAR)

    def spec(text):
        if is_err(text):
            return text
        return text_of(text).upper()


@contract('hotxlfp.formulas.text:LOWER', props=['C15'])
class LOWER:
    args = dict(text=SCALAR)

    def spec(text):
        if is_err(text):
            return text
        return text_of(text).lower()


@contract('hotxlfp.formulas.text:PROPER', props=['C15'])
class PROPER:
    args = dict(text=SCALAR)

    def spec(text):
        if is_err(text):
            return text
        return text_of(text).title()


@contract('hotxlfp.formulas.text:TRIM', props=['C15'])
class TRIM:
    # surplus spaces only: runs of U+0020 collapse to one, leading/trailing U+0020 are removed; tabs/newlines stay
    args = dict(value=SCALAR)

    def spec(value):
        if not is_str(value):
            return value
        return collapse_spaces(value).strip(' ')


@contract('hotxlfp.formulas.text:CLEAN', props=['C15'], bounded_only=True,
          reason='generator expression filtering the characters of a symbolic string')
class CLEAN:
    args = dict(text=SCALAR)

    def spec(text):
        if is_err(text):
            return text
        return ''.join([c for c in text_of(text) if ord(c) > 31])


@contract('hotxlfp.formulas.text:CHAR', props=['C15'])
class CHAR:
    args = dict(number=INT)

    def pre(number):
        return 0 <= number and number <= 0x2FFFF     # solver alphabet; the rest of the range is bounded (native) only

    def spec(number):
        return chr(number)


@contract('hotxlfp.formulas.text:CODE', props=['C15'])
class CODE:
    args = dict(char=STR)

    def pre(char):
        return len(char) == 1

    def spec(char):
        return ord(char)


@lemma(props=['C15'])
class code_of_char:
    """ CODE(CHAR(n)) = n """
    args = dict(n=INT)

    def pre(n):
        return 0 <= n and n <= 0x2FFFF

    def claim(n):
        return CODE.spec(CHAR.spec(n)) == n


@contract('hotxlfp.formulas.text:CONCATENATE', props=['C15'])
class CONCATENATE:
    # arities 0..3 (values unbounded); nested arrays and larger arities: bounded stand-in
    cases = [dict(args=()), dict(args=TUPLE(SCALAR)), dict(args=TUPLE(SCALAR, SCALAR)),
             dict(args=TUPLE(SCALAR, SCALAR, SCALAR))]
    bounded_args = dict(args=ARGS(VALUE_T))

    def spec(args):
        items = flat(args)
        for i in range(0, len(items)):
            if is_err(items[i]):
                return items[i]
        out = ''
        for i in range(0, len(items)):
            out = out + (items[i] if is_str(items[i]) else str(items[i]))
        return out


@contract('hotxlfp.formulas.text:TEXTJOIN', props=['C15'])
class TEXTJOIN:
    args = dict(delimiter=SCALAR, ignore_empty=SCALAR)
    cases = [dict(args=()), dict(args=TUPLE(STR | NONE_T | ERR)), dict(args=TUPLE(STR | NONE_T | ERR, STR | NONE_T | ERR)),
             dict(args=TUPLE(STR | NONE_T | ERR, STR | NONE_T | ERR, STR | NONE_T | ERR))]

    def pre(delimiter, ignore_empty, args):
        return not is_err(ignore_empty)

    def spec(delimiter, ignore_empty, args):
        if not is_str(delimiter):
            return VALUE
        for i in range(0, len(args)):
            if is_err(args[i]):
                return args[i]          # an error value among the items is the result (the first one), never text
        out = ''
        first = True
        for i in range(0, len(args)):
            item = args[i]
            if item is None and truth(ignore_empty):
                continue
            if not first:
                out = out + delimiter
            first = False
            out = out + ('' if item is None else item)
        return out


@contract('hotxlfp.formulas.text:SUBSTITUTE', props=['C15', 'C01'])
class SUBSTITUTE:
    # guard logic and the replace-all form are proved; the k-th-occurrence loop is decided by the bounded stand-in only
    args = dict(text=STR, old_text=STR, new_text=STR)
    cases = [dict(instance_num=OMITTED), dict(instance_num=INT)]

    def spec(text, old_text, new_text, instance_num):
        if instance_num is not OMITTED and instance_num <= 0:
            return VALUE
        if len(text) == 0 or len(old_text) == 0:
            return text
        if instance_num is OMITTED:
            return text.replace(old_text, new_text)
        return replace_kth(text, old_text, new_text, instance_num)
