# -*- coding: utf-8 -*-
# Sidecar contracts for hotxlfp/formulas/dateandtime.py (C14, C13).  Dates are real microsecond counts; the civil calendar
# (datetime's constructor and field accessors) is an assumed library contract: uninterpreted functions with the axioms of
# pyvc.world.Axioms.civil / date_fields, themselves swept against datetime by the bounded run of C14.


@contract('hotxlfp.formulas.dateandtime:DATE', props=['C14'])
class DATE_:
    args = dict(year=SCALAR, month=SCALAR, day=SCALAR)

    def pre(year, month, day):
        return not is_date(year) and not is_date(month) and not is_date(day)

    def post(year, month, day, out):
        y = parse_number.spec(year)
        m = parse_number.spec(month)
        d = parse_number.spec(day)
        if is_err(y) or is_err(m) or is_err(d):
            return out.ret and same(out.value, VALUE)
        if is_float(y) or is_float(m) or is_float(d):
            return True                                # fractional components: outside the statement
        yy = y + 1900 if y < 1900 else y               # years 0..1899 mean 1900 + year
        if not out.ret:
            return True                                # not a valid calendar date: an error (exception)
        return is_date(out.value) and out.value.year == yy + 0 and out.value.month == m + 0 and out.value.day == d + 0


def field_contract_post(arg, out, field):
    d = parse_date.spec(arg)
    if is_err(d):
        return out.ret and same(out.value, d)
    return out.ret and same(out.value, field)


@contract('hotxlfp.formulas.dateandtime:YEAR', props=['C14'])
class YEAR:
    args = dict(serial_number=DATE | ERR | INT | FLOAT)

    def spec(serial_number):
        d = parse_date.spec(serial_number)
        if is_err(d):
            return d
        return d.year


@contract('hotxlfp.formulas.dateandtime:MONTH', props=['C14'])
class MONTH:
    args = dict(serial_number=DATE | ERR | INT | FLOAT)

    def spec(serial_number):
        d = parse_date.spec(serial_number)
        if is_err(d):
            return d
        return d.month


@contract('hotxlfp.formulas.dateandtime:DAY', props=['C14'])
class DAY:
    args = dict(serial_number=DATE | ERR | INT | FLOAT)

    def spec(serial_number):
        d = parse_date.spec(serial_number)
        if is_err(d):
            return d
        return d.day


@contract('hotxlfp.formulas.dateandtime:HOUR', props=['C14'])
class HOUR:
    args = dict(serial_number=DATE | ERR | INT | FLOAT)

    def spec(serial_number):
        d = parse_date.spec(serial_number)
        if is_err(d):
            return d
        return d.hour


@contract('hotxlfp.formulas.dateandtime:MINUTE', props=['C14'])
class MINUTE:
    args = dict(serial_number=DATE | ERR | INT | FLOAT)

    def spec(serial_number):
        d = parse_date.spec(serial_number)
        if is_err(d):
            return d
        return d.minute


@contract('hotxlfp.formulas.dateandtime:SECOND', props=['C14'])
class SECOND:
    args = dict(serial_number=DATE | ERR | INT | FLOAT)

    def spec(serial_number):
        d = parse_date.spec(serial_number)
        if is_err(d):
            return d
        return d.second


@contract('hotxlfp.formulas.dateandtime:TIME', props=['C14'])
class TIME:
    args = dict(hour=INT, minute=INT, second=INT)

    def post(hour, minute, second, out):
        if not out.ret:
            return not (0 <= hour and hour <= 23 and 0 <= minute and minute <= 59 and 0 <= second and second <= 59)
        return is_date(out.value) and out.value.hour == hour and out.value.minute == minute and out.value.second == second


@contract('hotxlfp.formulas.dateandtime:WEEKDAY', props=['C14'])
class WEEKDAY:
    args = dict(date=DATE)
    cases = [dict(return_type=OMITTED), dict(return_type=INT)]

    def spec(date, return_type):
        w = date.weekday()                             # 0 = Monday ... 6 = Sunday (the true day of the week)
        t = 1 if return_type is OMITTED else return_type
        if t == 1:
            return 1 if w == 6 else w + 2              # 1 = Sunday ... 7 = Saturday
        if t == 2:
            return w + 1                               # 1 = Monday ... 7 = Sunday
        if t == 3:
            return w                                   # 0 = Monday ... 6 = Sunday
        return NUM


@contract('hotxlfp.formulas.dateandtime:DAYS', props=['C14', 'C13'])
class DAYS:
    args = dict(end_date=DATE, start_date=DATE)

    def pre(end_date, start_date):
        return date_ok(end_date) and date_ok(start_date)

    def spec(end_date, start_date):
        return serial(end_date) - serial(start_date)


@contract('hotxlfp.formulas.dateandtime:DATEVALUE', props=['C13'])
class DATEVALUE:
    args = dict(date=DATE)

    def pre(date):
        return date_ok(date)

    def spec(date):
        return serial(date)


def days_in_month(y, m):
    if m == 2:
        return 29 if (y % 4 == 0 and y % 100 != 0) or (y % 400 == 0) else 28
    if m == 4 or m == 6 or m == 9 or m == 11:
        return 30
    return 31


@contract('hotxlfp.formulas.dateandtime:EDATE', props=['C14'])
class EDATE:
    # whole months, day of month kept and clamped to the length of the target month, #NUM! outside 1900..9999
    args = dict(start_date=DATE, month=INT)
    # split by the month the result falls in (12 cases that together cover every input)
    cases = [dict(_where='target_month_is', _k=k) for k in range(0, 12)]

    def target_month_is(start_date, month, k):
        return (start_date.month - 1 + month) % 12 == k

    def spec(start_date, month):
        idx = start_date.year * 12 + (start_date.month - 1) + month
        y = idx // 12
        m = idx % 12 + 1
        d = start_date.day if start_date.day < days_in_month(y, m) else days_in_month(y, m)
        if y > 9999 or y < 1900:
            return NUM
        return datetime.datetime(y, m, d)


@contract('hotxlfp.formulas.dateandtime:DATEDIF', props=['C14'])
class DATEDIF:
    args = dict(start_date=DATE, end_date=DATE)
    cases = [dict(unit='y'), dict(unit='m'), dict(unit='d'), dict(unit='ym'), dict(unit='Y'), dict(unit='M')]

    def pre(start_date, end_date, unit):
        return date_ok(start_date) and date_ok(end_date)

    def post(start_date, end_date, unit, out):
        s = start_date
        e = end_date
        u = unit.lower()
        if date_us(s) > date_us(e):
            return out.ret and same(out.value, NUM)          # start later than end
        if date_us(s) == date_us(e):
            return out.ret and same(out.value, 0)
        months = (e.year - s.year) * 12 + (e.month - s.month) - (1 if e.day < s.day else 0)
        if u == 'm':
            return out.ret and same(out.value, months)
        if u == 'y':
            years = e.year - s.year - (1 if (e.month < s.month or (e.month == s.month and e.day < s.day)) else 0)
            return out.ret and same(out.value, years)
        if u == 'ym':
            return out.ret and same(out.value, months % 12)
        # 'd': the calendar difference in days = difference of the serials, truncated
        return out.ret and is_int(out.value) and out.value <= serial(e) - serial(s) and serial(e) - serial(s) < out.value + 1
