# -*- coding: utf-8 -*-
# Sidecar contracts for the grammar actions in hotxlfp/grammarparser/parser.py (C04, C05, C06, C08, C09, C10).
# One case per alternative of the rule's docstring; nonterminal children carry any value a formula can produce.

FP = OBJECT('hotxlfp.grammarparser.parser:FormulaParser', call_function=HOSTFN, call_variable=HOSTFN,
            call_cell_value=HOSTFN, call_range_value=HOSTFN, throw_error=HOSTFN)
E = VALUE_T


def no_callbacks(self):
    return len(calls(self.call_function)) == 0 and len(calls(self.call_variable)) == 0 and \
        len(calls(self.call_cell_value)) == 0 and len(calls(self.call_range_value)) == 0 and len(calls(self.throw_error)) == 0


@contract('hotxlfp.grammarparser.parser:FormulaParser.p_expressions', props=['C04'])
class p_expressions:
    args = dict(self=FP, p=PROD('expressions', ('expression', E)))

    def post(self, p, out):
        return out.ret and same(p[0], p[1]) and no_callbacks(self)


@contract('hotxlfp.grammarparser.parser:FormulaParser.p_expression_paren', props=['C04'])
class p_expression_paren:
    args = dict(self=FP, p=PROD('expression', ('LPAREN', '('), ('expression', E), ('RPAREN', ')')))

    def post(self, p, out):
        # parentheses never change a value
        return out.ret and same(p[0], p[2]) and no_callbacks(self)


@contract('hotxlfp.grammarparser.parser:FormulaParser.p_expression_array', props=['C05', 'C18'])
class p_expression_array:
    args = dict(self=FP, p=PROD('expression', ('array', E)))

    def post(self, p, out):
        return out.ret and same(p[0], p[1]) and no_callbacks(self)


@contract('hotxlfp.grammarparser.parser:FormulaParser.p_array', props=['C05', 'C18'])
class p_array:
    args = dict(self=FP)
    cases = [dict(p=PROD('array', ('LBRACKET', '{'), ('expseqsemicolon', E), ('RBRACKET', '}'))),
             dict(p=PROD('array', ('LBRACKET', '{'), ('expseqcomma', E), ('RBRACKET', '}'))),
             dict(p=PROD('array', ('LBRACKET', '{'), ('expseqbackslash', E), ('RBRACKET', '}')))]

    def post(self, p, out):
        return out.ret and same(p[0], p[2]) and no_callbacks(self)


@contract('hotxlfp.grammarparser.parser:FormulaParser.p_expression_cell', props=['C10'])
class p_expression_cell:
    args = dict(self=FP, p=PROD('expression', ('cell', E)))

    def post(self, p, out):
        return out.ret and same(p[0], p[1]) and no_callbacks(self)


@contract('hotxlfp.grammarparser.parser:FormulaParser.p_expression_string', props=['C05'])
class p_expression_string:
    # a STRING token is quote + body + same quote (lexer contract, see the regex obligations of C05)
    args = dict(self=FP, p=PROD('expression', ('STRING', STR)))

    def pre(self, p):
        return len(p[1]) >= 2

    def post(self, p, out):
        s = p[1]
        return out.ret and same(p[0], s[1:len(s) - 1]) and len(p[0]) == len(s) - 2 and no_callbacks(self)


@contract('hotxlfp.grammarparser.parser:FormulaParser.p_expression_uminus', props=['C04', 'C08'])
class p_expression_uminus:
    args = dict(self=FP, p=PROD('expression', ('MINUS', '-'), ('expression', SCALAR)))

    def post(self, p, out):
        v = p[2]
        if is_err(v):
            return out.ret and same(p[0], v)          # C08: the operand error is the result
        if is_numb(v):
            return out.ret and same(p[0], -v) and no_callbacks(self)
        return True                                   # text / blank / date operands: outside C04 and C08


@contract('hotxlfp.grammarparser.parser:FormulaParser.p_expression_logical_operator', props=['C04', 'C07', 'C08'])
class p_expression_logical_operator:
    args = dict(self=FP)
    cases = [dict(p=PROD('expression', ('expression', SCALAR), ('GREATER', '>'), ('expression', SCALAR))),
             dict(p=PROD('expression', ('expression', SCALAR), ('LESS', '<'), ('expression', SCALAR))),
             dict(p=PROD('expression', ('expression', SCALAR), ('GREATEREQ', '>='), ('expression', SCALAR))),
             dict(p=PROD('expression', ('expression', SCALAR), ('LESSEQ', '<='), ('expression', SCALAR))),
             dict(p=PROD('expression', ('expression', SCALAR), ('EQUAL', '='), ('expression', SCALAR))),
             dict(p=PROD('expression', ('expression', SCALAR), ('NOTEQUAL', '<>'), ('expression', SCALAR)))]
    result_is_p0 = True
    opaque_callees = ['evaluate_logic']

    def pre(self, p):
        return date_ok(p[1]) and date_ok(p[3])

    def spec(self, p):
        # left operand first: the value is what evaluate_logic's contract specifies for (operator, left, right)
        return result_of(evaluate_logic, p[2], p[1], p[3])

    def post(self, p, out):
        return no_callbacks(self)


@contract('hotxlfp.grammarparser.parser:FormulaParser.p_expression_arithmetic_operator', props=['C04', 'C06', 'C08'])
class p_expression_arithmetic_operator:
    args = dict(self=FP)
    cases = [dict(p=PROD('expression', ('expression', SCALAR), ('PLUS', '+'), ('expression', SCALAR))),
             dict(p=PROD('expression', ('expression', SCALAR), ('MINUS', '-'), ('expression', SCALAR))),
             dict(p=PROD('expression', ('expression', SCALAR), ('MULT', '*'), ('expression', SCALAR))),
             dict(p=PROD('expression', ('expression', SCALAR), ('DIV', '/'), ('expression', SCALAR))),
             dict(p=PROD('expression', ('expression', SCALAR), ('AMP', '&'), ('expression', SCALAR)))]
    result_is_p0 = True
    opaque_callees = ['evaluate_arithmetic']
    merge_pre = True

    def pre(self, p):
        if p[2] == '&':
            return True
        return evaluate_arithmetic.pre(p[2], p[1], p[3])

    def spec(self, p):
        if p[2] == '&':
            return amp(p[1], p[3])
        return result_of(evaluate_arithmetic, p[2], p[1], p[3])

    def post(self, p, out):
        return no_callbacks(self)


def only_call(self, fn, args):
    """ exactly one call-out, to fn, with the given positional arguments; no other callback """
    cs = calls(fn)
    total = len(calls(self.call_function)) + len(calls(self.call_variable)) + len(calls(self.call_cell_value)) + \
        len(calls(self.call_range_value)) + len(calls(self.throw_error))
    if total != 1 or len(cs) != 1 or len(cs[0]) != len(args):
        return False
    for i in range(0, len(args)):
        if not same(cs[0][i], args[i]):
            return False
    return True


@contract('hotxlfp.grammarparser.parser:FormulaParser.p_expression_function', props=['C05', 'C09', 'C10'])
class p_expression_function:
    args = dict(self=FP, p=PROD('expression', ('FUNCTION', STR), ('LPAREN', '('), ('RPAREN', ')')))

    def post(self, p, out):
        # one call of the callback with the function name and no argument list; its value is the value of the call
        if not only_call(self, self.call_function, [p[1]]):
            return False
        if not out.ret:
            return True
        return same(p[0], call_result(self.call_function, 0))


@contract('hotxlfp.grammarparser.parser:FormulaParser.p_expression_wargs', props=['C05', 'C09', 'C10'])
class p_expression_wargs:
    args = dict(self=FP)
    cases = [dict(p=PROD('expression', ('FUNCTION', STR), ('LPAREN', '('), ('expseqcomma', SEQ(E)), ('RPAREN', ')'))),
             dict(p=PROD('expression', ('FUNCTION', STR), ('LPAREN', '('), ('expseqsemicolon', SEQ(E)), ('RPAREN', ')'))),
             dict(p=PROD('expression', ('FUNCTION', STR), ('LPAREN', '('), ('expseqbackslash', SEQ(E)), ('RPAREN', ')')))]

    def post(self, p, out):
        # the slot list built by the sequence rules is passed on unchanged (one argument per slot, in order)
        if not only_call(self, self.call_function, [p[1], p[3]]):
            return False
        if not out.ret:
            return True
        return same(p[0], call_result(self.call_function, 0))


@contract('hotxlfp.grammarparser.parser:FormulaParser.p_variable', props=['C09'])
class p_variable:
    args = dict(self=FP, p=PROD('variable_sequence', ('VARIABLE', STR)))

    def post(self, p, out):
        return out.ret and is_list(p[0]) and len(p[0]) == 1 and same(p[0][0], p[1]) and no_callbacks(self)


@contract('hotxlfp.grammarparser.parser:FormulaParser.p_expression_varseq', props=['C09', 'C10'])
class p_expression_varseq:
    args = dict(self=FP, p=PROD('expression', ('variable_sequence', LISTN(STR))))

    def post(self, p, out):
        if not only_call(self, self.call_variable, [p[1][0]]):
            return False
        if not out.ret:
            return True
        return same(p[0], call_result(self.call_variable, 0))


def cell_cases():
    kinds = ['ABSOLUTE_CELL', 'RELATIVE_CELL', 'MIXED_CELL']
    out = [dict(p=PROD('cell', (k, STR))) for k in kinds]
    for a in kinds:
        for b in kinds:
            out.append(dict(p=PROD('cell', (a, STR), ('COLON', ':'), (b, STR))))
    return out


@contract('hotxlfp.grammarparser.parser:FormulaParser.p_cell', props=['C10'])
class p_cell:
    args = dict(self=FP)
    cases = cell_cases()

    def post(self, p, out):
        if len(p) == 2:
            if not only_call(self, self.call_cell_value, [p[1]]):
                return False
            if not out.ret:
                return True
            return same(p[0], call_result(self.call_cell_value, 0))
        if not only_call(self, self.call_range_value, [p[1], p[3]]):
            return False
        if not out.ret:
            return True
        return same(p[0], call_result(self.call_range_value, 0))


@contract('hotxlfp.grammarparser.parser:FormulaParser.p_xlerror', props=['C08'])
class p_xlerror:
    args = dict(self=FP, p=PROD('expression', ('XLERROR', STR)))

    def post(self, p, out):
        # the literal is handed to throw_error (which raises the canonical error, see Parser._throw_error)
        return only_call(self, self.throw_error, [p[1]])


@contract('hotxlfp.grammarparser.parser:FormulaParser.p_error', props=['C01'])
class p_error:
    args = dict(self=FP, p=HOSTOBJ | NONE_T)

    def post(self, p, out):
        # a syntax error is routed to throw_error(#ERROR!) before anything else; throw_error raises, so PLY's own recovery
        # is never entered
        cs = calls(self.throw_error)
        return len(cs) >= 1 and len(cs[0]) == 1 and same(cs[0][0], ERROR)


@contract('hotxlfp.grammarparser.parser:FormulaParser.p_expression_number', props=['C05'])
class p_expression_number:
    # NUMBER tokens are non-empty digit strings (lexer contract, regex obligation of C05)
    args = dict(self=FP)
    cases = [dict(p=PROD('expression', ('NUMBER', STR))),
             dict(p=PROD('expression', ('DECIMAL', '.'), ('NUMBER', STR))),
             dict(p=PROD('expression', ('NUMBER', STR), ('DECIMAL', '.'), ('NUMBER', STR))),
             dict(p=PROD('expression', ('NUMBER', STR), ('CARET', '^'), ('NUMBER', STR))),
             dict(p=PROD('expression', ('NUMBER', STR), ('PERCENT', '%')))]
    result_is_p0 = True
    float_tol = 0          # a literal evaluates to EXACTLY the number it spells

    def pre(self, p):
        if len(p) == 2:
            return is_digits(p[1])
        if len(p) == 3 and p[1] == '.':
            return is_digits(p[2]) and text_is_float('0.' + p[2]) and not text_is_int('0.' + p[2])
        if len(p) == 3:
            return is_digits(p[1])
        if p[2] == '.':
            return is_digits(p[1]) and is_digits(p[3]) and text_is_float(p[1] + '.' + p[3]) and not text_is_int(p[1] + '.' + p[3])
        return is_digits(p[1]) and is_digits(p[3])

    def spec(self, p):
        # the number the literal spells: digits -> that integer; digits.digits / .digits -> the decimal read by float();
        # integer^integer -> the exact integer power; integer% -> the correctly rounded quotient by 100
        if len(p) == 2:
            return int_of_text(p[1])
        if len(p) == 3 and p[1] == '.':
            return float_of_text('0.' + p[2])
        if len(p) == 3:
            return int_of_text(p[1]) / 100
        if p[2] == '.':
            return float_of_text(p[1] + '.' + p[3])
        return int_of_text(p[1]) ** int_of_text(p[3])

    def post(self, p, out):
        return no_callbacks(self)


def seq_cases(nt, sep_tok, sep):
    L = SEQ(E)
    return [dict(p=PROD(nt, ('expression', E))),
            dict(p=PROD(nt, (sep_tok, sep), (sep_tok, sep))),
            dict(p=PROD(nt, (sep_tok, sep), (nt, L))),
            dict(p=PROD(nt, (nt, L), (sep_tok, sep))),
            dict(p=PROD(nt, (nt, L), (sep_tok, sep), ('expression', E))),
            dict(p=PROD(nt, (nt, L), (sep_tok, sep), (sep_tok, sep), ('expression', E)))]


def seq_spec(p):
    """ slot list of the concatenated yield: one slot per separator-delimited position, None for an omitted one, in order """
    n = len(p)
    if n == 2:
        return [p[1]]
    if n == 3:
        if not is_list(p[1]) and not is_list(p[2]):
            return [None, None, None]        # SEP SEP: three blank slots
        if not is_list(p[1]):
            return [None] + p[2]             # SEP seq
        return p[1] + [None]                 # seq SEP
    if n == 4:
        return p[1] + [p[3]]                 # seq SEP e
    return p[1] + [None, p[4]]               # seq SEP SEP e


@contract('hotxlfp.grammarparser.parser:FormulaParser.p_expseq_comma', props=['C05', 'C02', 'C18'])
class p_expseq_comma:
    args = dict(self=FP)
    cases = seq_cases('expseqcomma', 'COMMA', ',')
    result_is_p0 = True

    def spec(self, p):
        return seq_spec(p)

    def post(self, p, out):
        return no_callbacks(self)


@contract('hotxlfp.grammarparser.parser:FormulaParser.p_expseq_backslash', props=['C05', 'C02', 'C18'])
class p_expseq_backslash:
    args = dict(self=FP)
    cases = seq_cases('expseqbackslash', 'BACKSLASH', '\\')
    result_is_p0 = True

    def spec(self, p):
        return seq_spec(p)

    def post(self, p, out):
        return no_callbacks(self)


@contract('hotxlfp.grammarparser.parser:FormulaParser.p_expseq_semicolon', props=['C05', 'C02', 'C18'])
class p_expseq_semicolon:
    args = dict(self=FP)
    cases = seq_cases('expseqsemicolon', 'SEMICOLON', ';') + [
        dict(p=PROD('expseqsemicolon', ('expseqcomma', SEQ(E)), ('SEMICOLON', ';'), ('expseqcomma', SEQ(E)))),
        dict(p=PROD('expseqsemicolon', ('expseqbackslash', SEQ(E)), ('SEMICOLON', ';'), ('expseqbackslash', SEQ(E))))]
    result_is_p0 = True

    def spec(self, p):
        if len(p) == 4 and is_list(p[1]) and is_list(p[3]) and str_of_symbol(p, 1) != 'expseqsemicolon':
            return [p[1], p[3]]              # ';' between two comma/backslash rows: the list of those two rows
        return seq_spec(p)

    def post(self, p, out):
        return no_callbacks(self)
