# -*- coding: utf-8 -*-
# Sidecar contracts for the grammar actions in hotxlfp/grammarparser/parser.py (C04, C05, C06, C08, C09, C10).
# One case per alternative of the rule's docstring; nonterminal children carry any value a formula can produce.

FP = OBJECT('hotxlfp.grammarparser.parser:FormulaParser', call_function=HOSTFN, call_variable=HOSTFN,
            call_cell_value=HOSTFN, call_range_value=HOSTFN, throw_error=HOSTFN)
E = VALUE_T


def no_callbacks(self):
    return len(calls(self.call_function)) == 0 and len(calls(self.call_variable)) == 0 and \
        len(calls(self.call_cell_value)) == 0 and len(calls(self.call_range_value)) == 0 and len(calls(self.throw_error)) == 0


@contract('hotxlfp.grammarparser.parser:FormulaParser.p_expressions', props=['C04'])
class p_expressions:
    args = dict(self=FP, p=PROD('expressions', ('expression', E)))

    def post(self, p, out):
        return out.ret and same(p[0], p[1]) and no_callbacks(self)


@contract('hotxlfp.grammarparser.parser:FormulaParser.p_expression_paren', props=['C04'])
class p_expression_paren:
    args = dict(self=FP, p=PROD('expression', ('LPAREN', '('), ('expression', E), ('RPAREN', ')')))

    def post(self, p, out):
        # parentheses never change a value
        return out.ret and same(p[0], p[2]) and no_callbacks(self)


@contract('hotxlfp.grammarparser.parser:FormulaParser.p_expression_array', props=['C05', 'C18'])
class p_expression_array:
    args = dict(self=FP, p=PROD('expression', ('array', E)))

    def post(self, p, out):
        return out.ret and same(p[0], p[1]) and no_callbacks(self)


@contract('hotxlfp.grammarparser.parser:FormulaParser.p_array', props=['C05', 'C18'])
class p_array:
    args = dict(self=FP)
    cases = [dict(p=PROD('array', ('LBRACKET', '{'), ('expseqsemicolon', E), ('RBRACKET', '}'))),
             dict(p=PROD('array', ('LBRACKET', '{'), ('expseqcomma', E), ('RBRACKET', '}'))),
             dict(p=PROD('array', ('LBRACKET', '{'), ('expseqbackslash', E), ('RBRACKET', '}')))]

    def post(self, p, out):
        return out.ret and same(p[0], p[2]) and no_callbacks(self)


@contract('hotxlfp.grammarparser.parser:FormulaParser.p_expression_cell', props=['C10'])
class p_expression_cell:
    args = dict(self=FP, p=PROD('expression', ('cell', E)))

    def post(self, p, out):
        return out.ret and same(p[0], p[1]) and no_callbacks(self)


@contract('hotxlfp.grammarparser.parser:FormulaParser.p_expression_string', props=['C05'])
class p_expression_string:
    # a STRING token is quote + body + same quote (lexer contract, see the regex obligations of C05)
    args = dict(self=FP, p=PROD('expression', ('STRING', STR)))

    def pre(self, p):
        return len(p[1]) >= 2

    def post(self, p, out):
        s = p[1]
        return out.ret and same(p[0], s[1:len(s) - 1]) and len(p[0]) == len(s) - 2 and no_callbacks(self)


@contract('hotxlfp.grammarparser.parser:FormulaParser.p_expression_uminus', props=['C04', 'C08'])
class p_expression_uminus:
    args = dict(self=FP, p=PROD('expression', ('MINUS', '-'), ('expression', SCALAR)))

    def post(self, p, out):
        v = p[2]
        if is_err(v):
            return out.ret and same(p[0], v)          # C08: the operand error is the result
        if is_numb(v):
            return out.ret and same(p[0], -v) and no_callbacks(self)
        return True                                   # text / blank / date operands: outside C04 and C08


@contract('hotxlfp.grammarparser.parser:FormulaParser.p_expression_logical_operator', props=['C04', 'C07', 'C08'])
class p_expression_logical_operator:
    args = dict(self=FP)
    cases = [dict(p=PROD('expression', ('expression', SCALAR), ('GREATER', '>'), ('expression', SCALAR))),
             dict(p=PROD('expression', ('expression', SCALAR), ('LESS', '<'), ('expression', SCALAR))),
             dict(p=PROD('expression', ('expression', SCALAR), ('GREATEREQ', '>='), ('expression', SCALAR))),
             dict(p=PROD('expression', ('expression', SCALAR), ('LESSEQ', '<='), ('expression', SCALAR))),
             dict(p=PROD('expression', ('expression', SCALAR), ('EQUAL', '='), ('expression', SCALAR))),
             dict(p=PROD('expression', ('expression', SCALAR), ('NOTEQUAL', '<>'), ('expression', SCALAR)))]
    result_is_p0 = True
    opaque_callees = ['evaluate_logic']

    def pre(self, p):
        return date_ok(p[1]) and date_ok(p[3])

    def spec(self, p):
        # left operand first: the value is what evaluate_logic's contract specifies for (operator, left, right)
        return result_of(evaluate_logic, p[2], p[1], p[3])

    def post(self, p, out):
        return no_callbacks(self)


@contract('hotxlfp.grammarparser.parser:FormulaParser.p_expression_arithmetic_operator', props=['C04', 'C06', 'C08'])
class p_expression_arithmetic_operator:
    args = dict(self=FP)
    cases = [dict(p=PROD('expression', ('expression', SCALAR), ('PLUS', '+'), ('expression', SCALAR))),
             dict(p=PROD('expression', ('expression', SCALAR), ('MINUS', '-'), ('expression', SCALAR))),
             dict(p=PROD('expression', ('expression', SCALAR), ('MULT', '*'), ('expression', SCALAR))),
             dict(p=PROD('expression', ('expression', SCALAR), ('DIV', '/'), ('expression', SCALAR))),
             dict(p=PROD('expression', ('expression', SCALAR), ('AMP', '&'), ('expression', SCALAR)))]
    result_is_p0 = True
    opaque_callees = ['evaluate_arithmetic']
    merge_pre = True

    def pre(self, p):
        if p[2] == '&':
            return True
        return evaluate_arithmetic.pre(p[2], p[1], p[3])

    def spec(self, p):
        if p[2] == '&':
            return amp(p[1], p[3])
        return result_of(evaluate_arithmetic, p[2], p[1], p[3])

    def post(self, p, out):
        return no_callbacks(self)
