# -*- coding: utf-8 -*-
# Sidecar contracts for hotxlfp/tinyemitter.py (C20).  Abstract view: name -> list of Listener(fn, ctx) in subscription order.
# The proofs cover every shape with up to 3 listeners under the emitted name and one listener under another name (callbacks,
# contexts and emitted arguments are arbitrary); longer histories are the bounded stand-in of the property (operation sequences
# against a reference model).

L = OBJECT('hotxlfp.tinyemitter:Listener', fn=HOSTFN, ctx=CONST({}))
EM0 = OBJECT('hotxlfp.tinyemitter:Emitter', _e=DDICT(other=LISTN(L)))
EM1 = OBJECT('hotxlfp.tinyemitter:Emitter', _e=DDICT(ev=LISTN(L), other=LISTN(L)))
EM2 = OBJECT('hotxlfp.tinyemitter:Emitter', _e=DDICT(ev=LISTN(L, L), other=LISTN(L)))
EM3 = OBJECT('hotxlfp.tinyemitter:Emitter', _e=DDICT(ev=LISTN(L, L, L), other=LISTN(L)))
# listeners under names that look special ('*', the empty name, another spelling of the emitted name): names are plain keys
EM1S = OBJECT('hotxlfp.tinyemitter:Emitter', _e=DDICT(**{'ev': LISTN(L), 'other': LISTN(L), '*': LISTN(L), '': LISTN(L), 'EV': LISTN(L), 'ev ': LISTN(L), 'all': LISTN(L)}))
# listeners with bound contexts (keyword arguments of their own)
LA = OBJECT('hotxlfp.tinyemitter:Listener', fn=HOSTFN, ctx=CONST({'a': 1}))
LB = OBJECT('hotxlfp.tinyemitter:Listener', fn=HOSTFN, ctx=CONST({'b': 2, 'c': 'x'}))
EM2C = OBJECT('hotxlfp.tinyemitter:Emitter', _e=DDICT(ev=LISTN(LA, LB), other=LISTN(L)))
EM3C = OBJECT('hotxlfp.tinyemitter:Emitter', _e=DDICT(ev=LISTN(LA, L, LB), other=LISTN(LA)))


def same_context(kwargs, ctx):
    """ the keyword arguments of a call are exactly the listener's bound context """
    if len(kwargs) != len(ctx):
        return False
    for k in ctx:
        if not (k in kwargs and same(kwargs[k], ctx[k])):
            return False
    return True


def same_listeners(a, b):
    """ two listener lists hold the same (fn, ctx) entries in the same order """
    if len(a) != len(b):
        return False
    for i in range(0, len(a)):
        if not (same(a[i].fn, b[i].fn) and same(a[i].ctx, b[i].ctx)):
            return False
    return True


def view(e, name):
    return e._e[name] if name in e._e else []


@contract('hotxlfp.tinyemitter:Emitter.__init__', props=['C20', 'C03'])
class Emitter_init:
    args = dict(self=OBJECT('hotxlfp.tinyemitter:Emitter'))
    no_native = True

    def post(self, out):
        return out.ret and len(self._e) == 0


@contract('hotxlfp.tinyemitter:Emitter.on', props=['C20'])
class Emitter_on:
    args = dict(name=CONST('ev'), callback=HOSTFN)
    cases = [dict(self=EM0, ctx=OMITTED), dict(self=EM1, ctx=OMITTED), dict(self=EM2, ctx=OMITTED), dict(self=EM2, ctx=CONST({'k': 1}))]
    no_native = True

    def post(self, name, callback, ctx, old, out):
        before = view(old, name)
        after = view(self, name)
        # appended at the end with its bound context ({} when none is given); everything else untouched
        return out.ret and same(out.value, self) and len(after) == len(before) + 1 and same_listeners(after[0:len(before)], before) and \
            same(after[len(before)].fn, callback) and same(after[len(before)].ctx, {} if ctx is OMITTED else ctx) and \
            same_listeners(view(self, 'other'), view(old, 'other'))


@contract('hotxlfp.tinyemitter:Emitter.off', props=['C20'])
class Emitter_off:
    args = dict(name=CONST('ev'))
    cases = [dict(self=EM0, callback=OMITTED), dict(self=EM2, callback=OMITTED), dict(self=EM0, callback=HOSTFN),
             dict(self=EM1, callback=HOSTFN), dict(self=EM2, callback=HOSTFN), dict(self=EM3, callback=HOSTFN)]
    no_native = True

    def post(self, name, callback, old, out):
        if not out.ret:
            return False          # unsubscribing never raises (also when nothing is subscribed)
        before = view(old, name)
        after = view(self, name)
        if not same_listeners(view(self, 'other'), view(old, 'other')):
            return False
        if callback is OMITTED:
            return len(after) == 0
        # exactly the listeners for that callback are removed, the others stay in place and in order
        # ("for that callback": equal to it - a second bound-method object of the same method is that callback too - not only identical)
        keep = [l for l in before if not (l.fn == callback)]
        return same_listeners(after, keep)


@contract('hotxlfp.tinyemitter:Emitter.emit', props=['C20'])
class Emitter_emit:
    args = dict(name=CONST('ev'))
    cases = [dict(self=EM0, args=TUPLE()), dict(self=EM1, args=TUPLE(VALUE_T)), dict(self=EM2, args=TUPLE(VALUE_T, VALUE_T)),
             dict(self=EM3, args=TUPLE(VALUE_T)), dict(self=EM2C, args=TUPLE(VALUE_T)), dict(self=EM3C, args=TUPLE()), dict(self=EM1S, args=TUPLE(VALUE_T))]
    no_native = True

    def havoc(self, name, args):
        # a listener is host code: while it runs it may subscribe, unsubscribe or clear listeners of the emitted name.
        # Deliveries of the emit in progress must not be affected (they take effect from the next emit).
        c = choice(4)
        if c == 1:
            self._e[name].append(listener(self._e['other'][0].fn, {}))
        if c == 2:
            if name in self._e and len(self._e[name]) > 0:
                self._e[name].pop(0)
        if c == 3:
            if name in self._e:
                del self._e[name]

    def post(self, name, args, old, out):
        snapshot = view(old, name)
        hc = host_calls()
        # listeners of the emitted name as subscribed at the start of the emit, in order, with the emitted arguments;
        # listeners of other names are never called; a raising listener ends the delivery (prefix)
        if len(hc) > len(snapshot) or (out.ret and len(hc) != len(snapshot)):
            return False
        for i in range(0, len(hc)):
            if not same(hc[i].fn, snapshot[i].fn) or len(hc[i].args) != len(args):
                return False
            if not same_context(hc[i].kwargs, snapshot[i].ctx):
                return False          # each listener gets its own bound context as keywords, nothing more
            for j in range(0, len(args)):
                if not same(hc[i].args[j], args[j]):
                    return False
        return implies(out.ret, same(out.value, self))


@contract('hotxlfp.tinyemitter:Emitter.once', props=['C20'])
class Emitter_once:
    args = dict(name=CONST('ev'), callback=HOSTFN, ctx=OMITTED)
    cases = [dict(self=EM0), dict(self=EM2)]
    no_native = True
    inline_callees = ['Emitter_on']

    def post(self, name, callback, ctx, old, out):
        before = view(old, name)
        after = view(self, name)
        if not (out.ret and len(after) == len(before) + 1 and same_listeners(after[0:len(before)], before)):
            return False
        w = after[len(before)].fn
        # a wrapper that remembers the original callback (so off(name, callback) finds it)
        return is_closure(w) and has_attr(w, '_') and same(get_attr(w, '_'), callback) and len(host_calls()) == 0
