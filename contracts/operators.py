# -*- coding: utf-8 -*-
# Sidecar contracts for hotxlfp/formulas/operators.py (C06, C07, C08)

CMP = NONE_T | BOOL | INT | FLOAT | STR | DATE          # scalar values the comparison operators are specified on (C07)
CMPV = NONE_T | BOOL | INT | FLOAT | STR                 # what ExcelComparator.value can hold after __init__ (dates -> serial)


@contract('hotxlfp.formulas.operators:ExcelComparator.__init__', props=['C07', 'C13'])
class ExcelComparator_init:
    args = dict(self=OBJECT('hotxlfp.formulas.operators:ExcelComparator'), value=CMP)

    def pre(self, value):
        return date_ok(value)

    def attrs(self, value):
        return {'value': serial(value) if is_date(value) else value}


@contract('hotxlfp.formulas.operators:ExcelComparator.convert_other', props=['C07', 'C13'])
class ExcelComparator_convert_other:
    args = dict(self=OBJECT('hotxlfp.formulas.operators:ExcelComparator', value=BOOL | INT | FLOAT | STR), other=CMP)

    def pre(self, other):
        return date_ok(other)

    def spec(self, other):
        if other is None:
            return blank_as(self.value) if not is_float(self.value) else 0.0
        if is_date(other):
            return serial(other)
        return other


@contract('hotxlfp.formulas.operators:ExcelComparator.__lt__', props=['C07', 'C13'])
class ExcelComparator_lt:
    args = dict(self=OBJECT('hotxlfp.formulas.operators:ExcelComparator', value=CMPV), other=CMP)

    def pre(self, other):
        return date_ok(other)

    def spec(self, other):
        return xl_lt(self.value, other)


@contract('hotxlfp.formulas.operators:ExcelComparator.__gt__', props=['C07', 'C13'])
class ExcelComparator_gt:
    args = dict(self=OBJECT('hotxlfp.formulas.operators:ExcelComparator', value=CMPV), other=CMP)

    def pre(self, other):
        return date_ok(other)

    def spec(self, other):
        return xl_lt(other, self.value)


@contract('hotxlfp.formulas.operators:ExcelComparator.__eq__', props=['C07', 'C13'])
class ExcelComparator_eq:
    args = dict(self=OBJECT('hotxlfp.formulas.operators:ExcelComparator', value=CMPV), other=CMP)

    def pre(self, other):
        return date_ok(other)

    def spec(self, other):
        return xl_eq(self.value, other)


@contract('hotxlfp.formulas.operators:ExcelComparator.__le__', props=['C07', 'C13'])
class ExcelComparator_le:
    args = dict(self=OBJECT('hotxlfp.formulas.operators:ExcelComparator', value=CMPV), other=CMP)

    def pre(self, other):
        return date_ok(other)

    def spec(self, other):
        return xl_lt(self.value, other) or xl_eq(self.value, other)


@contract('hotxlfp.formulas.operators:ExcelComparator.__ge__', props=['C07', 'C13'])
class ExcelComparator_ge:
    args = dict(self=OBJECT('hotxlfp.formulas.operators:ExcelComparator', value=CMPV), other=CMP)

    def pre(self, other):
        return date_ok(other)

    def spec(self, other):
        return xl_lt(other, self.value) or xl_eq(self.value, other)


@contract('hotxlfp.formulas.operators:evaluate_logic', props=['C07', 'C08'])
class evaluate_logic:
    args = dict(lval=SCALAR, rval=SCALAR)
    cases = [dict(op='<'), dict(op='>'), dict(op='='), dict(op='<>'), dict(op='<='), dict(op='>=')]

    def pre(op, lval, rval):
        return date_ok(lval) and date_ok(rval)

    def spec(op, lval, rval):
        # C08: an error operand is the result, the left one when both are
        if is_err(lval):
            return lval
        if is_err(rval):
            return rval
        if op == '<':
            return xl_lt(lval, rval)
        if op == '>':
            return xl_lt(rval, lval)
        if op == '=':
            return xl_eq(lval, rval)
        if op == '<>':
            return not xl_eq(lval, rval)
        if op == '<=':
            return xl_lt(lval, rval) or xl_eq(lval, rval)
        return xl_lt(rval, lval) or xl_eq(lval, rval)


@lemma(props=['C07'])
class order_laws:
    """ trichotomy, a<b iff b>a, derived relations (over the spec order) """
    args = dict(a=CMP, b=CMP)

    def pre(a, b):
        return date_ok(a) and date_ok(b)

    def claim(a, b):
        lt = xl_lt(a, b)
        gt = xl_lt(b, a)
        eq = xl_eq(a, b)
        n = 0
        if lt:
            n = n + 1
        if gt:
            n = n + 1
        if eq:
            n = n + 1
        return n == 1 and xl_eq(b, a) == eq


@lemma(props=['C07'])
class order_transitive:
    """ the order is transitive on non-blank values """
    args = dict(a=BOOL | INT | FLOAT | STR | DATE, b=BOOL | INT | FLOAT | STR | DATE, c=BOOL | INT | FLOAT | STR | DATE)

    def pre(a, b, c):
        return date_ok(a) and date_ok(b) and \
            date_ok(c) and xl_lt(a, b) and xl_lt(b, c)

    def claim(a, b, c):
        return xl_lt(a, c)


@lemma(props=['C07'])
class order_classes:
    """ every number or date is less than every text and every text less than every logical """
    args = dict(n=INT | FLOAT | DATE, t=STR, l=BOOL)

    def pre(n, t, l):
        return date_ok(n)

    def claim(n, t, l):
        return xl_lt(n, t) and xl_lt(t, l) and xl_lt(n, l) and not xl_lt(t, n) and not xl_lt(l, t) and not xl_lt(l, n)


@contract('hotxlfp.formulas.operators:is_number', props=['C07', 'C13'])
class is_number:
    args = dict(value=SCALAR)

    def spec(value):
        return is_num(value)


@contract('hotxlfp.formulas.operators:value_and_type', props=['C06'])
class value_and_type:
    args = dict(value=SCALAR)

    def spec(value):
        c = classify(value)
        return (c[0], xl_type(c[1]))


@contract('hotxlfp.formulas.operators:evaluate_arithmetic', props=['C06', 'C08'])
class evaluate_arithmetic:
    args = dict(lval=SCALAR, rval=SCALAR)
    cases = [dict(op='+'), dict(op='-'), dict(op='*'), dict(op='/')]

    def pre(op, lval, rval):
        # dates (also those spelled as text) from 1 January 1900 on, as in the statement
        if is_err(lval) or is_err(rval):
            return True
        return date_ok(classify(lval)[0]) and date_ok(classify(rval)[0])

    def spec(op, lval, rval):
        # C08: an error operand is the result, the left one when both are
        if is_err(lval):
            return lval
        if is_err(rval):
            return rval
        lc = classify(lval)
        rc = classify(rval)
        if lc[1] == 'text' or rc[1] == 'text' or lc[1] == 'error' or rc[1] == 'error':
            return VALUE
        x = numeric_value(lc[0], lc[1])
        y = numeric_value(rc[0], rc[1])
        if op == '/' and y == 0:
            return DIV_ZERO
        r = arith(op, x, y)
        if date_result(op, lc[1], rc[1]):
            return as_date_result(r)
        return r


# ---------------------------------------------------------------------------------------------- arrays (C06)
# ExcelArrayOps: an array combines element-wise with a scalar and with an array of equal length, #VALUE! on a length mismatch; the result
# is a NEW list and the wrapped array is left as it was.  Shapes: arrays of 2 and 3 elements (integers and error values) against a scalar, an equal-length and an unequal-length array.  One-element array operands are the known
# finding C06-one-element-array-broadcast and are left out of the shapes here.
AE = INT | ERR        # (the array layer only maps: the element operation on every other type is evaluate_arithmetic's own contract)
AO2 = OBJECT('hotxlfp.formulas.operators:ExcelArrayOps', arr=LISTN(AE, AE))
AO3 = OBJECT('hotxlfp.formulas.operators:ExcelArrayOps', arr=LISTN(AE, AE, AE))
ARRAY_SHAPES = [dict(self=AO2, value=AE), dict(self=AO3, value=AE), dict(self=AO2, value=LISTN(AE, AE)), dict(self=AO3, value=LISTN(AE, AE, AE)),
                dict(self=AO3, value=LISTN(AE, AE)), dict(self=AO2, value=LISTN(AE, AE, AE))]


def no_text_dates(xs):
    # text operands that spell a date are excluded here (evaluate_arithmetic's own precondition speaks about them)
    for x in xs:
        if not (is_err(x) or date_ok(classify(x)[0])):
            return False
    return True


def elementwise(op, swapped, self, value, old, out):
    arr = old.arr
    n = len(arr)
    if len(self.arr) != n:
        return False
    for j in range(0, n):
        if not same(self.arr[j], arr[j]):
            return False                       # the wrapped array is not written to
    if is_list(value) and len(value) != n:
        return out.ret and same(out.value, VALUE)
    if not (out.ret and is_list(out.value) and len(out.value) == n):
        return False
    for j in range(0, n):
        other = value[j] if is_list(value) else value
        want = evaluate_arithmetic.spec(op, other, arr[j]) if swapped else evaluate_arithmetic.spec(op, arr[j], other)
        if not same(out.value[j], want):
            return False
    return True


def array_pre(self, value):
    return no_text_dates(self.arr) and no_text_dates(value if is_list(value) else [value])


@contract('hotxlfp.formulas.operators:ExcelArrayOps.__add__', props=['C06'])
class ExcelArrayOps_add:
    cases = ARRAY_SHAPES

    def pre(self, value):
        return array_pre(self, value)

    def post(self, value, old, out):
        return elementwise('+', False, self, value, old, out)


@contract('hotxlfp.formulas.operators:ExcelArrayOps.__sub__', props=['C06'])
class ExcelArrayOps_sub:
    cases = ARRAY_SHAPES

    def pre(self, value):
        return array_pre(self, value)

    def post(self, value, old, out):
        return elementwise('-', False, self, value, old, out)


@contract('hotxlfp.formulas.operators:ExcelArrayOps.__rsub__', props=['C06'])
class ExcelArrayOps_rsub:
    cases = ARRAY_SHAPES

    def pre(self, value):
        return array_pre(self, value)

    def post(self, value, old, out):
        return elementwise('-', True, self, value, old, out)


@contract('hotxlfp.formulas.operators:ExcelArrayOps.__mul__', props=['C06'])
class ExcelArrayOps_mul:
    cases = ARRAY_SHAPES

    def pre(self, value):
        return array_pre(self, value)

    def post(self, value, old, out):
        return elementwise('*', False, self, value, old, out)


@contract('hotxlfp.formulas.operators:ExcelArrayOps.__truediv__', props=['C06'])
class ExcelArrayOps_truediv:
    cases = ARRAY_SHAPES

    def pre(self, value):
        return array_pre(self, value)

    def post(self, value, old, out):
        return elementwise('/', False, self, value, old, out)


@contract('hotxlfp.formulas.operators:ExcelArrayOps.__rtruediv__', props=['C06'])
class ExcelArrayOps_rtruediv:
    cases = ARRAY_SHAPES

    def pre(self, value):
        return array_pre(self, value)

    def post(self, value, old, out):
        return elementwise('/', True, self, value, old, out)
