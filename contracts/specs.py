# -*- coding: utf-8 -*-
# Shared specification functions.  Plain Python in the subset pyvc executes: the same text is translated to SMT for
# the proofs and run natively for replay and bounded stand-ins.  Names such as is_str, same, VALUE come from pyvc.api
# (native) / pyvc.world.SpecAPI (symbolic).


def text_of(v):
    """ how text functions see a non-error value: blank is empty text, text is itself, anything else str(v) """
    if v is None:
        return ''
    if is_str(v):
        return v
    return str(v)


def first_chars(s, n):
    """ the first min(n, len) characters, n >= 0 """
    if n >= len(s):
        return s
    return s[0:n]


def last_chars(s, n):
    """ the last min(n, len) characters, n >= 0 """
    if n >= len(s):
        return s
    return s[len(s) - n:len(s)]
