# -*- coding: utf-8 -*-
# Shared specification functions.  Plain Python in the subset pyvc executes: the same text is translated to SMT for
# the proofs and run natively for replay and bounded stand-ins.  Names such as is_str, same, VALUE come from pyvc.api
# (native) / pyvc.world.SpecAPI (symbolic).


def text_of(v):
    """ how text functions see a non-error value: blank is empty text, text is itself, anything else str(v) """
    if v is None:
        return ''
    if is_str(v):
        return v
    return str(v)


def first_chars(s, n):
    """ the first min(n, len) characters, n >= 0 """
    if n >= len(s):
        return s
    return s[0:n]


def last_chars(s, n):
    """ the last min(n, len) characters, n >= 0 """
    if n >= len(s):
        return s
    return s[len(s) - n:len(s)]


def truth(v):
    """ C12: TRUE and non-zero numbers are true; FALSE, zero and blank are false.  On those values this is Python
        truthiness, which is what `truthy` denotes (one non-forking term); text and dates, which the statement does
        not mention, follow Python truthiness as well. """
    return truthy(v)


def join_texts(items, k):
    """ concatenation of text_of(items[0..k)) for a concrete-length list """
    out = ''
    for i in range(0, k):
        out = out + text_of(items[i])
    return out
