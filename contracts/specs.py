# -*- coding: utf-8 -*-
# Shared specification functions.  Plain Python in the subset pyvc executes: the same text is translated to SMT for
# the proofs and run natively for replay and bounded stand-ins.  Names such as is_str, same, VALUE come from pyvc.api
# (native) / pyvc.world.SpecAPI (symbolic).


def text_of(v):
    """ how text functions see a non-error value: blank is empty text, text is itself, anything else str(v) """
    if v is None:
        return ''
    if is_str(v):
        return v
    return str(v)


def first_chars(s, n):
    """ the first min(n, len) characters, n >= 0 """
    if n >= len(s):
        return s
    return s[0:n]


def last_chars(s, n):
    """ the last min(n, len) characters, n >= 0 """
    if n >= len(s):
        return s
    return s[len(s) - n:len(s)]


def truth(v):
    """ C12: TRUE and non-zero numbers are true; FALSE, zero and blank are false.  On those values this is Python
        truthiness, which is what `truthy` denotes (one non-forking term); text and dates, which the statement does
        not mention, follow Python truthiness as well. """
    return truthy(v)


def join_texts(items, k):
    """ concatenation of text_of(items[0..k)) for a concrete-length list """
    out = ''
    for i in range(0, k):
        out = out + text_of(items[i])
    return out


# ---------------------------------------------------------------------------------------------- dates (C13)

D1900 = datetime.datetime(1900, 1, 1)
MARCH1_1900 = datetime.datetime(1900, 3, 1)
US_PER_DAY = 86400000000


def days_since_1900(d):
    """ (fractional) days between 1900-01-01 00:00 and d """
    return (date_us(d) - date_us(D1900)) / US_PER_DAY


def serial(d):
    """ C13: Excel 1900 date system.  0 at 1900-01-01 00:00; days since 1900-01-01 plus 1 before 1 March 1900 (Excel counts a
        29 February 1900 that never existed); from 1 March 1900 00:00 on, days since 1899-12-30 (= days since 1900-01-01 + 2) """
    if date_us(d) == date_us(D1900):
        return 0
    if date_us(d) < date_us(MARCH1_1900):
        return days_since_1900(d) + 1
    return days_since_1900(d) + 2


def date_of_serial(n):
    """ inverse direction used by parse_date: n is a non-negative number """
    if n < 1:
        return D1900
    if n <= 60:
        return date_from_us(date_us(D1900) + (n - 1) * US_PER_DAY)
    return date_from_us(date_us(D1900) + (n - 2) * US_PER_DAY)


def text_number(v):
    """ what to_number makes of a value: numeric text becomes its number, everything else is unchanged """
    if is_str(v) and '_' not in v:
        if text_is_int(v):
            return int_of_text(v)
        if text_is_float(v):
            return float_of_text(v)
    return v


def dateutil_parse_or_value(text):
    """ parse_date on non-numeric text: dateutil's result, #VALUE! when dateutil raises ValueError (OverflowError escapes) """
    try:
        return dateutil_parse(text)
    except ValueError:
        return VALUE


# ---------------------------------------------------------------------------------------------- comparisons (C07)

def cmp_rank(v):
    """ non-blank scalar: numbers and dates 0 < text 1 < logicals 2 """
    if is_bool(v):
        return 2
    if is_str(v):
        return 1
    return 0


def cmp_num(v):
    """ numeric key of a rank-0 value: dates by serial """
    if is_date(v):
        return serial(v)
    return v


def blank_as(other):
    """ a blank compares as 0, as empty text or as FALSE according to the other operand """
    if is_bool(other):
        return False
    if is_str(other):
        return ''
    return 0


def xl_lt(a, b):
    if a is None and b is None:
        return False
    if a is None:
        a = blank_as(b)
    if b is None:
        b = blank_as(a)
    ra = cmp_rank(a)
    rb = cmp_rank(b)
    if ra != rb:
        return ra < rb
    if ra == 0:
        return cmp_num(a) < cmp_num(b)
    if ra == 1:
        return a < b
    return (not a) and b


def xl_eq(a, b):
    if a is None and b is None:
        return True
    if a is None:
        a = blank_as(b)
    if b is None:
        b = blank_as(a)
    ra = cmp_rank(a)
    rb = cmp_rank(b)
    if ra != rb:
        return False
    if ra == 0:
        return cmp_num(a) == cmp_num(b)
    if ra == 1:
        return same(a, b)
    return same(a, b)


def xl_gt(a, b):
    return xl_lt(b, a)


def date_ok(v):
    """ dates the statement quantifies over: from 1 January 1900 on (non-dates are unconstrained) """
    if is_date(v):
        return date_us(v) >= date_us(D1900)
    return True


# ---------------------------------------------------------------------------------------------- arithmetic (C06)

def classify(value):
    """ C06 operand classes: (acting value, class) with class in number/date/text/blank/error """
    if is_numb(value):
        return (value, 'number')
    if is_date(value):
        return (value, 'date')
    if is_str(value):
        n = text_number(value)
        if is_numb(n):
            return (n, 'number')
        d = dateutil_parse_or_value(n)
        if is_err(d):
            return (value, 'text')
        return (d, 'date')
    if value is None:
        return (None, 'blank')
    if is_err(value):
        return (value, 'error')
    return (VALUE, 'error')


def numeric_value(v, cls):
    """ numbers as themselves, TRUE/FALSE as 1/0 (Python bool arithmetic), blank as 0, dates as their serial """
    if cls == 'date':
        return serial(v)
    if cls == 'blank':
        return 0
    return v


def date_result(op, lcls, rcls):
    """ the result is a date exactly when one operand is a date and the other a number or blank,
        except for a division involving a blank (independent table, see DESIGN C06) """
    one_date = (lcls == 'date') != (rcls == 'date')
    if not one_date:
        return False
    if op == '/' and (lcls == 'blank' or rcls == 'blank'):
        return False
    return True


def arith(op, x, y):
    if op == '+':
        return x + y
    if op == '-':
        return x - y
    if op == '*':
        return x * y
    return x / y


def as_date_result(n):
    """ a numeric result returned as a date: #NUM! if it would precede 1900 """
    if n < 0:
        return NUM
    try:
        return date_of_serial(n)
    except OverflowError:
        return NUM            # beyond 31 December 9999 there is no date either (the operator's own value since the fix 'too large is #NUM!')


def amp(a, b):
    """ C06/C08: & joins its operands as text - text verbatim, integers as their digits, blank as nothing; an error operand
        is the result (the left one when both are).  Other values (floats, logicals, dates) read as Python's str(). """
    if is_err(a):
        return a
    if is_err(b):
        return b
    return text_of(a) + text_of(b)
