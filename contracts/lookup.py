# -*- coding: utf-8 -*-
# Sidecar contracts for hotxlfp/formulas/lookupandreference.py (C18)

NUMV = INT | FLOAT


def is_error_outcome(out):
    """ 'an error': an error value is returned or an exception escapes (mapped to an error code by Parser.parse) """
    return (not out.ret) or is_err(out.value)


@contract('hotxlfp.formulas.lookupandreference:CHOOSE', props=['C18'])
class CHOOSE:
    cases = [dict(args=()), dict(args=TUPLE(SCALAR)), dict(args=TUPLE(SCALAR, VALUE_T)), dict(args=TUPLE(SCALAR, VALUE_T, VALUE_T)),
             dict(args=TUPLE(SCALAR, VALUE_T, VALUE_T, VALUE_T)), dict(args=TUPLE(SCALAR, VALUE_T, VALUE_T, VALUE_T, VALUE_T))]

    def post(args, out):
        n = len(args) - 1
        if n >= 1 and (is_int(args[0]) or is_bool(args[0]) or (is_float(args[0]) and args[0] == int(args[0]))):
            i = int(args[0])          # a position computed as a float (4/2) is the position it equals
            if 1 <= i and i <= n:
                return out.ret and same(out.value, args[i])
        # otherwise an error - never one of the values
        return is_error_outcome(out)


@contract('hotxlfp.formulas.lookupandreference:INDEX', props=['C18'])
class INDEX_1d:
    # one-dimensional array, addressed by position
    args = dict(arr=SEQ(SCALAR, minlen=1), area_num=OMITTED)
    cases = [dict(row_num=INT, column_num=OMITTED), dict(row_num=INT, column_num=INT)]

    def post(arr, row_num, column_num, area_num, out):
        n = len(arr)
        r = row_num
        if column_num is OMITTED:
            if 1 <= r and r <= n:
                return out.ret and same(out.value, arr[r - 1])
            if r == 0:
                return out.ret and same(out.value, arr)
            return is_error_outcome(out)
        c = column_num
        if 1 <= r and r <= n and c == 1:
            return out.ret and same(out.value, arr[r - 1])
        # every other combination: an error, the whole array, or (column 0 = 'whole row' of a one-element row) that element -
        # never some other element
        if is_error_outcome(out):
            return True
        if r == 0 and (c == 0 or c == 1):
            return same(out.value, arr)              # row 0 = the whole (single) column
        if 1 <= r and r <= n and c == 0:
            return same(out.value, arr[r - 1])
        return False


S = SCALAR


@contract('hotxlfp.formulas.lookupandreference:INDEX', props=['C18'])
class INDEX_2d:
    # two-dimensional arrays: every shape up to 3x3 is a case (cell values and indices are unbounded, the shape is not);
    # larger shapes (to 8x8) are covered by the bounded stand-in of the property
    args = dict(area_num=OMITTED, row_num=INT)
    cases = [dict(arr=LISTN(LISTN(S)), column_num=INT), dict(arr=LISTN(LISTN(S)), column_num=OMITTED),
             dict(arr=LISTN(LISTN(S, S)), column_num=INT), dict(arr=LISTN(LISTN(S), LISTN(S)), column_num=INT),
             dict(arr=LISTN(LISTN(S, S), LISTN(S, S)), column_num=INT), dict(arr=LISTN(LISTN(S, S), LISTN(S, S)), column_num=OMITTED),
             dict(arr=LISTN(LISTN(S, S, S), LISTN(S, S, S)), column_num=INT),
             dict(arr=LISTN(LISTN(S, S), LISTN(S, S), LISTN(S, S)), column_num=INT),
             dict(arr=LISTN(LISTN(S, S, S), LISTN(S, S, S), LISTN(S, S, S)), column_num=INT)]

    def post(arr, row_num, column_num, area_num, out):
        n = len(arr)
        m = len(arr[0])
        r = row_num
        if column_num is OMITTED:
            if 1 <= r and r <= n:
                return out.ret and same(out.value, arr[r - 1])
            return is_error_outcome(out) or (r == 0 and same(out.value, arr))
        c = column_num
        if 1 <= r and r <= n and 1 <= c and c <= m:
            return out.ret and same(out.value, arr[r - 1][c - 1])
        if r == 0 and c == 0:
            return out.ret and same(out.value, arr)
        if 1 <= r and r <= n and c == 0:
            return out.ret and same(out.value, arr[r - 1])
        if r == 0 and 1 <= c and c <= m:
            return out.ret and same(out.value, [arr[j][c - 1] for j in range(0, n)])
        return is_error_outcome(out)


@contract('hotxlfp.formulas.lookupandreference:MATCH', props=['C18'])
class MATCH:
    # exact match (type 0) on numeric arrays of any length: proved with the invariant "no item of the prefix equals x"
    args = dict(lookup_value=NUMV, lookup_array=SEQ(NUMV, minlen=1), match_type=CONST(0))

    def post(lookup_value, lookup_array, match_type, out):
        a = lookup_array
        x = lookup_value
        n = len(a)
        p = out.value
        if exists(0, n, lambda j: a[j] == x):
            return out.ret and is_int(p) and 1 <= p and p <= n and a[p - 1] == x and forall(0, p - 1, lambda j: a[j] != x)
        return out.ret and same(p, NOT_AVAILABLE)

    loops = [dict(
        types=dict(index=NONE_T, index_value=NONE_T),
        inv=lambda k, lookup_array, lookup_value, index, index_value:
            index is None and index_value is None and forall(0, k, lambda j: lookup_array[j] != lookup_value))]


def _sorted_arrays(rng):
    """ all ascending / descending arrays over -3..3 (with duplicates) of length 1..5, every lookup value in -4..4 and halves """
    import itertools
    vals = [-3, -2, -1, 0, 1, 2, 3]
    for n in range(1, 6):
        for combo in itertools.combinations_with_replacement(vals, n):
            for x in (-4, -3, -2.5, -2, -1, -0.5, 0, 0.5, 1, 2, 2.5, 3, 4):
                yield [x, list(combo), 1]
                yield [x, list(reversed(combo)), -1]
                yield [x, list(combo), 0]


@contract('hotxlfp.formulas.lookupandreference:MATCH', props=['C18'], bounded_only=True,
          reason='approximate match (types 1 / -1): the quantified invariants over a sorted array exceeded the solver budget; '
                 'bounded: all sorted arrays of length <= 5 over -3..3 with duplicates, 13 lookup values')
class MATCH_sorted:
    args = dict(lookup_value=NUMV, lookup_array=SEQ(NUMV, minlen=1), match_type=INT)
    domain = _sorted_arrays

    def post(lookup_value, lookup_array, match_type, out):
        a = lookup_array
        x = lookup_value
        n = len(a)
        p = out.value
        if match_type == 0:
            if exists(0, n, lambda j: a[j] == x):
                return out.ret and is_int(p) and a[p - 1] == x and forall(0, p - 1, lambda j: a[j] != x)
            return out.ret and same(p, NOT_AVAILABLE)
        if match_type == 1:
            if exists(0, n, lambda j: a[j] <= x):
                return out.ret and is_int(p) and 1 <= p and p <= n and a[p - 1] <= x and \
                    forall(0, n, lambda j: implies(a[j] <= x, a[j] <= a[p - 1]))
            return out.ret and same(p, NOT_AVAILABLE)
        if exists(0, n, lambda j: a[j] >= x):
            return out.ret and is_int(p) and 1 <= p and p <= n and a[p - 1] >= x and \
                forall(0, n, lambda j: implies(a[j] >= x, a[j] >= a[p - 1]))
        return out.ret and same(p, NOT_AVAILABLE)


def _text_arrays(rng):
    words = ['apple', 'Apple', 'banana', 'b?n*', 'cherry', '', 'a*', 'APPLE', 'ch?rry', 'app', 'apple pie', 'AB-1', 'AB-10', 'AB-100', 'pea', 'pear', 'a.c', 'abc', 'a[b]', 'a~*']
    for n in range(1, 5):
        for _ in range(60):
            arr = [rng.choice(words[:6] + words[9:] + [3, 2.5, True, None]) for _ in range(n)]
            for x in words:
                yield [x, arr, 0]


@contract('hotxlfp.formulas.lookupandreference:MATCH', props=['C18'], bounded_only=True,
          reason='text lookup goes through fnmatch (assumed library contract); bounded over word lists')
class MATCH_text:
    args = dict(lookup_value=STR, lookup_array=SEQ(STR | NUMBERB | NONE_T, minlen=1), match_type=INT)
    domain = _text_arrays

    def post(lookup_value, lookup_array, match_type, out):
        a = lookup_array
        n = len(a)
        hits = [j for j in range(n) if is_str(a[j]) and wildcard_match(a[j].lower(), lookup_value.lower())]     # a non-text item never equals a text; * and ? are the only wildcards
        if lookup_value == '':
            return True       # an empty lookup text is outside the statement
        if hits:
            return out.ret and out.value == hits[0] + 1
        return out.ret and same(out.value, NOT_AVAILABLE)


@lemma(props=['C18'])
class index_of_match:
    """ INDEX(array, MATCH(x, array, 0)) = x whenever x occurs (over the two contracts, one-dimensional numeric arrays) """
    args = dict(x=NUMV, a=SEQ(NUMV, minlen=1), p=INT)

    def pre(x, a, p):
        # p is any position MATCH's postcondition allows for a present x
        return 1 <= p and p <= len(a) and a[p - 1] == x

    def claim(x, a, p):
        # INDEX's postcondition for an inside position: the element at p
        return a[p - 1] == x

