# -*- coding: utf-8 -*-
# Sidecar contracts for hotxlfp/formulas/information.py (C12, C08)


@contract('hotxlfp.formulas.information:ISBLANK', props=['C12'])
class ISBLANK:
    args = dict(value=VALUE_T)

    def spec(value):
        return is_none(value)


@contract('hotxlfp.formulas.information:ISERROR', props=['C12', 'C08'])
class ISERROR:
    args = dict(value=VALUE_T)

    def spec(value):
        return is_err(value)


@contract('hotxlfp.formulas.information:ISERR', props=['C12', 'C08'])
class ISERR:
    args = dict(value=VALUE_T)

    def spec(value):
        return is_err(value) and not same(value, NOT_AVAILABLE)


@contract('hotxlfp.formulas.information:ISNA', props=['C12', 'C08'])
class ISNA:
    args = dict(value=SCALAR)

    def spec(value):
        return is_err(value) and same(value, NOT_AVAILABLE)


@contract('hotxlfp.formulas.information:ISTEXT', props=['C12'])
class ISTEXT:
    args = dict(value=VALUE_T)

    def spec(value):
        return is_str(value)


@contract('hotxlfp.formulas.information:ISNONTEXT', props=['C12'])
class ISNONTEXT:
    args = dict(value=VALUE_T)

    def spec(value):
        return not is_str(value)


@contract('hotxlfp.formulas.information:ISNUMBER', props=['C12'])
class ISNUMBER:
    args = dict(value=VALUE_T)

    def spec(value):
        return is_num(value)


@contract('hotxlfp.formulas.information:ISLOGICAL', props=['C12'])
class ISLOGICAL:
    args = dict(value=VALUE_T)

    def spec(value):
        return is_bool(value)


@contract('hotxlfp.formulas.information:ISEVEN', props=['C12'])
class ISEVEN:
    args = dict(number=SCALAR)

    def post(number, out):
        if is_numb(number):
            # parity of the integer part (truncation toward zero)
            return out.ret and is_bool(out.value) and out.value == (int(number) % 2 == 0)
        return out.ret and same(out.value, VALUE)


@contract('hotxlfp.formulas.information:ISODD', props=['C12'])
class ISODD:
    args = dict(number=SCALAR)

    def post(number, out):
        if is_numb(number):
            # complementary to ISEVEN as a truth value (the code returns 0/1)
            return out.ret and is_numb(out.value) and truthy(out.value) == (int(number) % 2 == 1)
        return out.ret and same(out.value, VALUE)


@contract('hotxlfp.formulas.information:ERROR_TYPE', props=['C08'])
class ERROR_TYPE:
    args = dict(error_val=SCALAR)

    def spec(error_val):
        if is_err(error_val):
            if same(error_val, NULL):
                return 1
            if same(error_val, DIV_ZERO):
                return 2
            if same(error_val, VALUE):
                return 3
            if same(error_val, REF):
                return 4
            if same(error_val, NAME):
                return 5
            if same(error_val, NUM):
                return 6
            if same(error_val, NOT_AVAILABLE):
                return 7
            if same(error_val, DATA):
                return 8
        return NOT_AVAILABLE


@lemma(props=['C12'])
class predicates_exclusive:
    """ ISNUMBER, ISTEXT, ISLOGICAL, ISBLANK, ISERROR are pairwise exclusive (over their contracts) and ISNONTEXT = not ISTEXT,
        ISERROR = ISERR or ISNA """
    args = dict(v=VALUE_T)

    def claim(v):
        n = 0
        if ISNUMBER.spec(v):
            n = n + 1
        if ISTEXT.spec(v):
            n = n + 1
        if ISLOGICAL.spec(v):
            n = n + 1
        if ISBLANK.spec(v):
            n = n + 1
        if ISERROR.spec(v):
            n = n + 1
        return n <= 1 and ISNONTEXT.spec(v) == (not ISTEXT.spec(v)) and \
            implies(not is_list(v), ISERROR.spec(v) == (ISERR.spec(v) or ISNA.spec(v)))
