# -*- coding: utf-8 -*-
# Sidecar contract for hotxlfp/formulas/financial.py (C16)


@contract('hotxlfp.formulas.financial:PV', props=['C16'])
class PV:
    # real arithmetic; (1+r)^n is an uninterpreted positive quantity q: the annuity equation is a polynomial identity in q
    args = dict(rate=INT | FLOAT, periods=INT | FLOAT, payment=INT | FLOAT, future=INT | FLOAT)
    cases = [dict(type=CONST(0)), dict(type=CONST(1)), dict(type=OMITTED)]
    no_native = True
    timeout_s = 120

    def pre(rate, periods, payment, future, type):
        return rate > -1

    def post(rate, periods, payment, future, type, out):
        t = 0 if type is OMITTED else type
        if not out.ret:
            return False
        pv = out.value
        if rate == 0:
            return same(real(pv) + real(payment) * periods + future, real(0))
        q = (1 + rate) ** periods
        if q == 0:
            return True
        # pv (1+r)^n + pmt (1 + r type) ((1+r)^n - 1) / r + fv = 0, multiplied by r (r != 0 here)
        return real(pv) * q * rate + real(payment) * (1 + rate * t) * (q - 1) + future * rate == 0
