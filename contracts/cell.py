# -*- coding: utf-8 -*-
# Sidecar contracts for hotxlfp/helper/cell.py (C19, C10)


@contract('hotxlfp.helper.cell:row_label_to_index', props=['C19'])
class row_label_to_index:
    # row labels are digit strings; int(label) is the assumed text->number function (py_int)
    args = dict(label=STR)

    def pre(label):
        return text_is_int(label)

    def spec(label):
        n = int_of_text(label)
        return n - 1 if n - 1 > -1 else -1


@contract('hotxlfp.helper.cell:row_index_to_label', props=['C19'])
class row_index_to_label:
    args = dict(row=INT)

    def spec(row):
        if row >= 0:
            return str(row + 1)
        return ''


def _all_labels(rng):
    import itertools
    letters = 'abcdefghijklmnopqrstuvwxyz'
    # every label of 1..3 letters (18278), both cases mixed, plus a seeded sample of 4-letter labels (thorough: all of them)
    for n in (1, 2, 3):
        for t in itertools.product(letters, repeat=n):
            s = ''.join(t)
            yield [s.upper() if (len(s) + ord(s[0])) % 2 else s]
    for _ in range(20000):
        yield [''.join(rng.choice(letters + letters.upper()) for _ in range(4))]


@contract('hotxlfp.helper.cell:column_label_to_index', props=['C19'], bounded_only=True,
          reason='positional sum with 26**j over a symbolic string: needs nonlinear induction; decided by exhaustive native enumeration')
class column_label_to_index:
    args = dict(label=STR)
    domain = _all_labels

    def abstract(label):
        # col_value: bijective base 26, V('') = 0, V(s.c) = 26 V(s) + d(c) + 1 (pyvc.api.col_value)
        return col_value(label) - 1


def _all_indices(rng):
    for n in range(0, 18278 + 200):
        yield [n]
    for _ in range(20000):
        yield [rng.randrange(18278, 26**5)]


@contract('hotxlfp.helper.cell:column_index_to_label', props=['C19', 'C01'])
class column_index_to_label:
    # proved: termination (variant: the column index) and that every produced character is a letter; the value of the label
    # (bijective base 26) is decided by exhaustive native enumeration of the round trip
    args = dict(column=INT)
    domain = _all_indices

    def post(column, out):
        if column < 0:
            return out.ret and same(out.value, '')
        return out.ret and is_str(out.value)

    def post_native(column, out):
        if column < 0:
            return True
        return col_value(out.value) - 1 == column and out.value == out.value.upper() and out.value.isalpha()

    def abstract(column):
        return col_label(column)

    loops = [dict(types=dict(column=INT, result=STR),
                  inv=lambda result, column, old_column: is_str(result) and column <= old_column and
                  (len(result) == 0 or old_column >= 0),
                  variant=lambda column: column + 1)]


@contract('hotxlfp.helper.cell:to_label', props=['C19', 'C10'])
class to_label:
    args = dict(row=OBJECT('hotxlfp.helper.cell:ParsedLabel', index=INT, label=STR, is_absolute=BOOL),
                column=OBJECT('hotxlfp.helper.cell:ParsedLabel', index=INT, label=STR, is_absolute=BOOL))
    def spec(row, column):
        return ('$' if column.is_absolute else '') + col_label(column.index) + \
               ('$' if row.is_absolute else '') + row_index_to_label.spec(row.index)


@contract('hotxlfp.helper.cell:extract_label', props=['C19', 'C10'])
class extract_label:
    # proved: strings that are not cell labels decompose to nothing; a label decomposes into exactly its column letters and row
    # digits (as written), with the absolute markers reported faithfully and indices computed by the two codecs.
    # bounded (post_native): recomposition through to_label gives the label in upper case.
    args = dict(label=STR)

    def post(label, out):
        if not is_cell_label(label):
            return out.ret and is_list(out.value) and len(out.value) == 0
        if not out.ret or not is_list(out.value) or len(out.value) != 2:
            return False
        row = out.value[0]
        col = out.value[1]
        pieces = ('$' if col.is_absolute else '') + col.label + ('$' if row.is_absolute else '') + row.label
        return same(pieces, label) and is_bool(row.is_absolute) and is_bool(col.is_absolute) and \
            len(col.label) >= 1 and len(row.label) >= 1 and \
            same(row.index, row_label_to_index.spec(row.label)) and col.index == col_value(col.label) - 1

    def abstract(label):
        # the same decomposition as a function of the label (for callers)
        if not is_cell_label(label):
            return []
        p = label_parts(label)
        return [parsed_label(row_label_to_index.spec(p[3]), p[3], p[2]), parsed_label(col_value(p[1]) - 1, p[1], p[0])]

    def post_native(label, out):
        import re
        m = re.match(r'(\$?)([A-Za-z]+)(\$?)([1-9][0-9]*)\Z', label)
        if m is None:
            return True
        row = out.value[0]
        col = out.value[1]
        return to_label.spec(row, col) == label.upper() and row.index == int(m.group(4)) - 1 and \
            row.is_absolute == (m.group(3) == '$') and col.is_absolute == (m.group(1) == '$')


@contract('hotxlfp.helper.cell:Cell.__init__', props=['C10'])
class Cell_init:
    args = dict(self=OBJECT('hotxlfp.helper.cell:Cell'), label=ANY, row=ANY, col=ANY)
    cases = [dict(), dict(row=OMITTED, col=OMITTED)]
    no_native = True

    def attrs(self, label, row, col):
        return {'label': label, 'row': None if row is OMITTED else row, 'col': None if col is OMITTED else col}
