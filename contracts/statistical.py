# -*- coding: utf-8 -*-
# Sidecar contracts for the aggregates (C11): hotxlfp/formulas/statistical.py, mathtrig.SUM/SUMIF/SUMIFS, utils.parse_criteria, inumbers

NUMS = ARGS(NUMBER, minlen=1)


def first_error_or_none(items):
    for x in items:
        if is_err(x):
            return x
    return None


@contract('hotxlfp.formulas.utils:inumbers', props=['C11'], bounded_only=True,
          reason='generator over iflatten: outside the subset; callers use the abstraction below, checked natively on nested samples')
class inumbers:
    args = dict(l=ARGS(VALUE_T), try_parse=BOOL, text_is_zero=BOOL)
    bounded_args = dict(l=ARGS(VALUE_T), try_parse=CHOICE(True, False), text_is_zero=CHOICE(True, False))

    def abstract(l, try_parse, text_is_zero):
        # the first embedded error is raised; on all-numeric items every flag combination selects all items, in order
        items = flat(l) if is_list(l) else [l]
        if exists(0, len(items), lambda j: is_err(items[j])):
            raise_err(first_error(items))
        if forall(0, len(items), lambda j: is_num(items[j])):
            return items
        return numeric_items(items, try_parse, text_is_zero)


@contract('hotxlfp.formulas.mathtrig:SUM', props=['C11'])
class SUM:
    args = dict(args=NUMS)

    def post(args, out):
        return out.ret and same(out.value, sum(flat(args)))


@contract('hotxlfp.formulas.mathtrig:PRODUCT', props=['C11'])
class PRODUCT:
    args = dict(args=NUMS)
    no_native = True

    def post(args, out):
        return out.ret and same(out.value, stat('product', flat(args)))


NUMS_OR_ERRORS = ARGS(NUMBER | ERR, minlen=1)


def has_error_item(args):
    return exists(0, len(args), lambda j: is_err(args[j]))


def is_error_among(args, out):
    # the outcome is an error value that occurs among the items (returned, or raised for call_function to turn into the value)
    if out.ret:
        return is_err(out.value) and exists(0, len(args), lambda j: is_err(args[j]) and same(args[j], out.value))
    return out.exc == 'XLError' and exists(0, len(args), lambda j: is_err(args[j]) and same(args[j], out.err))


@contract('hotxlfp.formulas.mathtrig:SUM', props=['C11'])
class SUM_error_item:
    # "an error value among the items makes the result that error": any number of items, the error(s) anywhere among them
    args = dict(args=NUMS_OR_ERRORS)

    def pre(args):
        return has_error_item(args)

    def post(args, out):
        return is_error_among(args, out)


@contract('hotxlfp.formulas.mathtrig:PRODUCT', props=['C11'])
class PRODUCT_error_item:
    args = dict(args=NUMS_OR_ERRORS)

    def pre(args):
        return has_error_item(args)

    def post(args, out):
        return is_error_among(args, out)


@contract('hotxlfp.formulas.statistical:AVERAGE', props=['C11'])
class AVERAGE_error_item:
    args = dict(args=NUMS_OR_ERRORS)

    def pre(args):
        return has_error_item(args)

    def post(args, out):
        return is_error_among(args, out)


@contract('hotxlfp.formulas.statistical:MIN', props=['C11'])
class MIN_error_item:
    args = dict(args=NUMS_OR_ERRORS)

    def pre(args):
        return has_error_item(args)

    def post(args, out):
        return is_error_among(args, out)


@contract('hotxlfp.formulas.statistical:MAX', props=['C11'])
class MAX_error_item:
    args = dict(args=NUMS_OR_ERRORS)

    def pre(args):
        return has_error_item(args)

    def post(args, out):
        return is_error_among(args, out)


@contract('hotxlfp.formulas.statistical:MEDIAN', props=['C11'])
class MEDIAN_error_item:
    args = dict(args=NUMS_OR_ERRORS)

    def pre(args):
        return has_error_item(args)

    def post(args, out):
        return is_error_among(args, out)


@contract('hotxlfp.formulas.statistical:MAX', props=['C11'])
class MAX:
    args = dict(args=NUMS)

    def post(args, out):
        return out.ret and same(out.value, max(flat(args)))


@contract('hotxlfp.formulas.statistical:MIN', props=['C11'])
class MIN:
    args = dict(args=NUMS)

    def post(args, out):
        return out.ret and same(out.value, min(flat(args)))


@contract('hotxlfp.formulas.statistical:COUNT', props=['C11'])
class COUNT:
    args = dict(args=ARGS(SCALAR))

    def post(args, out):
        return out.ret and same(out.value, len(flat(args)))


@contract('hotxlfp.formulas.statistical:AVERAGE', props=['C11'])
class AVERAGE:
    args = dict(args=NUMS)
    no_native = True

    def post(args, out):
        return out.ret and same(out.value, stat('mean', flat(args)))


@contract('hotxlfp.formulas.statistical:MEDIAN', props=['C11'])
class MEDIAN:
    args = dict(args=NUMS)
    no_native = True

    def post(args, out):
        return out.ret and same(out.value, stat('median', flat(args)))


@contract('hotxlfp.formulas.statistical:LARGE', props=['C11', 'C02'])
class LARGE:
    # index safety: the n-th largest exists exactly for 1 <= n <= number of items; the array is sorted into a copy, never in place
    args = dict(arr=SEQ(NUMBER, minlen=1), n=INT)
    no_native = True

    def post(arr, n, out):
        if n < 1 or n > len(arr):
            return out.ret and same(out.value, NUM)
        return out.ret and is_num(out.value)


@contract('hotxlfp.formulas.utils:parse_criteria', props=['C11'])
class parse_criteria:
    # criteria strings of the three forms (concrete here: the regex decomposition runs natively); the compiled predicate is
    # checked on an arbitrary item (ghost argument)
    cases = [dict(criteria='>5'), dict(criteria='<5'), dict(criteria='>=5'), dict(criteria='<=-2.5'), dict(criteria='=7'), dict(criteria='<>7'),
             dict(criteria='7'), dict(criteria='-2.5'), dict(criteria=7), dict(criteria=-2.5)]        # a bare value may be a number itself, not only text
    ghost = dict(a=NUMBER)

    def post(criteria, a, out):
        if not out.ret:
            return False
        pred = out.value
        v = pred(a)
        if criteria == '>5':
            return same(v, a > 5)
        if criteria == '<5':
            return same(v, a < 5)
        if criteria == '>=5':
            return same(v, a >= 5)
        if criteria == '<=-2.5':
            return same(v, a <= -2.5)
        if criteria == '=7' or criteria == '7' or (is_num(criteria) and criteria == 7):
            return same(v, a == 7)
        if criteria == '<>7':
            return same(v, a != 7)
        return same(v, a == -2.5)


@contract('hotxlfp.formulas.utils:parse_criteria', props=['C11'])
class parse_criteria_wildcard:
    # text with * and ? wildcards: the ITEM is matched against the criterion as the pattern
    cases = [dict(criteria='ab*'), dict(criteria='a?c'), dict(criteria='*x*'), dict(criteria='ab?'), dict(criteria='*bc'),
             dict(criteria='a[1]*'), dict(criteria='[!a]?'), dict(criteria='*[x]')]          # [ ] ! are ordinary characters
    ghost = dict(a=STR)

    def post(criteria, a, out):
        if not out.ret:
            return False
        return same(out.value(a), wildcard_match(a, criteria))


@inductive
def selected_max(k, items, cells):
    """ the largest of the first k items whose criteria cell satisfies '>0'; None while nothing is selected """
    if k <= 0 or k > len(items) or k > len(cells):
        return None
    m = selected_max(k - 1, items, cells)
    if cells[k - 1] > 0:
        return items[k - 1] if m is None else max(m, items[k - 1])
    return m


@contract('hotxlfp.formulas.statistical:MAXIFS', props=['C11'])
class MAXIFS_inductive:
    # the maximum of exactly the selected items (recursive definition over the prefix), 0 when nothing is selected; any length
    args = dict(sum_args=SEQ(INT, minlen=1))
    cases = [dict(criteria=TUPLE(SEQ(INT, minlen=1), CONST('>0')))]
    inline_callees = ['parse_criteria']

    def pre(sum_args, criteria):
        return len(criteria[0]) == len(sum_args)

    def post(sum_args, criteria, out):
        m = selected_max(len(sum_args), sum_args, criteria[0])
        if m is None:
            return out.ret and same(out.value, 0)
        return out.ret and same(out.value, m)

    loops = [dict(types=dict(b=INT | NONE_T), inv=lambda k, sum_args, criteria, b: same(b, selected_max(k, sum_args, criteria[0])))]


@contract('hotxlfp.formulas.statistical:MAXIFS', props=['C11'])
class MAXIFS:
    # one criteria range / criterion pair ('>0' on the criteria cells); the maximum of exactly the selected items, 0 when none is
    # symbolic proof over integer items of any length (mixed int/float items multiply the quantifier bodies beyond the budget:
    # decimals are covered by the bounded runs)
    args = dict(sum_args=SEQ(INT, minlen=1))
    cases = [dict(criteria=TUPLE(SEQ(INT, minlen=1), CONST('>0')))]
    bounded_args = dict(sum_args=SEQ(NUMBER, minlen=1, maxlen=1))
    inline_callees = ['parse_criteria']
    no_native = True
    tiers = ('thorough',)           # the quantified characterisation (exists an equal selected item, all selected items <=) costs ~80 s
    timeout_s = 300
    solver_timeout_ms = 45000      # the two quantified inv.keep obligations take 5-15 s each on an idle machine

    def pre(sum_args, criteria):
        return len(criteria[0]) == len(sum_args)

    def post(sum_args, criteria, out):
        a = sum_args
        c = criteria[0]
        n = len(a)
        if exists(0, n, lambda j: c[j] > 0):
            return out.ret and exists(0, n, lambda j: c[j] > 0 and same_num(a[j], out.value)) and \
                forall(0, n, lambda j: implies(c[j] > 0, a[j] <= out.value))
        return out.ret and same(out.value, 0)

    loops = [dict(types=dict(b=INT | NONE_T),
                  inv=lambda k, sum_args, criteria, b:
                  (b is None and forall(0, k, lambda j: not criteria[0][j] > 0)) or
                  (b is not None and exists(0, k, lambda j: criteria[0][j] > 0 and same_num(sum_args[j], b)) and
                   forall(0, k, lambda j: implies(criteria[0][j] > 0, sum_args[j] <= b))))]


def same_num(x, y):
    return x == y


@inductive
def selected_sum(k, items, cells):
    """ the sum of the first k items whose criteria cell satisfies '>0' (the textbook definition, by recursion on k) """
    if k <= 0 or k > len(items) or k > len(cells):
        return 0
    if cells[k - 1] > 0:
        return selected_sum(k - 1, items, cells) + items[k - 1]
    return selected_sum(k - 1, items, cells)


@inductive
def selected_count(k, cells):
    if k <= 0 or k > len(cells):
        return 0
    if cells[k - 1] > 0:
        return selected_count(k - 1, cells) + 1
    return selected_count(k - 1, cells)


@contract('hotxlfp.formulas.mathtrig:SUMIFS', props=['C11'])
class SUMIFS:
    # one criteria range / criterion pair ('>0' on the criteria cells): the sum of exactly the selected items, any length, 0 when
    # nothing is selected (selected_sum(0..) = 0); ranges of different lengths are #VALUE!
    args = dict(sum_args=SEQ(NUMBER, minlen=1))
    cases = [dict(criteria=TUPLE(SEQ(NUMBER, minlen=1), CONST('>0')))]
    inline_callees = ['parse_criteria']

    def post(sum_args, criteria, out):
        if len(criteria[0]) != len(sum_args):
            return out.ret and same(out.value, VALUE)
        return out.ret and same(out.value, selected_sum(len(sum_args), sum_args, criteria[0]))

    loops = [None,
             dict(types=dict(b=NUMBER), inv=lambda k, sum_args, criteria, b: same(b, selected_sum(k, sum_args, criteria[0])))]


@inductive
def selected_sum2(k, items, cells1, cells2):
    """ two criteria: an item counts when the cell of EVERY criteria range satisfies its criterion ('>0' and '<=2' here) """
    if k <= 0 or k > len(items) or k > len(cells1) or k > len(cells2):
        return 0
    if cells1[k - 1] > 0 and cells2[k - 1] > 0:
        return selected_sum2(k - 1, items, cells1, cells2) + items[k - 1]
    return selected_sum2(k - 1, items, cells1, cells2)


@contract('hotxlfp.formulas.mathtrig:SUMIFS', props=['C11'])
class SUMIFS_two_criteria:
    # two criteria ranges carrying the SAME criterion text: every criterion has to hold, each on its own range
    args = dict(sum_args=SEQ(INT, minlen=1))
    cases = [dict(criteria=TUPLE(SEQ(INT, minlen=1), CONST('>0'), SEQ(INT, minlen=1), CONST('>0')))]
    inline_callees = ['parse_criteria']

    def post(sum_args, criteria, out):
        if len(criteria[0]) != len(sum_args) or len(criteria[2]) != len(sum_args):
            return out.ret and same(out.value, VALUE)
        return out.ret and same(out.value, selected_sum2(len(sum_args), sum_args, criteria[0], criteria[2]))

    loops = [None,
             dict(types=dict(b=INT), inv=lambda k, sum_args, criteria, b: same(b, selected_sum2(k, sum_args, criteria[0], criteria[2])))]


@contract('hotxlfp.formulas.statistical:AVERAGEIFS', props=['C11'])
class AVERAGEIFS:
    # the mean of exactly the selected items; an error (returned or raised) when nothing is selected
    args = dict(average_range=SEQ(INT, minlen=1))
    cases = [dict(criteria=TUPLE(SEQ(INT, minlen=1), CONST('>0')))]
    inline_callees = ['parse_criteria']

    def pre(average_range, criteria):
        return len(criteria[0]) == len(average_range)

    def post(average_range, criteria, out):
        n = len(average_range)
        cnt = selected_count(n, criteria[0])
        if cnt == 0:
            return (not out.ret) or is_err(out.value)
        return out.ret and same(out.value, selected_sum(n, average_range, criteria[0]) / cnt)

    loops = [dict(types=dict(sum_value=INT, count_value=INT),
                  inv=lambda k, average_range, criteria, sum_value, count_value:
                  same(sum_value, selected_sum(k, average_range, criteria[0])) and same(count_value, selected_count(k, criteria[0])))]

