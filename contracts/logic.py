# -*- coding: utf-8 -*-
# Sidecar contracts for hotxlfp/formulas/logic.py (C12, C08)


@contract('hotxlfp.formulas.logic:IF', props=['C12'])
class IF:
    args = dict(test=SCALAR, then=VALUE_T, otherwise=VALUE_T)

    def spec(test, then, otherwise):
        if is_err(test):
            return test
        return then if truth(test) else otherwise


@contract('hotxlfp.formulas.logic:NOT', props=['C12'])
class NOT:
    args = dict(boolean=SCALAR)

    def spec(boolean):
        if is_err(boolean):
            return boolean
        return not truth(boolean)


@contract('hotxlfp.formulas.logic:IFERROR', props=['C08'])
class IFERROR:
    args = dict(value=VALUE_T, value_if_error=VALUE_T)

    def spec(value, value_if_error):
        return value_if_error if is_err(value) else value


@contract('hotxlfp.formulas.logic:IFNA', props=['C08'])
class IFNA:
    args = dict(value=SCALAR, value_if_na=VALUE_T)

    def spec(value, value_if_na):
        if is_err(value) and same(value, NOT_AVAILABLE):
            return value_if_na
        return value


@contract('hotxlfp.formulas.logic:SWITCH', props=['C12'])
class SWITCH:
    # arities 0..6 are split into cases (args is a concrete-length tuple of symbolic values); the item values are unbounded
    args = dict(target_value=SCALAR)
    cases = [dict(args=()),
             dict(args=TUPLE(SCALAR)),
             dict(args=TUPLE(SCALAR, SCALAR)),
             dict(args=TUPLE(SCALAR, SCALAR, SCALAR)),
             dict(args=TUPLE(SCALAR, SCALAR, SCALAR, SCALAR)),
             dict(args=TUPLE(SCALAR, SCALAR, SCALAR, SCALAR, SCALAR)),
             dict(args=TUPLE(SCALAR, SCALAR, SCALAR, SCALAR, SCALAR, SCALAR))]

    def spec(target_value, args):
        # comparisons between text/number/logical follow Python ==; an error value in the tested target is that error, never a branch
        if is_err(target_value):
            return target_value
        n = len(args)
        if n <= 1:
            return NOT_AVAILABLE
        npairs = n // 2
        for i in range(0, npairs):
            if target_value == args[2 * i]:
                return args[2 * i + 1]
        if n % 2 == 1:
            return args[n - 1]
        return NOT_AVAILABLE


@contract('hotxlfp.formulas.logic:IFS', props=['C12'])
class IFS:
    cases = [dict(args=TUPLE(SCALAR, VALUE_T)),
             dict(args=TUPLE(SCALAR, VALUE_T, SCALAR, VALUE_T)),
             dict(args=TUPLE(SCALAR, VALUE_T, SCALAR, VALUE_T, SCALAR, VALUE_T))]

    def spec(args):
        n = len(args) // 2
        for i in range(0, n):
            if is_err(args[2 * i]):
                return args[2 * i]
            if truth(args[2 * i]):
                return args[2 * i + 1]
        return NOT_AVAILABLE


@contract('hotxlfp.formulas.logic:AND', props=['C12'])
class AND:
    args = dict(args=ARGS(SCALAR))

    def post(args, out):
        items = flat(args)
        n = len(items)
        if exists(0, n, lambda j: is_err(items[j])):
            return out.ret and is_err(out.value) and exists(0, n, lambda j: same(items[j], out.value))
        return out.ret and same(out.value, forall(0, n, lambda j: truth(items[j])))

    loops = [dict(inv=lambda k, args: forall(0, k, lambda j: not is_err(args[j])))]


@contract('hotxlfp.formulas.logic:OR', props=['C12'])
class OR:
    args = dict(args=ARGS(SCALAR))

    def post(args, out):
        items = flat(args)
        n = len(items)
        if exists(0, n, lambda j: is_err(items[j])):
            return out.ret and is_err(out.value) and exists(0, n, lambda j: same(items[j], out.value))
        return out.ret and same(out.value, exists(0, n, lambda j: truth(items[j])))

    loops = [dict(inv=lambda k, args: forall(0, k, lambda j: not is_err(args[j])))]


@contract('hotxlfp.formulas.logic:XOR', props=['C12'])
class XOR:
    # the error clause is proved; the parity of the number of true items is decided by the bounded stand-in only
    # (a sum over a symbolic sequence has no decidable SMT definition here)
    args = dict(args=ARGS(SCALAR))
    bounded_args = dict(args=ARGS(VALUE_T))

    def post(args, out):
        items = flat(args)
        n = len(items)
        if exists(0, n, lambda j: is_err(items[j])):
            return out.ret and is_err(out.value) and exists(0, n, lambda j: same(items[j], out.value))
        return out.ret and is_bool(out.value) and same(out.value, parity_true(items))

    loops = [dict(inv=lambda k, args: forall(0, k, lambda j: not is_err(args[j])))]
