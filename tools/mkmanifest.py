#!/usr/bin/env python3
# regenerates /verif/MANIFEST.json from the table below (keeps it valid at all times)
import json, os, sys
HERE = os.path.dirname(os.path.dirname(os.path.abspath(__file__)))

CLAIMED = {
 # id: (technique, level text, level note, design ref)
}

def load():
    sys.path.insert(0, HERE)
    import importlib
    out = {}
    for fn in sorted(os.listdir(os.path.join(HERE, 'props'))):
        if fn.startswith('C') and fn.endswith('.py'):
            m = importlib.import_module('props.' + fn[:-3])
            if getattr(m, 'CLAIMED', True):
                out[fn[:-3]] = m
    return out

def main():
    props = [json.loads(l) for l in open(os.path.join(HERE, 'properties.jsonl'))]
    mods = load()
    checks = []
    def table_text(pid):
        from props import tables
        fs = tables.TABLES.get(pid, [])
        if not fs:
            return ''
        return ('  Bounded as well: formula tables (props/tables.py: %s) - inputs on which the pinned tree once broke the property (each repaired by a fix: '
                'commit, DESIGN 5.1) or still does (known findings), and their neighbours, with the outcome the statement demands.' % ', '.join(f.__name__ for f in fs))
    na = []
    for p in props:
        pid = p['id']
        m = mods.get(pid)
        if m is None:
            na.append({'property_id': pid, 'reason': 'check under construction (not yet claimed)'})
            continue
        if getattr(m, 'NOT_APPLICABLE', None):
            na.append({'property_id': pid, 'reason': m.NOT_APPLICABLE})
            continue
        checks.append({
            'property_id': pid,
            'quick_cmd': './check %s --tier quick' % pid,
            'thorough_cmd': './check %s --tier thorough' % pid,
            'evidence_file': 'evidence/%s.json' % pid,
            'replay_cmd_template': './check %s --replay {path}' % pid,
            'engine': 'pyvc',
            'level_claimed': {'category': 'proof', 'text': m.LEVEL_TEXT + table_text(pid), 'design_ref': 'DESIGN.md section 4 (%s)' % pid},
            'level_note': 'Assumed: ' + '; '.join(getattr(m, 'TRUSTED', [])) + '. Python semantics as encoded by pyvc (DESIGN 2.3, E1-E12), '
                          'float arithmetic treated as real arithmetic where flagged in the evidence; bounded stand-ins are labelled and never counted as proved.',
            'technique': getattr(m, 'TECHNIQUE', 'contract-based deductive verification: sidecar contracts on the real functions, VCs generated from '
                                                 'the AST by pyvc and discharged by z3; counterexamples replayed on the real code'),
        })
    man = {
        'version': 1,
        'setup_cmd': './setup.sh',
        'hooks': {'guard': 'HOTXLFP_VERIF', 'enable': 'no hooks: contracts are sidecar files under /verif/contracts, nothing in /repo is instrumented',
                  'baseline_off_cmd': 'cd /repo && /venv/bin/python -m pytest -ra -q -p no:cacheprovider --timeout=900 --continue-on-collection-errors',
                  'source_commits': [], 'add_only': True},
        'engines': [{'name': 'pyvc', 'path': 'pyvc/', 'serves_properties': [c['property_id'] for c in checks],
                     'kind_free_text': 'AST->z3 verification-condition generator over the real function bodies (re-read from /repo on every run), '
                                       'sidecar contracts, path-wise obligations, native replay and bounded stand-ins'}],
        'checks': checks,
        'not_applicable': na,
        'notes': 'exit 0 held (KNOWN-FINDING / UNDECIDED lines allowed), 1 VIOLATION, 3 checker failure. Known findings: known_findings.json.',
    }
    with open(os.path.join(HERE, 'MANIFEST.json'), 'w') as f:
        json.dump(man, f, indent=1)
    print('MANIFEST: %d checks, %d not applicable' % (len(checks), len(na)))

main()
