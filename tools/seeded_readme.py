#!/usr/bin/env python3
# writes seeded/README.md: which checks catch which seeded change (from meta.json + result.json)
import json, os
HERE = os.path.dirname(os.path.dirname(os.path.abspath(__file__)))
rows = []
for sid in sorted(os.listdir(os.path.join(HERE, 'seeded'))):
    d = os.path.join(HERE, 'seeded', sid)
    if not os.path.isdir(d):
        continue
    meta = json.load(open(os.path.join(d, 'meta.json')))
    res = json.load(open(os.path.join(d, 'result.json'))) if os.path.isfile(os.path.join(d, 'result.json')) else None
    first = (meta.get('needs_to_manifest') or '').strip().splitlines()
    title = first[0].lstrip('# ').strip() if first else ''
    if meta.get('obsolete'):
        rows.append((sid, meta['property'], ', '.join(meta.get('files', [])), title, 'obsolete', meta['obsolete']))
        continue
    if res is None:
        rows.append((sid, meta['property'], ', '.join(meta.get('files', [])), title, 'not run', ''))
        continue
    by = []
    how = ''
    for p, v in res['checks'].items():
        by.append('%s: exit %d, %d violation(s), %.0fs' % (p, v['exit'], v['violations'], v['wall_s']))
        if v['first'] and not how:
            f = v['first'][0]
            how = '%s — %s' % (f.get('obligation'), str(f.get('inputs'))[:160])
    rows.append((sid, meta['property'], ', '.join(meta.get('files', [])), title, 'CAUGHT' if res['caught'] else 'MISSED', '; '.join(by) + (' — first: ' + how if how else '')))
out = ['# Seeded property-breaking changes', '',
       'Written by independent sub-agents that saw only the text of one property and a scratch worktree; each was confirmed here (demo passes on the',
       'clean tree; with the patch the 165 tests pass and the demo fails) before being kept.  `tools/run_seeded.py` applies each patch to a scratch',
       'worktree (never to /repo) and runs the quick check of its property against it; `result.json` holds the outcome.', '',
       '| id | property | files | change | quick check | detail |', '|---|---|---|---|---|---|']
for r in rows:
    out.append('| %s | %s | %s | %s | **%s** | %s |' % tuple(str(x).replace('|', '\\|').replace('\n', ' ') for x in r))
n = len(rows)
c = sum(1 for r in rows if r[4] == 'CAUGHT')
out += ['', '%d of %d caught by the quick tier.' % (c, n)]
open(os.path.join(HERE, 'seeded', 'README.md'), 'w').write('\n'.join(out) + '\n')
print('%d of %d caught' % (c, n))
