#!/bin/sh
# run every claimed quick check under several seeds; any VIOLATION / CHECKER-ERROR on the unchanged tree is a bug of ours
cd "$(dirname "$0")/.."
for s in ${SEEDS:-0 1 2 3 7}; do
  for c in $(python3 -c "import json;print(' '.join(x['property_id'] for x in json.load(open('MANIFEST.json'))['checks']))"); do
    out=$(VERIF_SEED=$s ./check $c 2>&1 | grep -E "^(VIOLATION|CHECKER-ERROR)|exit=[13]$" | head -3)
    [ -n "$out" ] && echo "seed=$s $c: $out"
  done
done
echo "seed sweep done"
