#!/bin/sh
# tools/try_seeded.sh <seeded id> <check args...>   run a check against a scratch worktree with the seeded patch applied
id=$1; shift
wt=$(mktemp -d /tmp/tryseed_XXXXXX); rmdir $wt
git -C /repo worktree add -q --detach $wt HEAD && git -C $wt apply /verif/seeded/$id/patch.diff || exit 2
out=$(mktemp -d /tmp/tryout_XXXXXX)
HOTXLFP_REPO=$wt VERIF_EVIDENCE_DIR=$out/evidence VERIF_OUT_DIR=$out/out /verif/check "$@"
rc=$?
git -C /repo worktree remove --force $wt
echo "exit=$rc (replay/evidence under $out)"
