#!/usr/bin/env python3
"""
Import the mutants written by the independent sub-agents (/tmp/wt/Cxx/mutants/m<k>.diff, m<k>_demo.py, m<k>.md) into
/verif/seeded/<Cxx-mk>/ after confirming, in a fresh scratch worktree of /repo HEAD: the demo passes on the clean tree, the
patch applies, the 165 tests pass with it and the demo fails with it.
usage: tools/import_seeded.py C01 C02 ...
"""
import json, os, subprocess, sys, shutil, tempfile
HERE = os.path.dirname(os.path.dirname(os.path.abspath(__file__)))
REPO = '/repo'


def run(cmd, cwd=None, timeout=600):
    try:
        r = subprocess.run(cmd, shell=True, cwd=cwd, stdout=subprocess.PIPE, stderr=subprocess.STDOUT, universal_newlines=True, timeout=timeout)
        return r.returncode, r.stdout
    except subprocess.TimeoutExpired as e:
        return 124, 'TIMEOUT'


WAVE = (13, 14)      # mutant numbers of the wave being imported (earlier waves: 1-2, 3-4)


def main():
    for prop in sys.argv[1:]:
        src = '/tmp/wt/%s/mutants' % prop
        for k in WAVE:
            diff = os.path.join(src, 'm%d.diff' % k)
            if not os.path.isfile(diff):
                continue
            sid = '%s-m%d' % (prop, k)
            wt = tempfile.mkdtemp(prefix='imp_')
            shutil.rmtree(wt)
            try:
                rc, out = run('git -C %s worktree add -q --detach %s HEAD' % (REPO, wt))
                os.makedirs(os.path.join(wt, 'mutants'))
                shutil.copy(os.path.join(src, 'm%d_demo.py' % k), os.path.join(wt, 'mutants', 'm%d_demo.py' % k))
                demo = '/venv/bin/python mutants/m%d_demo.py' % k
                rc_clean, out_clean = run(demo, cwd=wt, timeout=120)
                rc_apply, out_apply = run('git apply %s' % diff, cwd=wt)
                rc_test, out_test = run('/venv/bin/python -m pytest -q -p no:cacheprovider 2>&1 | tail -1', cwd=wt)
                rc_demo, out_demo = run(demo, cwd=wt, timeout=120)
                ok = rc_clean == 0 and rc_apply == 0 and '165 passed' in out_test and rc_demo == 1
                print(sid, 'CONFIRMED' if ok else 'REJECTED', 'clean=%d apply=%d tests=%r demo=%d' % (rc_clean, rc_apply, out_test.strip()[-40:], rc_demo))
                if not ok:
                    continue
                d = os.path.join(HERE, 'seeded', sid)
                os.makedirs(d, exist_ok=True)
                shutil.copy(diff, os.path.join(d, 'patch.diff'))
                shutil.copy(os.path.join(src, 'm%d_demo.py' % k), os.path.join(d, 'demo.py'))
                notes = open(os.path.join(src, 'm%d.md' % k)).read() if os.path.isfile(os.path.join(src, 'm%d.md' % k)) else ''
                open(os.path.join(d, 'notes.md'), 'w').write(notes)
                files = sorted(set(l[6:].strip() for l in open(diff) if l.startswith('+++ b/')))
                meta = {'id': sid, 'property': prop, 'author': 'independent sub-agent (given only the property text and a scratch worktree)',
                        'files': files, 'needs_to_manifest': notes.strip()[:1200],
                        'confirmed': {'clean_tree_demo_exit': rc_clean, 'patch_applies': rc_apply == 0, 'tests_with_patch': out_test.strip()[-60:],
                                      'demo_exit_with_patch': rc_demo, 'demo_output_with_patch': out_demo.strip()[-600:],
                                      'how': 'fresh worktree of /repo HEAD: demo (exit 0), git apply patch.diff, pytest (165 passed), demo (exit 1)'}}
                json.dump(meta, open(os.path.join(d, 'meta.json'), 'w'), indent=1)
            finally:
                run('git -C %s worktree remove --force %s' % (REPO, wt))


main()
