#!/usr/bin/env python3
# applies each behaviour-preserving patch of selftest/refactors to a scratch worktree and runs its check: every one must exit 0
import os, subprocess, sys, tempfile, shutil, json, time
HERE = os.path.dirname(os.path.dirname(os.path.abspath(__file__)))
res = {}
for fn in sorted(os.listdir(os.path.join(HERE, 'selftest', 'refactors'))):
    if not fn.endswith('.diff') or (len(sys.argv) > 1 and not any(a in fn for a in sys.argv[1:])):
        continue
    name, prop, _ = fn.rsplit('.', 2)
    wt = tempfile.mkdtemp(prefix='rfrun_'); shutil.rmtree(wt)
    tmp = tempfile.mkdtemp(prefix='rfout_')
    subprocess.check_call(['git', '-C', '/repo', 'worktree', 'add', '-q', '--detach', wt, 'HEAD'])
    try:
        subprocess.check_call(['git', '-C', wt, 'apply', os.path.join(HERE, 'selftest', 'refactors', fn)])
        env = dict(os.environ, HOTXLFP_REPO=wt, VERIF_EVIDENCE_DIR=os.path.join(tmp, 'e'), VERIF_OUT_DIR=os.path.join(tmp, 'o'))
        t0 = time.time()
        r = subprocess.run([os.path.join(HERE, 'check'), prop], env=env, cwd=HERE, stdout=subprocess.PIPE, stderr=subprocess.STDOUT, universal_newlines=True)
        lines = [l for l in r.stdout.splitlines() if l.startswith(('VIOLATION', 'CHECKER-ERROR'))]
        und = len([l for l in r.stdout.splitlines() if l.startswith('UNDECIDED')])
        res[name] = {'property': prop, 'exit': r.returncode, 'alarms': lines[:3], 'undecided_lines': und, 'wall_s': round(time.time() - t0, 1)}
        print(name, prop, 'exit', r.returncode, 'GREEN' if r.returncode == 0 else 'FALSE ALARM', lines[:2], 'undecided=%d' % und)
    finally:
        subprocess.call(['git', '-C', '/repo', 'worktree', 'remove', '--force', wt])
        shutil.rmtree(tmp, ignore_errors=True)
# refactorings written by independent sub-agents (selftest/agent_refactors/<Cxx-rk>/patch.diff): same rule
ar = os.path.join(HERE, 'selftest', 'agent_refactors')
for rid in sorted(os.listdir(ar)) if os.path.isdir(ar) else []:
    if len(sys.argv) > 1 and not any(a in rid for a in sys.argv[1:]):
        continue
    prop = rid.split('-')[0]
    wt = tempfile.mkdtemp(prefix='rfrun_'); shutil.rmtree(wt)
    tmp = tempfile.mkdtemp(prefix='rfout_')
    subprocess.check_call(['git', '-C', '/repo', 'worktree', 'add', '-q', '--detach', wt, 'HEAD'])
    try:
        subprocess.check_call(['git', '-C', wt, 'apply', os.path.join(ar, rid, 'patch.diff')])
        env = dict(os.environ, HOTXLFP_REPO=wt, VERIF_EVIDENCE_DIR=os.path.join(tmp, 'e'), VERIF_OUT_DIR=os.path.join(tmp, 'o'))
        t0 = time.time()
        r = subprocess.run([os.path.join(HERE, 'check'), prop], env=env, cwd=HERE, stdout=subprocess.PIPE, stderr=subprocess.STDOUT, universal_newlines=True)
        lines = [l for l in r.stdout.splitlines() if l.startswith(('VIOLATION', 'CHECKER-ERROR'))]
        und = len([l for l in r.stdout.splitlines() if l.startswith('UNDECIDED')])
        res['agent:' + rid] = {'property': prop, 'exit': r.returncode, 'alarms': lines[:3], 'undecided_lines': und, 'wall_s': round(time.time() - t0, 1)}
        print(rid, prop, 'exit', r.returncode, 'GREEN' if r.returncode == 0 else 'FALSE ALARM', lines[:2], 'undecided=%d' % und)
    finally:
        subprocess.call(['git', '-C', '/repo', 'worktree', 'remove', '--force', wt])
        shutil.rmtree(tmp, ignore_errors=True)
rp = os.path.join(HERE, 'selftest', 'refactors_result.json')
if len(sys.argv) > 1 and os.path.isfile(rp):
    # a partial run updates the entries it ran
    old = json.load(open(rp))
    old.update(res)
    res = old
json.dump(res, open(rp, 'w'), indent=1, sort_keys=True)
