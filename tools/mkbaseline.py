#!/usr/bin/env python3
# regenerates baseline_obligations.json from the evidence of a green run on the unchanged tree (by hand, never at check time)
import json, os, glob
HERE = os.path.dirname(os.path.dirname(os.path.abspath(__file__)))
base = {}
for f in sorted(glob.glob(os.path.join(HERE, 'evidence', 'C*.json'))):
    ev = json.load(open(f))
    bad = {}
    for x in ev['coverage'].get('not_discharged', []):
        c = x['name'].split('.')[0]
        bad[c] = bad.get(c, 0) + 1
    for fn in ev['coverage'].get('functions_under_contract', []):
        c = fn['contract']
        e = base.setdefault(c, {'status': fn['status'], 'failed': 0, 'source_sha': fn.get('source_sha'), 'props': []})
        e['props'].append(ev['property_id'])
        e['failed'] = max(e['failed'], bad.get(c, 0))
json.dump(base, open(os.path.join(HERE, 'baseline_obligations.json'), 'w'), indent=1, sort_keys=True)
print('baseline:', len(base), 'contracts;', sum(1 for v in base.values() if v['status'] == 'ok' and v['failed'] == 0), 'fully discharged')
