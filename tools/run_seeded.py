#!/usr/bin/env python3
"""
Run the checks against every seeded change under /verif/seeded/<id>/ (patch.diff + meta.json): the patch is applied to a scratch
worktree of /repo (never to /repo itself), the property's check runs against it with HOTXLFP_REPO pointing there and evidence /
replay output redirected to a temporary directory, and the outcome is written to seeded/<id>/result.json.
usage: tools/run_seeded.py [id ...] [--tier quick|thorough] [--all-props]
"""
import json, os, subprocess, sys, shutil, tempfile, time
HERE = os.path.dirname(os.path.dirname(os.path.abspath(__file__)))
REPO = '/repo'


def run(cmd, **kw):
    return subprocess.run(cmd, shell=isinstance(cmd, str), stdout=subprocess.PIPE, stderr=subprocess.STDOUT, universal_newlines=True, **kw)


def main():
    args = [a for a in sys.argv[1:] if not a.startswith('--')]
    tier = 'thorough' if '--thorough' in sys.argv else 'quick'
    ids = args or sorted(d for d in os.listdir(os.path.join(HERE, 'seeded')) if os.path.isdir(os.path.join(HERE, 'seeded', d)))
    summary = []

    def one(sid):
        d = os.path.join(HERE, 'seeded', sid)
        meta = json.load(open(os.path.join(d, 'meta.json')))
        if meta.get('obsolete'):
            # a later fix: commit of /repo took away the behaviour this change broke: it no longer violates the property (kept as a record)
            summary.append((sid, 'OBSOLETE', meta['obsolete'][:120]))
            return
        props = meta.get('checks') or [meta['property']]
        wt = tempfile.mkdtemp(prefix='seedrun_')
        shutil.rmtree(wt)
        tmp = tempfile.mkdtemp(prefix='seedout_')
        try:
            r = run(['git', '-C', REPO, 'worktree', 'add', '-q', '--detach', wt, 'HEAD'])
            assert r.returncode == 0, r.stdout
            r = run(['git', '-C', wt, 'apply', os.path.join(d, 'patch.diff')])
            if r.returncode != 0:
                summary.append((sid, 'PATCH DOES NOT APPLY', r.stdout[-300:]))
                return
            res = {'id': sid, 'tier': tier, 'checks': {}}
            caught = False
            for p in props:
                env = dict(os.environ, HOTXLFP_REPO=wt, VERIF_EVIDENCE_DIR=os.path.join(tmp, 'evidence'), VERIF_OUT_DIR=os.path.join(tmp, 'out'))
                t0 = time.time()
                r = run([os.path.join(HERE, 'check'), p, '--tier', tier], env=env, cwd=HERE)
                lines = [l for l in r.stdout.splitlines() if l.startswith(('VIOLATION', 'CHECKER-ERROR', 'KNOWN-FINDING'))]
                viol = [l for l in lines if l.startswith('VIOLATION')]
                detail = []
                for l in viol[:3]:
                    rp = l.split('replay=')[1].split()[0]
                    try:
                        j = json.load(open(rp))
                        detail.append({'obligation': j.get('obligation'), 'inputs': j.get('inputs_repr') or j.get('formula') or j.get('witness') or j.get('detail'),
                                       'detail': str(j.get('detail'))[:300]})
                    except Exception:
                        detail.append({'line': l})
                res['checks'][p] = {'exit': r.returncode, 'violations': len(viol), 'wall_s': round(time.time() - t0, 1), 'first': detail,
                                    'checker_errors': [l[:300] for l in lines if l.startswith('CHECKER-ERROR')][:2]}
                if r.returncode == 1 and viol:
                    caught = True
            res['caught'] = caught
            json.dump(res, open(os.path.join(d, 'result.json'), 'w'), indent=1)
            summary.append((sid, 'CAUGHT' if caught else 'MISSED', {p: (v['exit'], v['violations']) for p, v in res['checks'].items()}))
        finally:
            run(['git', '-C', REPO, 'worktree', 'remove', '--force', wt])
            shutil.rmtree(tmp, ignore_errors=True)
    jobs = 1
    for a_ in sys.argv[1:]:
        if a_.startswith('--jobs='):
            jobs = int(a_.split('=')[1])
    if jobs > 1:
        from concurrent.futures import ThreadPoolExecutor
        with ThreadPoolExecutor(jobs) as ex:
            list(ex.map(one, ids))
    else:
        for sid in ids:
            one(sid)
    summary.sort()
    for s in summary:
        print(*s)


main()
