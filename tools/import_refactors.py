#!/usr/bin/env python3
"""
Import the behaviour-preserving refactorings written by independent sub-agents (/tmp/wt/Cxx/refactors/r<k>.diff, r<k>_probe.py, r<k>.md)
into /verif/selftest/agent_refactors/<Cxx-rk>/ after confirming, in a fresh scratch worktree of /repo HEAD: the patch applies, the 165
tests pass with it, and the probe transcript is byte-identical before and after the patch.
usage: tools/import_refactors.py C01 C02 ...
"""
import json, os, subprocess, sys, shutil, tempfile, hashlib
HERE = os.path.dirname(os.path.dirname(os.path.abspath(__file__)))
REPO = '/repo'


def run(cmd, cwd=None, timeout=900):
    try:
        # stdout only: PLY writes table-generation warnings to stderr on the first run in a fresh tree
        r = subprocess.run(cmd, shell=True, cwd=cwd, stdout=subprocess.PIPE, stderr=subprocess.DEVNULL, universal_newlines=True, timeout=timeout)
        return r.returncode, r.stdout
    except subprocess.TimeoutExpired:
        return 124, 'TIMEOUT'


RWAVE = (3, 4)      # refactoring numbers of the wave being imported (first wave: 1-2)


def main():
    for prop in sys.argv[1:]:
        src = '/tmp/wt/%s/refactors' % prop
        for k in RWAVE:
            diff = os.path.join(src, 'r%d.diff' % k)
            probe = os.path.join(src, 'r%d_probe.py' % k)
            if not (os.path.isfile(diff) and os.path.isfile(probe)):
                continue
            rid = '%s-r%d' % (prop, k)
            wt = tempfile.mkdtemp(prefix='impr_')
            shutil.rmtree(wt)
            try:
                run('git -C %s worktree add -q --detach %s HEAD' % (REPO, wt))
                os.makedirs(os.path.join(wt, 'refactors'))
                shutil.copy(probe, os.path.join(wt, 'refactors', 'r%d_probe.py' % k))
                cmd = '/venv/bin/python refactors/r%d_probe.py' % k
                rc0, out0 = run(cmd, cwd=wt, timeout=600)
                rc_apply, _ = run('git apply %s' % diff, cwd=wt)
                rc_test, out_test = run('/venv/bin/python -m pytest -q -p no:cacheprovider 2>&1 | tail -1', cwd=wt)
                rc1, out1 = run(cmd, cwd=wt, timeout=600)
                lines = len(out0.splitlines())
                ok = rc0 == 0 and rc1 == 0 and rc_apply == 0 and '165 passed' in out_test and out0 == out1 and lines >= 100
                print(rid, 'CONFIRMED' if ok else 'REJECTED', 'probe=%d/%d apply=%d tests=%r transcript: %d lines, identical=%s' % (rc0, rc1, rc_apply, out_test.strip()[-30:], lines, out0 == out1))
                if not ok:
                    continue
                d = os.path.join(HERE, 'selftest', 'agent_refactors', rid)
                os.makedirs(d, exist_ok=True)
                shutil.copy(diff, os.path.join(d, 'patch.diff'))
                shutil.copy(probe, os.path.join(d, 'probe.py'))
                notes = open(os.path.join(src, 'r%d.md' % k)).read() if os.path.isfile(os.path.join(src, 'r%d.md' % k)) else ''
                open(os.path.join(d, 'notes.md'), 'w').write(notes)
                files = sorted(set(l[6:].strip() for l in open(diff) if l.startswith('+++ b/')))
                json.dump({'id': rid, 'property': prop, 'author': 'independent sub-agent (given only the property text and a scratch worktree)', 'files': files,
                           'what': notes.strip()[:800],
                           'confirmed': {'patch_applies': True, 'tests_with_patch': out_test.strip()[-40:], 'probe_lines': lines,
                                         'transcript_sha256': hashlib.sha256(out0.encode('utf-8')).hexdigest(), 'transcript_identical_before_after': True}},
                          open(os.path.join(d, 'meta.json'), 'w'), indent=1)
            finally:
                run('git -C %s worktree remove --force %s' % (REPO, wt))


main()
