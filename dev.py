#!/verif/.venv/bin/python
# developer harness: verify selected contracts in-process and print the obligations
import sys, os, json, time, random
sys.path.insert(0, os.path.dirname(os.path.abspath(__file__)))
from pyvc import native, api
from pyvc.world import World
from pyvc import verify

def main():
    repo = os.environ.get('REPO', '/repo')
    d = native.make_scratch(repo)
    native.use_scratch(d, owner=True)
    w = World(repo, os.path.join(os.path.dirname(os.path.abspath(__file__)), 'contracts'))
    files = None
    names = sys.argv[1:]
    cs = verify.load_contracts(w, w.contract_dir)
    for c in cs:
        if names and not any(n == c.name or n == c.file[:-3] or n in c.props for n in names):
            continue
        r = verify.verify_contract(w, c, timeout_ms=int(os.environ.get('TIMEOUT_MS', '10000')))
        print('== %s [%s] status=%s paths=%d solver=%.2fs wall=%.2fs %s' % (c.name, c.target, r.status, r.paths, r.solver_s, r.wall_s, r.reason or ''))
        tally = {}
        for o in r.obligations:
            tally[o['result']] = tally.get(o['result'], 0) + 1
            if o['result'] != 'discharged':
                print('   ', o['name'], o['kind'], o['result'], o.get('note'), {k: (v if len(v) < 150 else v[:60] + '...') for k, v in (o.get('model') or {}).items()}, o.get('reason'))
        print('   tally', tally, 'flags', sorted(r.flags))
        if os.environ.get('BOUNDED'):
            nc = native.NativeContract(c)
            print('   bounded', nc.bounded_search(random.Random(0), 3000)[:2], [f['inputs'] for f in nc.bounded_search(random.Random(0), 3000)[2]])

main()
