# -*- coding: utf-8 -*-
import os
import sys
import json
import argparse
import importlib
import traceback

HERE = os.path.dirname(os.path.abspath(__file__))
sys.path.insert(0, HERE)


def main():
    ap = argparse.ArgumentParser()
    ap.add_argument('prop')
    ap.add_argument('--tier', default=os.environ.get('VERIF_TIER', 'quick'), choices=['quick', 'thorough'])
    ap.add_argument('--replay', default=None)
    ap.add_argument('--jobs', type=int, default=int(os.environ.get('VERIF_JOBS', '16')))
    ap.add_argument('--only', default=None, help='comma separated contract names (development)')
    args = ap.parse_args()
    seed = int(os.environ.get('VERIF_SEED', '0') or 0)
    from pyvc import runner, native
    try:
        scratch = native.make_scratch(runner.REPO)
        native.use_scratch(scratch, owner=True)
    except Exception:
        print('CHECKER-ERROR cannot import the working tree: %s' % traceback.format_exc()[-1500:])
        return 3
    try:
        pm = importlib.import_module('props.' + args.prop)
    except ImportError:
        print('CHECKER-ERROR no property module for %s' % args.prop)
        return 3
    if args.replay:
        return do_replay(args, pm)
    # replay files of an earlier run of this property would be mistaken for this run's
    import shutil
    shutil.rmtree(os.path.join(runner.out_dir(), 'replay', args.prop), ignore_errors=True)
    report = runner.Report(args.prop, args.tier, seed)
    try:
        from pyvc.world import World
        from pyvc import verify
        w = World(runner.REPO, os.path.join(HERE, 'contracts'))
        cs = verify.load_contracts(w, w.contract_dir)
        wanted = getattr(pm, 'CONTRACTS', None)
        names = [c.name for c in cs if (args.prop in c.props if wanted is None else c.name in wanted)]
        byname = {c.name: c for c in cs}
        names = [n for n in names if args.tier in (byname[n].decl.get('tiers') or (args.tier,))]
        if args.only:
            names = [n for n in names if n in args.only.split(',')]
        report.case_counts = {c.name: len(c.cases) for c in cs}
        thorough = args.tier == 'thorough'
        opts = {'timeout_ms': 60000 if thorough else 10000, 'seed': seed,
                'bounded_limit': 40000 if thorough else 4000, 'bounded_budget_s': 120 if thorough else 15,
                'crosscheck_n': 120 if thorough else 40}
        opts.update(getattr(pm, 'OPTS', {}).get(args.tier, {}))
        runner.run_contracts(report, scratch, names, opts, args.jobs)
        for t in getattr(pm, 'TRUSTED', []):
            report.trusted.add(t)
        extra = getattr(pm, 'extra', None)
        if extra is not None:
            extra(report, {'scratch': scratch, 'repo': runner.REPO, 'tier': args.tier, 'seed': seed, 'jobs': args.jobs,
                           'world': w})
        from props import tables
        tables.run(report, {'scratch': scratch, 'repo': runner.REPO, 'tier': args.tier, 'seed': seed, 'jobs': args.jobs, 'world': w})
    except Exception:
        report.checker_errors.append(traceback.format_exc()[-3000:])
    return runner.finish(report, getattr(pm, 'LEVEL_TEXT', None))


def do_replay(args, pm):
    from pyvc import runner, native, verify
    from pyvc.world import World
    with open(args.replay) as f:
        rp = json.load(f)
    if rp.get('kind'):
        from props import tables
        t = tables.replay(rp, rp.get('property') or args.prop, {'repo': runner.REPO, 'tier': 'quick', 'seed': 0, 'jobs': 1})
        if t is not None:
            return t
    custom = getattr(pm, 'replay', None)
    if rp.get('kind') and custom is not None:
        return custom(rp)
    if 'inputs' not in rp:
        print('replay file carries no input (no-failing-input-found): verifier output follows')
        print(json.dumps(rp.get('verifier_output'), indent=1))
        return 1
    w = World(runner.REPO, os.path.join(HERE, 'contracts'))
    cs = {c.name: c for c in verify.load_contracts(w, w.contract_dir)}
    c = cs[rp['contract']]
    nc = native.NativeContract(c)
    vals = [runner.deser(v) for _, v in rp['inputs']]
    app, ok, detail = nc.check(vals)
    print('replay %s on %s: inputs=%r applicable=%s holds=%s detail=%s' % (rp['obligation'], rp['function'], vals, app, ok, detail))
    if app and not ok:
        print('VIOLATION property=%s replay=%s' % (args.prop, args.replay))
        return 1
    return 0


if __name__ == '__main__':
    sys.exit(main())
