# -*- coding: utf-8 -*-
"""
Probe for C08 refactoring 3: arithmetic / concatenation / unary minus evaluation
(operators.evaluate_arithmetic, operators.ExcelArrayOps, the operator grammar rules).
Prints a deterministic transcript, one line per evaluation.
"""
from __future__ import print_function
import os
import sys
import datetime
import itertools

sys.path.insert(0, os.path.dirname(os.path.dirname(os.path.abspath(__file__))))

import hotxlfp  # noqa: E402
from hotxlfp import Parser  # noqa: E402
from hotxlfp.formulas import error, operators  # noqa: E402

COUNT = [0]


def show(kind, what, outcome):
    COUNT[0] += 1
    print('%04d %s %s -> %s' % (COUNT[0], kind, what, outcome))


def outcome_of(fn, *args):
    try:
        return repr(fn(*args))
    except BaseException as e:  # noqa
        return 'raised %s(%s)' % (type(e).__name__, str(e))


CELLS = {
    'A1': 1, 'A2': 2.5, 'A3': None, 'A4': 'abc', 'A5': '12', 'A6': True, 'A7': False,
    'A8': error.DIV_ZERO, 'A9': error.NOT_AVAILABLE, 'A10': '2020-01-15',
    'A11': datetime.datetime(2021, 3, 4, 5, 6, 7), 'A12': 0, 'A13': -0.0, 'A14': '',
    'A15': 1e308, 'A16': [1, 2, 3], 'A17': (1, 2), 'A18': {'k': 1}, 'A19': 2 + 3j,
    'A20': '1e3', 'A21': ' 7 ', 'A22': error.NULL, 'A23': [[1, 2], [3, 4]], 'A24': [5],
    'A25': [], 'A26': '#N/A', 'A27': -3,
}


def make_parser():
    p = Parser()
    events = []

    def on_cell(cell, done):
        events.append(('cell', cell.label))
        done(CELLS.get(cell.label))

    def on_range(start, end, done):
        events.append(('range', start.label, end.label))
        vals = []
        for r in range(start.row.index, end.row.index + 1):
            vals.append(CELLS.get('A%d' % (r + 1)))
        done(vals)

    def on_function(name, args, done):
        events.append(('fn', name, repr(args)))

    def on_variable(name, done):
        events.append(('var', name))

    p.on('callCellValue', on_cell)
    p.on('callRangeValue', on_range)
    p.on('callFunction', on_function)
    p.on('callVariable', on_variable)
    p.set_variable('DT', datetime.datetime(2019, 12, 31))
    p.set_variable('DT0', datetime.datetime(1900, 1, 1))
    p.set_variable('OLD', datetime.datetime(1899, 12, 30))
    p.set_variable('ERRV', error.REF)
    p.set_variable('LST', [1, None, 'x', error.NUM])
    p.set_variable('ONE', [4])
    p.set_variable('TUP', (1, 2))
    p.set_variable('DCT', {'a': 1})
    p.set_variable('BIG', 10 ** 400)
    p.set_variable('CPX', 1j)
    p.set_variable('INF', float('inf'))
    p.set_variable('NANV', float('nan'))
    p.set_function('RAISEVALUE', lambda *a: (_ for _ in ()).throw(error.VALUE))
    p.set_function('RAISEKEY', lambda *a: {}['missing'])
    p.set_function('GIVE', lambda *a: a[0] if a else None)
    p.set_function('GIVELIST', lambda *a: list(a))
    return p, events


ERROR_LITERALS = ['#DIV/0!', '#N/A', '#NAME?', '#NULL!', '#NUM!', '#REF!', '#VALUE!', '#ERROR!']

ATOMS = [
    '1', '0', '2.5', '-3', '"abc"', '"12"', '""', '"2020-01-15"', 'TRUE', 'FALSE', 'NULL',
    'A1', 'A3', 'A4', 'A8', 'A9', 'A11', 'A16', 'A24', 'DT', 'ERRV', 'LST', 'ONE',
    '{1,2,3}', '{4}', '{1,2}', '1/0', 'NA()', 'SQRT(-1)', 'NOSUCHFN()', 'nosuchvar',
    '#REF!', '#N/A', '50%', '2^3', '.5', 'GIVE()', 'RAISEVALUE()', 'RAISEKEY()',
]

OPS = ['+', '-', '*', '/', '&']


def formulas():
    out = []
    # every operator over a broad atom x atom selection
    left_sel = ATOMS
    right_sel = ['1', '0', '"abc"', 'NULL', 'A3', 'A8', 'DT', '{1,2,3}', '{4}', '#N/A', '1/0', 'TRUE', 'A16', 'LST']
    for op in OPS:
        for l in left_sel:
            for r in right_sel:
                out.append('%s%s%s' % (l, op, r))
    # reversed sides for asymmetry
    for op in OPS:
        for l in right_sel:
            for r in ['2.5', '"12"', 'A11', 'A9', 'ONE', '{1,2}', 'ERRV', 'A17', 'A18', 'A19', 'A23', 'A25']:
                out.append('%s%s%s' % (l, op, r))
    # unary minus
    for a in ATOMS + ['A17', 'A18', 'A19', 'A23', 'A25', 'BIG', 'CPX', 'INF', 'NANV', 'TUP', 'DCT']:
        out.append('-%s' % a)
        out.append('--%s' % a)
        out.append('-(%s)' % a)
        out.append('1+-%s' % a)
    # error literals
    for e in ERROR_LITERALS:
        out.extend([e, '-' + e, e + '+1', '1+' + e, e + '&"x"', '"x"&' + e, e + '&' + e,
                    '1+(2*' + e + ')', 'SUM(1,' + e + ')', 'IFERROR(' + e + ',"caught")',
                    'IFERROR(1+' + e + ',"caught")', 'ISERROR(-' + e + ')', 'ISERR(' + e + '&"a")',
                    'ISNA(' + e + '*2)', 'IFNA(' + e + '/2,"na")', 'ERROR.TYPE(' + e + '-1)',
                    '{1,2}+' + e, e + '+{1,2}', '{1,' + e + '}+1'])
    for e1, e2 in itertools.permutations(ERROR_LITERALS[:5], 2):
        for op in OPS:
            out.append('%s%s%s' % (e1, op, e2))
    # chained and mixed
    out.extend([
        '1+2*3-4/5', '(1+2)*(3-4)/5', '1/0+1/0', '(1/0)&(SQRT(-1))', 'SQRT(-1)&(1/0)',
        '1&2&3', '1&NULL&2', 'NULL&NULL', 'A3&A3', 'A3+A3', 'A3-A3', 'A3*A3', 'A3/A3', 'A3/1', '1/A3',
        'TRUE&FALSE', '1.0&""', '1.50&"x"', '{1,2}&"x"', '"x"&{1,2}', 'DT&""', 'A11&"|"',
        '"2020-01-15"+1', '1+"2020-01-15"', '"2020-01-15"-"2020-01-01"', '"2020-01-15"*2', '"2020-01-15"/2',
        '2/"2020-01-15"', 'DT+1', '1+DT', 'DT-1', '1-DT', 'DT-DT', 'DT+DT', 'DT*2', '2*DT', 'DT/2', '2/DT', 'DT/DT',
        'DT+NULL', 'NULL+DT', 'DT-NULL', 'NULL-DT', 'DT*NULL', 'NULL*DT', 'DT/NULL', 'NULL/DT',
        'DT0+1', 'DT0-1', 'OLD+1', 'OLD*1', 'DT0/DT0', '1-100000', 'DT-100000',
        '"abc"+1', '1+"abc"', '"abc"+"def"', '"abc"-NULL', 'NULL*"abc"', '"1e3"+1', 'A20+1', 'A21+1', 'A14+1', 'A26+1',
        'A5*A5', 'A6+A6', 'A6/A7', 'A7/A6', 'A12/A12', 'A13/1', '1/A13', 'A15*10', 'A15+A15', 'BIG+1', 'BIG/2', 'BIG*1.5',
        'CPX*CPX', 'CPX+1', 'CPX/0', 'INF-INF', 'INF*0', 'NANV+1', 'INF/INF',
        'TUP+1', '1+TUP', 'DCT+1', '1*DCT', 'A17&"x"', 'A18&"x"',
        '{1,2,3}+{4,5,6}', '{1,2,3}-{4,5,6}', '{1,2,3}*{4,5,6}', '{1,2,3}/{4,5,6}', '{1,2,3}/{1,0,2}',
        '{1,2,3}+{1,2}', '{1,2}-{1,2,3}', '{1,2,3}*{}', '{1,2,3}+{7}', '{7}+{1,2,3}', '{7}-{1,2,3}', '{7}/{1,2,0}',
        '10-{1,2,3}', '{1,2,3}-10', '12/{1,2,3,0}', '{1,2,3,0}/12', '2*{1,"a",TRUE,NULL}', '{1,"a",TRUE}*2',
        '"abc"+{1,2}', '{1,2}+"abc"', '"5"+{1,2}', 'NULL+{1,2}', '{1,2}+NULL', 'NULL-{1,2}', 'NULL/{1,2}', '{1,2}/NULL',
        'TRUE+{1,2}', 'DT+{1,2}', '{1,2}-DT', 'DT-{1,2}',
        'A23+1', '1+A23', 'A23*A23', 'A23+{10,20}', 'A23-{1}', '100/A23', 'A25+1', '1+A25', 'A25+A25', 'A25+{1}', 'A24+A24', 'A24*A16', 'A16/A24',
        'A16+A16', 'A16-1', '1-A16', 'A16/0', '0/A16', 'LST+1', '1+LST', 'LST*LST', 'LST/LST', 'LST-ONE', 'ONE-LST', 'ONE+ONE', 'ONE/0',
        '{1,2;3,4}+1', '{1,2;3,4}*{1,2;3,4}', '{1,2;3,4}+{10,20}', '1-{1,2;3,4}',
        'A1:A3+1', '1+A1:A3', 'A1:A3*A1:A3', 'A1:A9+1', 'A8:A9+A8:A9', 'A1:A2-A1:A3', 'SUM(A1:A3*2)', 'SUM(2*A1:A2,1)',
        'SUM({1,2,3}*{4,5,6})', 'SUM({1,2,3}/{1,0,2})', 'IFERROR(SUM({1,2,3}/{1,0,2}),"e")', 'ISERROR({1,2}+{1,2,3})',
        'ERROR.TYPE({1,2}+{1,2,3})', 'ERROR.TYPE(1/0)', 'ERROR.TYPE("a"+1)', 'ERROR.TYPE(-"a")', 'ERROR.TYPE(-A8)',
        'IFERROR(-"a","neg text")', 'IFERROR(-{1,2},"neg list")', 'ISERR(1/0)', 'ISNA(1/0)', 'ISNA(NA()+1)', 'ISERR(NA()+1)',
        'ISERROR(NA()&"x")', 'IFNA(NA()&"x","na")', 'IFNA(1/0&"x","na")', 'IFERROR(1/0&"x","err")', 'IFERROR("x"&1/0,"err")',
        'IF(ISERROR(A8+1),"bad","ok")', 'IF(ISERROR(A1+1),"bad","ok")', 'ABS(-A8)', 'ABS(-A1)', 'SUM(-A16)', 'GIVE(1/0)+1', 'GIVE(-A9)',
        'GIVELIST(1,2)+GIVELIST(3,4)', 'GIVELIST(1,1/0)+1', 'GIVELIST()+1', 'RAISEVALUE()+RAISEKEY()', 'RAISEKEY()+RAISEVALUE()',
        'RAISEVALUE()&RAISEKEY()', '-RAISEKEY()', 'nosuchvar+1', '1+nosuchvar', 'NOSUCHFN()+1', '1&NOSUCHFN()',
        '1+', '+1', '1 + 2', '1++2', '1--2', '1+-+2', '&', '1&', '()', '1+()', '1/0)', '((1/0))',
        '50%+50%', '2^3+1', '.5+.5', '1.5.5', '1e2', '3-.5', '100*5%', '-5%', '-2^2', '-.5',
        '="a"', '1=1+1', '(1=1)+1', '(1<2)&"x"', '(1/0=1)+1', '1+(1/0>1)', '-(1<2)', '-(1/0<2)',
    ])
    return out


def run_formulas(tag, parser, events, selection):
    for f in selection:
        del events[:]
        out = parser.parse(f)
        show(tag, repr(f), '%r events=%r' % (out, events))


def direct_calls():
    vals = [
        0, 1, -2, 2.5, -0.0, True, False, None, '', 'abc', '12', '3.5', '2020-01-15', '1e3', 'Jan 2 2020',
        datetime.datetime(2020, 1, 15), datetime.datetime(1900, 1, 1), datetime.datetime(1899, 12, 25),
        error.VALUE, error.NOT_AVAILABLE, error.DIV_ZERO, [1, 2], [3], [], [1, 'a', None], [[1, 2], [3, 4]],
        (1, 2), {'a': 1}, 2j, 10 ** 30, float('inf'), b'bytes', 3.0, -1,
    ]
    for op in ['+', '-', '*', '/']:
        for l in vals:
            for r in vals:
                show('arith', '%s %r %r' % (op, l, r), outcome_of(operators.evaluate_arithmetic, op, l, r))
    # operators that the table does not know
    for op in ['&', '^', '>', '=', '<>', None, 5, '', '%']:
        for l, r in [(1, 2), ([1], 2), (1, [2]), ('a', 2), (error.NUM, 2), (1, error.NUM), (None, None), ({}, 1)]:
            show('arith-badop', '%r %r %r' % (op, l, r), outcome_of(operators.evaluate_arithmetic, op, l, r))
    try:
        unhashable = outcome_of(operators.evaluate_arithmetic, ['+'], 1, 2)
    except Exception as e:  # pragma: no cover
        unhashable = 'outer %r' % (e,)
    show('arith-badop', "['+'] 1 2", unhashable)
    # the array wrapper, called directly
    arrays = [[1, 2, 3], [4], [], [1, 'a', None, error.REF], [[1, 2], [3, 4]], [0, 0]]
    others = [1, 0, None, 'x', '2', [1, 2, 3], [7], [], [1, 2], error.NUM, [error.NUM], (1, 2), True, [0, 0],
              datetime.datetime(2020, 5, 5), [[1], [2]], [[1, 2]]]
    names = ['__add__', '__radd__', '__sub__', '__rsub__', '__mul__', '__rmul__', '__truediv__', '__rtruediv__']
    for arr in arrays:
        for other in others:
            for name in names:
                wrapper = operators.ExcelArrayOps(arr)
                before = repr(arr)
                res = outcome_of(getattr(wrapper, name), other)
                show('arrayops', '%s %r %r' % (name, arr, other),
                     '%s unchanged=%r attrs=%r' % (res, before == repr(arr), sorted(vars(wrapper))))
            show('adapt', '%r %r' % (arr, other), outcome_of(operators.ExcelArrayOps(arr).adapt_value, other))
    # adapt_value must hand back the same list object when it already is one, and shared items otherwise
    marker = [1, 2]
    w = operators.ExcelArrayOps([0, 0])
    show('adapt-identity', 'list', repr(w.adapt_value(marker) is marker))
    inner = {'k': 1}
    got = w.adapt_value(inner)
    show('adapt-identity', 'scalar', repr((len(got), all(g is inner for g in got))))
    show('adapt-identity', 'single', repr(w.adapt_value([inner])[0] is inner))
    show('adapt-nonlist', 'arr=None', outcome_of(operators.ExcelArrayOps(None).adapt_value, 1))
    show('adapt-nonlist', 'arr=tuple', outcome_of(operators.ExcelArrayOps((1, 2)).__add__, 1))
    show('adapt-nonlist', 'arr=str', outcome_of(operators.ExcelArrayOps('ab').__rsub__, 1))
    # the error instances returned are the shared ones
    show('identity', 'lval error', repr(operators.evaluate_arithmetic('+', error.REF, error.NUM) is error.REF))
    show('identity', 'rval error', repr(operators.evaluate_arithmetic('+', 1, error.NUM) is error.NUM))
    show('identity', 'value error', repr(operators.evaluate_arithmetic('+', 'a', 1) is error.VALUE))
    show('identity', 'div0', repr(operators.evaluate_arithmetic('/', 1, 0) is error.DIV_ZERO))
    show('identity', 'length', repr(operators.evaluate_arithmetic('+', [1], [1, 2]) is error.VALUE))
    show('table', 'unchanged keys', repr(sorted(operators.IMPLICIT_DATA_TYPE_CONVERSIONS)))
    show('table', 'sizes', repr([(op, sorted(len(v) for v in t.values()))
                                 for op, t in sorted(operators.IMPLICIT_DATA_TYPE_CONVERSIONS.items())]))


def main():
    p1, ev1 = make_parser()
    fs = formulas()
    run_formulas('p1', p1, ev1, fs)
    # same parser again (nothing may have been left behind), then a second parser
    run_formulas('p1-again', p1, ev1, fs[::7])
    p2, ev2 = make_parser()
    run_formulas('p2', p2, ev2, fs[::5])
    plain = Parser()  # no listeners at all: cells are blank
    for f in ['A1+1', 'A1&"x"', '-A1', 'A1:A2+1', '1+A1:A2', '-A1:A2', 'A1/A1', '1/0', '#REF!+1', '{1,2}*{3,4}', '']:
        show('plain', repr(f), repr(plain.parse(f)))
    direct_calls()
    for err in (error.ERROR, error.DIV_ZERO, error.NAME, error.NOT_AVAILABLE, error.NULL, error.NUM,
                error.REF, error.VALUE, error.DATA):
        show('traceback', str(err), repr((err.__traceback__, err.__context__)))
    print('total %d' % COUNT[0])


if __name__ == '__main__':
    main()
