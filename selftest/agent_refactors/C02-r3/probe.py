# -*- coding: utf-8 -*-
"""
Probe for C02 refactoring 3 (value setters of Parser.call_* use `nonlocal` instead of a dict cell).

Prints a deterministic transcript: one line per evaluation with the formula, repr() of the outcome and the
events that the listeners saw (with their payloads and with what the listener did with the value setter).
"""
import os
import sys
import io
import re
import contextlib

sys.path.insert(0, os.path.dirname(os.path.dirname(os.path.abspath(__file__))))

import hotxlfp  # noqa: E402
from hotxlfp import Parser  # noqa: E402
from hotxlfp.formulas import error as xlerror  # noqa: E402
from hotxlfp.helper.cell import Cell  # noqa: E402

COUNT = [0]
SHARED_ERRORS = (xlerror.ERROR, xlerror.DIV_ZERO, xlerror.NAME, xlerror.NOT_AVAILABLE, xlerror.NULL,
                 xlerror.NUM, xlerror.REF, xlerror.VALUE, xlerror.DATA)


def show(value):
    """repr() without memory addresses"""
    if isinstance(value, xlerror.XLError):
        return 'XLError(%r)' % (str(value),)
    if isinstance(value, Cell):
        return 'Cell(%r, row=%r, col=%r)' % (value.label, tuple(value.row), tuple(value.col))
    if isinstance(value, list):
        return '[' + ', '.join(show(v) for v in value) + ']'
    if isinstance(value, tuple):
        return '(' + ', '.join(show(v) for v in value) + (',)' if len(value) == 1 else ')')
    if isinstance(value, dict):
        return '{' + ', '.join('%s: %s' % (show(k), show(value[k])) for k in sorted(value, key=repr)) + '}'
    if callable(value) and not isinstance(value, type):
        return '<callable %s>' % getattr(value, '__name__', type(value).__name__)
    return repr(value)


def tracebacks_clean():
    return all(e.__traceback__ is None and e.__context__ is None for e in SHARED_ERRORS)


class Recorder(object):
    """Collects what the listeners saw during one evaluation."""

    def __init__(self):
        self.events = []

    def add(self, text):
        self.events.append(text)

    def take(self):
        events, self.events = self.events, []
        return events


def evaluate(tag, parser, formula, rec, quiet_stderr=True):
    COUNT[0] += 1
    if quiet_stderr:
        with contextlib.redirect_stderr(io.StringIO()):
            try:
                outcome = show(parser.parse(formula))
            except BaseException as exc:  # nothing should get here, but the transcript must tell
                outcome = 'RAISED %s(%s)' % (type(exc).__name__, exc)
    else:
        outcome = show(parser.parse(formula))
    print('%04d %-10s %-44r -> %s | events=%s | clean=%s' % (
        COUNT[0], tag, formula, outcome, rec.take(), tracebacks_clean()))


def direct(tag, rec, fn, *args):
    """Call one of the call_* methods directly, outside of a parse."""
    COUNT[0] += 1
    try:
        outcome = show(fn(*args))
    except Exception as exc:
        outcome = 'RAISED %s(%s)' % (type(exc).__name__, exc)
    xlerror.clear_tracebacks()
    print('%04d %-10s %s%s -> %s | events=%s' % (
        COUNT[0], tag, fn.__name__, show(tuple(args)), outcome, rec.take()))


# ---------------------------------------------------------------------------------------------------------
# host data
# ---------------------------------------------------------------------------------------------------------
TABLE = [
    [0, None, 'text', True],
    [1, 2.5, '', False],
    [2, -3, '7', xlerror.NOT_AVAILABLE],
    [3, 1e10, 'abc', None],
    [4, 0, ' ', xlerror.DIV_ZERO],
]

HOST_LIST = [1, 2, [3, 4], None, 'x']
HOST_LIST_SNAPSHOT = repr(HOST_LIST)


def make_listeners(rec, mode):
    """
    mode selects what listeners do with the value setter:
      'plain'    set the looked-up value once
      'none'     call the setter with None (must leave the value alone)
      'twice'    set a first value and then the real one; then None
      'silent'   never call the setter
      'falsy'    set falsy values (0, '', False, [])
    """
    falsy_cycle = [0, '', False, [], 0.0]
    state = {'n': 0}

    def lookup(cell):
        r, c = cell.row.index, cell.col.index
        if 0 <= r < len(TABLE) and 0 <= c < len(TABLE[0]):
            return TABLE[r][c]
        return None

    def apply(setter, real):
        if mode == 'plain':
            return setter(real)
        if mode == 'none':
            return setter(None)
        if mode == 'twice':
            setter('first')
            setter(real)
            return setter(None)
        if mode == 'silent':
            return None
        if mode == 'falsy':
            v = falsy_cycle[state['n'] % len(falsy_cycle)]
            state['n'] += 1
            return setter(v)
        raise AssertionError(mode)

    def on_cell(cell, setter):
        rec.add('cell %s %s' % (show(cell), setter.__name__))
        ret = apply(setter, lookup(cell))
        rec.add('ret=%r' % (ret,))

    def on_range(start, end, setter):
        rec.add('range %s %s %s' % (show(start), show(end), setter.__name__))
        rows = []
        for i in range(start.row.index, end.row.index + 1):
            if 0 <= i < len(TABLE):
                rows.append(TABLE[i][max(start.col.index, 0): end.col.index + 1])
        ret = apply(setter, rows)
        rec.add('ret=%r' % (ret,))

    def on_variable(name, setter):
        rec.add('var %r %s' % (name, setter.__name__))
        if name == 'fromlistener':
            apply(setter, 42)
        elif name == 'listenernone':
            setter(None)
        elif name == 'listenerzero':
            setter(0)
        elif name == 'listenerlist':
            setter(HOST_LIST)
        elif name == 'listenererr':
            setter(xlerror.REF)
        elif name == 'listenerraises':
            raise ValueError('listener failed for %s' % name)
        elif name == 'listenerraisesxl':
            raise xlerror.NUM
        elif name == 'x' and mode == 'twice':
            setter(100)
            setter(None)
            setter(200)

    def on_function(name, args, setter):
        rec.add('fn %r %s %s' % (name, show(args), setter.__name__))
        if name == 'OVERRIDE':
            setter('overridden')
        elif name == 'OVERRIDENONE':
            setter(None)
        elif name == 'OVERRIDEZERO':
            setter(0)
        elif name == 'OVERRIDEFALSE':
            setter(False)
        elif name == 'OVERRIDEEMPTY':
            setter('')
        elif name == 'OVERRIDEERR':
            setter(xlerror.NULL)
        elif name == 'OVERRIDETWICE':
            setter(1)
            setter(2)
            setter(None)
        elif name == 'LISTENERRAISES':
            raise KeyError('boom')
        elif name == 'LISTENERRAISESXL':
            raise xlerror.DATA
        elif name == 'ABS' and mode == 'falsy':
            setter(args[0])

    return on_cell, on_range, on_variable, on_function


def host_functions(rec):
    def triple(x):
        return x * 3

    def nothing(*args):
        return None

    def raises_value(*args):
        raise ValueError('host function failed')

    def raises_xl(*args):
        raise xlerror.NOT_AVAILABLE

    def raises_custom_xl(*args):
        raise xlerror.XLError('#CUSTOM!')

    def returns_err(*args):
        return xlerror.NUM

    def returns_list(*args):
        return HOST_LIST

    def count_args(*args):
        return len(args)

    def echo(*args):
        return list(args)

    def first(*args):
        return args[0] if args else 'noargs'

    def zero_div(*args):
        return 1 / 0

    fns = {
        'TRIPLE': triple, 'NOTHING': nothing, 'RAISESVALUE': raises_value, 'RAISESXL': raises_xl,
        'RAISESCUSTOM': raises_custom_xl, 'RETURNSERR': returns_err, 'RETURNSLIST': returns_list,
        'COUNTARGS': count_args, 'ECHO': echo, 'FIRST': first, 'ZERODIV': zero_div,
        'OVERRIDE': nothing, 'OVERRIDENONE': triple, 'OVERRIDEZERO': triple, 'OVERRIDEFALSE': triple,
        'OVERRIDEEMPTY': triple, 'OVERRIDEERR': triple, 'OVERRIDETWICE': nothing,
        'LISTENERRAISES': triple, 'LISTENERRAISESXL': triple,
        'SUM': None,  # placeholder removed below: a None entry falls back to the built-in
    }
    return fns


def build_parser(rec, mode, debug=False, with_listeners=True):
    p = Parser(debug=debug)
    for name, fn in host_functions(rec).items():
        if fn is None:
            p.functions[name] = None  # looked up, found None, falls back to the built-in formula
        else:
            p.set_function(name, fn)
    p.set_variable('x', 2)
    p.set_variable('y', 0)
    p.set_variable('s', 'str')
    p.set_variable('empty', '')
    p.set_variable('nothing', None)
    p.set_variable('flag', False)
    p.set_variable('lst', HOST_LIST)
    p.set_variable('err', xlerror.VALUE)
    p.set_variable('fl', 1.5)
    if with_listeners:
        on_cell, on_range, on_variable, on_function = make_listeners(rec, mode)
        p.on('callCellValue', on_cell)
        p.on('callRangeValue', on_range)
        p.on('callVariable', on_variable)
        p.on('callFunction', on_function)
    return p


FORMULAS = [
    # blanks / literals
    '', ' ', '1', '-1', '1.5', '.5', '2^3', '50%', '"text"', "'single'", 'TRUE', 'FALSE', 'NULL',
    '1+1', '1/0', '"a"&"b"', '1&NULL', '{1,2,3}', '{1,2;3,4}', '-{1,2}', '1=1', '1<>2', '"a"<"b"',
    # error literals
    '#N/A', '#DIV/0!', '#VALUE!', '#REF!', '#NAME?', '#NUM!', '#NULL!', '#ERROR!', '#GETTING_DATA', '#FOO!',
    # syntax problems
    '1+', '(', ')', '1 1', 'SUM(', '"unterminated', '@', '1..2',
    # variables
    'x', 'y', 's', 'empty', 'nothing', 'flag', 'lst', 'err', 'fl', 'x+fl', 'x*y', 's&x', 'x/y', 'missing',
    'missing+1', 'fromlistener', 'fromlistener*2', 'listenernone', 'listenerzero', 'listenerlist',
    'listenererr', 'listenerraises', 'listenerraisesxl', 'x.y', 'TRUE+1', 'true', 'X',
    # cells
    'A1', 'a1', '$A$1', '$A1', 'A$1', 'B1', 'C1', 'D1', 'B2', 'C2', 'D2', 'C3', 'D3', 'B4', 'D4', 'D5',
    'Z99', 'AA1', 'A0', 'A1+A2', 'A2*B2', 'C3+1', 'D3+1', 'ISBLANK(B1)', 'ISBLANK(A1)', 'A1&C1',
    # ranges
    'A1:A5', 'A5:A1', 'A1:D1', 'D1:A1', 'A1:B2', 'B2:A1', '$A$1:$B$2', '$A1:B$2', 'a1:b2', 'A1:A1',
    'D5:A1', 'A1:$D$5', 'Y98:Z99', 'SUM(A1:A5)', 'SUM(A5:A1)', 'SUM(A1:B5)', 'SUM(D1:D5)', 'COUNT(A1:D5)',
    'SUM(A1:A5)+SUM(A1:A5)', 'MAX(A1:B5)', 'A1:A2+1', 'SUM(A1:A2,B1:B2)',
    # functions: built-in
    'SUM(1,2,3)', 'SUM()', 'SUM(1,,3)', 'SUM(,)', 'SUM({1,2},3)', 'ABS(-2)', 'ABS("a")', 'ABS()', 'SQRT(-1)',
    'SQRT(4)', 'IF(TRUE,1,2)', 'IF(FALSE,1,2)', 'IF(1/0,1,2)', 'IFERROR(1/0,"e")', 'ISERROR(#N/A)',
    'CONCATENATE("a",1,TRUE)', 'LEN("abc")', 'UPPER(s)', 'AND(TRUE,FALSE)', 'OR(flag,x)', 'NOT(flag)',
    'ROUND(fl,0)', 'MOD(5,0)', 'POWER(2,10)', 'LN(0)', 'LOG(-1)', 'sum(1,2)', 'Sum(1,2)', 'NOSUCHFUNCTION(1)',
    'NOSUCHFUNCTION()', 'SUM(1;2)', 'MIN(x,fl,A3)', 'AVERAGE()', 'AVERAGE(A1:A5)',
    # functions: host
    'TRIPLE(2)', 'TRIPLE("ab")', 'TRIPLE(x)', 'TRIPLE(A4)', 'TRIPLE()', 'TRIPLE(1,2)', 'TRIPLE(NULL)',
    'TRIPLE(lst)', 'TRIPLE(#N/A)', 'NOTHING()', 'NOTHING(1)', 'NOTHING()+1', 'RAISESVALUE()', 'RAISESVALUE(1)+1',
    'RAISESXL()', 'RAISESXL()+1', 'IFERROR(RAISESXL(),"caught")', 'RAISESCUSTOM()', 'RAISESCUSTOM()&"x"',
    'RETURNSERR()', 'RETURNSERR()*2', 'RETURNSLIST()', 'SUM(RETURNSLIST())', 'COUNTARGS()', 'COUNTARGS(1)',
    'COUNTARGS(1,2,3)', 'COUNTARGS(,)', 'COUNTARGS(1,,2)', 'COUNTARGS(A1:B2)', 'ECHO(1,"a",TRUE,NULL,{1,2})',
    'ECHO(lst)', 'ECHO(A1:B2,x)', 'FIRST()', 'FIRST(lst)', 'FIRST(err)', 'ZERODIV()', 'ZERODIV()+1',
    # listeners overriding function results
    'OVERRIDE()', 'OVERRIDE(1)', 'OVERRIDENONE(2)', 'OVERRIDEZERO(2)', 'OVERRIDEFALSE(2)', 'OVERRIDEEMPTY(2)',
    'OVERRIDEERR(2)', 'OVERRIDETWICE()', 'OVERRIDETWICE()+1', 'LISTENERRAISES(1)', 'LISTENERRAISESXL(1)',
    'OVERRIDE()&OVERRIDEZERO(1)', 'TRIPLE(OVERRIDEZERO(5))', 'SUM(OVERRIDETWICE(),x,A2)',
    # nesting / mixtures
    'TRIPLE(TRIPLE(TRIPLE(1)))', 'SUM(TRIPLE(A2),x,fromlistener)', 'IF(missing,1,2)', 'SUM(A1:A5)/y',
    'ECHO(missing)', 'TRIPLE(listenerraises)', 'ECHO(RAISESVALUE(),1)', 'ECHO(RAISESXL(),RETURNSERR())',
    'ABS(A3)', 'ABS(B3)', 'ABS(C3)', 'ABS(D3)',
]


def run_all(tag, parser, rec, formulas=FORMULAS):
    for f in formulas:
        evaluate(tag, parser, f, rec)


def main():
    rec = Recorder()

    # 1. every formula on one long-lived parser with plain listeners
    p1 = build_parser(rec, 'plain')
    run_all('p1', p1, rec)

    # 2. the same on a second parser, debug on (stderr swallowed), after the first one has been used
    p2 = build_parser(rec, 'plain', debug=True)
    run_all('p2dbg', p2, rec)

    # 3. listeners that pass None / set twice / never set / set falsy values
    short = [f for f in FORMULAS if re.search(r'[A-Da-d]\$?[1-5]|\bx\b|OVERRIDE|fromlistener|ABS', f)]
    for mode in ('none', 'twice', 'silent', 'falsy'):
        p = build_parser(rec, mode)
        run_all(mode, p, rec, short)

    # 4. no listeners at all
    p0 = build_parser(rec, 'plain', with_listeners=False)
    run_all('nolisten', p0, rec, FORMULAS[::4])

    # 5. a fresh parser per formula gives what the long-lived one gave
    for f in FORMULAS[::7]:
        evaluate('fresh', build_parser(rec, 'plain'), f, rec)

    # 6. several listeners on one event, `once`, ctx and `off`
    pm = build_parser(rec, 'plain')

    def second_cell(cell, setter, suffix=None):
        rec.add('cell2 %s suffix=%r' % (cell.label, suffix))
        if cell.label == 'A1':
            setter('second wins')
        elif cell.label == 'A2':
            setter(None)

    def once_function(name, args, setter):
        rec.add('once fn %r' % (name,))
        setter('once')

    def late_var(name, setter, keep=None):
        rec.add('latevar %r' % (name,))
        keep.append(setter)

    kept = []
    pm.on('callCellValue', second_cell, {'suffix': 'ctx'})
    pm.once('callFunction', once_function)
    pm.on('callVariable', late_var, {'keep': kept})
    for f in ('A1', 'A2', 'A3', 'TRIPLE(2)', 'TRIPLE(2)', 'x', 'missing', 'A1+A2', 'SUM(A1:A3)'):
        evaluate('multi', pm, f, rec)
    # setters retained from finished evaluations are dead: calling them changes nothing later on
    for i, setter in enumerate(kept):
        setter('late %d' % i)
    for f in ('x', 'missing', 'fl'):
        evaluate('multi', pm, f, rec)
    pm.off('callCellValue', second_cell)
    pm.off('callVariable', late_var)
    for f in ('A1', 'A2', 'x'):
        evaluate('multi', pm, f, rec)
    pm.off('callCellValue')
    pm.off('callFunction')
    for f in ('A1', 'TRIPLE(A1)', 'OVERRIDE()'):
        evaluate('multi', pm, f, rec)
    print('listener table:', sorted((k, len(v)) for k, v in pm._e.items()))

    # 7. re-entrant evaluation from a host function and from a listener
    pr = build_parser(rec, 'plain')
    pr.set_function('EVAL', lambda text: pr.parse(text)['result'])

    def nested_cell(cell, setter):
        if cell.label == 'Z1':
            setter(pr.parse('A2+x')['result'])
    pr.on('callCellValue', nested_cell)
    for f in ('EVAL("1+1")', 'EVAL("A2")+A3', 'EVAL("missing")', 'EVAL("RAISESXL()")', 'Z1', 'Z1*2',
              'EVAL("Z1")+Z1', 'EVAL("EVAL(""1"")")', "EVAL('OVERRIDE()')"):
        evaluate('reentr', pr, f, rec)

    # 8. the call_* methods called directly
    pd = build_parser(rec, 'plain')
    direct('direct', rec, pd.call_function, 'TRIPLE', [4])
    direct('direct', rec, pd.call_function, 'TRIPLE')
    direct('direct', rec, pd.call_function, 'TRIPLE', None)
    direct('direct', rec, pd.call_function, 'NOTHING', [])
    direct('direct', rec, pd.call_function, 'SUM', [1, 2, [3]])
    direct('direct', rec, pd.call_function, 'NOPE', [1])
    direct('direct', rec, pd.call_function, 'RAISESVALUE', [1])
    direct('direct', rec, pd.call_function, 'RAISESXL', [])
    direct('direct', rec, pd.call_function, 'RAISESCUSTOM', [])
    direct('direct', rec, pd.call_function, 'OVERRIDE', [1])
    direct('direct', rec, pd.call_function, 'OVERRIDENONE', [1])
    direct('direct', rec, pd.call_function, 'OVERRIDEZERO', [1])
    direct('direct', rec, pd.call_function, 'OVERRIDETWICE', [])
    direct('direct', rec, pd.call_function, 'LISTENERRAISES', [1])
    direct('direct', rec, pd.call_function, 'LISTENERRAISESXL', [1])
    direct('direct', rec, pd.call_function, 'ECHO', HOST_LIST)
    direct('direct', rec, pd.call_function, 'ECHO', (1, 2))
    for name in ('x', 'y', 'nothing', 'lst', 'err', 'missing', 'fromlistener', 'listenernone', 'listenerzero',
                 'listenererr', 'listenerraises', 'listenerraisesxl', 'TRUE', 'NULL', '', 1, None):
        direct('direct', rec, pd.call_variable, name)
    for label in ('A1', 'a1', '$b$2', 'D3', 'ZZ100', 'A0', 'nolabel', '', '1A'):
        direct('direct', rec, pd.call_cell_value, label)
    for a, b in (('A1', 'B2'), ('B2', 'A1'), ('a1', 'b2'), ('$A$1', '$B$2'), ('A2', 'B1'), ('B1', 'A2'),
                 (None, 'A1'), ('A1', None), (None, None), ('A1', 'bad'), ('bad', 'A1'), ('$D5', 'A$1'),
                 ('A1', 'A1')):
        direct('direct', rec, pd.call_range_value, a, b)

    # 9. a parser without listeners, directly
    pn = Parser()
    direct('bare', rec, pn.call_cell_value, 'A1')
    direct('bare', rec, pn.call_range_value, 'A1', 'B2')
    direct('bare', rec, pn.call_variable, 'TRUE')
    direct('bare', rec, pn.call_variable, 'NULL')
    direct('bare', rec, pn.call_variable, 'nope')
    direct('bare', rec, pn.call_function, 'SUM', [1, 2])
    direct('bare', rec, pn.call_function, 'SUM')
    direct('bare', rec, pn.call_function, 'SQRT', [-1])
    direct('bare', rec, pn.call_function, 'SQRT', ['a'])
    for f in ('A1', 'A1:B2', 'SUM(A1:B2)', 'A1+1', 'x', 'TRUE', 'NULL', 'SUM(1,2)', 'SQRT(-1)'):
        evaluate('bare', pn, f, rec)
    print('bare listener table:', sorted((k, len(v)) for k, v in pn._e.items()))

    # 10. first parser again, after everything else: same outcomes as at the start
    run_all('p1again', p1, rec, FORMULAS[::3])

    # host values were not touched, nothing was added to the parsers
    print('host list unchanged:', repr(HOST_LIST) == HOST_LIST_SNAPSHOT, show(HOST_LIST))
    print('table unchanged:', show(TABLE))
    print('p1 variables:', show(p1.variables))
    print('p1 functions:', sorted(p1.functions))
    print('p1 listener table:', sorted((k, len(v)) for k, v in p1._e.items()))
    print('p1 attributes:', sorted(vars(p1)))
    print('tracebacks clean:', tracebacks_clean())
    print('evaluations:', COUNT[0])


if __name__ == '__main__':
    main()
