# -*- coding: utf-8 -*-
"""
Probe for C17 refactoring 4 (ROUNDUP / ROUNDDOWN / CEILING / FLOOR / EVEN / ODD: duplicated bodies
merged into parametrised private helpers, invariant power hoisted, early returns).
Prints a deterministic transcript; it must be byte-identical before and after the change.
"""
import os
import sys
import random

sys.path.insert(0, os.path.dirname(os.path.dirname(os.path.abspath(__file__))))

import hotxlfp  # noqa: E402
from hotxlfp.formulas import mathtrig, error  # noqa: E402

COUNT = [0]


def show(value):
    if isinstance(value, BaseException):
        return '%s(%s)' % (type(value).__name__, str(value))
    if isinstance(value, dict):
        return '{' + ', '.join('%r: %s' % (k, show(value[k])) for k in sorted(value)) + '}'
    if isinstance(value, (list, tuple)):
        inner = ', '.join(show(v) for v in value)
        return ('[%s]' if isinstance(value, list) else '(%s)') % inner
    if callable(value):
        return 'callable:%s' % getattr(value, '__name__', '?')
    return '%s:%r' % (type(value).__name__, value)


class Probe(object):
    """a parser together with a log of the events it emits"""

    def __init__(self, name):
        self.name = name
        self.parser = hotxlfp.Parser()
        self.events = []
        self.parser.on('callFunction', self.on_function)
        self.parser.on('callVariable', self.on_variable)
        self.parser.on('callCellValue', self.on_cell)
        self.parser.set_variable('N', -23.7825)
        self.parser.set_variable('P', 23.7825)
        self.parser.set_variable('S', '2.5')
        self.parser.set_variable('B', None)
        self.parser.set_variable('ARR', [1.5, 2.5])
        self.parser.set_variable('ERR', error.NUM)
        self.parser.set_variable('Z', complex(1, 2))

    def on_function(self, name, args, setter):
        self.events.append('F %s %s' % (name, show(list(args))))

    def on_variable(self, name, setter):
        self.events.append('V %s' % name)

    def on_cell(self, cell, setter):
        self.events.append('C %s' % cell.label)
        if cell.label == 'A1':
            setter(-7.25)
        elif cell.label == 'A2':
            setter(7.25)
        elif cell.label == 'A3':
            setter(2)
        elif cell.label == 'A4':
            setter('abc')

    def ev(self, formula):
        del self.events[:]
        out = self.parser.parse(formula)
        COUNT[0] += 1
        print('%s | %s -> %s | %s' % (self.name, formula, show(out), '; '.join(self.events)))


def call(fn, *args):
    COUNT[0] += 1
    try:
        out = fn(*args)
    except BaseException as e:  # noqa
        print('call %s%s raised %s' % (fn.__name__, show(args), show(e)))
        return None
    print('call %s%s -> %s' % (fn.__name__, show(args), show(out)))
    return out


class MyInt(int):
    def __repr__(self):
        return 'MyInt(%d)' % int(self)


class MyFloat(float):
    def __repr__(self):
        return 'MyFloat(%s)' % float.__repr__(self)


def main():
    p1 = Probe('p1')
    p2 = Probe('p2')

    numbers = ['0', '1', '-1', '2', '-2', '3', '-3', '0.5', '-0.5', '1.5', '-1.5', '2.5', '-2.5', '23.7825',
               '-23.7825', '23.7895', '-23.7895', '0.001', '-0.001', '1234567.891', '-1234567.891', '1e15',
               '-1e15', '1e-7', '99.999', '-99.999', '7', '-7', '10', '-10']
    formulas = []
    for n in numbers:
        formulas.append('ODD(%s)' % n)
        formulas.append('EVEN(%s)' % n)
    for n in numbers[::2]:
        for d in ('0', '1', '2', '-1', '-2', '3'):
            formulas.append('ROUNDUP(%s,%s)' % (n, d))
            formulas.append('ROUNDDOWN(%s,%s)' % (n, d))
    for n in ('0', '2.5', '-2.5', '3.7', '-5.6', '1.5', '0.234', '1.58', '6', '-6', '7', '-7', '1e10', '-0.01'):
        for s in ('1', '-1', '2', '-2', '0.1', '-0.1', '0.01', '3', '0', '1.5', '-2.5'):
            formulas.append('CEILING(%s,%s)' % (n, s))
            formulas.append('FLOOR(%s,%s)' % (n, s))
        formulas.append('CEILING(%s)' % n)
        formulas.append('FLOOR(%s)' % n)
        formulas.append('CEILING.MATH(%s)' % n)
        formulas.append('FLOOR.MATH(%s,2)' % n)
        formulas.append('CEILING.PRECISE(%s,-2)' % n)
        formulas.append('FLOOR.PRECISE(%s,-2)' % n)
    edge = ['TRUE', 'FALSE', '"3"', '"3.5"', '"-3.5"', '"abc"', '""', 'B', 'S', 'N', 'P', 'ARR', 'ERR', 'Z',
            '1/0', '#N/A', '#REF!', 'A1', 'A2', 'A3', 'A4', 'A9', '{1.5,2.5}', 'COMPLEX(1,2)', 'COMPLEX(0,0)',
            '2^0.5', '-(2^0.5)', 'PI()', '-PI()', '1e308*10', '10^400', 'SQRT(-1)', 'UNKNOWN']
    for e in edge:
        formulas.append('ODD(%s)' % e)
        formulas.append('EVEN(%s)' % e)
        formulas.append('ROUNDUP(%s,1)' % e)
        formulas.append('ROUNDDOWN(%s,1)' % e)
        if e != '10^400':  # 10**(10**400) would never finish, before or after the change
            formulas.append('ROUNDUP(12.345,%s)' % e)
            formulas.append('ROUNDDOWN(12.345,%s)' % e)
        formulas.append('CEILING(%s,2)' % e)
        formulas.append('CEILING(7.3,%s)' % e)
        formulas.append('CEILING(-7.3,%s)' % e)
        formulas.append('CEILING(0,%s)' % e)
        formulas.append('FLOOR(%s,2)' % e)
        formulas.append('FLOOR(7.3,%s)' % e)
        formulas.append('FLOOR(-7.3,%s)' % e)
        formulas.append('FLOOR(0,%s)' % e)
    formulas += [
        'ODD()', 'EVEN()', 'ODD(1,2)', 'EVEN(1,2)', 'ROUNDUP()', 'ROUNDUP(1)', 'ROUNDUP(1,2,3)', 'ROUNDDOWN()',
        'ROUNDDOWN(1)', 'ROUNDDOWN(1,2,3)', 'CEILING()', 'CEILING(1,2,3)', 'FLOOR()', 'FLOOR(1,2,3)',
        'ROUNDUP(23.7825, 2)', 'ROUNDDOWN(23.7895, 2)', 'ROUNDUP(1.5,400)', 'ROUNDDOWN(1.5,400)',
        'ROUNDUP(1.5,-400)', 'ROUNDDOWN(1.5,-400)', 'ROUNDUP(1.5,0.5)', 'ROUNDDOWN(1.5,0.5)', 'ROUNDUP(1.5,-0.5)',
        'ROUNDUP(0,308)', 'ROUNDUP(5,-308)', 'ROUNDUP(5,-324)', 'ROUNDDOWN(5,-330)', 'ROUNDUP(1e300,10)',
        'ROUNDUP(1e300,1.5)', 'ROUNDDOWN(-1e300,10.5)', 'ROUNDUP(ROUNDDOWN(2.555,2),1)',
        'ROUNDUP(N,2)+ROUNDDOWN(P,2)', 'EVEN(ODD(2.2))', 'ODD(EVEN(-2.2))', 'CEILING(FLOOR(7.7,2),3)',
        'FLOOR(CEILING(-7.7,2),-3)', 'EVEN(A1)+ODD(A2)', 'CEILING(A1,A3)', 'FLOOR(A1,A3)', 'FLOOR(A2,-A3)',
        'CEILING(A2,-A3)', 'FLOOR(-5.6; 1)', 'FLOOR(-5.6; -1)', 'CEILING(-2.5; 2)', 'SUM(EVEN(1),ODD(2),ROUNDUP(1.11,1))',
        'IF(EVEN(3)=4,"y","n")', 'ROUND(2.5,0)', 'ROUND(-2.5,0)', 'ROUND(1234.5678,-2)', 'INT(-2.5)', 'INT(2.5)',
        'MOD(EVEN(7),ODD(2))', 'QUOTIENT(ROUNDUP(7.1,0),2)', 'SIGN(FLOOR(-0.5,1))', 'SIGN(CEILING(-0.5,1))',
    ]

    for f in formulas:
        p1.ev(f)
    for f in formulas[::4]:
        p2.ev(f)
    for f in formulas[::9]:
        p1.ev(f)

    # ---- direct calls with random numbers -----------------------------------------------
    rnd = random.Random(1704)
    for _ in range(120):
        kind = rnd.randrange(4)
        if kind == 0:
            n = rnd.randrange(-1000, 1000)
        elif kind == 1:
            n = rnd.uniform(-1000, 1000)
        elif kind == 2:
            n = round(rnd.uniform(-50, 50), rnd.randrange(0, 4))
        else:
            n = rnd.choice([-1, 1]) * 10.0 ** rnd.randrange(-12, 18) * rnd.random()
        d = rnd.choice([0, 1, 2, 3, -1, -2, 5, 10, 2.0, True, False])
        s = rnd.choice([1, -1, 2, -2, 0.1, -0.1, 0.25, 3, 7.5, -7.5, 0, 1e-3, True])
        call(mathtrig.ROUNDUP, n, d)
        call(mathtrig.ROUNDDOWN, n, d)
        call(mathtrig.CEILING, n, s)
        call(mathtrig.FLOOR, n, s)
        call(mathtrig.EVEN, n)
        call(mathtrig.ODD, n)

    # ---- direct calls: unusual types ----------------------------------------------------
    inf = float('inf')
    nan = float('nan')
    weird = [None, True, False, '', ' ', 'x', '12', '-12.5', '1e2', 'inf', '-inf', 'nan', 0, 0.0, -0.0, 1.0,
             inf, -inf, nan, 1 + 2j, -3j, 0j, [], [1], (1, 2), {}, error.VALUE, error.DIV_ZERO,
             error.NOT_AVAILABLE, b'1', 10 ** 30, -10 ** 30, 2 ** 64 + 1, 1e308, -1e308, 5e-324,
             MyInt(7), MyInt(-8), MyFloat(2.5), MyFloat(-2.5), mathtrig.DEFAULT]
    for w in weird:
        call(mathtrig.EVEN, w)
        call(mathtrig.ODD, w)
        call(mathtrig.ROUNDUP, w, 1)
        call(mathtrig.ROUNDDOWN, w, 1)
        if not (isinstance(w, int) and w > 10 ** 6):  # 10**huge would never finish, before or after the change
            call(mathtrig.ROUNDUP, 12.345, w)
            call(mathtrig.ROUNDUP, -12.345, w)
            call(mathtrig.ROUNDDOWN, 12.345, w)
            call(mathtrig.ROUNDDOWN, w, w)
        call(mathtrig.CEILING, w)
        call(mathtrig.CEILING, w, 2)
        call(mathtrig.CEILING, w, -2)
        call(mathtrig.CEILING, 7.3, w)
        call(mathtrig.CEILING, -7.3, w)
        call(mathtrig.CEILING, 0, w)
        call(mathtrig.FLOOR, w)
        call(mathtrig.FLOOR, w, 2)
        call(mathtrig.FLOOR, w, -2)
        call(mathtrig.FLOOR, 7.3, w)
        call(mathtrig.FLOOR, -7.3, w)
        call(mathtrig.FLOOR, 0, w)
        call(mathtrig.FLOOR, nan, w)
    for fn in (mathtrig.EVEN, mathtrig.ODD, mathtrig.ROUNDUP, mathtrig.ROUNDDOWN, mathtrig.CEILING,
               mathtrig.FLOOR):
        call(fn)
        call(fn, 1, 2, 3)
    call(mathtrig.ROUNDUP, 1)
    call(mathtrig.ROUNDDOWN, 1)
    call(mathtrig.ROUNDUP, 1.5, 10 ** 3)
    call(mathtrig.ROUNDDOWN, 1.5, 10 ** 3)
    call(mathtrig.ROUNDUP, 15, 400)
    call(mathtrig.ROUNDDOWN, 15, -400)
    call(mathtrig.ROUNDUP, 15, -5000)
    call(mathtrig.ROUNDDOWN, 10 ** 40, -38)
    call(mathtrig.ROUNDUP, 10 ** 40 + 1, -38)
    print('evaluations: %d' % COUNT[0])


if __name__ == '__main__':
    main()
