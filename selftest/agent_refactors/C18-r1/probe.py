# -*- coding: utf-8 -*-
"""
Probe for C18 refactoring 1 (MATCH split into _match_nearest / _match_exact).
Prints a deterministic transcript: one line per evaluation.
"""
import os
import sys
import random

sys.path.insert(0, os.path.dirname(os.path.dirname(os.path.abspath(__file__))))

import hotxlfp  # noqa: E402
from hotxlfp import Parser  # noqa: E402
from hotxlfp.formulas import error  # noqa: E402
from hotxlfp.formulas import lookupandreference as lr  # noqa: E402

COUNT = [0]


def show(value):
    """ repr without memory addresses """
    if isinstance(value, error.XLError):
        return 'XLError(%s)' % str(value)
    if isinstance(value, list):
        return '[' + ', '.join(show(v) for v in value) + ']'
    if isinstance(value, tuple):
        return '(' + ', '.join(show(v) for v in value) + ')'
    if isinstance(value, dict):
        return '{' + ', '.join('%s: %s' % (show(k), show(value[k])) for k in sorted(value)) + '}'
    if callable(value):
        return '<callable>'
    return repr(value)


def line(kind, what, outcome):
    COUNT[0] += 1
    print('%04d %s %s => %s' % (COUNT[0], kind, what, outcome))


def direct(fn, *args, **kwargs):
    what = '%s(%s)' % (fn.__name__, ', '.join([show(a) for a in args] + ['%s=%s' % (k, show(kwargs[k])) for k in sorted(kwargs)]))
    try:
        out = show(fn(*args, **kwargs))
    except error.XLError as e:
        out = 'raised XLError(%s)' % str(e)
    except Exception as e:
        out = 'raised %s: %s' % (type(e).__name__, e)
    error.clear_tracebacks()
    line('call', what, out)


class Recorder(object):

    def __init__(self, variables=None, cells=None, ranges=None):
        self.parser = Parser()
        self.events = []
        self.cells = cells or {}
        self.ranges = ranges or {}
        for k, v in (variables or {}).items():
            self.parser.set_variable(k, v)
        self.parser.on('callFunction', self.on_function)
        self.parser.on('callVariable', self.on_variable)
        self.parser.on('callCellValue', self.on_cell)
        self.parser.on('callRangeValue', self.on_range)

    def on_function(self, name, args, setter):
        self.events.append('fn:%s%s' % (name, show(args)))

    def on_variable(self, name, setter):
        self.events.append('var:%s' % name)

    def on_cell(self, cell, setter):
        self.events.append('cell:%s' % cell.label)
        if cell.label in self.cells:
            setter(self.cells[cell.label])

    def on_range(self, start, end, setter):
        key = '%s:%s' % (start.label, end.label)
        self.events.append('range:%s' % key)
        if key in self.ranges:
            setter(self.ranges[key])

    def run(self, formula):
        self.events = []
        try:
            ret = self.parser.parse(formula)
            out = show(ret)
        except Exception as e:  # parse() is not expected to raise
            out = 'raised %s: %s' % (type(e).__name__, e)
        line('formula', formula, '%s events=%s' % (out, ' | '.join(self.events)))


VARIABLES = {
    'ASC': [1, 3, 5, 7, 9],
    'DESC': [9, 7, 5, 3, 1],
    'NEG': [-5, -3, -1],
    'ZERO': [0, 0, 1],
    'MIX': [1, 'a', True, None, 2.5],
    'TXT': ['apple', 'Banana', 'cherry', 'BANANA', 'a*b', 'a?c'],
    'EMPTY': [],
    'GRID': [[1, 2, 3], [4, 5, 6]],
    'ERRS': [1, error.DIV_ZERO, 3],
    'BLANK': None,
    'SCALAR': 5,
    'T': 'banana',
}
CELLS = {'A1': 3, 'B1': 'cherry', 'C1': None, 'D1': True}
RANGES = {'A1:A5': [1, 3, 5, 7, 9], 'B1:B3': ['x', 'y', 'z'], 'A1:C2': [[1, 2, 3], [4, 5, 6]]}


def formulas():
    r = Recorder(VARIABLES, CELLS, RANGES)
    fs = []
    # match type 1 (default and explicit)
    for x in ('0', '1', '2', '5', '8', '9', '10', '-1', '2.5', '1/0', '"a"', 'TRUE', 'FALSE', '""'):
        fs.append('MATCH(%s,{1,3,5,7,9})' % x)
        fs.append('MATCH(%s,{1,3,5,7,9},1)' % x)
        fs.append('MATCH(%s,{9,7,5,3,1},-1)' % x)
        fs.append('MATCH(%s,{1,3,5,7,9},0)' % x)
    # unsorted data, duplicates, zeros, negatives
    for arr in ('{5,1,9,3,7}', '{3,3,3}', '{0,0,1}', '{-5,-3,-1}', '{0}', '{-1,0,1}', '{1;2;3}', '{1\\2\\3}', '{1,2;3,4}', '{2.5,2.50,3}'):
        for x in ('0', '1', '2', '3', '4', '-2', '2.5'):
            for t in ('1', '0', '-1'):
                fs.append('MATCH(%s,%s,%s)' % (x, arr, t))
    # text, wildcards, case
    txt = '{"apple","Banana","cherry","BANANA","a*b","a?c",5,TRUE}'
    for x in ('"banana"', '"BANANA"', '"b*"', '"*an*"', '"?pple"', '"*"', '"?"', '"a[*]b"', '"a~*b"', '"zzz"', '""', '"cherry "', '5', 'TRUE', '"5"', '"[a-c]*"', '"[!a]*"'):
        for t in ('0', '1', '-1'):
            fs.append('MATCH(%s,%s,%s)' % (x, txt, t))
    # match_type oddities
    for t in ('2', '-2', '0.5', '1.0', '0.0', '-1.0', 'TRUE', 'FALSE', '"0"', '"1"', '1/0', '{1}', '', '-0'):
        fs.append('MATCH(5,{1,3,5,7,9},%s)' % t)
        fs.append('MATCH("b*",{"a","b","bc"},%s)' % t)
    # argument count and kinds
    fs += ['MATCH()', 'MATCH(1)', 'MATCH(1,{1})', 'MATCH(1,{1},0,0)', 'MATCH(,{1,2},0)', 'MATCH(,,0)', 'MATCH(,)', 'MATCH(0,{0},0)',
           'MATCH(0,0,0)', 'MATCH(1,1,0)', 'MATCH(1,"1",0)', 'MATCH(0,"",0)', 'MATCH("",{""},0)', 'MATCH("",{"",1},1)',
           'MATCH(FALSE,{FALSE},0)', 'MATCH(FALSE,{0},0)', 'MATCH(TRUE,{1},0)', 'MATCH(1,{TRUE},0)', 'MATCH(0,{FALSE,1},1)',
           'MATCH(1;{1,2};0)', 'MATCH(2;{1;2};0)', 'MATCH(#N/A,{1},0)', 'MATCH(1,{#N/A},0)', 'MATCH(1,#REF!,0)', 'MATCH(1,{1},#NUM!)',
           'MATCH(3,{1,2;3,4},0)', 'MATCH({1,2},{1,2;3,4},0)', 'MATCH({3,4},{1,2;3,4},1)', 'MATCH({0,9},{1,2;3,4},-1)', 'MATCH({1},{1,2},1)',
           'MATCH(2,{1,,3},1)', 'MATCH(2,{1,,3},0)', 'MATCH(2,{1,,3},-1)', 'MATCH(2,{,,},1)', 'MATCH(0,{,,},0)', 'MATCH(2,{"a",1,3},1)',
           'MATCH(2,{1,"a",3},1)', 'MATCH(2,{1,"a",3},-1)', 'MATCH(2,{3,"a",1},-1)', 'MATCH("b",{"a","c"},1)', 'MATCH("b",{"c","a"},-1)',
           'MATCH("b",{"a",1},1)', 'MATCH("b",{"",""},1)', 'MATCH("b",{"","c"},-1)', 'MATCH(1,{1/0,1},0)', 'MATCH(1,{1,1/0},0)',
           'MATCH(2,{1,1/0},1)', 'MATCH(1/0,{1/0},0)', 'MATCH(1e3,{10,100,1000},0)', 'MATCH(50%,{0.25,0.5},0)', 'MATCH(-3,{-5,-3,-1},0)',
           'MATCH(-2,{-5,-3,-1},1)', 'MATCH(-2,{-1,-3,-5},-1)', 'MATCH(-9,{-5,-3,-1},1)', 'MATCH(9,{-1,-3,-5},-1)']
    # variables, cells, ranges
    fs += ['MATCH(5,ASC)', 'MATCH(6,ASC,1)', 'MATCH(6,DESC,-1)', 'MATCH(7,ASC,0)', 'MATCH(0,ZERO,1)', 'MATCH(1,ZERO,1)', 'MATCH(0.5,ZERO,1)',
           'MATCH(-2,NEG,1)', 'MATCH(-2,NEG,-1)', 'MATCH(T,TXT,0)', 'MATCH("A?C",TXT,0)', 'MATCH("a*",TXT,0)', 'MATCH(1,MIX,0)', 'MATCH("A",MIX,0)',
           'MATCH(TRUE,MIX,0)', 'MATCH(2.5,MIX,0)', 'MATCH(2,MIX,1)', 'MATCH(BLANK,MIX,0)', 'MATCH(BLANK,EMPTY,0)', 'MATCH(1,EMPTY,0)',
           'MATCH(1,EMPTY,1)', 'MATCH(1,EMPTY,-1)', 'MATCH(0,EMPTY)', 'MATCH("",EMPTY)', 'MATCH(1,BLANK,0)', 'MATCH(0,BLANK,0)', 'MATCH(5,SCALAR,0)',
           'MATCH(3,ERRS,0)', 'MATCH(3,ERRS,1)', 'MATCH(1,ERRS,1)', 'MATCH(2,GRID,0)', 'MATCH(2,GRID,1)', 'MATCH(NOPE,ASC,0)', 'MATCH(5,NOPE,0)',
           'MATCH(A1,A1:A5,0)', 'MATCH(A1,A1:A5)', 'MATCH(4,A1:A5,1)', 'MATCH(B1,TXT,0)', 'MATCH("y",B1:B3,0)', 'MATCH(C1,A1:A5,0)', 'MATCH(D1,A1:A5,0)',
           'MATCH(3,Z1:Z9,0)', 'MATCH(0,Z1:Z9,0)', 'MATCH(4,A1:C2,0)', 'MATCH(Z1,A1:A5,1)']
    # the derived identity and compositions
    for x in ('1', '3', '5', '7', '9', '4'):
        fs.append('INDEX({1,3,5,7,9},MATCH(%s,{1,3,5,7,9},0))' % x)
        fs.append('INDEX({1;3;5;7;9};MATCH(%s;{1;3;5;7;9};1))' % x)
        fs.append('INDEX(DESC,MATCH(%s,DESC,-1))' % x)
    for x in ('"apple"', '"BANANA"', '"c*"', '"a?c"', '"nope"'):
        fs.append('INDEX(TXT,MATCH(%s,TXT,0))' % x)
    fs += ['CHOOSE(MATCH(3,{1,3,5},0),"a","b","c")', 'CHOOSE(MATCH(4,{1,3,5},0),"a","b","c")', 'MATCH(CHOOSE(2,1,3,5),{1,3,5},0)',
           'SUM(MATCH(3,{1,3,5},0),MATCH(5,{1,3,5},0))', 'IF(ISNA(MATCH(4,{1,3,5},0)),"none","some")', 'MATCH(MATCH(3,{1,3,5},0),{1,2,3},0)',
           'MATCH(3,{1,3,5},0)+1', 'MATCH("x",{"x"},0)&"!"', '-MATCH(9,{1,3,5},1)', 'match(3,{1,3,5},0)', 'MATCH(3,{1,3,5},0', 'MATCH 3']
    for f in fs:
        r.run(f)


def direct_calls():
    M = lr.MATCH
    arrays = [[1, 3, 5, 7, 9], [9, 7, 5, 3, 1], [5, 1, 9, 3, 7], [], [0], [0, 0, 0], [0, -1, -2], [-2, -1, 0], [None, 1], [1, None],
              ['a', 'b'], ['B', 'a', 'b'], [1, 'a'], ['a', 1], [True, False], [1.5, 2.5], [[1, 2], [3, 4]], [[1], [0]], [error.VALUE, 1],
              [1, error.VALUE], [float('inf'), 1], [1, 2, float('nan')], [float('nan'), 1, 2], (1, 2, 3), 'abc', 5, None, {1: 2}, [1j, 2]]
    values = [0, 1, 2, 5, 6, -1, 1.5, True, False, None, '', 'a', 'A', 'b*', '?', [1, 2], [], error.VALUE, float('nan'), float('inf')]
    for arr in arrays:
        for v in values:
            for t in (1, 0, -1):
                direct(M, v, arr, t)
    for t in (None, 2, -2, 0.0, 1.0, -1.0, 0.5, True, False, '1', '0', [], [1], (1,), error.VALUE, float('nan'), 1j, 0j):
        direct(M, 3, [1, 3, 5], t)
        direct(M, 4, [1, 3, 5], t)
        direct(M, 'b*', ['a', 'bc'], t)
    direct(M, 3, [1, 3, 5])
    direct(M, 4, [5, 3, 1])
    direct(M)
    direct(M, 1)
    direct(M, 1, [1], 0, 0)
    direct(M, lookup_value=3, lookup_array=[1, 3], match_type=0)
    direct(M, 3, match_type=0, lookup_array=[3])

    # randomised: integers with duplicates, sorted and not
    rnd = random.Random(1818)
    for i in range(150):
        n = rnd.randint(0, 8)
        arr = [rnd.randint(-3, 6) for _ in range(n)]
        mode = rnd.choice(('asc', 'desc', 'raw'))
        if mode == 'asc':
            arr.sort()
        elif mode == 'desc':
            arr.sort(reverse=True)
        x = rnd.choice([rnd.randint(-4, 7), rnd.randint(-4, 7) + 0.5])
        for t in (1, 0, -1):
            direct(M, x, arr, t)
    words = ['', 'a', 'ab', 'abc', 'b', 'ba', 'B', 'AB', 'a*', '*', '?', 'a?', '[a]', 'a b']
    for i in range(120):
        arr = [rnd.choice(words + [1, None, True]) for _ in range(rnd.randint(0, 6))]
        x = rnd.choice(words)
        for t in (0, 1, -1):
            direct(M, x, arr, t)

    # the helpers' neighbours stay as they were
    direct(lr.CHOOSE, 1, 'a', 'b')
    direct(lr.CHOOSE, 2, 'a', 'b')
    direct(lr.CHOOSE, 3, 'a', 'b')
    direct(lr.INDEX, [1, 3, 5], M(3, [1, 3, 5], 0))
    direct(lr.INDEX, [1, 3, 5], M(4, [1, 3, 5], 0))
    line('info', 'supported lookup names', show([n for n in hotxlfp.formulas.supported() if n in ('CHOOSE', 'MATCH', 'INDEX')]))
    line('info', 'registered functions', show(sorted(n for n in hotxlfp.formulas.dispatcher._registry_ if hotxlfp.formulas.dispatcher._registry_[n].__module__ == lr.__name__)))


if __name__ == '__main__':
    formulas()
    direct_calls()
