# -*- coding: utf-8 -*-
"""
C11 refactoring 1 probe: utils.parse_criteria (comparison / wildcard / equality predicates)
and utils.inumbers (number filter behind SUM, AVERAGE, MIN, MAX, MEDIAN, MODE, VAR, STDEV, ...).
Prints a deterministic transcript, one line per evaluation.
"""
import os
import sys
import random

sys.path.insert(0, os.path.dirname(os.path.dirname(os.path.abspath(__file__))))

import hotxlfp  # noqa: E402
from hotxlfp import Parser  # noqa: E402
from hotxlfp.formulas import utils, error  # noqa: E402
from hotxlfp import formulas  # noqa: E402

COUNT = [0]


def show(value):
    if isinstance(value, error.XLError):
        return 'XLError(%r)' % str(value)
    if isinstance(value, BaseException):
        return '%s(%r)' % (type(value).__name__, str(value))
    if isinstance(value, list):
        return '[' + ', '.join(show(v) for v in value) + ']'
    if isinstance(value, tuple):
        return '(' + ', '.join(show(v) for v in value) + (',)' if len(value) == 1 else ')')
    if isinstance(value, dict):
        return '{' + ', '.join('%r: %s' % (k, show(value[k])) for k in sorted(value)) + '}'
    return repr(value)


def out(kind, what, outcome):
    COUNT[0] += 1
    print('%04d %s %s => %s' % (COUNT[0], kind, what, outcome))


# ---------------------------------------------------------------- sheet behind the parser

TABLE = [
    # A      B        C       D               E       F
    [1,      'apple', 10,     None,           True,   '3'],
    [2,      'pear',  20.5,   '',             False,  '4.5'],
    [3,      'apple', -30,    'x',            True,   'abc'],
    [4,      'plum',  40,     error.VALUE,    None,   ' 7 '],
    [5,      'apricot', 0,    error.NOT_AVAILABLE, 0, '1e2'],
    [2,      'Apple', 20.5,   None,           1,      '-0'],
]


def make_parser(events):
    p = Parser()

    def on_cell(cell, setter):
        events.append(('cell', cell.label))
        try:
            setter(TABLE[cell.row.index][cell.col.index])
        except IndexError:
            pass

    def on_range(start, end, setter):
        events.append(('range', start.label, end.label))
        rows = []
        for r in range(start.row.index, end.row.index + 1):
            if r < len(TABLE):
                rows.append(TABLE[r][start.col.index:end.col.index + 1])
        setter(rows)

    def on_function(name, args, setter):
        events.append(('fn', name, show(list(args))))

    def on_variable(name, setter):
        events.append(('var', name))

    p.on('callCellValue', on_cell)
    p.on('callRangeValue', on_range)
    p.on('callFunction', on_function)
    p.on('callVariable', on_variable)
    return p


def ev(formula):
    events = []
    p = make_parser(events)
    try:
        res = p.parse(formula)
        outcome = show(res)
    except BaseException as e:  # parse() is not supposed to raise
        outcome = 'RAISED ' + show(e)
    out('parse', repr(formula), '%s events=%s' % (outcome, show(events)))


def direct(fname, *args):
    fn = formulas.get_for(fname)
    try:
        outcome = show(fn(*args))
    except BaseException as e:
        outcome = 'raise ' + show(e)
    out('call', '%s%s' % (fname, show(tuple(args))), outcome)
    error.clear_tracebacks()


def via_parser(fname, *args):
    events = []
    p = make_parser(events)
    try:
        outcome = show(p.call_function(fname, list(args)))
    except BaseException as e:
        outcome = 'raise ' + show(e)
    out('call_function', '%s%s' % (fname, show(tuple(args))), '%s events=%s' % (outcome, show(events)))
    error.clear_tracebacks()


def crit(criteria, items):
    try:
        pred = utils.parse_criteria(criteria)
    except BaseException as e:
        out('criteria', repr(criteria), 'raise ' + show(e))
        return
    results = []
    for item in items:
        try:
            results.append(show(pred(item)))
        except BaseException as e:
            results.append('raise ' + show(e))
    out('criteria', '%r on %s' % (criteria, show(list(items))), '[' + ', '.join(results) + ']')


def nums(items, **kw):
    got = []
    tail = ''
    try:
        for n in utils.inumbers(items, **kw):
            got.append(n)
    except BaseException as e:
        tail = ' then raise ' + show(e)
    out('inumbers', '%s %s' % (show(items), show(kw)), show(got) + tail)
    try:
        outcome = show(utils.numbers(items, **kw))
    except BaseException as e:
        outcome = 'raise ' + show(e)
    out('numbers', '%s %s' % (show(items), show(kw)), outcome)
    error.clear_tracebacks()


# ---------------------------------------------------------------- 1. criteria predicates, directly

ITEMS = [0, 1, 2, 2.0, 2.5, -3, 10, 1e308, float('inf'), True, False, None, '', '2', 'apple', 'Apple',
         'apricot', 'a', 'ab', 'a*b', 'a?b', '?', '*', '>2', '=2', ' 2', error.VALUE, [2], (2,), 2 + 0j]

CRITERIA = [
    '>2', '<2', '>=2', '<=2', '<>2', '=2', '2', '2.0', '2.5', '>2.5', '<-3', '>=-3', '-3', '<>-3',
    '>0', '<0', '=0', '0', '<>0', '1', '=1', '<>1', 'TRUE', '=TRUE', 'true',
    'apple', '=apple', '<>apple', '>apple', '<apple', '>=b', '<=b', 'Apple',
    'a*', '*e', '*', '?', '??', 'a?', 'ap*e', '*p*', 'a[pb]*', '[!a]*', 'a\\*b', '=a*', '<>a*', '>a?',
    '>', '<', '=', '<>', '>=', '<=', '==', '==2', '><2', '=<2', '=>2', '<<2', '>>', '<=>2', '>=<',
    ' ', ' 2', '2 ', ' >2', '> 2', '>2 ', '<> 3', '>1e2', '>1E2', '>0x10', '>inf', '<inf', '>nan', 'nan', 'inf',
    '>1_0', '1_0', '>+2', '+2', '>١٢', '٢', u'\xe9*', u'>\xe9',
    '>' + '9' * 400, '9' * 400, '>2;3', '2,5', '>2,5', '?*', '*?', '**', 'a**e', '>?', '<*', '=?', '<>*',
    '\n', '>\n', 'a\nb', '>a\nb', '2\n',
]

for c in CRITERIA:
    crit(c, ITEMS)

for bad in ['', None, 2, 2.5, True, [], ['>2'], ('>2',), b'>2', error.VALUE, {}]:
    crit(bad, ITEMS[:3])

# ---------------------------------------------------------------- 2. number filter, directly

SEQS = [
    [],
    (),
    [1, 2, 3],
    (1, 2.5, -3),
    [[1, 2], [3, 4]],
    [[1, [2, (3, [4, [5]])]], 6],
    [[], [[]], ()],
    5,
    'abc',
    '12',
    None,
    True,
    error.NUM,
    [1, '2', 'x', None, True, False, '', ' 4 ', '1e3', '0x1', 'nan', 'inf', '-0', '1_000'],
    [1, error.VALUE, 2],
    [error.NOT_AVAILABLE],
    [[1, 2], [error.DIV_ZERO, 3], error.VALUE],
    ['a', error.REF],
    [1 + 2j, 2, 0j],
    [b'1', 1.5, bytearray(b'2')],
    [{'a': 1}, {1, }, 2],
    [float('nan'), float('inf'), -float('inf'), 1e308, 5e-324, -0.0],
    [10 ** 30, -10 ** 30, 2 ** 64],
    ['9' * 400, '1' * 5000],
    [range(3), 7],
    [iter([1, 2]).__class__.__name__, 8],
]

for seq in SEQS:
    for kw in ({}, {'try_parse': True}, {'text_is_zero': True}, {'try_parse': True, 'text_is_zero': True}):
        nums(seq, **kw)

# ---------------------------------------------------------------- 3. statistics over the filter

STAT_NAMES = ['SUM', 'PRODUCT', 'AVERAGE', 'AVERAGEA', 'MIN', 'MINA', 'MAX', 'MAXA', 'COUNT', 'COUNTA', 'COUNTBLANK',
              'MEDIAN', 'MODE', 'MODE.SNGL', 'VAR', 'VAR.S', 'VAR.P', 'VARP', 'VARA', 'STDEV', 'STDEV.S', 'STDEV.P',
              'STDEVP', 'STDEVA', 'STDEVPA', 'AVEDEV', 'GEOMEAN', 'HARMEAN']

STAT_ARGS = [
    (),
    (5,),
    (1, 2, 3, 4),
    (4, 3, 2, 1),
    ([1, 2], [3, 4]),
    ([[1], [2, [3]]], 4),
    (1, 2, 2, 3, 3, 3),
    (2.5, 2.5, -1, 0),
    ('3', '4.5', 1),
    ('abc', 1, 2),
    (None, 1, 2),
    (True, False, 3),
    ([1, 'x', None, True, '', '2'], 5),
    (1, error.VALUE, 2),
    ([1, [error.NOT_AVAILABLE]], 2),
    (error.DIV_ZERO,),
    ('x', error.NUM),
    (0, 0, 0),
    (-1, -2, -3),
    (0, 1, 2),
    (1e308, 1e308),
    ([], []),
    ('', ''),
]

for name in STAT_NAMES:
    for args in STAT_ARGS:
        via_parser(name, *args)

for args in [([29, 14, 33, 19, 17], 1), ([29, 14, 33, 19, 17], 5), ([29, 14, 33, 19, 17], 0), ([29, 14, 33, 19, 17], 6),
             ([29, 14, 33, 19, 17], 'a'), ([29, 14, 33, 19, 17], '2'), ([29, 14, 33, 19, 17], error.NUM),
             ([[3, 'x'], [None, True]], 1), ([[3, 'x'], [None, True]], 2), ([3, 'x', None, True], 3),
             ([3, 'x', None, True], 4), ([1, error.VALUE, 3], 1), ([1, 2, 3], 1.5), ([1, 2, 3], 2.0),
             ([1, 2, 3], True), ([1, 2, 3], None), (5, 1), ('abc', 1), ([], 1)]:
    via_parser('LARGE', *args)
    direct('LARGE', *args)

# ---------------------------------------------------------------- 4. criteria functions, directly and via the parser

RANGES = [
    [1, 2, 3, 4, 5, 2],
    [[1, 2], [3, 4], [5, 2]],
    [1, 'apple', 2.5, None, True, '', 'apricot', '2', 'Apple', -3],
    [],
    [1, error.VALUE, 3],
    ['a', 'b', 'ab', 'a*b'],
    5,
    'apple',
    None,
]
CRIT_SHORT = ['>2', '<=2', '<>2', '=2', '2', '2.5', 'apple', 'a*', '?', '*', '<>apple', '>a', 'TRUE', '', '==2', None, 3]

for rng in RANGES:
    for c in CRIT_SHORT:
        via_parser('SUMIF', rng, c)
        via_parser('COUNTIF', rng, c)
        via_parser('AVERAGEIF', rng, c)

for c in CRIT_SHORT:
    via_parser('AVERAGEIF', [1, 2, 3, 4], c, [10, 20, 30, 40])
    via_parser('AVERAGEIF', ['a', 'ab', 'b', 'a*'], c, [10, '20', 30, 'x'])
    via_parser('SUMIFS', [1, 2, 3, 4], [1, 2, 3, 4], c)
    via_parser('SUMIFS', [1, 2, 3, 4], [1, 2, 3, 4], '>1', ['a', 'ab', 'b', 2], c)
    via_parser('AVERAGEIFS', [1, 2, 3, 4], [1, 2, 3, 4], c)
    via_parser('AVERAGEIFS', [1, 2, 3, 4], ['a', 'ab', 'b', 2], c, [1, 2, 3, 4], '<4')
    via_parser('MAXIFS', [1, 2, 3, 4], [1, 2, 3, 4], c)
    via_parser('MAXIFS', [1, 2, 3, 4], ['a', 'ab', 'b', 2], c, [4, 3, 2, 1], '>=1')

# ---------------------------------------------------------------- 5. whole formulas

FORMULAS = [
    'SUM(1,2,3)', 'SUM({1,2,3})', 'SUM({1,2;3,4},5)', 'SUM(A1:A6)', 'SUM(A6:A1)', 'SUM(A1:F6)', 'SUM(A1:C6)',
    'SUM(D1:D3)', 'SUM(D1:D6)', 'SUM(E1:F6)', 'SUM(A1,B1,C1,F1)', 'SUM("3","x",TRUE)', 'SUM()', 'SUM(#N/A,1)',
    'SUM(1,#VALUE!)', 'SUM({1,#DIV/0!})', 'SUM(1/0,2)', 'SUM(NULL,1)', 'SUM(nosuch,1)',
    'PRODUCT(1,2,3)', 'PRODUCT({1,2;3,4},5)', 'PRODUCT(A1:A6)', 'PRODUCT("3",2)', 'PRODUCT()', 'PRODUCT(F1:F6)',
    'PRODUCT(1,#N/A)', 'PRODUCT(D1:D6)',
    'AVERAGE(1,2,3)', 'AVERAGE(A1:A6)', 'AVERAGE(B1:B6)', 'AVERAGE(F1:F6)', 'AVERAGE(D1:D6)', 'AVERAGE(A1:A6,C1:C6)',
    'AVERAGEA(B1:B6)', 'AVERAGEA(F1:F6)', 'AVERAGEA(A1:F3)',
    'MIN(A1:C6)', 'MAX(A1:C6)', 'MIN(F1:F6)', 'MAX(F1:F6)', 'MINA(F1:F6)', 'MAXA(F1:F6)', 'MIN(D1:D6)', 'MAX(E1:E6)',
    'MIN()', 'MAX({})', 'MIN("a")', 'MAX("5")', 'MAXA("5","a")', 'MIN(TRUE,5)',
    'COUNT(A1:F6)', 'COUNTA(A1:F6)', 'COUNTBLANK(A1:F6)', 'COUNT(1,"a",{1,2})',
    'MEDIAN(A1:A6)', 'MEDIAN(C1:C6)', 'MEDIAN(F1:F6)', 'MEDIAN(D1:D6)', 'MEDIAN(1,2,3,4)', 'MEDIAN()',
    'MODE(A1:A6)', 'MODE(C1:C6)', 'MODE(B1:B6)', 'MODE.SNGL({1,1,2,2})', 'MODE(F1:F6)',
    'VAR(A1:A6)', 'VAR.S(C1:C6)', 'VAR.P(A1:A6)', 'VARP(C1:C6)', 'VARA(F1:F6)', 'VAR(1)', 'VAR.P(1)', 'VAR(F1:F6)',
    'STDEV(A1:A6)', 'STDEV.S(C1:C6)', 'STDEV.P(A1:A6)', 'STDEVP(C1:C6)', 'STDEVA(F1:F6)', 'STDEVPA(F1:F6)',
    'STDEV(D1:D6)', 'STDEVA(B1:B2)',
    'AVEDEV(A1:A6)', 'AVEDEV(C1:C6)', 'AVEDEV(1,2,3,10)', 'AVEDEV(B1:B6)',
    'GEOMEAN(A1:A6)', 'GEOMEAN(C1:C6)', 'GEOMEAN(1,2,4)', 'HARMEAN(A1:A6)', 'HARMEAN(C1:C6)', 'HARMEAN(1,2,4)',
    'GEOMEAN(F1:F6)', 'HARMEAN(-1,2)',
    'LARGE(A1:A6,1)', 'LARGE(A1:A6,6)', 'LARGE(A1:A6,7)', 'LARGE(F1:F6,2)', 'LARGE(D1:D6,1)', 'LARGE(A1:C6,3)',
    'SLOPE(1,2,3,4,1,2,3,4)', 'SLOPE(6,2,-2,-4,-6,-2,0,2,3,4)', 'SLOPE(6,1,2,4)', 'SLOPE(6,1)', 'SLOPE(1,2,3)',
    'SUMIF(A1:A6,">2")', 'SUMIF(A1:A6,"<=2")', 'SUMIF(A1:A6,"2")', 'SUMIF(A1:A6,2)', 'SUMIF(C1:C6,"<>20.5")',
    'SUMIF(C1:C6,"20.5")', 'SUMIF(B1:B6,"apple")', 'SUMIF(F1:F6,">3")', 'SUMIF(A1:C6,">=3")', 'SUMIF(D1:D6,">0")',
    'SUMIF(E1:E6,"TRUE")', 'SUMIF(E1:E6,"1")', 'SUMIF(E1:E6,"=0")', 'SUMIF({1,2,3},"")',
    'COUNTIF(A1:A6,">2")', 'COUNTIF(A1:A6,"2")', 'COUNTIF(B1:B6,"apple")', 'COUNTIF(B1:B6,"a*")', 'COUNTIF(B1:B6,"*e")',
    'COUNTIF(B1:B6,"p???")', 'COUNTIF(B1:B6,"?pple")', 'COUNTIF(B1:B6,"A*")', 'COUNTIF(B1:B6,"*")', 'COUNTIF(A1:F6,"*")',
    'COUNTIF(A1:F6,"?")', 'COUNTIF(F1:F6,"3")', 'COUNTIF(F1:F6,"=3")', 'COUNTIF(D1:D6,"x")', 'COUNTIF(D1:D6,"<>x")',
    'COUNTIF(E1:E6,"<>1")', 'COUNTIF(B1:B6,">b")', 'COUNTIF(A1:B6,">b")', 'COUNTIF(B1:B6,"<>apple")',
    'COUNTIF(B1:B6,"=a*")', 'COUNTIF(A1:A6,"==2")', 'COUNTIF(A1:A6,">")', 'COUNTIF(A1:A6,"")', 'COUNTIF(A1:A6,3)',
    'COUNTIF(A1:A6)', 'COUNTIF(A1:A6,">1",2)',
    'AVERAGEIF(A1:A6,">2")', 'AVERAGEIF(A1:A6,">9")', 'AVERAGEIF(B1:B6,"apple",A1:A6)', 'AVERAGEIF(B1:B6,"a*",C1:C6)',
    'AVERAGEIF(B1:B6,"*",F1:F6)', 'AVERAGEIF(B1:B6,"pear",F1:F6)', 'AVERAGEIF(A1:A6,"<3",D1:D6)',
    'AVERAGEIF(A1:A6,">1",A1:A3)', 'AVERAGEIF({1;2;3;4};">2")', 'AVERAGEIF({1;2;3;4};">2";{4;3;2;1})',
    'SUMIFS(A1:A6,A1:A6,">1")', 'SUMIFS({1;4;5;100}, {1;4;5;100},"<>200")', 'SUMIFS({1;4;5}, {3;5;9},"<7")',
    'SUMIFS({1;4;5}, ">1","<5")', 'SUMIFS({1;4;5}, {1;4;5;100},"<5")', 'SUMIFS({1;4;5}, {"a";"ab";"b"},"a*")',
    'SUMIFS({1;4;5;100}, {1;4;5;100},"<>200", {1;4;300;100},"<100", {2;-3;5;2},">1")', 'SUMIFS({1;4;5}, {1;4;5})',
    'AVERAGEIFS({1;2;3;4};{1;2;3;4};">2")', 'AVERAGEIFS({1;2;3;4};{4;3;2;1};">2")',
    'AVERAGEIFS({1;2;3;4};{4;3;2;1};">2";{1;2;3;4};"<> 3")', 'AVERAGEIFS({1;2;3;4};{4;3;2;1};">9")',
    'AVERAGEIFS({1;2;3;4};{"a";"b";"ab";"c"};"a*")', 'AVERAGEIFS(5;{1};"1")', 'AVERAGEIFS({1;2};{1;2})',
    'MAXIFS({1;2;3;4};{1;2;3;4};">2")', 'MAXIFS({1;2;3;4};{4;3;2;1};">2")', 'MAXIFS({1;2;3;4};{4;3;2;1};">3";{1;2;3;4};"<>3")',
    'MAXIFS({1;2;3;4};{4;3;2;1};">9")', 'MAXIFS({1;2;3;4};{"a";"b";"ab";"c"};"?")', 'MAXIFS(5;{1};"1")',
    'SUM(A1:A3)+COUNTIF(B1:B6,"ap*")*MAX(C1:C6)', 'IF(COUNTIF(A1:A6,">4")>0,AVERAGE(A1:A6),MIN(A1:A6))',
]

for f in FORMULAS:
    ev(f)

# ---------------------------------------------------------------- 6. order / grouping sweeps with a fixed seed

rnd = random.Random(1103)
for trial in range(12):
    n = rnd.randint(1, 7)
    items = [rnd.choice([rnd.randint(-5, 9), rnd.randint(1, 4) / 2.0, rnd.randint(1, 3)]) for _ in range(n)]
    shuffled = list(items)
    rnd.shuffle(shuffled)
    cut = rnd.randint(0, n)
    grouped = ([shuffled[:cut], [shuffled[cut:]]], )
    for name in ('SUM', 'AVERAGE', 'MEDIAN', 'MODE', 'VAR', 'STDEV.P', 'MAX'):
        via_parser(name, *items)
        via_parser(name, *grouped)
    threshold = rnd.randint(-2, 5)
    for op in ('>', '<=', '<>', ''):
        via_parser('COUNTIF', items, '%s%d' % (op, threshold))
        via_parser('SUMIF', [shuffled], '%s%d' % (op, threshold))

print('evaluations: %d' % COUNT[0])
