# -*- coding: utf-8 -*-
"""
Probe for C18 refactoring 2 (INDEX decision chain regrouped by array shape, CHOOSE guards merged).
Prints a deterministic transcript: one line per evaluation.
"""
import os
import sys
import random

sys.path.insert(0, os.path.dirname(os.path.dirname(os.path.abspath(__file__))))

import hotxlfp  # noqa: E402
from hotxlfp import Parser  # noqa: E402
from hotxlfp.formulas import error  # noqa: E402
from hotxlfp.formulas import lookupandreference as lr  # noqa: E402

COUNT = [0]


def show(value):
    """ repr without memory addresses """
    if isinstance(value, error.XLError):
        return 'XLError(%s)' % str(value)
    if isinstance(value, list):
        return '[' + ', '.join(show(v) for v in value) + ']'
    if isinstance(value, tuple):
        return '(' + ', '.join(show(v) for v in value) + ')'
    if isinstance(value, dict):
        return '{' + ', '.join('%s: %s' % (show(k), show(value[k])) for k in sorted(value)) + '}'
    if callable(value):
        return '<callable>'
    return repr(value)


def line(kind, what, outcome):
    COUNT[0] += 1
    print('%04d %s %s => %s' % (COUNT[0], kind, what, outcome))


def direct(fn, *args, **kwargs):
    what = '%s(%s)' % (fn.__name__, ', '.join([show(a) for a in args] + ['%s=%s' % (k, show(kwargs[k])) for k in sorted(kwargs)]))
    try:
        out = show(fn(*args, **kwargs))
    except error.XLError as e:
        out = 'raised XLError(%s)' % str(e)
    except Exception as e:
        out = 'raised %s: %s' % (type(e).__name__, e)
    error.clear_tracebacks()
    line('call', what, out)


class Recorder(object):

    def __init__(self, variables=None, cells=None, ranges=None):
        self.parser = Parser()
        self.events = []
        self.cells = cells or {}
        self.ranges = ranges or {}
        for k, v in (variables or {}).items():
            self.parser.set_variable(k, v)
        self.parser.on('callFunction', self.on_function)
        self.parser.on('callVariable', self.on_variable)
        self.parser.on('callCellValue', self.on_cell)
        self.parser.on('callRangeValue', self.on_range)

    def on_function(self, name, args, setter):
        self.events.append('fn:%s%s' % (name, show(args)))

    def on_variable(self, name, setter):
        self.events.append('var:%s' % name)

    def on_cell(self, cell, setter):
        self.events.append('cell:%s' % cell.label)
        if cell.label in self.cells:
            setter(self.cells[cell.label])

    def on_range(self, start, end, setter):
        key = '%s:%s' % (start.label, end.label)
        self.events.append('range:%s' % key)
        if key in self.ranges:
            setter(self.ranges[key])

    def run(self, formula):
        self.events = []
        try:
            ret = self.parser.parse(formula)
            out = show(ret)
        except Exception as e:  # parse() is not expected to raise
            out = 'raised %s: %s' % (type(e).__name__, e)
        line('formula', formula, '%s events=%s' % (out, ' | '.join(self.events)))


VARIABLES = {
    'ROW': [10, 20, 30],
    'GRID': [[1, 2, 3], [4, 5, 6]],
    'COL': [[7], [8], [9]],
    'JAG': [[1, 2], [3], 4, 'xy'],
    'ONEJAG': [1, [2, 3], 'ab'],
    'EMPTY': [],
    'EMPTYROWS': [[], []],
    'TXT': ['apple', 'Banana', 'cherry'],
    'ERRS': [1, error.DIV_ZERO, 3],
    'BLANK': None,
    'SCALAR': 5,
    'WORD': 'hello',
    'TWO': 2,
    'HALF': 0.5,
}
CELLS = {'A1': 2, 'B1': 'cherry', 'C1': None, 'D1': True, 'E1': '2'}
RANGES = {'A1:A3': [10, 20, 30], 'A1:C2': [[1, 2, 3], [4, 5, 6]], 'B1:B3': ['x', 'y', 'z']}

INDEXES = ('', '0', '1', '2', '3', '4', '-1', '0.5', '1.5', '1.0', 'TRUE', 'FALSE', '"1"', '"2"', '"x"', '""', '1/0', '#N/A', 'TWO', 'HALF', 'C1', 'E1', '{1}')


def formulas():
    r = Recorder(VARIABLES, CELLS, RANGES)
    fs = []
    arrays = ('{10,20,30}', '{1,2,3;4,5,6}', '{7;8;9}', '{5}', '5', '"hello"', 'GRID', 'ROW', 'COL', 'JAG', 'ONEJAG')
    for arr in arrays:
        for row in INDEXES[:14]:
            for col in ('', '0', '1', '2', '4', '-1', '0.5', '"1"', '1/0'):
                fs.append('INDEX(%s,%s,%s)' % (arr, row, col))
    for arr in ('{10,20,30}', 'GRID', 'EMPTY', 'EMPTYROWS', 'BLANK', 'SCALAR', 'WORD', 'ERRS', 'TXT', 'NOPE', 'A1:A3', 'A1:C2', 'Z1:Z2', 'C1', 'A1', '1/0', '#REF!', '{1,,3}', '{,,}', 'TRUE'):
        for row in INDEXES:
            fs.append('INDEX(%s,%s)' % (arr, row))
        for col in INDEXES:
            fs.append('INDEX(%s,,%s)' % (arr, col))
        fs.append('INDEX(%s)' % arr)
        fs.append('INDEX(%s,,)' % arr)
        fs.append('INDEX(%s,1,1,1)' % arr)
        fs.append('INDEX(%s,1,1,1,1)' % arr)
        fs.append('INDEX(%s;2;2)' % arr)
    fs += ['INDEX()', 'INDEX(,1)', 'INDEX(,,1)', 'INDEX(,)', 'INDEX(,,)', 'INDEX({1,2,3},1/0,1/0)', 'INDEX({1,2,3},"x",1/0)', 'INDEX({1,2,3},1/0,"x")',
           'INDEX({1,2,3},-1,"x")', 'INDEX({1,2,3},"x",-1)', 'INDEX({1,2,3},-1,1/0)', 'INDEX(EMPTY,1/0)', 'INDEX(EMPTY,"x",1)', 'INDEX(EMPTY,0,0)',
           'INDEX(EMPTY,-1)', 'SUM(INDEX(GRID,0,2))', 'SUM(INDEX(GRID,2,0))', 'SUM(INDEX(GRID,0,0))', 'SUM(INDEX(GRID,,3))', 'SUM(INDEX(GRID,1))',
           'INDEX(INDEX(GRID,2),3)', 'INDEX(INDEX(GRID,0,2),2)', 'INDEX(INDEX(GRID,2,0),0,1)', 'INDEX(GRID,2,3)+1', 'INDEX(GRID,3,1)', 'INDEX(GRID,1,4)',
           'INDEX(GRID,2,3,9)', 'INDEX(GRID,2,3,"x")', 'INDEX(GRID,2,3,1/0)', 'INDEX({1,2}*2,1,2)', 'INDEX({1,2;3,4}*2,2,2)', 'index({1,2},1)', 'INDEX({1,2},1']
    # CHOOSE
    for i in ('0', '1', '2', '3', '4', '-1', '254', '255', '1.0', '1.5', '2.0', '0.5', 'TRUE', 'FALSE', '"1"', '"x"', '""', '1/0', '#N/A', '{1}', '{2,1}', 'C1', 'E1', 'TWO', 'HALF', 'NOPE', ''):
        fs.append('CHOOSE(%s)' % i)
        fs.append('CHOOSE(%s,"a")' % i)
        fs.append('CHOOSE(%s,"a","b")' % i)
        fs.append('CHOOSE(%s,"a",,"c")' % i)
        fs.append('CHOOSE(%s;10;20;30)' % i)
        fs.append('CHOOSE(%s,{1,2},ROW,1/0)' % i)
    many = ','.join(str(n) for n in range(1, 255))
    fs += ['CHOOSE()', 'CHOOSE(,)', 'CHOOSE(,,)', 'CHOOSE(1,)', 'CHOOSE(2,,)', 'CHOOSE(254,%s)' % many, 'CHOOSE(255,%s)' % many, 'CHOOSE(253,%s)' % many,
           'CHOOSE(254,%s,255)' % many, 'CHOOSE(255,%s,255)' % many, 'CHOOSE(1,%s)' % many, 'SUM(CHOOSE(2,1,{1,2,3}))', 'CHOOSE(CHOOSE(1,2,3),"a","b","c")',
           'CHOOSE(INDEX({3,2,1},1),"a","b","c")', 'INDEX(CHOOSE(2,ROW,GRID),2,1)', 'CHOOSE(2,"a","b")&"!"', 'choose(1,"a")']
    # with MATCH: the derived identity
    for x in ('10', '20', '30', '25', '"x"'):
        fs.append('INDEX(ROW,MATCH(%s,ROW,0))' % x)
        fs.append('INDEX({10;20;30};MATCH(%s;{10;20;30};1);1)' % x)
        fs.append('INDEX({10;20;30};MATCH(%s;{10;20;30};1);2)' % x)
        fs.append('INDEX(ROW,1,MATCH(%s,ROW,0))' % x)
        fs.append('INDEX(ROW,,MATCH(%s,ROW,0))' % x)
        fs.append('CHOOSE(MATCH(%s,ROW,0),"a","b","c")' % x)
    for x in ('"APPLE"', '"b*"', '"?herry"', '"zzz"'):
        fs.append('INDEX(TXT,MATCH(%s,TXT,0))' % x)
    for f in fs:
        r.run(f)


def direct_calls():
    I = lr.INDEX
    D = lr.DEFAULT
    nan = float('nan')
    inf = float('inf')
    arrays = [[10, 20, 30], [[1, 2, 3], [4, 5, 6]], [[7], [8], [9]], [5], [[5]], 5, 'hello', None, [], [[], []], [[1, 2], [3], 4, 'xy'],
              [1, [2, 3], 'ab'], ['ab', 'cd'], [None, None], (1, 2), [(1, 2), (3, 4)], {0: 'z'}, [{0: 'z'}], error.NUM, [error.NUM, 1], True, 0, '']
    indexes = [D, None, 0, 1, 2, 3, 4, -1, 0.0, 0.5, 1.0, 1.5, True, False, '2', 'x', error.NUM, nan, 1j]
    exotic = [-0.0, 2.0, '0', '1', ' 2', '2.0', '', inf, -inf, 0j, [1], [], (1,), 10 ** 30]
    for arr in arrays:
        for row in indexes:
            for col in indexes:
                direct(I, arr, row, col)
        for other in (D, 0, 1, 2, 'x', -1):
            for odd in exotic:
                direct(I, arr, odd, other)
                direct(I, arr, other, odd)
    for arr in arrays:
        direct(I, arr)
        direct(I, arr, 1)
        direct(I, arr, 2)
        direct(I, arr, column_num=1)
        direct(I, arr, column_num=2)
        direct(I, arr, row_num=0, column_num=0)
        direct(I, arr, 1, 1, 1)
        direct(I, arr, 1, 1, error.NUM)
        direct(I, arr, area_num=1)
    direct(I)
    direct(I, [1], 1, 1, 1, 1)

    # randomised grids and positions
    rnd = random.Random(180018)
    for i in range(200):
        shape = rnd.choice(('flat', 'grid', 'col'))
        if shape == 'flat':
            arr = [rnd.randint(0, 99) for _ in range(rnd.randint(1, 5))]
        elif shape == 'grid':
            w = rnd.randint(1, 4)
            arr = [[rnd.randint(0, 99) for _ in range(w)] for _ in range(rnd.randint(1, 4))]
        else:
            arr = [[rnd.randint(0, 99)] for _ in range(rnd.randint(1, 4))]
        row = rnd.choice([D, None, 0, 1, 2, 3, 4, 5, -1, '2', 1.0, 0.5])
        col = rnd.choice([D, None, 0, 1, 2, 3, 4, 5, -1, '2', 1.0, 0.5])
        direct(I, arr, row, col)

    C = lr.CHOOSE
    for idx in [0, 1, 2, 3, 4, -1, 254, 255, 1.0, 1.5, 2.0, 0.5, 2.5, 3.0, True, False, None, '1', 'x', '', [1], [], (1,), error.NUM, nan, inf, -inf, 1j,
                10 ** 30, D]:
        direct(C, idx)
        direct(C, idx, 'a')
        direct(C, idx, 'a', 'b')
        direct(C, idx, 'a', None, 'c')
        direct(C, idx, [1, 2], error.NUM, 'c', 4)
    direct(C)
    for n in (252, 253, 254, 255, 256):
        vals = list(range(1, n + 1))
        for idx in (1, n - 1, n, n + 1, 253, 254, 255, 253.0, 254.0, 254.5):
            direct(C, idx, *vals)

    direct(lr.MATCH, 20, [10, 20, 30], 0)
    direct(I, [10, 20, 30], lr.MATCH(20, [10, 20, 30], 0))
    direct(I, [10, 20, 30], lr.MATCH(25, [10, 20, 30], 0))
    line('info', 'supported lookup names', show([n for n in hotxlfp.formulas.supported() if n in ('CHOOSE', 'MATCH', 'INDEX')]))
    line('info', 'registered functions', show(sorted(n for n in hotxlfp.formulas.dispatcher._registry_ if hotxlfp.formulas.dispatcher._registry_[n].__module__ == lr.__name__)))
    line('info', 'DEFAULT is utils.DEFAULT', show(lr.DEFAULT is hotxlfp.formulas.utils.DEFAULT))


if __name__ == '__main__':
    formulas()
    direct_calls()
