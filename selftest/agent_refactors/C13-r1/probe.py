# -*- coding: utf-8 -*-
"""
Probe for C13 refactoring 1 (utils.parse_date / utils.serialize_date split into helpers).
Prints a deterministic transcript: one line per evaluation, input and repr() of the outcome.
"""
from __future__ import print_function
import os
import sys
import random
import datetime

sys.path.insert(0, os.path.dirname(os.path.dirname(os.path.abspath(__file__))))

import hotxlfp  # noqa: E402
from hotxlfp.formulas import utils, error, operators, dateandtime, information  # noqa: E402

COUNT = [0]


def show(label, thunk):
    COUNT[0] += 1
    try:
        outcome = repr(thunk())
    except BaseException as e:  # noqa
        outcome = 'RAISED %s(%s)' % (type(e).__name__, e)
    print('%04d %s -> %s' % (COUNT[0], label, outcome))


def call(fn, *args):
    name = getattr(fn, '__name__', str(fn))
    show('%s(%s)' % (name, ', '.join(repr(a) for a in args)), lambda: fn(*args))


dt = datetime.datetime

# --------------------------------------------------------------------------
# 1. parse_date on numbers: every branch and the boundaries between them
# --------------------------------------------------------------------------
SERIALS = [
    -1e308, -2, -1, -0.5, -1e-9, -0.0, 0, 0.0, 1e-9, 0.25, 0.5, 0.999999, 1, 1.0, 1.000001, 1.5, 2, 2.25,
    30, 31, 32, 58, 59, 59.5, 59.999, 60, 60.0, 60.000001, 60.5, 61, 61.0, 61.25, 61.999, 62, 100, 365, 366, 367,
    1000, 10000.125, 25568, 25569, 25569.5, 25570, 36526, 43831, 43831.75, 44197.999988, 45000.000011574,
    73050, 109575, 2958465, 2958465.999, 2958466, 3000000, 1e10, 1e17, 1e308,
    float('inf'), float('-inf'), float('nan'), True, False, 2 ** 40, 1 + 0j,
]
for s in SERIALS:
    call(utils.parse_date, s)

# text that is a number, text that is a date, text that is neither
TEXTS = [
    '0', '1', '59', '60', '61', '60.5', '-1', '-0.0', '1e3', '43831', ' 43831 ', '4_3', 'inf', '-inf', 'nan',
    '2020-01-01', '2020-01-01 12:30:15', '2020-01-01T23:59:59.999', '1900-01-01', '1900-01-01 00:00:00.001',
    '1900-02-28', '1900-03-01', '1899-12-31', '1899-12-30', '1800-06-15', '0001-01-01', '9999-12-31 23:59:59',
    '3/4/2021', '31/12/1999', '12/31/1999 11:59 PM', 'January 5, 2000', '5 January 2000 13:00', '19000229',
    '1900-02-29', '2021-02-29', 'hello', '', ' ', 'TRUE', '#VALUE!', '2020-13-01', '1/1/1/1', 'abc 2020-01-01',
    u'2020-01-01', u'été',
]
for t in TEXTS:
    call(utils.parse_date, t)

# other kinds of value
OTHERS = [
    None, error.VALUE, error.NUM, error.DIV_ZERO, error.NOT_AVAILABLE, error.NAME, error.REF, error.NULL,
    error.ERROR, error.DATA, [], [1], [dt(2020, 1, 1)], (1, 2), {}, b'2020-01-01', dt(1900, 1, 1),
    dt(1900, 1, 1, 0, 0, 0, 1), dt(1899, 12, 31), dt(1, 1, 1), dt(9999, 12, 31, 23, 59, 59, 999999),
    dt(2020, 2, 29, 12), datetime.date(2020, 1, 1), datetime.time(1, 2, 3), datetime.timedelta(1),
]
for o in OTHERS:
    call(utils.parse_date, o)

# --------------------------------------------------------------------------
# 2. serialize_date: date-times on both sides of every boundary
# --------------------------------------------------------------------------
DATES = [
    dt(1900, 1, 1), dt(1900, 1, 1, 0, 0, 0, 1000), dt(1900, 1, 1, 0, 0, 1), dt(1900, 1, 1, 12), dt(1900, 1, 1, 23, 59, 59, 999000),
    dt(1900, 1, 2), dt(1900, 1, 31), dt(1900, 2, 1), dt(1900, 2, 27), dt(1900, 2, 28), dt(1900, 2, 28, 12),
    dt(1900, 2, 28, 23, 59, 59), dt(1900, 2, 28, 23, 59, 59, 999000), dt(1900, 2, 28, 23, 59, 59, 999999),
    dt(1900, 3, 1), dt(1900, 3, 1, 0, 0, 0, 1), dt(1900, 3, 1, 0, 0, 0, 1000), dt(1900, 3, 1, 6), dt(1900, 3, 2),
    dt(1900, 12, 31), dt(1901, 1, 1), dt(1904, 2, 29), dt(1969, 12, 31, 23, 59, 59), dt(1970, 1, 1), dt(1970, 1, 1, 0, 0, 1),
    dt(1999, 12, 31, 23, 59, 59, 999000), dt(2000, 1, 1), dt(2000, 2, 29), dt(2020, 1, 1), dt(2020, 1, 1, 18), dt(2038, 1, 19, 3, 14, 8),
    dt(2100, 3, 1), dt(9999, 12, 31), dt(9999, 12, 31, 23, 59, 59, 999999),
    dt(1899, 12, 31), dt(1899, 12, 31, 23, 59, 59, 999999), dt(1899, 12, 30), dt(1899, 1, 1), dt(1800, 1, 1), dt(1582, 10, 15), dt(1, 1, 1),
]
for d in DATES:
    call(utils.serialize_date, d)
for s in SERIALS:
    call(utils.serialize_date, s)
for t in TEXTS:
    call(utils.serialize_date, t)
for o in OTHERS:
    call(utils.serialize_date, o)

# --------------------------------------------------------------------------
# 3. round trips, with a fixed seed
# --------------------------------------------------------------------------
rng = random.Random(13)
base = dt(1900, 1, 1)
for i in range(60):
    days = rng.choice([rng.randint(0, 70), rng.randint(0, 60000), rng.randint(0, 2958000)])
    ms = rng.randint(0, 86399999)
    d = base + datetime.timedelta(days=days, milliseconds=ms)
    show('roundtrip date %s' % d.isoformat(), lambda: (utils.serialize_date(d), utils.parse_date(utils.serialize_date(d))))
for i in range(60):
    s = rng.choice([rng.randint(0, 70), rng.randint(61, 2958465), rng.uniform(0, 70), rng.uniform(61, 2958465)])
    show('roundtrip serial %r' % (s,), lambda: (utils.parse_date(s), utils.serialize_date(utils.parse_date(s))))
for i in range(20):
    a = base + datetime.timedelta(days=rng.randint(0, 100), seconds=rng.randint(0, 86399))
    b = a + datetime.timedelta(milliseconds=rng.choice([1, 1000, 86400000]))
    show('monotone %s < %s' % (a.isoformat(), b.isoformat()), lambda: utils.serialize_date(a) < utils.serialize_date(b))

# --------------------------------------------------------------------------
# 4. the formula functions that go through the two functions
# --------------------------------------------------------------------------
SAMPLE = [None, True, False, 0, 1, 59, 60, 61, 60.5, 43831.75, -1, 'x', '', '61', '2020-01-01', '1900-02-28 12:00',
          error.NUM, error.NOT_AVAILABLE, dt(1900, 1, 1), dt(1900, 2, 28), dt(1900, 3, 1), dt(2020, 1, 1, 18), [1, 2]]
for v in SAMPLE:
    call(dateandtime.DATEVALUE, v)
    call(information.N, v)
    call(dateandtime.TIMEVALUE, v)
    call(dateandtime.YEAR, v)
    call(dateandtime.MONTH, v)
    call(dateandtime.DAY, v)
    call(dateandtime.HOUR, v)
    call(dateandtime.MINUTE, v)
    call(dateandtime.SECOND, v)
    call(dateandtime.WEEKDAY, v)
for a in SAMPLE:
    for b in [None, 0, 60, 61, '2020-01-01', 'x', error.NUM, dt(1900, 1, 1), dt(1900, 3, 1), dt(2020, 1, 1, 18)]:
        call(dateandtime.DAYS, a, b)
for unit in ['d', 'yd', 'D', 'y', 'm', 'md', 'ym', 'zz', 1]:
    for a, b in [(dt(1900, 1, 1), dt(1900, 3, 1)), (59, 61), (dt(1900, 2, 28), dt(2020, 1, 1, 18)), (61, 60),
                 ('2019-03-05', '2020-03-04'), (0, 0), (None, 400), (error.NUM, 5)]:
        call(dateandtime.DATEDIF, a, b, unit)
for a in [None, 0, 1, 60, 61, 43831, '2020-01-31', dt(1900, 1, 31), dt(2020, 1, 31)]:
    for m in [None, 0, 1, 13, -1]:
        call(dateandtime.EDATE, a, m)

# --------------------------------------------------------------------------
# 5. operators
# --------------------------------------------------------------------------
OPERANDS = [None, True, 0, 1, 60, 61.5, -5, 'x', '61', '2020-01-01', error.NUM, dt(1900, 1, 1), dt(1900, 2, 28, 12), dt(1900, 3, 1), dt(2020, 1, 1, 18), [1, dt(2020, 1, 1)]]
for op in ['+', '-', '*', '/']:
    for a in OPERANDS:
        for b in OPERANDS:
            show('arith %r %s %r' % (a, op, b), lambda: operators.evaluate_arithmetic(op, a, b))
for op in ['=', '<>', '<', '>', '<=', '>=']:
    for a in OPERANDS:
        for b in [None, True, 0, 61, 61.5, 43831.75, 'x', error.NUM, dt(1900, 1, 1), dt(1900, 3, 1), dt(2020, 1, 1, 18)]:
            show('logic %r %s %r' % (a, op, b), lambda: operators.evaluate_logic(op, a, b))

# --------------------------------------------------------------------------
# 6. through the parser, with the events
# --------------------------------------------------------------------------
parser = hotxlfp.Parser()
events = []
parser.on('callFunction', lambda name, args, setter: events.append(('callFunction', name, repr(args))))
parser.on('callVariable', lambda name, setter: events.append(('callVariable', name)))
parser.set_variable('DZERO', dt(1900, 1, 1))
parser.set_variable('DFEB', dt(1900, 2, 28, 12))
parser.set_variable('DMAR', dt(1900, 3, 1))
parser.set_variable('DTW', dt(2020, 1, 1, 18, 30, 15, 250000))
parser.set_variable('BLANK', None)
parser.set_variable('ERR', error.NOT_AVAILABLE)
parser.set_variable('ARR', [dt(2020, 1, 1), 61, None])
FORMULAS = [
    'DATE(2020,1,1)', 'DATE(2020,1,1)+1', 'DATE(2020,1,1)+1.5', '1+DATE(2020,1,1)', 'DATE(2020,1,31)-DATE(2020,1,1)',
    'DATE(1900,3,1)-DATE(1900,2,28)', 'DATE(1900,3,1)-1', 'DATE(1900,1,1)+59', 'DATE(1900,1,1)+60', 'DATE(1900,1,1)+0',
    'DATE(1900,1,1)-1', 'DATE(0,1,1)', 'DATE(2020,1,1)*2', 'DATE(2020,1,1)/2', 'DATE(2020,1,1)/0', '2/DATE(2020,1,1)',
    'DATEVALUE("2020-01-01")', 'DATEVALUE("2020-01-01 12:00")', 'DATEVALUE("1900-03-01")', 'DATEVALUE("1900-02-28")',
    'DATEVALUE("1900-01-01")', 'DATEVALUE("1899-12-31")', 'DATEVALUE(61)', 'DATEVALUE(60)', 'DATEVALUE(0.5)', 'DATEVALUE(-1)',
    'DATEVALUE("x")', 'DATEVALUE(TRUE)', 'DATEVALUE(BLANK)', 'DATEVALUE(ERR)', 'DATEVALUE(DTW)', 'DATEVALUE(DATE(2020,1,1)+1)',
    'N(DATE(2020,1,1))', 'N(DTW)', 'N(DZERO)', 'N(DFEB)', 'N(DMAR)', 'N("2020-01-01")', 'N(TRUE)', 'N(BLANK)', 'N(ERR)', 'N(7.5)',
    'DAYS(DATE(2020,1,31),DATE(2020,1,1))', 'DAYS(DTW,DMAR)', 'DAYS(DMAR,DFEB)', 'DAYS(DMAR,DZERO)', 'DAYS("2020-03-01","2020-02-01")',
    'DAYS(61,59)', 'DAYS(61,BLANK)', 'DAYS(ERR,1)', 'DAYS("x",1)', 'DAYS(-1,1)', 'DAYS(TRUE,FALSE)',
    'DTW=DATE(2020,1,1)', 'DTW>DATE(2020,1,1)', 'DTW<DATE(2020,1,2)', 'DMAR=61', 'DMAR>=61', 'DMAR<=60.999', 'DFEB<DMAR', 'DZERO=0',
    'DZERO<DFEB', 'DZERO=BLANK', 'BLANK<DTW', 'DTW<>DTW', 'DTW>"x"', 'DTW<TRUE', 'DTW=ERR', '61=DMAR', '"x">DTW',
    'DTW+BLANK', 'BLANK+DTW', 'BLANK-DTW', 'DTW-BLANK', 'DTW*BLANK', 'DTW/BLANK', 'BLANK/DTW', 'DTW+"1"', 'DTW+"x"', 'DTW+TRUE',
    'DTW+ERR', 'DTW-DZERO', 'DTW-DFEB', 'DMAR-DFEB', 'DMAR+DFEB', 'DZERO+DZERO', 'DZERO+1', 'DZERO-0.5', 'DFEB+0.5', 'DFEB+1', 'ARR+1', 'ARR-DZERO', '1-ARR',
    'YEAR(DMAR-1)', 'MONTH(DMAR-1)', 'DAY(DMAR-1)', 'DAY(60)', 'DAY(61)', 'DAY(59)', 'HOUR(DTW+0.25)', 'MINUTE(43831.52101)', 'SECOND(43831.52101)',
    'YEAR(DATEVALUE("2020-06-15"))', 'DAY(DATEVALUE("2020-06-15")+30)', 'TIMEVALUE("12:30")', 'TIMEVALUE(DTW)', 'TIMEVALUE(0.75)',
    'WEEKDAY(DATE(2020,1,1))', 'WEEKDAY(61,2)', 'DATEDIF(DATE(2019,3,5),DATE(2020,3,4),"d")', 'DATEDIF(DATE(2019,3,5),DATE(2020,3,4),"yd")',
    'EDATE(DTW,1)', 'EDATE(61,12)', 'SUM(DATEVALUE("2020-01-01"),1)', 'IF(DTW>DMAR,"later","earlier")',
]
for f in FORMULAS:
    del events[:]
    show('parse %s' % f, lambda: (parser.parse(f), list(events)))

print('evaluations: %d' % COUNT[0])
