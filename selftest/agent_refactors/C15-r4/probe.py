# -*- coding: utf-8 -*-
"""
Probe for C15 refactoring 4 (CLEAN / TRIM / CONCATENATE / TEXTJOIN: import-time constants,
module-level helper instead of a closure, lists instead of generators).
Prints a deterministic transcript, one line per evaluation.
"""
import os
import sys
import random
import datetime
from decimal import Decimal
from fractions import Fraction

sys.path.insert(0, os.path.dirname(os.path.dirname(os.path.abspath(__file__))))

import hotxlfp  # noqa: E402
from hotxlfp.formulas import text as xltext  # noqa: E402
from hotxlfp.formulas import error as xlerror  # noqa: E402

if hasattr(sys.stdout, 'reconfigure'):
    sys.stdout.reconfigure(encoding='utf-8')  # same bytes whatever the locale

COUNT = [0]


def show(kind, label, outcome):
    COUNT[0] += 1
    print('%04d %s %s => %s' % (COUNT[0], kind, label, outcome))


def ev(parser, tag, formula):
    try:
        outcome = repr(parser.parse(formula))
    except BaseException as e:  # parse() is not expected to raise
        outcome = 'RAISED %s(%s)' % (type(e).__name__, e)
    show(tag, formula, outcome)


def direct(fn, *args):
    label = '%s(%s)' % (fn.__name__, ', '.join(repr(a) for a in args))
    try:
        outcome = repr(fn(*args))
    except BaseException as e:
        outcome = 'RAISED %s(%s)' % (type(e).__name__, e)
    show('direct', label, outcome)


class Recorder(object):
    """Keeps the callFunction events of one parse."""

    def __init__(self, parser):
        self.events = []
        parser.on('callFunction', self.on_call)

    def on_call(self, name, args, setter):
        self.events.append((name, repr(args)))

    def take(self):
        events, self.events = self.events, []
        return events


class Shouty(object):
    """A host object with a text form."""

    def __str__(self):
        return 'SHOUT\t!'

    def __repr__(self):
        return 'Shouty()'


class Failing(object):
    """A host object whose text form is an error value."""

    def __str__(self):
        raise xlerror.NUM

    def __repr__(self):
        return 'Failing()'


def main():
    p1 = hotxlfp.Parser()
    p2 = hotxlfp.Parser()
    rec2 = Recorder(p2)

    cells = {
        'A1': 'alpha', 'A2': None, 'A3': 3, 'A4': 4.5, 'A5': True, 'A6': '', 'A7': '  x   y  ',
        'B1': 'beta\x07', 'B2': None, 'B3': None,
    }

    def on_cell(cell, setter):
        setter(cells.get(cell.label))

    def on_range(start, end, setter):
        rows = []
        for r in range(start.row.index, end.row.index + 1):
            row = []
            for c in range(start.col.index, end.col.index + 1):
                row.append(cells.get('%s%d' % ('ABCDEFGH'[c], r + 1)))
            rows.append(row)
        setter(rows)

    for p in (p1, p2):
        p.on('callCellValue', on_cell)
        p.on('callRangeValue', on_range)
        p.set_variable('ctl', ''.join(chr(i) for i in range(0, 40)))
        p.set_variable('edge', '\x1e\x1f\x20\x21\x7f\x80\x9f\xa0')
        p.set_variable('tabs', 'a\tb\nc\rd\x0be\x0cf')
        p.set_variable('sp', '   a  b   c    d ')
        p.set_variable('mixed', ' \t  a \t  b  \n ')
        p.set_variable('nbsp', u'\xa0\xa0a\xa0\xa0b　　')
        p.set_variable('uni', u'  h\xe9llo   w\xf6rld  ')
        p.set_variable('lst', ['a', 'b', 'c'])
        p.set_variable('nested', [['a', None], ['b', ['c', [None, 'd']]], []])
        p.set_variable('nums', [1, 2.5, True, None])
        p.set_variable('errs', ['a', xlerror.NUM, xlerror.REF])
        p.set_variable('tup', ('x', ('y', 'z')))
        p.set_variable('blank', None)
        p.set_variable('empty', '')
        p.set_variable('shouty', Shouty())
        p.set_variable('failing', Failing())
        p.set_variable('when', datetime.datetime(2020, 2, 29, 13, 5, 9))
        p.set_variable('dec', Decimal('1.50'))

    formulas = [
        # ---- CLEAN
        'CLEAN("Monthly report")',
        'CLEAN(CHAR(9)&"Monthly report"&CHAR(10))',
        'CLEAN(CHAR(0)&"a"&CHAR(1)&"b"&CHAR(31)&"c"&CHAR(32)&"d"&CHAR(33))',
        'CLEAN(CHAR(31))',
        'CLEAN(CHAR(32))',
        'CLEAN(CHAR(127)&CHAR(128)&CHAR(160))',
        'CLEAN("")',
        'CLEAN(ctl)',
        'LEN(CLEAN(ctl))',
        'CLEAN(edge)',
        'CLEAN(tabs)',
        'CLEAN(CLEAN(tabs))',
        'CLEAN(CLEAN(tabs))=CLEAN(tabs)',
        'CLEAN(nbsp)',
        'CLEAN(uni)',
        'CLEAN(223)',
        'CLEAN(2.50)',
        'CLEAN(-7)',
        'CLEAN(TRUE)',
        'CLEAN(FALSE)',
        'CLEAN(blank)',
        'CLEAN(empty)',
        'CLEAN(A2)',
        'CLEAN(B1)',
        'CLEAN(B3)',
        'CLEAN(A1:B2)',
        'CLEAN(lst)',
        'CLEAN(nested)',
        'CLEAN({"a","b"})',
        'CLEAN({1,2})',
        'CLEAN(tup)',
        'CLEAN(shouty)',
        'CLEAN(failing)',
        'CLEAN(when)',
        'CLEAN(dec)',
        'CLEAN(1/0)',
        'CLEAN(#N/A)',
        'CLEAN(#REF!)',
        'CLEAN(SQRT(-1))',
        'CLEAN()',
        'CLEAN("a","b")',
        'CLEAN(,)',
        'CLEAN(UPPER(tabs))',
        'UPPER(CLEAN(tabs))',
        'CLEAN(TRIM(mixed))',
        'TRIM(CLEAN(mixed))',
        'CODE(CLEAN(CHAR(7)&CHAR(65)))',
        'CLEAN(CONCATENATE(CHAR(1),"x",CHAR(2),"y"))',
        'CLEAN(TEXTJOIN(CHAR(9),TRUE,"a","b","c"))',
        'LEN(CLEAN(CHAR(10)&CHAR(13)))',
        # ---- TRIM
        'TRIM("     One   ")',
        'TRIM(" First Quarter Earnings ")',
        'TRIM("a  b")',
        'TRIM("a   b")',
        'TRIM("a b")',
        'TRIM("  ")',
        'TRIM(" ")',
        'TRIM("")',
        'TRIM("a")',
        'TRIM(" a")',
        'TRIM("a ")',
        'TRIM("  a  ")',
        'TRIM("   a   b   ")',
        'TRIM(sp)',
        'TRIM(TRIM(sp))',
        'TRIM(TRIM(sp))=TRIM(sp)',
        'LEN(TRIM(sp))',
        'TRIM(mixed)',
        'TRIM(tabs)',
        'TRIM(nbsp)',
        'TRIM(uni)',
        'TRIM(A7)',
        'TRIM(A7)&"|"',
        'TRIM(CHAR(32)&CHAR(32)&"x"&CHAR(32)&CHAR(32)&CHAR(32)&"y"&CHAR(32))',
        'TRIM(CHAR(9)&" a  b "&CHAR(9))',
        'TRIM(REPT(" ", 10)&"a"&REPT(" ", 10)&"b"&REPT(" ", 10))',
        'TRIM(REPT(" a", 5))',
        'TRIM(REPT("  a", 5))',
        'TRIM(223)',
        'TRIM(2.5)',
        'TRIM(TRUE)',
        'TRIM(blank)',
        'TRIM(empty)',
        'TRIM(A2)',
        'TRIM(lst)',
        'TRIM({" a "," b "})',
        'TRIM(A1:B2)',
        'TRIM(shouty)',
        'TRIM(when)',
        'TRIM(1/0)',
        'TRIM(#NUM!)',
        'TRIM()',
        'TRIM(" a ", " b ")',
        'TRIM(UPPER("  a   b "))',
        'PROPER(TRIM("  hello    wORLD "))',
        'TRIM(CONCATENATE(" a ", "  ", " b "))',
        'TRIM(TEXTJOIN("  ", FALSE, "a", , "b"))',
        'LEFT(TRIM("   abc   def  "), 5)',
        'TRIM(LEFT("   abc   def  ", 8))&TRIM(RIGHT("   abc   def  ", 6))',
        # ---- CONCATENATE / CONCAT
        'CONCAT("The"," ","sun"," ","will"," ","come"," ","up"," ","tomorrow.")',
        'CONCATENATE("a")',
        'CONCATENATE("a","b")',
        'CONCATENATE("","")',
        'CONCATENATE("a","","b")',
        'CONCATENATE(1,2,3)',
        'CONCATENATE(1.5,"x",-2)',
        'CONCATENATE(1/4, 10^20, 1/3)',
        'CONCATENATE(TRUE,FALSE)',
        'CONCATENATE("a",TRUE,1)',
        'CONCATENATE(blank)',
        'CONCATENATE("a",blank,"b")',
        'CONCATENATE("a",,"b")',
        'CONCATENATE(,)',
        'CONCATENATE(,,)',
        'CONCATENATE("a",)',
        'CONCATENATE(A1,A2,A3,A4,A5,A6)',
        'CONCATENATE(A1:B3)',
        'CONCATENATE(A1:A7)',
        'CONCATENATE({"a","b","c"})',
        'CONCATENATE({"a","b"},{"c","d"})',
        'CONCATENATE({1,2;3,4})',
        'CONCATENATE({1,2},"x",{3})',
        'CONCATENATE(lst)',
        'CONCATENATE(lst,lst)',
        'CONCATENATE(nested)',
        'CONCATENATE(nums)',
        'CONCATENATE(tup)',
        'CONCATENATE(errs)',
        'CONCATENATE("a",errs)',
        'CONCATENATE(shouty)',
        'CONCATENATE("a",shouty,"b")',
        'CONCATENATE(failing)',
        'CONCATENATE("a",failing,#REF!)',
        'CONCATENATE(#REF!,failing)',
        'CONCATENATE(when)',
        'CONCATENATE(dec,"x")',
        'CONCATENATE(1/0)',
        'CONCAT(1/0, 14,"sun")',
        'CONCATENATE("a",1/0)',
        'CONCATENATE("a",#N/A,1/0)',
        'CONCATENATE("a",1/0,#N/A)',
        'CONCATENATE({"a",1},#NUM!)',
        'CONCATENATE(SQRT(-1),"a")',
        'CONCATENATE("a",SQRT(-1))',
        'CONCATENATE(#VALUE!)',
        'CONCATENATE()',
        'CONCAT()',
        'CONCATENATE(CONCATENATE("a","b"),CONCATENATE("c","d"))',
        'CONCATENATE(CONCATENATE("a",1/0),"b")',
        'LEN(CONCATENATE("abc","de"))=LEN("abc")+LEN("de")',
        'LEN("abc"&"de")=LEN(CONCATENATE("abc","de"))',
        'CONCATENATE(LEFT("hello",2),RIGHT("hello",3))',
        'CONCATENATE(LEFT("hello",2),RIGHT("hello",3))="hello"',
        'CONCATENATE(UPPER("a"),LOWER("B"),PROPER("cd ef"))',
        'CONCATENATE(CHAR(65),CHAR(66),CODE("C"))',
        'CONCATENATE("it\'s"," ",\'"q"\')',
        'CONCATENATE(ctl)=ctl',
        'CONCATENATE(1,2)+1',
        'CONCATENATE("1","2")*2',
        # ---- TEXTJOIN
        'TEXTJOIN(",",TRUE,"a","b","c")',
        'TEXTJOIN(",",FALSE,"a","b","c")',
        'TEXTJOIN(", ",TRUE,"a",,"c")',
        'TEXTJOIN(", ",FALSE,"a",,"c")',
        'TEXTJOIN("-",TRUE,,,)',
        'TEXTJOIN("-",FALSE,,,)',
        'TEXTJOIN("-",TRUE,"a")',
        'TEXTJOIN("-",FALSE,"a")',
        'TEXTJOIN("-",TRUE,blank)',
        'TEXTJOIN("-",FALSE,blank)',
        'TEXTJOIN("-",TRUE,blank,blank)',
        'TEXTJOIN("-",FALSE,blank,blank)',
        'TEXTJOIN("-",TRUE,"","a","")',
        'TEXTJOIN("-",FALSE,"","a","")',
        'TEXTJOIN("",TRUE,"a","b")',
        'TEXTJOIN("",FALSE,"a",,"b")',
        'TEXTJOIN("<>",TRUE,{"a","b";"c","d"})',
        'TEXTJOIN("<>",FALSE,{"a","b";"c","d"})',
        'TEXTJOIN(" ",TRUE,lst)',
        'TEXTJOIN(" ",FALSE,lst)',
        'TEXTJOIN(" ",TRUE,lst,"x",lst)',
        'TEXTJOIN("/",TRUE,nested)',
        'TEXTJOIN("/",FALSE,nested)',
        'TEXTJOIN("/",TRUE,tup)',
        'TEXTJOIN("/",TRUE,A1:B3)',
        'TEXTJOIN("/",FALSE,A1:B3)',
        'TEXTJOIN("/",TRUE,A1,A2,A6,A7)',
        'TEXTJOIN("/",FALSE,A1,A2,A6,A7)',
        'TEXTJOIN("/",TRUE,A1:A2,B1:B2)',
        'TEXTJOIN("/",1,"a",,"b")',
        'TEXTJOIN("/",0,"a",,"b")',
        'TEXTJOIN("/",2.5,"a",,"b")',
        'TEXTJOIN("/","","a",,"b")',
        'TEXTJOIN("/","FALSE","a",,"b")',
        'TEXTJOIN("/",blank,"a",,"b")',
        'TEXTJOIN("/",,"a",,"b")',
        'TEXTJOIN("/",{0},"a",,"b")',
        'TEXTJOIN("/",{},"a",,"b")',
        'TEXTJOIN("/",lst,"a",,"b")',
        'TEXTJOIN("/",1/0,"a",,"b")',
        'TEXTJOIN("/",#N/A,"a",,"b")',
        'TEXTJOIN("/",A2,"a",,"b")',
        'TEXTJOIN("/",A5,"a",,"b")',
        'TEXTJOIN(1,TRUE,"a","b")',
        'TEXTJOIN(TRUE,TRUE,"a","b")',
        'TEXTJOIN(blank,TRUE,"a","b")',
        'TEXTJOIN(,TRUE,"a","b")',
        'TEXTJOIN({","},TRUE,"a","b")',
        'TEXTJOIN(lst,TRUE,"a","b")',
        'TEXTJOIN(1/0,TRUE,"a","b")',
        'TEXTJOIN(#REF!,TRUE,"a","b")',
        'TEXTJOIN(A1,TRUE,"a","b")',
        'TEXTJOIN(A3,TRUE,"a","b")',
        'TEXTJOIN(",",TRUE,1,2)',
        'TEXTJOIN(",",TRUE,"a",2)',
        'TEXTJOIN(",",FALSE,"a",2.5)',
        'TEXTJOIN(",",TRUE,"a",TRUE)',
        'TEXTJOIN(",",TRUE,nums)',
        'TEXTJOIN(",",FALSE,nums)',
        'TEXTJOIN(",",TRUE,"a",1/0)',
        'TEXTJOIN(",",FALSE,"a",1/0)',
        'TEXTJOIN(",",TRUE,errs)',
        'TEXTJOIN(",",TRUE,"a",#N/A,"b")',
        'TEXTJOIN(",",TRUE,shouty)',
        'TEXTJOIN(",",TRUE,"a",when)',
        'TEXTJOIN(",",TRUE)',
        'TEXTJOIN(",",FALSE)',
        'TEXTJOIN(",")',
        'TEXTJOIN()',
        'TEXTJOIN(1)',
        'TEXTJOIN(1,2)',
        'TEXTJOIN(",",TRUE,TEXTJOIN("-",TRUE,"a","b"),TEXTJOIN("+",FALSE,"c",,"d"))',
        'TEXTJOIN(",",TRUE,CONCATENATE("a","b"),TRIM("  c  "),CLEAN(CHAR(7)&"d"))',
        'TEXTJOIN(",",TRUE,TEXTJOIN(1,TRUE,"a"),"b")',
        'LEN(TEXTJOIN(",",TRUE,"ab","cd","ef"))',
        'LEN(TEXTJOIN(",",FALSE,"ab",,"ef"))',
        'SUBSTITUTE(TEXTJOIN(",",FALSE,"a",,"b"),",","")=CONCATENATE("a",,"b")',
        'TEXTJOIN(CHAR(10),TRUE,"l1","l2")',
        'CLEAN(TEXTJOIN(CHAR(10),TRUE,"l1","l2"))',
        'TEXTJOIN(" ",TRUE,UPPER("a"),LOWER("B"),PROPER("cc dd"))',
        'TEXTJOIN("é",TRUE,"à","ü")',
        'MID(TEXTJOIN("",TRUE,"abc","def"),3,2)',
        'LEFT(TEXTJOIN("",TRUE,"abc","def"),4)&RIGHT(TEXTJOIN("",TRUE,"abc","def"),2)',
    ]

    # first parser, then a slice again on the same parser, then everything on a second parser
    for f in formulas:
        ev(p1, 'p1', f)
    for f in formulas[::3]:
        ev(p1, 'p1-again', f)
    for f in formulas:
        ev(p2, 'p2', f)
        show('p2-events', f, repr(rec2.take()))

    # direct calls: values the grammar cannot produce, and the raw exceptions
    C, T, K, J = xltext.CLEAN, xltext.TRIM, xltext.CONCATENATE, xltext.TEXTJOIN
    for v in ['', 'a', '\x00', '\x1f', '\x20', 'a\x1fb\x20c', '\x7f\x80', u'\ud800\x01', u'\U0001F600\x02',
              '\n\n\n', 'abc' * 20 + '\x05', None, 0, 1, -1, 1.0, 1e300, float('nan'), True, False, 2j,
              b'a\x01b', [], ['a\x01'], ('a',), {}, {'a': 1}, xlerror.VALUE, xlerror.DIV_ZERO,
              Shouty(), Failing(), Decimal('2.0'), Fraction(1, 3), datetime.date(2020, 1, 2), range(3)]:
        direct(C, v)
        direct(T, v)
    for v in [' ', '  ', '   ', ' a', 'a ', ' a ', 'a  a', 'a   a', 'a \t a', '\t a  b \t', ' \n ',
              'a ' * 10, ' a' * 10, '  a' * 4 + '  ', u'\xa0 a \xa0', u'   a   ', ' a  b   c    d     e ']:
        direct(T, v)
        direct(T, T(v))
    direct(C)
    direct(T)
    direct(C, 'a', 'b')
    direct(T, 'a', 'b')

    direct(K)
    direct(K, 'a')
    direct(K, 'a', 'b', 'c')
    direct(K, 'a', None, 'b')
    direct(K, None)
    direct(K, None, None)
    direct(K, 1, 2.5, True, None, 'x')
    direct(K, 1e22, -0.0, float('inf'), 2j)
    direct(K, [])
    direct(K, [], ())
    direct(K, ['a', ['b', ['c']]], ('d', ('e',)))
    direct(K, [[[[['deep']]]]])
    direct(K, b'ab', 'c')
    direct(K, {'k': 'v'}, 'c')
    direct(K, range(3))
    direct(K, Shouty(), 'c')
    direct(K, Decimal('1.10'), Fraction(2, 4))
    direct(K, datetime.date(2020, 1, 2), datetime.datetime(2020, 1, 2, 3, 4, 5))
    direct(K, xlerror.NUM)
    direct(K, 'a', xlerror.NUM)
    direct(K, 'a', xlerror.NUM, xlerror.REF)
    direct(K, 'a', xlerror.REF, xlerror.NUM)
    direct(K, ['a', [xlerror.DIV_ZERO]], xlerror.NUM)
    direct(K, ('a', (xlerror.NOT_AVAILABLE,)), 'b')
    direct(K, xlerror.XLError('#CUSTOM'), 'b')
    direct(K, 'a', Failing(), 'b')
    direct(K, 'a', Failing(), xlerror.REF)
    direct(K, 'a', xlerror.REF, Failing())
    direct(K, u'\ud800', u'\udc00')
    direct(K, *['x'] * 40)
    direct(K, *[['x', None, 1]] * 5)

    direct(J)
    direct(J, ',')
    direct(J, ',', True)
    direct(J, ',', False)
    direct(J, ',', True, 'a')
    direct(J, ',', True, 'a', 'b')
    direct(J, ',', True, 'a', None, 'b')
    direct(J, ',', False, 'a', None, 'b')
    direct(J, ',', True, None)
    direct(J, ',', False, None)
    direct(J, ',', False, None, None)
    direct(J, ',', True, [])
    direct(J, ',', False, [])
    direct(J, ',', True, [], ())
    direct(J, ',', True, ['a', [None, ['b']]], ('c', (None,)))
    direct(J, ',', False, ['a', [None, ['b']]], ('c', (None,)))
    direct(J, ',', None, 'a', None, 'b')
    direct(J, ',', 0, 'a', None, 'b')
    direct(J, ',', 0.0, 'a', None, 'b')
    direct(J, ',', '', 'a', None, 'b')
    direct(J, ',', [], 'a', None, 'b')
    direct(J, ',', [0], 'a', None, 'b')
    direct(J, ',', 'no', 'a', None, 'b')
    direct(J, ',', xlerror.NUM, 'a', None, 'b')
    direct(J, ',', float('nan'), 'a', None, 'b')
    direct(J, '', True, 'a', 'b')
    direct(J, 'long delimiter', False, 'a', None, 'b')
    direct(J, None, True, 'a', 'b')
    direct(J, 1, True, 'a', 'b')
    direct(J, b',', True, 'a', 'b')
    direct(J, b',', True, b'a', b'b')
    direct(J, [','], True, 'a', 'b')
    direct(J, xlerror.NUM, True, 'a', 'b')
    direct(J, True, True, 'a', 'b')
    direct(J, ',', True, 1)
    direct(J, ',', True, 'a', 1)
    direct(J, ',', False, 'a', 1)
    direct(J, ',', True, 'a', None, 1.5)
    direct(J, ',', False, 'a', None, 1.5)
    direct(J, ',', True, 'a', True)
    direct(J, ',', True, 'a', b'b')
    direct(J, ',', True, 'a', xlerror.NUM)
    direct(J, ',', False, None, xlerror.NUM)
    direct(J, ',', True, ['a', [xlerror.REF]])
    direct(J, ',', True, 'a', Shouty())
    direct(J, ',', True, 'a', {'k': 1})
    direct(J, ',', True, 'a', range(2))
    direct(J, ',', True, *['x'] * 30)
    direct(J, ',', False, *[None] * 5)
    direct(J, ',', True, *[None] * 5)

    # a fixed pseudo-random sweep
    rnd = random.Random(150415)
    alphabet = ['a', 'B', ' ', ' ', ' ', '\t', '\n', '\x00', '\x1f', '\x7f', u'\xe9']
    for _ in range(80):
        s = ''.join(rnd.choice(alphabet) for _ in range(rnd.randint(0, 12)))
        direct(C, s)
        direct(T, s)
    pool = ['a', 'bc', '', None, ' ', 1, 2.5, True, ['x', None], [['y'], 'z'], xlerror.NUM, xlerror.REF]
    for _ in range(80):
        items = [rnd.choice(pool) for _ in range(rnd.randint(0, 5))]
        direct(K, *items)
        direct(J, rnd.choice([',', '', '--']), rnd.choice([True, False]), *items)
    words = ['"a"', '"b c"', '""', '', '1', 'TRUE', '{"p","q"}', 'blank', 'lst', 'A1', 'A2', '1/0']
    for _ in range(60):
        items = ','.join(rnd.choice(words) for _ in range(rnd.randint(1, 5)))
        parser = rnd.choice((p1, p2))
        ev(parser, 'rnd', 'CONCATENATE(%s)' % items)
        ev(parser, 'rnd', 'TEXTJOIN("%s",%s,%s)' % (rnd.choice([';', '', ' ']), rnd.choice(['TRUE', 'FALSE']), items))
    show('p2-events', 'after random sweep (count only)', repr(len(rec2.take())))

    # the shared error values carry nothing over from the last parse; module constants are intact
    for name in ('ERROR', 'VALUE', 'NUM', 'DIV_ZERO', 'NAME', 'REF', 'NOT_AVAILABLE'):
        err = getattr(xlerror, name)
        show('state', name, repr((str(err), err.__traceback__ is None, err.__context__ is None)))
    show('state', 'p1.functions/p2.functions', repr((p1.functions, p2.functions)))
    show('state', 'supported text functions',
         repr([n for n in hotxlfp.formulas.supported() if hotxlfp.formulas.get_for(n).__module__ == xltext.__name__]))


if __name__ == '__main__':
    main()
