# -*- coding: utf-8 -*-
"""
Probe for C08 refactoring 1: error propagation through the arithmetic, comparison,
concatenation operators and unary minus (operators.evaluate_arithmetic / evaluate_logic,
the '&' and unary minus grammar actions). Prints a deterministic transcript.
"""
import os
import sys
import datetime

sys.path.insert(0, os.path.dirname(os.path.dirname(os.path.abspath(__file__))))

import hotxlfp  # noqa: E402
from hotxlfp.formulas import error, operators  # noqa: E402

COUNT = [0]


def out(kind, text, outcome):
    COUNT[0] += 1
    print('%04d %s %s => %s' % (COUNT[0], kind, text, outcome))


def show(value):
    """repr() without memory addresses"""
    if isinstance(value, error.XLError):
        return 'XLError(%r)' % (str(value),)
    if isinstance(value, list):
        return '[' + ', '.join(show(v) for v in value) + ']'
    if isinstance(value, tuple):
        return '(' + ', '.join(show(v) for v in value) + ')'
    if isinstance(value, dict):
        return '{' + ', '.join('%r: %s' % (k, show(value[k])) for k in sorted(value)) + '}'
    return repr(value)


CELLS = {
    'A1': 1,
    'A2': 'text',
    'A3': None,
    'A4': True,
    'A5': error.DIV_ZERO,
    'A6': error.NOT_AVAILABLE,
    'A7': datetime.datetime(2020, 1, 15),
    'A8': '12',
    'A9': 0,
    'A10': [1, 2],
    'A11': 2.5,
    'A12': False,
    'A13': '',
    'A14': -3,
    'B1': error.VALUE,
    'B2': error.NUM,
    'B3': error.REF,
    'B4': error.NAME,
    'B5': error.NULL,
    'B6': error.DATA,
    'B7': error.ERROR,
    'B8': [error.NOT_AVAILABLE, 2],
    'B9': [[1, error.DIV_ZERO], [3, 4]],
    'B10': '2020-01-15',
    'B11': 1e308,
    'B12': 3 + 4j,
}

VARIABLES = {
    'one': 1,
    'blank': None,
    'txt': 'abc',
    'err_na': error.NOT_AVAILABLE,
    'err_div': error.DIV_ZERO,
    'arr': [1, 2, 3],
    'arr_err': [1, error.NUM, 3],
    'when': datetime.datetime(1999, 12, 31),
}


def raise_na():
    raise error.NOT_AVAILABLE


def raise_value_error():
    raise ValueError('boom')


def raise_named(message):
    raise RuntimeError(message)


def make_parser(events):
    parser = hotxlfp.Parser()
    for name, value in VARIABLES.items():
        parser.set_variable(name, value)
    parser.set_function('RAISE_NA', raise_na)
    parser.set_function('RAISE_VE', raise_value_error)
    parser.set_function('RAISE_MSG', raise_named)
    parser.set_function('GIVE_REF', lambda: error.REF)
    parser.set_function('ECHO', lambda *a: a[0] if len(a) == 1 else list(a))
    parser.set_function('OVERRIDDEN', lambda: 5)

    def on_cell(cell, setter):
        events.append('cell(%s,%s,%s)' % (cell.label, cell.row.index, cell.col.index))
        if cell.label in CELLS:
            setter(CELLS[cell.label])

    def on_range(start, end, setter):
        events.append('range(%s:%s)' % (start.label, end.label))
        rows = []
        for r in range(start.row.index, end.row.index + 1):
            row = []
            for c in range(start.col.index, end.col.index + 1):
                label = 'AB'[c] + str(r + 1) if c < 2 else None
                row.append(CELLS.get(label))
            rows.append(row)
        setter(rows)

    def on_function(name, args, setter):
        events.append('fn(%s,%s)' % (name, show(args)))
        if name == 'OVERRIDDEN':
            setter(error.NUM)

    def on_variable(name, setter):
        events.append('var(%s)' % name)
        if name == 'injected':
            setter(error.NULL)

    parser.on('callCellValue', on_cell)
    parser.on('callRangeValue', on_range)
    parser.on('callFunction', on_function)
    parser.on('callVariable', on_variable)
    return parser


EVENTS = []
PARSER = make_parser(EVENTS)


def run(formula):
    del EVENTS[:]
    try:
        outcome = show(PARSER.parse(formula))
    except BaseException as e:  # noqa
        outcome = 'RAISED %s(%s)' % (type(e).__name__, e)
    out('F', repr(formula), '%s events=[%s]' % (outcome, '; '.join(EVENTS)))


def direct(fn_name, *args):
    fn = getattr(operators, fn_name)
    try:
        outcome = show(fn(*args))
    except BaseException as e:  # noqa
        outcome = 'RAISED %s(%s)' % (type(e).__name__, e)
    out('D', '%s%s' % (fn_name, show(args)), outcome)


BINARY_OPS = ['+', '-', '*', '/', '&', '=', '<>', '<', '>', '<=', '>=']

OPERANDS = [
    '1', '0', '2.5', '"a"', '""', '"12"', 'TRUE', 'FALSE',
    'A3', 'A5', 'A6', 'A7', 'B1',
    '#N/A', '#DIV/0!', 'NA()', '(1/0)', 'SQRT(-1)', 'RAISE_NA()',
    '{1,2}', 'arr_err', 'nosuchvar', 'NOSUCHFN()',
]

# 1. every operator on every pair of operand kinds
for lop in OPERANDS:
    for rop in OPERANDS:
        for op in BINARY_OPS:
            run('%s%s%s' % (lop, op, rop))

# 2. unary minus
UNARY = OPERANDS + ['A1', 'A2', 'A4', 'A8', 'A9', 'A10', 'A11', 'A12', 'A13', 'A14', 'B2', 'B3', 'B4',
                    'B5', 'B6', 'B7', 'B8', 'B9', 'B10', 'B11', 'B12', 'one', 'blank', 'txt', 'err_na',
                    'err_div', 'arr', 'when', 'injected', 'GIVE_REF()', 'RAISE_VE()', 'OVERRIDDEN()',
                    'PI()', 'SUM(1,2)', 'A1:B2', '#REF!', '#NAME?', '#NUM!', '#VALUE!', '#NULL!',
                    '#GETTING_DATA', '#ERROR!', '#BOGUS!', '#']
for operand in UNARY:
    run('-%s' % operand)
    run('--%s' % operand)
    run('-(%s)' % operand)
    run('1+-%s' % operand)
    run('-%s&"x"' % operand)
    run('-%s=-%s' % (operand, operand))

# 3. left error wins, chains, precedence and parentheses
ERRS = ['#N/A', '#DIV/0!', '#NAME?', '#NULL!', '#NUM!', '#REF!', '#VALUE!', '#GETTING_DATA', '#ERROR!']
ERR_CELLS = ['A5', 'A6', 'B1', 'B2', 'B3', 'B4', 'B5', 'B6', 'B7']
for a in ERR_CELLS:
    for b in ERR_CELLS:
        for op in BINARY_OPS:
            run('%s%s%s' % (a, op, b))
for a in ERR_CELLS:
    run('1+2*%s' % a)
    run('(%s+1)*2' % a)
    run('"x"&%s&"y"' % a)
    run('%s&A3' % a)
    run('A3&%s' % a)
    run('1<%s<3' % a)
    run('(1=%s)&"z"' % a)
    run('{1,2}+%s' % a)
    run('%s*{1,2}' % a)
    run('A10/%s' % a)
    run('-%s+%s' % (a, ERR_CELLS[(ERR_CELLS.index(a) + 1) % len(ERR_CELLS)]))
for e in ERRS:
    run(e)
    run('1+%s' % e)
    run('%s&"x"' % e)
    run('IFERROR(%s,1)' % e)
    run('ISERROR(%s)' % e)
    run('-%s' % e)

# 4. the observers over operator results
OBS_ARGS = ['A5+1', '1+A6', 'A5&A6', 'A6&A5', '-B2', 'B1=B3', 'A3&A3', 'A1&A2', 'A7&"x"', 'A4&A12',
            'A11&A9', '1/0', '1/A3', 'A3/A3', 'A7+1', 'A7-A7', 'A7*2', 'A7/2', 'A3+A7', 'A3/A7', 'A7/A3',
            'A2+1', 'A8+1', 'A8*A8', 'A4+1', 'A4+A4', 'A13+1', 'B10+1', 'B10-A7', 'B11*10', 'B11*B11',
            'B12+1', 'B12/0', 'A10+1', 'A10+A10', 'A10+{1,2,3}', 'B8+1', '1-B8', 'B9*2', '2/B9',
            'A1:B2+1', 'A5:B5+1', 'arr+arr_err', 'arr_err/0', '{1,2}/{0,A5}', '1+{1}', '{1}+{1,2}',
            'A14-1', '-A14', '-A7', '-A2', '-A3', '-A4', '-A10', '-B12']
for arg in OBS_ARGS:
    run(arg)
    run('IFERROR(%s,"alt")' % arg)
    run('IFNA(%s,"alt")' % arg)
    run('ISERROR(%s)' % arg)
    run('ISERR(%s)' % arg)
    run('ISNA(%s)' % arg)
    run('ERROR.TYPE(%s)' % arg)
    run('ISERROR(%s)=OR(ISERR(%s),ISNA(%s))' % (arg, arg, arg))

# 5. the operator functions called directly, with values the grammar cannot produce
NOW = datetime.datetime(2021, 3, 4, 5, 6, 7)
VALUES = [0, 1, -1, 2.5, -0.0, 1e308, True, False, None, '', 'a', '3', '1e3', ' 7 ', '2020-01-15',
          error.NOT_AVAILABLE, error.DIV_ZERO, error.VALUE, NOW, datetime.datetime(1900, 1, 1),
          [1, 2], [], [5], [error.NUM, 1], [[1, 2], [3, error.REF]], (1, 2), {'k': 1}, 3 + 4j,
          float('inf'), float('nan')]
for op in ['+', '-', '*', '/']:
    for lval in VALUES:
        for rval in VALUES:
            direct('evaluate_arithmetic', op, lval, rval)
for op in ['=', '<>', '<', '>', '<=', '>=']:
    for lval in VALUES:
        for rval in VALUES:
            direct('evaluate_logic', op, lval, rval)
for bad_op in ['&', '^', '', None, '==']:
    for lval, rval in [(1, 2), (error.NUM, 2), (1, error.NUM), ([1], 2), (1, [2]), ('a', 1), (None, None)]:
        direct('evaluate_arithmetic', bad_op, lval, rval)
        direct('evaluate_logic', bad_op, lval, rval)

# 6. shared error instances stay clean between evaluations
for err in (error.ERROR, error.DIV_ZERO, error.NAME, error.NOT_AVAILABLE, error.NULL, error.NUM,
            error.REF, error.VALUE, error.DATA):
    out('S', str(err), repr((err.__traceback__, err.__context__, err.args)))
