# -*- coding: utf-8 -*-
"""
Probe for C06 refactoring 1 (ExcelArrayOps.combine helper, evaluate_concatenation helper).
Prints a deterministic transcript: one line per evaluation.
"""
import os
import sys
import random
import datetime
import operator

sys.path.insert(0, os.path.dirname(os.path.dirname(os.path.abspath(__file__))))

import hotxlfp  # noqa: E402
from hotxlfp.formulas import operators, error  # noqa: E402

COUNT = [0]


def show(value):
    """repr() that never prints a memory address"""
    if isinstance(value, operators.ExcelArrayOps):
        return 'ExcelArrayOps(%s)' % show(value.arr)
    if isinstance(value, list):
        return '[' + ', '.join(show(v) for v in value) + ']'
    if isinstance(value, tuple):
        return '(' + ', '.join(show(v) for v in value) + (',)' if len(value) == 1 else ')')
    if isinstance(value, dict):
        return '{' + ', '.join('%s: %s' % (show(k), show(value[k])) for k in sorted(value, key=repr)) + '}'
    if isinstance(value, Odd):
        return 'Odd(%s)' % value.tag
    return repr(value)


def line(kind, what, outcome):
    COUNT[0] += 1
    print('%04d %s | %s => %s' % (COUNT[0], kind, what, outcome))


def attempt(fn, *args):
    try:
        return show(fn(*args))
    except BaseException as e:  # the transcript records what was raised
        if isinstance(e, (KeyboardInterrupt, SystemExit)):
            raise
        return 'RAISED %s(%s)' % (type(e).__name__, show(e.args))


class Odd(object):
    """an operand the library knows nothing about"""

    def __init__(self, tag):
        self.tag = tag

    def __str__(self):
        return '<odd %s>' % self.tag


class Unprintable(Odd):

    def __str__(self):
        raise RuntimeError('no text for %s' % self.tag)


# ---------------------------------------------------------------------------
# a parser with recorded events
# ---------------------------------------------------------------------------

EVENTS = []
CELLS = {
    'A1': 2, 'A2': 3.5, 'A3': None, 'A4': '4', 'A5': 'abc', 'A6': True, 'A7': False,
    'A8': '2020-02-03', 'A9': '', 'B1': [1, 2, 3], 'B2': error.NUM, 'B3': -7, 'B4': 0,
    'B5': datetime.datetime(2021, 3, 4), 'B6': [[1, 2], [3, 4]], 'B7': '1e2', 'B8': ' 12 ',
}
RANGES = {
    ('A1', 'A3'): [2, 3.5, None],
    ('A1', 'B1'): [2, 1],
    ('A4', 'A6'): ['4', 'abc', True],
    ('C1', 'C2'): [[1, 2], [3, 4]],
    ('D1', 'D4'): [10, 20, 30, 40],
    ('E1', 'E1'): [5],
    ('F1', 'F2'): [],
}


def make_parser():
    p = hotxlfp.Parser()

    def on_function(name, args, setter):
        EVENTS.append('callFunction(%s, %s)' % (name, show(args)))

    def on_variable(name, setter):
        EVENTS.append('callVariable(%s)' % name)

    def on_cell(cell, setter):
        EVENTS.append('callCellValue(%s)' % cell.label)
        setter(CELLS.get(cell.label))

    def on_range(start, end, setter):
        EVENTS.append('callRangeValue(%s, %s)' % (start.label, end.label))
        setter(RANGES.get((start.label, end.label)))

    p.on('callFunction', on_function)
    p.on('callVariable', on_variable)
    p.on('callCellValue', on_cell)
    p.on('callRangeValue', on_range)
    return p


PARSER = make_parser()
VARS = {
    'vnone': None, 'vint': 7, 'vneg': -3, 'vzero': 0, 'vfloat': 2.5, 'vbig': 10 ** 20, 'vtiny': 1e-300,
    'vhuge': 1e308, 'vinf': float('inf'), 'vnan': float('nan'), 'vtrue': True, 'vfalse': False,
    'vstr': 'text', 'vnumstr': '12', 'vfloatstr': '1.5', 'vempty': '', 'vdatestr': '2019-12-31',
    'vdate': datetime.datetime(2020, 1, 1), 'vdate0': datetime.datetime(1900, 1, 1),
    'vdate60': datetime.datetime(1900, 2, 28), 'vdatet': datetime.datetime(2020, 1, 1, 12, 0, 0),
    'vold': datetime.datetime(1899, 12, 25),
    'vcomplex': 1 + 2j, 'verr': error.VALUE, 'vna': error.NOT_AVAILABLE, 'vdiv': error.DIV_ZERO,
    'varr': [1, 2, 3], 'varr2': [10, 20, 30], 'varrshort': [1, 2], 'varrone': [5], 'varrempty': [],
    'varrmixed': [1, '2', None, True, 'x', error.NUM], 'varrnested': [[1, 2], [3, 4]], 'varrnone': [None, None],
    'varrdates': [datetime.datetime(2020, 1, 1), '2020-01-02'], 'varrerr': [error.REF, 1],
    'vtuple': (1, 2), 'vdict': {'a': 1}, 'vbytes': b'12', 'vodd': Odd('o'), 'vunprintable': Unprintable('u'),
    'varrnested1': [[7]], 'varrwrap': [[1, 2, 3]],
}
for _name, _value in VARS.items():
    PARSER.set_variable(_name, _value)


def formula(expr):
    del EVENTS[:]
    try:
        outcome = show(PARSER.parse(expr))
    except BaseException as e:
        if isinstance(e, (KeyboardInterrupt, SystemExit)):
            raise
        outcome = 'RAISED %s(%s)' % (type(e).__name__, show(e.args))
    line('formula', expr, '%s events=[%s]' % (outcome, '; '.join(EVENTS)))


# ---------------------------------------------------------------------------
# 1. formulas: arrays against scalars and arrays, every operator
# ---------------------------------------------------------------------------

ARRAY_TEXTS = ['{1,2,3}', '{1;2;3}', '{4,5,6}', '{1,2}', '{5}', '{1,"2",TRUE}', '{"a","b","c"}',
               '{0,0,0}', '{1.5,-2.5,0}', '{"2020-01-01","x",3}', '{{1,2},{3,4}}', '{1,,3}', '{,,}']
SCALAR_TEXTS = ['2', '0', '-1', '1.5', '"3"', '"abc"', '""', 'TRUE', 'FALSE', 'NULL', '"2020-01-01"',
                '#N/A', '50%', '2^3', '(1+1)']
for op in '+-*/':
    for arr in ARRAY_TEXTS:
        for scalar in ('2', '0', '"3"', '"abc"', 'TRUE', 'NULL', '"2020-01-01"'):
            formula('%s%s%s' % (arr, op, scalar))
            formula('%s%s%s' % (scalar, op, arr))
for op in '+-*/&':
    for left in ('{1,2,3}', '{1,2}', '{5}', '{{1,2},{3,4}}', '{1,"x",0}', '{,,}'):
        for right in ('{4,5,6}', '{0,1}', '{7}', '{{1,0},{2,2}}', '{1,2,3,4}'):
            formula('%s%s%s' % (left, op, right))

# ---------------------------------------------------------------------------
# 2. formulas: & on everything
# ---------------------------------------------------------------------------

for left in SCALAR_TEXTS:
    for right in SCALAR_TEXTS:
        formula('%s&%s' % (left, right))
AMP_NAMES = ['vnone', 'vint', 'vneg', 'vfloat', 'vbig', 'vinf', 'vnan', 'vtrue', 'vfalse', 'vstr', 'vnumstr', 'vempty',
             'vdate', 'vcomplex', 'verr', 'vna', 'varr', 'varrempty', 'varrmixed', 'vtuple', 'vdict', 'vbytes', 'vodd',
             'vunprintable']
for name in AMP_NAMES:
    formula('%s&"|"' % name)
    formula('"|"&%s' % name)
    formula('%s&%s' % (name, name))
formula('vunprintable&verr')
formula('verr&vunprintable')
formula('verr&vna')
formula('vna&verr')
formula('vnone&vnone')
formula('vnone&vnone&vnone')
formula('1&2&3')
formula('1&2+3')
formula('1+2&3')
formula('1+2&3*4')
formula('"a"&1=2')
formula('-1&2')
formula('1&-2')
formula('2*3&4/2')
formula('"a"&"b"&"c"&"d"')
formula('1.0&2.50')
formula('1/3&""')
formula('"x"&1/0')
formula('1/0&"x"')
formula('A1&A2&A3&A4&A5&A6&A7')
formula('A3&A3')
formula('B1&"!"')
formula('B2&"!"')
formula('"!"&B2')
formula('SUM(1,2)&UPPER("ab")')
formula('CONCATENATE("a","b")&LEN("abc")')
formula('A1:A3&"x"')
formula('nosuchname&"x"')
formula('"x"&nosuchname')
formula('NOSUCHFN(1)&"x"')

# ---------------------------------------------------------------------------
# 3. formulas: variables, cells and ranges through the arithmetic operators
# ---------------------------------------------------------------------------

ARR_NAMES = ['varr', 'varr2', 'varrshort', 'varrone', 'varrempty', 'varrmixed', 'varrnested', 'varrnone', 'varrdates',
             'varrerr', 'varrnested1', 'varrwrap']
OTHER_NAMES = ['vnone', 'vint', 'vzero', 'vfloat', 'vtrue', 'vstr', 'vnumstr', 'vdatestr', 'vdate', 'vdate0', 'vold',
               'vcomplex', 'verr', 'vtuple', 'vodd', 'vinf']
for op in '+-*/':
    for a in ARR_NAMES:
        for b in OTHER_NAMES:
            formula('%s%s%s' % (a, op, b))
            formula('%s%s%s' % (b, op, a))
        for b in ARR_NAMES:
            formula('%s%s%s' % (a, op, b))
for op in '+-*/&':
    formula('A1:A3%s2' % op)
    formula('2%sA1:A3' % op)
    formula('A1:A3%sA4:A6' % op)
    formula('A1:A3%sA1:B1' % op)
    formula('D1:D4%sD1:D4' % op)
    formula('E1:E1%sD1:D4' % op)
    formula('D1:D4%sE1:E1' % op)
    formula('F1:F2%s1' % op)
    formula('1%sF1:F2' % op)
    formula('F1:F2%sF1:F2' % op)
    formula('C1:C2%sC1:C2' % op)
    formula('C1:C2%s{1,2}' % op)
    formula('B1%sB1' % op)
    formula('B1%sA1' % op)
    formula('A1%sB1' % op)
    formula('B6%sB1' % op)
    formula('B2%sB1' % op)
    formula('B1%sB2' % op)
    formula('Z9:Z10%s1' % op)
    formula('SUM(A1:A3)%s{1,2}' % op)
    formula('{1,2}%sSUM(A1,A2)%sA4' % (op, op))
formula('{1,2,3}+{1,2,3}*2')
formula('({1,2,3}+{1,2,3})*2')
formula('{1,2,3}-{1,2,3}-{1,1,1}')
formula('{8,4}/{2,2}/{2,1}')
formula('1-{1,2}-1')
formula('1/{1,2}/2')
formula('-{1,2}')
formula('{1,2}+-1')
formula('SUM({1,2,3}*{4,5,6})')
formula('SUM({1,2,3}+1)')
formula('SUM({1,2}*{1,2,3})')
formula('{1,2}+{1,2}+{1,2,3}')
formula('{1,2}+{1,2,3}+{1,2}')
formula('{1,2}*#REF!')
formula('#REF!*{1,2}')
formula('{1,2}+nosuchname')

# ---------------------------------------------------------------------------
# 4. the array wrapper called directly
# ---------------------------------------------------------------------------

DIRECT_ARRAYS = [[], [1], [1, 2], [1, 2, 3], [0, 0], [None, None], ['1', 'a'], [True, False], [[1, 2], [3, 4]], [[5]],
                 [error.NUM, 2], [datetime.datetime(2020, 1, 1), 2], [1.5, float('inf')], [1 + 1j, 2]]
DIRECT_VALUES = [0, 1, -2.5, None, True, '3', 'abc', '', '2020-01-01', datetime.datetime(2020, 1, 1), error.NOT_AVAILABLE,
                 [], [7], [1, 2], [3, 4, 5], [None], [[1, 2]], [[1, 2], [3, 4]], [error.REF], ['x', 'y'], (1, 2),
                 Odd('d'), 1j]
METHODS = ['__add__', '__radd__', '__sub__', '__rsub__', '__mul__', '__rmul__', '__truediv__', '__rtruediv__']
for arr in DIRECT_ARRAYS:
    for value in DIRECT_VALUES:
        for method in METHODS:
            wrapped = operators.ExcelArrayOps(list(arr))
            line('method', 'ExcelArrayOps(%s).%s(%s)' % (show(arr), method, show(value)),
                 attempt(getattr(wrapped, method), value))
        line('adapt', 'ExcelArrayOps(%s).adapt_value(%s)' % (show(arr), show(value)),
             attempt(operators.ExcelArrayOps(list(arr)).adapt_value, value))

OPERATOR_FUNCTIONS = [('add', operator.add), ('sub', operator.sub), ('mul', operator.mul), ('truediv', operator.truediv)]
for fname, fn in OPERATOR_FUNCTIONS:
    for arr in ([1, 2], [4], []):
        for value in (2, None, 'x', [1, 2], [1, 2, 3]):
            line('operator', '%s(ExcelArrayOps(%s), %s)' % (fname, show(arr), show(value)),
                 attempt(fn, operators.ExcelArrayOps(list(arr)), value))
            line('operator', '%s(%s, ExcelArrayOps(%s))' % (fname, show(value), show(arr)),
                 attempt(fn, value, operators.ExcelArrayOps(list(arr))))
    line('operator', '%s(ExcelArrayOps([1, 2]), ExcelArrayOps([3, 4]))' % fname,
         attempt(fn, operators.ExcelArrayOps([1, 2]), operators.ExcelArrayOps([3, 4])))

for missing in ('__floordiv__', '__mod__', '__pow__', '__neg__', '__div__', '__rdiv__', '__iadd__', '__len__'):
    line('attribute', 'hasattr(ExcelArrayOps, %s)' % missing, repr(hasattr(operators.ExcelArrayOps, missing)))
line('attribute', '__radd__ is __add__', repr(operators.ExcelArrayOps.__radd__ is operators.ExcelArrayOps.__add__))
line('attribute', '__rmul__ is __mul__', repr(operators.ExcelArrayOps.__rmul__ is operators.ExcelArrayOps.__mul__))

# the wrapped list is used as it is, never copied or changed
shared = [1, 2, 3]
other = [10, 20, 30]
wrapped = operators.ExcelArrayOps(shared)
line('aliasing', 'arr is the list given', repr(wrapped.arr is shared))
line('aliasing', 'result', attempt(wrapped.__add__, other))
line('aliasing', 'operands afterwards', show([shared, other]))

# ---------------------------------------------------------------------------
# 5. evaluate_arithmetic called directly with arrays, also with operators it has no table for
# ---------------------------------------------------------------------------

for op in ('+', '-', '*', '/', '>', '=', '<>', '^', '&', '', None):
    for lval, rval in (([1, 2], 1), (1, [1, 2]), ([1, 2], [3, 4]), ([1, 2], [1, 2, 3]), ([], []), ([1], [1, 2]),
                       (error.NUM, [1]), ([1], error.NUM), ([error.NUM], 1), ([[1, 2], [3]], [[1, 1], [1]]),
                       ([[1, 2], [3]], [[1, 1], [1, 1]]), ([1, 2], (1, 2)), ((1, 2), [1, 2])):
        line('direct', 'evaluate_arithmetic(%r, %s, %s)' % (op, show(lval), show(rval)),
             attempt(operators.evaluate_arithmetic, op, lval, rval))

# ---------------------------------------------------------------------------
# 6. random formulas (fixed seed)
# ---------------------------------------------------------------------------

rng = random.Random(606)
ATOMS = ['1', '2', '0', '2.5', '"3"', '"abc"', '""', 'TRUE', 'NULL', '{1,2,3}', '{4,5,6}', '{1,2}', '{9}', '"2020-01-01"',
         'A1', 'A3', 'A5', 'B1', 'A1:A3', 'D1:D4', 'varr', 'varrmixed', 'vdate', 'vnone', 'SUM(1,2)', '#DIV/0!', '10%']
for i in range(400):
    n = rng.randint(2, 4)
    parts = [rng.choice(ATOMS)]
    for j in range(n - 1):
        parts.append(rng.choice(['+', '-', '*', '/', '&']))
        parts.append(rng.choice(ATOMS))
    expr = ''.join(parts)
    if rng.random() < 0.2:
        expr = '(' + expr + ')' + rng.choice(['+', '-', '*', '/', '&']) + rng.choice(ATOMS)
    formula(expr)

# two parsers do not share anything
second = make_parser()
del EVENTS[:]
line('isolation', 'second parser knows no variables of the first', show(second.parse('varr+1')))
line('isolation', 'first parser still does', show(PARSER.parse('varr+1')))
line('total', 'evaluations', str(COUNT[0]))
