# -*- coding: utf-8 -*-
"""
Probe for C10 refactoring 2 (range corner ordering in Parser.call_range_value and the
column letter arithmetic in hotxlfp.helper.cell.column_label_to_index).

Prints one line per evaluation: input, repr() of the outcome and the events seen with
their full payloads (label, row and column index / text / absolute marker of each cell).
"""
from __future__ import print_function
import os
import random
import sys

sys.path.insert(0, os.path.dirname(os.path.dirname(os.path.abspath(__file__))))

import hotxlfp  # noqa: E402
from hotxlfp.formulas import error as xlerror  # noqa: E402
from hotxlfp.helper import cell as cellhelper  # noqa: E402

COUNT = [0]


def show_parsed(pl):
    return '(%r,%r,%r)' % (pl.index, pl.label, pl.is_absolute)


def show_cell(cell):
    return '%r[row=%s col=%s]' % (cell.label, show_parsed(cell.row), show_parsed(cell.col))


def emit_line(what, outcome, events):
    COUNT[0] += 1
    line = '%04d %-46s -> %s || %s' % (COUNT[0], what, outcome, ' ; '.join(events))
    print(line.encode('ascii', 'backslashreplace').decode('ascii'))  # independent of the locale


def cell_value(row, col):
    """A deterministic sheet covering blanks, text, logicals, errors and numbers."""
    kind = (row * 7 + col * 3) % 11
    if kind == 0:
        return None
    if kind == 1:
        return ''
    if kind == 2:
        return row % 2 == 0
    if kind == 3:
        return 'r%dc%d' % (row, col)
    if kind == 4:
        return xlerror.NOT_AVAILABLE
    if kind == 5:
        return 0
    return row * 1000 + col + 0.5 * (kind == 6)


def make_parser(mode):
    events = []
    p = hotxlfp.Parser()
    p.set_variable('x', 3)

    def on_cell(cell, setter):
        events.append('cell ' + show_cell(cell))
        # the payload is consistent: label <-> coordinates
        events.append('relabel %r' % (cellhelper.to_label(cell.row, cell.col),))
        if mode == 'sheet':
            setter(cell_value(cell.row.index, cell.col.index))

    def on_range(start, end, setter):
        events.append('range ' + show_cell(start) + '..' + show_cell(end))
        events.append('unpack %r' % ([show_parsed(v) for v in (start[0], start[1], end[0], end[1])],))
        if mode == 'sheet':
            rows = range(start.row.index, min(end.row.index, start.row.index + 3) + 1)
            cols = range(start.col.index, min(end.col.index, start.col.index + 3) + 1)
            setter([[cell_value(r, c) for c in cols] for r in rows])
        elif mode == 'shape':
            setter((end.row.index - start.row.index + 1) * (end.col.index - start.col.index + 1))

    def on_var(name, setter):
        events.append('var %r' % (name,))

    def on_fn(name, args, setter):
        events.append('fn %r %r' % (name, args))

    if mode != 'none':
        p.on('callCellValue', on_cell)
        p.on('callRangeValue', on_range)
        p.on('callVariable', on_var)
        p.on('callFunction', on_fn)
    return p, events


def run_parse(mode, p, events, formula):
    try:
        outcome = repr(p.parse(formula))
    except BaseException as e:
        outcome = 'RAISED %s(%s)' % (type(e).__name__, e)
    emit_line('%s parse(%r)' % (mode, formula), outcome, events)
    del events[:]


def run_call(label, fn, *args):
    try:
        outcome = repr(fn(*args))
    except BaseException as e:
        outcome = 'RAISED %s(%s)' % (type(e).__name__, e)
    emit_line('%s%r' % (label, args), outcome, [])


def run_direct(mode, p, events, *args):
    try:
        outcome = repr(p.call_range_value(*args))
    except BaseException as e:
        outcome = 'RAISED %s(%s)' % (type(e).__name__, e)
    emit_line('%s call_range_value%r' % (mode, args), outcome, events)
    del events[:]


def spellings(col, row):
    return [col + row, '$' + col + '$' + row, '$' + col + row, col + '$' + row]


RANGE_FORMULAS = [
    # the four corner orders, each in several absolute / relative spellings
    'A1:B2', 'B2:A1', 'A2:B1', 'B1:A2',
    '$A$1:$B$2', '$B$2:$A$1', '$A$2:$B$1', '$B$1:$A$2',
    '$A1:B$2', 'B$2:$A1', '$A2:B$1', 'B$1:$A2',
    'A$1:$B2', '$B2:A$1', 'A$2:$B1', '$B1:A$2',
    '$A$1:B2', 'B2:$A$1', '$A$2:B1', 'B1:$A$2',
    # degenerate: same row, same column, same cell (with different markers)
    'A1:A1', '$A$1:A1', 'A1:$A$1', 'A$1:$A1', '$A1:A$1', 'A1:C1', 'C1:A1', '$C1:A$1', 'A1:A3', 'A3:A1',
    'A$3:$A1', 'C3:C3', 'c3:C3', 'C3:c3',
    # lower / mixed case
    'a1:b2', 'b2:a1', 'a2:B1', 'B1:a2', '$a$2:$b$1', 'aa10:Ab3', 'aB3:Aa10', 'Ab10:aA3',
    # wide and tall, multi-letter columns, column boundaries (Z/AA, AZ/BA, ZZ/AAA)
    'Z1:AA1', 'AA1:Z1', 'Z2:AA1', 'AA1:Z2', 'AZ5:BA4', 'BA4:AZ5', 'ZZ9:AAA8', 'AAA8:ZZ9', 'ZZ8:AAA9',
    'A1:XFD1048576', 'XFD1048576:A1', 'XFD1:A1048576', 'A1048576:XFD1', '$XFD$1:$A$1048576',
    'AAAA1:ZZZZ2', 'ZZZZ2:AAAA1', 'ZZZZ1:AAAA2', 'A1:ZZZZZZZZ99999999', 'ZZZZZZZZ99999999:A1',
    # row 0 and leading zeros (row index -1, or the same row under another spelling)
    'A0:B2', 'B2:A0', 'A0:A0', 'B0:A0', 'A0:B0', 'A00:B0', 'A01:B1', 'B1:A01', 'B001:A2', 'A2:B001',
    'A010:A10', 'A10:A010', 'B10:A010', '$B$010:A10', 'A9:A10', 'A10:A9', 'A99:A100', 'A100:A99',
    # whitespace
    ' A1:B2 ', 'B2 :A1', 'B2: A1', 'B2 : A1',
    # inside calls and expressions: events stay in evaluation order
    'SUM(A1:B2)', 'SUM(B2:A1)', 'SUM(B2:A1,A1:B2)', 'COUNTA(C3:A1)', 'SUM(B2:A1)+SUM(D4:C3)',
    'MAX(B2:A1,x,C1)', 'ROWS(C5:A1)', 'COLUMNS(C5:A1)', 'INDEX(B2:A1,1,1)', 'B2:A1&"z"', '-B2:A1',
    '(B2:A1)', '{B2:A1}', 'IF(TRUE,B2:A1,A1:B2)', 'B2:A1=A1:B2', 'B2:A1+1',
    # not ranges after all
    'A1:B2:C3', 'A1:', ':A1', 'A1::B2', 'A1:B', 'A:B1', 'A1:2', '1:A1', 'A1:x', 'x:A1', 'A1:$B', 'A1:B$',
    'A1:$$B2', '$A$1:$B$2$', 'A1;B2', 'A1,B2', 'A1 B2',
]

CELL_FORMULAS = [
    'A1', 'a1', '$A$1', '$a1', 'a$1', 'Z1', 'AA1', 'AZ1', 'BA1', 'ZZ1', 'AAA1', 'XFD1', 'zz100', 'A0', 'A00',
    'A01', 'A007', 'ABC123', '$ABC$123', 'abc$123', 'IV65536', 'A1048576', 'AMJ1', 'amj1', 'A1+Z1', 'Z1+A1',
    'A1:A1+A1', 'SUM(A1,B1,C1)', 'SUM(c1,b1,a1)', 'A4', 'E1', 'B3', 'D2', 'C7',
]

COLUMN_LABELS = [
    'A', 'B', 'Z', 'AA', 'AB', 'AZ', 'BA', 'ZZ', 'AAA', 'AAB', 'ABA', 'AZZ', 'BAA', 'ZZZ', 'AAAA', 'XFD', 'IV', 'AMJ',
    'a', 'z', 'aa', 'Az', 'aZ', 'xfd', 'zzzzzzzzzz', 'ZZZZZZZZZZZZZZZZZZZZZZZZZZZZZZ',
    '', ' ', '1', 'A1', '1A', 'A 1', '$A', 'A$', '$', '$$', 'A-B', '-', 'A.B', '_', 'A_', '__A', '\t', 'A\n',
    u'\xe9', u'A\xe9', u'\xe9A', u'\xdf', u'A\xdf', u'\xdfA', u'ı', u'İ', u'Ａ', u'K', u'ſ',
    u'ﬁ', u'AﬁB', u'ǅ', u'α', u'А',
    None, 0, 1, 26, -1, 2.5, True, False, [], ['A'], ('A', 'B'), b'A', b'AB', {'A': 1},
]

ROW_LABELS = ['1', '2', '10', '0', '00', '01', '007', '1048576', '99999999999999999999', '-1', '-5', '+3', ' 4 ',
              '1_000', '', 'x', '1.5', '1e3', u'٣', u'１２', 1, 0, -1, 5, True, False, 2.9, -2.9]

EXTRACT_LABELS = [
    'A1', 'a1', '$A$1', '$a1', 'a$1', 'AA10', 'zz100', '$zz$100', 'XFD1048576', 'A0', 'A00', 'A01', 'A007',
    '', 'A', '1', '$', '$A', '$1', 'A$', '1A', 'A1B', 'A1:B2', ' A1', 'A1 ', 'A1\n', 'A-1', 'A1.5', 'A$$1', '$$A1',
    '$A$1$', u'\xe91', u'A٣', u'\xdf1', u'Ａ1', 'A' * 30 + '1', 'A' + '9' * 30, 'R1C1', '_1', 'A_1',
]


def main():
    rnd = random.Random(20240610)

    # 1. range formulas under every listener mode
    for mode in ('record', 'sheet', 'shape', 'none'):
        p, events = make_parser(mode)
        for f in RANGE_FORMULAS:
            run_parse(mode, p, events, f)

    # 2. every spelling of both corners, for the four corner orders
    p, events = make_parser('record')
    for (c1, r1, c2, r2) in [('B', '2', 'D', '5'), ('D', '5', 'B', '2'), ('B', '5', 'D', '2'), ('D', '2', 'B', '5'),
                             ('C', '3', 'C', '3'), ('Z', '9', 'AA', '10'), ('AA', '9', 'Z', '10')]:
        for first in spellings(c1, r1):
            for second in spellings(c2, r2):
                run_parse('record', p, events, first + ':' + second)

    # 3. random ranges (fixed seed): columns up to three letters, rows up to seven digits, random case and markers
    p, events = make_parser('shape')

    def rnd_corner():
        col = ''.join(rnd.choice('ABCDEFGHIJKLMNOPQRSTUVWXYZabcdefghijklmnopqrstuvwxyz')
                      for _ in range(rnd.choice((1, 1, 2, 2, 3))))
        row = str(rnd.choice((0, 1, 2, 9, 10, 11, 99, 100, rnd.randint(1, 1048576), rnd.randint(1, 40))))
        if rnd.random() < 0.2:
            row = '0' * rnd.randint(1, 3) + row
        return rnd.choice(('', '$')) + col + rnd.choice(('', '$')) + row

    for _ in range(150):
        run_parse('shape', p, events, rnd_corner() + ':' + rnd_corner())

    # 4. single cells
    for mode in ('record', 'sheet', 'none'):
        p, events = make_parser(mode)
        for f in CELL_FORMULAS:
            run_parse(mode, p, events, f)

    # 5. call_range_value called directly, also with things the grammar never passes
    direct_args = [
        ('A1', 'B2'), ('B2', 'A1'), ('a2', 'b1'), ('b1', 'a2'), ('$b$1', 'a2'), ('b$1', '$a2'), ('A1', 'A1'),
        ('zz100', 'a1'), ('A0', 'B2'), ('B2', 'A0'), ('A01', 'B1'), ('B1', 'A01'),
        (None, 'A1'), ('A1', None), (None, None), ('bad', 'A1'), ('A1', 'bad'), ('', ''), ('A1', ''), ('A1:B2', 'C3'),
        ('A1', 'B2\n'), (' A1', 'B2'), (7, 'A1'), ('A1', 7), (b'A1', b'B2'), (['A1'], 'B2'), (u'\xe91', 'A1'),
        ('A1', u'B٣'), ('A' + '9' * 25, 'A1'), ('A1', 'A' + '9' * 25), ('Z' * 12 + '1', 'A1'),
    ]
    for mode in ('record', 'sheet', 'none'):
        p, events = make_parser(mode)
        for args in direct_args:
            run_direct(mode, p, events, *args)
    p, events = make_parser('record')
    run_call('call_range_value', p.call_range_value)
    run_call('call_range_value', p.call_range_value, 'A1')
    run_call('call_range_value', p.call_range_value, 'A1', 'B2', 'C3')

    # 6. the column / row arithmetic of the helper module
    for label in COLUMN_LABELS:
        run_call('column_label_to_index', cellhelper.column_label_to_index, label)
    for label in ROW_LABELS:
        run_call('row_label_to_index', cellhelper.row_label_to_index, label)
    for label in EXTRACT_LABELS:
        run_call('extract_label', cellhelper.extract_label, label)
    for index in list(range(-2, 60)) + [675, 676, 701, 702, 703, 727, 728, 729, 16383, 16384, 18277, 18278, 18279,
                                        475253, 475254, 475255, 26 ** 6, 26 ** 9 + 12345]:
        label = cellhelper.column_index_to_label(index)
        run_call('column_index_to_label', cellhelper.column_index_to_label, index)
        run_call('column round trip', cellhelper.column_label_to_index, label)
        run_call('column round trip lower', cellhelper.column_label_to_index, label.lower())
    for _ in range(60):
        label = ''.join(rnd.choice('ABCDEFGHIJKLMNOPQRSTUVWXYZabcdefghijklmnopqrstuvwxyz$1_ ')
                        for _ in range(rnd.randint(1, 9)))
        run_call('column_label_to_index', cellhelper.column_label_to_index, label)

    # 7. to_label over extracted corners (what the range event's labels are built from)
    corners = ['A1', '$A$1', '$B3', 'C$2', 'AA10', '$ZZ$100', 'A0', 'B007']
    for first in corners:
        for second in corners:
            r1, c1 = cellhelper.extract_label(first)
            r2, c2 = cellhelper.extract_label(second)
            run_call('to_label mixed %s/%s' % (first, second), cellhelper.to_label, r1, c2)
            run_call('to_label mixed %s/%s' % (second, first), cellhelper.to_label, r2, c1)

    print('evaluations: %d' % COUNT[0])


if __name__ == '__main__':
    main()
