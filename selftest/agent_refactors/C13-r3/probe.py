# -*- coding: utf-8 -*-
"""
Probe for C13 refactoring 3 (serial <-> date-time conversion in hotxlfp/formulas/utils.py).
Prints a deterministic transcript: one line per evaluation.
"""
import os
import sys
import random
import datetime

sys.path.insert(0, os.path.dirname(os.path.dirname(os.path.abspath(__file__))))

import hotxlfp  # noqa: E402
from hotxlfp.formulas import utils, error, operators, dateandtime, information  # noqa: E402

random.seed(1300)
COUNT = [0]


def show(label, thunk):
    COUNT[0] += 1
    try:
        out = repr(thunk())
    except BaseException as e:  # the kind and text of the exception is part of the behaviour
        out = 'RAISED %s(%s)' % (type(e).__name__, e)
    line = '%04d %s -> %s' % (COUNT[0], label, out)
    print(line.encode('ascii', 'backslashreplace').decode('ascii'))


class FixedOffset(datetime.tzinfo):
    def utcoffset(self, dt):
        return datetime.timedelta(hours=2)

    def dst(self, dt):
        return datetime.timedelta(0)

    def tzname(self, dt):
        return 'X'

    def __repr__(self):
        return 'FixedOffset(+2)'


# ---------------------------------------------------------------- direct: parse_date
SERIALS = [
    -1, -0.5, -1e-9, -0.0, 0, 0.0, 0.25, 0.999999, 1, 1.0, 1.5, 2, 31, 32, 59, 59.5, 59.999, 60, 60.0,
    60.000001, 60.5, 61, 61.0, 61.25, 62, 100, 366, 367, 1000.125, 25569, 25569.5, 36526, 40777,
    43831.999988, 44000.000011574, 2958465, 2958465.99999, 2958466, 3000000, 1e7, 1e12, 1e300,
    True, False, 10 ** 30, 10 ** 400, float('inf'), float('-inf'), float('nan'), 1j, complex(61, 0),
    -10 ** 20, 1e-300, 5e-324,
]
for s in SERIALS:
    show('parse_date(%r)' % (s,), lambda s=s: utils.parse_date(s))

TEXTS = [
    '0', '1', '60', '61', '61.5', '-3', ' 61 ', '1e3', '8/22/2011', '22-MAY-2011', '2011/02/23',
    '1900-01-01', '1900-01-01 00:00:00', '1900-02-28', '1900-03-01', '1900-03-01 06:00', '1899-12-31',
    '1850-06-15', '2020-02-29 23:59:59.999', '9999-12-31 23:59:59', 'abc', '', 'hello world', 'TRUE',
    '2011-02-30', '2011-13-01', 'nan', 'inf', '-inf', '1_000', '0x10', u'١٢',
    '2011-02-23T10:30:15+02:00',
]
for t in TEXTS:
    show('parse_date(%r)' % (t,), lambda t=t: utils.parse_date(t))

OTHERS = [None, [], [61], (61,), {}, b'61', error.VALUE, error.NUM, error.NOT_AVAILABLE, error.DIV_ZERO,
          datetime.date(2020, 1, 1), datetime.timedelta(days=3), datetime.time(10, 30), object, 3.5 + 0j]
for o in OTHERS:
    show('parse_date(%r)' % (o,), lambda o=o: utils.parse_date(o))

# ---------------------------------------------------------------- direct: serialize_date
DATETIMES = [
    datetime.datetime(1900, 1, 1), datetime.datetime(1900, 1, 1, 0, 0, 0, 1000),
    datetime.datetime(1900, 1, 1, 0, 0, 1), datetime.datetime(1900, 1, 1, 12), datetime.datetime(1900, 1, 2),
    datetime.datetime(1900, 1, 31, 23, 59, 59, 999000), datetime.datetime(1900, 2, 1),
    datetime.datetime(1900, 2, 28), datetime.datetime(1900, 2, 28, 23, 59, 59, 999000),
    datetime.datetime(1900, 2, 28, 23, 59, 59, 999999), datetime.datetime(1900, 3, 1),
    datetime.datetime(1900, 3, 1, 0, 0, 0, 1000), datetime.datetime(1900, 3, 1, 6), datetime.datetime(1900, 3, 2),
    datetime.datetime(1900, 12, 31), datetime.datetime(1901, 1, 1), datetime.datetime(1904, 2, 29),
    datetime.datetime(1969, 12, 31, 23, 59, 59, 999000), datetime.datetime(1970, 1, 1),
    datetime.datetime(1970, 1, 1, 0, 0, 0, 1000), datetime.datetime(2000, 1, 1), datetime.datetime(2000, 2, 29, 12),
    datetime.datetime(2011, 8, 22), datetime.datetime(2020, 10, 12, 10, 30, 15, 123000),
    datetime.datetime(2038, 1, 19, 3, 14, 8), datetime.datetime(9999, 12, 31, 23, 59, 59, 999000),
    datetime.datetime(1899, 12, 31), datetime.datetime(1899, 12, 30), datetime.datetime(1899, 12, 31, 23, 59, 59),
    datetime.datetime(1800, 1, 1), datetime.datetime(1, 1, 1), datetime.datetime.min, datetime.datetime.max,
    datetime.datetime(2020, 1, 1, tzinfo=FixedOffset()), datetime.datetime(1900, 1, 1, tzinfo=FixedOffset()),
]
for d in DATETIMES:
    show('serialize_date(%r)' % (d,), lambda d=d: utils.serialize_date(d))
for s in SERIALS:
    show('serialize_date(%r)' % (s,), lambda s=s: utils.serialize_date(s))
for t in TEXTS:
    show('serialize_date(%r)' % (t,), lambda t=t: utils.serialize_date(t))
for o in OTHERS:
    show('serialize_date(%r)' % (o,), lambda o=o: utils.serialize_date(o))

# ---------------------------------------------------------------- round trips
for d in DATETIMES:
    show('parse_date(serialize_date(%r))' % (d,), lambda d=d: utils.parse_date(utils.serialize_date(d)))
for s in SERIALS:
    show('serialize_date(parse_date(%r))' % (s,), lambda s=s: utils.serialize_date(utils.parse_date(s)))

for i in range(120):
    kind = i % 4
    if kind == 0:
        s = random.randint(0, 2958465)
    elif kind == 1:
        s = random.randint(0, 2958465) + random.randint(0, 86399999) / 86400000.0
    elif kind == 2:
        s = random.uniform(0, 130)
    else:
        s = random.randint(55, 65) + random.choice([0, 0.25, 0.5, 0.999, 1e-6])
    show('serial %r: date, back' % (s,),
         lambda s=s: (utils.parse_date(s), utils.serialize_date(utils.parse_date(s))))

base = datetime.datetime(1900, 1, 1)
for i in range(120):
    days = random.randint(0, 73000) if i % 3 else random.randint(0, 70)
    ms = random.randint(0, 86399999) if i % 2 else 0
    d = base + datetime.timedelta(days=days, milliseconds=ms)
    show('datetime %r: serial, back' % (d,),
         lambda d=d: (utils.serialize_date(d), utils.parse_date(utils.serialize_date(d))))

# monotonic around the awkward places
walk = [datetime.datetime(1900, 2, 27) + datetime.timedelta(hours=6 * k) for k in range(16)]
show('serials of 6-hourly walk over 1 March 1900', lambda: [utils.serialize_date(d) for d in walk])
walk = [datetime.datetime(1900, 1, 1) + datetime.timedelta(milliseconds=k) for k in range(6)]
show('serials of millisecond walk from 1 January 1900', lambda: [utils.serialize_date(d) for d in walk])

# ---------------------------------------------------------------- the formula functions, called directly
ARGS = [None, True, False, 0, 1, 60, 61, 61.5, 40777, -1, '61', '8/22/2011', 'abc', '', error.NUM, error.VALUE,
        datetime.datetime(1900, 1, 1), datetime.datetime(1900, 3, 1), datetime.datetime(2011, 8, 22, 18),
        [61], 1j]
for a in ARGS:
    show('DATEVALUE(%r)' % (a,), lambda a=a: dateandtime.DATEVALUE(a))
    show('N(%r)' % (a,), lambda a=a: information.N(a))
    show('YEAR/MONTH/DAY/HOUR(%r)' % (a,), lambda a=a: (dateandtime.YEAR(a), dateandtime.MONTH(a),
                                                        dateandtime.DAY(a), dateandtime.HOUR(a)))
    show('TIMEVALUE(%r)' % (a,), lambda a=a: dateandtime.TIMEVALUE(a))
    show('WEEKDAY(%r)' % (a,), lambda a=a: dateandtime.WEEKDAY(a))
for a in ARGS:
    for b in (None, 0, 61, '8/22/2011', datetime.datetime(2011, 8, 22, 18), error.NUM, 'abc'):
        show('DAYS(%r, %r)' % (a, b), lambda a=a, b=b: dateandtime.DAYS(a, b))
for a, b in [(datetime.datetime(2019, 10, 6), datetime.datetime(2020, 10, 5)), (1, 61), (59, 61), (0, 40777),
             ('8/22/2011', '8/22/2012'), (61, 1), (None, 5)]:
    for unit in ('y', 'm', 'd', 'md', 'ym', 'yd', 'D', 'x', 3):
        show('DATEDIF(%r, %r, %r)' % (a, b, unit), lambda a=a, b=b, unit=unit: dateandtime.DATEDIF(a, b, unit))

# ---------------------------------------------------------------- through the parser, with the events seen
FORMULAS = [
    'DATEVALUE("8/22/2011")', 'DATEVALUE("22-MAY-2011")', 'DATEVALUE("2011/02/23")', 'DATEVALUE("1900-01-01")',
    'DATEVALUE("1900-02-28")', 'DATEVALUE("1900-03-01")', 'DATEVALUE("1900-03-01 12:00")', 'DATEVALUE("abc")',
    'DATEVALUE("")', 'DATEVALUE(61)', 'DATEVALUE(-1)', 'DATEVALUE(TRUE)', 'DATEVALUE()', 'DATEVALUE(1,2)',
    'DATEVALUE(DATE(2020;10;12))', 'DATEVALUE(DATE(1900,1,1))', 'DATEVALUE(DATE(1900,3,1))', 'DATEVALUE({61})',
    'DATEVALUE(#N/A)', 'DATEVALUE(1/0)', 'DATEVALUE(A1)', 'DATEVALUE(D)', 'DATEVALUE(S)', 'DATEVALUE(NOPE)',
    'N(DATE(2020,10,12))', 'N(DATE(1900,1,1))', 'N(DATE(1900,2,28))', 'N(DATE(1900,3,1))', 'N(D)', 'N(TRUE)',
    'N("61")', 'N(A1)', 'N()', 'N(#REF!)',
    'DAYS(DATE(2020,10,12), DATE(2019,10,12))', 'DAYS("3/15/11","2/1/11")', 'DAYS(61, 1)', 'DAYS(D, 61)',
    'DAYS(D, D)', 'DAYS(DATE(1900,3,1), DATE(1900,2,28))', 'DAYS("abc", 1)', 'DAYS(1)', 'DAYS(, )', 'DAYS(D, S)',
    'DATE(2020,10,12) + 1', '1 + DATE(2020,10,12)', 'DATE(2020,10,12) - 1', 'DATE(2020,10,12) - DATE(2020,1,1)',
    'DATE(2020,10,12) + 0.5', 'DATE(1900,2,28) + 1', 'DATE(1900,2,28) + 2', 'DATE(1900,1,1) + 1',
    'DATE(1900,1,1) + 59', 'DATE(1900,1,1) + 60', 'DATE(1900,3,1) - 1', 'DATE(1900,3,1) - 2', 'D + 30', 'D - D',
    'D + A1', 'A1 + D', 'D - 100000', 'D * 2', 'D / 2', 'D / 0', '"8/22/2011" + 1', '"2011-02-23 06:00" - "2011-02-22"',
    'D + "abc"', 'D + TRUE', 'D + #NUM!', 'D + {1,2}', '{1,2} + D', 'D - {1;2}', 'D + 3000000',
    'D > DATE(2011,8,22)', 'D >= DATE(2011,8,22)', 'D = DATE(2011,8,22)', 'D = DATEVALUE(D)', 'D = N(D)',
    'D < 40777.8', 'D > 40777.7', 'D <> 40777.75', 'D = 40777.75', 'DATE(1900,1,1) = 0', 'DATE(1900,3,1) = 61',
    'DATE(1900,2,28) = 59', 'DATE(1900,2,28) < DATE(1900,3,1)', 'D > "abc"', 'D < TRUE', 'D = A1', 'A1 < D',
    'D <= #N/A', 'YEAR(61)', 'MONTH(61)', 'DAY(61)', 'DAY(60)', 'MONTH(60)', 'DAY(59)', 'DAY(0)', 'DAY(0.5)',
    'YEAR(-1)', 'YEAR("abc")', 'HOUR(61.75)', 'MINUTE(61.76)', 'SECOND(61.7654321)', 'YEAR(D)', 'HOUR(D)',
    'YEAR(DATEVALUE(D) + 365)', 'DATEVALUE(D + 365) - DATEVALUE(D)', 'N(D + 1) - N(D)', 'DAYS(D + 10, D)',
    'DATEDIF(D, D + 400, "d")', 'DATEDIF(D, D + 400, "yd")', 'DATEDIF(1, 61, "d")', 'EDATE(D, 1) - D',
    'WEEKDAY(D)', 'WEEKDAY(61, 2)', 'TIMEVALUE("2011-02-23 18:00")', 'TIMEVALUE(D)', 'TIMEVALUE(61.25)',
    'SUM(D, 1)', 'IF(D > 40000, DATEVALUE(D), 0)', 'DATEVALUE("8/22/2011") & ""', '-DATEVALUE("8/22/2011")',
]


def make_parser():
    p = hotxlfp.Parser()
    seen = []
    p.set_variable('D', datetime.datetime(2011, 8, 22, 18))
    p.set_variable('S', 'abc')

    def on_function(name, args, done):
        seen.append(('callFunction', name, repr(args)))

    def on_variable(name, done):
        seen.append(('callVariable', name))

    def on_cell(cell, done):
        seen.append(('callCellValue', cell.label))
        if cell.label == 'B2':
            done(datetime.datetime(1900, 3, 1))

    p.on('callFunction', on_function)
    p.on('callVariable', on_variable)
    p.on('callCellValue', on_cell)
    return p, seen


p1, seen1 = make_parser()
p2, seen2 = make_parser()
for rnd in (1, 2):
    for name, (p, seen) in (('p1', (p1, seen1)), ('p2', (p2, seen2))):
        if rnd == 2 and name == 'p2':
            continue
        for f in FORMULAS + ['DATEVALUE(B2)', 'B2 + 1', 'B2 - 1', 'B2 = 61', 'N(B2)', 'DAYS(B2, 1)']:
            del seen[:]
            show('%s round %d %s' % (name, rnd, f), lambda p=p, f=f, seen=seen: (p.parse(f), list(seen)))

print('evaluations: %d' % COUNT[0])
