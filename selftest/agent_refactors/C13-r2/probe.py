# -*- coding: utf-8 -*-
"""
Probe for C13 refactoring 2 (operators.ExcelComparator and operators.evaluate_arithmetic restructured).
Prints a deterministic transcript: one line per evaluation, input and repr() of the outcome.
"""
from __future__ import print_function
import os
import sys
import random
import datetime

sys.path.insert(0, os.path.dirname(os.path.dirname(os.path.abspath(__file__))))

import hotxlfp  # noqa: E402
from hotxlfp.formulas import utils, error, operators  # noqa: E402

COUNT = [0]


def show(label, thunk):
    COUNT[0] += 1
    try:
        outcome = repr(thunk())
    except BaseException as e:  # noqa
        outcome = 'RAISED %s(%s)' % (type(e).__name__, e)
    print('%04d %s -> %s' % (COUNT[0], label, outcome))


dt = datetime.datetime


class MyInt(int):
    def __repr__(self):
        return 'MyInt(%d)' % int(self)


class MyStr(str):
    def __repr__(self):
        return 'MyStr(%s)' % str.__repr__(self)


VALUES = [
    None, True, False, 0, 1, -1, 60, 61, 61.0, 61.5, 43831, 43831.75, 0.0, -0.0, float('inf'), float('nan'), 2 + 0j,
    MyInt(61), '', 'x', 'X', '61', '61.5', '2020-01-01', '1900-03-01', 'TRUE', MyStr('x'),
    dt(1900, 1, 1), dt(1900, 1, 1, 12), dt(1900, 2, 28), dt(1900, 2, 28, 23, 59, 59, 999000), dt(1900, 3, 1),
    dt(1900, 3, 1, 0, 0, 0, 1000), dt(2020, 1, 1), dt(2020, 1, 1, 18), dt(1899, 12, 31),
    error.VALUE, error.NUM, error.DIV_ZERO, error.NOT_AVAILABLE,
    [], [1], [1, 2], [dt(2020, 1, 1), None, 'x'], (1, 2), {}, b'x',
]

# --------------------------------------------------------------------------
# 1. the comparator: constructor and convert_other
# --------------------------------------------------------------------------
for v in VALUES:
    show('ExcelComparator(%r).value' % (v,), lambda: operators.ExcelComparator(v).value)
for a in VALUES:
    for b in [None, dt(1900, 1, 1), dt(1900, 3, 1), dt(2020, 1, 1, 18), 5, 'y', True, error.NUM, [1]]:
        show('ExcelComparator(%r).convert_other(%r)' % (a, b), lambda: operators.ExcelComparator(a).convert_other(b))
for a in [0, 0.0, True, 2 + 0j, MyInt(3), 'x', MyStr('x'), dt(2020, 1, 1)]:
    show('type of ExcelComparator(%r).convert_other(None)' % (a,),
         lambda: type(operators.ExcelComparator(a).convert_other(None)).__name__)

# --------------------------------------------------------------------------
# 2. the comparator: every method over every pair
# --------------------------------------------------------------------------
for method in ['__lt__', '__gt__', '__eq__', '__ge__', '__le__']:
    for a in VALUES:
        for b in VALUES:
            show('ExcelComparator(%r).%s(%r)' % (a, method, b), lambda: getattr(operators.ExcelComparator(a), method)(b))

# --------------------------------------------------------------------------
# 3. evaluate_logic and evaluate_arithmetic over every pair and operator
# --------------------------------------------------------------------------
for op in ['=', '<>', '<', '>', '<=', '>=']:
    for a in VALUES:
        for b in VALUES:
            show('logic %r %s %r' % (a, op, b), lambda: operators.evaluate_logic(op, a, b))
for op in ['+', '-', '*', '/']:
    for a in VALUES:
        for b in VALUES:
            show('arith %r %s %r' % (a, op, b), lambda: operators.evaluate_arithmetic(op, a, b))
# operators that the tables do not know
FEW = [None, True, 61, 'x', '61', dt(2020, 1, 1), error.NUM, [1, 2]]
for op in ['+', '?']:
    for a in FEW:
        for b in FEW:
            show('logic %r %s %r' % (a, op, b), lambda: operators.evaluate_logic(op, a, b))
for op in ['^', '=', None]:
    for a in FEW:
        for b in FEW:
            show('arith %r %s %r' % (a, op, b), lambda: operators.evaluate_arithmetic(op, a, b))
for v in VALUES:
    show('value_and_type(%r)' % (v,), lambda: operators.value_and_type(v))

# --------------------------------------------------------------------------
# 4. dates and numbers, with a fixed seed: date + n, date - date, comparisons against serials
# --------------------------------------------------------------------------
rng = random.Random(1313)
base = dt(1900, 1, 1)
for i in range(80):
    d = base + datetime.timedelta(days=rng.choice([rng.randint(0, 70), rng.randint(0, 60000)]), milliseconds=rng.randint(0, 86399999))
    e = base + datetime.timedelta(days=rng.choice([rng.randint(0, 70), rng.randint(0, 60000)]), milliseconds=rng.randint(0, 86399999))
    n = rng.choice([rng.randint(-100, 100), rng.uniform(-100, 100), rng.randint(0, 3)])
    show('%s + %r' % (d.isoformat(), n), lambda: operators.evaluate_arithmetic('+', d, n))
    show('%r + %s' % (n, d.isoformat()), lambda: operators.evaluate_arithmetic('+', n, d))
    show('%s - %r' % (d.isoformat(), n), lambda: operators.evaluate_arithmetic('-', d, n))
    show('%s - %s' % (d.isoformat(), e.isoformat()), lambda: operators.evaluate_arithmetic('-', d, e))
    show('%s / %r' % (d.isoformat(), n), lambda: operators.evaluate_arithmetic('/', d, n))
    for op in ['<', '=', '>=']:
        show('%s %s %s' % (d.isoformat(), op, e.isoformat()), lambda: operators.evaluate_logic(op, d, e))
        show('%s %s serial of itself' % (d.isoformat(), op), lambda: operators.evaluate_logic(op, d, utils.serialize_date(d)))
        show('serial of %s %s %s' % (e.isoformat(), op, d.isoformat()), lambda: operators.evaluate_logic(op, utils.serialize_date(e), d))

# --------------------------------------------------------------------------
# 5. through the parser, with the events
# --------------------------------------------------------------------------
parser = hotxlfp.Parser()
events = []
parser.on('callFunction', lambda name, args, setter: events.append(('callFunction', name, repr(args))))
parser.on('callVariable', lambda name, setter: events.append(('callVariable', name)))
parser.set_variable('DZERO', dt(1900, 1, 1))
parser.set_variable('DFEB', dt(1900, 2, 28, 12))
parser.set_variable('DMAR', dt(1900, 3, 1))
parser.set_variable('DTW', dt(2020, 1, 1, 18, 30, 15, 250000))
parser.set_variable('BLANK', None)
parser.set_variable('ERR', error.NOT_AVAILABLE)
parser.set_variable('ARR', [dt(2020, 1, 1), 61, None])
parser.set_variable('TXT', 'x')
NAMES = ['DZERO', 'DFEB', 'DMAR', 'DTW', 'BLANK', 'ERR', 'ARR', 'TXT', 'TRUE', '61', '60.5', '"2020-01-01"', '"61"', 'DATE(2020,1,1)', '{1,2,3}']
for op in ['+', '-', '*', '/', '=', '<>', '<', '>', '<=', '>=', '&', '^']:
    for a in NAMES:
        for b in NAMES:
            f = '%s%s%s' % (a, op, b)
            del events[:]
            show('parse %s' % f, lambda: (parser.parse(f), list(events)))
FORMULAS = [
    'DATE(2020,1,1)+1', 'DATE(2020,1,31)-DATE(2020,1,1)', 'DATE(1900,3,1)-DATE(1900,2,28)', 'DATE(1900,1,1)+59',
    'DATE(1900,1,1)+60', 'DATE(1900,1,1)-1', 'DATEVALUE("2020-01-01")=DATE(2020,1,1)', 'N(DTW)=DTW', 'N(DMAR)=61',
    'DAYS(DTW,DMAR)=DTW-DMAR', 'DAYS(DMAR,DFEB)', 'DATEVALUE(DTW+1)-DATEVALUE(DTW)', 'DTW+1>DTW', 'DTW-1<DTW',
    'IF(DTW>DMAR,"later","earlier")', 'IF(BLANK=DZERO,1,2)', 'IF(BLANK<DMAR,1,2)', '-DTW', '+DTW', 'DTW%', '(DTW-DMAR)*2',
    'SUM(DTW-DMAR,1)', 'DATEVALUE("2020-01-01")+1', 'YEAR(DTW+366)', 'DAY(DMAR-1)', 'DAY(DMAR-2)', '1/0', 'DTW/0', 'DTW/BLANK', 'BLANK/BLANK',
]
for f in FORMULAS:
    del events[:]
    show('parse %s' % f, lambda: (parser.parse(f), list(events)))

print('evaluations: %d' % COUNT[0])
