# -*- coding: utf-8 -*-
"""
Probe for C10 refactoring 1 (shared emit-with-setter helper in hotxlfp.parser.Parser).

Prints one line per evaluation: listener mode, input, repr() of the outcome and the
events seen (with their payloads), so that the transcript can be compared between the
unchanged and the refactored tree.
"""
from __future__ import print_function
import os
import sys

sys.path.insert(0, os.path.dirname(os.path.dirname(os.path.abspath(__file__))))

import hotxlfp  # noqa: E402
from hotxlfp.formulas import error as xlerror  # noqa: E402

COUNT = [0]

SHEET = {
    (0, 0): 1, (0, 1): 2, (0, 2): 3, (0, 3): 'x',
    (1, 0): 4.5, (1, 1): 0, (1, 2): False, (1, 3): '',
    (2, 0): True, (2, 1): 'text', (2, 2): -7, (2, 3): None,
    (3, 0): xlerror.DIV_ZERO, (3, 1): '12', (3, 2): 1e10, (3, 3): 0.1,
    (9, 26): 'AA10', (99, 701): 'ZZ100',
}


def show_parsed(pl):
    return '(%r,%r,%r)' % (pl.index, pl.label, pl.is_absolute)


def show_cell(cell):
    return '%s[row=%s col=%s]' % (cell.label, show_parsed(cell.row), show_parsed(cell.col))


def sheet_range(start, end):
    rows = []
    for r in range(start.row.index, min(end.row.index, start.row.index + 5) + 1):
        row = []
        for c in range(start.col.index, min(end.col.index, start.col.index + 5) + 1):
            row.append(SHEET.get((r, c)))
        rows.append(row)
    return rows


class Harness(object):

    def __init__(self, mode):
        self.mode = mode
        self.events = []
        self.kept_setters = []
        self.parser = hotxlfp.Parser()
        self.parser.set_variable('x', 10).set_variable('y', 2.5).set_variable('name', 'bob')
        self.parser.set_variable('zero', 0).set_variable('none', None).set_variable('flag', False)
        self.parser.set_variable('empty', '').set_variable('err', xlerror.NUM)
        self.parser.set_function('TWICE', lambda v: v * 2)
        self.parser.set_function('NOARGS', lambda: 42)
        self.parser.set_function('NADA', lambda *a: None)
        self.parser.set_function('COUNTARGS', lambda *a: len(a))
        self.parser.set_function('ECHO', lambda *a: list(a))
        self.parser.set_function('RAISEREF', self._raise_ref)
        self.parser.set_function('RAISEVALUEERROR', self._raise_value_error)
        self.parser.set_function('RETNA', lambda *a: xlerror.NOT_AVAILABLE)
        self.parser.set_function('SUM', lambda *a: 'custom-sum') if mode == 'shadow' else None
        install = getattr(self, 'install_' + mode)
        install()

    @staticmethod
    def _raise_ref(*a):
        raise xlerror.REF

    @staticmethod
    def _raise_value_error(*a):
        raise ValueError('boom')

    # -- recording listeners -------------------------------------------------
    def rec_cell(self, cell, setter):
        self.events.append('cell ' + show_cell(cell))

    def rec_range(self, start, end, setter):
        self.events.append('range ' + show_cell(start) + '..' + show_cell(end))

    def rec_var(self, name, setter):
        self.events.append('var %r' % (name,))

    def rec_fn(self, name, args, setter):
        self.events.append('fn %r %r' % (name, args))

    def install_recorders(self):
        p = self.parser
        p.on('callCellValue', self.rec_cell)
        p.on('callRangeValue', self.rec_range)
        p.on('callVariable', self.rec_var)
        p.on('callFunction', self.rec_fn)

    # -- modes ----------------------------------------------------------------
    def install_none(self):
        pass

    def install_record(self):
        self.install_recorders()

    def install_shadow(self):
        self.install_sheet()

    def install_sheet(self):
        self.install_recorders()
        p = self.parser

        def cell(cell, setter):
            setter(SHEET.get((cell.row.index, cell.col.index)))

        def rng(start, end, setter):
            setter(sheet_range(start, end))

        def var(name, setter):
            if name == 'fromevent':
                setter(77)
            if name == 'x':
                setter(None)  # leaves the registered value

        p.on('callCellValue', cell)
        p.on('callRangeValue', rng)
        p.on('callVariable', var)

    def install_falsy(self):
        # the last value other than None wins, including 0, False and ''
        self.install_recorders()
        p = self.parser
        falsy = {0: 0, 1: False, 2: '', 3: 0.0, 4: [], 5: None}

        def cell(cell, setter):
            setter(99)
            setter(falsy[cell.col.index % 6])
            setter(None)

        def rng(start, end, setter):
            setter([[1]])
            setter(falsy[start.col.index % 6])
            setter(None)

        def var(name, setter):
            setter('first')
            setter(falsy[len(name) % 6])
            setter(None)

        def fn(name, args, setter):
            if name in ('TWICE', 'ABS', 'NADA', 'RAISEREF', 'RAISEVALUEERROR'):
                setter('first')
                setter(falsy[len(args) % 6])
                setter(None)

        p.on('callCellValue', cell)
        p.on('callRangeValue', rng)
        p.on('callVariable', var)
        p.on('callFunction', fn)

    def install_two(self):
        # two listeners per event: the second one's value stands, unless it is None
        self.install_recorders()
        p = self.parser
        p.on('callCellValue', lambda c, s: s('one:' + c.label))
        p.on('callCellValue', lambda c, s: s(None if c.row.index % 2 else 'two:' + c.label))
        p.on('callRangeValue', lambda a, b, s: s([[a.label, b.label]]))
        p.on('callRangeValue', lambda a, b, s: s(None if a.col.index % 2 else [[b.label, a.label]]))
        p.on('callVariable', lambda n, s: s('v1:' + n))
        p.on('callVariable', lambda n, s: s(None if len(n) % 2 else 'v2:' + n))
        p.on('callFunction', lambda n, a, s: s('f1:' + n))
        p.on('callFunction', lambda n, a, s: s(None if len(a) % 2 else 'f2:' + n))

    def install_errors(self):
        # listeners that hand over error values, or raise
        self.install_recorders()
        p = self.parser

        def cell(cell, setter):
            if cell.col.index == 0:
                setter(xlerror.REF)
            elif cell.col.index == 1:
                raise xlerror.NOT_AVAILABLE
            elif cell.col.index == 2:
                raise KeyError('listener')
            else:
                setter(5)

        def rng(start, end, setter):
            if start.col.index == 0:
                setter(xlerror.VALUE)
            elif start.col.index == 1:
                raise xlerror.NULL
            else:
                raise RuntimeError('#NUM!')

        def var(name, setter):
            if name == 'x':
                setter(xlerror.DIV_ZERO)
            elif name == 'y':
                raise xlerror.NUM
            elif name == 'ghost':
                setter(xlerror.NAME)

        def fn(name, args, setter):
            if name == 'TWICE':
                setter(xlerror.DATA)
            elif name == 'NOARGS':
                raise xlerror.VALUE
            elif name == 'COUNTARGS':
                raise ZeroDivisionError('listener')

        p.on('callCellValue', cell)
        p.on('callRangeValue', rng)
        p.on('callVariable', var)
        p.on('callFunction', fn)

    def install_once(self):
        # one-shot listeners: only the first event of each kind gets a value
        self.install_recorders()
        p = self.parser
        p.once('callCellValue', lambda c, s: s('once-cell'))
        p.once('callRangeValue', lambda a, b, s: s([['once-range']]))
        p.once('callVariable', lambda n, s: s('once-var'))
        p.once('callFunction', lambda n, a, s: s('once-fn'))

    def install_late(self):
        # setters kept and used after the event was handled must not leak anywhere
        self.install_recorders()
        p = self.parser
        keep = self.kept_setters
        p.on('callCellValue', lambda c, s: (keep.append(s), s('cell-now')))
        p.on('callRangeValue', lambda a, b, s: (keep.append(s), s([['range-now']])))
        p.on('callVariable', lambda n, s: keep.append(s))
        p.on('callFunction', lambda n, a, s: keep.append(s))

    def install_ctx(self):
        # listeners registered with a context
        self.install_recorders()
        p = self.parser
        p.on('callCellValue', lambda c, s, bonus=0: s(c.row.index * 100 + c.col.index + bonus), {'bonus': 1000})
        p.on('callRangeValue', lambda a, b, s, tag=None: s([[tag, a.label, b.label]]), {'tag': 'T'})
        p.on('callVariable', lambda n, s, suffix='': s(n + suffix) if n.startswith('q') else None, {'suffix': '!'})
        p.on('callFunction', lambda n, a, s, only=(): s(len(a)) if n in only else None, {'only': ('ECHO', 'SUM')})

    # -- evaluation -----------------------------------------------------------
    def line(self, what, outcome):
        COUNT[0] += 1
        print('%04d %-8s %-44s -> %s || %s' % (COUNT[0], self.mode, what, outcome, ' ; '.join(self.events)))
        del self.events[:]

    def parse(self, formula):
        try:
            outcome = repr(self.parser.parse(formula))
        except BaseException as e:  # parse() is not expected to raise, but say so if it does
            outcome = 'RAISED %s(%s)' % (type(e).__name__, e)
        for s in self.kept_setters:
            s('too-late')
        del self.kept_setters[:]
        self.line(repr(formula), outcome)

    def direct(self, method, *args):
        try:
            outcome = repr(getattr(self.parser, method)(*args))
        except BaseException as e:
            outcome = 'RAISED %s(%s)' % (type(e).__name__, e)
        for s in self.kept_setters:
            s('too-late')
        del self.kept_setters[:]
        self.line('%s%r' % (method, args), outcome)


FORMULAS = [
    # single cells, every spelling
    'A1', 'a1', '$A$1', '$a$1', '$A1', 'A$1', '$b2', 'c$3', 'D4', 'AA10', 'zz100', '$ZZ$100',
    'A0', 'A00', 'B01', 'XFD1048576', 'AAAA99999', ' A1 ', 'A1+B1', 'B1+A1', 'A1&B1&C1', '-A1', '-B2',
    'A1*B1-C1/D4', 'C2=FALSE', 'B2=0', 'D2=""', 'D3', 'A4', 'A4+1', 'B4+1', 'A1>B1', '(A1)', 'A1%',
    # ranges, corners any way round
    'A1:B2', 'B2:A1', 'A2:B1', 'B1:A2', 'a1:b2', '$A$1:$B$2', '$B$2:$A$1', '$A1:B$2', 'B$2:$A1',
    'A$2:$B1', '$B1:A$2', 'A1:A1', '$A$1:A1', 'A1:$A$1', 'C3:C1', 'C1:A1', 'AA10:A1', 'A1:AA10',
    'ZZ100:$A$1', 'A0:B2', 'B2:A0', 'A1:B2:C3', 'A1:', ':A1', 'A1:B', 'A:B', '1:2', 'A1 : B2',
    # variables
    'x', 'y', 'name', 'zero', 'none', 'flag', 'empty', 'err', 'TRUE', 'FALSE', 'NULL', 'true',
    'ghost', 'fromevent', 'x+y', 'y+x', 'x.y', 'ghost.x', 'x.ghost.y', 'qq', 'q_1', 'x&name', '-x', '-name',
    'zero=0', 'flag=FALSE', 'empty=""', 'err+1', 'x+ghost', 'ghost+x',
    # function calls
    'SUM(1,2,3)', 'SUM(A1,B1)', 'SUM(A1:B2)', 'SUM(B2:A1)', 'SUM(A1:B2,C3,x)', 'SUM()', 'PI()', 'NOARGS()',
    'TWICE(4)', 'TWICE(A1)', 'TWICE(x)', 'TWICE(TWICE(A1))', 'TWICE("ab")', 'TWICE()', 'TWICE(1,2)',
    'NADA()', 'NADA(1)', 'NADA(A1,B1)', 'COUNTARGS()', 'COUNTARGS(1)', 'COUNTARGS(1,2)', 'COUNTARGS(1,,2)',
    'COUNTARGS(,)', 'COUNTARGS(,1)', 'COUNTARGS(1,)', 'COUNTARGS(1;2)', 'COUNTARGS(;;)', 'COUNTARGS(1\\2)',
    'ECHO(A1,x,B2:C3,PI())', 'ECHO(ECHO(A1),ECHO(B1,C1))', 'ECHO(x,ECHO(y,ECHO(name)))',
    'ECHO({1,2;3,4})', 'ECHO({A1,B1})', 'ECHO(1,"two",TRUE,NULL)', 'ECHO(#REF!)', 'ECHO(-A1)',
    'RAISEREF()', 'RAISEREF(A1)', 'RAISEVALUEERROR()', 'RAISEVALUEERROR(x)', 'RETNA()', 'RETNA(A1)+1',
    'UNKNOWNFN()', 'UNKNOWNFN(A1,x)', 'unknown.fn(1)', 'ABS(-3)', 'ABS(A1)', 'ABS("z")', 'ABS()',
    'SQRT(-1)', 'LN(0)', 'MAX(A1:C3)', 'MIN(x,y)', 'IF(A1>0,B1,C1)', 'IF(ghost,1,2)', 'AND(TRUE,flag)',
    'CONCATENATE(name,"-",A1)', 'LEN(name)', 'UPPER(name)', 'ROUND(y,0)', 'SUM(A1:B2)+SUM(C1:C3)',
    'SUM(A1,MAX(B1:B3),x)', 'sum(1,2)', 'Sum(1,2)', 'IFERROR(RAISEREF(),x)', 'ISBLANK(A1)', 'ISBLANK(D3)',
    'ISERROR(A4)', 'NOT(flag)', 'TWICE(A1)+TWICE(B1)*TWICE(C1)', 'TWICE(A1)&TWICE(B1)',
    # literals, operators and broken input around references
    '', ' ', '1', '1+', '+1', '1.5', '.5', '2^3', '50%', '"text"', "'text'", '""', '#REF!', '#N/A', '#BOGUS!',
    '1/0', 'A1/0', '{1,2,3}', '{1;2}', '{A1:B2}', '(x', 'x)', 'A1 B1', 'x y', 'SUM(A1', 'SUM A1)', '=A1',
    'A1=B1', 'A1<>B1', 'A1<=B1', 'A1>=B1', 'A1<B1', '!', 'A1!', '$', '$A', '$1', 'A$', '1A', 'A1B',
    'A1.5', 'x.1', 'x1', 'X1', 'x_1', '_x', 'R1C1', 'A1:x', 'x:A1',
]

DIRECT = [
    ('call_cell_value', 'b3'), ('call_cell_value', '$B$3'), ('call_cell_value', 'B$3'),
    ('call_cell_value', 'a0'), ('call_cell_value', 'bad'), ('call_cell_value', ''),
    ('call_cell_value', 'A1:B2'), ('call_cell_value', 'A1\n'), ('call_cell_value', None),
    ('call_cell_value', 12),
    ('call_range_value', 'B2', 'a1'), ('call_range_value', 'a1', 'B2'), ('call_range_value', '$b$2', 'A$1'),
    ('call_range_value', None, 'A1'), ('call_range_value', 'A1', None), ('call_range_value', None, None),
    ('call_range_value', 'A1', 'bad'), ('call_range_value', 'bad', 'A1'), ('call_range_value', '', ''),
    ('call_range_value', 'A1', 7), ('call_range_value', 7, 'A1'),
    ('call_variable', 'x'), ('call_variable', 'none'), ('call_variable', 'ghost'), ('call_variable', 'fromevent'),
    ('call_variable', ''), ('call_variable', None), ('call_variable', 'TRUE'), ('call_variable', 'NULL'),
    ('call_function', 'SUM'), ('call_function', 'SUM', None), ('call_function', 'SUM', []),
    ('call_function', 'SUM', [1, 2]), ('call_function', 'SUM', (1, 2)), ('call_function', 'TWICE', [21]),
    ('call_function', 'TWICE', []), ('call_function', 'TWICE', ['ab']), ('call_function', 'NADA', [1]),
    ('call_function', 'RAISEREF', []), ('call_function', 'RAISEVALUEERROR', [1]), ('call_function', 'RETNA'),
    ('call_function', 'NOPE'), ('call_function', 'NOPE', [1]), ('call_function', None),
    ('call_function', 'sum', [1]), ('call_function', 'NOARGS'), ('call_function', 'NOARGS', [1]),
    ('call_function', 'COUNTARGS', [None, 0, False, '']), ('call_function', 'ECHO', [[1, 2], [3]]),
]

MODES_FULL = ['none', 'record', 'sheet']
MODES_SHORT = ['falsy', 'two', 'errors', 'once', 'late', 'ctx', 'shadow']

SHORT_FORMULAS = [
    'A1', 'B1', 'C1', 'D1', 'E1', 'F1', '$A$2', 'b$2', 'A1+B1', 'A1&B2', 'A1+A1', 'C1+D1',
    'A1:B2', 'B2:A1', 'B1:C2', 'C2:B1', 'C1:D4', 'D1:E1', 'E1:F9', 'F2:F1', 'SUM(A1:B2)', 'SUM(B1:C2)',
    'x', 'y', 'xy', 'ghost', 'qq', 'name', 'none', 'x+y', 'ghost+1', 'abc', 'abcd', 'abcde', 'abcdef',
    'TWICE(4)', 'TWICE(A1)', 'TWICE()', 'TWICE(1,2)', 'TWICE(1,2,3)', 'ABS(-1)', 'ABS(1,2,3,4)', 'ABS(1,2,3,4,5)',
    'NADA()', 'NADA(1)', 'NADA(1,2,3,4,5)', 'RAISEREF()', 'RAISEREF(1,2)', 'RAISEVALUEERROR(1,2,3)',
    'NOARGS()', 'COUNTARGS(1,2)', 'ECHO(A1,x)', 'ECHO(A1:B2,TWICE(B1))', 'SUM(1,2)', 'SUM(A1,x)', 'PI()',
    'UNKNOWNFN(A1)', 'ECHO(A1,B1,C1,D1)', 'ECHO(x,A1:B2,NOARGS(),y)', 'TWICE(TWICE(TWICE(1)))',
    'IF(A1,B1,C1)', 'A1=B1', '-A1', 'A1%', '{A1,x}',
]


def main():
    for mode in MODES_FULL:
        h = Harness(mode)
        for f in FORMULAS:
            h.parse(f)
        for d in DIRECT:
            h.direct(*d)
    for mode in MODES_SHORT:
        h = Harness(mode)
        for f in SHORT_FORMULAS:
            h.parse(f)
        for d in DIRECT:
            h.direct(*d)
    # a fresh parser per formula behaves like a reused one: no state is carried over
    for f in ['A1', 'A1:B2', 'x', 'TWICE(A1)', 'ghost', 'ECHO(B2:A1,x)']:
        Harness('sheet').parse(f)
        Harness('once').parse(f)
    # listeners removed again: back to blank cells and ranges
    h = Harness('record')
    lst = lambda c, s: s('on')
    h.parser.on('callCellValue', lst)
    h.parse('A1')
    h.parser.off('callCellValue', lst)
    h.parse('A1')
    h.parser.off('callCellValue')
    h.parse('A1')
    h.parse('A1:B2')
    print('evaluations: %d' % COUNT[0])


if __name__ == '__main__':
    main()
