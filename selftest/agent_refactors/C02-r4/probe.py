# -*- coding: utf-8 -*-
"""
Probe for C02 refactoring 4 (formulas/error.py: the message -> error table and the tuple of shared error values
are module-level constants instead of being rebuilt on every call of from_message / clear_tracebacks).

Prints a deterministic transcript: one line per evaluation with its input, repr() of the outcome, the events
the listeners saw and the state (traceback / context) the shared error values were left in.
"""
import os
import sys
import io
import contextlib

sys.path.insert(0, os.path.dirname(os.path.dirname(os.path.abspath(__file__))))

import hotxlfp  # noqa: E402
from hotxlfp import Parser  # noqa: E402
from hotxlfp.formulas import error as xlerror  # noqa: E402

COUNT = [0]
SHARED = [
    ('ERROR', xlerror.ERROR), ('DIV_ZERO', xlerror.DIV_ZERO), ('NAME', xlerror.NAME),
    ('NOT_AVAILABLE', xlerror.NOT_AVAILABLE), ('NULL', xlerror.NULL), ('NUM', xlerror.NUM),
    ('REF', xlerror.REF), ('VALUE', xlerror.VALUE), ('DATA', xlerror.DATA),
]


def which(value):
    """name of the shared instance `value` is (identity), or None"""
    for name, inst in SHARED:
        if value is inst:
            return name
    return None


def show(value):
    """repr() without memory addresses; error values show which shared instance they are"""
    if isinstance(value, xlerror.XLError):
        return 'XLError(%r as %s)' % (str(value), which(value))
    if isinstance(value, list):
        return '[' + ', '.join(show(v) for v in value) + ']'
    if isinstance(value, tuple):
        return '(' + ', '.join(show(v) for v in value) + (',)' if len(value) == 1 else ')')
    if isinstance(value, dict):
        return '{' + ', '.join('%s: %s' % (show(k), show(value[k])) for k in sorted(value, key=repr)) + '}'
    if isinstance(value, BaseException):
        return '%s(%s)' % (type(value).__name__, ', '.join(show(a) for a in value.args))
    if callable(value) and not isinstance(value, type):
        return '<callable %s>' % getattr(value, '__name__', type(value).__name__)
    return repr(value)


def dirty():
    """which shared error values carry a traceback (T), a context (C) or a cause (K)"""
    out = []
    for name, inst in SHARED:
        flags = ''
        if inst.__traceback__ is not None:
            flags += 'T'
        if inst.__context__ is not None:
            flags += 'C'
        if inst.__cause__ is not None:
            flags += 'K'
        if flags:
            out.append(name + ':' + flags)
    return out


class Recorder(object):
    def __init__(self):
        self.events = []

    def add(self, text):
        self.events.append(text)

    def take(self):
        events, self.events = self.events, []
        return events


def evaluate(tag, parser, formula, rec):
    COUNT[0] += 1
    with contextlib.redirect_stderr(io.StringIO()):
        try:
            outcome = show(parser.parse(formula))
        except BaseException as exc:
            outcome = 'RAISED ' + show(exc)
    print('%04d %-9s %-42r -> %s | events=%s | dirty=%s' % (
        COUNT[0], tag, formula, outcome, rec.take(), dirty()))


# ---------------------------------------------------------------------------------------------------------
# part 1: from_message and clear_tracebacks on their own
# ---------------------------------------------------------------------------------------------------------
class StrIs(object):
    """an object whose str() is a given text"""

    def __init__(self, text):
        self.text = text

    def __str__(self):
        return self.text

    def __repr__(self):
        return 'StrIs(%r)' % (self.text,)


class StrRaises(object):
    def __str__(self):
        raise ValueError('no text for you')

    def __repr__(self):
        return 'StrRaises()'


class StrNotText(object):
    def __str__(self):
        return 5

    def __repr__(self):
        return 'StrNotText()'


class StrSubclass(str):
    def __repr__(self):
        return 'StrSubclass(%s)' % str.__repr__(self)


class OddStr(str):
    """a str whose hash/eq are those of another text: from_message must not see it (it calls str() first)"""

    def __str__(self):
        return '#NUM!'

    def __repr__(self):
        return 'OddStr(%s)' % str.__repr__(self)


MESSAGES = [
    '#ERROR!', '#DIV/0!', '#NAME?', '#N/A', '#NULL!', '#NUM!', '#REF!', '#VALUE!', '#GETTING_DATA',
    '', ' ', '#', '#n/a', '#N/A ', ' #N/A', '#N/A\n', '#NA', 'N/A', '#DIV/0', '#DIV/0!!', '#NAME', '#NAME!',
    '#VALUE?', '#value!', '#REF', '#GETTING_DATA!', '#getting_data', '#FOO!', 'ERROR', 'anything', u'#N∕A',
    '#NULL!\x00', 'None', 'True', '0',
    None, True, False, 0, 1, -1, 1.5, float('inf'), 10 ** 30, 1j, b'#N/A', bytearray(b'#NUM!'),
    (), ('#N/A',), [], ['#N/A'], {}, {'#N/A': 1}, set(), frozenset(['#N/A']),
    xlerror.ERROR, xlerror.DIV_ZERO, xlerror.NAME, xlerror.NOT_AVAILABLE, xlerror.NULL, xlerror.NUM,
    xlerror.REF, xlerror.VALUE, xlerror.DATA,
    xlerror.XLError('#N/A'), xlerror.XLError('#CUSTOM!'), xlerror.XLError(), xlerror.XLError('#N/A', 'extra'),
    xlerror.XLError(xlerror.NUM), xlerror.XLError(None),
    ValueError('#VALUE!'), ValueError('math domain error'), ValueError(), ValueError('#NUM!', 2),
    KeyError('#N/A'), KeyError(), ZeroDivisionError('division by zero'), ZeroDivisionError('#DIV/0!'),
    TypeError('#REF!'), SyntaxError('#NAME?'), SyntaxError('Function not found for X'), RuntimeError('#NULL!'),
    Exception('#GETTING_DATA'), Exception('#ERROR!'), Exception(xlerror.REF), StopIteration('#N/A'),
    OSError(2, '#N/A'), AttributeError('#NUM!'), IndexError('#DIV/0!'), RecursionError('#VALUE!'),
    UnicodeDecodeError('utf-8', b'x', 0, 1, '#N/A'), AssertionError('#NAME?'), MemoryError('#NUM!'),
    StrIs('#N/A'), StrIs('#NUM!'), StrIs(''), StrIs('#nope'), StrIs(StrSubclass('#REF!')),
    StrSubclass('#DIV/0!'), StrSubclass('#other'), OddStr('#N/A'), OddStr('x'),
    StrRaises(), StrNotText(),
    ValueError, xlerror.XLError, str, len,
]


def part_from_message():
    for round_no in (1, 2):
        for message in MESSAGES:
            COUNT[0] += 1
            try:
                got = xlerror.from_message(message)
                outcome = show(got)
            except Exception as exc:
                outcome = 'RAISED ' + show(exc)
            print('%04d from_msg%d %-48s -> %s' % (COUNT[0], round_no, show(message), outcome))
    # result is always one of the shared instances, and str() of it round-trips
    for name, inst in SHARED:
        COUNT[0] += 1
        again = xlerror.from_message(xlerror.from_message(str(inst)))
        print('%04d roundtrip  %-14s -> %s same=%s' % (COUNT[0], name, show(again), again is inst))


def raise_and_catch(inst, nested_in=None, cause=None):
    try:
        if nested_in is not None:
            try:
                raise nested_in
            except Exception:
                raise inst
        elif cause is not None:
            raise inst from cause
        else:
            raise inst
    except Exception as caught:
        return caught


def part_clear_tracebacks():
    xlerror.clear_tracebacks()
    print('start dirty=%s' % dirty())
    for name, inst in SHARED:
        COUNT[0] += 1
        caught = raise_and_catch(inst)
        before = dirty()
        ret = xlerror.clear_tracebacks()
        print('%04d clear     raise %-14s caught_same=%s before=%s ret=%r after=%s' % (
            COUNT[0], name, caught is inst, before, ret, dirty()))
    for name, inst in SHARED:
        COUNT[0] += 1
        raise_and_catch(inst, nested_in=ValueError('outer'))
        before = dirty()
        xlerror.clear_tracebacks()
        print('%04d clear     nested %-13s before=%s after=%s' % (COUNT[0], name, before, dirty()))
    for (name, inst), (name2, inst2) in zip(SHARED, SHARED[1:] + SHARED[:1]):
        COUNT[0] += 1
        raise_and_catch(inst, nested_in=inst2)
        before = dirty()
        xlerror.clear_tracebacks()
        print('%04d clear     %s inside %s before=%s after=%s' % (COUNT[0], name, name2, before, dirty()))
    for name, inst in SHARED[:3]:
        COUNT[0] += 1
        raise_and_catch(inst, cause=KeyError('why'))
        before = dirty()
        xlerror.clear_tracebacks()
        after = dirty()  # the cause is not something clear_tracebacks drops
        inst.__cause__ = None
        inst.__suppress_context__ = False
        print('%04d clear     %s with cause before=%s after=%s reset=%s' % (COUNT[0], name, before, after, dirty()))
    # several at once, cleared by one call; a second call is a no-op
    for name, inst in SHARED:
        raise_and_catch(inst)
    COUNT[0] += 1
    before = dirty()
    xlerror.clear_tracebacks()
    mid = dirty()
    xlerror.clear_tracebacks()
    print('%04d clear     all before=%s after=%s again=%s' % (COUNT[0], before, mid, dirty()))
    # an unshared error value is not touched
    COUNT[0] += 1
    own = raise_and_catch(xlerror.XLError('#N/A'))
    xlerror.clear_tracebacks()
    print('%04d clear     private instance keeps traceback=%s' % (COUNT[0], own.__traceback__ is not None))
    own.__traceback__ = None


# ---------------------------------------------------------------------------------------------------------
# part 2: through the parser
# ---------------------------------------------------------------------------------------------------------
TABLE = {
    'A1': 1, 'A2': 0, 'A3': 'text', 'A4': None, 'A5': True,
    'B1': xlerror.NOT_AVAILABLE, 'B2': xlerror.DIV_ZERO, 'B3': xlerror.NAME, 'B4': xlerror.NULL,
    'B5': xlerror.NUM, 'B6': xlerror.REF, 'B7': xlerror.VALUE, 'B8': xlerror.DATA, 'B9': xlerror.ERROR,
    'C1': xlerror.XLError('#N/A'), 'C2': xlerror.XLError('#CUSTOM!'), 'C3': '#N/A', 'C4': '#DIV/0!',
}


def build_parser(rec, debug=False):
    p = Parser(debug=debug)

    def on_cell(cell, setter):
        rec.add('cell %s' % cell.label)
        if cell.label == 'E1':
            raise xlerror.REF
        if cell.label == 'E2':
            raise ValueError('#NUM!')
        if cell.label == 'E3':
            raise ValueError('cell listener failed')
        if cell.label == 'E4':
            raise xlerror.XLError('#N/A')
        if cell.label == 'E5':
            raise KeyError('#N/A')
        setter(TABLE.get(cell.label))

    def on_range(start, end, setter):
        rec.add('range %s:%s' % (start.label, end.label))
        if start.label == 'E1':
            raise xlerror.NULL
        rows = []
        for r in range(start.row.index, end.row.index + 1):
            row = []
            for c in range(start.col.index, end.col.index + 1):
                row.append(TABLE.get('%s%d' % ('ABCDEFGH'[c] if c < 8 else 'Z', r + 1)))
            rows.append(row)
        setter(rows)

    def on_variable(name, setter):
        rec.add('var %s' % name)
        if name == 'badvar':
            raise xlerror.VALUE
        if name == 'badvar2':
            raise RuntimeError('#NULL!')
        if name == 'errvar':
            setter(xlerror.NUM)

    def on_function(name, args, setter):
        rec.add('fn %s %s' % (name, show(args)))
        if name == 'TOERR':
            setter(xlerror.DATA)
        if name == 'LRAISE':
            raise xlerror.DIV_ZERO
        if name == 'LRAISE2':
            raise ZeroDivisionError('#DIV/0!')

    p.on('callCellValue', on_cell)
    p.on('callRangeValue', on_range)
    p.on('callVariable', on_variable)
    p.on('callFunction', on_function)

    def raiser(inst):
        def fn(*args):
            raise inst
        return fn

    def raise_text(text=None, *rest):
        raise ValueError(text)

    def raise_nested(*args):
        try:
            raise xlerror.NUM
        except xlerror.XLError:
            raise xlerror.REF

    def raise_from(*args):
        try:
            {}['k']
        except KeyError:
            raise xlerror.NAME

    def returns(inst):
        def fn(*args):
            return inst
        return fn

    for name, inst in SHARED:
        p.set_function('RAISE_' + name, raiser(inst))
        p.set_function('RETURN_' + name, returns(inst))
        p.set_variable('v_' + name.lower(), inst)
    p.set_function('RAISE_PRIVATE', raiser(xlerror.XLError('#N/A')))
    p.set_function('RAISE_CUSTOM', raiser(xlerror.XLError('#CUSTOM!')))
    p.set_function('RAISE_EMPTY', raiser(xlerror.XLError()))
    p.set_function('RETURN_PRIVATE', returns(xlerror.XLError('#NUM!')))
    p.set_function('RETURN_CUSTOM', returns(xlerror.XLError('#CUSTOM!')))
    p.set_function('RAISE_TEXT', raise_text)
    p.set_function('RAISE_NESTED', raise_nested)
    p.set_function('RAISE_FROM', raise_from)
    p.set_function('RAISE_TYPEERROR', raiser(TypeError('#REF!')))
    p.set_function('RAISE_STRRAISES', raiser(ValueError(StrRaises())))
    p.set_function('TOERR', returns(1))
    p.set_function('LRAISE', returns(1))
    p.set_function('LRAISE2', returns(1))
    p.set_function('ID', lambda *a: a[0] if a else None)
    p.set_variable('v_private', xlerror.XLError('#REF!'))
    p.set_variable('v_custom', xlerror.XLError('#CUSTOM!'))
    p.set_variable('v_text', '#N/A')
    p.set_variable('one', 1)
    return p


FORMULAS = [
    # error literals (known, unknown, shapes the lexer accepts)
    '#ERROR!', '#DIV/0!', '#NAME?', '#N/A', '#NULL!', '#NUM!', '#REF!', '#VALUE!', '#GETTING_DATA',
    '#FOO!', '#FOO?', '#FOO', '#N/A!', '#N/A?', '#DIV/0', '#1', '#', '#n/a', '# N/A', '#NUM!!', '#NUM!+1',
    '1+#N/A', '#N/A+#REF!', '#REF!+#N/A', '-#NUM!', '#VALUE!&"x"', '"x"&#VALUE!', '#N/A=#N/A', '#N/A<1',
    '(#NULL!)', '{#N/A,1}', '{1,#DIV/0!}', 'SUM(#N/A)', 'SUM(1,#REF!)', 'IFERROR(#N/A,"caught")',
    'IFERROR(#GETTING_DATA,"caught")', 'IFERROR(#FOO!,"caught")', 'ISERROR(#NUM!)', 'ISERR(#N/A)', 'ISNA(#N/A)',
    'ISNA(#REF!)', 'ERROR.TYPE(#N/A)', 'ERROR.TYPE(#NULL!)', 'ERROR.TYPE(#DIV/0!)', 'ERROR.TYPE(#VALUE!)',
    'ERROR.TYPE(#REF!)', 'ERROR.TYPE(#NAME?)', 'ERROR.TYPE(#NUM!)', 'ERROR.TYPE(#GETTING_DATA)',
    'ERROR.TYPE(#ERROR!)', 'ERROR.TYPE(1)', 'IF(#N/A,1,2)', 'AND(#VALUE!,TRUE)', 'NOT(#REF!)',
    # computed errors
    '1/0', '0/0', '1/0+1', '1/(1-1)', 'MOD(1,0)', 'SQRT(-1)', 'LN(0)', 'LN(-1)', 'LOG(0)', 'ACOS(2)', 'ASIN(2)',
    '"a"+1', '"a"*"b"', '-"a"', 'ABS("a")', 'SUM("a")', 'POWER(0,-1)', '10^400*10^400', 'FACT(-1)', 'EXP(1000)',
    'VLOOKUP(1,{2,3},1)', 'MATCH(9,{1,2,3},0)', 'INDEX({1,2},5)', 'CHOOSE(9,1,2)', 'DATE("a",1,1)', 'VALUE("a")',
    'AVERAGE()', 'MAX()', 'MIN("a")', 'ROUND("a",1)', 'LEFT("abc",-1)', 'MID("abc",0,1)', 'REPT("a",-1)',
    'HEX2DEC("zz")', 'BIN2DEC(2)', 'SUM(1,2', 'SUM)', '1+', '*1', '1 2', '"a', 'A1:', ':A1', '1:2', 'NOFUNC()',
    'NOFUNC(1/0)', 'novar', 'novar+1/0', '1/0+novar', '@', '!', '1!', 'a b',
    # variables that hold error values
    'v_error', 'v_div_zero', 'v_name', 'v_not_available', 'v_null', 'v_num', 'v_ref', 'v_value', 'v_data',
    'v_private', 'v_custom', 'v_text', 'v_num+1', '1+v_ref', 'v_custom+1', 'v_custom&"x"', 'ID(v_custom)',
    'IFERROR(v_private,"caught")', 'IFERROR(v_custom,"caught")', 'ERROR.TYPE(v_private)', 'ERROR.TYPE(v_custom)',
    'badvar', 'badvar2', 'errvar', 'errvar+1', 'IFERROR(badvar,1)', 'IFERROR(errvar,1)',
    # cells and ranges that hold / raise error values
    'A1', 'A2', 'A1/A2', 'A3+1', 'A4', 'B1', 'B2', 'B3', 'B4', 'B5', 'B6', 'B7', 'B8', 'B9', 'C1', 'C2', 'C3',
    'C4', 'B1+1', 'B1+B2', 'B2+B1', 'C1+1', 'C2+1', 'C3+1', 'IFERROR(B5,"caught")', 'IFERROR(C2,"caught")',
    'E1', 'E2', 'E3', 'E4', 'E5', 'IFERROR(E1,1)', 'E1:E2', 'A1:B2', 'B1:B9', 'SUM(B1:B9)', 'SUM(A1:A5)',
    'SUM(A1:B2)', 'COUNT(B1:B9)', 'SUM(C1:C4)', 'A1:C1', 'MAX(A1:A2)/A2', 'ID(B1:B3)',
    # host functions raising / returning error values
    'RAISE_ERROR()', 'RAISE_DIV_ZERO()', 'RAISE_NAME()', 'RAISE_NOT_AVAILABLE()', 'RAISE_NULL()', 'RAISE_NUM()',
    'RAISE_REF()', 'RAISE_VALUE()', 'RAISE_DATA()', 'RAISE_PRIVATE()', 'RAISE_CUSTOM()', 'RAISE_EMPTY()',
    'RETURN_ERROR()', 'RETURN_DIV_ZERO()', 'RETURN_NAME()', 'RETURN_NOT_AVAILABLE()', 'RETURN_NULL()',
    'RETURN_NUM()', 'RETURN_REF()', 'RETURN_VALUE()', 'RETURN_DATA()', 'RETURN_PRIVATE()', 'RETURN_CUSTOM()',
    'RAISE_NUM()+1', '1+RAISE_NUM()', 'RAISE_NUM()+RAISE_REF()', 'RAISE_CUSTOM()+1', 'RAISE_CUSTOM()&"x"',
    'ID(RAISE_CUSTOM())', 'ID(RAISE_NUM())', 'IFERROR(RAISE_REF(),"caught")', 'IFERROR(RAISE_CUSTOM(),"caught")',
    'ISERROR(RAISE_EMPTY())', 'ERROR.TYPE(RAISE_DATA())', 'ERROR.TYPE(RAISE_PRIVATE())',
    'RAISE_TEXT()', 'RAISE_TEXT("#N/A")', 'RAISE_TEXT("#NUM!")', 'RAISE_TEXT("#DIV/0!")', 'RAISE_TEXT("#REF!")',
    'RAISE_TEXT("#VALUE!")', 'RAISE_TEXT("#NAME?")', 'RAISE_TEXT("#NULL!")', 'RAISE_TEXT("#GETTING_DATA")',
    'RAISE_TEXT("#ERROR!")', 'RAISE_TEXT("#other")', 'RAISE_TEXT("")', 'RAISE_TEXT(1)', 'RAISE_TEXT(#N/A)',
    'RAISE_TEXT("#N/A")+1', 'IFERROR(RAISE_TEXT("#N/A"),"caught")', 'ISNA(RAISE_TEXT("#N/A"))',
    'ERROR.TYPE(RAISE_TEXT("#NUM!"))', 'RAISE_NESTED()', 'RAISE_NESTED()+1', 'RAISE_FROM()', 'ID(RAISE_FROM())',
    'RAISE_TYPEERROR()', 'RAISE_STRRAISES()', 'ID(RAISE_STRRAISES())', 'ID(1,RAISE_NUM(),RAISE_TEXT("#REF!"))',
    # listeners replacing values by error values / raising error values
    'TOERR()', 'TOERR()+1', 'IFERROR(TOERR(),"caught")', 'LRAISE()', 'LRAISE()+1', 'IFERROR(LRAISE(),1)', 'LRAISE2()',
    'ID(LRAISE2())', 'ID(E1)', 'ID(E2)', 'ID(badvar)',
    # non-error evaluations interleaved, they must not be disturbed
    '', '1', '1+1', '"text"', 'TRUE', 'one', 'one+A1', 'SUM(1,2,3)', 'ID(5)', 'IFERROR(1,2)', '{1,2}', 'A1&"x"',
]


def part_parser():
    rec = Recorder()
    p1 = build_parser(rec)
    for f in FORMULAS:
        evaluate('p1', p1, f, rec)
    p2 = build_parser(rec, debug=True)
    for f in FORMULAS:
        evaluate('p2dbg', p2, f, rec)
    # a fresh parser for each formula
    for f in FORMULAS[::5]:
        evaluate('fresh', build_parser(rec), f, rec)
    # a parser without anything registered
    bare = Parser()
    for f in FORMULAS[:120:2]:
        evaluate('bare', bare, f, rec)
    # the long-lived parser once more, backwards
    for f in FORMULAS[::-3]:
        evaluate('p1back', p1, f, rec)
    # the error raising hook of the grammar, directly
    for message in MESSAGES[:40] + [ValueError('#NUM!'), xlerror.XLError('#N/A'), StrIs('#REF!')]:
        COUNT[0] += 1
        try:
            outcome = show(p1._throw_error(message))
        except Exception as exc:
            outcome = 'RAISED ' + show(exc)
        leftover = dirty()
        xlerror.clear_tracebacks()
        print('%04d throw     %-40s -> %s | dirty=%s cleared=%s' % (
            COUNT[0], show(message), outcome, leftover, dirty()))
    print('p1 variables:', sorted(p1.variables))
    print('p1 functions:', len(p1.functions))
    print('p1 listener table:', sorted((k, len(v)) for k, v in p1._e.items()))
    print('bare listener table:', sorted((k, len(v)) for k, v in bare._e.items()))


def main():
    print('public names of the error module:', sorted(n for n in vars(xlerror) if not n.startswith('_')))
    part_from_message()
    part_clear_tracebacks()
    part_parser()
    part_from_message()
    part_clear_tracebacks()
    print('shared values:', [(name, str(inst), inst.args) for name, inst in SHARED])
    print('table unchanged:', show(TABLE))
    print('final dirty=%s' % dirty())
    print('evaluations:', COUNT[0])


if __name__ == '__main__':
    main()
