# -*- coding: utf-8 -*-
"""Probe for C14 refactoring 4 (precomputed date constants and month / weekday lookup tables).
Deterministic transcript."""
import os
import sys
import random
import datetime

sys.path.insert(0, os.path.dirname(os.path.dirname(os.path.abspath(__file__))))

import hotxlfp
from hotxlfp.formulas import dateandtime, error, utils

COUNT = [0]


def show(value):
    if isinstance(value, error.XLError):
        return 'XLError(%s)' % str(value)
    if isinstance(value, dict):
        return '{' + ', '.join('%r: %s' % (k, show(value[k])) for k in sorted(value)) + '}'
    if isinstance(value, (list, tuple)):
        return type(value).__name__ + '[' + ', '.join(show(v) for v in value) + ']'
    return repr(value)


CELLS = {'A1': datetime.datetime(2019, 10, 6), 'A2': datetime.datetime(2020, 2, 29, 23, 59, 59),
         'A3': 1, 'A4': None, 'A5': 43000.75, 'A6': '2021-03-04T05:06:07', 'A7': True, 'A8': 'text',
         'A9': 60, 'A10': -3}


def make_parser():
    p = hotxlfp.Parser()
    events = []

    def on_function(name, args, setter):
        events.append('%s(%s)' % (name, ', '.join(show(a) for a in args)))

    def on_cell(cell, setter):
        events.append('cell:%s' % cell.label)
        setter(CELLS.get(cell.label))

    p.on('callFunction', on_function)
    p.on('callCellValue', on_cell)
    return p, events


def ev(p, events, formula, tag='p1'):
    del events[:]
    out = p.parse(formula)
    COUNT[0] += 1
    print('%s | %s => %s | events: %s' % (tag, formula, show(out), ' ; '.join(events)))


def direct(fn, *args, **kwargs):
    COUNT[0] += 1
    try:
        out = show(fn(*args, **kwargs))
    except Exception as e:  # noqa
        out = 'raised %s: %s' % (type(e).__name__, e)
    shown = [show(a) for a in args] + ['%s=%s' % (k, show(kwargs[k])) for k in sorted(kwargs)]
    print('direct | %s(%s) => %s' % (fn.__name__, ', '.join(shown), out))


def main():
    p1, e1 = make_parser()
    p2, e2 = make_parser()
    dt = datetime.datetime
    utc = datetime.timezone.utc

    # --- utils.parse_date / utils.serialize_date, directly -----------------------------------
    values = [0, 0.0, -0.0, 0.25, 0.999999, 1, 1.0, 1.5, 2, 31, 32, 59, 59.5, 60, 60.0, 60.000001, 60.5, 61, 61.5, 62,
              366, 367, 1000, 25569, 25569.5, 36526, 43000, 43000.75, 43831.999988425926, 73051, 2958465, 2958466,
              3000000, 1e10, 1e20, -1, -0.5, -1e-9, -1e20, float('inf'), float('-inf'), float('nan'),
              True, False, None, '', ' ', 'abc', '0', '1', '60', '61', '61.5', '-5', '1e3', 'nan', 'inf', '1,5',
              '2019-10-06', '2019-10-06T10:11:12', '2019-10-06T10:11:12.5', '2019-10-06T10:11:12Z',
              '2019-10-06T10:11:12+02:00', '1900-01-01', '1900-02-28', '1900-03-01', '1899-12-31', '1800-06-15',
              '0001-01-01', '9999-12-31T23:59:59', '8/22/2011', '22-MAY-2011', '2011/02/23', '10:11:12', '13/13/2013',
              '2019-02-30', 2 + 3j, [1], (2,), [], {}, b'2019-10-06', error.NUM, error.VALUE, error.NOT_AVAILABLE,
              dt(1900, 1, 1), dt(1900, 1, 1, 0, 0, 1), dt(1900, 1, 2), dt(1900, 2, 28), dt(1900, 2, 28, 23, 59, 59),
              dt(1900, 3, 1), dt(1900, 3, 1, 0, 0, 0, 1), dt(1900, 3, 2), dt(1899, 12, 31), dt(1800, 1, 1), dt(1, 1, 1),
              dt(1970, 1, 1), dt(2000, 2, 29), dt(2019, 10, 6, 10, 11, 12), dt(2019, 10, 6, 10, 11, 12, 345678),
              dt(9999, 12, 31, 23, 59, 59), dt(2020, 1, 1, tzinfo=utc), datetime.date(2020, 1, 1)]
    for v in values:
        direct(utils.parse_date, v)
        direct(utils.serialize_date, v)
    # round trips over whole-day and fractional serial numbers
    rnd = random.Random(14004)
    serials = list(range(0, 70)) + [rnd.randint(62, 2958465) for _ in range(40)] + \
        [round(rnd.uniform(0, 80), 6) for _ in range(20)] + [round(rnd.uniform(80, 2958465), 6) for _ in range(20)]
    for s in serials:
        COUNT[0] += 1
        d = utils.parse_date(s)
        print('roundtrip | %r -> %s -> %s | ymd %d-%d-%d hms %d:%d:%d' % (
            s, show(d), show(utils.serialize_date(d)), d.year, d.month, d.day, d.hour, d.minute, d.second))
    print('reference dates: %r %r' % (utils.date_1900, utils.epoch))

    # --- components through the parser -------------------------------------------------------
    sources = ['DATE(2020,2,29)', 'DATE(1900,1,1)', 'DATE(1900,3,1)', 'DATE(9999,12,31)', 'DATE(0,1,1)', 'DATE(1899,12,31)',
               'DATE(99,6,15)', 'TIME(23,59,58)', 'TIME(0,0,0)', 'TIME(7,8,9)', '0', '1', '59', '60', '61', '62', '366',
               '43000', '43000.75', '2958465', '2958466', '-1', '0.5', '"2019-10-06T10:11:12"', '"1999-12-31T23:59:59"',
               '"2019-10-06"', '"8/22/2011"', '"abc"', '""', 'TRUE', 'FALSE', '', '1/0', '#N/A', 'A1', 'A2', 'A3', 'A4',
               'A5', 'A6', 'A7', 'A8', 'A9', 'A10', '{61,62}', '"61"', 'DATE(2019,10,6)+1.5', '61-1']
    for src in sources:
        for fn in ('YEAR', 'MONTH', 'DAY', 'HOUR', 'MINUTE', 'SECOND'):
            ev(p1, e1, '%s(%s)' % (fn, src))
    for src in sources:
        ev(p1, e1, 'DATEVALUE(%s)' % src)
        ev(p1, e1, 'TIMEVALUE(%s)' % src)
        ev(p1, e1, 'N(%s)' % src)
        ev(p1, e1, 'DAYS(%s, DATE(1900,1,1))' % src)
        ev(p1, e1, 'DAYS(DATE(2020,2,29), %s)' % src)
        ev(p1, e1, 'DATEDIF(%s, DATE(2020,2,29), "d")' % src)

    # --- WEEKDAY -----------------------------------------------------------------------------
    week = ['DATE(2008,2,%d)' % d for d in range(11, 18)] + ['"2/14/2008"', '1', '60', '61', '2958465', 'A1', 'A2']
    types = ['', ', 1', ', 2', ', 3', ', 0', ', 4', ', 11', ', -1', ', 1.0', ', 2.5', ', TRUE', ', FALSE', ', "1"', ', "x"',
             ', ', ', #N/A', ', A3', ', A4']
    for w in week:
        for t in types:
            ev(p1, e1, 'WEEKDAY(%s%s)' % (w, t))
    for w in ['"abc"', '-1', '', '1/0', 'A8', 'A4']:
        for t in ['', ', 2', ', 9']:
            ev(p1, e1, 'WEEKDAY(%s%s)' % (w, t))
    for wd in range(7):
        for rt in (1, 2, 3, 1.0, True, 0, None, '1', 17):
            direct(dateandtime.WEEKDAY, dt(2024, 1, 1 + wd), rt)
        direct(dateandtime.WEEKDAY, dt(2024, 1, 1 + wd))
        direct(dateandtime.WEEKDAY, dt(2024, 1, 1 + wd), return_type=1)

    # --- EDATE -------------------------------------------------------------------------------
    starts = ['DATE(2019,10,6)', 'DATE(2019,1,31)', 'DATE(2020,1,31)', 'DATE(2019,12,31)', 'DATE(2020,2,29)',
              'DATE(2000,2,29)', 'DATE(1900,1,31)', 'DATE(1900,1,1)', 'DATE(9999,12,31)', 'DATE(2096,2,29)',
              '"2019-08-31T10:11:12"', '43861', '60', '0', 'A2']
    moves = ['0', '1', '2', '3', '4', '6', '11', '12', '13', '24', '48', '-1', '-2', '-11', '-12', '-13', '-25', '1.9', '-1.9',
             '"1"', 'TRUE']
    for s in starts:
        for m in moves:
            ev(p1, e1, 'EDATE(%s, %s)' % (s, m))
    for m in [str(i) for i in range(-3, 27)] + ['1200', '1201', '2402', '97199', '97200', '-1', '-13', '"2"', '2.5', 'TRUE',
                                                 '', '"x"', '#N/A', 'A3', 'A4']:
        ev(p1, e1, 'EDATE(, %s)' % m)
    for f in ['EDATE(DATE(2019,10,6), )', 'EDATE(,)', 'EDATE()', 'EDATE(1)', 'EDATE(1,2,3)', 'EDATE("abc", 1)', 'EDATE(-1, 1)',
              'EDATE(1/0, 1)', 'EDATE(DATE(2019,10,6), "x")', 'EDATE(DATE(2019,10,6), #REF!)', 'EDATE(A4, 2)', 'EDATE(A1, A4)',
              'EDATE(DATE(2019,10,6), -1437)', 'EDATE(DATE(2019,10,6), -1438)', 'EDATE(DATE(1900,1,31), -1)',
              'EDATE(DATE(9999,11,30), 1)', 'EDATE(DATE(9999,11,30), 2)', 'EDATE(DATE(1999,7,8), 404)',
              'EDATE(DATE(2019,1,31), 1e6)', 'EDATE(DATE(2019,1,31), -1e6)', 'EDATE({43861}, 1)',
              'DAY(EDATE(DATE(2019,1,31), 1))', 'MONTH(EDATE(DATE(2019,1,31), 13))', 'YEAR(EDATE(DATE(2019,1,31), 13))',
              'EDATE(EDATE(DATE(2019,1,31), 1), 1)', 'WEEKDAY(EDATE(DATE(2019,1,31), 1), 2)']:
        ev(p1, e1, f)
    for y in (1900, 1999, 2000, 2023, 2024, 2100, 2400):
        for mo in range(-1, 13):
            direct(dateandtime.EDATE, dt(y, 1, 31), mo)
            direct(dateandtime.EDATE, None, mo + (y - 1900) * 12)
    for a, b in [(None, None), (dt(2020, 1, 31), None), (dt(2020, 1, 31, tzinfo=utc), 1), (dt(1, 1, 31), 1),
                 (error.NUM, 1), ('2020-01-31', '1'), (dt(2020, 1, 31), 10 ** 30), (dt(2020, 1, 31), -10 ** 30),
                 (None, 10 ** 30), (None, float('nan')), (dt(2020, 5, 31), [1]), (0, 0), (False, 1)]:
        direct(dateandtime.EDATE, a, b)

    # --- dates in operators (serialize_date / parse_date are used there too) ------------------
    ops = ['2 + DATE(2019,11,20)', 'DATE(2019,11,20) + 2', 'DATE(2019,11,20) - 2', 'DATE(2019,11,20) - DATE(2019,11,2)',
           'DATE(1900,3,1) - DATE(1900,2,28)', 'DATE(1900,1,1) + 59', 'DATE(1900,1,1) + 60', 'DATE(1900,1,1) + 0.5',
           'DATE(2019,11,20) * 2', 'DATE(2019,11,20) / 2', 'DATE(2019,11,20) = DATE(2019,11,20)',
           'DATE(2019,11,20) > DATE(2019,11,19)', 'DATE(2019,11,20) < 43789', 'DATE(2019,11,20) = 43789',
           'DATE(1900,1,1) = A4', 'DATE(2019,11,27) > A4', '"a" > DATE(2019,11,20)', '"1" < DATE(2019,11,20)',
           'A1 + 1', 'A2 - A1', 'A1 & ""', '"2019-10-06" + 1', '"2019-10-06" - "2019-10-01"', 'DATE(2019,11,20) + TRUE',
           'DATE(2019,11,20) + "abc"', '-DATE(2019,11,20)', 'DATE(2019,11,20) ^ 1', 'DATE(1900,1,1) - 1']
    for f in ops:
        ev(p1, e1, f)

    # --- random formulas on both parsers, then repeated --------------------------------------
    formulas = []
    for _ in range(40):
        y, m, d = rnd.randint(1900, 9999), rnd.randint(1, 12), rnd.randint(1, 28)
        k = rnd.randint(-30, 30)
        formulas.append('EDATE(DATE(%d,%d,%d), %d)' % (y, m, rnd.choice([d, 29, 30, 31]), k))
        formulas.append('WEEKDAY(DATE(%d,%d,%d), %d)' % (y, m, d, rnd.choice([1, 2, 3, 4])))
        formulas.append('YEAR(%d) & "-" & MONTH(%d) & "-" & DAY(%d)' % ((rnd.randint(0, 2958465),) * 3))
        formulas.append('DAYS(DATE(%d,%d,%d), %d)' % (y, m, d, rnd.randint(0, 700000)))
    for f in formulas:
        ev(p1, e1, f)
    for f in formulas:
        ev(p2, e2, f, 'p2')
    for f in formulas[:40]:
        ev(p1, e1, f, 'p1-again')
    print('reference dates: %r %r' % (utils.date_1900, utils.epoch))
    print('evaluations: %d' % COUNT[0])


if __name__ == '__main__':
    main()
