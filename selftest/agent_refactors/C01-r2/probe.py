# -*- coding: utf-8 -*-
"""
Probe for C01 refactoring 2 (the call_* callbacks of hotxlfp.Parser: shared value holder / setter,
function lookup helper, range corner normalisation).
Prints a deterministic transcript: one line per evaluation, with the events seen.
"""
import os
import random
import sys

sys.path.insert(0, os.path.dirname(os.path.dirname(os.path.abspath(__file__))))

import hotxlfp  # noqa: E402
from hotxlfp.formulas import error as xlerror  # noqa: E402
from hotxlfp.helper.cell import Cell  # noqa: E402

COUNT = [0]
ERRS = [xlerror.ERROR, xlerror.DIV_ZERO, xlerror.NAME, xlerror.NOT_AVAILABLE, xlerror.NULL,
        xlerror.NUM, xlerror.REF, xlerror.VALUE, xlerror.DATA]
EVENTS = ('callFunction', 'callVariable', 'callCellValue', 'callRangeValue')


def show(value):
    """ repr without memory addresses """
    if isinstance(value, dict):
        return '{' + ', '.join('%s: %s' % (show(k), show(v)) for k, v in value.items()) + '}'
    if isinstance(value, list):
        return '[' + ', '.join(show(v) for v in value) + ']'
    if isinstance(value, tuple) and not hasattr(value, '_fields'):
        return '(' + ', '.join(show(v) for v in value) + ',)'
    if isinstance(value, tuple):
        return '%s(%s)' % (type(value).__name__, ', '.join('%s=%s' % (f, show(getattr(value, f))) for f in value._fields))
    if isinstance(value, BaseException):
        return '%s(%s)' % (type(value).__name__, ', '.join(repr(a) for a in value.args))
    if isinstance(value, Cell):
        return '%s<%s row=%s col=%s>' % (type(value).__name__, show(value.label), show(value.row), show(value.col))
    if callable(value) and not isinstance(value, type):
        return '<%s %s>' % (type(value).__name__, getattr(value, '__name__', '?'))
    if isinstance(value, str) and len(value) > 80:
        return '<str len=%d head=%r tail=%r>' % (len(value), value[:8], value[-4:])
    r = repr(value)
    if ' at 0x' in r:
        return '<%s>' % type(value).__name__
    return r


def line(tag, inp, outcome):
    COUNT[0] += 1
    print('%04d %s | %s -> %s' % (COUNT[0], tag, inp, outcome))


def tracebacks_clean():
    return all(e.__traceback__ is None and e.__context__ is None for e in ERRS)


class Recorder(object):
    """ listens to the four events and writes down what it was given """

    def __init__(self, parser, tag='', override=None):
        self.log = []
        self.tag = tag
        self.override = override  # callable(event, payload) -> value given to the setter, or a marker
        for ev in EVENTS:
            parser.on(ev, self._listener(ev))

    def _listener(self, ev):
        def listener(*payload):
            setter = payload[-1]
            entry = '%s%s(%s; setter=%s/%s)' % (self.tag, ev, ', '.join(show(a) for a in payload[:-1]),
                                                type(setter).__name__, getattr(setter, '__name__', '?'))
            self.log.append(entry)
            if self.override is not None:
                self.override(ev, payload)
        return listener

    def take(self):
        out, self.log = self.log, []
        return out


def outcome_of(call):
    try:
        got = call()
        out = show(got)
        if isinstance(got, dict) and 'result' in got:
            out += ' restype=%s' % type(got['result']).__name__
    except BaseException as e:  # noqa: B902 - the transcript records what escapes
        out = 'RAISED %s ctx=%s' % (show(e), type(e.__context__).__name__)
    return out


def run(parser, recorders, expression, tag='parse', label=None):
    out = outcome_of(lambda: parser.parse(expression))
    events = []
    for r in recorders:
        events.extend(r.take())
    line(tag, show(expression) if label is None else label,
         '%s clean=%s events=[%s]' % (out, tracebacks_clean(), ' | '.join(events)))


# ----------------------------------------------------------------------------
# helper objects
# ----------------------------------------------------------------------------

class BadStr(Exception):
    def __str__(self):
        raise RuntimeError('no str for you')


class SubXL(xlerror.XLError):
    pass


class Escaping(BaseException):
    pass


class Unhashable(object):
    __hash__ = None

    def __repr__(self):
        return 'Unhashable()'


class Upperable(object):
    """ not a string, but has upper() """
    def __init__(self, text):
        self.text = text

    def upper(self):
        return self.text.upper()

    def __repr__(self):
        return 'Upperable(%r)' % self.text


def raiser(exc):
    def f(*args):
        raise exc
    return f


def returner(value):
    def f(*args):
        return value
    return f


def make_parser(debug=False):
    p = hotxlfp.Parser(debug=debug)
    p.set_variable('x', 5).set_variable('y', 0).set_variable('name', 'Bob').set_variable('empty', '')
    p.set_variable('nothing', None).set_variable('flag', False).set_variable('arr', [1, 2, 3])
    p.set_variable('err_var', xlerror.NUM).set_variable('fn_var', len)
    p.set_function('RAISE_NUM', raiser(xlerror.NUM))
    p.set_function('RAISE_NAME', raiser(xlerror.NAME))
    p.set_function('RAISE_ODDXL', raiser(xlerror.XLError('weird')))
    p.set_function('RAISE_SUBXL', raiser(SubXL('#NULL!')))
    p.set_function('RAISE_VALUEERR', raiser(ValueError('#REF!')))
    p.set_function('RAISE_ZERO', raiser(ZeroDivisionError('division by zero')))
    p.set_function('RAISE_TYPE', raiser(TypeError('t')))
    p.set_function('RAISE_BADSTR', raiser(BadStr()))
    p.set_function('RAISE_ESCAPING', raiser(Escaping('out')))
    p.set_function('RET_NUMERR', returner(xlerror.NUM))
    p.set_function('RET_NONE', returner(None))
    p.set_function('RET_ZERO', returner(0))
    p.set_function('RET_EMPTY', returner(''))
    p.set_function('RET_FALSE', returner(False))
    p.set_function('RET_LIST', returner([1, None, 'a']))
    p.set_function('RET_EXC', returner(ValueError('v')))
    p.set_function('ECHO', lambda *a: list(a))
    p.set_function('FIRST', lambda *a: a[0] if a else None)
    p.set_function('NARGS', lambda *a: len(a))
    p.set_function('TWO', lambda a, b: (a, b))
    p.set_function('KW', lambda a=1, b=2: [a, b])
    p.set_function('NONE_FN', None)
    p.set_function('SUM', lambda *a: 'custom-sum')  # shadows the built in
    p.set_function('ABS', None)  # a None entry does not shadow the built in
    p.set_function('NOTCALLABLE', 42)
    p.set_function('lower', returner('lower-case name'))
    p.set_function('My.Func', returner('dotted'))
    return p


# ----------------------------------------------------------------------------
# 1. recording only (no listener overrides anything)
# ----------------------------------------------------------------------------
P = make_parser()
REC = Recorder(P)
EXPRS = [
    '', ' ', '1', '1+1', 'x', 'y', 'name', 'empty', 'nothing', 'flag', 'arr', 'err_var', 'fn_var', 'TRUE', 'FALSE',
    'NULL', 'true', 'unknown', 'unknown+x', 'x+unknown', 'x.y', 'x.y.z', 'unknown.x', 'x/y', 'x&name', '-x', '-name',
    '-nothing', 'x=5', 'nothing=0', 'nothing=""', 'empty=nothing', 'arr+1', 'arr+arr', 'arr&"a"', '-arr',
    'A1', 'a1', '$A$1', '$a$1', 'A$1', '$A1', 'a$1', '$a1', 'Z99', 'AA10', 'zz1000', 'A0', 'A00', 'A01', 'XFD1048576',
    'A99999999999999999999', 'A1+1', 'A1&"x"', 'A1=0', 'A1=""', '-A1', 'A1+B2*C3',
    'A1:B2', 'B2:A1', 'A2:B1', 'B1:A2', 'a1:b2', 'b2:a1', '$A$1:$B$2', '$B$2:$A$1', '$B$1:$A$2', '$A$2:$B$1',
    'A1:$B$2', '$B$2:A1', 'B$2:$A1', '$B2:A$1', 'A$2:$B1', '$A2:B$1', 'B$1:A$2', '$B1:$A2', 'A1:A1', '$A$1:A1',
    'A1:$A$1', 'A$1:$A1', 'AA1:B1', 'B1:AA1', 'Z1:AA1', 'AA1:Z1', 'A10:A9', 'A9:A10', 'A0:A1', 'A1:A0', 'A0:A0',
    'C3:A1', 'C1:A3', 'A3:C1', 'c3:A1', 'C3:a1', 'A1:B2:C3', 'A1:', ':A1', 'A1:B', 'A1:2', 'A1:B2+1', 'A1:B2&"a"',
    '-A1:B2', 'A1:B2=A1:B2', 'zz100:a1', 'A99999999999999999999:A1', 'A1:A99999999999999999999',
    'SUM(1,2)', 'SUM()', 'SUM', 'sum(1)', 'ABS(-1)', 'ABS("a")', 'ABS()', 'MAX(1,2)', 'MAX()', 'NOSUCH()',
    'NOSUCH(1,2)', 'NO.SUCH()', 'NONE_FN()', 'NONE_FN(1)', 'NOTCALLABLE()', 'NOTCALLABLE(1)', 'lower()',
    'LOWER("A")', 'My.Func()', 'MY.FUNC()', 'RAISE_NUM()', 'RAISE_NAME()', 'RAISE_ODDXL()', 'RAISE_SUBXL()',
    'RAISE_VALUEERR()', 'RAISE_ZERO()', 'RAISE_TYPE()', 'RAISE_BADSTR()', 'RAISE_ESCAPING()', 'RET_NUMERR()',
    'RET_NONE()', 'RET_ZERO()', 'RET_EMPTY()', 'RET_FALSE()', 'RET_LIST()', 'RET_EXC()', 'ECHO()', 'ECHO(1)',
    'ECHO(1,2,3)', 'ECHO(1;2)', 'ECHO(1\\2)', 'ECHO(,)', 'ECHO(1,)', 'ECHO(,1)', 'ECHO(1,,2)', 'ECHO(,,)',
    'ECHO({1,2})', 'ECHO({1,2;3,4})', 'ECHO(1,2;3,4)', 'ECHO(x,name,nothing)', 'ECHO(A1,B2:C3)', 'ECHO(unknown)',
    'ECHO(1/0)', 'ECHO(#N/A)', 'ECHO(RAISE_NUM(),RAISE_ZERO())', 'ECHO(ECHO(ECHO(1)))', 'FIRST()', 'FIRST(NOSUCH())',
    'FIRST(1,NOSUCH())', 'FIRST(NOSUCH(),x)', 'NARGS()', 'NARGS(1,2,3,4,5)', 'NARGS(A1:B2)', 'TWO()', 'TWO(1)',
    'TWO(1,2)', 'TWO(1,2,3)', 'KW()', 'KW(1)', 'KW(1,2,3)', 'SQRT(-1)', 'SQRT(x)', 'SQRT(A1)', 'LN(y)', 'IF(x,A1,B1)',
    'IF(y,A1,B1)', 'IFERROR(unknown,1)', 'IFERROR(NOSUCH(),1)', 'IFERROR(RAISE_NUM(),1)', 'ISERROR(RAISE_ZERO())',
    'ISBLANK(A1)', 'COUNT(A1:B2)', 'AVERAGE(A1:B2)', 'CONCATENATE(A1,x)', 'x+A1+SUM(A1:B2)+unknown',
    'unknown+NOSUCH()', 'NOSUCH()+unknown', 'NOSUCH(unknown)', 'NOSUCH(A1)', 'ECHO(A1)+NOSUCH(B1)+C1',
    '(x', 'x)', 'SUM(x', 'ECHO(x,', 'A1 B1', 'x y', 'ECHO(x) ECHO(y)', 'x+', '+x', 'x++y', 'ECHO(x)+', '@x', 'x@',
]
for expr in EXPRS:
    run(P, [REC], expr)

# ----------------------------------------------------------------------------
# 2. listeners that override the value
# ----------------------------------------------------------------------------
SET_VALUES = [None, 0, 0.0, '', False, True, 7, -1.5, 'txt', [], [1, 2], [[1, 2], [3, 4]], (), {'a': 1}, xlerror.NUM,
              xlerror.XLError('odd'), SubXL('#REF!'), ValueError('#NUM!'), '#NUM!', len, 10 ** 30, float('inf')]
OVERRIDE_EXPRS = ['x', 'unknown', 'nothing', 'TRUE', 'unknown+1', 'A1', 'A1+1', 'A1&"!"', 'B2:A1', 'SUM(A1:B2)',
                  'ECHO(1)', 'NOSUCH()', 'RAISE_NUM()', 'RAISE_ZERO()', 'RET_NONE()', 'ECHO(x,A1,A1:B2)']
for v in SET_VALUES:
    p = make_parser()
    rec = Recorder(p, override=(lambda vv: (lambda ev, payload: payload[-1](vv)))(v))
    for expr in OVERRIDE_EXPRS:
        run(p, [rec], expr, 'override', '%s / %r' % (show(v), expr))

# several listeners: every one sees the same setter, the last non-None value wins
CHAINS = [(1, None), (None, 2), (1, 2), (None, None), (1, None, 3), (xlerror.NUM, None), (None, xlerror.NUM),
          (0, ''), ('', 0), (False, None), (None, False), ([1], [2])]
for chain in CHAINS:
    p = make_parser()
    recs = [Recorder(p, tag='L%d:' % i, override=(lambda vv: (lambda ev, payload: payload[-1](vv)))(v))
            for i, v in enumerate(chain)]
    for expr in ['x', 'unknown', 'A1', 'A1:B2', 'ECHO(1)', 'NOSUCH()', 'RAISE_NUM()+1']:
        run(p, recs, expr, 'chain', '%s / %r' % (show(chain), expr))

# one listener calling the setter several times; a listener mutating the argument list it is given
p = make_parser()
rec = Recorder(p, override=lambda ev, payload: (payload[-1](1), payload[-1](None), payload[-1](2), payload[-1](None)))
for expr in ['x', 'unknown', 'A1', 'B2:A1', 'ECHO(5)', 'nothing']:
    run(p, [rec], expr, 'multi-set')


def _mutate(ev, payload):
    if ev == 'callFunction':
        payload[1].append('added-by-listener')


p = make_parser()
rec = Recorder(p, override=_mutate)
rec2 = Recorder(p, tag='second:')
for expr in ['ECHO()', 'ECHO(1)', 'NARGS()', 'NARGS(1,2)', 'ECHO(ECHO())', 'ECHO()+ECHO()']:
    run(p, [rec, rec2], expr, 'args-mutated')

# a setter kept beyond its event has no effect on later evaluations
p = make_parser()
kept = []
rec = Recorder(p, override=lambda ev, payload: kept.append(payload[-1]))
for expr in ['x', 'A1', 'A1:B2', 'ECHO(1)', 'unknown']:
    run(p, [rec], expr, 'setter-kept')
    for s in kept:
        s('late')
    run(p, [rec], expr, 'setter-kept-again')
line('setter-kept', 'setters', 'count=%d distinct=%d names=%s returns=%s'
     % (len(kept), len(set(id(s) for s in kept)), sorted(set(s.__name__ for s in kept)),
        sorted(set(repr(s(None)) for s in kept))))

# ----------------------------------------------------------------------------
# 3. listeners that raise
# ----------------------------------------------------------------------------
LISTENER_EXCS = [ValueError('boom'), ValueError('#REF!'), xlerror.NUM, xlerror.XLError('odd'), SubXL('#N/A'),
                 KeyError('#VALUE!'), BadStr(), Escaping('esc'), StopIteration()]
RAISE_EXPRS = {'callFunction': ['ECHO(1)', 'NOSUCH()', 'ECHO(ECHO(1))', 'x+ECHO(1)', 'RAISE_NUM()'],
               'callVariable': ['x', 'unknown', 'TRUE', 'ECHO(x)', 'A1+x'],
               'callCellValue': ['A1', '$B$2+1', 'ECHO(A1)', 'x+A1', 'A1:B2'],
               'callRangeValue': ['A1:B2', 'ECHO(B2:A1)', 'A1', 'x+A1:B2']}
for ev in EVENTS:
    for exc in LISTENER_EXCS:
        p = make_parser()
        before = Recorder(p, tag='before:')
        p.on(ev, raiser(exc))
        after = Recorder(p, tag='after:')
        for expr in RAISE_EXPRS[ev]:
            run(p, [before, after], expr, 'listener-raises', '%s / %s / %r' % (ev, show(exc), expr))

# ----------------------------------------------------------------------------
# 4. once / off
# ----------------------------------------------------------------------------
p = make_parser()
seen = []
p.once('callVariable', lambda name, setter: (seen.append('once:' + name), setter(100)))
p.once('callCellValue', lambda cell, setter: (seen.append('once:' + cell.label), setter(200)))
p.once('callRangeValue', lambda a, b, setter: (seen.append('once:%s:%s' % (a.label, b.label)), setter([[1]])))
p.once('callFunction', lambda name, args, setter: (seen.append('once:' + name), setter(300)))
for expr in ['x+x', 'x', 'A1+A1', 'A1', 'B2:A1', 'B2:A1', 'ECHO(1)+ECHO(2)', 'ECHO(3)', 'unknown']:
    out = outcome_of(lambda: p.parse(expr))
    line('once', repr(expr), '%s seen=%s' % (out, seen))
    del seen[:]

p = make_parser()
rec = Recorder(p, override=lambda ev, payload: payload[-1]('set'))
run(p, [rec], 'unknown&A1', 'off-before')
for ev in EVENTS:
    p.off(ev)
run(p, [rec], 'unknown&A1', 'off-after')
run(p, [rec], 'A1', 'off-after')
run(p, [rec], 'A1:B2', 'off-after')
run(p, [rec], 'ECHO(1)', 'off-after')
run(p, [rec], 'x', 'off-after')

# ----------------------------------------------------------------------------
# 5. the callbacks called directly, with usual and unusual arguments
# ----------------------------------------------------------------------------
D = make_parser()
DREC = Recorder(D)


def direct(tag, label, call):
    out = outcome_of(call)
    line(tag, label, '%s clean=%s events=[%s]' % (out, tracebacks_clean(), ' | '.join(DREC.take())))
    xlerror.clear_tracebacks()


FN_CALLS = [
    ('ECHO',), ('ECHO', None), ('ECHO', []), ('ECHO', [1, 2]), ('ECHO', (1, 2)), ('ECHO', 'ab'), ('ECHO', [None]),
    ('ECHO', [[1, 2]]), ('ECHO', {'k': 1}), ('ECHO', 5), ('ECHO', iter([1, 2])), ('SUM', [1, 2]), ('ABS', [-3]),
    ('ABS', []), ('ABS', None), ('MAX', [1, 5]), ('NOSUCH',), ('NOSUCH', [1]), ('NONE_FN',), ('NOTCALLABLE',),
    ('NOTCALLABLE', [1]), ('abs', [-3]), ('', []), (None, []), (5, []), (('A', 'B'), []), (Unhashable(), []),
    ([], []), ('RAISE_NUM',), ('RAISE_NAME',), ('RAISE_ODDXL',), ('RAISE_SUBXL',), ('RAISE_VALUEERR',),
    ('RAISE_ZERO',), ('RAISE_BADSTR',), ('RAISE_ESCAPING',), ('RET_NONE',), ('RET_NUMERR',), ('TWO', [1]),
    ('TWO', [1, 2]), ('KW', []), ('KW', [9]), ('SQRT', [-1]), ('SQRT', ['a']), ('SQRT', [None]), ('SQRT', [[4]]),
    ('IF', [True, 1, 2]), ('lower',), ('LOWER', ['A']), ('My.Func',), ('TRUE',), ('PI',), ('PI', [1]),
]
for call in FN_CALLS:
    direct('call_function', show(call), lambda: D.call_function(*call))
direct('call_function', 'no arguments', lambda: D.call_function())
direct('call_function', 'keyword arguments', lambda: D.call_function(args=[1], name='ECHO'))
direct('call_function', 'three arguments', lambda: D.call_function('ECHO', [1], 2))
a1 = D.call_function('ECHO')
a2 = D.call_function('ECHO')
a1.append('x')
DREC.take()
line('call_function', 'default args are fresh', 'a1=%s a2=%s third=%s' % (show(a1), show(a2), show(D.call_function('ECHO'))))
DREC.take()

VAR_CALLS = ['x', 'y', 'name', 'empty', 'nothing', 'flag', 'arr', 'err_var', 'fn_var', 'TRUE', 'FALSE', 'NULL', 'true',
             'unknown', '', 'X', None, 5, 5.0, True, ('a',), Unhashable(), [], xlerror.NUM]
for name in VAR_CALLS:
    direct('call_variable', show(name), lambda: D.call_variable(name))
D.set_variable(5, 'five').set_variable(None, 'none-key').set_variable(True, 'true-key')
for name in [5, 5.0, None, True, 1, 1.0]:
    direct('call_variable', 'after odd keys ' + show(name), lambda: D.call_variable(name))
direct('call_variable', 'no arguments', lambda: D.call_variable())

CELL_CALLS = ['A1', 'a1', '$A$1', '$a$1', 'A$1', '$A1', 'zz99', 'A0', 'A00', 'A007', 'AAAA1', 'A', '1', '', ' A1', 'A1 ',
              'A1\n', 'A-1', 'A1:B2', '$$A1', 'A$$1', 'A1$', u'é1', u'ß1', u'ı1', 'A٣', None, 5, b'A1', ['A1'],
              Upperable('b2'), 'A99999999999999999999', 'A' + '9' * 5000]
for label in CELL_CALLS:
    shown = show(label) if not (isinstance(label, str) and len(label) > 100) else 'long label of %d' % len(label)
    direct('call_cell_value', shown, lambda: D.call_cell_value(label))
direct('call_cell_value', 'no arguments', lambda: D.call_cell_value())

CORNERS = ['A1', 'B2', 'b2', '$A$1', '$B$2', 'A$2', '$B1', 'C3', 'AA1', 'Z10', 'A0', None, '', 'bad', 5, u'ß1',
           Upperable('c4')]
for s in CORNERS:
    for e in CORNERS:
        direct('call_range_value', '%s : %s' % (show(s), show(e)), lambda: D.call_range_value(s, e))
direct('call_range_value', 'one argument', lambda: D.call_range_value('A1'))
got1 = D.call_range_value(None, 'A1')
got2 = D.call_range_value('A1', None)
got1.append(1)
line('call_range_value', 'empty results are fresh', 'got1=%s got2=%s third=%s'
     % (show(got1), show(got2), show(D.call_range_value(None, None))))

# cells handed to the listeners: fresh objects whose parts agree with the label
p = make_parser()
cells = []
p.on('callRangeValue', lambda a, b, setter: cells.extend([a, b]))
p.on('callCellValue', lambda c, setter: cells.append(c))
for expr in ['B2:A1', 'b$2:$a1', 'A1', 'B2:A1']:
    p.parse(expr)
line('cells', 'identity', 'count=%d distinct=%d types=%s' % (len(cells), len(set(id(c) for c in cells)),
                                                          sorted(set(type(c).__name__ for c in cells))))
for c in cells:
    line('cells', show(c.label), 'unpack=%s slots=%s rowtype=%s coltype=%s'
         % (show(tuple(c)), show([getattr(c, s) for s in c.__slots__]), type(c.row).__name__, type(c.col).__name__))

# ----------------------------------------------------------------------------
# 6. re-entrant listeners: cells whose content is another formula (finite chains)
# ----------------------------------------------------------------------------
SHEET = {'A1': '1', 'A2': 'A1+1', 'A3': 'A2*A1', 'A4': 'SUM(A1:A3)', 'A5': 'A4&name', 'A6': 'nosuch+1',
         'A7': 'A6', 'A8': 'IFERROR(A7,A3)', 'A9': 'RAISE_ZERO()', 'A10': 'A9+A1', 'B1': '(', 'B2': 'B1', 'B3': ''}
for depth in range(11, 31):
    SHEET['A%d' % depth] = 'A%d+1' % (depth - 1) if depth > 11 else 'A3+1'
p = make_parser()
trace = []


def on_cell(cell, setter):
    trace.append('>' + cell.label)
    rec = p.parse(SHEET.get(cell.label, ''))
    trace.append('<%s=%s' % (cell.label, show(rec)))
    if rec['error'] is not None:
        setter(xlerror.from_message(rec['error']))
    else:
        setter(rec['result'])


def on_range(a, b, setter):
    trace.append('range %s:%s' % (a.label, b.label))
    rows = []
    for r in range(a.row.index, b.row.index + 1):
        rows.append([p.parse('A%d' % (r + 1))['result']])
    setter(rows)


p.on('callCellValue', on_cell)
p.on('callRangeValue', on_range)
p.set_function('SUM', lambda *a: sum(v for row in a[0] for v in row))
for label in ['A1', 'A2', 'A3', 'A4', 'A5', 'A6', 'A7', 'A8', 'A9', 'A10', 'B1', 'B2', 'B3', 'C1', 'A20', 'A30',
              'A3:A1', 'A2+A2']:
    out = outcome_of(lambda: p.parse(label))
    line('sheet', label, '%s clean=%s trace=%s' % (out, tracebacks_clean(), ' '.join(trace)))
    del trace[:]

# ----------------------------------------------------------------------------
# 7. debug flag: same values (the traceback text goes to a sink)
# ----------------------------------------------------------------------------
class _Sink(object):
    def __init__(self):
        self.chunks = 0

    def write(self, s):
        self.chunks += 1

    def flush(self):
        pass


DP = make_parser(debug=True)
DPREC = Recorder(DP)
_real = sys.stderr
for expr in ['ECHO(1)', 'RAISE_ZERO()', 'RAISE_NUM()', 'RAISE_ODDXL()', 'NOSUCH()', 'unknown', 'SQRT(-1)', 'A1:B2',
             'RAISE_BADSTR()', 'TWO(1)']:
    sink = _Sink()
    sys.stderr = sink
    try:
        out = outcome_of(lambda: DP.parse(expr))
        direct_out = outcome_of(lambda: DP.call_function('RAISE_ZERO'))
    finally:
        sys.stderr = _real
    line('debug', repr(expr), '%s direct=%s printed=%s events=[%s]' % (out, direct_out, sink.chunks > 0,
                                                                      ' | '.join(DPREC.take())))

# ----------------------------------------------------------------------------
# 8. random formulas (fixed seed), events recorded, some values supplied by listeners
# ----------------------------------------------------------------------------
RNG = random.Random(20240601)
ATOMS = ['1', '2.5', '0', '"a"', '""', 'x', 'y', 'name', 'nothing', 'unknown', 'TRUE', 'A1', '$B$2', 'c3', 'B2:A1',
         'A1:C3', '$C$1:A$3', '{1,2}', '{1;2}', '#N/A', '#DIV/0!', 'ECHO(1)', 'ECHO()', 'NOSUCH()', 'RAISE_NUM()',
         'RAISE_ZERO()', 'RET_NONE()', 'SUM(1,2)', 'ABS(-2)', 'NARGS(A1:B2,x)', 'FIRST(', 'ECHO(', ')', '(', ',', ';',
         ':', '.', '%', '-', '+', '*', '/', '&', '=', '<>', '<', '>=', '^', ' ', '@']


def random_expr():
    n = RNG.randint(1, 6)
    return ''.join(RNG.choice(ATOMS) for _ in range(n))


def sheet_values(ev, payload):
    if ev == 'callCellValue':
        cell = payload[0]
        payload[-1](None if cell.col.index == 2 else (cell.row.index + 1) * 10 + cell.col.index)
    elif ev == 'callRangeValue':
        a, b = payload[0], payload[1]
        if b.col.index - a.col.index > 30 or b.row.index - a.row.index > 30:
            payload[-1]('too big')  # e.g. "nothingB2" lexes as a cell in a very far column
            return
        payload[-1]([[r * 10 + c for c in range(a.col.index, b.col.index + 1)]
                     for r in range(a.row.index, b.row.index + 1)])
    elif ev == 'callVariable' and payload[0] == 'unknown' and RNG.random() < 0.5:
        payload[-1]('found')


RP = make_parser()
RREC = Recorder(RP, override=sheet_values)
for _ in range(400):
    run(RP, [RREC], random_expr(), 'random')

sys.stdout.write('TOTAL %d\n' % COUNT[0])
