# -*- coding: utf-8 -*-
"""
Probe for C16 refactoring 4 (in-place error checks in LOG / POWER / RANDBETWEEN / PV,
hoisted pi/2 in ACOT, early return and local aliases in PV).
Prints a deterministic transcript; it must be byte-identical on the unchanged
and on the changed tree.
"""
import itertools
import os
import random
import sys

sys.path.insert(0, os.path.dirname(os.path.dirname(os.path.abspath(__file__))))

import hotxlfp  # noqa: E402
from hotxlfp.formulas import error, financial, mathtrig  # noqa: E402

COUNT = [0]


def show(value):
    """ repr that never prints a memory address """
    if isinstance(value, error.XLError):
        return 'XLError(%s)' % str(value)
    if isinstance(value, BaseException):
        return '%s(%s)' % (type(value).__name__, value)
    if isinstance(value, dict):
        return '{' + ', '.join('%r: %s' % (k, show(value[k])) for k in sorted(value)) + '}'
    if isinstance(value, (list, tuple)):
        inner = ', '.join(show(v) for v in value)
        return ('[%s]' if isinstance(value, list) else '(%s)') % inner
    if callable(value):
        return '<callable %s>' % getattr(value, '__name__', '?')
    if type(value).__repr__ is object.__repr__:
        return '<%s instance>' % type(value).__name__
    return '%s:%r' % (type(value).__name__, value)


def line(text):
    COUNT[0] += 1
    print('%04d %s' % (COUNT[0], text))


class Opaque(object):
    pass


def direct(module, name, *args, **kwargs):
    fn = getattr(module, name)
    try:
        out = fn(*args, **kwargs)
    except BaseException as exc:  # noqa
        out = exc
        tag = 'raised'
    else:
        tag = 'returned'
    shown = [show(a) for a in args] + ['%s=%s' % (k, show(kwargs[k])) for k in sorted(kwargs)]
    line('direct %s(%s) %s %s' % (name, ', '.join(shown), tag, show(out)))


# ---------------------------------------------------------------------------
# 1. direct calls
# ---------------------------------------------------------------------------

custom_error = error.XLError('#CUSTOM!')

SCALARS = [
    0, 1, -1, 2, 10, 0.5, -0.5, 2.5, 0.0, -0.0, 1e-300, 1e300, float('inf'), float('-inf'), float('nan'),
    True, False, None, '', '2', '-3', '0.1', '1e2', ' 4 ', 'abc', 'TRUE', '#NUM!',
    error.VALUE, error.NUM, error.DIV_ZERO, error.NOT_AVAILABLE, custom_error,
    [], [1, 2], (3,), {}, 2j, 1 + 0j, Opaque(), mathtrig.DEFAULT,
]

# ACOT: one argument
for v in SCALARS + [1e-320, -1e-320, 1e308, -2, '0', '0.0', '-0', 0j, 10 ** 400]:
    direct(mathtrig, 'ACOT', v)
line('ACOT(0) == pi/2 : %r' % (mathtrig.ACOT(0) == 3.141592653589793 / 2))
line('ACOT(0) twice equal : %r' % (mathtrig.ACOT(0) == mathtrig.ACOT('0')))
direct(mathtrig, 'ACOT')
direct(mathtrig, 'ACOT', 1, 2)

# LOG / POWER: all pairs
for a, b in itertools.product(SCALARS, SCALARS):
    direct(mathtrig, 'LOG', a, b)
for a, b in itertools.product(SCALARS, SCALARS):
    direct(mathtrig, 'POWER', a, b)
for v in SCALARS + [100, 1000, '1000', 0.001, 8]:
    direct(mathtrig, 'LOG', v)
    direct(mathtrig, 'LOG10', v)
for extra in [(), (1, 2, 3)]:
    direct(mathtrig, 'LOG', *extra)
    direct(mathtrig, 'POWER', *extra)
    direct(mathtrig, 'LOG10', *extra)
direct(mathtrig, 'POWER', 2)
direct(mathtrig, 'LOG', 8, base=2)
direct(mathtrig, 'LOG', number=8, base='2')
direct(mathtrig, 'POWER', number=2, power=10)
direct(mathtrig, 'POWER', -8, 0.5)
direct(mathtrig, 'POWER', -8, 1 / 3.0)
direct(mathtrig, 'POWER', 0, -1)
direct(mathtrig, 'POWER', 0.0, -1)
direct(mathtrig, 'POWER', 10.0, 400)
direct(mathtrig, 'POWER', 10, 400)
direct(mathtrig, 'POWER', 10, -400)
direct(mathtrig, 'POWER', float('inf'), 0)
direct(mathtrig, 'POWER', float('nan'), 0)
direct(mathtrig, 'POWER', float('inf'), float('nan'))
direct(mathtrig, 'POWER', 1, float('nan'))
direct(mathtrig, 'LOG', 10 ** 400, 10)
direct(mathtrig, 'LOG', 8, 1)
direct(mathtrig, 'LOG', 1, 1)
direct(mathtrig, 'LOG', 8, 0)
direct(mathtrig, 'LOG', 8, -2)

# RANDBETWEEN: a fixed seed, and the generator must be consumed identically
random.seed(20240916)
RB = [0, 1, -1, 5, 5.9, -5.9, 100, True, False, None, '', '3', '7.5', 'abc', error.NUM, custom_error,
      [], [1], 2j, float('inf'), float('nan'), 10 ** 30, Opaque()]
for a, b in itertools.product(RB, RB):
    direct(mathtrig, 'RANDBETWEEN', a, b)
for extra in [(), (1,), (1, 2, 3)]:
    direct(mathtrig, 'RANDBETWEEN', *extra)
for i in range(40):
    direct(mathtrig, 'RANDBETWEEN', -3, 3)
    direct(mathtrig, 'RANDBETWEEN', '10', 20.7)
line('generator state check %r' % random.random())

# PV
PVV = [0, 1, -1, 0.05, -0.5, 10, 12.5, True, False, None, '', '0.1', '3', 'abc', error.NUM, custom_error, [1], 1j,
       float('inf'), float('nan')]
for rate, periods, payment in itertools.product(PVV, PVV, PVV):
    direct(financial, 'PV', rate, periods, payment)
OPT = [None, 0, 1, 2, -100, 0.5, True, False, '', '1', '250.5', 'x', error.DIV_ZERO, custom_error, [], 1j]
for future, typ in itertools.product(OPT, OPT):
    direct(financial, 'PV', 0.08, 10, -500, future, typ)
    direct(financial, 'PV', 0, 10, -500, future, typ)
    direct(financial, 'PV', '0.0', '10', '-500', future, typ)
for future in OPT:
    direct(financial, 'PV', 0.08, 10, -500, future)
    direct(financial, 'PV', 0.08, 10, -500, future=future)
    direct(financial, 'PV', 0.08, 10, -500, type=future)
    direct(financial, 'PV', rate=0, periods=3, payment=7, type=future, future=future)
for extra in [(), (1,), (1, 2), (1, 2, 3, 4, 5, 6)]:
    direct(financial, 'PV', *extra)
direct(financial, 'PV', -1, 5, 100)
direct(financial, 'PV', -1, -5, 100)
direct(financial, 'PV', -1.0, -5, 100)
direct(financial, 'PV', -2, 0.5, 100)
direct(financial, 'PV', -1.5, 0.5, 100, 10, 1)
direct(financial, 'PV', 1e-18, 10, 100)
direct(financial, 'PV', 1e308, 10, 100)
direct(financial, 'PV', 10.0, 400, 100)
direct(financial, 'PV', 10, 400, 100)
direct(financial, 'PV', 0.1, 1e9, 100)
direct(financial, 'PV', 0.1, -1e9, 100)
direct(financial, 'PV', 0.1, 10, float('inf'))
direct(financial, 'PV', 0.1, 10, 100, float('inf'), float('inf'))
direct(financial, 'PV', -0.0, 10, 100, 5, 1)
direct(financial, 'PV', 1e-320, 10, 100, 5, 1)


# the annuity equation on a grid
def residual(r, n, pmt, fv, typ):
    pv = financial.PV(r, n, pmt, fv, typ)
    if r == 0:
        return pv + pmt * n + fv
    return pv * (1 + r) ** n + pmt * (1 + r * typ) * ((1 + r) ** n - 1) / r + fv


for r, n, pmt, fv, typ in itertools.product([0, 0.01, 0.5, -0.25], [1, 12, 30.5], [-100, 33.3], [0, 1000], [0, 1]):
    line('annuity r=%r n=%r pmt=%r fv=%r type=%r pv=%s residual=%r' % (
        r, n, pmt, fv, typ, show(financial.PV(r, n, pmt, fv, typ)), residual(r, n, pmt, fv, typ)))

# error arguments never come back as themselves here: always the shared #VALUE!
for fn, args in [(mathtrig.LOG, (error.NUM, 2)), (mathtrig.LOG, (2, custom_error)), (mathtrig.POWER, (error.NUM, 2)),
                 (mathtrig.POWER, (2, custom_error)), (mathtrig.RANDBETWEEN, (error.NUM, 2)),
                 (mathtrig.RANDBETWEEN, (1, custom_error)), (financial.PV, (error.NUM, 1, 1)),
                 (financial.PV, (1, 1, 1, custom_error)), (financial.PV, (1, 1, 1, 1, error.REF))]:
    line('identity %s%s is VALUE: %r' % (fn.__name__, show(args), fn(*args) is error.VALUE))

# ---------------------------------------------------------------------------
# 2. formulas through the parser, with the events that were seen
# ---------------------------------------------------------------------------

FORMULAS = [
    'LOG(8,2)', 'LOG(100)', 'LOG(100,10)', 'LOG("8","2")', 'LOG(TRUE,2)', 'LOG(8,TRUE)', 'LOG(8,FALSE)', 'LOG(0)',
    'LOG(-1)', 'LOG(8,)', 'LOG(,2)', 'LOG(,)', 'LOG()', 'LOG(1,2,3)', 'LOG("a",2)', 'LOG(2,"a")', 'LOG(#N/A,2)',
    'LOG(2,#N/A)', 'LOG(#NUM!,#REF!)', 'LOG(1/0,2)', 'LOG(A1,B2)', 'LOG(C3,2)', 'LOG(2,D4)', 'LOG(A1:B2,2)',
    'LOG({8},2)', 'LOG(v_num,2)', 'LOG(v_err,2)', 'LOG(2,v_err)', 'LOG(v_none)', 'LOG(v_cplx,2)', 'LOG(nosuch,2)',
    'LOG(8,2)-LN(8)/LN(2)', 'LOG(5,3)-LN(5)/LN(3)', 'LOG10(1000)', 'LOG10("100")', 'LOG10(0)', 'LOG10(-5)',
    'LOG10("a")', 'LOG10(#NUM!)', 'LOG10(TRUE)', 'LOG10()', 'LOG10(1,2)', 'LOG10(D4)', 'LOG10(10^400)',
    'POWER(2,10)', 'POWER(2,-1)', 'POWER(2,0.5)', 'POWER(-8,1/3)', 'POWER(-8,0.5)', 'POWER(0,0)', 'POWER(0,-1)',
    'POWER("2","3")', 'POWER(TRUE,5)', 'POWER(5,TRUE)', 'POWER(5,FALSE)', 'POWER("a",2)', 'POWER(2,"a")',
    'POWER(2,)', 'POWER(,2)', 'POWER()', 'POWER(2)', 'POWER(1,2,3)', 'POWER(#N/A,2)', 'POWER(2,#DIV/0!)',
    'POWER(A1,B2)', 'POWER(C3,2)', 'POWER(2,D4)', 'POWER({2},2)', 'POWER(v_num,2)', 'POWER(v_num,0.5)',
    'POWER(v_err,2)', 'POWER(v_cplx,2)', 'POWER(10,400)', 'POWER(10.5,400)', 'POWER(1e308*10,0)',
    'POWER(1e308*10-1e308*10,0)', 'POWER(1e308*10-1e308*10,1)', 'POWER(2,3)-2^3', 'POWER(POWER(2,2),2)',
    'ACOT(0)', 'ACOT("0")', 'ACOT(FALSE)', 'ACOT(1)', 'ACOT(-1)', 'ACOT("a")', 'ACOT(#REF!)', 'ACOT(A1)',
    'ACOT(0)-PI()/2', 'ACOT(0)*2=PI()', 'ACOT()', 'ACOT(1,2)', 'ACOT(D4)', 'ACOT(v_none)',
    'RANDBETWEEN(5,5)', 'RANDBETWEEN("5",5.9)', 'RANDBETWEEN(TRUE,TRUE)', 'RANDBETWEEN(5,1)', 'RANDBETWEEN("a",1)',
    'RANDBETWEEN(1,"a")', 'RANDBETWEEN(#N/A,1)', 'RANDBETWEEN(1,#NUM!)', 'RANDBETWEEN(1,)', 'RANDBETWEEN()',
    'RANDBETWEEN(1,10)', 'RANDBETWEEN(-10,10)', 'RANDBETWEEN(A1,B2)', 'RANDBETWEEN(C3,1)', 'RANDBETWEEN(1,D4)',
    'RANDBETWEEN(1,10)<=10', 'INT(RANDBETWEEN(1,10))=RANDBETWEEN(3,3)+0*1',
    'PV(0.1,10,-100)', 'PV(0.1,10,-100,0,0)', 'PV(0.1,10,-100,1000)', 'PV(0.1,10,-100,1000,1)', 'PV(0,10,-100)',
    'PV(0,10,-100,50)', 'PV(0,10,-100,50,1)', 'PV("0.1","10","-100")', 'PV(TRUE,2,3)', 'PV(FALSE,2,3)',
    'PV(0.1,10,-100,TRUE,TRUE)', 'PV(0.1,10,-100,FALSE,FALSE)', 'PV(0.1,10,-100,"5","1")', 'PV(0.1,10,-100,"x")',
    'PV(0.1,10,-100,0,"x")', 'PV("x",10,-100)', 'PV(0.1,"x",-100)', 'PV(0.1,10,"x")', 'PV(0.1,,3)', 'PV(,10,3)',
    'PV(0.1,10,)', 'PV(0.1,10,3,)', 'PV(0.1,10,3,,)', 'PV(0.1,10,3,,1)', 'PV(0.1,10,3,NULL,NULL)', 'PV()',
    'PV(0.1)', 'PV(0.1,10)', 'PV(1,2,3,4,5,6)', 'PV(#N/A,10,3)', 'PV(0.1,#NUM!,3)', 'PV(0.1,10,#REF!)',
    'PV(0.1,10,3,#DIV/0!)', 'PV(0.1,10,3,0,#NAME?)', 'PV(1/0,10,3)', 'PV(A1,B2,100)', 'PV(C3,1,1)', 'PV(1,1,D4)',
    'PV(A1:B2,1,1)', 'PV({0.1},1,1)', 'PV(v_num,2,3)', 'PV(v_err,2,3)', 'PV(0.1,2,3,v_none,v_none)',
    'PV(0.1,2,3,v_cplx)', 'PV(-1,5,100)', 'PV(-1,-5,100)', 'PV(-2,0.5,100)', 'PV(10.5,400,1)', 'PV(nosuch,1,1)',
    'PV(0.05,12,-200,1000,1)*POWER(1.05,12)+(-200)*(1+0.05)*(POWER(1.05,12)-1)/0.05+1000',
    'PV(0.05,12,-200,1000,0)*POWER(1.05,12)+(-200)*(POWER(1.05,12)-1)/0.05+1000',
    'IFERROR(PV("x",1,1),"bad")', 'ISERROR(LOG(-1))', 'ISERROR(POWER("a",1))', 'SUM(PV(0,1,1),LOG(8,2),POWER(2,2))',
]


def make_parser(log):
    p = hotxlfp.Parser()
    p.set_variable('v_num', -4.5)
    p.set_variable('v_err', error.NUM)
    p.set_variable('v_none', None)
    p.set_variable('v_cplx', 3 + 4j)
    cells = {'A1': 0.25, 'B2': '2', 'C3': 'text', 'D4': error.NOT_AVAILABLE}

    def on_function(name, args, done):
        log.append('callFunction %s %s' % (name, show(args)))

    def on_variable(name, done):
        log.append('callVariable %s' % name)

    def on_cell(cell, done):
        log.append('callCellValue %s' % cell.label)
        done(cells.get(cell.label))

    def on_range(start, end, done):
        log.append('callRangeValue %s:%s' % (start.label, end.label))
        done([[0.25, 1], [2, '0.5']])

    p.on('callFunction', on_function)
    p.on('callVariable', on_variable)
    p.on('callCellValue', on_cell)
    p.on('callRangeValue', on_range)
    return p


log1, log2 = [], []
parser1 = make_parser(log1)
parser2 = make_parser(log2)
random.seed(777)

for rnd in (1, 2):
    for formula in FORMULAS:
        for tag, parser, log in (('p1', parser1, log1), ('p2', parser2, log2)):
            if rnd == 2 and tag == 'p2':
                continue  # second round: the first parser only (repeated evaluation)
            del log[:]
            try:
                out = parser.parse(formula)
            except BaseException as exc:  # noqa
                out = exc
            line('%s round%d %s => %s | events: %s' % (tag, rnd, formula, show(out), '; '.join(log)))
line('generator state check %r' % random.random())

# a listener that overrides the value of the call
p3 = hotxlfp.Parser()
seen = []


def override(name, args, done):
    seen.append('%s %s' % (name, show(args)))
    if name == 'LOG':
        done(42)


p3.on('callFunction', override)
for formula in ['LOG(-1)', 'LOG(8,2)', 'POWER(LOG("a"),2)', 'PV(LOG(0),1,1)', 'ACOT(LOG(1)-42)']:
    del seen[:]
    line('p3 %s => %s | events: %s' % (formula, show(p3.parse(formula)), '; '.join(seen)))

# the shared error values carry nothing over from one evaluation to the next
for err in (error.VALUE, error.NUM, error.ERROR, error.DIV_ZERO):
    line('error state %s traceback=%r context=%r args=%r' % (str(err), err.__traceback__, err.__context__, err.args))

line('total evaluations %d' % COUNT[0])
