# -*- coding: utf-8 -*-
"""
Probe for C09 refactoring 1 (hotxlfp/parser.py: call_function / call_variable /
call_cell_value / call_range_value and the listener-override slot).

Prints a deterministic transcript: one line per evaluation with its input, repr()
of the outcome and the events seen while it was evaluated.
"""
from __future__ import print_function
import os
import re
import sys
import random
import warnings

sys.path.insert(0, os.path.dirname(os.path.dirname(os.path.abspath(__file__))))
warnings.simplefilter('ignore')

import hotxlfp  # noqa: E402
from hotxlfp import Parser  # noqa: E402
from hotxlfp import formulas  # noqa: E402
from hotxlfp.formulas import error as xlerror  # noqa: E402

ROOT = os.path.dirname(os.path.dirname(os.path.abspath(__file__)))
ADDR = re.compile(r'0x[0-9a-fA-F]+')
COUNT = [0]


def safe_repr(v):
    try:
        r = repr(v)
    except Exception as e:  # pragma: no cover
        r = '<repr failed: %s>' % type(e).__name__
    r = r.encode('ascii', 'backslashreplace').decode('ascii')  # the transcript is plain ASCII
    return ADDR.sub('0x?', r)


def outcome(thunk):
    try:
        return 'value ' + safe_repr(thunk())
    except BaseException as e:
        return 'raised %s %s' % (type(e).__name__, safe_repr(str(e)))


def line(label, text, events=None):
    COUNT[0] += 1
    if events is None:
        print('%04d %s => %s' % (COUNT[0], label, text))
    else:
        print('%04d %s => %s | events %s' % (COUNT[0], label, text, safe_repr(events)))


class Opaque(object):
    """ a value with a fixed repr and no arithmetic """
    def __init__(self, tag):
        self.tag = tag

    def __repr__(self):
        return 'Opaque(%r)' % (self.tag,)


def recording_parser(log, var_values=None, fn_values=None, cell_values=None, range_values=None):
    """ a parser whose four events are logged; the dicts give the values the listeners set """
    p = Parser()

    def on_var(name, setter):
        log.append(('callVariable', name))
        if var_values is not None and name in var_values:
            setter(var_values[name])

    def on_fn(name, args, setter):
        log.append(('callFunction', name, safe_repr(args)))
        if fn_values is not None and name in fn_values:
            setter(fn_values[name])

    def on_cell(cell, setter):
        log.append(('callCellValue', safe_repr(cell)))
        if cell_values is not None and cell.label in cell_values:
            setter(cell_values[cell.label])

    def on_range(start, end, setter):
        log.append(('callRangeValue', safe_repr(start), safe_repr(end)))
        key = '%s:%s' % (start.label, end.label)
        if range_values is not None and key in range_values:
            setter(range_values[key])

    p.on('callVariable', on_var)
    p.on('callFunction', on_fn)
    p.on('callCellValue', on_cell)
    p.on('callRangeValue', on_range)
    return p


def evaluate(p, log, formula, label=None):
    del log[:]
    text = outcome(lambda: p.parse(formula))
    line((label + ' ' if label else '') + 'parse(%r)' % (formula,), text, list(log))


# ---------------------------------------------------------------- A. predefined
def section_predefined():
    print('## A predefined variables')
    log = []
    p = recording_parser(log)
    for f in ['TRUE', 'FALSE', 'NULL', 'true', 'False', 'null', 'TRUE+1', 'FALSE+1', 'NULL+1',
              'NULL&"x"', 'TRUE&FALSE', 'IF(TRUE,1,2)', 'IF(FALSE,1,2)', 'NOT(FALSE)', 'ISBLANK(NULL)',
              '-TRUE', 'TRUE=1', 'NULL=0', 'NULL=""', 'SUM(TRUE,TRUE)', '{TRUE,FALSE,NULL}',
              'TRUE.FALSE', 'NULL.x', ' TRUE ', 'TRUE()', 'NULL()', 'FALSE()']:
        evaluate(p, log, f)
    line('variables keys', safe_repr(sorted(Parser().variables.items(), key=lambda kv: kv[0])))
    line('functions dict', safe_repr(Parser().functions))


# ---------------------------------------------------------------- B. set variables
VALUES = [
    0, 1, -1, 2 ** 31, 2 ** 63, -2 ** 63 - 1, 10 ** 30, 0.0, -0.0, 0.5, 1e-320, 1e308, -1e308, float('inf'),
    float('-inf'), float('nan'), 1 + 2j, True, False, None, '', ' ', 'text', '12', '1e3', '#NAME?', '#DIV/0!',
    'TRUE', u'\xe9t\xe9', [], [1, 2, 3], [[1, 2], [3, 4]], [None], ['a', None, 1.5], (1, 2), {'k': 1},
    xlerror.NAME, xlerror.DIV_ZERO, xlerror.VALUE, xlerror.NOT_AVAILABLE, xlerror.ERROR, xlerror.NULL,
    xlerror.NUM, xlerror.REF, xlerror.DATA, xlerror.XLError('#CUSTOM'), ValueError('boom'), Opaque('o'),
]

NAMES = ['x', 'MY_VAR', 'a_b', '_', '__x', 'X_1', 'SUM', 'sum', 'Abc', 'TRUE', 'NULL', 'xy', 'E', 'PI']


def section_set_variables():
    print('## B variables that are set')
    log = []
    for i, v in enumerate(VALUES):
        name = NAMES[i % len(NAMES)]
        p = recording_parser(log)
        line('set_variable(%r, %s) returns self' % (name, safe_repr(v)), repr(p.set_variable(name, v) is p))
        line('get_variable(%r)' % name, outcome(lambda: p.get_variable(name)))
        evaluate(p, log, name, 'with %s=%s' % (name, safe_repr(v)))
        evaluate(p, log, '(%s)' % name)
        evaluate(p, log, '%s&""' % name)
        evaluate(p, log, '%s+1' % name)
        evaluate(p, log, '-%s' % name)
        evaluate(p, log, '%s=%s' % (name, name))
        evaluate(p, log, 'SUM(%s,1)' % name)
        evaluate(p, log, '{%s,%s}' % (name, name))
        line('call_variable(%r)' % name, outcome(lambda: p.call_variable(name)), list(log))
    # dotted sequences only use the first name
    p = recording_parser(log)
    p.set_variable('obj', 7).set_variable('attr', 9)
    for f in ['obj.attr', 'obj.nope', 'nope.attr', 'obj.attr.more', 'obj.attr+attr', 'obj.1', 'obj.']:
        evaluate(p, log, f)
    # overwriting and removing
    p = recording_parser(log)
    p.set_variable('v', 1)
    evaluate(p, log, 'v')
    p.set_variable('v', 2)
    evaluate(p, log, 'v')
    del p.variables['v']
    evaluate(p, log, 'v')
    p.variables['TRUE'] = 'shadowed'
    evaluate(p, log, 'TRUE')
    del p.variables['NULL']
    evaluate(p, log, 'NULL')
    line('get_variable missing', outcome(lambda: p.get_variable('missing')))


# ---------------------------------------------------------------- C. unknown variables
def section_unknown_variables():
    print('## C variables that are not set')
    log = []
    p = recording_parser(log)
    for f in ['y', 'MY_VAR', 'MY_VAR + 5', '5 + MY_VAR', '-y', 'y&"a"', '"a"&y', 'y=y', 'SUM(y)', 'SUM(1,y,2)',
              'IF(TRUE,1,y)', 'IF(FALSE,1,y)', 'IFERROR(y,1)', 'ISERROR(y)', '{1,y}', '(y)', 'y.z', 'a+b', 'b+a',
              '_', 'snake_case_name', 'CamelCase', 'SUM', 'PI', 'E', 'x_', 'y%', 'y^2', '2^y', 'y y', 'ISBLANK(y)',
              'N(y)', 'T(y)', 'COUNT(y)', 'COUNTA(y)', 'CONCATENATE("a",y)', 'y<>1', 'y>=1', 'AND(y)', 'OR(TRUE,y)']:
        evaluate(p, log, f)
    line('call_variable unknown', outcome(lambda: p.call_variable('nope')), list(log))
    del log[:]
    line('call_variable None', outcome(lambda: p.call_variable(None)), list(log))
    del log[:]
    line('call_variable unhashable', outcome(lambda: p.call_variable(['l'])), list(log))

    # listeners providing values for unknown names, and overriding set ones
    for v in VALUES:
        p = recording_parser(log, var_values={'given': v, 'both': v})
        p.set_variable('both', 'set-value')
        evaluate(p, log, 'given', 'listener sets %s' % safe_repr(v))
        evaluate(p, log, 'both')
        evaluate(p, log, 'other')

    # several listeners: order, None, repeated sets, stashed setters
    log = []
    p = Parser()
    stash = []

    def first(name, setter):
        log.append(('first', name))
        setter(1)
        setter(None)

    def second(name, setter):
        log.append(('second', name))
        if name == 'two':
            setter(2)
            setter(22)
        stash.append(setter)

    p.on('callVariable', first)
    p.on('callVariable', second)
    for f in ['one', 'two', 'one+two', 'two+one']:
        evaluate(p, log, f)
    for s in stash:
        s(99)
    evaluate(p, log, 'one')
    p.off('callVariable', first)
    evaluate(p, log, 'one')
    evaluate(p, log, 'two')

    # once listeners
    p = Parser()
    log = []

    def only_once(name, setter):
        log.append(('once', name))
        setter('from once')

    p.once('callVariable', only_once)
    evaluate(p, log, 'w&w')
    evaluate(p, log, 'w')

    # listeners that raise
    for exc in [xlerror.NAME, xlerror.DIV_ZERO, ValueError('bad'), KeyError('k'), Exception('#N/A')]:
        p = Parser()
        p.set_variable('v', 1)

        def raiser(name, setter, exc=exc):
            raise exc

        p.on('callVariable', raiser)
        evaluate(p, [], 'v', 'listener raises %s' % safe_repr(exc))
        evaluate(p, [], 'u')


# ---------------------------------------------------------------- D. custom functions
def make_recorder(calls, tag, ret):
    def fn(*args):
        calls.append((tag, safe_repr(args)))
        if isinstance(ret, BaseException):
            raise ret
        return ret
    return fn


RETURNS = [None, 0, 1, -2.5, '', 'txt', True, False, [], [1, 2], [[1, 2], [3, 4]], (1, 2), Opaque('r'),
           xlerror.NAME, xlerror.DIV_ZERO, xlerror.XLError('#CUSTOM')]
RAISES = [xlerror.NAME, xlerror.DIV_ZERO, xlerror.VALUE, xlerror.NOT_AVAILABLE, xlerror.NUM, xlerror.REF,
          xlerror.NULL, xlerror.ERROR, xlerror.DATA, xlerror.XLError('#CUSTOM'), xlerror.XLError('#NAME?'),
          ValueError('math domain error'), ZeroDivisionError('division by zero'), TypeError('t'),
          Exception('#DIV/0!'), Exception('#NAME?'), KeyError('#N/A'), SyntaxError('s'), RuntimeError('#NUM!'),
          OverflowError('#VALUE!')]


def section_custom_functions():
    print('## D custom functions')
    log = []
    calls = []

    def run(p, f, label=None):
        del calls[:]
        del log[:]
        text = outcome(lambda: p.parse(f))
        line((label + ' ' if label else '') + 'parse(%r)' % (f,), text, list(log) + [('calls', list(calls))])

    p = recording_parser(log)
    line('set_function returns self', repr(p.set_function('F', make_recorder(calls, 'F', 'f')) is p))
    p.set_function('G', make_recorder(calls, 'G', 10))
    p.set_function('MY.FN', make_recorder(calls, 'MY.FN', 'dotted'))
    p.set_function('F2', make_recorder(calls, 'F2', 2))
    p.set_function('f_low', make_recorder(calls, 'f_low', 'low'))
    p.set_function('SUM', make_recorder(calls, 'SUM', 'custom sum'))
    p.set_function('ABS', None)
    p.set_function('NOPE', None)
    p.set_variable('v', 5)
    for f in ['F()', 'F(1)', 'F(1,2,3)', 'F(3,2,1)', 'F(1;2;3)', 'F(1\\2\\3)', 'F(,)', 'F(1,)', 'F(,1)', 'F(1,,2)',
              'F(;;)', 'F(1;;2)', 'F(\\\\)', 'F(1,2;3,4)', 'F(1\\2;3\\4)', 'F({1,2,3})', 'F({1,2;3,4})', 'F({1;2})',
              'F("a","b")', 'F(\'q\')', 'F(TRUE,FALSE,NULL)', 'F(v)', 'F(v,v+1,-v)', 'F(unknown)', 'F(1,unknown)',
              'F(#N/A)', 'F(1/0)', 'F(1/0,2)', 'F(SQRT(-1))', 'F(A1)', 'F(A1:B2)', 'F(1%)', 'F(2^3)', 'F(.5)',
              'F(1.5)', 'F("")', 'F(" ")', 'F(F())', 'F(F(1),F(2))', 'F(G(1),G(2),G(3))', 'G(F(G(1)))',
              'G(1)+G(2)', 'G(2)*G(3)-G(4)', 'G()&F()', 'F()=F()', '-G()', 'G()%', '{G(1),G(2)}', '(F())',
              'MY.FN()', 'MY.FN(1,2)', 'F2()', 'F2(F2())', 'f_low()', 'F_LOW()', 'f()', 'G ()', 'G( 1 , 2 )',
              'SUM(1,2)', 'SUM()', 'SUM(SUM(1),SUM(2))', 'Sum(1,2)', 'sum(1,2)', 'ABS(-3)', 'ABS()', 'NOPE()',
              'NOPE(1)', 'F(NOPE())', 'F(1,NOPE(),G(2))', 'F(G(1),UNKNOWN(G(2)),G(3))', 'UNKNOWN(F(1))',
              'IF(TRUE,F(1),G(2))', 'IF(FALSE,F(1),G(2))', 'IFERROR(NOPE(),F())', 'F', 'G', 'F+1', 'F.G()',
              'F(1)(2)', 'F(1', 'F)', 'F((1))', 'F(((1,2)))', 'F(-1,-(2))', 'F(1=1,1<>1,1<2,2>=3)',
              'AVERAGE(G(),G())', 'MAX(G(1),3)', 'CONCATENATE(F(),F())', 'LEN(F())', 'SUMA(1)', 'AVERAGE(1,2)']:
        run(p, f)
    line('get_function(F) is registered', outcome(lambda: p.get_function('F') is p.functions['F']))
    line('get_function missing', outcome(lambda: p.get_function('missing')))

    for r in RETURNS:
        p = recording_parser(log)
        p.set_function('R', make_recorder(calls, 'R', r))
        p.set_function('MAX', make_recorder(calls, 'MAX', r))
        run(p, 'R()', 'returns %s' % safe_repr(r))
        run(p, 'R(1)+1')
        run(p, 'R()&"s"')
        run(p, 'MAX(1,2)')
        run(p, 'SUM(R(),1)')
        del calls[:]
        del log[:]
        line('call_function(R,[7,8])', outcome(lambda: p.call_function('R', [7, 8])), list(log) + list(calls))
    for e in RAISES:
        p = recording_parser(log)
        p.set_function('R', make_recorder(calls, 'R', e))
        run(p, 'R()', 'raises %s' % safe_repr(e))
        run(p, 'R(1)+1')
        run(p, 'IFERROR(R(),"caught")')
        run(p, 'ISERROR(R())')
        run(p, 'G(R())')
        del calls[:]
        del log[:]
        line('call_function(R)', outcome(lambda: p.call_function('R')), list(log) + list(calls))

    # listeners overriding the value of a call
    for v in VALUES:
        p = recording_parser(log, fn_values={'F': v, 'SUM': v, 'NOPE': v})
        p.set_function('F', make_recorder(calls, 'F', 'own'))
        run(p, 'F(1)', 'listener sets %s' % safe_repr(v))
        run(p, 'SUM(1,2)')
        run(p, 'NOPE(1)')
        run(p, 'MAX(F(),SUM(3))')

    # several listeners, stashed setters, once, raising listeners
    p = Parser()
    p.set_function('F', make_recorder(calls, 'F', 'own'))
    stash = []

    def first(name, args, setter):
        log.append(('first', name, safe_repr(args)))
        setter('first')
        setter(None)

    def second(name, args, setter):
        log.append(('second', name, safe_repr(args)))
        if len(args) > 1:
            setter('second')
        stash.append(setter)

    p.on('callFunction', first)
    p.on('callFunction', second)
    for f in ['F()', 'F(1)', 'F(1,2)', 'F(F(1,2))', 'SUM(1,2)', 'SUM(1)', 'NOPE(1,2)']:
        run(p, f)
    for s in stash:
        s('late')
    run(p, 'F()')
    p.off('callFunction', first)
    run(p, 'F()')
    run(p, 'F(1,2)')

    p = Parser()

    def only_once(name, args, setter):
        log.append(('once', name, safe_repr(args)))
        setter('from once')

    p.once('callFunction', only_once)
    run(p, 'SUM(1,2)&SUM(3,4)')
    run(p, 'SUM(1,2)')

    def mutate_args(name, args, setter):
        log.append(('mutate', name, safe_repr(args)))
        args.append('added')

    p = Parser()
    p.on('callFunction', mutate_args)
    p.on('callFunction', lambda name, args, setter: log.append(('after', name, safe_repr(args))))
    run(p, 'SUM(1,2)')
    run(p, 'SUM()')
    run(p, 'SUM(SUM(1),SUM())')

    for exc in [xlerror.NAME, xlerror.DIV_ZERO, ValueError('bad'), KeyError('k'), Exception('#N/A')]:
        p = Parser()
        p.set_function('F', make_recorder(calls, 'F', 'own'))

        def raiser(name, args, setter, exc=exc):
            raise exc

        p.on('callFunction', raiser)
        run(p, 'F(1)', 'listener raises %s' % safe_repr(exc))
        run(p, 'SUM(1)')
        run(p, 'NOPE(1)')
        run(p, 'IFERROR(F(1),2)')


# ---------------------------------------------------------------- E. supported names
def listed_names():
    """ the names under the two headings of SUPPORTED_FORMULAS.md: (supported, not yet supported) """
    supported, unsupported = [], []
    current = None
    with open(os.path.join(ROOT, 'SUPPORTED_FORMULAS.md')) as fh:
        for ln in fh:
            ln = ln.strip()
            if ln.startswith('#'):
                current = unsupported if 'not yet' in ln.lower() else supported
            elif ln.startswith('* ') and current is not None:
                current.append(ln[2:].strip())
    return supported, unsupported


def supported_names():
    return listed_names()[0]


VOLATILE = ('NOW', 'TODAY', 'RAND', 'RANDBETWEEN')


def section_supported():
    print('## E every name listed as supported')
    names = supported_names()
    line('listed names', '%d' % len(names))
    line('formulas.supported() == listed', repr(sorted(names) == formulas.supported()))
    log = []
    calls = []
    for name in names:
        p = recording_parser(log)
        del log[:]
        if name in VOLATILE:
            text = 'skipped (volatile)'
        else:
            r = p.parse('%s(1)' % name)
            text = 'error is #NAME? %r, outcome %s' % (r['error'] == '#NAME?', safe_repr(r))
        line('%s: is_supported %r, get_for name %r' % (name, formulas.is_supported(name),
                                                       getattr(formulas.get_for(name), '__name__', None)),
             text, list(log))
        # a custom function of the same name wins
        p.set_function(name, make_recorder(calls, name, 'custom'))
        del calls[:]
        del log[:]
        line('custom %s(2,3)' % name, outcome(lambda: p.parse('%s(2,3)' % name)), list(log) + list(calls))
    log = []
    p = recording_parser(log)
    for name in listed_names()[1]:
        if formulas.is_supported(name):
            line('%s listed as not yet supported' % name, 'is_supported True')
        else:
            evaluate(p, log, '%s(1)' % name, 'not yet supported')
    for name in ['NOPE', 'sum', 'Sum', '', None, 'SUM ', ' SUM', 'SUM(', 'S', 'CEILING.NOPE', 'TRUE', 'NULL', 1]:
        line('is_supported(%r)' % (name,), outcome(lambda: formulas.is_supported(name)))
        line('get_for(%r)' % (name,), outcome(lambda: formulas.get_for(name)))


# ---------------------------------------------------------------- F. unknown functions
def section_unknown_functions():
    print('## F functions that are neither registered nor built in')
    log = []
    p = recording_parser(log)
    p.set_variable('v', 1)
    for f in ['FOO()', 'FOO(1)', 'FOO(1,2)', 'FOO(BAR())', 'FOO(v)', 'FOO(w)', 'SUM(FOO())', 'SUM(1,FOO(),2)',
              'IF(TRUE,1,FOO())', 'IF(FALSE,1,FOO())', 'IFERROR(FOO(),1)', 'ISERROR(FOO())', 'ISBLANK(FOO())',
              'foo()', 'Sum(1)', 'sum(1)', 'sUM(1)', 'X.Y()', 'X.Y.Z(1)', 'SUM.X(1)', 'CEILING.MATHS(1)', 'A()',
              'AB()', 'A1()', 'AA11(1)', 'F_1()', 'F_()', 'FOO()+1', '1+FOO()', '-FOO()', 'FOO()&"a"', '"a"&FOO()',
              'FOO()=FOO()', '{FOO()}', '{1,FOO()}', '(FOO())', 'FOO()%', 'FOO(1/0)', 'FOO(#N/A)', 'FOO(#REF!)',
              'FOO(A1)', 'FOO(A1:B2)', 'FOO({1,2})', 'FOO(,)', 'FOO(SUM(1,2))', 'SUM(1,2)+FOO(3)', 'COUNT(FOO())',
              'COUNTA(FOO())', 'T(FOO())', 'N(FOO())', 'CONCATENATE(FOO())', 'AND(FOO())', 'OR(TRUE,FOO())',
              'TRUE()', 'FALSE()', 'NULL()', 'v()', 'v(1)', 'PI()', 'pi()', 'Pi()', 'E()', 'TRUE(1)']:
        evaluate(p, log, f)
    for name, args in [('FOO', None), ('FOO', []), ('FOO', [1]), (None, None), ('', None), ('sum', [1]),
                       ('SUM', None), ('SUM', []), ('SUM', [1, 2]), ('SUM', (1, 2)), ('SUM', 5), ('SUM', 'ab'),
                       ('SUM', [[1, 2], [3]]), ('SQRT', [-1]), ('SQRT', []), ('LN', [0]), ('PI', [1]), (1, [1]),
                       (('t',), None), ('ABS', ['x']), ('ABS', [None]), ('IF', [True]), ('NA', []),
                       ('CONCATENATE', ['a', None, 1])]:
        del log[:]
        line('call_function(%r, %r)' % (name, args), outcome(lambda: p.call_function(name, args)), list(log))
    del log[:]
    line('call_function unhashable name', outcome(lambda: p.call_function(['n'])), list(log))
    del log[:]
    line('call_function(SUM) default args', outcome(lambda: p.call_function('SUM')), list(log))


# ---------------------------------------------------------------- G. cells, ranges, event order
def section_cells_and_order():
    print('## G cells, ranges and the order of events')
    log = []
    cells = {'A1': 1, 'B2': 'b2', 'C3': None, '$A$1': 'abs', 'A$1': 'mixed', 'Z99': [1, 2], 'D4': xlerror.NAME,
             'E5': 0, 'F6': False, 'G7': ''}
    ranges = {'A1:B2': [[1, 2], [3, 4]], '$A$1:B2': 'r', 'A1:A1': [[5]], 'C3:D4': None, 'A1:C3': xlerror.REF,
              'E5:F6': [], 'A1:$B2': 0}
    p = recording_parser(log, cell_values=cells, range_values=ranges)
    calls = []
    p.set_function('F', make_recorder(calls, 'F', 'f'))
    p.set_variable('v', 3)
    for f in ['A1', 'a1', 'B2', 'C3', 'H8', '$A$1', '$a$1', 'A$1', '$A1', 'Z99', 'D4', 'E5', 'F6', 'G7', 'A1+A1',
              'A1&B2', 'SUM(A1,E5)', 'A1:B2', 'a1:b2', 'B2:A1', 'B1:A2', 'A2:B1', '$A$1:B2', 'B2:$A$1', 'A1:A1',
              'C3:D4', 'D4:C3', 'A1:C3', 'E5:F6', 'A1:$B2', '$B2:A1', 'H8:I9', 'SUM(A1:B2)', 'F(A1:B2,A1)',
              'F(A1,v,F(B2),w)', 'F(v,A1)+F(B2:A1)', 'F(A1)&F(unknown)&F(B2)', 'NOPE(A1,v)', 'F(A1,NOPE(v),B2)',
              'AA10:AB12', 'A0', 'A1:B', 'A:B', 'XFD1048576', 'A1 B2', 'F(A1 , B2)', 'IF(A1=1,B2,C3)',
              'IF(A1=2,B2,v)', 'v+A1*F()', 'F(1)+A1-v', '{A1,B2}', '-A1', 'A1%', 'abc1', 'ABC1+v', 'x1y']:
        del calls[:]
        evaluate(p, log, f)
    for lab in ['A1', 'a1', '$A$1', 'b$2', 'H8', 'bogus', '', '1A', 'A', 'A1:B2']:
        del log[:]
        line('call_cell_value(%r)' % lab, outcome(lambda: p.call_cell_value(lab)), list(log))
    del log[:]
    line('call_cell_value(None)', outcome(lambda: p.call_cell_value(None)), list(log))
    for a, b in [('A1', 'B2'), ('b2', 'a1'), ('B1', 'A2'), ('$A$1', 'b2'), (None, 'A1'), ('A1', None), (None, None),
                 ('A1', 'A1'), ('H8', 'I9'), ('bogus', 'A1'), ('A1', 'bogus'), ('C3', 'D4'), ('E5', 'F6'),
                 ('$B2', 'A$1'), ('AA10', 'A1')]:
        del log[:]
        line('call_range_value(%r, %r)' % (a, b), outcome(lambda: p.call_range_value(a, b)), list(log))

    # listeners on cells / ranges: several, None, stashed, raising
    p = Parser()
    stash = []

    def c1(cell, setter):
        log.append(('c1', safe_repr(cell)))
        setter('c1')
        setter(None)

    def c2(cell, setter):
        log.append(('c2', safe_repr(cell)))
        if cell.label == 'B2':
            setter('c2')
        stash.append(setter)

    def r1(s, e, setter):
        log.append(('r1', safe_repr(s), safe_repr(e)))
        setter([[1]])
        stash.append(setter)

    p.on('callCellValue', c1)
    p.on('callCellValue', c2)
    p.once('callRangeValue', r1)
    for f in ['A1', 'B2', 'A1&B2', 'A1:B2', 'A1:B2', 'SUM(A1:B2)']:
        evaluate(p, log, f)
    for s in stash:
        s('late')
    evaluate(p, log, 'A1')
    for exc in [xlerror.NAME, xlerror.REF, ValueError('bad'), Exception('#NUM!')]:
        p = Parser()

        def raiser(*args):
            raise exc

        p.on('callCellValue', raiser)
        p.on('callRangeValue', raiser)
        evaluate(p, [], 'A1', 'listener raises %s' % safe_repr(exc))
        evaluate(p, [], 'A1:B2')
        evaluate(p, [], 'IFERROR(A1,1)')


# ---------------------------------------------------------------- H. isolation between parsers
def section_isolation():
    print('## H parsers do not share state')
    a, b = Parser(), Parser()
    a.set_variable('v', 1)
    a.set_function('F', lambda *args: 'a')
    a.on('callVariable', lambda name, setter: setter('from a') if name == 'w' else None)
    for f in ['v', 'F()', 'w', 'TRUE', 'SUM(1,2)']:
        line('a.parse(%r)' % f, outcome(lambda: a.parse(f)))
        line('b.parse(%r)' % f, outcome(lambda: b.parse(f)))
    a.variables['TRUE'] = 'changed in a'
    line('a TRUE', outcome(lambda: a.parse('TRUE')))
    line('b TRUE', outcome(lambda: b.parse('TRUE')))
    line('fresh TRUE', outcome(lambda: Parser().parse('TRUE')))
    line('b variables', safe_repr(sorted(b.variables.items())))
    line('b functions', safe_repr(b.functions))
    line('builtins untouched', repr(formulas.is_supported('F')))
    # the same formula repeatedly on one parser
    calls = []
    a.set_function('C', make_recorder(calls, 'C', 1))
    for i in range(3):
        del calls[:]
        line('repeat %d a.parse("C(1)+C(2)")' % i, outcome(lambda: a.parse('C(1)+C(2)')), list(calls))
    line('parse("")', outcome(lambda: a.parse('')))
    line('parse(" ")', outcome(lambda: a.parse(' ')))
    line('parse(None)', outcome(lambda: a.parse(None)))
    line('parse(5)', outcome(lambda: a.parse(5)))


# ---------------------------------------------------------------- I. generated formulas
def gen(rng, depth):
    atoms = ['1', '2.5', '"s"', 'TRUE', 'NULL', 'v', 'w', 'unknown', 'A1', 'B2', 'A1:B2', '#N/A', '{1,2}', '""']
    funcs = ['F', 'G', 'SUM', 'MAX', 'NOPE', 'IF', 'IFERROR', 'CONCATENATE', 'ABS', 'nope', 'MY.FN', 'ISERROR']
    ops = ['+', '-', '*', '/', '&', '=', '<>', '<', '>=']
    if depth <= 0 or rng.random() < 0.25:
        return rng.choice(atoms)
    k = rng.random()
    if k < 0.5:
        n = rng.choice([0, 1, 1, 2, 2, 3])
        sep = rng.choice([',', ',', ',', ';'])
        return '%s(%s)' % (rng.choice(funcs), sep.join(gen(rng, depth - 1) for _ in range(n)))
    if k < 0.8:
        return '%s%s%s' % (gen(rng, depth - 1), rng.choice(ops), gen(rng, depth - 1))
    if k < 0.9:
        return '(%s)' % gen(rng, depth - 1)
    return '-%s' % gen(rng, depth - 1)


def section_generated():
    print('## I generated formulas')
    rng = random.Random(909)
    log = []
    calls = []
    for i in range(160):
        p = recording_parser(log, var_values={'w': 'listener w'}, fn_values={'G': 'listener G'},
                             cell_values={'A1': 4}, range_values={'A1:B2': [[1, 2], [3, 4]]})
        p.set_variable('v', 3)
        p.set_function('F', make_recorder(calls, 'F', 2))
        p.set_function('G', make_recorder(calls, 'G', 3))
        p.set_function('MAX', make_recorder(calls, 'MAX', 'custom max'))
        p.set_function('MY.FN', make_recorder(calls, 'MY.FN', xlerror.VALUE))
        f = gen(rng, 3)
        del calls[:]
        del log[:]
        text = outcome(lambda: p.parse(f))
        line('parse(%r)' % f, text, list(log) + [('calls', list(calls))])


def main():
    line('hotxlfp.Parser is parser.Parser', repr(hotxlfp.Parser is Parser))
    section_predefined()
    section_set_variables()
    section_unknown_variables()
    section_custom_functions()
    section_supported()
    section_unknown_functions()
    section_cells_and_order()
    section_isolation()
    section_generated()
    print('## total evaluations %d' % COUNT[0])


if __name__ == '__main__':
    main()
