# -*- coding: utf-8 -*-
"""
Probe for C09 refactoring 4 (the three expseq* grammar actions of
hotxlfp/grammarparser/parser.py share one helper that builds the argument list).

Prints one line per evaluation: the formula, repr() of the outcome, the arguments every
custom function was called with (in call order) and the events the listeners saw.
"""
from __future__ import print_function
import os
import sys

ROOT = os.path.dirname(os.path.dirname(os.path.abspath(__file__)))
sys.path.insert(0, ROOT)

import hotxlfp  # noqa: E402
from hotxlfp import Parser  # noqa: E402
from hotxlfp.formulas import error as xlerror  # noqa: E402

COUNT = [0]
CALLS = []


def deep(x):
    if isinstance(x, BaseException):
        return '%s(%s)' % (type(x).__name__, x)
    if isinstance(x, list):
        return '[' + ', '.join(deep(i) for i in x) + ']'
    if isinstance(x, tuple):
        return '(' + ', '.join(deep(i) for i in x) + ')'
    return repr(x)


def f_echo(*args):
    CALLS.append('ECHO' + deep(list(args)))
    return list(args)


def f_nargs(*args):
    CALLS.append('NARGS' + deep(list(args)))
    return len(args)


def f_join(*args):
    CALLS.append('JOIN' + deep(list(args)))
    return '|'.join(deep(a) for a in args)


def f_custom_sum(*args):
    CALLS.append('MAX' + deep(list(args)))
    return ('custom max', len(args))


def f_raises(*args):
    CALLS.append('BAD' + deep(list(args)))
    raise xlerror.NOT_AVAILABLE


class Events(object):

    def __init__(self, parser):
        self.seen = []
        parser.on('callFunction', self.on_function)
        parser.on('callVariable', self.on_variable)
        parser.on('callCellValue', self.on_cell)
        parser.on('callRangeValue', self.on_range)

    def take(self):
        seen, self.seen = self.seen, []
        return seen

    def on_function(self, name, args, valsetter):
        self.seen.append('F:%s%s' % (name, deep(args)))

    def on_variable(self, name, valsetter):
        self.seen.append('V:%s' % (name,))

    def on_cell(self, cell, valsetter):
        self.seen.append('C:%s' % (cell.label,))
        valsetter(cell.row.index * 100 + cell.col.index)

    def on_range(self, start, end, valsetter):
        self.seen.append('R:%s:%s' % (start.label, end.label))
        valsetter([[r * 100 + c for c in range(start.col.index, end.col.index + 1)]
                   for r in range(start.row.index, end.row.index + 1)])


def make_parser(with_events):
    parser = Parser()
    parser.set_function('ECHO', f_echo)
    parser.set_function('NARGS', f_nargs)
    parser.set_function('JOIN', f_join)
    parser.set_function('MAX', f_custom_sum)  # takes precedence over the built-in MAX
    parser.set_function('BAD', f_raises)
    parser.set_variable('x', 2)
    parser.set_variable('y', 'why')
    parser.set_variable('arr', [1, [2, 3]])
    parser.set_variable('blank', None)
    parser.set_variable('err', xlerror.NUM)
    return parser, (Events(parser) if with_events else None)


def run(tag, parser, events, formula):
    del CALLS[:]
    try:
        ret = parser.parse(formula)
        out = '{result: %s, error: %s}' % (deep(ret['result']), deep(ret['error']))
    except BaseException as e:  # not expected
        out = 'RAISED %s(%s)' % (type(e).__name__, e)
    COUNT[0] += 1
    line = '%04d [%s] %r -> %s | calls=%r' % (COUNT[0], tag, formula, out, list(CALLS))
    if events is not None:
        line += ' | events=%r' % (events.take(),)
    print(line)


# one-separator patterns, ~ stands for the separator
PATTERNS = [
    '1', '1~2', '1~2~3', '1~2~3~4~5~6~7~8~9~10~11~12',
    '~', '~~', '~~~', '~~~~',
    '~1', '1~', '~~1', '1~~', '~1~', '~~1~~',
    '1~~2', '1~~~2', '1~~2~~3', '1~2~~3', '1~~2~3',
    '~1~2', '1~2~', '~~1~2', '~1~~2', '1~2~~', '~1~2~',
    '"a"~"b"', '"a~b"~2', "'p'~'q'", '""~""',
    'x~y', 'x~unknown', 'unknown~x', 'blank~err~arr',
    '1+2~3*4', '-1~-2', '1=1~2<>2', '"a"&"b"~1%', '2^3~.5~1.5',
    '(1)~(2)', '(1~2)', '(1)~',
    '{1~2}', '{1~2}~3', '3~{1~2}', '{1~2}~{3~4}', '{1}~{}', '{~}', '{~~}', '{1~~2}', '{~1}', '{1~}',
    '#N/A~1', '1~#REF!', '1/0~2', '#NAME?~#NAME?',
    'A1~B2', 'A1:B2~C3', '$A$1~A$1~$A1',
    'TRUE~FALSE~NULL',
    '1 ~ 2', ' 1~2 ', '1~ 2~  3',
    'ECHO(1~2)~3', 'ECHO()~ECHO(1)~ECHO(1~2)', 'NARGS(~)~NARGS(~~)', 'ECHO(ECHO(ECHO(1~2)~3)~4)',
    'NOPE(1)~2', '1~NOPE(2)', 'BAD(1~2)~3', 'SUM(1~2)~SUM(3~4)', 'IF(TRUE~1~2)~IF(FALSE~1~2)',
]

SEPARATORS = [(',', 'comma'), (';', 'semicolon'), ('\\', 'backslash')]

WRAPPERS = ['ECHO(%s)', 'NARGS(%s)', '{%s}', 'SUM(%s)', 'NOPE(%s)', 'JOIN(0, %s)']

# patterns that mix the separators: rows of an array literal, and things that are not sequences
MIXED = [
    '1,2;3,4', '1,2;3,4;5,6', '1,2,3;4,5,6', '1;2,3', '1,2;3', '1;2;3,4', '1,2;3;4',
    '1\\2;3\\4', '1\\2;3\\4;5\\6', '1\\2\\3;4\\5\\6', '1;2\\3', '1\\2;3',
    '1,2;3\\4', '1\\2;3,4', '1,2\\3', '1\\2,3', '1,2\\3;4', '1;2,3\\4',
    '1,;2,', ',1;,2', '1,,2;3,,4', ',,;,,', ',;,', '1,2;;3,4', ';1,2', '1,2;', ';;1,2', '1,2;;',
    '1\\;2\\', '\\1;\\2', '\\\\;\\\\', '1\\\\2;3\\\\4',
    '{1,2};{3,4}', '{1,2;3,4}', '{1,2;3,4},5', '5;{1,2;3,4}', '{{1,2};{3,4}}', '{1;2},{3;4}', '{1\\2},{3\\4}',
    'x,y;y,x', 'x,unknown;1,2', '"a;b","c,d";"e\\f",1', 'A1,B1;A2,B2', 'A1:B1;A2:B2', '1+1,2+2;3+3,4+4',
    'ECHO(1,2);ECHO(3,4)', 'ECHO(1;2),ECHO(3;4)', 'ECHO(1,2;3,4),ECHO(5\\6;7\\8)', 'NARGS(1,2;3,4),NARGS(1;2;3)',
    '1,2;3,4;', '1,2;3,4;5', '1;2,3;4', '1,2;3,4;5,6;7,8', '#N/A,1;2,#REF!', 'BAD(1),2;3,BAD(4)',
    'TRUE,FALSE;NULL,TRUE', '-1,-2;-3,-4', '(1,2);(3,4)', '1,2;(3),(4)', '1 , 2 ; 3 , 4', '1,2:3', '1:2',
]

EXTRA = [
    'ECHO()', 'NARGS()', 'JOIN()', 'MAX()', 'MAX(1, 2)', 'MAX(1; 2)', 'MAX(1 \\ 2)', 'MIN(1, 2)', 'MIN(3; 1; 2)',
    'MIN({3, 1; 2, 0})', 'SUM({1, 2; 3, 4})', 'SUM({1\\2; 3\\4})', 'SUM(1, {2; 3}, {4, 5; 6, 7})',
    'SUM(,)', 'SUM(1,)', 'SUM(,1)', 'SUM(1,,2)', 'COUNTA(1,,2)', 'COUNTA(,)', 'COUNTBLANK({1,,2})',
    'CONCATENATE("a", , "b")', 'CONCATENATE("a"; "b"; "c")', 'IF(, 1, 2)', 'IF(TRUE, , 2)', 'IF(FALSE, 1, )',
    'IF(TRUE; "yes"; "no")', 'CHOOSE(2, "a", "b", "c")', 'CHOOSE(3; "a"; "b"; "c")', 'INDEX({1, 2; 3, 4}, 2, 1)',
    'ROWS({1, 2; 3, 4; 5, 6})', 'COLUMNS({1, 2; 3, 4; 5, 6})', 'ROWS({1; 2; 3})', 'COLUMNS({1, 2, 3})',
    'TRANSPOSE({1, 2; 3, 4})', 'AND(TRUE, TRUE, FALSE)', 'OR(FALSE; FALSE; TRUE)', 'AVERAGE(1, 2, 3, 4)',
    'ECHO(1, 2) & ECHO(3)', 'ECHO(1) + ECHO(2, 3)', 'NARGS(1, 2) * NARGS(1, 2, 3) - NARGS()',
    'ECHO(x.y, 1)', 'ECHO(x.y.z, y.x)', 'ECHO(unknown.x)', 'x.y', 'ECHO(1.5, .5, 2.)', 'ECHO(1.2.3)',
    'ECHO(1, 2', 'ECHO 1, 2)', 'ECHO(1 2)', '1, 2', '1; 2', '1 \\ 2', ',', ';', '\\', '{', '}', '{}', '{,}', '{1, 2',
    'ECHO(,', 'ECHO(;)', 'ECHO(\\)', 'ECHO(,;)', 'ECHO(;,)', 'ECHO(,\\)', 'ECHO({,;,})', 'ECHO({1,2},{3;4},{5\\6})',
]


def main():
    first, first_events = make_parser(True)
    second, second_events = make_parser(False)

    for sep, sep_name in SEPARATORS:
        for pattern in PATTERNS:
            inner = pattern.replace('~', sep)
            for wrapper in WRAPPERS[:3]:
                run(sep_name, first, first_events, wrapper % inner)
            run(sep_name, first, first_events, inner)

    # the remaining wrappers on a smaller set, on the second parser
    for sep, sep_name in SEPARATORS:
        for pattern in PATTERNS[:31]:
            inner = pattern.replace('~', sep)
            for wrapper in WRAPPERS[3:]:
                run(sep_name + '/2', second, second_events, wrapper % inner)

    for inner in MIXED:
        for wrapper in ('ECHO(%s)', '{%s}', 'NARGS(%s)', 'SUM(%s)'):
            run('mixed', first, first_events, wrapper % inner)

    for formula in EXTRA:
        run('extra', first, first_events, formula)
        run('extra/2', second, second_events, formula)

    # the same things once more, on both parsers: nothing is remembered between evaluations
    for inner in MIXED[:20]:
        run('again', first, first_events, 'ECHO(%s)' % inner)
        run('again/2', second, second_events, 'ECHO(%s)' % inner)
    third, third_events = make_parser(True)
    for sep, sep_name in SEPARATORS:
        for pattern in PATTERNS[:31]:
            run('third', third, third_events, 'ECHO(%s)' % pattern.replace('~', sep))

    print('evaluations: %d' % COUNT[0])


if __name__ == '__main__':
    main()
