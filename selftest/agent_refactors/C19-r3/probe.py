# -*- coding: utf-8 -*-
"""Probe for C19 refactoring 3 (column letter <-> index conversion).

Prints a deterministic transcript: one line per evaluation with the input and
repr() of the outcome (or the exception type and message).
"""
from __future__ import print_function
import os
import sys
import random
from decimal import Decimal
from fractions import Fraction

sys.path.insert(0, os.path.dirname(os.path.dirname(os.path.abspath(__file__))))

import hotxlfp  # noqa: E402
from hotxlfp.helper import cell as cellmod  # noqa: E402

COUNT = [0]


def show(kind, arg, fn):
    COUNT[0] += 1
    try:
        outcome = repr(fn())
    except Exception as e:  # the exception type and text are part of the behaviour
        outcome = 'raised %s: %s' % (type(e).__name__, e)
    print('%04d %s %s -> %s' % (COUNT[0], kind, arg, outcome))


class Idx(int):
    """int subclass, to check subclasses are treated as plain ints"""


class Txt(str):
    """str subclass, to check subclasses are treated as plain strings"""


rng = random.Random(1919)
LETTERS = 'ABCDEFGHIJKLMNOPQRSTUVWXYZ'

# ---------------------------------------------------------------- column_label_to_index
labels = ['', 'A', 'B', 'Y', 'Z', 'a', 'z', 'AA', 'AB', 'AZ', 'BA', 'ZY', 'ZZ', 'AAA', 'AAB',
          'XFD', 'xfd', 'XfD', 'ZZZ', 'AAAA', 'ZZZZ', 'aZ', 'Za', 'FXSHRXW', 'ZZZZZZZZZZZZ',
          'A' * 40, 'Z' * 40,
          # characters that are not column letters count as digit 0
          '1', 'A1', '1A', 'A 1', ' A', 'A ', '$A', 'A$', '$', '_', 'A_B', 'A-B', '\t', '\n', 'A\n',
          u'é', u'Aé', u'éA', u'ß', u'aßb', u'ı', u'İ', u'ﬁ',
          u'Α', u'Ａ', u'\U0001d400', '@', '[', '`', '{', 'A@Z', 'a[z', '0', '00', 'A0A',
          Txt('AB'), Txt('zz'), Txt('')]
for lab in labels:
    show('column_label_to_index', repr(lab), lambda lab=lab: cellmod.column_label_to_index(lab))
for lab in [None, 0, 1, 26, -1, 1.5, True, False, b'A', b'AB', bytearray(b'A'), ['A'], ('A', 'B'),
            {'A': 1}, object, 3 + 4j, Decimal('1'), Fraction(1, 2), float('nan'), float('inf')]:
    show('column_label_to_index', repr(lab), lambda lab=lab: cellmod.column_label_to_index(lab))
for _ in range(60):
    n = rng.randint(1, 9)
    lab = ''.join(rng.choice(LETTERS + LETTERS.lower()) for _ in range(n))
    show('column_label_to_index', repr(lab), lambda lab=lab: cellmod.column_label_to_index(lab))
for _ in range(20):
    n = rng.randint(1, 6)
    lab = ''.join(rng.choice(LETTERS + 'abc019$ _.' + u'éß') for _ in range(n))
    show('column_label_to_index', repr(lab), lambda lab=lab: cellmod.column_label_to_index(lab))

# ---------------------------------------------------------------- column_index_to_label
indices = list(range(-3, 60)) + [675, 676, 700, 701, 702, 703, 727, 728, 1000, 16383, 16384,
                                 18277, 18278, 18279, 475253, 475254, 475255, 12356629, 12356630,
                                 12356631, 10 ** 12, 10 ** 30, 26 ** 20, 26 ** 20 - 1, 2 ** 64]
for idx in indices:
    show('column_index_to_label', repr(idx), lambda idx=idx: cellmod.column_index_to_label(idx))
odd = [0.0, -0.0, 0.5, 0.999, 1.0, 25.0, 25.9, 26.0, 26.5, 701.99, 702.0, -0.5, -1.0, -1e-9, 1e15,
       1e22, float('nan'), float('inf'), float('-inf'), True, False, Idx(0), Idx(27), Idx(-5),
       Decimal('0'), Decimal('27.9'), Decimal('-1'), Decimal('NaN'), Fraction(53, 2), Fraction(-1, 2),
       None, 'A', '1', '', b'1', [], [1], (1,), {}, 3 + 4j, object]
for idx in odd:
    show('column_index_to_label', repr(idx), lambda idx=idx: cellmod.column_index_to_label(idx))
for _ in range(60):
    idx = rng.randint(0, 10 ** rng.randint(1, 12))
    show('column_index_to_label', repr(idx), lambda idx=idx: cellmod.column_index_to_label(idx))

# ---------------------------------------------------------------- round trips
for idx in list(range(0, 80)) + [rng.randint(0, 10 ** 9) for _ in range(40)]:
    show('index->label->index', repr(idx),
         lambda idx=idx: cellmod.column_label_to_index(cellmod.column_index_to_label(idx)))
for _ in range(40):
    lab = ''.join(rng.choice(LETTERS) for _ in range(rng.randint(1, 7)))
    if rng.random() < 0.5:
        lab = lab.lower()
    show('label->index->label', repr(lab),
         lambda lab=lab: cellmod.column_index_to_label(cellmod.column_label_to_index(lab)))

# ---------------------------------------------------------------- extract_label / to_label
cell_labels = ['A1', 'a1', '$A1', 'A$1', '$A$1', 'Z9', 'AA10', '$aa$10', 'XFD1048576', 'xfd1048576',
               'ZZZ999', 'A0', 'A00', 'A01', 'A007', '$b$007', 'AbC12', 'A1\n', ' A1', 'A1 ', 'A', '1',
               '', '$', '$$A1', 'A$$1', 'A1$', '1A', 'A-1', 'A1.0', 'A1:B2', u'É1', u'A١',
               'R1C1', 'A' * 30 + '1', 'B' + '9' * 30]
for lab in cell_labels:
    show('extract_label', repr(lab), lambda lab=lab: cellmod.extract_label(lab))
for lab in cell_labels:
    def recompose(lab=lab):
        parts = cellmod.extract_label(lab)
        if not parts:
            return None
        row, col = parts
        return cellmod.to_label(row, col)
    show('extract->to_label', repr(lab), recompose)
for _ in range(60):
    lab = ''.join(rng.choice(LETTERS + LETTERS.lower()) for _ in range(rng.randint(1, 4)))
    lab = rng.choice(['', '$']) + lab + rng.choice(['', '$']) + str(rng.randint(1, 10 ** rng.randint(1, 7)))

    def recompose(lab=lab):
        row, col = cellmod.extract_label(lab)
        return (row, col, cellmod.to_label(row, col))
    show('extract->to_label', repr(lab), recompose)
PL = cellmod.ParsedLabel
for r, c in [(PL(0, '1', False), PL(0, 'A', False)), (PL(9, '10', True), PL(27, 'AB', True)),
             (PL(-1, '0', False), PL(-1, '', False)), (PL(5, 'x', 1), PL(2.7, 'y', 0)),
             (PL(3, '4', ''), PL(16383, 'XFD', '$')), (PL(0, '1', None), PL(None, 'A', None)),
             (PL(None, '1', False), PL(0, 'A', False)), (PL('3', '4', False), PL(0, 'A', False)),
             (PL(0, '1', False), PL('3', 'A', False)), (PL(2, '3', True), PL(float('nan'), 'A', True)),
             (PL(2, '3', True), PL(float('inf'), 'A', True)), (PL(1.5, '2', False), PL(True, 'B', False))]:
    show('to_label', repr((r, c)), lambda r=r, c=c: cellmod.to_label(r, c))
for lab in [None, 12, 1.5, b'A1', ['A1'], ('A', 1)]:
    show('extract_label', repr(lab), lambda lab=lab: cellmod.extract_label(lab))

# ---------------------------------------------------------------- through the parser, with events


def make_parser():
    p = hotxlfp.Parser()
    events = []

    def value_at(r, c):
        return (r + 1) * 100 + (c + 1)

    def on_cell(cell, done):
        events.append(('cell', cell.label, tuple(cell.row), tuple(cell.col), repr(cell)))
        if cell.row.index >= 0 and cell.col.index % 7 != 6:
            done(value_at(cell.row.index, cell.col.index))

    def on_range(start, end, done):
        events.append(('range', start.label, tuple(start.row), tuple(start.col),
                       end.label, tuple(end.row), tuple(end.col), repr(start), repr(end)))
        rows = range(max(start.row.index, 0), min(end.row.index, start.row.index + 5) + 1)
        cols = range(max(start.col.index, 0), min(end.col.index, start.col.index + 5) + 1)
        done([[value_at(r, c) for c in cols] for r in rows])

    p.on('callCellValue', on_cell)
    p.on('callRangeValue', on_range)
    return p, events


formulas = ['A1', 'a1', '$A$1', '$a1', 'a$1', 'Z1', 'AA1', 'aA1', 'AZ12', 'BA12', 'ZZ3', 'AAA3', 'XFD1048576',
            'G1', 'g2', 'N5', 'A0', 'B00', 'C007', 'A1+B2', 'A1*$B$2-c3', 'SUM(A1:B3)', 'SUM(B3:A1)',
            'SUM($A$1:$B$3)', 'SUM($B3:A$1)', 'A1:C2', 'C2:A1', 'A2:C1', 'C1:A2', 'a1:a1', 'AA10:AB11',
            'ab11:aa10', 'Z1:AA2', 'AA2:Z1', 'ZZ1:AAA1', 'AAA1:ZZ1', 'A0:B1', 'B1:A0', 'A1:XFD2',
            'SUM(A1:A100)', 'MAX(Y1:AB3)', 'COUNT(A1:Z1)', 'AVERAGE($C$3:$A$1)', 'IF(A1>B1,AA1,ZZ1)',
            'ISBLANK(G1)', 'ISBLANK(H1)', 'CONCATENATE(A1,"-",b1)', 'A1&B1', '-A1', 'A1%', '(AZ9)',
            'SUM(A1,B1:C2,$D$4)', 'INDEX(A1:C3,2,2)', 'ROWS(A1:C9)', 'COLUMNS(A1:C9)', 'A', '1', 'A1B',
            'A1:', ':A1', 'A1:B', '$A', 'A$', '$$A1', 'A$1$', 'LOG10(AB1)', 'abc123', 'ABCD99999',
            'SUM(zz9:AAA7)', 'FXSHRXW1', 'fxshrxw2:A1']
p1, ev1 = make_parser()
p2, ev2 = make_parser()
for rnd in range(2):
    for f in formulas:
        for name, p, ev in (('p1', p1, ev1), ('p2', p2, ev2)):
            if name == 'p2' and rnd == 1:
                continue
            del ev[:]
            COUNT[0] += 1
            res = p.parse(f)
            print('%04d parse[%s round %d] %r -> %r events=%r' % (COUNT[0], name, rnd, f, res, ev))
for _ in range(60):
    a = ''.join(rng.choice(LETTERS + LETTERS.lower()) for _ in range(rng.randint(1, 3)))
    b = ''.join(rng.choice(LETTERS + LETTERS.lower()) for _ in range(rng.randint(1, 3)))
    f = '%s%s%s%d:%s%s%s%d' % (rng.choice(['', '$']), a, rng.choice(['', '$']), rng.randint(0, 500),
                               rng.choice(['', '$']), b, rng.choice(['', '$']), rng.randint(0, 500))
    if rng.random() < 0.4:
        f = 'SUM(%s)' % f
    del ev1[:]
    COUNT[0] += 1
    res = p1.parse(f)
    print('%04d parse[p1 random] %r -> %r events=%r' % (COUNT[0], f, res, ev1))

print('total evaluations: %d' % COUNT[0])
