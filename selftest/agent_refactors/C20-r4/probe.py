# -*- coding: utf-8 -*-
"""Probe for C20 refactoring 4 (Emitter.once: fired flag kept in the closure; Emitter.emit: tuple snapshot + unpacking).

Prints one line per evaluation: the operation, its outcome, the events seen while it ran
(listener calls, and every comparison / truth test / attribute lookup that the emitter
performs on the callbacks) and the subscription table afterwards.
"""
from __future__ import print_function
import functools
import os
import random
import sys
import types

sys.path.insert(0, os.path.dirname(os.path.dirname(os.path.abspath(__file__))))

import hotxlfp  # noqa: E402
from hotxlfp.tinyemitter import Emitter  # noqa: E402

LOG = []
COUNT = [0]
CURRENT = [None]   # emitter the listener actions work on
DEPTH = [0]


def note(*items):
    LOG.append(items)


def label_of(x):
    if isinstance(x, types.MethodType):
        return label_of(x.__self__) + '.m'
    if isinstance(x, types.FunctionType):
        inner = x.__dict__.get('_')
        if inner is not None:
            return 'once<' + label_of(inner) + '>'
        return x.__name__
    if isinstance(x, functools.partial):
        return 'partial<' + label_of(x.func) + '>'
    if isinstance(x, types.BuiltinFunctionType):
        return 'builtin<' + x.__name__ + '>'
    try:
        return object.__getattribute__(x, 'label')
    except AttributeError:
        return type(x).__name__


def show(v):
    """repr without memory addresses"""
    if isinstance(v, (types.FunctionType, types.MethodType, functools.partial, types.BuiltinFunctionType)):
        return '<' + label_of(v) + '>'
    if isinstance(v, (list, tuple)):
        inner = ', '.join(show(i) for i in v)
        if isinstance(v, list):
            return '[' + inner + ']'
        return '(' + inner + (',)' if len(v) == 1 else ')')
    if isinstance(v, dict):
        return '{' + ', '.join('%s: %s' % (show(k), show(v[k])) for k in sorted(v, key=repr)) + '}'
    if isinstance(v, Rec):
        return '<' + label_of(v) + '>'
    return repr(v)


def subs(em):
    parts = []
    for key in sorted(em._e, key=lambda k: (type(k).__name__, repr(k))):
        entries = []
        for listener in em._e[key]:
            ctx = listener.ctx
            entries.append(label_of(listener.fn) + ('' if ctx == {} and isinstance(ctx, dict) else '@' + show(ctx)))
        parts.append('%s=%s' % (show(key), '[' + ','.join(entries) + ']'))
    return '{' + ' '.join(parts) + '}'


def run(em, desc, thunk):
    del LOG[:]
    COUNT[0] += 1
    CURRENT[0] = em
    DEPTH[0] = 0
    try:
        out = thunk()
        outcome = 'self' if out is em else show(out)
    except Exception as e:  # noqa
        outcome = 'raised %s: %s' % (type(e).__name__, e)
    print('%04d %s -> %s | events=%s | subs=%s' % (COUNT[0], desc, outcome, show(list(LOG)), subs(em)))


# --------------------------------------------------------------------------- callbacks

class Rec(object):
    """callable object, identity equality"""

    def __init__(self, label, action=None):
        self.label = label
        self.action = action

    def __call__(self, *args, **kw):
        note('call', self.label, args, sorted(kw.items()))
        if self.action is not None:
            self.action(self)


class KeyEq(Rec):
    """equal to every KeyEq with the same key; logs comparisons"""

    def __init__(self, label, key, action=None):
        Rec.__init__(self, label, action)
        self.key = key

    def __eq__(self, other):
        note('eq', self.label, label_of(other))
        return isinstance(other, KeyEq) and other.key == self.key

    def __ne__(self, other):
        note('ne', self.label, label_of(other))
        return not (isinstance(other, KeyEq) and other.key == self.key)

    def __hash__(self):
        return hash(self.key)


class NeverDifferent(Rec):
    """!= is always False: looks like every callback"""

    def __ne__(self, other):
        note('ne', self.label, label_of(other))
        return False

    def __eq__(self, other):
        note('eq', self.label, label_of(other))
        return True

    __hash__ = Rec.__hash__


class Verdict(object):
    def __init__(self, label, value):
        self.label = label
        self.value = value

    def __bool__(self):
        note('bool', self.label, self.value)
        return self.value

    __nonzero__ = __bool__


class OddNe(Rec):
    """!= returns a non-bool object whose truth test is logged"""

    def __ne__(self, other):
        note('ne', self.label, label_of(other))
        return Verdict('verdict(%s,%s)' % (self.label, label_of(other)), other is not self)

    def __eq__(self, other):
        return other is self

    __hash__ = Rec.__hash__


class Falsy(Rec):
    """a callback that is false in a boolean context"""

    def __bool__(self):
        note('bool', self.label)
        return False

    __nonzero__ = __bool__


class Sized(Rec):
    """truth comes from __len__"""

    def __init__(self, label, n):
        Rec.__init__(self, label)
        self.n = n

    def __len__(self):
        note('len', self.label)
        return self.n


class Wrapperish(Rec):
    """carries a `_` attribute like a once-wrapper does"""

    def __init__(self, label, inner, action=None):
        Rec.__init__(self, label, action)
        self._ = inner


class Spy(Rec):
    """logs lookups of attributes it does not have"""

    def __getattr__(self, attr):
        note('getattr', object.__getattribute__(self, 'label'), attr)
        raise AttributeError(attr)


class SpyWithInner(Rec):
    """computes `_` on demand and logs it"""

    def __init__(self, label, inner):
        Rec.__init__(self, label)
        self.inner = inner

    def __getattr__(self, attr):
        note('getattr', object.__getattribute__(self, 'label'), attr)
        if attr == '_':
            return object.__getattribute__(self, 'inner')
        raise AttributeError(attr)


class Holder(object):
    def __init__(self, label):
        self.label = label

    def m(self, *args, **kw):
        note('call', self.label + '.m', args, sorted(kw.items()))


def make_func(label, action=None):
    def f(*args, **kw):
        note('call', label, args, sorted(kw.items()))
        if action is not None:
            action(f)
    f.__name__ = label
    return f


def strict2(a, b):
    note('call', 'strict2', (a, b), [])


def kwonly(a=None, flag=None):
    note('call', 'kwonly', (a,), [('flag', flag)])


# ------------------------------------------------------------------------ listener actions

def act_off_self(name):
    def action(me):
        CURRENT[0].off(name, me)
        note('did', 'off', show(name), label_of(me))
    return action


def act_off_name(name):
    def action(me):
        CURRENT[0].off(name)
        note('did', 'off', show(name))
    return action


def act_off_other(name, other):
    def action(me):
        CURRENT[0].off(name, other)
        note('did', 'off', show(name), label_of(other))
    return action


def act_on(name, other, ctx=None):
    def action(me):
        CURRENT[0].on(name, other, ctx)
        note('did', 'on', show(name), label_of(other))
    return action


def act_once(name, other, ctx=None):
    def action(me):
        CURRENT[0].once(name, other, ctx)
        note('did', 'once', show(name), label_of(other))
    return action


def act_emit(name, *args):
    def action(me):
        if DEPTH[0] >= 2:
            note('did', 'emit-skipped', show(name))
            return
        DEPTH[0] += 1
        try:
            note('did', 'emit-begin', show(name))
            CURRENT[0].emit(name, *args)
            note('did', 'emit-end', show(name))
        finally:
            DEPTH[0] -= 1
    return action


def act_raise(exc):
    def action(me):
        raise exc
    return action


# ------------------------------------------------------------------------ part A: scripted

def part_a():
    print('# part A: scripted emitter scenarios')
    em = Emitter()
    f1, f2, f3 = make_func('f1'), make_func('f2'), make_func('f3')
    r1, r2 = Rec('r1'), Rec('r2')
    h = Holder('h')
    g = Holder('g')

    run(em, "emit('a') nothing subscribed", lambda: em.emit('a'))
    run(em, "off('a') nothing subscribed", lambda: em.off('a'))
    run(em, "off('a', f1) nothing subscribed", lambda: em.off('a', f1))
    run(em, "off('zz') after emit('zz')", lambda: em.emit('zz').off('zz'))
    run(em, "on('a', f1)", lambda: em.on('a', f1))
    run(em, "on('a', f2, {'k': 1})", lambda: em.on('a', f2, {'k': 1}))
    run(em, "once('a', f3)", lambda: em.once('a', f3))
    run(em, "on('b', r1)", lambda: em.on('b', r1))
    run(em, "emit('a', 1, 'x')", lambda: em.emit('a', 1, 'x'))
    run(em, "emit('a', 2)", lambda: em.emit('a', 2))
    run(em, "emit('b')", lambda: em.emit('b'))
    run(em, "emit('c', 5)", lambda: em.emit('c', 5))
    run(em, "off('a', f1)", lambda: em.off('a', f1))
    run(em, "emit('a')", lambda: em.emit('a'))
    run(em, "off('a', f1) again", lambda: em.off('a', f1))
    run(em, "off('a', f2)", lambda: em.off('a', f2))
    run(em, "emit('a')", lambda: em.emit('a'))
    run(em, "off('b', f1) other callback", lambda: em.off('b', f1))
    run(em, "emit('b', None)", lambda: em.emit('b', None))
    run(em, "off('b')", lambda: em.off('b'))
    run(em, "emit('b')", lambda: em.emit('b'))
    run(em, "off('c')", lambda: em.off('c'))

    # duplicates, order, once removal through the callback
    for cb in (f1, f2, f1, r1, f3):
        run(em, "on('a', %s)" % label_of(cb), lambda cb=cb: em.on('a', cb))
    run(em, "once('a', f1, {'o': 1})", lambda: em.once('a', f1, {'o': 1}))
    run(em, "once('a', f2)", lambda: em.once('a', f2))
    run(em, "once('a', r2)", lambda: em.once('a', r2))
    run(em, "off('a', f1) removes plain and once", lambda: em.off('a', f1))
    run(em, "emit('a', 'p')", lambda: em.emit('a', 'p'))
    run(em, "emit('a', 'q')", lambda: em.emit('a', 'q'))
    run(em, "off('a', r2) already fired", lambda: em.off('a', r2))
    run(em, "off('a', f3)", lambda: em.off('a', f3))
    run(em, "off('a', r1)", lambda: em.off('a', r1))
    run(em, "off('a', f2) last one", lambda: em.off('a', f2))
    run(em, "emit('a')", lambda: em.emit('a'))

    # once wrappers: removing by callback before they fire, several wrappers of one callback
    run(em, "once x3 f1 on 'o'", lambda: em.once('o', f1).once('o', f1, {'n': 2}).once('o', f2))
    run(em, "off('o', f1)", lambda: em.off('o', f1))
    run(em, "emit('o')", lambda: em.emit('o'))
    run(em, "emit('o')", lambda: em.emit('o'))
    run(em, "once('o', f1).once('o', f1)", lambda: em.once('o', f1).once('o', f1))
    run(em, "emit('o', 1)", lambda: em.emit('o', 1))
    run(em, "emit('o', 2)", lambda: em.emit('o', 2))
    # a once wrapper of a once wrapper's callback: off by the inner wrapper object
    run(em, "once('o', f3)", lambda: em.once('o', f3))
    wrapper = em._e['o'][0].fn
    run(em, "off('o', <the wrapper itself>)", lambda: em.off('o', wrapper))
    run(em, "emit('o')", lambda: em.emit('o'))

    # bound methods: equal, never identical
    run(em, "on('m', h.m)", lambda: em.on('m', h.m))
    run(em, "on('m', g.m)", lambda: em.on('m', g.m))
    run(em, "once('m', h.m)", lambda: em.once('m', h.m))
    run(em, "on('m', f1)", lambda: em.on('m', f1))
    run(em, "emit('m', 1)", lambda: em.emit('m', 1))
    run(em, "once('m', h.m, {'z': 0})", lambda: em.once('m', h.m, {'z': 0}))
    run(em, "off('m', h.m)", lambda: em.off('m', h.m))
    run(em, "emit('m', 2)", lambda: em.emit('m', 2))
    run(em, "off('m', g.m)", lambda: em.off('m', g.m))
    run(em, "off('m', f1)", lambda: em.off('m', f1))

    # partials, builtins, lambdas
    sink = []
    p1 = functools.partial(f1, 'bound')
    p2 = functools.partial(f1, 'bound')
    run(em, "on('p', partial p1)", lambda: em.on('p', p1))
    run(em, "on('p', partial p2)", lambda: em.on('p', p2))
    run(em, "on('p', sink.append)", lambda: em.on('p', sink.append))
    run(em, "emit('p', 7)", lambda: em.emit('p', 7))
    run(em, "off('p', p1)", lambda: em.off('p', p1))
    run(em, "off('p', sink.append)", lambda: em.off('p', sink.append))
    run(em, "emit('p', 8)", lambda: em.emit('p', 8))
    run(em, "sink", lambda: list(sink))
    run(em, "off('p', f1) not the partial", lambda: em.off('p', f1))
    run(em, "off('p')", lambda: em.off('p'))

    # callbacks with unusual comparison / truth behaviour
    k1, k1b, k2 = KeyEq('k1', 1), KeyEq('k1b', 1), KeyEq('k2', 2)
    nd = NeverDifferent('nd')
    odd = OddNe('odd')
    fz = Falsy('fz')
    s0, s3 = Sized('s0', 0), Sized('s3', 3)
    spy = Spy('spy')
    wr = Wrapperish('wr', f2)
    wk = Wrapperish('wk', k1)
    si = SpyWithInner('si', f3)
    everyone = [f1, k1, k2, nd, odd, fz, s0, s3, spy, wr, wk, si, f2, f3, k1b, h.m]

    def fill(name):
        for cb in everyone:
            em.on(name, cb)
        em.once(name, f2).once(name, k1).once(name, spy).once(name, fz)
        return em

    targets = [('f1', f1), ('f2', f2), ('f3', f3), ('k1', k1), ('k1b', k1b), ('k2', k2), ('nd', nd),
               ('odd', odd), ('fz', fz), ('s0', s0), ('s3', s3), ('spy', spy), ('wr', wr), ('wk', wk),
               ('si', si), ('h.m', h.m), ('g.m', g.m), ('r1 (absent)', r1), ('None', None), ('0', 0),
               ("''", ''), ('[]', []), ('1', 1), ("'f1'", 'f1'), ('False', False), ('True', True)]
    for tlabel, target in targets:
        run(em, "fill('u')", lambda: fill('u'))
        run(em, "off('u', %s)" % tlabel, lambda target=target: em.off('u', target))
        run(em, "emit('u', 'after off %s')" % tlabel, lambda: em.emit('u', 'after'))
        run(em, "emit('u') second", lambda: em.emit('u'))
        run(em, "off('u')", lambda: em.off('u'))

    # off with falsy / odd callbacks on an empty and on a one-element table
    for tlabel, target in targets[8:12] + targets[18:]:
        run(em, "off('e', %s) on nothing" % tlabel, lambda target=target: em.off('e', target))
        run(em, "on('e', f1).off('e', %s)" % tlabel, lambda target=target: em.on('e', f1).off('e', target))
        run(em, "off('e')", lambda: em.off('e'))

    # event names: hash-equal names are one name, others are separate
    names = ['a', 'A', '', 1, 1.0, True, 0, False, None, (1, 2), ('a',), 'callCellValue', -1, 2 ** 70, 0.5,
             frozenset([1])]
    for n in names:
        run(em, "on(%r, f1, {'n': %r})" % (n, n), lambda n=n: em.on(n, f1, {'n': n}))
    for n in names:
        run(em, "emit(%r, 'v')" % (n,), lambda n=n: em.emit(n, 'v'))
    for n in names[::2]:
        run(em, "off(%r, f1)" % (n,), lambda n=n: em.off(n, f1))
    for n in names:
        run(em, "emit(%r)" % (n,), lambda n=n: em.emit(n))
    for n in names:
        run(em, "off(%r)" % (n,), lambda n=n: em.off(n))
    for bad in ([], {}, [1], set()):
        run(em, "on(%r, f1) unhashable" % (bad,), lambda bad=bad: em.on(bad, f1))
        run(em, "once(%r, f1) unhashable" % (bad,), lambda bad=bad: em.once(bad, f1))
        run(em, "emit(%r) unhashable" % (bad,), lambda bad=bad: em.emit(bad))
        run(em, "off(%r) unhashable" % (bad,), lambda bad=bad: em.off(bad))
        run(em, "off(%r, f1) unhashable" % (bad,), lambda bad=bad: em.off(bad, f1))

    # contexts
    ctxs = [None, {}, {'a': 1}, {'flag': True}, {'self': 1}, {'name': 'n', 'callback': 2, 'args': 3, 'ctx': 4},
            {'a': 1, 'flag': None}, 0, 5, 'ab', [('a', 1)], {1: 2}, (), False]
    for c in ctxs:
        run(em, "on('x', kwonly, %s)" % show(c), lambda c=c: em.on('x', kwonly, c))
        run(em, "once('x', f1, %s)" % show(c), lambda c=c: em.once('x', f1, c))
        run(em, "on('x', r1, %s)" % show(c), lambda c=c: em.on('x', r1, c))
        run(em, "emit('x')", lambda: em.emit('x'))
        run(em, "emit('x', 'arg')", lambda: em.emit('x', 'arg'))
        run(em, "off('x', kwonly)", lambda: em.off('x', kwonly))
        run(em, "emit('x', 'arg2')", lambda: em.emit('x', 'arg2'))
        run(em, "off('x')", lambda: em.off('x'))
    shared = {'k': 1}
    run(em, "on('x', f1, shared).once('x', f2, shared)", lambda: em.on('x', f1, shared).once('x', f2, shared))
    shared['k'] = 2
    shared['j'] = 3
    run(em, "emit('x') after the caller changed the context", lambda: em.emit('x'))
    run(em, "shared context untouched", lambda: shared)
    run(em, "off('x')", lambda: em.off('x'))

    # argument counts
    run(em, "on('s', strict2)", lambda: em.on('s', strict2))
    run(em, "emit('s')", lambda: em.emit('s'))
    run(em, "emit('s', 1)", lambda: em.emit('s', 1))
    run(em, "emit('s', 1, 2)", lambda: em.emit('s', 1, 2))
    run(em, "emit('s', 1, 2, 3)", lambda: em.emit('s', 1, 2, 3))
    run(em, "once('s', strict2) then emit('s', 1)", lambda: em.once('s', strict2).off('s', f1).emit('s', 1))
    run(em, "emit('s', [1, [2]], {'d': None})", lambda: em.emit('s', [1, [2]], {'d': None}))
    run(em, "on('s', 42) not callable", lambda: em.on('s', 42))
    run(em, "emit('s', 1, 2)", lambda: em.emit('s', 1, 2))
    run(em, "off('s', 42)", lambda: em.off('s', 42))
    run(em, "once('s', None)", lambda: em.once('s', None))
    run(em, "emit('s', 1, 2)", lambda: em.emit('s', 1, 2))
    run(em, "emit('s', 1, 2) again", lambda: em.emit('s', 1, 2))
    run(em, "off('s')", lambda: em.off('s'))
    run(em, "on() missing arguments", lambda: em.on('s'))
    run(em, "once() missing arguments", lambda: em.once('s'))
    run(em, "off() missing arguments", lambda: em.off())
    run(em, "emit() missing arguments", lambda: em.emit())
    run(em, "on(name=..., callback=..., ctx=...)", lambda: em.on(name='s', callback=f1, ctx={'q': 1}))
    run(em, "once(name=..., callback=...)", lambda: em.once(name='s', callback=f2))
    run(em, "off(name=..., callback=...)", lambda: em.off(name='s', callback=f1))
    run(em, "emit('s')", lambda: em.emit('s'))
    run(em, "off(name='s')", lambda: em.off(name='s'))


# --------------------------------------------------------------- part B: changes during emit

def part_b():
    print('# part B: subscriptions made or removed while an emit is in progress')
    em = Emitter()
    tail = make_func('tail')
    late = make_func('late')
    late2 = Rec('late2')

    scenarios = [
        ('off self', lambda: [make_func('x', act_off_self('n')), tail]),
        ('off name', lambda: [make_func('x', act_off_name('n')), tail]),
        ('off the next one', lambda: [make_func('x', act_off_other('n', tail)), tail, late]),
        ('off the previous one', lambda: [tail, make_func('x', act_off_other('n', tail)), late]),
        ('on same name', lambda: [make_func('x', act_on('n', late)), tail]),
        ('on same name with ctx', lambda: [make_func('x', act_on('n', late2, {'c': 1})), tail]),
        ('once same name', lambda: [make_func('x', act_once('n', late)), tail]),
        ('on other name', lambda: [make_func('x', act_on('other', late)), tail]),
        ('emit other name', lambda: [make_func('x', act_emit('other', 'inner')), tail]),
        ('emit same name', lambda: [make_func('x', act_emit('n', 'inner')), tail]),
        ('raise ValueError', lambda: [tail, make_func('x', act_raise(ValueError('boom'))), late]),
        ('raise KeyError', lambda: [make_func('x', act_raise(KeyError('k'))), tail]),
        ('off name then on', lambda: [make_func('x', act_off_name('n')), make_func('y', act_on('n', late)), tail]),
        ('rec off self', lambda: [Rec('x', act_off_self('n')), tail, Rec('y', act_off_self('n'))]),
        ('keyeq off self', lambda: [KeyEq('kx', 9, act_off_self('n')), tail, KeyEq('ky', 9)]),
    ]
    for title, build in scenarios:
        for mode in ('on', 'once', 'mixed'):
            cbs = build()
            em.on('other', tail)

            def subscribe(cbs=cbs, mode=mode):
                for i, cb in enumerate(cbs):
                    if mode == 'on' or (mode == 'mixed' and i % 2):
                        em.on('n', cb)
                    else:
                        em.once('n', cb)
                return em
            run(em, "[%s/%s] subscribe %s" % (title, mode, show(cbs)), subscribe)
            run(em, "[%s/%s] emit('n', 1)" % (title, mode), lambda: em.emit('n', 1))
            run(em, "[%s/%s] emit('n', 2)" % (title, mode), lambda: em.emit('n', 2))
            run(em, "[%s/%s] emit('other')" % (title, mode), lambda: em.emit('other'))
            run(em, "[%s/%s] emit('n', 3)" % (title, mode), lambda: em.emit('n', 3))
            run(em, "[%s/%s] cleanup" % (title, mode), lambda: em.off('n').off('other'))

    # a once listener that is in the snapshot of an outer emit and fires in an inner emit first
    inner_first = make_func('inner_first', act_emit('n', 'nested'))
    run(em, "on('n', inner_first).once('n', tail).once('n', late)", lambda: em.on('n', inner_first).once('n', tail).once('n', late))
    run(em, "emit('n', 'outer')", lambda: em.emit('n', 'outer'))
    run(em, "emit('n', 'outer2')", lambda: em.emit('n', 'outer2'))
    run(em, "off('n')", lambda: em.off('n'))
    # a once listener whose callback raises is gone afterwards
    run(em, "once('n', raiser).on('n', tail)", lambda: em.once('n', make_func('raiser', act_raise(RuntimeError('r')))).on('n', tail))
    run(em, "emit('n')", lambda: em.emit('n'))
    run(em, "emit('n') again", lambda: em.emit('n'))
    run(em, "off('n')", lambda: em.off('n'))
    # once listener removed by callback from inside an earlier listener of the same emit
    run(em, "on('n', x off tail).once('n', tail).on('n', late)",
        lambda: em.on('n', make_func('x', act_off_other('n', tail))).once('n', tail).on('n', late))
    run(em, "emit('n', 1)", lambda: em.emit('n', 1))
    run(em, "emit('n', 2)", lambda: em.emit('n', 2))
    run(em, "off('n')", lambda: em.off('n'))


# ------------------------------------------------------------------- part C: random scripts

def part_c(seed, rounds, steps):
    print('# part C: random scripts, seed %d' % seed)
    rng = random.Random(seed)
    names = ['a', 'b', 1, True, None, ('t', 1)]
    for rnd in range(rounds):
        em = Emitter()
        h = Holder('h%d' % rnd)
        k1, k1b = KeyEq('k1', 1), KeyEq('k1b', 1)
        f1, f2 = make_func('f1'), make_func('f2')
        pool = [
            ('f1', lambda: f1), ('f2', lambda: f2), ('h.m', lambda: h.m), ('k1', lambda: k1), ('k1b', lambda: k1b),
            ('nd', lambda nd=NeverDifferent('nd'): nd), ('odd', lambda odd=OddNe('odd'): odd),
            ('fz', lambda fz=Falsy('fz'): fz), ('spy', lambda spy=Spy('spy'): spy),
            ('wr', lambda wr=Wrapperish('wr', f1): wr), ('si', lambda si=SpyWithInner('si', f2): si),
            ('offself_a', lambda c=make_func('offself_a', act_off_self('a')): c),
            ('offname_b', lambda c=make_func('offname_b', act_off_name('b')): c),
            ('on_a_f2', lambda c=make_func('on_a_f2', act_on('a', f2)): c),
            ('once_b_f1', lambda c=make_func('once_b_f1', act_once('b', f1)): c),
            ('emit_b', lambda c=make_func('emit_b', act_emit('b', 'nested')): c),
            ('boom', lambda c=make_func('boom', act_raise(ValueError('boom'))): c),
        ]
        for step in range(steps):
            op = rng.choice(['on', 'on', 'once', 'once', 'emit', 'emit', 'emit', 'off', 'offcb', 'offcb'])
            name = rng.choice(names)
            label, getter = rng.choice(pool)
            ctx = rng.choice([None, None, {}, {'c': step}])
            if op == 'on':
                run(em, "r%d on(%r, %s, %s)" % (rnd, name, label, show(ctx)), lambda: em.on(name, getter(), ctx))
            elif op == 'once':
                run(em, "r%d once(%r, %s, %s)" % (rnd, name, label, show(ctx)), lambda: em.once(name, getter(), ctx))
            elif op == 'emit':
                args = tuple(rng.choice([0, 1.5, 'txt', None, True, [1, 2]]) for _ in range(rng.randint(0, 3)))
                run(em, "r%d emit(%r, *%s)" % (rnd, name, show(args)), lambda: em.emit(name, *args))
            elif op == 'off':
                run(em, "r%d off(%r)" % (rnd, name), lambda: em.off(name))
            else:
                run(em, "r%d off(%r, %s)" % (rnd, name, label), lambda: em.off(name, getter()))


# ------------------------------------------------------------ part E: once / emit in depth

def part_e():
    print('# part E: once-listeners and emit in depth')
    em = Emitter()
    other = Emitter()
    f1, f2, f3 = make_func('f1'), make_func('f2'), make_func('f3')
    h = Holder('h')

    # many once-listeners on one name, interleaved with permanent ones
    def many():
        for i in range(6):
            if i % 2:
                em.on('n', make_func('perm%d' % i), {'i': i})
            else:
                em.once('n', make_func('one%d' % i), {'i': i})
        return em
    run(em, "subscribe 3 once + 3 on", many)
    for i in range(3):
        run(em, "emit('n', %d)" % i, lambda i=i: em.emit('n', i))
    run(em, "off('n')", lambda: em.off('n'))

    # the same callback as once-listener under several names and on two emitters
    run(em, "once f1 on 'a', 'b' and on other emitter", lambda: (em.once('a', f1).once('b', f1), other.once('a', f1))[0])
    run(em, "emit('a', 1)", lambda: em.emit('a', 1))
    run(other, "other: subs untouched", lambda: None)
    run(em, "emit('a', 2)", lambda: em.emit('a', 2))
    run(em, "emit('b', 3)", lambda: em.emit('b', 3))
    run(em, "emit('b', 4)", lambda: em.emit('b', 4))
    run(other, "other.emit('a', 5)", lambda: other.emit('a', 5))
    run(other, "other.emit('a', 6)", lambda: other.emit('a', 6))

    # a wrapper handed around: subscribed a second time, called by hand, wrapped again
    run(em, "once('w', f2, {'k': 1})", lambda: em.once('w', f2, {'k': 1}))
    wrapper = em._e['w'][0].fn
    run(em, "on('v', <wrapper>)", lambda: em.on('v', wrapper))
    run(em, "once('v', <wrapper>)", lambda: em.once('v', wrapper))
    run(em, "emit('v', 'first')", lambda: em.emit('v', 'first'))
    run(em, "emit('w', 'second')", lambda: em.emit('w', 'second'))
    run(em, "emit('v', 'third')", lambda: em.emit('v', 'third'))
    run(em, "<wrapper>('by hand', ctx=1, kwargs=2)", lambda: wrapper('by hand', ctx=1, kwargs=2))
    run(em, "off('v').off('w')", lambda: em.off('v').off('w'))
    run(em, "once('w', f2)", lambda: em.once('w', f2))
    wrapper2 = em._e['w'][0].fn
    run(em, "<wrapper2>(1, ctx=1, args=2, self=3, name=4, callback=5)", lambda: wrapper2(1, ctx=1, args=2, self=3, name=4, callback=5))
    run(em, "<wrapper2>(2)", lambda: wrapper2(2))
    run(em, "emit('w')", lambda: em.emit('w'))
    run(em, "wrapper2._ is f2", lambda: wrapper2._ is f2)
    run(em, "wrapper2.__name__", lambda: wrapper2.__name__)

    # re-entrant emits of the same name with once-listeners at every position
    for pos in range(3):
        def build(pos=pos):
            cbs = [make_func('p0'), make_func('p1'), make_func('p2')]
            cbs[pos] = make_func('re%d' % pos, act_emit('n', 'nested'))
            for i, cb in enumerate(cbs):
                if i == pos:
                    em.on('n', cb)
                else:
                    em.once('n', cb, {'pos': i})
            return em
        run(em, "re-entrant emitter at %d" % pos, build)
        run(em, "emit('n', 'outer')", lambda: em.emit('n', 'outer'))
        run(em, "emit('n', 'again')", lambda: em.emit('n', 'again'))
        run(em, "off('n')", lambda: em.off('n'))
    # once-listener that itself emits the same name: it must not run again
    run(em, "once('n', self-emitting)", lambda: em.once('n', make_func('selfemit', act_emit('n', 'nested'))).on('n', f3))
    run(em, "emit('n', 'outer')", lambda: em.emit('n', 'outer'))
    run(em, "emit('n', 'again')", lambda: em.emit('n', 'again'))
    run(em, "off('n')", lambda: em.off('n'))
    # once-listener that re-subscribes itself once more
    again = {'left': 2}

    def resub(*args, **kw):
        note('call', 'resub', args, sorted(kw.items()))
        if again['left']:
            again['left'] -= 1
            em.once('n', resub, {'left': again['left']})
    run(em, "once('n', resub)", lambda: em.once('n', resub))
    for i in range(5):
        run(em, "emit('n', %d)" % i, lambda i=i: em.emit('n', i))
    # raising once-listener between others; raising callback with BaseException subclass
    class Stop(BaseException):
        pass
    run(em, "once raising chain", lambda: em.once('n', f1).once('n', make_func('boom', act_raise(ZeroDivisionError('z')))).once('n', f2))
    run(em, "emit('n', 1)", lambda: em.emit('n', 1))
    run(em, "emit('n', 2)", lambda: em.emit('n', 2))
    run(em, "emit('n', 3)", lambda: em.emit('n', 3))

    def stopper():
        try:
            em.once('n', make_func('stop', act_raise(Stop()))).on('n', f1).emit('n')
        except Stop:
            return 'Stop propagated'
    run(em, "once with BaseException", stopper)
    run(em, "emit('n')", lambda: em.emit('n'))
    run(em, "off('n')", lambda: em.off('n'))
    # bound methods and exotic callbacks as once-listeners
    exotic = [h.m, Rec('r'), KeyEq('k', 1), NeverDifferent('nd'), OddNe('odd'), Falsy('fz'), Spy('spy'),
              Wrapperish('wr', f1), SpyWithInner('si', f1), functools.partial(f1, 'pre'), strict2, kwonly, 42, None]
    for cb in exotic:
        run(em, "once('q', %s, {'flag': 1})" % show(cb), lambda cb=cb: em.once('q', cb, {'flag': 1}))
        run(em, "emit('q', 'a')", lambda: em.emit('q', 'a'))
        run(em, "emit('q', 'b')", lambda: em.emit('q', 'b'))
        run(em, "once('q', %s).on('q', f3)" % show(cb), lambda cb=cb: em.once('q', cb).on('q', f3))
        run(em, "emit('q', 1, 2)", lambda: em.emit('q', 1, 2))
        run(em, "emit('q', 3, 4)", lambda: em.emit('q', 3, 4))
        run(em, "off('q')", lambda: em.off('q'))
    # emit argument shapes
    payloads = [(), (None,), (0, False, ''), ([1, [2, 3]],), ({'a': 1},), (1.5, -0.0, 2 ** 80), ('x',) * 7,
                ((), [], {}), (f1,), (float('inf'),)]
    run(em, "on('z', f1).once('z', f2).on('z', r)", lambda: em.on('z', f1).once('z', f2).on('z', Rec('r'), {'c': 'ctx'}))
    for pl in payloads:
        run(em, "emit('z', *%s)" % show(pl), lambda pl=pl: em.emit('z', *pl))
    run(em, "emit returns the emitter for chaining", lambda: em.emit('z').emit('z', 1).off('z').emit('z'))
    run(em, "off('z')", lambda: em.off('z'))


# --------------------------------------------------------------------------- part D: parser

def part_d():
    print('# part D: the formula parser as an emitter')
    table = {'A1': 1, 'A2': 2.5, 'A3': 'text', 'B1': True, 'B2': None, 'B3': '', 'C1': -4, 'C2': 0, 'C3': '7'}

    def cellvalue(cell, setter):
        note('cell', cell.label, cell.row.index, cell.col.index)
        setter(table.get(cell.label))

    def rangevalue(start, end, setter):
        note('range', start.label, end.label)
        rows = []
        for r in range(start.row.index, end.row.index + 1):
            rows.append([table.get('%s%d' % (chr(65 + c), r + 1)) for c in range(start.col.index, end.col.index + 1)])
        setter(rows)

    def variable(name, setter):
        note('var', name)
        if name == 'dyn':
            setter(11)

    def function(name, args, setter):
        note('fn', name, show(args))
        if name == 'DOUBLEME':
            setter(99)

    def override_cell(cell, setter, bonus=0):
        note('override', cell.label, bonus)
        setter(1000 + bonus)

    formulas = ['', '1+2', 'A1', 'a1+A2', 'A3&"!"', 'B1', 'ISBLANK(B2)', 'B3', 'SUM(A1:C2)', 'SUM(C2:A1)', 'A1:B2',
                'SUM(A1:A3)', 'COUNT(A1:C3)', 'dyn', 'dyn+x', 'nosuch', 'TRUE', 'SUM(1,2,3)', 'DOUBLEME(2)',
                'NOSUCHFN(1)', '1/0', 'SQRT(-1)', '"abc"', 'IF(B1, A1, A2)', 'C1*C3', '{1,2;3,4}', 'SUM({1,2;3,4})',
                'A1+', '#REF!', 'ZZ99', '$A$1+$C1', 'MAX(A1:C1)', 'AND(B1, TRUE)', '-A2', 'A2%', '1=1', '"a"<>"b"']

    parsers = [hotxlfp.Parser(), hotxlfp.Parser()]
    for idx, p in enumerate(parsers):
        p.set_variable('x', 3)
        p.set_function('DOUBLEME', lambda v: v * 2)
        for f in formulas[:12]:
            run(p, "p%d no listeners parse(%r)" % (idx, f), lambda f=f: p.parse(f))
        run(p, "p%d subscribe" % idx, lambda: p.on('callCellValue', cellvalue).on('callRangeValue', rangevalue)
            .on('callVariable', variable).on('callFunction', function))
        for f in formulas:
            run(p, "p%d parse(%r)" % (idx, f), lambda f=f: p.parse(f))
        run(p, "p%d once override with ctx" % idx, lambda: p.once('callCellValue', override_cell, {'bonus': 5}))
        for f in ['A1+A1', 'A1', 'SUM(A1:A2)+A1']:
            run(p, "p%d parse(%r)" % (idx, f), lambda f=f: p.parse(f))
        run(p, "p%d on override, once override" % idx, lambda: p.on('callCellValue', override_cell).once('callCellValue', override_cell, {'bonus': 1}))
        for f in ['A1', 'A1+C1', 'B2']:
            run(p, "p%d parse(%r)" % (idx, f), lambda f=f: p.parse(f))
        run(p, "p%d off('callCellValue', override_cell)" % idx, lambda: p.off('callCellValue', override_cell))
        for f in ['A1', 'A1+C1']:
            run(p, "p%d parse(%r)" % (idx, f), lambda f=f: p.parse(f))
        run(p, "p%d off('callRangeValue')" % idx, lambda: p.off('callRangeValue'))
        for f in ['SUM(A1:C2)', 'A1:B2', 'A2']:
            run(p, "p%d parse(%r)" % (idx, f), lambda f=f: p.parse(f))
        run(p, "p%d off('callCellValue', rangevalue) wrong pair" % idx, lambda: p.off('callCellValue', rangevalue))
        run(p, "p%d off('callFunction', function)" % idx, lambda: p.off('callFunction', function))
        run(p, "p%d off('callVariable')" % idx, lambda: p.off('callVariable'))
        for f in ['DOUBLEME(2)', 'dyn', 'x', 'A1', 'SUM(1,2)']:
            run(p, "p%d parse(%r)" % (idx, f), lambda f=f: p.parse(f))
        # a listener that unsubscribes itself while a formula is evaluated
        state = {'n': 0}

        def twice_only(cell, setter):
            state['n'] += 1
            note('twice_only', cell.label, state['n'])
            setter(state['n'])
            if state['n'] >= 2:
                p.off('callCellValue', twice_only)
        run(p, "p%d on twice_only" % idx, lambda: p.off('callCellValue').on('callCellValue', twice_only))
        for f in ['A1+A1+A1+A1', 'A1']:
            run(p, "p%d parse(%r)" % (idx, f), lambda f=f: p.parse(f))
        # a raising listener turns into an error value
        run(p, "p%d on raising listener" % idx, lambda: p.on('callCellValue', make_func('bad', act_raise(ValueError('nope')))))
        for f in ['A1', '1+1']:
            run(p, "p%d parse(%r)" % (idx, f), lambda f=f: p.parse(f))
        run(p, "p%d off('callCellValue')" % idx, lambda: p.off('callCellValue'))
        run(p, "p%d parse('A1')" % idx, lambda: p.parse('A1'))
    # listeners of one parser never hear the other
    p, q = parsers
    run(p, "p0 on cellvalue", lambda: p.on('callCellValue', cellvalue))
    run(q, "p1 parse('A1')", lambda: q.parse('A1'))
    run(p, "p0 parse('A1')", lambda: p.parse('A1'))
    run(q, "p1 emit('callCellValue') by hand", lambda: q.emit('callCellValue'))
    run(p, "p0 off('callCellValue', cellvalue)", lambda: p.off('callCellValue', cellvalue))


if __name__ == '__main__':
    part_a()
    part_b()
    part_c(4004, 8, 60)
    part_d()
    part_e()
    print('# %d evaluations' % COUNT[0])
