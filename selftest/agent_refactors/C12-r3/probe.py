# -*- coding: utf-8 -*-
"""
Probe for C12 refactoring 3 (logic.py: shared flatten-and-check helper, XOR parity toggle,
SWITCH / IFS pair iteration, IF early returns).

Prints one line per evaluation: the input and repr() of the outcome, for formulas also the
callFunction events that were seen. Deterministic: no time, no randomness without a seed,
no memory addresses.
"""
from __future__ import print_function
import os
import sys
import random

sys.path.insert(0, os.path.dirname(os.path.dirname(os.path.abspath(__file__))))

import hotxlfp  # noqa: E402
from hotxlfp.formulas import error, logic, utils  # noqa: E402
from hotxlfp import formulas  # noqa: E402

COUNT = [0]
TRACE = []


def show(value):
    """ repr without memory addresses """
    if value is utils.DEFAULT:
        return '<utils.DEFAULT>'
    if isinstance(value, error.XLError):
        return 'XLError(%r)' % (str(value),)
    if isinstance(value, list):
        return '[' + ', '.join(show(v) for v in value) + ']'
    if isinstance(value, tuple):
        return '(' + ', '.join(show(v) for v in value) + (',)' if len(value) == 1 else ')')
    if isinstance(value, dict):
        return '{' + ', '.join('%s: %s' % (show(k), show(value[k])) for k in sorted(value)) + '}'
    return repr(value)


class Loud(object):
    """ a value that records every truth test and comparison made on it """

    def __init__(self, name, truth=True, equal_to=()):
        self.name = name
        self.truth = truth
        self.equal_to = equal_to

    def __bool__(self):
        TRACE.append('bool(%s)' % self.name)
        if isinstance(self.truth, Exception):
            raise self.truth
        return self.truth

    __nonzero__ = __bool__

    def __eq__(self, other):
        TRACE.append('%s==%s' % (self.name, show(other)))
        return any(other is e or (type(other) is type(e) and not isinstance(other, Loud) and other == e)
                   for e in self.equal_to)

    def __ne__(self, other):
        TRACE.append('%s!=%s' % (self.name, show(other)))
        return not any(other is e for e in self.equal_to)

    __hash__ = None

    def __repr__(self):
        return 'Loud(%s)' % self.name


class MyError(error.XLError):
    """ a subclass of the error value type """

    def __repr__(self):
        return 'MyError(%r)' % (str(self),)


class MyList(list):
    pass


class MyTuple(tuple):
    pass


def line(label, outcome, extra=None):
    COUNT[0] += 1
    text = '%04d %s -> %s' % (COUNT[0], label, outcome)
    if extra:
        text += ' | ' + extra
    print(text)


def direct(fn, *args):
    """ call a formula function directly with python values """
    del TRACE[:]
    label = '%s(%s)' % (fn.__name__, ', '.join(show(a) for a in args))
    try:
        outcome = show(fn(*args))
    except BaseException as e:  # noqa
        outcome = 'raised %s(%s)' % (type(e).__name__, show(e.args))
    line(label, outcome, ' '.join(TRACE) if TRACE else None)


def make_parser(variables, cells):
    parser = hotxlfp.Parser()
    events = []
    for name, value in variables:
        parser.set_variable(name, value)

    def on_function(name, args, setter):
        events.append('%s%s' % (name, show(list(args))))

    def on_cell(cell, setter):
        events.append('cell:%s' % cell.label)
        setter(cells.get(cell.label))

    def on_range(start, end, setter):
        events.append('range:%s:%s' % (start.label, end.label))
        rows = []
        for r in range(start.row.index, end.row.index + 1):
            row = []
            for c in range(start.col.index, end.col.index + 1):
                row.append(cells.get('%s%d' % (chr(ord('A') + c), r + 1)))
            rows.append(row)
        setter(rows)

    parser.on('callFunction', on_function)
    parser.on('callCellValue', on_cell)
    parser.on('callRangeValue', on_range)
    return parser, events


def formula(parser, events, tag, expression):
    del events[:]
    del TRACE[:]
    try:
        ret = parser.parse(expression)
        outcome = show(ret)
    except BaseException as e:  # noqa
        outcome = 'raised %s(%s)' % (type(e).__name__, show(e.args))
    seen = list(events)
    if TRACE:
        seen.append('trace: ' + ' '.join(TRACE))
    line('%s %r' % (tag, expression), outcome, '; '.join(seen) if seen else None)


VARIABLES = [
    ('ZERO', 0), ('ONE', 1), ('NEG', -3), ('HALF', 0.5), ('FZERO', 0.0), ('NEGZERO', -0.0),
    ('BIG', 10 ** 30), ('TINY', 1e-300), ('INF', float('inf')), ('NANV', float('nan')),
    ('CPLX', 1 + 2j), ('CZERO', 0j),
    ('EMPTY', ''), ('TXT', 'abc'), ('TXTFALSE', 'FALSE'), ('TXTZERO', '0'), ('SPACE', ' '),
    ('T', True), ('F', False), ('BLANK', None),
    ('ENA', error.NOT_AVAILABLE), ('EDIV', error.DIV_ZERO), ('EVAL', error.VALUE),
    ('ENUM', error.NUM), ('EREF', error.REF), ('ENAME', error.NAME), ('ENULL', error.NULL),
    ('EERR', error.ERROR), ('EDATA', error.DATA),
    ('LST', [1, 0, 'x']), ('LSTZ', [0, 0.0, False, None, '']), ('LSTE', [1, [error.NUM, error.REF], 0]),
    ('NESTED', [[1, 2], [3, [4, [5, []]]]]), ('EMPTYLST', []), ('NESTEDEMPTY', [[], [[]], ()]),
    ('TUP', (0, (1, 2))), ('DCT', {'a': 1}), ('EMPTYDCT', {}),
]

CELLS = {
    'A1': 1, 'B1': 0, 'C1': 'text', 'A2': True, 'B2': False, 'C2': None,
    'A3': error.DIV_ZERO, 'B3': 2.5, 'C3': '',
    'A4': 0, 'B4': 0, 'C4': 0,
}

FORMULAS = [
    # AND / OR / XOR: plain, blanks, text, numbers, arrays, errors
    'AND(TRUE,TRUE,FALSE)', 'AND(TRUE,TRUE,TRUE)', 'AND(FALSE)', 'AND(TRUE)', 'AND()',
    'AND(1,2,3)', 'AND(1,0,3)', 'AND(0.5,-1)', 'AND(0.0)', 'AND(,)', 'AND(1,)', 'AND(,1)', 'AND(,,)',
    'AND("a")', 'AND("")', 'AND("a","")', 'AND("FALSE")', 'AND("0")',
    'AND({1,2,3})', 'AND({1,0,3})', 'AND({1;2},{3;0})', 'AND({1,2;3,4})', 'AND({1,2;3,0})',
    'AND(1/0)', 'AND(1,1/0)', 'AND(0,1/0)', 'AND(1/0,NA())', 'AND(NA(),1/0)', 'AND({1,2},NA())',
    'AND(0,NA(),1/0)', 'AND(SQRT(-1),1)', 'AND(TRUE,ISEVEN("a"))',
    'AND(ZERO)', 'AND(ONE,NEG,HALF)', 'AND(FZERO)', 'AND(NEGZERO)', 'AND(BIG,TINY,INF,NANV)',
    'AND(CPLX)', 'AND(CZERO)', 'AND(EMPTY)', 'AND(TXT)', 'AND(TXTFALSE,TXTZERO,SPACE)',
    'AND(T,F)', 'AND(T,T)', 'AND(BLANK)', 'AND(T,BLANK)', 'AND(ENA)', 'AND(F,EDIV,ENA)',
    'AND(LST)', 'AND(LSTZ)', 'AND(LSTE)', 'AND(NESTED)', 'AND(EMPTYLST)', 'AND(NESTEDEMPTY)',
    'AND(TUP)', 'AND(DCT)', 'AND(EMPTYDCT)', 'AND(T,EMPTYLST)', 'AND(F,EMPTYLST)',
    'AND(A1,B1)', 'AND(A1,A2)', 'AND(A1:C1)', 'AND(A1:C3)', 'AND(A2:C2)', 'AND(A4:C4)', 'AND(C2)', 'AND(A3,B1)',
    'OR(TRUE,TRUE,FALSE)', 'OR(FALSE,FALSE)', 'OR(FALSE)', 'OR(TRUE)', 'OR()',
    'OR(0,0,3)', 'OR(0,0.0)', 'OR(,)', 'OR(1,)', 'OR(,1)', 'OR(,,)',
    'OR("a")', 'OR("")', 'OR("","")', 'OR("FALSE")', 'OR("0")',
    'OR({0,0,0})', 'OR({0,0,3})', 'OR({0;0},{0;1})', 'OR({0,0;0,0})', 'OR({0,0;0,"x"})',
    'OR(1/0)', 'OR(1,1/0)', 'OR(0,1/0)', 'OR(1/0,NA())', 'OR(NA(),1/0)', 'OR({1,2},NA())',
    'OR(1,NA(),1/0)', 'OR(SQRT(-1),1)',
    'OR(ZERO)', 'OR(ZERO,FZERO,NEGZERO,CZERO)', 'OR(ZERO,NANV)', 'OR(EMPTY,BLANK,F)', 'OR(EMPTY,TXT)',
    'OR(ENA)', 'OR(T,EDIV,ENA)', 'OR(LST)', 'OR(LSTZ)', 'OR(LSTE)', 'OR(NESTED)', 'OR(EMPTYLST)',
    'OR(NESTEDEMPTY)', 'OR(TUP)', 'OR(DCT)', 'OR(EMPTYDCT)',
    'OR(A1,B1)', 'OR(B1,B2)', 'OR(A1:C1)', 'OR(A1:C3)', 'OR(A2:C2)', 'OR(A4:C4)', 'OR(C2)', 'OR(B1,A3)',
    'XOR(3>0,2<9)', 'XOR(3>12,4>6)', 'XOR(3>12,4>2)', 'XOR()', 'XOR(TRUE)', 'XOR(FALSE)',
    'XOR(TRUE,TRUE,TRUE)', 'XOR(TRUE,TRUE,TRUE,TRUE)', 'XOR(1,2,3,0,0)', 'XOR(0.5,-1)', 'XOR(,)', 'XOR(1,)',
    'XOR(,,1)', 'XOR("a")', 'XOR("a","b")', 'XOR("","b")', 'XOR("FALSE","0")',
    'XOR({1,2,3})', 'XOR({1,0,3})', 'XOR({1;2},{3;0})', 'XOR({1,2;3,4})', 'XOR({1,2;3,0},1)',
    'XOR(1/0)', 'XOR(1,1/0)', 'XOR(0,1/0)', 'XOR(1/0,NA())', 'XOR(NA(),1/0)', 'XOR({1,2},NA())',
    'XOR(ZERO)', 'XOR(ONE,NEG,HALF)', 'XOR(BIG,TINY,INF,NANV)', 'XOR(CPLX,CZERO)', 'XOR(EMPTY,TXT)',
    'XOR(T,F)', 'XOR(T,T)', 'XOR(BLANK)', 'XOR(ENA)', 'XOR(F,EDIV,ENA)', 'XOR(LST)', 'XOR(LSTZ)',
    'XOR(LSTE)', 'XOR(NESTED)', 'XOR(EMPTYLST)', 'XOR(NESTEDEMPTY)', 'XOR(TUP)', 'XOR(DCT)', 'XOR(EMPTYDCT)',
    'XOR(A1,B1)', 'XOR(A1,A2)', 'XOR(A1:C1)', 'XOR(A1:C3)', 'XOR(A2:C2)', 'XOR(A4:C4)', 'XOR(A3,B1)',
    # NOT
    'NOT(TRUE)', 'NOT(FALSE)', 'NOT(0)', 'NOT(1)', 'NOT(2.5)', 'NOT("")', 'NOT("a")', 'NOT()', 'NOT(,)',
    'NOT(1/0)', 'NOT(NA())', 'NOT(BLANK)', 'NOT(EMPTYLST)', 'NOT(LST)', 'NOT({0})', 'NOT(ENUM)', 'NOT(C2)',
    'NOT(1,2)', 'NOT(NOT(1))', 'NOT(AND(1,OR(0,XOR(1,1))))',
    # IF
    'IF(TRUE,1,3)', 'IF(FALSE,1,3)', 'IF(,,)', 'IF(,,)=0', 'IF(,,)=""', 'IF(1,,3)', 'IF(0,1,)',
    'IF(1,"y","n")', 'IF(0,"y","n")', 'IF(0.0,"y","n")', 'IF(-1,"y","n")', 'IF("","y","n")', 'IF("a","y","n")',
    'IF("FALSE","y","n")', 'IF(1/0,"y","n")', 'IF(NA(),"y","n")', 'IF(1,1/0,"n")', 'IF(0,1/0,"n")',
    'IF(1,"y",1/0)', 'IF(0,"y",NA())', 'IF(1/0,NA(),SQRT(-1))', 'IF(TRUE,1)', 'IF(TRUE)', 'IF()', 'IF(1,2,3,4)',
    'IF({0},1,2)', 'IF({0,0},1,2)', 'IF(EMPTYLST,1,2)', 'IF(LST,1,2)', 'IF(BLANK,1,2)', 'IF(NANV,1,2)',
    'IF(CZERO,1,2)', 'IF(EDATA,1,2)', 'IF(T,LST,NESTED)', 'IF(F,LST,NESTED)', 'IF(T,BLANK,1)', 'IF(F,1,BLANK)',
    'IF(A1,B3,C1)', 'IF(B1,B3,C1)', 'IF(A3,B3,C1)', 'IF(C2,B3,C1)', 'IF(C3,B3,C1)', 'IF(A1:C1,1,2)',
    'IF(1>2,"gt",IF(1=1,"eq","lt"))', 'IF(AND(1,0),"a",IF(OR(0,1),"b","c"))', 'IF(DCT,1,2)', 'IF(EMPTYDCT,1,2)',
    # IFS
    'IFS(1=2,2,2=2,3)', 'IFS(1=2,2,2=3,3,TRUE,4)', 'IFS(1=2,2,2=3,3,FALSE,4)', 'IFS()', 'IFS(1)', 'IFS(0)',
    'IFS(1,2)', 'IFS(0,2)', 'IFS(1,2,3)', 'IFS(0,2,3)', 'IFS(0,2,3,4)', 'IFS(0,2,0,4,5)', 'IFS(0,2,0,4,5,6)',
    'IFS(,1,,2)', 'IFS(,1,1,)', 'IFS("",1,"a",2)', 'IFS(1/0,1,1,2)', 'IFS(0,1,1/0,2)', 'IFS(1,1,1/0,2)',
    'IFS(1,1/0,1,2)', 'IFS(0,1/0,1,2)', 'IFS(0,1,1,NA())', 'IFS(0,1,0,2,NA())', 'IFS(NA(),1/0)', 'IFS(0,1,NA())',
    'IFS(EMPTYLST,1,LST,2)', 'IFS(BLANK,1,NANV,2)', 'IFS(ENA,1,EDIV,2)', 'IFS(F,1,EDIV,2,T,3)', 'IFS(F,1,T,EDIV,ENA,3)',
    'IFS(T,LST)', 'IFS(T,BLANK)', 'IFS(A1,B3)', 'IFS(B1,B3,A2,C1)', 'IFS(B1,1,A3,2,A1,3)', 'IFS(C2,1,C3,2)',
    'IFS({0},1,{1},2)', 'IFS(0.0,"a",-0.5,"b")', 'IFS(CZERO,"a",CPLX,"b")',
    # SWITCH
    'SWITCH(2,2,"lele",3,"lili")', 'SWITCH(4,2,"lele",3,"lili")', 'SWITCH(4,2,"lele",3,"lili","default")',
    'SWITCH(4,2,"lele",3,"lili",0)', 'SWITCH(1)', 'SWITCH()', 'SWITCH(1,1)', 'SWITCH(1,2)', 'SWITCH(1,1,"a")',
    'SWITCH(1,2,"a")', 'SWITCH(1,2,"a","d")', 'SWITCH(1,1,"a","d")', 'SWITCH(3,1,"a",2,"b",3,"c")',
    'SWITCH(3,1,"a",2,"b",3,"c","d")', 'SWITCH(9,1,"a",2,"b",3,"c","d")', 'SWITCH(9,1,"a",2,"b",3,"c")',
    'SWITCH(1,1,"first",1,"second")', 'SWITCH(1,1.0,"float",1,"int")', 'SWITCH(TRUE,1,"one",TRUE,"true")',
    'SWITCH(1,TRUE,"true",1,"one")', 'SWITCH(0,FALSE,"false","d")', 'SWITCH("a","A","upper","a","lower")',
    'SWITCH("1",1,"num","1","txt")', 'SWITCH("",,"blank","","empty")', 'SWITCH(,"","empty",,"blank")',
    'SWITCH(,,"blank")', 'SWITCH(,0,"zero","d")', 'SWITCH(0,,"blank","d")', 'SWITCH(1,,,)', 'SWITCH(,,)',
    'SWITCH(1/0,1,"a","d")', 'SWITCH(1/0,1/0,"same")', 'SWITCH(1/0,NA(),"na",1/0,"div")', 'SWITCH(NA(),1,2,NA(),3)',
    'SWITCH(1,1/0,"a",1,"b")', 'SWITCH(1,1,1/0,"d")', 'SWITCH(2,1,"a",1/0)', 'SWITCH(2,1,"a",NA(),"b")',
    'SWITCH(ENA,ENA,"na","d")', 'SWITCH(EDIV,ENA,"na","d")', 'SWITCH(NANV,NANV,"nan","d")', 'SWITCH(INF,INF,"inf","d")',
    'SWITCH(CPLX,CPLX,"c","d")', 'SWITCH(FZERO,NEGZERO,"negzero","d")', 'SWITCH(ZERO,CZERO,"czero","d")',
    'SWITCH(LST,LST,"list","d")', 'SWITCH(EMPTYLST,EMPTYLST,"empty","d")', 'SWITCH({1,2},{1,2},"arr","d")',
    'SWITCH({1,2},{1,3},"arr","d")', 'SWITCH(TUP,LST,"l",TUP,"t")', 'SWITCH(DCT,DCT,"dict")', 'SWITCH(BLANK,BLANK,"blank")',
    'SWITCH(BLANK,ZERO,"zero",EMPTY,"empty",F,"false","d")', 'SWITCH(T,ONE,"one","d")', 'SWITCH(BIG,BIG,"big")',
    'SWITCH(A1,B1,"b1",A2,"a2","d")', 'SWITCH(C1,"text","t","d")', 'SWITCH(A3,A3,"err","d")', 'SWITCH(C2,C3,"c3",C2,"c2")',
    'SWITCH(B3,2.5,"x")', 'SWITCH(2,1,"a",2,"b",2,"c",3,"d","e")', 'SWITCH(5,1,2,3,4,5,6,7,8,9,10)',
    'SWITCH(10,1,2,3,4,5,6,7,8,9,10)', 'SWITCH(9,1,2,3,4,5,6,7,8,9,10)', 'SWITCH(9,1,2,3,4,5,6,7,8,9,10,11)',
    # combinations
    'IF(AND(A1,A2),SWITCH(B3,2.5,"x","y"),IFS(B1,1,TRUE,2))', 'XOR(AND(1,1),OR(0,0),NOT(0))',
    'IFS(XOR(1,1),"a",AND({1,1}),"b")', 'SWITCH(AND(1,1),OR(0,0),"or",NOT(0),"not")',
    'AND(IF(1,{1,0},1))', 'OR(IF(0,1,{0,0}))', 'IFERROR(AND(1,1/0),"caught")', 'IFNA(IFS(0,1),"none")',
    'IFNA(SWITCH(1,2,3),"none")', 'IFERROR(IF(1/0,1,2),"caught")', 'IFNA(XOR(NA(),1/0),"na first")',
    'IFNA(XOR(1/0,NA()),"na first")', 'ISERROR(OR(ENUM,1))', 'ISNA(IFS(F,1))', 'AND(1)+OR(0)+XOR(1)', 'NOT(IF(,,))',
    'and(1,1)', 'Or(0,0)', 'xor(1)', 'if(1,2,3)', 'UNKNOWNFN(1)', 'AND(UNKNOWNVAR)', 'AND(1', 'SWITCH(1,2,#N/A)',
]


def run_formulas():
    p1, e1 = make_parser(VARIABLES, CELLS)
    p2, e2 = make_parser(VARIABLES, CELLS)
    for expression in FORMULAS:
        formula(p1, e1, 'p1', expression)
    # a second parser, in reverse order, then the first parser once more on a sample
    for expression in reversed(FORMULAS[::3]):
        formula(p2, e2, 'p2', expression)
    rnd = random.Random(1212)
    for expression in rnd.sample(FORMULAS, 60):
        formula(p1, e1, 'p1 again', expression)
    # a listener that overrides the result of logic functions
    p3, e3 = make_parser(VARIABLES, CELLS)

    def override(name, args, setter):
        if name == 'AND':
            setter('overridden')
        if name == 'XOR':
            setter(None)
    p3.on('callFunction', override)
    for expression in ('AND(1,1)', 'AND(1/0)', 'XOR(1,1)', 'OR(AND(0),0)', 'IF(AND(0),1,2)', 'SWITCH(AND(0),"overridden",1,2)'):
        formula(p3, e3, 'p3', expression)
    # user-defined function shadows the built-in
    p3.set_function('OR', lambda *a: 'mine')
    formula(p3, e3, 'p3', 'OR(0,0)')
    formula(p3, e3, 'p3', 'IF(OR(0,0),1,2)')


def run_direct():
    na, div, val = error.NOT_AVAILABLE, error.DIV_ZERO, error.VALUE
    mine = MyError('#MINE!')
    values = [True, False, 0, 1, -1, 2, 0.0, -0.0, 0.5, float('inf'), float('nan'), 0j, 1j, None, '', 'a', '0',
              'FALSE', [], [0], [[]], [[], [0]], (), (0,), ((), (1,)), {}, {'k': 0}, b'', b'x', na, div, mine,
              MyList(), MyList([0]), MyTuple(), MyTuple((1,)), set(), frozenset([1]), range(0), range(2), 10 ** 40]
    for fn in (logic.AND, logic.OR, logic.XOR):
        direct(fn)
        for v in values:
            direct(fn, v)
        for v in values[::4]:
            direct(fn, v, True)
            direct(fn, False, v)
            direct(fn, [v, [1, (v,)]], 1)
        direct(fn, 1, [2, [3, (4, [na])], div], val)
        direct(fn, 0, [div, na])
        direct(fn, [[[[mine]]]], na)
        direct(fn, *[True] * 7)
        direct(fn, *[True] * 8)
        direct(fn, *([False] * 5 + [True] + [False] * 5))
        direct(fn, [True] * 101)
        direct(fn, list(range(-3, 4)))
        # order of truth tests and of error detection
        direct(fn, Loud('a', True), Loud('b', False), Loud('c', True))
        direct(fn, Loud('a', False), [Loud('b', True), (Loud('c', False),)])
        direct(fn, Loud('a', True), na, Loud('b', False))
        direct(fn, Loud('a', ValueError('no truth')), Loud('b', True))
        direct(fn, Loud('a', True), Loud('b', ValueError('no truth')), Loud('c', True))
        direct(fn, Loud('a', False), Loud('b', ValueError('no truth')), div)
    for v in values:
        direct(logic.NOT, v)
    direct(logic.NOT, Loud('a', True))
    direct(logic.NOT, Loud('a', ValueError('no truth')))
    direct(logic.NOT)
    direct(logic.NOT, 1, 2)
    # IF
    for v in values:
        direct(logic.IF, v, 'then', 'otherwise')
    direct(logic.IF, Loud('t', True), Loud('a'), Loud('b'))
    direct(logic.IF, Loud('t', False), Loud('a'), Loud('b'))
    direct(logic.IF, Loud('t', ValueError('no truth')), 1, 2)
    direct(logic.IF, na, Loud('a'), Loud('b'))
    direct(logic.IF, mine, 1, 2)
    direct(logic.IF, True, na, div)
    direct(logic.IF, False, na, div)
    direct(logic.IF)
    direct(logic.IF, 1)
    direct(logic.IF, 1, 2)
    direct(logic.IF, 1, 2, 3, 4)
    # IFS
    direct(logic.IFS)
    for v in values:
        direct(logic.IFS, v, 'first', True, 'fallback')
    for n in range(0, 9):
        direct(logic.IFS, *[0] * n)
        direct(logic.IFS, *list(range(-n, 1)))
        direct(logic.IFS, *([False, 'x'] * n + [True]))
        direct(logic.IFS, *([False, 'x'] * n + [True, n]))
        direct(logic.IFS, *([False, 'x'] * n + [na, n, True, 'late']))
    direct(logic.IFS, Loud('a', False), Loud('va'), Loud('b', True), Loud('vb'), Loud('c', True), Loud('vc'))
    direct(logic.IFS, Loud('a', False), div, Loud('b', False), na, Loud('c', False))
    direct(logic.IFS, Loud('a', False), 1, Loud('b', ValueError('no truth')), 2, na, 3)
    direct(logic.IFS, mine, 1, True, 2)
    direct(logic.IFS, False, 1, mine, 2)
    direct(logic.IFS, True, mine, na, 2)
    direct(logic.IFS, [0], 'list', 1, 'one')
    # SWITCH
    direct(logic.SWITCH)
    for v in values:
        direct(logic.SWITCH, v)
        direct(logic.SWITCH, v, v)
        direct(logic.SWITCH, v, v, 'hit')
        direct(logic.SWITCH, v, 'other', 'miss')
        direct(logic.SWITCH, v, 'other', 'miss', 'default')
        direct(logic.SWITCH, v, 0, 'zero', 1, 'one', '', 'empty', None, 'none', False, 'false', 'default')
        direct(logic.SWITCH, 1, 0, 'zero', v)
        direct(logic.SWITCH, 1, 1, v, 'default')
    for n in range(0, 10):
        direct(logic.SWITCH, 4, *list(range(n)))
        direct(logic.SWITCH, 5, *list(range(n)))
        direct(logic.SWITCH, n, *list(range(9)))
        direct(logic.SWITCH, n, *list(range(10)))
    direct(logic.SWITCH, 1, 2, 'a', utils.DEFAULT)
    direct(logic.SWITCH, 1, 2, 'a', 3, utils.DEFAULT)
    direct(logic.SWITCH, 1, 1, utils.DEFAULT)
    direct(logic.SWITCH, utils.DEFAULT, utils.DEFAULT, 'sentinel', 'd')
    direct(logic.SWITCH, 1, 2, 'a', None)
    direct(logic.SWITCH, 1, 2, 'a', na)
    direct(logic.SWITCH, na, div, 'div', na, 'na', mine, 'mine')
    direct(logic.SWITCH, mine, div, 'div', na, 'na', mine, 'mine')
    direct(logic.SWITCH, MyError('#MINE!'), mine, 'mine', 'distinct instance')
    direct(logic.SWITCH, Loud('t', equal_to=(3,)), 1, 'a', 2, 'b', 3, 'c', 4, 'd', 'default')
    direct(logic.SWITCH, Loud('t', equal_to=(3,)), 1, 'a', 2, 'b', 'default')
    direct(logic.SWITCH, Loud('t'), 1, 'a', 2, 'b')
    direct(logic.SWITCH, Loud('t'), 1)
    direct(logic.SWITCH, Loud('t'), 1, 'a', Loud('d'))
    direct(logic.SWITCH, 2, Loud('c1', equal_to=(5,)), 'a', Loud('c2', equal_to=(2,)), 'b', Loud('c3', equal_to=(2,)), 'c')
    direct(logic.SWITCH, float('nan'), float('nan'), 'nan', 'default')
    direct(logic.SWITCH, [1, [2]], (1, [2]), 'tuple', [1, [2]], 'list')
    # the helpers behind them and the registry
    for name in ('AND', 'OR', 'XOR', 'NOT', 'IF', 'IFS', 'SWITCH', 'IFERROR', 'IFNA', 'TRUE', 'FALSE'):
        fn = formulas.get_for(name)
        line('registry %s' % name, '%s from %s' % (fn.__name__, fn.__module__))
    direct(logic.IFERROR, na, 1)
    direct(logic.IFERROR, 2, 1)
    direct(logic.IFNA, na, 1)
    direct(logic.IFNA, div, 1)
    direct(logic.TRUE)
    direct(logic.FALSE)
    # no state outlives a call: same calls, same answers, arguments untouched
    shared = [1, [0, [na]], 2]
    before = show(shared)
    for fn in (logic.AND, logic.OR, logic.XOR):
        direct(fn, shared)
        direct(fn, shared)
    line('shared argument unchanged', repr(show(shared) == before))


if __name__ == '__main__':
    run_formulas()
    run_direct()
    print('total evaluations: %d' % COUNT[0])
