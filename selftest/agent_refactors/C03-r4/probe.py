# -*- coding: utf-8 -*-
"""
Probe for C03 refactoring 4 (Emitter.emit / Emitter.off and the corner normalisation of call_range_value).

Prints a deterministic transcript: one line per evaluation with the input, repr() of
the outcome and the events seen by the listeners of the parser(s) involved.
"""
from __future__ import print_function
import os
import sys
import threading

sys.path.insert(0, os.path.dirname(os.path.dirname(os.path.abspath(__file__))))

import hotxlfp  # noqa: E402
from hotxlfp import Parser  # noqa: E402
from hotxlfp.formulas import error as xlerror  # noqa: E402

COUNT = [0]


def line(*parts):
    COUNT[0] += 1
    print('%04d | %s' % (COUNT[0], ' | '.join(str(x) for x in parts)))


def outcome_of(thunk):
    try:
        return repr(thunk())
    except BaseException as e:  # noqa
        return 'RAISED %s(%s)' % (type(e).__name__, e)


# ---------------------------------------------------------------------------
# a parser with a log of everything its listeners see
# ---------------------------------------------------------------------------

TABLE_A = [
    [1, 2, 3, None],
    [4.5, 'txt', True, ''],
    [0, -7, False, xlerror.DIV_ZERO],
    [None, 1e10, '12', 0.1],
]
TABLE_B = [
    [10, 20, 30, 40],
    ['a', 'b', 'c', 'd'],
    [None, None, None, None],
    [xlerror.NOT_AVAILABLE, 2, True, 'z'],
]


class Rig(object):
    """A parser plus listeners that log events and feed values from a table."""

    def __init__(self, tag, table, variables, overrides=None):
        self.tag = tag
        self.table = table
        self.log = []
        self.kept_setters = []
        self.overrides = overrides or {}
        self.parser = Parser()
        for k, v in variables:
            self.parser.set_variable(k, v)
        self.parser.on('callCellValue', self.on_cell)
        self.parser.on('callRangeValue', self.on_range)
        self.parser.on('callVariable', self.on_variable)
        self.parser.on('callFunction', self.on_function)

    def lookup(self, row, col):
        if 0 <= row < len(self.table) and 0 <= col < len(self.table[row]):
            return self.table[row][col]
        return None

    def on_cell(self, cell, valsetter):
        self.log.append('cell(%r)' % (cell,))
        self.kept_setters.append(valsetter)
        valsetter(self.lookup(cell.row.index, cell.col.index))

    def on_range(self, start, end, valsetter):
        self.log.append('range(%r,%r)' % (start, end))
        self.kept_setters.append(valsetter)
        rows = []
        for i in range(start.row.index, end.row.index + 1):
            rows.append([self.lookup(i, j) for j in range(start.col.index, end.col.index + 1)])
        valsetter(rows)
        valsetter(None)  # "no opinion" must not wipe what has been set

    def on_variable(self, name, valsetter):
        self.log.append('var(%r)' % (name,))
        self.kept_setters.append(valsetter)
        if name in self.overrides:
            valsetter(new_value=self.overrides[name])  # keyword form
        else:
            valsetter(None)

    def on_function(self, name, args, valsetter):
        self.log.append('fn(%r,%r)' % (name, args))
        self.kept_setters.append(valsetter)
        key = 'FN:' + name
        if key in self.overrides:
            valsetter('first')
            valsetter(self.overrides[key])  # the last non-None value wins
            valsetter(None)

    def run(self, formula):
        del self.log[:]
        out = outcome_of(lambda: self.parser.parse(formula))
        return out, ';'.join(self.log)


def ev(rig, formula, note=''):
    out, events = rig.run(formula)
    line(rig.tag + note, repr(formula), out, events)


# ---------------------------------------------------------------------------
# formulas
# ---------------------------------------------------------------------------

FORMULAS = [
    '', ' ', '1', '1+2', '-3', '--3', '2^3', '50%', '.5', '1.25', '1/0', '1/3', '"a"&"b"', '"a"&1',
    '1&2', '1=1', '1<>1', '"a"<"b"', '1>=2', '2<=2', 'TRUE', 'FALSE', 'NULL', 'TRUE+1', 'NULL&"x"',
    'NULL+1', '"x', 'foo', 'foo+1', '1+', ')', '#N/A', '#DIV/0!', '#REF!', '#VALUE!', '#NUM!', '#NAME?',
    '#NULL!', '#ERROR!', '#GETTING_DATA', '#FOO', '1+#N/A', '#N/A&"x"', '"x"&#REF!', '-#NUM!',
    '{1,2,3}', '{1;2;3}', '{1,2;3,4}', '{1\\2\\3}', '{"a",TRUE,NULL}', 'SUM({1,2,3})', 'SUM(1,2,3)',
    'SUM(1;2;3)', 'SUM()', 'SUM(,)', 'SUM(1,,2)', 'SUM(,1)', 'SUM(1,)', 'SUM(,,)', 'SUM("a")', 'SUM("3",4)',
    'AVERAGE(1,2,3,4)', 'MAX(1,5,3)', 'MIN({4,2,8})', 'COUNT(1,"a",TRUE)', 'COUNTA(1,"a",TRUE,"")',
    'IF(TRUE,1,2)', 'IF(FALSE,1,2)', 'IF(1>2,"y","n")', 'IF(TRUE,1)', 'IF(#N/A,1,2)', 'IFERROR(1/0,"err")',
    'IFERROR(5,"err")', 'ISERROR(1/0)', 'ISBLANK(NULL)', 'ISNUMBER(1)', 'ISTEXT("a")', 'NOT(TRUE)',
    'AND(TRUE,FALSE)', 'OR(TRUE,FALSE)', 'AND()', 'ABS(-4)', 'SQRT(16)', 'SQRT(-1)', 'LN(0)', 'LOG(100,10)',
    'POWER(2,10)', 'MOD(7,3)', 'MOD(7,0)', 'ROUND(2.567,2)', 'ROUND(2.5,0)', 'INT(-2.5)', 'PI()', 'EXP(1)',
    'LEN("hello")', 'LEFT("hello",2)', 'RIGHT("hello",2)', 'MID("hello",2,3)', 'UPPER("abc")', 'LOWER("ABC")',
    'CONCATENATE("a","b",1)', 'TRIM("  a  b ")', 'REPT("ab",3)', 'FIND("l","hello")', 'FIND("z","hello")',
    'VALUE("12")', 'TEXT(1,"0")', 'NOSUCHFN(1)', 'NOSUCHFN()', 'sum(1,2)', 'Sum(1,2)', 'SUM(1,2',
    'A1', 'a1', '$A$1', '$A1', 'A$1', 'B2', 'C2', 'D2', 'D3', 'A4', 'B4', 'C4', 'D4', 'Z99', 'AA10',
    'A1+B1', 'A1&B2', '-A1', '-B2', 'A1:B2', 'B2:A1', 'A2:B1', 'B1:A2', '$A$1:$B$2', '$B$2:A1', 'A$1:$B2',
    'a1:b2', 'A1:A1', 'D3:D3', 'A1:D4', 'D4:A1', 'SUM(A1:C1)', 'SUM(A1:D4)', 'SUM(C1:A1)', 'COUNT(A1:D4)',
    'COUNTA(A1:D4)', 'MAX(A1:C3)', 'ISBLANK(D1)', 'ISBLANK(A1)', 'ISERROR(D3)', 'D3+1', 'IF(C2,A1,B1)',
    'x', 'y', 'z', 'x+y', 'x&y', 'blank', 'blank+1', 'lst', 'SUM(lst)', 'err', 'err+1', 'ISERROR(err)',
    'zero', 'zero+1', 'falsy', 'IF(falsy,1,2)', 'empty', 'empty&"!"', 'onlyA', 'onlyB', 'shared',
    'ovr', 'ovr0', 'ovrE', 'ovrnew', 'SUM(ovrL)', 'x.y', 'x.y.z', 'nope.x',
    'TRIPLE(2)', 'TRIPLE("ab")', 'TRIPLE()', 'TRIPLE(1,2)', 'TRIPLE(x)', 'TRIPLE(A1)', 'TRIPLE({1,2})',
    'BOOM()', 'BOOM()+1', 'IFERROR(BOOM(),"caught")', 'XLBOOM()', 'IFERROR(XLBOOM(),"caught")', 'RETERR()',
    'RETNONE()', 'RETNONE()&"x"', 'ISBLANK(RETNONE())', 'ARGS()', 'ARGS(1)', 'ARGS(1,"a",TRUE,NULL,{1,2})',
    'ARGS(,)', 'ARGS(#N/A)', 'ARGS(1/0)', 'ARGS(A1:B2)', 'ONLYA(1)', 'ONLYB(1)', 'SHADOW(1,2)', 'SUM(SHADOW(1,2),1)',
    'FORCED(1)', 'FORCED0()', 'FORCEDERR()', 'SUM(FORCEDLIST())', 'ABS(-1)+FORCED(2)',
    'SUM(TRIPLE(x),A1,SUM(A1:B2),y)', 'IF(x>1,TRIPLE(A2),BOOM())', 'IF(x>100,TRIPLE(A2),BOOM())',
]


def triple(v):
    return v * 3


def boom(*args):
    raise ValueError('boom')


def xlboom(*args):
    raise xlerror.NUM


def reterr(*args):
    return xlerror.REF


def retnone(*args):
    return None


def args_echo(*args):
    return 'ARGS%r' % (args,)


def build_rigs():
    a = Rig('A', TABLE_A,
            [('x', 2), ('y', 'why'), ('blank', None), ('lst', [1, 2, [3, 4]]), ('err', xlerror.VALUE),
             ('zero', 0), ('falsy', False), ('empty', ''), ('onlyA', 'a-only'), ('shared', 'from-A'),
             ('ovr', 'original'), ('ovr0', 5), ('ovrE', 1), ('ovrL', 1)],
            overrides={'ovr': 'overridden', 'ovr0': 0, 'ovrE': xlerror.NOT_AVAILABLE, 'ovrnew': 'created',
                       'ovrL': [10, 20], 'FN:FORCED': 'forced', 'FN:FORCED0': 0, 'FN:FORCEDERR': xlerror.NULL,
                       'FN:FORCEDLIST': [[1, 2], [3]], 'FN:SHADOW': False})
    b = Rig('B', TABLE_B,
            [('x', 200), ('y', False), ('onlyB', 'b-only'), ('shared', 'from-B'), ('TRUE', 'redefined')],
            overrides={'FN:ABS': 'abs-hooked'})
    for rig in (a, b):
        rig.parser.set_function('TRIPLE', triple).set_function('BOOM', boom)
        rig.parser.set_function('XLBOOM', xlboom).set_function('RETERR', reterr)
        rig.parser.set_function('RETNONE', retnone).set_function('ARGS', args_echo)
        for name in ('FORCED', 'FORCED0', 'FORCEDERR', 'FORCEDLIST'):
            rig.parser.set_function(name, args_echo)
    a.parser.set_function('ONLYA', lambda v: 'A:%r' % (v,))
    a.parser.set_function('SHADOW', lambda *v: 'shadow-A')
    b.parser.set_function('ONLYB', lambda v: 'B:%r' % (v,))
    b.parser.set_function('SUM', lambda *v: 'sum-of-B')
    return a, b


# ---------------------------------------------------------------------------
# the emitter on its own
# ---------------------------------------------------------------------------

class EqAll(object):
    """A callable that claims to be equal to everything."""
    def __init__(self, tag, log):
        self.tag, self.log = tag, log

    def __call__(self, *args, **kw):
        self.log.append('%s%r%r' % (self.tag, args, sorted(kw.items())))

    def __eq__(self, other):
        return True

    def __ne__(self, other):
        return False

    __hash__ = None


class Falsy(object):
    """A callable whose truth value is False: off() with it removes every listener."""
    def __init__(self, tag, log):
        self.tag, self.log = tag, log

    def __call__(self, *args, **kw):
        self.log.append('%s%r%r' % (self.tag, args, sorted(kw.items())))

    def __bool__(self):
        return False
    __nonzero__ = __bool__


class Tagged(object):
    """A callable that carries an attribute named '_' like the wrappers made by once()."""
    def __init__(self, tag, log, underscore):
        self.tag, self.log, self._ = tag, log, underscore

    def __call__(self, *args, **kw):
        self.log.append('%s%r%r' % (self.tag, args, sorted(kw.items())))


def emitter_state(em):
    return sorted((k, len(v)) for k, v in em._e.items())


def emitter_probe():
    from hotxlfp.tinyemitter import Emitter
    log = []

    def mk(tag):
        def listener(*args, **kw):
            log.append('%s%r%r' % (tag, args, sorted(kw.items())))
        listener.tag = tag
        return listener

    def step(em, label, thunk):
        del log[:]
        out = outcome_of(thunk)
        if out.startswith('<'):
            out = 'self' if thunk.__name__ == '<lambda>' else out
        line('emitter', label, out, ';'.join(log), emitter_state(em))

    def chain(em, thunk):
        return lambda: 'self' if thunk() is em else 'NOT SELF'

    for second in (False, True):
        em = Emitter()
        other = Emitter()
        pre = 'E2 ' if second else 'E1 '
        a, b, c, d = mk('a'), mk('b'), mk('c'), mk('d')
        step(em, pre + 'emit nothing registered', chain(em, lambda: em.emit('ev', 1, 2)))
        step(em, pre + 'off nothing registered', chain(em, lambda: em.off('ev')))
        step(em, pre + 'off unknown with callback', chain(em, lambda: em.off('unknown', a)))
        step(em, pre + 'on a', chain(em, lambda: em.on('ev', a)))
        step(em, pre + 'on b ctx', chain(em, lambda: em.on('ev', b, {'k': 1, 'j': 'x'})))
        step(em, pre + 'on c other event', chain(em, lambda: em.on('ev2', c)))
        step(em, pre + 'on a twice', chain(em, lambda: em.on('ev', a)))
        step(em, pre + 'emit ev', chain(em, lambda: em.emit('ev')))
        step(em, pre + 'emit ev args', chain(em, lambda: em.emit('ev', 1, None, [2], 'x')))
        step(em, pre + 'emit ev2', chain(em, lambda: em.emit('ev2', 'only-c')))
        step(em, pre + 'emit other emitter', chain(other, lambda: other.emit('ev', 'nobody')))
        step(em, pre + 'off d (not registered)', chain(em, lambda: em.off('ev', d)))
        step(em, pre + 'emit after off d', chain(em, lambda: em.emit('ev', 3)))
        step(em, pre + 'off a (both registrations)', chain(em, lambda: em.off('ev', a)))
        step(em, pre + 'emit after off a', chain(em, lambda: em.emit('ev', 4)))
        step(em, pre + 'off b (last one)', chain(em, lambda: em.off('ev', b)))
        step(em, pre + 'emit after off b', chain(em, lambda: em.emit('ev', 5)))
        step(em, pre + 'off ev2 without callback', chain(em, lambda: em.off('ev2')))
        step(em, pre + 'emit ev2 after off', chain(em, lambda: em.emit('ev2', 6)))
        step(em, pre + 'off ev again', chain(em, lambda: em.off('ev')))
        step(em, pre + 'off ev with callback on empty', chain(em, lambda: em.off('ev', a)))

        # once
        step(em, pre + 'once a', chain(em, lambda: em.once('o', a)))
        step(em, pre + 'once b ctx', chain(em, lambda: em.once('o', b, {'k': 2})))
        step(em, pre + 'on c', chain(em, lambda: em.on('o', c)))
        step(em, pre + 'emit o #1', chain(em, lambda: em.emit('o', 'first')))
        step(em, pre + 'emit o #2', chain(em, lambda: em.emit('o', 'second')))
        step(em, pre + 'once d then off by original', chain(em, lambda: em.once('o', d).off('o', d)))
        step(em, pre + 'emit o #3', chain(em, lambda: em.emit('o', 'third')))
        step(em, pre + 'off c', chain(em, lambda: em.off('o', c)))
        step(em, pre + 'emit o #4', chain(em, lambda: em.emit('o', 'fourth')))

        # listeners that change the registrations while an emit is running
        def adder(*args):
            log.append('adder%r' % (args,))
            em.on('m', a)

        def remover(*args):
            log.append('remover%r' % (args,))
            em.off('m', b)

        def self_remover(*args):
            log.append('self_remover%r' % (args,))
            em.off('m', self_remover)

        def wiper(*args):
            log.append('wiper%r' % (args,))
            em.off('m')

        def reemit(*args):
            log.append('reemit%r' % (args,))
            if args and args[0] > 0:
                em.emit('m', args[0] - 1)

        step(em, pre + 'on adder,b,remover', chain(em, lambda: em.on('m', adder).on('m', b).on('m', remover)))
        step(em, pre + 'emit m #1', chain(em, lambda: em.emit('m', 0)))
        step(em, pre + 'emit m #2', chain(em, lambda: em.emit('m', 0)))
        step(em, pre + 'off m', chain(em, lambda: em.off('m')))
        step(em, pre + 'on self_remover,c', chain(em, lambda: em.on('m', self_remover).on('m', c)))
        step(em, pre + 'emit m #3', chain(em, lambda: em.emit('m', 0)))
        step(em, pre + 'emit m #4', chain(em, lambda: em.emit('m', 0)))
        step(em, pre + 'on wiper,d', chain(em, lambda: em.on('m', wiper).on('m', d)))
        step(em, pre + 'emit m #5', chain(em, lambda: em.emit('m', 0)))
        step(em, pre + 'emit m #6', chain(em, lambda: em.emit('m', 0)))
        step(em, pre + 'on reemit,a', chain(em, lambda: em.on('m', reemit).on('m', a)))
        step(em, pre + 'emit m nested 2', chain(em, lambda: em.emit('m', 2)))
        step(em, pre + 'once reemit', chain(em, lambda: em.off('m').once('m', reemit).on('m', b)))
        step(em, pre + 'emit m once nested 2', chain(em, lambda: em.emit('m', 2)))
        step(em, pre + 'emit m once again', chain(em, lambda: em.emit('m', 2)))
        step(em, pre + 'off m', chain(em, lambda: em.off('m')))

        # a listener that raises: the later ones are not called, the registrations stay
        def raiser(*args):
            log.append('raiser%r' % (args,))
            raise KeyError('from listener')
        step(em, pre + 'on a,raiser,b', chain(em, lambda: em.on('r', a).on('r', raiser).on('r', b)))
        step(em, pre + 'emit r', chain(em, lambda: em.emit('r', 1)))
        step(em, pre + 'emit r wrong ctx', chain(em, lambda: em.off('r').on('r', len, {'bad': 1}).emit('r', 'abc')))
        step(em, pre + 'off r', chain(em, lambda: em.off('r')))

        # unusual callables
        eqall, falsy = EqAll('eqall', log), Falsy('falsy', log)
        tagged_a, tagged_x = Tagged('tagged_a', log, a), Tagged('tagged_x', log, 'x')
        step(em, pre + 'on a,tagged_a,tagged_x,b', chain(em, lambda: em.on('u', a).on('u', tagged_a).on('u', tagged_x).on('u', b)))
        step(em, pre + 'emit u', chain(em, lambda: em.emit('u', 1)))
        step(em, pre + 'off u a (takes tagged_a too)', chain(em, lambda: em.off('u', a)))
        step(em, pre + 'emit u', chain(em, lambda: em.emit('u', 2)))
        step(em, pre + 'off u "x" (takes tagged_x)', chain(em, lambda: em.off('u', 'x')))
        step(em, pre + 'emit u', chain(em, lambda: em.emit('u', 3)))
        step(em, pre + 'on eqall,c', chain(em, lambda: em.on('u', eqall).on('u', c)))
        step(em, pre + 'off u d (eqall claims equality)', chain(em, lambda: em.off('u', d)))
        step(em, pre + 'emit u', chain(em, lambda: em.emit('u', 4)))
        step(em, pre + 'off u eqall (equal to all)', chain(em, lambda: em.off('u', eqall)))
        step(em, pre + 'emit u', chain(em, lambda: em.emit('u', 5)))
        step(em, pre + 'on a,falsy,b', chain(em, lambda: em.on('u', a).on('u', falsy).on('u', b)))
        step(em, pre + 'emit u', chain(em, lambda: em.emit('u', 6)))
        step(em, pre + 'off u falsy (removes all)', chain(em, lambda: em.off('u', falsy)))
        step(em, pre + 'emit u', chain(em, lambda: em.emit('u', 7)))
        step(em, pre + 'off u 0', chain(em, lambda: em.on('u', a).off('u', 0)))
        step(em, pre + 'off unhashable name', chain(em, lambda: em.off(['u'])))
        step(em, pre + 'emit unhashable name', chain(em, lambda: em.emit(['u'])))
        step(em, pre + 'other emitter untouched', lambda: emitter_state(other))


# ---------------------------------------------------------------------------
# ranges: every order of the corners, every kind of label
# ---------------------------------------------------------------------------

def range_probe():
    a, b = build_rigs()
    bare = Parser()
    seen = []
    bare.on('callRangeValue', lambda s, e, setter: seen.append('range(%r,%r)' % (s, e)))
    corners = [('A1', 'C3'), ('C3', 'A1'), ('A3', 'C1'), ('C1', 'A3'), ('B2', 'B2'), ('A1', 'A4'), ('A4', 'A1'),
               ('A1', 'D1'), ('D1', 'A1'), ('Z99', 'AA1'), ('AA1', 'Z99'), ('AB12', 'C100'), ('a1', 'b2'), ('b2', 'a1'),
               ('A0', 'B1'), ('B1', 'A0'), ('XFD1048576', 'A1')]
    styles = [lambda col, row: col + row, lambda col, row: '$' + col + '$' + row,
              lambda col, row: '$' + col + row, lambda col, row: col + '$' + row]

    def split(label):
        i = 0
        while not label[i].isdigit():
            i += 1
        return label[:i], label[i:]

    for first, second in corners:
        for s1 in styles:
            for s2 in styles:
                l1, l2 = s1(*split(first)), s2(*split(second))
                formula = l1 + ':' + l2
                for rig in (a, b):
                    if first.startswith('XFD'):
                        continue  # the rigs would materialise the whole sheet
                    out, events = rig.run(formula)
                    line(rig.tag + '#range', repr(formula), out, events)
                del seen[:]
                out = outcome_of(lambda: bare.call_range_value(l1, l2))
                line('0#range direct', repr((l1, l2)), out, ';'.join(seen))
    for formula in ('SUM(A1:C3)', 'SUM(C3:A1)', 'SUM($C$1:A3)', 'COUNT(D4:A1)', 'MAX(C$3:$A1)', 'A1:B2&"x"', 'A1:B2+1',
                    'A1:B', 'A:B', '1:2', 'A1:', ':A1', 'A1:B2:C3', 'A1:x', 'SUM(A1:B2,C3:D4)', '{1,2}:A1'):
        for rig in (a, b):
            out, events = rig.run(formula)
            line(rig.tag + '#range', repr(formula), out, events)
    for args in ((None, None), (None, 'A1'), ('A1', None), ('', 'A1'), ('A1', ''), ('A1', 'B'), (1, 'A1'), ('A1', 2.5),
                 ('A1', ['B2']), ('$A$1', '$A$1'), ('A1 ', 'B2'), ('A1\n', 'B2')):
        del seen[:]
        out = outcome_of(lambda: bare.call_range_value(*args))
        line('0#range direct', repr(args), out, ';'.join(seen))
    xlerror.clear_tracebacks()


def section(title):
    print('== ' + title)


def main():
    # 1. every formula on a bare parser, on A, on B, then again on A (nothing may have stuck)
    section('bare parser')
    bare = Rig('0', [], [])
    bare.parser.off('callCellValue').off('callRangeValue').off('callVariable').off('callFunction')
    for f in FORMULAS:
        ev(bare, f)
    a, b = build_rigs()
    section('parser A')
    for f in FORMULAS:
        ev(a, f)
    section('parser B')
    for f in FORMULAS:
        ev(b, f)
    section('parser A again')
    for f in FORMULAS[::3]:
        ev(a, f, '#2')

    section('emitter')
    emitter_probe()
    section('ranges')
    range_probe()

    # 2. setters kept from finished evaluations are dead: calling them changes nothing
    section('stale setters')
    kept = a.kept_setters[:] + b.kept_setters[:]
    line('kept setters', len(kept), sorted(set(outcome_of(lambda s=s: s('stale')) for s in kept)))
    for f in ('x', 'A1', 'A1:B2', 'TRIPLE(2)', 'SUM(1,2)', 'foo'):
        ev(a, f, '#stale')
        ev(b, f, '#stale')

    # 3. the hooks called directly, with usual and unusual arguments
    section('direct hook calls')
    for rig in (bare, a, b):
        p = rig.parser
        calls = [
            ('call_function SUM [1,2]', lambda: p.call_function('SUM', [1, 2])),
            ('call_function SUM', lambda: p.call_function('SUM')),
            ('call_function SUM None', lambda: p.call_function('SUM', None)),
            ('call_function SUM ()', lambda: p.call_function('SUM', ())),
            ('call_function NOPE', lambda: p.call_function('NOPE', [1])),
            ('call_function TRIPLE [4]', lambda: p.call_function('TRIPLE', [4])),
            ('call_function BOOM', lambda: p.call_function('BOOM')),
            ('call_function XLBOOM', lambda: p.call_function('XLBOOM', [1, 2])),
            ('call_function FORCED', lambda: p.call_function('FORCED', ['q'])),
            ('call_function unhashable', lambda: p.call_function(['SUM'], [1])),
            ('call_function args=5', lambda: p.call_function('SUM', 5)),
            ('call_variable x', lambda: p.call_variable('x')),
            ('call_variable TRUE', lambda: p.call_variable('TRUE')),
            ('call_variable NULL', lambda: p.call_variable('NULL')),
            ('call_variable nope', lambda: p.call_variable('nope')),
            ('call_variable ovrnew', lambda: p.call_variable('ovrnew')),
            ('call_variable unhashable', lambda: p.call_variable([])),
            ('call_cell_value a1', lambda: p.call_cell_value('a1')),
            ('call_cell_value $D$3', lambda: p.call_cell_value('$D$3')),
            ('call_cell_value ZZ1000', lambda: p.call_cell_value('ZZ1000')),
            ('call_cell_value bad', lambda: p.call_cell_value('bad')),
            ('call_cell_value 7', lambda: p.call_cell_value(7)),
            ('call_range_value A1 B2', lambda: p.call_range_value('A1', 'B2')),
            ('call_range_value b2 a1', lambda: p.call_range_value('b2', 'a1')),
            ('call_range_value $B1 A$2', lambda: p.call_range_value('$B1', 'A$2')),
            ('call_range_value None A1', lambda: p.call_range_value(None, 'A1')),
            ('call_range_value A1 None', lambda: p.call_range_value('A1', None)),
            ('call_range_value bad A1', lambda: p.call_range_value('bad', 'A1')),
            ('call_range_value A1 3', lambda: p.call_range_value('A1', 3)),
        ]
        for label, thunk in calls:
            del rig.log[:]
            out = outcome_of(thunk)
            line(rig.tag + '#direct', label, out, ';'.join(rig.log))
        xlerror.clear_tracebacks()

    # 4. nested evaluations: functions and listeners of one parser evaluating on the other / on itself
    section('nested evaluations')
    a, b = build_rigs()
    trace = []

    def on_b(text):
        r = b.parser.parse(text)
        trace.append('B<-%r:%r' % (text, r))
        return r['result'] if r['error'] is None else r['error']

    def on_a(text):
        r = a.parser.parse(text)
        trace.append('A<-%r:%r' % (text, r))
        return r['result'] if r['error'] is None else r['error']

    a.parser.set_function('ONB', on_b).set_function('ONSELF', on_a)
    b.parser.set_function('ONA', on_a).set_function('ONSELF', on_b)
    b.parser.set_function('DEEP', lambda: on_a('ONB("x+1")+x'))

    def b_var_listener(name, valsetter):
        if name == 'viaA':
            valsetter(on_a('x&"/"&shared'))
    b.parser.on('callVariable', b_var_listener)

    def a_cell_listener(cell, valsetter):
        if cell.label == 'Z1':
            valsetter(on_b('A1+x'))
    a.parser.on('callCellValue', a_cell_listener)

    nested = [
        (a, 'ONB("x")'), (a, 'ONB("x")+x'), (a, 'x+ONB("x")+x'), (a, 'ONB("shared")&shared'),
        (a, 'ONB("onlyA")'), (a, 'ONB("ONLYA(1)")'), (a, 'ONB("onlyB")&onlyA'), (a, 'ONB("ONLYB(1)")'),
        (a, 'ONB("A1")+A1'), (a, 'SUM(A1:B2)+SUM(ONB("A1:B2"))'), (a, 'ONB("SUM(1,2)")&SUM(1,2)'),
        (a, 'ONB("1/0")'), (a, 'IFERROR(ONB("1/0"),"in-A")'), (a, 'ONB("BOOM()")'), (a, 'ONB("foo")&"|"&x'),
        (a, 'ONB("1+")'), (a, 'ONB("")'), (a, 'ONB("#N/A")'), (a, 'ONB("ABS(-1)")&ABS(-1)'),
        (a, 'ONSELF("x+1")*2'), (a, 'ONSELF("ONSELF(\'x\')")'), (a, 'ONSELF("A1:B2")'), (a, 'ONSELF("foo")&x'),
        (a, 'ONB("ONA(\'x\')")'), (a, 'ONB("DEEP()")'), (a, 'ONB("DEEP()&x")&x'), (a, 'ONB("viaA")'), (a, 'Z1'),
        (a, 'Z1+ONB("viaA")'), (a, 'ONB("TRUE")&TRUE'), (a, 'ONB("FORCED(1)")&FORCED(1)'),
        (b, 'ONA("x")'), (b, 'ONA("x")+x'), (b, 'viaA'), (b, 'viaA&shared'), (b, 'ONA("Z1")'),
        (b, 'ONA("ovr")&"|"&ONA("ovrnew")'), (b, 'ONSELF("x")+ONA("x")'), (b, 'ONA("ONB(\'viaA\')")'), (b, 'DEEP()'), (b, "ONA('ONB(\"DEEP()\")')"),
        (b, 'ONA("SHADOW(1)")'), (b, 'SHADOW(1)'), (b, 'ONA("SUM(1,2)")'), (b, 'SUM(1,2)'),
    ]
    for rig, f in nested + nested[::2]:
        del trace[:]
        del a.log[:]
        del b.log[:]
        out = outcome_of(lambda: rig.parser.parse(f))
        line(rig.tag + '#nested', repr(f), out, 'A:' + ';'.join(a.log), 'B:' + ';'.join(b.log), ' '.join(trace))

    # 5. concurrent evaluations on different parsers: same outcomes as alone
    section('threads')
    thread_formulas = ['x+1', 'SUM(A1:B2)', 'TRIPLE(x)&y', 'A1&shared', 'IFERROR(BOOM(),x)', 'foo', '1/0',
                       'ovr&ovrnew', 'FORCED(x)', 'SUM(lst)', 'onlyA', 'onlyB', 'ONLYA(x)', 'ONLYB(x)', 'D3', 'A4:D4']
    alone = {}
    for tag in ('A', 'B'):
        ra, rb = build_rigs()
        rig = ra if tag == 'A' else rb
        alone[tag] = [rig.run(f) for f in thread_formulas]
    for rnd in range(3):
        rigs = []
        for i in range(6):
            ra, rb = build_rigs()
            rigs.append(ra if i % 2 == 0 else rb)
        results = [None] * len(rigs)
        barrier = threading.Barrier(len(rigs))

        def work(i):
            barrier.wait()
            got = []
            for _ in range(5):
                got.append([rigs[i].run(f) for f in thread_formulas])
            results[i] = got
        threads = [threading.Thread(target=work, args=(i,)) for i in range(len(rigs))]
        for t in threads:
            t.start()
        for t in threads:
            t.join()
        for i, rig in enumerate(rigs):
            same = all(rep == alone[rig.tag] for rep in results[i])
            line('thread round %d #%d (%s)' % (rnd, i, rig.tag), 'same as alone: %r' % same)
            for f, (out, events) in zip(thread_formulas, results[i][-1]):
                line('thread round %d #%d (%s)' % (rnd, i, rig.tag), repr(f), out, events)

    # 6. what is left on the parsers afterwards
    section('state afterwards')
    for rig in (bare, a, b):
        p = rig.parser
        line(rig.tag + '#state', 'variables', sorted(p.variables.keys()))
        line(rig.tag + '#state', 'functions', sorted(p.functions.keys()))
        line(rig.tag + '#state', 'listeners', sorted((k, len(v)) for k, v in p._e.items()))
        line(rig.tag + '#state', 'instance attributes', sorted(vars(p).keys()))
    line('shared errors', [(str(e), e.__traceback__ is None, e.__context__ is None) for e in (
        xlerror.ERROR, xlerror.DIV_ZERO, xlerror.NAME, xlerror.NOT_AVAILABLE, xlerror.NULL, xlerror.NUM,
        xlerror.REF, xlerror.VALUE, xlerror.DATA)])
    line('total lines', COUNT[0])


if __name__ == '__main__':
    main()
