# -*- coding: utf-8 -*-
"""
Probe for C04 refactoring 3 (operators.py: evaluate_arithmetic / value_and_type /
ExcelComparator / ExcelArrayOps.adapt_value).

Prints one line per evaluation: the input and repr() of the outcome (or the
exception type and message). Deterministic: no clock, no randomness that is not
seeded, no memory addresses.
"""
import os
import sys
import datetime
import itertools
import random

sys.path.insert(0, os.path.dirname(os.path.dirname(os.path.abspath(__file__))))

import hotxlfp  # noqa: E402
from hotxlfp import Parser  # noqa: E402
from hotxlfp.formulas import operators, error  # noqa: E402

COUNT = [0]


def show(label, thunk):
    COUNT[0] += 1
    try:
        out = repr(thunk())
    except BaseException as e:  # noqa
        out = 'raised %s: %s' % (type(e).__name__, e)
    print('%04d %s => %s' % (COUNT[0], label, out))


def type_name(t):
    if isinstance(t, tuple):
        return '(' + ','.join(x.__name__ for x in t) + ')'
    return t.__name__


def vt(value):
    v, t = operators.value_and_type(value)
    return (v, type_name(t))


def make_parser(events=None):
    p = Parser()
    p.set_variable('blank', None)
    p.set_variable('one', 1)
    p.set_variable('half', 0.5)
    p.set_variable('neg', -7)
    p.set_variable('txt', 'abc')
    p.set_variable('numtxt', '12')
    p.set_variable('datetxt', '2020-01-15')
    p.set_variable('day', datetime.datetime(2020, 1, 15))
    p.set_variable('early', datetime.datetime(1900, 1, 20))
    p.set_variable('dayone', datetime.datetime(1900, 1, 1))
    p.set_variable('arr', [1, 2, 3])
    p.set_variable('arrb', [10, 20, 30])
    p.set_variable('arrshort', [5])
    p.set_variable('arrtwo', [1, 2])
    p.set_variable('arrmix', [1, 'x', None, True, '4'])
    p.set_variable('empty', [])
    p.set_variable('nested', [[1, 2], [3, 4]])
    p.set_variable('err', error.NUM)
    p.set_variable('cplx', 1 + 2j)
    p.set_variable('obj', {'a': 1})
    p.set_variable('tup', (1, 2))
    p.set_variable('big', 10 ** 30)
    p.set_variable('inf', float('inf'))
    if events is not None:
        def on_var(name, setter):
            events.append(('callVariable', name))

        def on_fn(name, args, setter):
            events.append(('callFunction', name, repr(args)))
        p.on('callVariable', on_var)
        p.on('callFunction', on_fn)
    return p


def parse_line(p, formula, events=None):
    if events is not None:
        del events[:]
    COUNT[0] += 1
    try:
        out = repr(p.parse(formula))
    except BaseException as e:  # noqa
        out = 'raised %s: %s' % (type(e).__name__, e)
    tail = '' if events is None else ' events=%r' % (events,)
    print('%04d parse %r => %s%s' % (COUNT[0], formula, out, tail))


# ---------------------------------------------------------------------------
# 1. value_and_type on every kind of value
# ---------------------------------------------------------------------------
VALUES = [
    0, 1, -1, 2, 0.5, -0.0, 1e308, float('inf'), 10 ** 30, True, False, None,
    1 + 2j, '', ' ', 'abc', 'lele', 'TRUE', '12', ' 12 ', '1.5', '1e3', '-3', '+4', '0x10', '1_000',
    'inf', 'nan', '2020-01-15', '2020-01-15 10:30:00', '1/2/2020', '1899-12-31', '0001-01-01',
    datetime.datetime(2020, 1, 15), datetime.datetime(1900, 1, 1), datetime.datetime(1900, 2, 28),
    datetime.datetime(1900, 3, 1), datetime.datetime(1899, 12, 31), datetime.datetime(2020, 1, 15, 10, 30),
    error.VALUE, error.DIV_ZERO, error.NAME, [1, 2], [], (1, 2), {'a': 1}, b'12', 3.25,
    datetime.date(2020, 1, 15), datetime.timedelta(days=1), object,
]

for v in VALUES:
    show('value_and_type(%r)' % (v,), lambda v=v: vt(v))

# ---------------------------------------------------------------------------
# 2. evaluate_arithmetic: full cross product of a representative set
# ---------------------------------------------------------------------------
ARITH = [
    0, 3, -2.5, True, None, '12', 'abc', '', '2020-01-15',
    datetime.datetime(2020, 1, 15), datetime.datetime(1900, 1, 1), error.NUM, error.VALUE,
    [1, 2, 3], [5], [], [1, 'x', None], {'a': 1}, 1 + 2j,
]
for op in ('+', '-', '*', '/'):
    for a, b in itertools.product(ARITH, repeat=2):
        show('evaluate_arithmetic(%r, %r, %r)' % (op, a, b),
             lambda op=op, a=a, b=b: operators.evaluate_arithmetic(op, a, b))

# operators outside the conversion table, odd operator values
for op in ('^', '&', '>', '=', '', None, 7, '++'):
    for a, b in ((1, 2), ('abc', 2), ([1, 2], 2), (2, [1, 2]), (error.NUM, 2), (1, error.REF), (None, None),
                 ('2020-01-15', 1)):
        show('evaluate_arithmetic(%r, %r, %r)' % (op, a, b),
             lambda op=op, a=a, b=b: operators.evaluate_arithmetic(op, a, b))
show('evaluate_arithmetic([], 1, 2)', lambda: operators.evaluate_arithmetic([], 1, 2))

# boundary values
BOUND = [10 ** 400, -10 ** 400, 1e308, -1e308, float('inf'), float('-inf'), 5e-324, 0.0, -0.0, 2 ** 63, 60, 61, 59, 0.99, -1]
for op in ('+', '-', '*', '/'):
    for a in BOUND:
        for b in (3, 0, 1e308, datetime.datetime(1900, 1, 1), datetime.datetime(2020, 1, 15), None):
            show('evaluate_arithmetic(%r, %r, %r)' % (op, a, b),
                 lambda op=op, a=a, b=b: operators.evaluate_arithmetic(op, a, b))
            show('evaluate_arithmetic(%r, %r, %r)' % (op, b, a),
                 lambda op=op, a=a, b=b: operators.evaluate_arithmetic(op, b, a))

# nan: repr is stable, equality is not - keep it to repr
for op in ('+', '-', '*', '/'):
    show('evaluate_arithmetic(%r, nan, 1)' % op, lambda op=op: operators.evaluate_arithmetic(op, float('nan'), 1))
    show('evaluate_arithmetic(%r, "nan", 1)' % op, lambda op=op: operators.evaluate_arithmetic(op, 'nan', 1))

# ---------------------------------------------------------------------------
# 3. evaluate_logic / ExcelComparator: cross product
# ---------------------------------------------------------------------------
LOGIC = [
    0, 1, -1, 1.0, 2.5, True, False, None, '', 'abc', 'ABC', 'b', '1', 1 + 0j,
    datetime.datetime(2020, 1, 15), datetime.datetime(1900, 1, 1), error.NUM, error.NOT_AVAILABLE,
    [1, 2], [], {'a': 1},
]
for op in ('>', '<', '>=', '<=', '=', '<>'):
    for a, b in itertools.product(LOGIC, repeat=2):
        show('evaluate_logic(%r, %r, %r)' % (op, a, b),
             lambda op=op, a=a, b=b: operators.evaluate_logic(op, a, b))

for a, b in itertools.product(LOGIC, repeat=2):
    if isinstance(a, error.XLError):
        continue
    show('ExcelComparator(%r) ge/le %r' % (a, b),
         lambda a=a, b=b: (operators.ExcelComparator(a).__ge__(b), operators.ExcelComparator(a).__le__(b)))
    show('ExcelComparator(%r).convert_other(%r)' % (a, b),
         lambda a=a, b=b: operators.ExcelComparator(a).convert_other(b))

# ---------------------------------------------------------------------------
# 4. ExcelArrayOps directly
# ---------------------------------------------------------------------------
ARRS = [[1, 2, 3], [5], [], [1, 'x', None, True], [[1, 2], [3, 4]], [error.NUM, 1]]
OTHERS = [2, None, 'abc', '3', [10, 20, 30], [7], [], [1, 2], [[1], [2], [3]], True, datetime.datetime(2020, 1, 15)]
for arr in ARRS:
    ops = operators.ExcelArrayOps(arr)
    for o in OTHERS:
        show('ExcelArrayOps(%r).adapt_value(%r)' % (arr, o), lambda ops=ops, o=o: ops.adapt_value(o))
        show('ExcelArrayOps(%r) + %r' % (arr, o), lambda ops=ops, o=o: ops + o)
        show('%r + ExcelArrayOps(%r)' % (o, arr), lambda ops=ops, o=o: o + ops)
        show('ExcelArrayOps(%r) - %r' % (arr, o), lambda ops=ops, o=o: ops - o)
        show('%r - ExcelArrayOps(%r)' % (o, arr), lambda ops=ops, o=o: o - ops)
        show('ExcelArrayOps(%r) * %r' % (arr, o), lambda ops=ops, o=o: ops * o)
        show('%r / ExcelArrayOps(%r)' % (o, arr), lambda ops=ops, o=o: o / ops)
        show('ExcelArrayOps(%r) / %r' % (arr, o), lambda ops=ops, o=o: ops / o)
    # the broadcast list is a fresh list and the array itself is left alone
    show('ExcelArrayOps(%r).arr after use' % (arr,), lambda ops=ops: ops.arr)
probe_arr = [1, 2, 3]
adapted = operators.ExcelArrayOps(probe_arr).adapt_value('v')
adapted.append('more')
show('adapt_value result is independent of arr', lambda: (probe_arr, adapted))

# ---------------------------------------------------------------------------
# 5. whole formulas, on one parser (repeated) and on a second parser
# ---------------------------------------------------------------------------
FORMULAS = [
    '', '1', '1+2', '1+2*3', '(1+2)*3', '1-2-3', '1-(2-3)', '8/4/2', '8/(4/2)', '2*3+4*5', '2*(3+4)*5',
    '-2+3', '-(2+3)', '--2', '-2*-3', '-2^2', '2^3', '2^3^2', '1+2^3', '-1-1', '1--1', '1+-1', '1-+1',
    '50%', '50%+1', '2*50%', '.5+.5', '1.5*2', '1.5.5', '1/0', '0/0', '1/0+1', '1+1/0', '(1/0)', '((1))', '((1)+(2))',
    '1<2', '2<1', '1=1', '1<>1', '1>=1', '1<=0', '1+1=2', '2=1+1', '1+1<3-1', '1<2=TRUE', '1<2<3', '3>2>1',
    '1=1=1', '1<>2<>3', '1&2', '1&2+3', '1+2&3', '1&2=12', '"1"&"2"="12"', '1&2*3', '2*3&1', '"a"&"b"&"c"', '"a"&1/0', '1/0&"x"',
    '"a"<"b"', '"b"<"a"', '"a"="A"', '"a"&"b"="ab"', '"a"<1', '1<"a"', 'TRUE>1', 'TRUE>"z"', 'TRUE=1', 'FALSE=0', 'TRUE+TRUE', 'TRUE*3',
    '"12"+1', '1+"12"', '"abc"+1', '1+"abc"', '"1.5"*2', '"1e3"/10', '""+1', '" "+1', '"abc"&1', '-"3"', '-"abc"', '-TRUE', '-blank',
    'blank+1', '1+blank', 'blank+blank', 'blank*blank', 'blank/blank', '1/blank', 'blank/1', 'blank-1', 'blank&"x"', '"x"&blank', 'blank&blank',
    'blank=0', 'blank=""', 'blank=FALSE', 'blank=blank', 'blank<1', 'blank>-1', 'blank<"a"', 'blank<TRUE', 'blank>=blank', 'blank<>blank', 'NULL+1',
    'one+half', 'neg*neg', 'neg/2', 'neg-neg', 'txt+1', 'txt&txt', 'numtxt+1', 'numtxt*numtxt', 'numtxt&1', 'numtxt=12', 'numtxt="12"',
    'day+1', '1+day', 'day-1', '1-day', 'day-day', 'day+day', 'day*2', 'day/2', '2/day', 'day/day', 'day+blank', 'blank+day', 'day-blank',
    'blank-day', 'day*blank', 'blank*day', 'day/blank', 'blank/day', 'day+txt', 'day&"x"', 'day=day', 'day>early', 'day<early', 'day=43845', 'day>1',
    'datetxt+1', 'datetxt-day', 'datetxt=day', 'datetxt&""', 'early+1', 'early-30', 'early-day', 'dayone+0', 'dayone+1', 'dayone+59', 'dayone+60',
    'dayone+61', 'dayone-1', 'dayone*2', 'dayone=0', '-day',
    'arr+1', '1+arr', 'arr-1', '1-arr', 'arr*2', '2*arr', 'arr/2', '2/arr', 'arr+arrb', 'arrb-arr', 'arr*arrb', 'arrb/arr', 'arr+arrshort',
    'arrshort+arr', 'arr+arrtwo', 'arrtwo-arr', 'arr/0', '0/arr', 'arr+txt', 'txt+arr', 'arr+blank', 'blank+arr', 'arr&"x"', '-arr', 'arr=arr',
    'arr>1', 'arrmix+1', '1+arrmix', 'arrmix*arrmix', 'arrmix/arrmix', 'empty+1', '1+empty', 'empty+empty', 'empty+arr', 'nested+1', 'nested*nested',
    'nested+arrtwo', 'arr+err', 'err+arr', 'arr+day', 'day+arr', 'arr-day', 'day-arr', '{1,2,3}+1', '{1,2,3}*{4,5,6}', '{1,2}+{1,2,3}', '1+{1;2}',
    '{1,2;3,4}*2', '-{1,2}', '{1,2}&"a"', '{1}+{2}', 'SUM(arr*2)', 'SUM({1,2,3}*{4,5,6})', 'SUM(arr+arrb)/2', 'SUM(1,2)*3', '2*SUM(1,2)+1',
    'err+1', '1+err', 'err*err', '-err', 'err&"a"', '"a"&err', 'err=1', '1=err', 'err=err', 'err<err', '#N/A+1', '1+#N/A', '#REF!', '#DIV/0!*2',
    'cplx+1', 'cplx*cplx', 'cplx/0', 'cplx-blank', 'cplx=cplx', 'cplx<1', 'cplx&""', '-cplx', 'obj+1', '1+obj', 'obj&""', 'obj=obj', 'obj<1', '-obj',
    'tup+1', '1+tup', 'tup&""', 'tup=tup', 'big+1', 'big*big', 'big/big', 'big/0.5', 'big-0.5', 'inf-inf', 'inf*0', 'inf/inf', 'inf+day', 'big+day',
    'neg+day', 'day+neg', 'day-99999', 'day*-1', 'day/0', '0/day', 'dayone/1', '1/dayone', 'dayone/dayone', 'half+dayone', 'dayone+half',
    'undefined+1', '1+undefined', '1+', '+1', '*2', '1 2', '(1+2', '1+2)', '()', '1+()', 'SUM()+1', 'NOSUCH(1)+1', '1+NOSUCH(1)',
    '1 + 2 * 3 - 4 / 5', ' ( 1 + 2 ) * ( 3 - 4 ) / 5 ', '((((1+2))*((3-4)))/5)', '1+2*3-4/5&6<7=TRUE', '(((1+(2*3))-(4/5))&6)<7=TRUE',
    '-1+-2*-3--4/-5', '(-1)+((-2)*(-3))-((-4)/(-5))', '10-5-3-1', '((10-5)-3)-1', '10-(5-(3-1))', '100/10/5*2', '((100/10)/5)*2', '100/(10/(5*2))',
    '2*3&4*5', '(2*3)&(4*5)', '2*(3&4)*5', '1&2&3+4', '1<2&3', '(1<2)&3', '1<(2&3)', '1+2<3+4=5+6>7', '((1+2)<(3+4))=((5+6)>7)', '1=2=3<4',
    '-2*3', '-(2*3)', '(-2)*3', '-2/4', '-(2/4)', '-2+4', '-(2+4)', '-2&3', '-(2&3)', '(-2)&3', '-2<1', '-(2<1)', '-1^2', '(-1)^2',
    'IF(1<2,1+2*3,(1+2)*3)', 'IF(1>2,1+2*3,(1+2)*3)', 'SUM(1,2)&SUM(3,4)', 'SUM(1,2)<SUM(3,4)', 'ABS(-1-2)', '-ABS(-3)*2', 'SUM(-1,-2)--3',
]

events = []
p1 = make_parser(events)
for f in FORMULAS:
    parse_line(p1, f, events)
# repeated on the same parser: nothing may linger between evaluations
for f in FORMULAS[::3]:
    parse_line(p1, f, events)
# a second parser, without listeners
p2 = make_parser()
for f in FORMULAS[1::2]:
    parse_line(p2, f)

# ---------------------------------------------------------------------------
# 6. random expression trees: fully parenthesised and parenthesis-free renderings
# ---------------------------------------------------------------------------
rng = random.Random(404)
LEAVES = ['1', '2', '3', '0', '7', '10', '2.5', '0.5', '"4"', '"ab"', 'TRUE', 'FALSE', 'blank', 'one', 'neg', 'day', 'arr', 'err', 'numtxt', '""']
BINOPS = ['+', '-', '*', '/', '&', '<', '>', '<=', '>=', '=', '<>']


def gen(depth):
    if depth == 0 or rng.random() < 0.25:
        return rng.choice(LEAVES)
    if rng.random() < 0.15:
        return ('neg', gen(depth - 1))
    return (rng.choice(BINOPS), gen(depth - 1), gen(depth - 1))


def full(t):
    if isinstance(t, str):
        return t
    if t[0] == 'neg':
        return '(-' + full(t[1]) + ')'
    return '(' + full(t[1]) + t[0] + full(t[2]) + ')'


def flat(t):
    # no parentheses at all: the grammar's own precedence and grouping decide the reading
    if isinstance(t, str):
        return t
    if t[0] == 'neg':
        return '-' + flat(t[1])
    return flat(t[1]) + t[0] + flat(t[2])


for i in range(150):
    tree = gen(3)
    parse_line(p1 if i % 2 else p2, full(tree), events if i % 2 else None)
    parse_line(p2 if i % 2 else p1, flat(tree), None if i % 2 else events)

# the shared error values carry nothing over
show('error singletons clean', lambda: [(str(e), e.__traceback__, e.__context__) for e in
                                         (error.ERROR, error.DIV_ZERO, error.NAME, error.NOT_AVAILABLE, error.NULL,
                                          error.NUM, error.REF, error.VALUE, error.DATA)])
show('conversion table untouched', lambda: sorted(
    (op, type_name(lt), type_name(rt), sorted(conv))
    for op, by_l in operators.IMPLICIT_DATA_TYPE_CONVERSIONS.items()
    for lt, by_r in by_l.items() for rt, conv in by_r.items()))
print('total evaluations: %d' % COUNT[0])
