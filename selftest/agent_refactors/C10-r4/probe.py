# -*- coding: utf-8 -*-
"""
Probe for C10 refactoring 4 (column label <-> index conversion tuned; range corners built in one go).

Prints one line per evaluation: the input, repr() of the outcome and, for formulas, the events seen
with the complete payload of every cell (label, row and column index / label / absolute marker).
Deterministic: fixed seed, no time, no memory addresses.
"""
import decimal
import fractions
import os
import random
import sys

sys.path.insert(0, os.path.dirname(os.path.dirname(os.path.abspath(__file__))))

import hotxlfp  # noqa: E402
from hotxlfp import Parser  # noqa: E402
from hotxlfp.helper import cell as cellmod  # noqa: E402
from hotxlfp.formulas import error as xlerror  # noqa: E402

COUNT = [0]


def show_parsed(pl):
    return '%s/%s/%s' % (ascii(pl.index), ascii(pl.label), ascii(pl.is_absolute))


def show_cell(c):
    row, col = c  # unpacking goes through Cell.__getitem__
    assert row is c.row and col is c.col
    return '%s[r=%s c=%s]' % (ascii(c.label), show_parsed(c.row), show_parsed(c.col))


def safe_repr(v):
    if isinstance(v, list):
        return '[' + ', '.join(safe_repr(x) for x in v) + ']'
    if isinstance(v, tuple):
        return '(' + ', '.join(safe_repr(x) for x in v) + ')'
    if isinstance(v, xlerror.XLError):
        return 'XLError(%s)' % (v.args[0] if v.args else '')
    if isinstance(v, cellmod.Cell):
        return show_cell(v)
    if isinstance(v, cellmod.ParsedLabel):
        return 'ParsedLabel(%s)' % show_parsed(v)
    return ascii(v)  # ascii(): repr() with non-ASCII escaped, whatever the console encoding


def grid_value(row, col):
    """The sheet: a deterministic value per coordinate, of every kind."""
    k = (row * 7 + col * 3) % 11
    if k == 0:
        return None           # blank
    if k == 1:
        return 0
    if k == 2:
        return False
    if k == 3:
        return ''
    if k == 4:
        return 'r%dc%d' % (row, col)
    if k == 5:
        return True
    if k == 6:
        return xlerror.NOT_AVAILABLE if (row + col) % 5 == 0 else row - col
    if k == 7:
        return 1.5 * row + col
    return row * 1000 + col


class Sheet(object):
    def __init__(self, parser, supply=True):
        self.events = []
        self.supply = supply
        parser.on('callCellValue', self.on_cell)
        parser.on('callRangeValue', self.on_range)
        parser.on('callVariable', self.on_variable)
        parser.on('callFunction', self.on_function)

    def on_cell(self, cell, setter):
        self.events.append('cell ' + show_cell(cell))
        if self.supply:
            setter(grid_value(cell.row.index, cell.col.index))

    def on_range(self, start, end, setter):
        self.events.append('range ' + show_cell(start) + ':' + show_cell(end))
        if self.supply:
            rows = range(start.row.index, min(end.row.index, start.row.index + 3) + 1)
            cols = range(start.col.index, min(end.col.index, start.col.index + 3) + 1)
            setter([[grid_value(r, c) for c in cols] for r in rows])

    def on_variable(self, name, setter):
        self.events.append('var ' + name)

    def on_function(self, name, args, setter):
        self.events.append('fn %s%s' % (name, safe_repr(args)))


def outcome(parser, formula):
    try:
        res = parser.parse(formula)
    except BaseException as e:  # parse() is not supposed to raise
        return 'RAISED %s(%s)' % (type(e).__name__, ascii(str(e)))
    return '{result: %s, error: %s}' % (safe_repr(res['result']), safe_repr(res['error']))


def run(parser, formula, sheet=None, note=''):
    if sheet is not None:
        del sheet.events[:]
    out = outcome(parser, formula)
    COUNT[0] += 1
    ev = ' | '.join(sheet.events) if sheet is not None else '-'
    print('%04d %s%s => %s  events: %s' % (COUNT[0], (note + ' ') if note else '', ascii(formula), out, ev))


def call(label, fn, *args):
    try:
        out = safe_repr(fn(*args))
    except BaseException as e:
        out = 'RAISED %s(%s)' % (type(e).__name__, ascii(str(e)))
    COUNT[0] += 1
    print('%04d %s(%s) => %s' % (COUNT[0], label, ', '.join(safe_repr(a) for a in args), out))


COLUMNS = ['A', 'B', 'Y', 'Z', 'AA', 'AB', 'AZ', 'BA', 'ZY', 'ZZ', 'AAA', 'AAB', 'AMJ', 'XFD', 'ZZZ', 'AAAA',
           'a', 'z', 'aa', 'zz', 'aA', 'Az', 'xfd', 'Abc', 'ZZZZZZ']
ROWS = ['1', '2', '9', '10', '99', '100', '1048576', '0', '00', '01', '007', '123456789012345678901234567890']


def cell_spellings(col, row):
    return [col + row, '$' + col + row, col + '$' + row, '$' + col + '$' + row]


def formulas():
    out = []
    # single cells, every spelling
    for col in COLUMNS:
        for row in ROWS[:4] + ROWS[6:9]:
            out.append(col + row)
    for col in ['A', 'z', 'AA', 'xfd']:
        for row in ROWS:
            out.extend(cell_spellings(col, row))
    # ranges: all four ways round, with every mixture of markers
    corners = [('A', '1', 'B', '2'), ('A', '1', 'A', '1'), ('A', '1', 'A', '5'), ('A', '1', 'E', '1'),
               ('Z', '9', 'AA', '10'), ('AZ', '99', 'BA', '100'), ('ZZ', '1', 'AAA', '2'),
               ('a', '1', 'c', '3'), ('B', '0', 'C', '2'), ('XFC', '1048575', 'XFD', '1048576'),
               ('C', '01', 'D', '1'), ('y', '3', 'AB', '7')]
    for c1, r1, c2, r2 in corners:
        for a, b in [(c1 + r1, c2 + r2), (c2 + r2, c1 + r1), (c1 + r2, c2 + r1), (c2 + r1, c1 + r2)]:
            out.append(a + ':' + b)
    for c1, r1, c2, r2 in corners[:6]:
        for i, a in enumerate(cell_spellings(c2, r1)):
            for j, b in enumerate(cell_spellings(c1, r2)):
                if (i + j) % 2 == 0 or i == 3:
                    out.append(a + ':' + b)
    # in context
    out.extend([
        'SUM(A1:B2)', 'SUM(B2:A1)', 'SUM(A2:B1)', 'SUM(b1:a2)', 'SUM($B$2:$A$1)', 'SUM(B$2:$A1)',
        'A1+B2', 'a1&b2', 'SUM(A1,B2:C3,D4)', 'SUM(D4,C3:B2,A1)', 'COUNT(A1:D4)', 'COUNTA(D4:A1)',
        'COUNTBLANK(A1:D4)', 'MAX(A1:D4)', 'MIN(D1:A4)', 'ISBLANK(A1)', 'ISBLANK(L1)', 'IF(C2,A1:B2,B2:A1)',
        'IFERROR(SUM(A1:D4),"err")', 'CONCATENATE(A1,B1,C1,D1,E1)', 'SUM(AA1:AB2)+SUM(AB2:AA1)',
        'INDEX(A1:C3,2,2)', 'INDEX(C3:A1,2,2)', 'MATCH(1000,A1:A4,0)', 'ROWS(A1:B5)', 'COLUMNS(A1:E2)',
        'A1:B2', 'A1:B2:C3', 'A:B', '1:2', 'A1:', ':B2', 'A1:B', 'A1:2', '$A:$B', 'A$1$:B2', '$$A1', 'A1$',
        'A1.B2', 'A1 :B2', 'A1: B2', 'A1 : B2', '(A1):(B2)', 'R1C1', 'A1B2', 'A1_', '_A1', 'A1A', 'AAAA1', 'A1.5',
        'É1', 'ß1', 'A١', 'ı1', 'İ1', 'K1', 'k1', 'ſ1',
        '{A1,B2}', '{A1:B2}', '{B2:A1,C3}', 'SUM({A1,B2;C3,D4})', '-A1', '-B2:A1', 'A1%', 'A1^2', '2^A1',
        'A1=a1', 'A1=$A$1', 'A1<>B1', 'B2:A1=A1:B2', 'TRUE', 'somevar', 'A1+somevar',
    ])
    return out


def main():
    print('hotxlfp probe r4; module %s' % hotxlfp.__name__)
    flist = formulas()

    print('== sheet listener, first parser')
    p1 = Parser()
    s1 = Sheet(p1)
    for f in flist:
        run(p1, f, s1)

    print('== recording only (blank sheet), second parser')
    p2 = Parser()
    s2 = Sheet(p2, supply=False)
    for f in flist[::3]:
        run(p2, f, s2, note='p2')

    print('== no listener, third parser')
    p3 = Parser()
    for f in flist[::5]:
        run(p3, f, note='p3')

    print('== first parser again')
    for f in flist[::4]:
        run(p1, f, s1, note='p1-again')

    print('== random references, fixed seed, two parsers')
    rnd = random.Random(4104)

    def rnd_col():
        n = rnd.choice([1, 1, 1, 2, 2, 3, 3, 4])
        return ''.join(rnd.choice('ABCDEFGHIJKLMNOPQRSTUVWXYZabcdefghijklmnopqrstuvwxyz') for _ in range(n))

    def rnd_row():
        return rnd.choice(['0', '1', '2', '10', '26', '27', '99', '100', '1000', '65536', '1048576', '007',
                           str(rnd.randrange(0, 5000))])

    def rnd_ref():
        return rnd.choice(['', '$']) + rnd_col() + rnd.choice(['', '$']) + rnd_row()

    for _ in range(120):
        kind = rnd.random()
        if kind < 0.3:
            f = rnd_ref()
        elif kind < 0.8:
            f = rnd_ref() + ':' + rnd_ref()
        else:
            f = 'SUM(%s:%s,%s)' % (rnd_ref(), rnd_ref(), rnd_ref())
        run(p1, f, s1, note='p1')
        run(p2, f, s2, note='p2')

    print('== call_cell_value / call_range_value directly')
    p4 = Parser()
    s4 = Sheet(p4)

    def direct(label, fn, *args):
        del s4.events[:]
        try:
            out = safe_repr(fn(*args))
        except BaseException as e:
            out = 'RAISED %s(%s)' % (type(e).__name__, ascii(str(e)))
        COUNT[0] += 1
        print('%04d %s(%s) => %s  events: %s' % (COUNT[0], label, ', '.join(safe_repr(a) for a in args), out,
                                                  ' | '.join(s4.events)))

    for lab in ['A1', 'a1', '$a$1', 'zz$100', '$xfd1048576', 'A0', 'A00', '', 'A', '1', '$A', 'A$', 'A1 ', ' A1',
                'A1\n', 'É1', 'ß1', 'A-1', 'A+1', 'A1.0']:
        direct('call_cell_value', p4.call_cell_value, lab)
    for a, b in [('A1', 'B2'), ('B2', 'A1'), ('a2', 'b1'), ('b1', 'a2'), ('$B$2', '$A$1'), ('$B2', 'A$1'),
                 ('B$2', '$A1'), ('A1', 'A1'), ('$A$1', 'A1'), ('A1', '$A$1'), ('A$1', '$A1'), ('$A1', 'A$1'),
                 ('A1', '$A2'), ('$A2', 'A1'), ('A1', 'B$1'), ('B$1', 'A1'), ('A0', 'B0'), ('B0', 'A0'),
                 ('A0', 'A1'), ('A1', 'A0'), ('A00', 'A0'), ('A0', 'A00'), ('A01', 'A1'), ('A1', 'A01'),
                 ('aa10', 'Z9'), ('Z9', 'aa10'), ('ZZZ1', 'A1048576'), (None, 'A1'), ('A1', None), (None, None),
                 ('A1', 'bad'), ('bad', 'A1'), ('', 'A1'), ('A1', ''), ('A1:B2', 'C3'), ('A1', 'B2\n')]:
        direct('call_range_value', p4.call_range_value, a, b)
    for a in [1, 1.5, ['A1'], b'A1']:
        direct('call_cell_value', p4.call_cell_value, a)
        direct('call_range_value', p4.call_range_value, a, 'A1')
        direct('call_range_value', p4.call_range_value, 'A1', a)

    print('== helper functions')
    for lab in ['', 'A', 'B', 'Z', 'AA', 'AB', 'AZ', 'BA', 'ZZ', 'AAA', 'XFD', 'ZZZ', 'AAAA', 'a', 'z', 'aa', 'aZ',
                'Zz', 'xfd', 'A1', '1', '1A', 'A 1', ' A', 'A ', '$A', 'A$', '$', '-', '_', 'A_B', 'É', 'é', 'ß', 'ßa',
                'ı', 'İ', 'ſ', 'K', 'ǆ', 'ﬁ', 'AﬁB', 'Ω', '١', '\n', 'A\nB', 'ABCDEFGHIJKLMNOPQRSTUVWXYZ',
                'Z' * 40, 'a' * 100, None, 0, 1, 27, 1.5, True, b'A', b'AA', ['A'], ('A', 'B'), {'A': 1}]:
        call('column_label_to_index', cellmod.column_label_to_index, lab)
    specials = [-1000, -27, -26, -2, -1, 0, 1, 2, 24, 25, 26, 27, 28, 50, 51, 52, 53, 675, 676, 677, 700, 701, 702,
                703, 704, 727, 728, 729, 16383, 16384, 18277, 18278, 18279, 475253, 475254, 475255, 10 ** 12,
                26 ** 10, 26 ** 10 - 1, 26 ** 20 + 26 ** 3, 2 ** 100,
                0.0, -0.0, 0.5, 0.999, -0.5, -0.001, -1.0, 1.0, 1.5, 25.9, 26.0, 26.5, 27.999, 701.5, 702.0, 702.9,
                1e6, 1e15, 123456789.75, float('nan'), float('inf'), float('-inf'),
                True, False, None, '', 'A', '5', [], [1], (1,), {}, 1j, b'1',
                decimal.Decimal('27'), decimal.Decimal('27.9'), decimal.Decimal('-0.5'), decimal.Decimal('0.5'),
                decimal.Decimal('NaN'), fractions.Fraction(55, 2), fractions.Fraction(-1, 2), fractions.Fraction(1, 2)]
    for col in specials:
        call('column_index_to_label', cellmod.column_index_to_label, col)
    for row in [-5, -1, 0, 1, 9, 10, 1048575, 0.5, 1.5, -0.5, True]:
        call('row_index_to_label', cellmod.row_index_to_label, row)
    for lab in ['0', '1', '2', '10', '1048576', '00', '01', '-1', '-5', 'A', '', ' 7 ', '1.5', '1_0', '١٢', 5, 0, 2.9]:
        call('row_label_to_index', cellmod.row_label_to_index, lab)
    for lab in ['A1', 'a1', '$A$1', '$a1', 'a$1', 'Zz100', '$xfd$1048576', 'A0', 'A00', 'A007', 'AAAA12345678901234567890',
                '', 'A', '1', '1A', 'A1A', '$$A1', 'A$$1', 'A1$', ' A1', 'A1 ', 'A1\n', 'A1\n\n', 'É1', 'A١', 'ß1', 'A-1',
                'A1:B2', None, 1, b'A1', ['A1']]:
        call('extract_label', cellmod.extract_label, lab)
    PL = cellmod.ParsedLabel
    for ri, ra, ci, ca in [(0, False, 0, False), (0, True, 0, True), (0, True, 0, False), (0, False, 0, True),
                           (97, True, 13, True), (1048575, False, 16383, False), (-1, False, 0, False),
                           (-1, True, 0, True), (0, False, -1, False), (0, True, -1, True), (-1, False, -1, False),
                           (-1, True, -1, True), (9, False, 25, False), (9, False, 26, True), (99, True, 701, False),
                           (99, True, 702, False), (5, 0, 5, 1), (5, '', 5, 'x'), (2.0, False, 27.5, False)]:
        call('to_label', cellmod.to_label, PL(ri, 'ignored', ra), PL(ci, 'ignored', ca))

    print('== round trips')
    # every column index up to ZZZ and a stretch beyond: index -> label -> index
    bad = 0
    labels = []
    for i in range(0, 20000):
        lab = cellmod.column_index_to_label(i)
        labels.append(lab)
        if cellmod.column_label_to_index(lab) != i or cellmod.column_label_to_index(lab.lower()) != i:
            bad += 1
    COUNT[0] += 1
    print('%04d round trip 0..19999: mismatches %d; sample %r; total label length %d'
          % (COUNT[0], bad, labels[::997], sum(len(x) for x in labels)))
    for start in range(0, 20000, 500):
        COUNT[0] += 1
        chunk = labels[start:start + 500]
        print('%04d labels %d..%d: first %r last %r joined-hash %d'
              % (COUNT[0], start, start + 499, chunk[0], chunk[-1],
                 sum((k + 1) * sum(ord(ch) for ch in lab) for k, lab in enumerate(chunk))))
    for _ in range(60):
        n = rnd.choice([rnd.randrange(0, 30), rnd.randrange(0, 20000), rnd.randrange(0, 10 ** 9), rnd.randrange(0, 10 ** 30)])
        lab = cellmod.column_index_to_label(n)
        back = cellmod.column_label_to_index(lab)
        COUNT[0] += 1
        print('%04d column %d -> %r -> %d %s' % (COUNT[0], n, lab, back, 'ok' if back == n else 'MISMATCH'))
    for _ in range(60):
        f = float(rnd.randrange(0, 100000)) + rnd.choice([0.0, 0.25, 0.5, 0.999])
        call('column_index_to_label', cellmod.column_index_to_label, f)

    print('evaluations: %d' % COUNT[0])


if __name__ == '__main__':
    main()
