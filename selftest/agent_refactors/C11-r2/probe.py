# -*- coding: utf-8 -*-
"""
C11 refactoring 2 probe: the criteria-selecting statistics SUMIFS / AVERAGEIFS / MAXIFS (shared
selection loop), AVERAGEIF (index loop) and SLOPE (argument splitting), called directly, through
Parser.call_function and as whole formulas. Prints a deterministic transcript, one line per evaluation.
"""
import os
import sys
import random

sys.path.insert(0, os.path.dirname(os.path.dirname(os.path.abspath(__file__))))

import hotxlfp  # noqa: E402
from hotxlfp import Parser  # noqa: E402
from hotxlfp.formulas import error  # noqa: E402
from hotxlfp import formulas  # noqa: E402

COUNT = [0]


def show(value):
    if isinstance(value, error.XLError):
        return 'XLError(%r)' % str(value)
    if isinstance(value, BaseException):
        return '%s(%r)' % (type(value).__name__, str(value))
    if isinstance(value, list):
        return '[' + ', '.join(show(v) for v in value) + ']'
    if isinstance(value, tuple):
        return '(' + ', '.join(show(v) for v in value) + (',)' if len(value) == 1 else ')')
    if isinstance(value, dict):
        return '{' + ', '.join('%r: %s' % (k, show(value[k])) for k in sorted(value)) + '}'
    if isinstance(value, Loud):
        return 'Loud(%r)' % (value.v,)
    return repr(value)


def out(kind, what, outcome):
    COUNT[0] += 1
    print('%04d %s %s => %s' % (COUNT[0], kind, what, outcome))


TRACE = []


class Loud(object):
    """ a cell value that records every operation applied to it, to pin down the order of evaluation """

    def __init__(self, v):
        self.v = v

    def _other(self, other):
        return other.v if isinstance(other, Loud) else other

    def __eq__(self, other):
        TRACE.append('%r==%r' % (self.v, self._other(other)))
        return self.v == self._other(other)

    def __ne__(self, other):
        TRACE.append('%r!=%r' % (self.v, self._other(other)))
        return self.v != self._other(other)

    def __gt__(self, other):
        TRACE.append('%r>%r' % (self.v, self._other(other)))
        return self.v > self._other(other)

    def __lt__(self, other):
        TRACE.append('%r<%r' % (self.v, self._other(other)))
        return self.v < self._other(other)

    def __ge__(self, other):
        TRACE.append('%r>=%r' % (self.v, self._other(other)))
        return self.v >= self._other(other)

    def __le__(self, other):
        TRACE.append('%r<=%r' % (self.v, self._other(other)))
        return self.v <= self._other(other)

    def __add__(self, other):
        TRACE.append('%r+%r' % (self.v, self._other(other)))
        return Loud(self.v + self._other(other))

    def __radd__(self, other):
        TRACE.append('%r+%r' % (self._other(other), self.v))
        return Loud(self._other(other) + self.v)

    def __mul__(self, other):
        TRACE.append('%r*%r' % (self.v, self._other(other)))
        return Loud(self.v * self._other(other))

    __rmul__ = __mul__

    def __pow__(self, other):
        TRACE.append('%r**%r' % (self.v, self._other(other)))
        return Loud(self.v ** self._other(other))

    def __sub__(self, other):
        TRACE.append('%r-%r' % (self.v, self._other(other)))
        return Loud(self.v - self._other(other))

    def __rsub__(self, other):
        TRACE.append('%r-%r' % (self._other(other), self.v))
        return Loud(self._other(other) - self.v)

    def __truediv__(self, other):
        TRACE.append('%r/%r' % (self.v, self._other(other)))
        return Loud(self.v / self._other(other))

    def __rtruediv__(self, other):
        TRACE.append('%r/%r' % (self._other(other), self.v))
        return Loud(self._other(other) / self.v)

    __hash__ = None


def loud(seq):
    return [Loud(v) for v in seq]


TABLE = [
    # A   B          C      D                    E      F
    [1,   'apple',   10,    None,                True,  '3'],
    [2,   'pear',    20.5,  '',                  False, '4.5'],
    [3,   'apple',   -30,   'x',                 True,  'abc'],
    [4,   'plum',    40,    error.VALUE,         None,  ' 7 '],
    [5,   'apricot', 0,     error.NOT_AVAILABLE, 0,     '1e2'],
    [2,   'Apple',   20.5,  None,                1,     '-0'],
]


def make_parser(events, flat=False):
    p = Parser()

    def on_cell(cell, setter):
        events.append(('cell', cell.label))
        try:
            setter(TABLE[cell.row.index][cell.col.index])
        except IndexError:
            pass

    def on_range(start, end, setter):
        events.append(('range', start.label, end.label))
        rows = []
        for r in range(start.row.index, end.row.index + 1):
            if r < len(TABLE):
                row = TABLE[r][start.col.index:end.col.index + 1]
                if flat:
                    rows.extend(row)
                else:
                    rows.append(row)
        setter(rows)

    def on_function(name, args, setter):
        events.append(('fn', name, show(list(args))))

    def on_variable(name, setter):
        events.append(('var', name))

    p.on('callCellValue', on_cell)
    p.on('callRangeValue', on_range)
    p.on('callFunction', on_function)
    p.on('callVariable', on_variable)
    return p


def ev(formula, flat=False):
    events = []
    p = make_parser(events, flat=flat)
    try:
        outcome = show(p.parse(formula))
    except BaseException as e:  # parse() is not supposed to raise
        outcome = 'RAISED ' + show(e)
    out('parse%s' % ('(flat ranges)' if flat else ''), repr(formula), '%s events=%s' % (outcome, show(events)))


def direct(fname, *args):
    fn = formulas.get_for(fname)
    del TRACE[:]
    what = '%s%s' % (fname, show(tuple(args)))
    try:
        outcome = show(fn(*args))
    except BaseException as e:
        outcome = 'raise ' + show(e)
    if TRACE:
        outcome += ' trace=' + ' '.join(TRACE)
    out('call', what, outcome)
    error.clear_tracebacks()


def via_parser(fname, *args):
    events = []
    p = make_parser(events)
    del TRACE[:]
    what = '%s%s' % (fname, show(tuple(args)))
    try:
        outcome = show(p.call_function(fname, list(args)))
    except BaseException as e:
        outcome = 'raise ' + show(e)
    if TRACE:
        outcome += ' trace=' + ' '.join(TRACE)
    out('call_function', what, '%s events=%s' % (outcome, show(events)))
    error.clear_tracebacks()


def both(fname, *args):
    direct(fname, *args)
    via_parser(fname, *args)


IFS = ('SUMIFS', 'AVERAGEIFS', 'MAXIFS')

# ---------------------------------------------------------------- 1. the ...IFS family: argument shapes

VALUES = [
    [1, 2, 3, 4],
    (1, 2, 3, 4),
    [4, 3, 2, 1],
    [1.5, -2.5, 0, 1e308],
    [],
    (),
    [[1], [2], [3], [4]],
    [1, 'a', 3, 4],
    ['a', 'b', 'c', 'd'],
    [None, 5, None, 2],
    [5, None, 2, None],
    [True, False, True, True],
    [1, error.VALUE, 3, 4],
    [error.NOT_AVAILABLE, 1, 2, 3],
    [float('nan'), 1, 2, 3],
    [1, float('nan'), 2, 3],
    [1, 2 + 1j, 3, 4],
    5,
    2.5,
    'abcd',
    '',
    None,
    True,
    error.NUM,
    {0: 1, 1: 2, 2: 3, 3: 4},
    range(4),
]

for name in IFS:
    for values in VALUES:
        both(name, values)                                                  # no criteria at all
        both(name, values, [1, 2, 3, 4])                                    # odd number of criteria arguments
        both(name, values, [1, 2, 3, 4], '>1')
        both(name, values, [1, 2, 3, 4], '>9')                              # nothing selected
        both(name, values, [1, 2, 3, 4], '<>2', ['a', 'ab', 'b', 'a'], 'a*')

# ---------------------------------------------------------------- 2. the ...IFS family: criteria ranges and criteria

V = [10, 20, 30, 40]
CRANGES = [
    [1, 2, 3, 4],
    (1, 2, 3, 4),
    [1, 2, 3],                    # shorter than the values
    [1, 2, 3, 4, 5],              # longer than the values
    [],
    [[1], [2], [3], [4]],
    [[1, 2, 3, 4]],
    ['a', 'ab', 'b', 'a*'],
    ['1', '2', '3', '4'],
    [1, 'a', None, True],
    [None, None, None, None],
    [True, False, True, False],
    [1, error.VALUE, 3, 4],
    [2, 2, 2, 2],
    [2.0, 2, '2', True],
    'abcd',                       # text is subscriptable
    'ab',
    '',
    5,
    None,
    error.REF,
    {0: 1, 1: 2, 2: 3, 3: 4},
    range(1, 5),
]
CRITS = ['>2', '<=2', '<>2', '=2', '2', 'a', 'a*', '?', '*', '<>a', '>a', 'TRUE', '', '==2', '>', None, 2, ['>2']]

for name in IFS:
    for crange in CRANGES:
        for c in CRITS:
            via_parser(name, V, crange, c)

for name in IFS:
    for c1 in ('>1', '<4', '*', 'zz', '', 7):
        for c2 in ('<>3', 'a*', '>=2', '', None):
            both(name, V, [1, 2, 3, 4], c1, [1, 'a', 3, 'ab'], c2)
            both(name, V, [1, 2, 3], c1, [1, 2, 3, 4], c2)      # first range short
            both(name, V, [1, 2, 3, 4], c1, [1, 2], c2)         # second range short
            both(name, V, 'abcd', c1, [1, 2, 3, 4], c2)
    both(name, V, [1, 2, 3, 4], '>1', [1, 2, 3, 4], '<4', [4, 3, 2, 1], '<>2')
    both(name, V, [1, 2, 3, 4], '>1', [1, 2, 3, 4], '<4', [4, 3, 2, 1])
    both(name, V, [1, 2, 3, 4], '>1', [1, 2, 3, 4], '', [4, 3, 2, 1], '<>2')
    both(name, V, [1, 2, 3, 4], '>1', '<4')
    both(name, V, '>1', '<4')
    both(name, V, '>1', [1, 2, 3, 4])
    both(name, V, V, '>10', V, '<40', V, '<>20', V, '30')

# ---------------------------------------------------------------- 3. order of evaluation, seen through recording values

for name in IFS:
    direct(name, loud([10, 20, 30, 40]), loud([1, 2, 3, 4]), '>1')
    direct(name, loud([10, 20, 30, 40]), loud([1, 2, 3, 4]), '>1', loud([5, 6, 7, 8]), '<>7')
    direct(name, loud([10, 20, 30, 40]), loud([1, 2, 3, 4]), '2', loud(['a', 'b', 'c', 'd']), 'b')
    direct(name, loud([10, 'x', 30, 40]), loud([1, 2, 3, 4]), '>=1')
    direct(name, loud([10, 20, 30, 40]), loud([1, 2, 'z', 4]), '>=1')
    direct(name, loud([10, 20, 30, 40]), loud([1, 2, 3]), '>=1')
    direct(name, loud([10, 20, 30, 40]), loud([1, 2, 3, 4]), '>9')
    direct(name, loud([40, 10, 40, 5]), loud([1, 1, 1, 1]), '1')
    direct(name, [10, 20, 30, 40], loud([1, 2, 3, 4]), '<3', loud([1, 2, 3, 4]), '>1')
direct('AVERAGEIF', loud([1, 2, 3, 4]), '>1')
direct('AVERAGEIF', loud([1, 2, 3, 4]), '>1', [10, 20, 30, 40])
direct('AVERAGEIF', loud([1, 2, 3, 4]), '2', [10, 20, 30, 40])
direct('AVERAGEIF', loud([1, 2, 3, 4]), '<>2', [10, 20, 30])
direct('AVERAGEIF', loud([1, 2, 3, 4]), '>9', [10, 20, 30, 40])
direct('AVERAGEIF', loud(['a', 'b', 3]), '>1')
direct('SLOPE', *loud([1, 2, 3, 4, 1, 2, 3, 5]))
direct('SLOPE', *loud([1, 2, 3, 3]))
direct('SLOPE', *loud([1, 2, 3]))
direct('SLOPE', *loud([1, 'a', 3, 4]))

# ---------------------------------------------------------------- 4. AVERAGEIF

AIF_RANGES = [
    [1, 2, 3, 4],
    (1, 2, 3, 4),
    [[1, 2], [3, 4]],
    [[1], [2], [3], [4]],
    [1, 'apple', 2.5, None, True, '', 'apricot', '2', 'Apple', -3],
    ['1', '2', '3'],
    [1, error.VALUE, 3],
    [error.NOT_AVAILABLE],
    [],
    (),
    [0],
    [0, 0],
    5,
    0,
    '3',
    'apple',
    '',
    None,
    True,
    False,
    error.NUM,
]
AIF_CRITS = ['>2', '<=2', '<>2', '2', '=2', 'apple', 'a*', '*', '?', '>a', '', '==2', None, 2, '>9', '0', 'TRUE']
AIF_AVG = [
    None,
    [10, 20, 30, 40],
    [10, 20],
    [10, 20, 30, 40, 50, 60, 70, 80, 90, 100, 110],
    [[10, 20], [30, 40]],
    ['10', '20', 'x', None],
    [10, error.DIV_ZERO, 30, 40],
    [True, False, True, False],
    [],
    0,
    7,
    '7',
    'x',
    error.REF,
]

for rng in AIF_RANGES:
    for c in AIF_CRITS:
        via_parser('AVERAGEIF', rng, c)
for avg in AIF_AVG:
    for c in ('>1', '<>2', '2', 'a*', '>9', ''):
        both('AVERAGEIF', [1, 2, 3, 4], c, avg)
    both('AVERAGEIF', ['a', 'ab', 'b', 'a*'], 'a*', avg)
    both('AVERAGEIF', [], '>1', avg)
    both('AVERAGEIF', 3, '3', avg)
direct('AVERAGEIF')
direct('AVERAGEIF', [1, 2])
direct('AVERAGEIF', [1, 2], '>0', [1, 2], 4)

# ---------------------------------------------------------------- 5. SLOPE

SLOPES = [
    (),
    (1,),
    (1, 2),
    (1, 1),
    (1, 2, 3),
    (1, 2, 3, 4),
    (1, 2, 3, 3),
    (6, 1, 2, 4),
    (1, 2, 3, 4, 1, 2, 3, 4),
    (6, 2, -2, -4, -6, -2, 0, 2, 3, 4),
    (1, 2, 3, 4, 5),
    (1.5, 2.5, 0.1, 0.2),
    (0, 0, 0, 0),
    (1, 2, 0, 0),
    (1e308, 1e308, 1, 2),
    (1e200, 2, 1e200, 3),
    (float('inf'), 1, 2, 3),
    (float('nan'), 1, 2, 3),
    (1, 2, float('nan'), 3),
    (True, False, True, False),
    (True, False, 1, 2),
    ('1', '2', '3', '4'),
    (1, 2, '3', 4),
    ('a', 'b'),
    (None, 1),
    (1, None),
    (None, None),
    (1, 2, None, 4),
    (error.VALUE, 1),
    (1, error.VALUE),
    (1, 2, error.NOT_AVAILABLE, 4),
    ([1, 2, 3], [4, 5, 6]),
    ([1, 2], [3, 4], [1, 2], [3, 5]),
    ([], []),
    ((1, 2), (3, 4)),
    (1 + 1j, 2, 3, 4),
    (1, 2, 3 + 1j, 4),
    (10 ** 30, 1, 10 ** 20, 2),
    (2, 4, 6, 8, 10, 12, 1, 2, 3, 4, 5, 6),
    (3, 1, 2, 2, 3, 1),
]
for args in SLOPES:
    both('SLOPE', *args)

# ---------------------------------------------------------------- 6. whole formulas

FORMULAS = [
    'SUMIFS({1;4;5;100}, {1;4;5;100},"<>200")', 'SUMIFS({1;4;5}, {3;5;9},"<7")', 'SUMIFS({1;4;5}, ">1","<5")',
    'SUMIFS({1;4;5}, {1;4;5;100},"<5")', 'SUMIFS({1;4;5;100}, {1;4;5;100},"<>200", {1;4;300;100},"<100", {2;-3;5;2},">1")',
    'SUMIFS({1;4;5})', 'SUMIFS({1;4;5},{1;4;5})', 'SUMIFS({1;4;5},{1;4;5},"")', 'SUMIFS({1;4;5},{1;4;5},4)',
    'SUMIFS({1,4,5},{"a","ab","b"},"a*")', 'SUMIFS({1,4,5},{"a","ab","b"},"?")', 'SUMIFS({1,4,5},{"a","ab","b"},"<>a")',
    'SUMIFS({1,4,5},{1,4,5},">9")', 'SUMIFS({"a","b"},{1,2},">0")', 'SUMIFS({1,2;3,4},{1,2;3,4},">1")',
    'SUMIFS(5,{1},"1")', 'SUMIFS("ab",{1,2},">0")', 'SUMIFS({1,2},"ab","a")', 'SUMIFS({1,#N/A},{1,2},">0")',
    'SUMIFS({1,2},{1,#N/A},">0")', 'SUMIFS(#REF!,{1,2},">0")', 'SUMIFS({1,2},{1,2},#VALUE!)', 'SUMIFS()',
    'SUMIFS(A1:A6,A1:A6,">1")', 'SUMIFS(A1:A6,B1:B6,"apple")', 'SUMIFS(A1,A1,"1")', 'SUMIFS(A1:A6,A1:A5,">1")',
    'AVERAGEIFS({1;2;3;4};{1;2;3;4};">2")', 'AVERAGEIFS({1;2;3;4};{4;3;2;1};">2")',
    'AVERAGEIFS({1;2;3;4};{4;3;2;1};">2";{1;2;3;4};"<> 3")', 'AVERAGEIFS({1;2;3;4};{4;3;2;1};">9")',
    'AVERAGEIFS({1;2;3;4})', 'AVERAGEIFS({1;2;3;4};{1;2;3;4})', 'AVERAGEIFS({1;2;3;4};{1;2;3};">0")',
    'AVERAGEIFS({1;2;3;4};{1;2;3};"<3")', 'AVERAGEIFS({1;2;3;4};{1;2;3;4;5};">0")', 'AVERAGEIFS(5;{1};"1")',
    'AVERAGEIFS("ab";{1;2};">0")', 'AVERAGEIFS({1;2};"ab";"a")', 'AVERAGEIFS({1;2};"ab";"?")', 'AVERAGEIFS({1;#N/A};{1;2};">0")',
    'AVERAGEIFS({1;#N/A};{1;2};"<2")', 'AVERAGEIFS({1;2};{1;#N/A};">0")', 'AVERAGEIFS({"a";"b"};{1;2};">0")',
    'AVERAGEIFS({1,2;3,4};{1,2;3,4};">1")', 'AVERAGEIFS({1;2};{1;2};"")', 'AVERAGEIFS({1;2};{1;2};2)', 'AVERAGEIFS()',
    'AVERAGEIFS({1;2;3;4};{"a";"b";"ab";"c"};"a*")', 'AVERAGEIFS({1;2;3;4};{"a";"b";"ab";"c"};"<>a*")',
    'AVERAGEIFS(A1:A6;A1:A6;">1")', 'AVERAGEIFS(A1;A1;"1")', 'AVERAGEIFS(TRUE;{1};"1")', 'AVERAGEIFS({TRUE;FALSE};{1;2};">0")',
    'MAXIFS({1;2;3;4};{1;2;3;4};">2")', 'MAXIFS({1;2;3;4};{4;3;2;1};">2")', 'MAXIFS({1;2;3;4};{4;3;2;1};">3";{1;2;3;4};"<>3")',
    'MAXIFS({1;2;3;4};{4;3;2;1};">9")', 'MAXIFS({1;2;3;4})', 'MAXIFS({1;2;3;4};{1;2;3;4})', 'MAXIFS({1;2;3;4};{1;2;3};">0")',
    'MAXIFS({1;2;3;4};{1;2;3};"<3")', 'MAXIFS(5;{1};"1")', 'MAXIFS("ab";{1;2};">0")', 'MAXIFS({1;2};"ab";"a")',
    'MAXIFS({1;#N/A};{1;2};">0")', 'MAXIFS({#N/A;1};{1;2};">1")', 'MAXIFS({"a";"b"};{1;2};">0")', 'MAXIFS({"a";1};{1;2};">0")',
    'MAXIFS({1,2;3,4};{1,2;3,4};">1")', 'MAXIFS({-1;-2};{1;2};">0")', 'MAXIFS({-1;-2};{1;2};">5")', 'MAXIFS()',
    'MAXIFS({1;2;3;4};{"a";"b";"ab";"c"};"?")', 'MAXIFS({TRUE;FALSE};{1;2};">0")', 'MAXIFS({1.5;1.25};{1;2};"<>0")',
    'MAXIFS(A1:A6;A1:A6;">1")', 'MAXIFS(A1;A1;"1")',
    'AVERAGEIF({1;2;3;4};">2")', 'AVERAGEIF({1;2;3;4};">2";{4;3;2;1})', 'AVERAGEIF({1;2;3;4};">9")', 'AVERAGEIF({1;2;3;4};"2")',
    'AVERAGEIF({1;2;3;4};2)', 'AVERAGEIF({1;2;3;4};"<>2";{4;3;2})', 'AVERAGEIF({1;2;3;4};"<2";{4;3;2})',
    'AVERAGEIF({"a";"ab";"b"};"a*";{1;2;4})', 'AVERAGEIF({"a";"ab";"b"};"a*")', 'AVERAGEIF({1;"x";3};">0")',
    'AVERAGEIF({1;#N/A;3};">0")', 'AVERAGEIF({1;2;3};">0";{1;#N/A;3})', 'AVERAGEIF({1;2;3};">0";{1;"x";3})',
    'AVERAGEIF({1,2;3,4};">1")', 'AVERAGEIF({1,2;3,4};">1";{10,20;30,40})', 'AVERAGEIF(5;"5")', 'AVERAGEIF(5;">5")',
    'AVERAGEIF(0;"0")', 'AVERAGEIF({0;0};"0")', 'AVERAGEIF({1;2};">0";0)', 'AVERAGEIF({1;2};">0";5)', 'AVERAGEIF("3";">0")',
    'AVERAGEIF(TRUE;"1")', 'AVERAGEIF(#N/A;">0")', 'AVERAGEIF({1;2};#N/A)', 'AVERAGEIF({1;2})', 'AVERAGEIF()',
    'AVERAGEIF(A1:A6,">2")', 'AVERAGEIF(A1:A6,">9")', 'AVERAGEIF(B1:B6,"apple",A1:A6)', 'AVERAGEIF(B1:B6,"a*",C1:C6)',
    'AVERAGEIF(B1:B6,"*",F1:F6)', 'AVERAGEIF(B1:B6,"pear",F1:F6)', 'AVERAGEIF(A1:A6,"<3",D1:D6)', 'AVERAGEIF(A1:A6,">1",A1:A3)',
    'AVERAGEIF(A1:B6,">1")', 'AVERAGEIF(E1:E6,"1")', 'AVERAGEIF(D1:D3,"x")', 'AVERAGEIF(A1,"1",C1)', 'AVERAGEIF(A1:A6,A2)',
    'SLOPE(1;2;3;4;1;2;3;4)', 'SLOPE(6,2,-2,-4,-6,-2,0,2,3,4)', 'SLOPE(6,1,2,4)', 'SLOPE(6,1)', 'SLOPE()', 'SLOPE(1)',
    'SLOPE(1,2,3)', 'SLOPE(1,1)', 'SLOPE(1,2,3,3)', 'SLOPE(1,2,3,4)', 'SLOPE({1,2,3},{4,5,6})', 'SLOPE("1","2","3","4")',
    'SLOPE(TRUE,FALSE,1,2)', 'SLOPE(1,2,#N/A,4)', 'SLOPE(A1,A2,A3,A4)', 'SLOPE(A1,A2,C1,C2)', 'SLOPE(A1:A3,C1:C3)',
    'SLOPE(D1,A2,A3,A4)', 'SLOPE(B1,A2,A3,A4)', 'SLOPE(1.5,2.5,0.1,0.2)', 'SLOPE(1,2,3,4,5,6,7,8,9,11,1,2,3,4,5,6,7,8,9,10)',
    'SLOPE(-1,-2,-3,1,2,3)', 'SLOPE(1E308,1E308,1,2)', 'SLOPE(1/0,1,2,3)',
    'SUMIFS({1;2;3},{1;2;3},">1")+MAXIFS({1;2;3};{1;2;3};"<3")', 'AVERAGEIFS({1;2;3};{1;2;3};">5")+1',
    'IF(MAXIFS({1;2;3};{1;2;3};">5")=0,SLOPE(1,2,3,5),0)', 'SUM(AVERAGEIF({1;2;3;4};">2"),SLOPE(1,2,1,3))',
]

for f in FORMULAS:
    ev(f)
for f in FORMULAS:
    if ':' in f:
        ev(f, flat=True)

# ---------------------------------------------------------------- 7. random sweeps with a fixed seed

rnd = random.Random(2211)
for trial in range(25):
    n = rnd.randint(0, 6)
    values = [rnd.choice([rnd.randint(-5, 9), rnd.randint(1, 9) / 4.0]) for _ in range(n)]
    r1 = [rnd.randint(0, 4) for _ in range(n)]
    r2 = [rnd.choice(['a', 'ab', 'b', 'ba', 1, None]) for _ in range(n)]
    c1 = rnd.choice(['>', '<', '>=', '<=', '<>', '=', '']) + str(rnd.randint(0, 4))
    c2 = rnd.choice(['a*', '*a', '?', '*', 'a', '<>a', '1', 'b?'])
    for name in IFS:
        via_parser(name, values, r1, c1)
        via_parser(name, values, r1, c1, r2, c2)
    via_parser('AVERAGEIF', r1, c1, values)
    via_parser('AVERAGEIF', values, c1)
    via_parser('AVERAGEIF', r2, c2, values)
    via_parser('SLOPE', *(values + r1))

print('evaluations: %d' % COUNT[0])
