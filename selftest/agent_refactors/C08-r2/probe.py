# -*- coding: utf-8 -*-
"""
Probe for C08 refactoring 2: how errors are reported at the top (Parser.parse, error.from_message,
error.clear_tracebacks), how function calls produce error values (Parser.call_function) and how
IFERROR, IFNA, ISERROR, ISERR, ISNA and ERROR.TYPE observe them. Prints a deterministic transcript.
"""
import os
import sys
import io
import datetime

sys.path.insert(0, os.path.dirname(os.path.dirname(os.path.abspath(__file__))))

import hotxlfp  # noqa: E402
from hotxlfp.formulas import error, information, logic  # noqa: E402
from hotxlfp import formulas  # noqa: E402

COUNT = [0]


def out(kind, text, outcome):
    COUNT[0] += 1
    print('%04d %s %s => %s' % (COUNT[0], kind, text, outcome))


class Odd(object):
    """a value with its own idea of equality"""

    def __init__(self, tag, eq=False, ne=True, hashval=7):
        self.tag, self.eq, self.ne, self.hashval = tag, eq, ne, hashval

    def __eq__(self, other):
        if isinstance(self.eq, Exception):
            raise self.eq
        return self.eq

    def __ne__(self, other):
        if isinstance(self.ne, Exception):
            raise self.ne
        return self.ne

    def __hash__(self):
        if isinstance(self.hashval, Exception):
            raise self.hashval
        return self.hashval

    def __repr__(self):
        return 'Odd(%s)' % self.tag


class MyError(error.XLError):
    """an error value that is not one of the shared instances"""

    def __repr__(self):
        return 'MyError(%s)' % (self.args,)


class NoBool(object):
    def __init__(self, tag):
        self.tag = tag

    def __bool__(self):
        raise ValueError('#NUM!')

    __nonzero__ = __bool__

    def __repr__(self):
        return 'NoBool(%s)' % self.tag


class NeGivesNoBool(object):
    def __ne__(self, other):
        return NoBool('ne')

    def __eq__(self, other):
        return NoBool('eq')

    __hash__ = None

    def __repr__(self):
        return 'NeGivesNoBool()'


def show(value):
    """repr() without memory addresses"""
    if isinstance(value, MyError):
        return repr(value)
    if isinstance(value, error.XLError):
        return 'XLError(%r)' % (str(value),)
    if isinstance(value, list):
        return '[' + ', '.join(show(v) for v in value) + ']'
    if isinstance(value, tuple):
        return '(' + ', '.join(show(v) for v in value) + ')'
    if isinstance(value, dict):
        return '{' + ', '.join('%r: %s' % (k, show(value[k])) for k in sorted(value)) + '}'
    if callable(value) and not isinstance(value, type):
        return '<callable %s>' % getattr(value, '__name__', '?')
    return repr(value)


def attempt(fn, *args, **kwargs):
    try:
        return show(fn(*args, **kwargs))
    except BaseException as e:  # noqa
        return 'RAISED %s(%s)' % (type(e).__name__, e)


ALL_ERRORS = [('ERROR', error.ERROR), ('DIV_ZERO', error.DIV_ZERO), ('NAME', error.NAME),
              ('NOT_AVAILABLE', error.NOT_AVAILABLE), ('NULL', error.NULL), ('NUM', error.NUM),
              ('REF', error.REF), ('VALUE', error.VALUE), ('DATA', error.DATA)]


def traceback_state():
    return ' '.join('%s:%s/%s' % (n, tb_depth(e.__traceback__), e.__context__ is None) for n, e in ALL_ERRORS)


def tb_depth(tb):
    depth = 0
    while tb is not None:
        depth += 1
        tb = tb.tb_next
    return depth


CELLS = {
    'A1': 1, 'A2': 'text', 'A3': None, 'A4': True, 'A5': error.DIV_ZERO, 'A6': error.NOT_AVAILABLE,
    'A7': datetime.datetime(2020, 1, 15), 'A8': '12', 'A9': 0, 'A10': [1, 2], 'A11': 2.5, 'A12': False,
    'A13': '', 'A14': '#N/A', 'A15': 'XLError', 'A16': [error.NOT_AVAILABLE], 'A17': [[error.NUM]],
    'B1': error.VALUE, 'B2': error.NUM, 'B3': error.REF, 'B4': error.NAME, 'B5': error.NULL,
    'B6': error.DATA, 'B7': error.ERROR, 'B8': MyError('#N/A'), 'B9': MyError('#WEIRD'),
    'B10': Odd('eq-all', eq=True, ne=False), 'B11': Odd('plain'), 'B12': {'k': 1},
    'B13': Odd('nohash', hashval=TypeError('unhashable Odd')), 'B14': NeGivesNoBool(),
    'B15': Odd('ne-raises', ne=ValueError('#REF!')), 'B16': (1, 2), 'B17': 7,
}


def make_parser(events, debug=False):
    parser = hotxlfp.Parser(debug=debug)
    parser.set_variable('err_na', error.NOT_AVAILABLE)
    parser.set_variable('err_div', error.DIV_ZERO)
    parser.set_variable('blank', None)
    parser.set_variable('arr_err', [1, error.NUM, 3])

    def raise_it(code):
        raise error.from_message(code)

    def raise_plain(message):
        raise ValueError(message)

    def raise_key():
        return {}['#N/A']

    parser.set_function('RAISE', raise_it)
    parser.set_function('RAISE_PLAIN', raise_plain)
    parser.set_function('RAISE_KEY', raise_key)
    parser.set_function('RAISE_MY', lambda: (_ for _ in ()).throw(MyError('#NUM!')))
    parser.set_function('GIVE', lambda code: error.from_message(code))
    parser.set_function('GIVE_MY', lambda code: MyError(code))
    parser.set_function('ECHO', lambda *a: a[0] if len(a) == 1 else list(a))
    parser.set_function('NOTHING', lambda: None)
    parser.set_function('OVERRIDDEN', lambda: 5)
    parser.set_function('OVERRIDDEN_ERR', lambda: error.REF)
    parser.set_function('SUM', lambda *a: 'custom sum')  # shadows a built-in
    parser.set_function('NOTCALLABLE', 5)
    parser.set_function('ISERROR.X', lambda v: 'dotted')
    parser.set_function('LISTENER_RAISES', lambda *a: 'fine')

    def on_cell(cell, setter):
        events.append('cell(%s)' % cell.label)
        if cell.label == 'Z1':
            raise ValueError('#DIV/0!')
        if cell.label == 'Z2':
            raise error.NUM
        if cell.label == 'Z3':
            raise KeyError('#N/A')
        if cell.label in CELLS:
            setter(CELLS[cell.label])

    def on_range(start, end, setter):
        events.append('range(%s:%s)' % (start.label, end.label))
        rows = []
        for r in range(start.row.index, end.row.index + 1):
            row = []
            for c in range(start.col.index, end.col.index + 1):
                row.append(CELLS.get('AB'[c] + str(r + 1)) if c < 2 else None)
            rows.append(row)
        setter(rows)

    def on_function(name, args, setter):
        events.append('fn(%s,%s)' % (name, show(args)))
        if name == 'OVERRIDDEN':
            setter(error.NUM)
        if name == 'OVERRIDDEN_ERR':
            setter('recovered')
        if name == 'NOTHING':
            setter(None)
        if name == 'LISTENER_RAISES':
            raise RuntimeError('#NULL!')

    def on_variable(name, setter):
        events.append('var(%s)' % name)
        if name == 'injected':
            setter(error.NULL)

    parser.on('callCellValue', on_cell)
    parser.on('callRangeValue', on_range)
    parser.on('callFunction', on_function)
    parser.on('callVariable', on_variable)
    return parser


EVENTS = []
PARSER = make_parser(EVENTS)


def run(formula, parser=PARSER, label=None):
    del EVENTS[:]
    outcome = attempt(parser.parse, formula)
    out('F', label or repr(formula), '%s events=[%s] tb=[%s]' % (outcome, '; '.join(EVENTS), traceback_state()))


# 1. error literals and everything else that can reach the top
LITERALS = ['#N/A', '#DIV/0!', '#NAME?', '#NULL!', '#NUM!', '#REF!', '#VALUE!', '#GETTING_DATA', '#ERROR!',
            '#BOGUS!', '#N/A!', '#N/A?', '#', '#n/a', '#NUM', '#REF', '#DIV/0', '#NAME', '#123', '#A/B/C?',
            '# N/A', '#N/A #REF!', '"#N/A"', "'#REF!'"]
for lit in LITERALS:
    run(lit)
    run('(%s)' % lit)
    run('1+%s' % lit)
    run('IFERROR(%s,"caught")' % lit)
    run('ISERROR(%s)' % lit)
    run('{1,%s}' % lit)
    run('ECHO(1,%s)' % lit)
    run('%s %s' % (lit, lit))

TOP = ['', ' ', '1', '"a"', 'A1', 'A2', 'A3', 'A5', 'A6', 'A7', 'A10', 'A14', 'A16', 'A17', 'B1', 'B2', 'B3', 'B4',
       'B5', 'B6', 'B7', 'B8', 'B9', 'B10', 'B11', 'B12', 'B13', 'B14', 'B15', 'B16', 'Z1', 'Z2', 'Z3', 'A1:B2',
       'A5:B6', 'err_na', 'err_div', 'blank', 'arr_err', 'injected', 'nosuchvar', 'TRUE', 'NULL',
       'NA()', 'NOSUCHFN()', 'nosuchfn()', 'Sum(1)', 'SUM(1,2)', 'SQRT(-1)', 'LN(0)', '1/0', 'ACOS(5)',
       'RAISE("#N/A")', 'RAISE("#REF!")', 'RAISE("nothing")', 'RAISE_PLAIN("#NUM!")', 'RAISE_PLAIN("x")',
       'RAISE_KEY()', 'RAISE_MY()', 'GIVE("#NULL!")', 'GIVE("zzz")', 'GIVE_MY("#N/A")', 'GIVE_MY("#ODD")',
       'NOTHING()', 'OVERRIDDEN()', 'OVERRIDDEN_ERR()', 'NOTCALLABLE()', 'ISERROR.X(1)', 'LISTENER_RAISES()',
       'ECHO()', 'IFERROR()', 'IFERROR(1)', 'IFERROR(1,2,3)', 'ISERROR()', 'ISERROR(1,2)', 'ISERR()', 'ISNA()',
       'IFNA()', 'IFNA(1)', 'IFNA(1,2,3)', 'ERROR.TYPE()', 'ERROR.TYPE(1,2)', 'ERROR.TYPE',
       '1+', '+', ')', '(', '1 2', '@', '$', 'A1:', '"unterminated', '=1', '1==1', 'IFERROR(', 'IFERROR(1,',
       '{', '{}', '{1', 'SUM(,)', 'ECHO(,)', 'ECHO(,,)', 'ECHO(1,,2)', 'ECHO(;1)', '1%', '2^3', '.5', '1.5.5']
for top in TOP:
    run(top)

# 2. the observers over every kind of value
OBSERVED = [t for t in TOP if t.strip() and t not in ('1+', '+', ')', '(', '1 2', '@', '$', 'A1:', '"unterminated',
                                                      '=1', '1==1', 'IFERROR(', 'IFERROR(1,', '{', '{}', '{1')]
OBSERVED += ['A5+1', '1+A6', 'A6&A5', '-B2', 'B1=B3', 'A7+1', 'A10+1', 'A16+1', '{1,2}/{0,1}',
             'IFERROR(A5,A6)', 'IFERROR(A6,A5)', 'IFNA(A6,A5)', 'IFNA(A5,A6)', 'IF(A5,1,2)', 'IF(TRUE,A6,1)',
             'IF(FALSE,A6,1)', 'SUM(A5)', 'ABS(A6)', 'ABS(ABS(ABS(A6)))', 'SQRT(SQRT(-1))', 'NOT(B3)',
             'AND(1,B5)', 'OR(B6,1)', 'ECHO(ECHO(B2))', 'ECHO(A5,A6)', 'ISERROR(A5)', 'ERROR.TYPE(A5)',
             'ERROR.TYPE(ERROR.TYPE(1))', 'NA()+1', 'CHOOSE(5,1)', 'N(A5)', 'T(A6)', 'VLOOKUP(9,A1:B2,1)',
             'MATCH(9,A10,0)', 'IFS(FALSE,1)', 'SWITCH(1,2,3)', 'INT("x")', 'MOD(1,0)', 'POWER(-1,0.5)']
for arg in OBSERVED:
    run('IFERROR(%s,"alt")' % arg)
    run('IFERROR(%s,A5)' % arg)
    run('IFERROR("ok",%s)' % arg)
    run('IFNA(%s,"alt")' % arg)
    run('IFNA(%s,B2)' % arg)
    run('IFNA("ok",%s)' % arg)
    run('ISERROR(%s)' % arg)
    run('ISERR(%s)' % arg)
    run('ISNA(%s)' % arg)
    run('ERROR.TYPE(%s)' % arg)
    run('ISERROR(%s)=OR(ISERR(%s),ISNA(%s))' % (arg, arg, arg))
    run('IFERROR(IFNA(%s,1),2)' % arg)
    run('ERROR.TYPE(IFERROR(%s,#N/A))' % arg)

# 3. the functions called directly with python values
VALUES = [0, 1, -1.5, True, False, None, '', 'a', '#N/A', '#DIV/0!', [], [1], [error.NOT_AVAILABLE], (), (error.NUM,),
          {'k': 1}, set(), 3 + 4j, float('nan'), datetime.datetime(2020, 1, 15), ValueError('#N/A'),
          RuntimeError('#REF!'), error.XLError, error.XLError('#N/A'), error.XLError('#FRESH'), error.XLError(),
          MyError('#N/A'), MyError('#NUM!', 2), Odd('eq-all', eq=True, ne=False), Odd('plain'),
          Odd('nohash', hashval=TypeError('unhashable Odd')), Odd('eq-raises', eq=KeyError('#NAME?')),
          Odd('ne-raises', ne=ValueError('#REF!')), Odd('hash-collide', eq=True, ne=False, hashval=hash(error.NUM)),
          NeGivesNoBool(), NoBool('v'), b'#N/A', 7, 2 ** 70] + [e for _, e in ALL_ERRORS]
ALTS = ['alt', None, error.REF, 0]
for value in VALUES:
    out('D', 'ISERROR(%s)' % show(value), attempt(information.ISERROR, value))
    out('D', 'ISERR(%s)' % show(value), attempt(information.ISERR, value))
    out('D', 'ISNA(%s)' % show(value), attempt(information.ISNA, value))
    out('D', 'ERROR_TYPE(%s)' % show(value), attempt(information.ERROR_TYPE, value))
    out('D', 'from_message(%s)' % show(value), attempt(error.from_message, value))
    for alt in ALTS:
        out('D', 'IFERROR(%s, %s)' % (show(value), show(alt)), attempt(logic.IFERROR, value, alt))
        out('D', 'IFNA(%s, %s)' % (show(value), show(alt)), attempt(logic.IFNA, value, alt))
        out('D', 'IFERROR(%s, %s)' % (show(alt), show(value)), attempt(logic.IFERROR, alt, value))
        out('D', 'IFNA(%s, %s)' % (show(alt), show(value)), attempt(logic.IFNA, alt, value))
    for fname in ('ISERROR', 'ISERR', 'ISNA', 'ERROR.TYPE'):
        del EVENTS[:]
        out('C', 'call_function(%r, [%s])' % (fname, show(value)),
            '%s events=[%s]' % (attempt(PARSER.call_function, fname, [value]), '; '.join(EVENTS)))
    for fname in ('IFERROR', 'IFNA'):
        del EVENTS[:]
        out('C', 'call_function(%r, [%s, "alt"])' % (fname, show(value)),
            '%s events=[%s]' % (attempt(PARSER.call_function, fname, [value, 'alt']), '; '.join(EVENTS)))
    error.clear_tracebacks()

for fn in (information.ISERROR, information.ISERR, information.ISNA, information.ERROR_TYPE, logic.IFERROR,
           logic.IFNA, error.from_message, error.clear_tracebacks):
    out('D', '%s()' % fn.__name__, attempt(fn))
    out('D', '%s(1, 2, 3)' % fn.__name__, attempt(fn, 1, 2, 3))
for fn, kwargs in ((logic.IFERROR, {'value': error.NUM, 'value_if_error': 1}),
                   (logic.IFNA, {'value': error.NOT_AVAILABLE, 'value_if_na': 1}),
                   (information.ISERR, {'value': error.NUM}), (information.ERROR_TYPE, {'error_val': error.NUM}),
                   (error.from_message, {'message': '#NUM!'})):
    out('D', '%s(**%s)' % (fn.__name__, show(kwargs)), attempt(fn, **kwargs))

# 4. Parser.call_function and the lookup of functions
NAMES = ['ISERROR', 'iserror', 'IsError', 'ERROR.TYPE', 'NA', 'PI', 'SUM', 'NOSUCH', '', None, 5, ('a',), ['a'],
         {'a': 1}, 'RAISE', 'RAISE_KEY', 'RAISE_MY', 'NOTHING', 'OVERRIDDEN', 'OVERRIDDEN_ERR', 'NOTCALLABLE',
         'LISTENER_RAISES', 'ECHO', 'GIVE', 'TRUE', 'FALSE']
ARGLISTS = [None, [], [1], ['#N/A'], [error.NOT_AVAILABLE], [1, 2], (1,), 'ab', 5]
for name in NAMES:
    for args in ARGLISTS:
        del EVENTS[:]
        outcome = attempt(PARSER.call_function, name, args)
        out('C', 'call_function(%s, %s)' % (show(name), show(args)),
            '%s events=[%s] tb=[%s]' % (outcome, '; '.join(EVENTS), traceback_state()))
        error.clear_tracebacks()
    del EVENTS[:]
    out('C', 'call_function(%s)' % show(name), '%s events=[%s]' % (attempt(PARSER.call_function, name),
                                                                   '; '.join(EVENTS)))
    error.clear_tracebacks()

bare = hotxlfp.Parser()
for name in ['ISERROR', 'ERROR.TYPE', 'NA', 'NOSUCH', 'SUM']:
    out('C', 'bare.call_function(%r, [#NUM!])' % name, attempt(bare.call_function, name, [error.NUM]))
    out('C', 'bare.get_function(%r)' % name, attempt(bare.get_function, name))
    out('C', 'formulas.is_supported/get_for(%r)' % name,
        '%s %s' % (attempt(formulas.is_supported, name), attempt(lambda n: formulas.get_for(n).__name__, name)))
out('C', 'bare.functions', show(bare.functions))
out('C', 'PARSER.functions keys', show(sorted(PARSER.functions)))
error.clear_tracebacks()

# 5. things that are not formulas
NON_FORMULAS = [None, 0, 1.5, True, b'1+1', ['1'], ('1',), {'a': 1}, Odd('expr-eq', eq=True),
                Odd('expr-eq-raises', eq=ValueError('#NUM!')), Odd('expr-eq-raises-plain', eq=ValueError('x')),
                NeGivesNoBool(), error.NUM, MyError('#REF!')]
for expression in NON_FORMULAS:
    run(expression, label=show(expression))

# 6. a parser in debug mode reports the same (its tracebacks go to stderr: only their last line is shown)
DEBUG_EVENTS = []
DEBUG_PARSER = make_parser(DEBUG_EVENTS, debug=True)
for formula in ['1+1', '#N/A', '1/0', 'SQRT(-1)', 'RAISE("#REF!")', 'RAISE_KEY()', 'NOSUCHFN()', '1+', 'Z1', 'Z2',
                'IFERROR(SQRT(-1),"alt")', 'ERROR.TYPE(B13)', 'ISERR(B15)', 'IFNA(B14,1)', '', None]:
    del DEBUG_EVENTS[:]
    saved, sys.stderr = sys.stderr, io.StringIO()
    try:
        outcome = attempt(DEBUG_PARSER.parse, formula)
        printed = sys.stderr.getvalue()
    finally:
        sys.stderr = saved
    last_lines = [line for line in printed.splitlines() if line and not line.startswith(' ')
                  and not line.startswith('Traceback')]
    out('G', repr(formula), '%s events=[%s] stderr=%r tb=[%s]' % (outcome, '; '.join(DEBUG_EVENTS), last_lines,
                                                                 traceback_state()))

# 7. the error values themselves
for name, err in ALL_ERRORS:
    out('S', name, repr((str(err), err.args, err.__traceback__, err.__context__, error.from_message(err) is err,
                         error.from_message(str(err)) is err, information.ERROR_TYPE(err))))
out('S', 'supported', repr([n for n in formulas.supported() if 'ERR' in n or n in ('IFNA', 'ISNA', 'NA')]))
