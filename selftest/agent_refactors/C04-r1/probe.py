# -*- coding: utf-8 -*-
"""
Probe for C04 refactoring 1 (grammar actions of the operators, unary minus and numeric literals).
Prints a deterministic transcript: one line per evaluation with the formula, repr() of the outcome
and the events seen while evaluating it.
"""
import os
import sys
import random
import datetime

sys.path.insert(0, os.path.dirname(os.path.dirname(os.path.abspath(__file__))))

import hotxlfp  # noqa: E402
from hotxlfp.formulas import error as xlerror  # noqa: E402
from hotxlfp.grammarparser import parser as grammar  # noqa: E402

COUNT = [0]


def show(value):
    if isinstance(value, xlerror.XLError):
        return 'XLError(%r)' % str(value)
    if isinstance(value, list):
        return '[' + ', '.join(show(v) for v in value) + ']'
    if isinstance(value, tuple):
        return '(' + ', '.join(show(v) for v in value) + ')'
    if isinstance(value, dict):
        return '{' + ', '.join('%r: %s' % (k, show(value[k])) for k in sorted(value)) + '}'
    return '%s:%r' % (type(value).__name__, value)


class Odd(object):
    """an operand type the library knows nothing about (repr without an address)"""

    def __init__(self, tag):
        self.tag = tag

    def __repr__(self):
        return 'Odd(%r)' % self.tag

    def __str__(self):
        return 'odd<%s>' % self.tag

    def __neg__(self):
        return Odd('-' + self.tag)


class NoStr(object):
    def __repr__(self):
        return 'NoStr()'

    def __str__(self):
        raise KeyError('no text for this one')


CELLS = {
    'A1': 1, 'A2': 2, 'A3': 3.5, 'B1': 'text', 'B2': '12', 'B3': True, 'C1': None,
    'C2': xlerror.DIV_ZERO, 'C3': -4, 'D1': '', 'D2': 0, 'D3': False,
}


def make_parser():
    p = hotxlfp.Parser()
    events = []

    def on_variable(name, setter):
        events.append(('callVariable', name))

    def on_function(name, args, setter):
        events.append(('callFunction', name, show(args)))

    def on_cell(cell, setter):
        events.append(('callCellValue', repr(cell)))
        setter(CELLS.get(cell.label.replace('$', '')))

    def on_range(start, end, setter):
        events.append(('callRangeValue', repr(start), repr(end)))
        values = []
        for row in range(start.row.index, end.row.index + 1):
            for col in range(start.col.index, end.col.index + 1):
                values.append(CELLS.get('ABCD'[col % 4] + str(row + 1)))
        setter(values)

    p.on('callVariable', on_variable)
    p.on('callFunction', on_function)
    p.on('callCellValue', on_cell)
    p.on('callRangeValue', on_range)

    p.set_variable('one', 1)
    p.set_variable('two', 2)
    p.set_variable('three', 3)
    p.set_variable('neg', -7)
    p.set_variable('half', 0.5)
    p.set_variable('zero', 0)
    p.set_variable('fzero', 0.0)
    p.set_variable('nzero', -0.0)
    p.set_variable('big', 10 ** 30)
    p.set_variable('huge', 1e308)
    p.set_variable('tiny', 5e-324)
    p.set_variable('inf', float('inf'))
    p.set_variable('nan', float('nan'))
    p.set_variable('cplx', 1 + 2j)
    p.set_variable('blank', None)
    p.set_variable('empty', '')
    p.set_variable('txt', 'abc')
    p.set_variable('numtxt', '12')
    p.set_variable('flttxt', '1.5')
    p.set_variable('datetxt', '2020-01-31')
    p.set_variable('spctxt', ' 3 ')
    p.set_variable('yes', True)
    p.set_variable('no', False)
    p.set_variable('lst', [1, 2, 3])
    p.set_variable('lsttwo', [10, 20])
    p.set_variable('lstone', [5])
    p.set_variable('lstempty', [])
    p.set_variable('lstmixed', [1, 'a', None, True, xlerror.NUM])
    p.set_variable('nested', [[1, 2], [3, 4]])
    p.set_variable('tup', (1, 2))
    p.set_variable('dte', datetime.datetime(2020, 2, 29, 12, 0))
    p.set_variable('dteold', datetime.datetime(1900, 1, 1))
    p.set_variable('errdiv', xlerror.DIV_ZERO)
    p.set_variable('errna', xlerror.NOT_AVAILABLE)
    p.set_variable('errval', xlerror.VALUE)
    p.set_variable('errname', xlerror.NAME)
    p.set_variable('errown', xlerror.XLError('#CUSTOM'))
    p.set_variable('odd', Odd('x'))
    p.set_variable('nostr', NoStr())
    p.set_function('ECHO', lambda *a: list(a))
    p.set_function('FIRST', lambda *a: a[0] if a else None)
    p.set_function('BOOM', lambda *a: 1 / 0)
    p.set_function('RAISEREF', raise_ref)
    p.set_function('GIVENA', lambda *a: xlerror.NOT_AVAILABLE)
    return p, events


def raise_ref(*args):
    raise xlerror.REF


PARSER, EVENTS = make_parser()


def run(formula, parser=None, events=None):
    parser = PARSER if parser is None else parser
    events = EVENTS if events is None else events
    del events[:]
    try:
        outcome = show(parser.parse(formula))
    except BaseException as exc:  # the library is expected to turn everything into an error value
        outcome = 'RAISED %s(%s)' % (type(exc).__name__, exc)
    COUNT[0] += 1
    print('%04d %r -> %s | events=%r' % (COUNT[0], formula, outcome, events))


def section(title):
    print('## ' + title)


# ---------------------------------------------------------------------------------------------
section('numeric literals (p_expression_number, every production and its neighbours)')
for f in ['1', '0', '007', '42', '123456789012345678901234567890', '.5', '.0', '.05', '.000', '1.5', '1.0', '0.1',
          '10.25', '1.', '1..2', '1.2.3', '..5', '. 5', '1 . 5', '1 .5', '1. 5', '2^3', '2^0', '0^0', '0^5', '10^2',
          '2 ^ 10', '2^100', '2^3^2', '2^(3)', '(2)^3', '2^-1', '2^.5', '2^1.5', '1.5^2', '-2^2', '(-2)^2', '- 2 ^ 2',
          '2^2*3', '3*2^2', '2^2^', '^2', '50%', '5%', '0%', '100%', '150 %', '5%%', '1.5%', '.5%', '50%*2',
          '2*50%', '-50%', '50%^2', '2^50%', '(50)%', '%', '%5', '1e3', '1E3', '0x10', '1_000', '1,5', '1;5',
          '9' * 400, '0.' + '3' * 40, '1' + '0' * 310 + '.5', '.' + '9' * 330, '4^' + '0' * 5 + '2']:
    run(f)

# ---------------------------------------------------------------------------------------------
section('unary minus (p_expression_uminus) on every kind of operand')
OPERANDS = ['one', 'neg', 'half', 'zero', 'fzero', 'nzero', 'big', 'huge', 'tiny', 'inf', 'nan', 'cplx', 'blank',
            'empty', 'txt', 'numtxt', 'flttxt', 'datetxt', 'spctxt', 'yes', 'no', 'lst', 'lstone', 'lstempty',
            'lstmixed', 'nested', 'tup', 'dte', 'dteold', 'errdiv', 'errna', 'errval', 'errname', 'errown', 'odd',
            'nostr', 'missing']
for name in OPERANDS:
    run('-' + name)
for f in ['-1', '--1', '---1', '- -1', '-(-1)', '-(1)', '(-1)', '-0', '-.5', '-1.5', '-"abc"', '-"12"', '-""',
          '-TRUE', '-FALSE', '-NULL', '-#DIV/0!', '-#N/A', '-#REF!', '-#BOGUS', '-{1,2,3}', '-{1}', '-A1', '-B1',
          '-C1', '-C2', '-$A$2', '-A1:A3', '-SUM(1,2)', '-SUM()', '-ECHO(1)', '-BOOM()', '-RAISEREF()',
          '-GIVENA()', '-NOSUCH()', '-PI()', '-', '--', '-)', '-(', '+1', '1+-1', '1--1', '1*-1', '1/-1', '1&-1',
          '1=-1', '1<-1', '1>-1', '1<=-1', '1>=-1', '1<>-1', '-1^2', '-1%', '-one^2', '-txt&txt', '-one&-two',
          '-errdiv&one', '-one+errna', '-blank+1', '-lst+1', '1-lst', '-odd&"!"', '--odd&"!"']:
    run(f)

# ---------------------------------------------------------------------------------------------
section('the & operator (concatenation branch) over pairs of operand kinds')
AMP_OPERANDS = ['one', 'half', 'nzero', 'big', 'inf', 'nan', 'cplx', 'blank', 'empty', 'txt', 'numtxt', 'yes', 'no',
                'lst', 'lstempty', 'lstmixed', 'tup', 'dte', 'errdiv', 'errna', 'errown', 'odd', 'nostr', 'missing']
for left in AMP_OPERANDS:
    for right in ['one', 'blank', 'txt', 'yes', 'lst', 'errna', 'errown', 'nostr', 'missing']:
        run(left + '&' + right)
for f in ['"a"&"b"', '"a"&"b"&"c"', '"a"&("b"&"c")', '("a"&"b")&"c"', '1&2', '1&2&3', '1.5&2', '.5&.5', '50%&1',
          '2^3&1', '"a"&1+2', '1+2&"q"', '"a"&1*2', '1*2&"q"', '1+2&3+4', '1*2&3*4', '1-2&3/4', '"a"&"b"="ab"',
          '"ab"="a"&"b"', '1&2=12', '1&2="12"', '1&2>3', '1<2&3', '"a"&-1', '-1&"a"', '"a"&TRUE', 'NULL&NULL',
          'NULL&"x"', '"x"&NULL', '#N/A&"x"', '"x"&#N/A', '#N/A&#DIV/0!', '#DIV/0!&#N/A', '{1,2}&"x"', '"x"&{1,2}',
          '{1,2}&{3,4}', 'A1&B1', 'B1&C1&D1', 'C2&A1', 'A1&C2', 'A1:A3&"x"', 'SUM(1,2)&"x"', 'BOOM()&"x"',
          '"x"&BOOM()', 'RAISEREF()&"x"', 'GIVENA()&"x"', '"x"&GIVENA()', 'ECHO(1,2)&ECHO()', '&', '"a"&', '&"a"',
          '"a"&&"b"', '"a" & "b"', "'a'&'b'", '"a""b"&"c"', '"it''s"&"ok"', '""&""', '(((("a"))))&(("b"))']:
    run(f)

# ---------------------------------------------------------------------------------------------
section('arithmetic operators (dispatch to evaluate_arithmetic) over pairs of operand kinds')
ARI_OPERANDS = ['two', 'neg', 'half', 'zero', 'nzero', 'big', 'huge', 'inf', 'nan', 'cplx', 'blank', 'empty', 'txt',
                'numtxt', 'flttxt', 'datetxt', 'yes', 'no', 'lst', 'lsttwo', 'lstone', 'lstempty', 'lstmixed',
                'dte', 'dteold', 'errdiv', 'errna', 'odd', 'missing']
for op in '+-*/':
    for left in ARI_OPERANDS:
        for right in ['two', 'zero', 'blank', 'numtxt', 'lst', 'dte', 'errna']:
            run(left + op + right)

# ---------------------------------------------------------------------------------------------
section('comparison operators with the other operators around them')
for op in ['=', '<>', '<', '>', '<=', '>=']:
    for left, right in [('1', '2'), ('2', '1'), ('1', '1'), ('1+1', '2'), ('2', '1+1'), ('1+1', '1*2'), ('-1', '1'),
                        ('"a"', '"b"'), ('"a"&"b"', '"ab"'), ('"ab"', '"a"&"b"'), ('1&2', '12'), ('12', '1&2'),
                        ('blank', 'zero'), ('blank', 'empty'), ('yes', 'one'), ('txt', 'one'), ('errdiv', 'one'),
                        ('one', 'errna'), ('lst', 'one'), ('1', '2' + op + '3'), ('1' + op + '2', '3'),
                        ('2*3', '3+3'), ('10/4', '2.5'), ('50%', '.5'), ('2^3', '8')]:
        run(left + op + right)
for f in ['1<2<3', '3>2>1', '1=1=1', '1=1=TRUE', '(1=1)=TRUE', '1=(1=TRUE)', '1<>2<>3', '1<2=2>1', '1<2=(2>1)',
          '1<=2>=3', '1>=2<=3', '1<2<>3>4', '1=2<3', '(1=2)<3', '1=(2<3)', '1<2=3', '1+1=2=TRUE', '1==1', '1=<2',
          '1=>2', '1><2', '1<>=2', '=1', '1=', '<1', '1<', '1< >2', '1< =2', '1 <> 2', '1 <= 2']:
    run(f)

# ---------------------------------------------------------------------------------------------
section('precedence, associativity and redundant parentheses')
for f in ['1+2*3', '(1+2)*3', '1+(2*3)', '1*2+3', '1*(2+3)', '(1*2)+3', '1-2-3', '(1-2)-3', '1-(2-3)', '8/4/2',
          '(8/4)/2', '8/(4/2)', '8/4*2', '8/(4*2)', '8*4/2', '2-3+4', '2-(3+4)', '1+2-3*4/5', '((1+2)-((3*4)/5))',
          '-1+2', '-(1+2)', '-1*2', '-(1*2)', '1*-2*-3', '1- -2- -3', '-1-2', '-(1-2)', '2*-3+4', '2*-(3+4)',
          '1+2&3*4=34', '((1+2)&(3*4))=34', '(1+2)&((3*4)=34)', '1+2&(3*4=34)', '1+2&3*4="312"', '1<2&3', '(1<2)&3',
          '1<(2&3)', '1&2<3', '(1&2)<3', '1&(2<3)', '1&2+3', '(1&2)+3', '1&(2+3)', '1&2*3', '(1&2)*3', '1&(2*3)',
          '-1&2', '-(1&2)', '(-1)&2', '1&-2', '-"1"&"2"', '1-2&3', '(1-2)&3', '1-(2&3)', '6/2&3', '6/(2&3)',
          '(6/2)&3', '((((1))))', '((1)+(2))', '(((1)+(2)))*(3)', '(1', '1)', '()', '(())', '(1)(2)', '1(2)',
          '(1+)', '(+1)', '(1+2', '1+2)', '((1+2)', '1 + 2 * 3', ' 1+2 ', '\t1\n+\n2', '1+2*', '*1+2', '1**2',
          '1//2', '1+*2', '1*/2', '1/0', '1/0+1', '1+1/0', '(1/0)&"x"', '1/(1-1)', '0/0', '1/zero', '1/blank',
          '1/nzero', '2*3%', '2+3%', '200%%', '2^2+1', '1+2^2', '2^2&1', '1&2^2', '2^2=4', '4=2^2', '-2^2=4']:
    run(f)

# ---------------------------------------------------------------------------------------------
section('random expression trees: fully and minimally parenthesised renderings')
RNG = random.Random(20240404)
LEVEL = {'=': 1, '<>': 1, '<': 1, '>': 1, '<=': 1, '>=': 1, '+': 3, '-': 3, '*': 4, '/': 4, '&': 6}
# levels as the precedence table orders them, only used to decide which parentheses can be dropped;
# the comparison operators are kept apart from one another by always parenthesising nested comparisons
LEAVES = ['0', '1', '2', '3', '7', '10', '1.5', '.25', '50%', '2^3', '"4"', '"ab"', '""', 'TRUE', 'FALSE', 'NULL',
          'one', 'neg', 'half', 'blank', 'txt', 'numtxt', 'A1', 'C3', 'SUM(1,2)', '{1,2,3}', '#N/A']


def tree(depth):
    if depth == 0 or RNG.random() < 0.2:
        return RNG.choice(LEAVES)
    if RNG.random() < 0.15:
        return ('neg', tree(depth - 1))
    op = RNG.choice(['+', '-', '*', '/', '&', '+', '-', '*', '/', '&', '=', '<>', '<', '>', '<=', '>='])
    return (op, tree(depth - 1), tree(depth - 1))


def full(t):
    if isinstance(t, str):
        return t
    if t[0] == 'neg':
        return '(-' + full(t[1]) + ')'
    return '(' + full(t[1]) + t[0] + full(t[2]) + ')'


def level_of(t):
    if isinstance(t, str):
        return 99
    if t[0] == 'neg':
        return 9
    return LEVEL[t[0]]


def minimal(t):
    if isinstance(t, str):
        return t
    if t[0] == 'neg':
        inner = minimal(t[1])
        if level_of(t[1]) < 9 or inner.startswith('-'):
            inner = '(' + inner + ')'
        return '-' + inner
    mine = LEVEL[t[0]]
    left, right = minimal(t[1]), minimal(t[2])
    if level_of(t[1]) < mine or (mine == 1 and level_of(t[1]) == 1):
        left = '(' + left + ')'
    if level_of(t[2]) <= mine:
        right = '(' + right + ')'
    return left + t[0] + right


for _ in range(150):
    t = tree(RNG.choice([1, 2, 2, 3, 3, 4]))
    run(full(t))
    run(minimal(t))

# ---------------------------------------------------------------------------------------------
section('operators inside function arguments, arrays and ranges')
for f in ['SUM(1+2,3*4)', 'SUM(1,2)*3', 'SUM(1,2)&SUM(3)', 'SUM(-1,-2)', 'SUM({1,2,3}*2)', 'SUM({1,2,3}+{1,2,3})',
          'SUM({1,2}+{1,2,3})', '{1,2,3}+{1,2,3}', '{1,2}+{1,2,3}', '{1,2,3}*2', '2*{1,2,3}', '2-{1,2,3}',
          '{1,2,3}-2', '2/{1,2,4}', '{1,2,4}/2', '{1,2,4}/0', '{1,2}+{5}', '{5}+{1,2}', '{1,2}&{3}', '{-1,-2}',
          '{1+1,2*2}', '{1&2,3}', '{1=1,2<1}', '{1,2;3,4}+1', '{1,2;3,4}*{1,2;3,4}', 'ECHO(-1)', 'ECHO(1&2)',
          'ECHO(1,,2)', 'ECHO(,1)', 'ECHO(1,)', 'ECHO(-one,-two)', 'ECHO(1;2)', 'ECHO(50%,2^3,.5,1.5)',
          'FIRST(1+1)&FIRST("x")', 'FIRST()&"x"', 'IF(1<2,"a"&"b",-1)', 'IF(1>2,"a"&"b",-1)', 'IF(1=1,1+1,1/0)',
          'A1+A2*A3', '(A1+A2)*A3', 'A1&A2&A3', '-A1-A2', 'A1:A3*2', 'SUM(A1:A3)*2', 'SUM(A1:A3*2)', 'A1:B2&"x"',
          '$A$1+$A2+A$3', 'a1+A1', 'B2+1', 'B2&1', 'B3+1', 'D1&"x"', 'D3=FALSE', 'C1=0', 'C1&"x"', 'C1+1',
          'C2+1', '1+C2', 'C2=C2', 'ZZ99+1', 'ZZ99&"x"']:
    run(f)

# ---------------------------------------------------------------------------------------------
section('parsers stay independent and stateless across calls')
P2, E2 = make_parser()
P2.set_variable('one', 100)
for f in ['one+1', '-one', 'one&one', '1.5', '2^3', '50%', '1+', 'one+1']:
    run(f, P2, E2)
    run(f)
for f in ['1+', '1+1', '-', '-1', '"a"&', '"a"&"b"', '1.', '.5']:
    run(f)
    run(f)

# ---------------------------------------------------------------------------------------------
section('a listener that replaces values seen by the operators')
P3 = hotxlfp.Parser()
E3 = []
REPLACEMENTS = {'x': 5, 'y': '7', 'e': xlerror.NUM, 'n': None, 'l': [1, 2]}


def replace_variable(name, setter):
    E3.append(('callVariable', name))
    if name in REPLACEMENTS:
        setter(REPLACEMENTS[name])


def replace_function(name, args, setter):
    E3.append(('callFunction', name, show(args)))
    if name == 'SUM':
        setter('sum!')


P3.on('callVariable', replace_variable)
P3.on('callFunction', replace_function)
for f in ['x+1', '-x', 'x&y', 'y&x', '-y', 'x*y', 'e&x', 'x&e', '-e', 'e+x', 'n&x', '-n', 'n+x', 'l&x', '-l', 'l*x',
          'q+1', '-q', 'q&x', 'x&q', 'SUM(1)&x', '-SUM(1)', 'SUM(1)+1', 'x<y', 'x=5', 'y="7"', 'x&y="57"']:
    run(f, P3, E3)

# ---------------------------------------------------------------------------------------------
section('the grammar module itself')
print('precedence=%r' % (grammar.FormulaParser.precedence,))
print('rules=%r' % sorted(n for n in dir(grammar.FormulaParser) if n.startswith('p_')))
print('evaluations=%d' % COUNT[0])
