# -*- coding: utf-8 -*-
"""C19 refactoring 1 probe: label <-> index conversions (hotxlfp.helper.cell).

Prints one line per evaluation: the call and repr() of its outcome (or the
exception type and message).  Deterministic: fixed seed, no time, no addresses.
"""
from __future__ import print_function
import os
import sys
import random
from decimal import Decimal
from fractions import Fraction

sys.path.insert(0, os.path.dirname(os.path.dirname(os.path.abspath(__file__))))

import hotxlfp  # noqa: E402
from hotxlfp.helper import cell  # noqa: E402
from hotxlfp.helper.cell import ParsedLabel  # noqa: E402

COUNT = [0]


def show(tag, fn, *args):
    COUNT[0] += 1
    try:
        outcome = repr(fn(*args))
    except Exception as e:  # noqa
        outcome = 'EXC %s: %s' % (type(e).__name__, e)
    print('%s(%s) -> %s' % (tag, ', '.join(short(a) for a in args), outcome))


def short(a):
    r = repr(a)
    if len(r) > 60:
        return '%s...[%d chars]' % (r[:20], len(r))
    return r


class IntSub(int):
    pass


class StrSub(str):
    pass


rng = random.Random(190019)

# ---------------------------------------------------------------- columns
print('## column_index_to_label')
col_indices = list(range(-3, 60)) + [
    25, 26, 27, 51, 52, 675, 676, 677, 701, 702, 703, 727, 728, 16383, 16384,
    18277, 18278, 18279, 475253, 475254, 475255, 26 ** 5, 26 ** 6 - 1, 10 ** 12, 10 ** 30,
    -1, -26, -10 ** 9,
    0.0, 0.5, 0.99, 1.0, 25.9, 26.0, 26.5, 701.999, 702.0, -0.0, -0.5, -1.0, 1e15, 1e30,
    float('nan'), float('inf'), float('-inf'),
    True, False, IntSub(27), IntSub(-1), Decimal('27'), Decimal('27.9'), Decimal('-0.1'),
    Fraction(53, 2), Fraction(-1, 2),
    None, '5', 'A', '', b'1', [1], (1,), {}, 1 + 0j,
]
col_indices += [rng.randrange(0, 10 ** 7) for _ in range(40)]
for c in col_indices:
    show('column_index_to_label', cell.column_index_to_label, c)

print('## column_label_to_index')
col_labels = [
    '', 'A', 'B', 'Y', 'Z', 'AA', 'AB', 'AZ', 'BA', 'ZY', 'ZZ', 'AAA', 'AAB', 'XFD', 'XFE', 'ZZZ', 'AAAA',
    'ZZZZZ', 'ABCDEFGHIJKLMNOPQRSTUVWXYZ', 'a', 'z', 'aa', 'aZ', 'Az', 'xfd', 'zZz',
    ' ', ' A', 'A ', 'A B', '1', 'A1', '1A', '$A', 'A$', '$', '_', 'A_A', '-A', 'A.B', '@',
    u'\xe9', u'\xdf', u'a\xdf', u'\xdfa', u'ı', u'İ', u'ſ', u'ﬁ', u'Aﬁ', u'Α', u'Ａ', u'ａ',
    '\n', 'A\n', '\x00', 'A\x00B', 'Z' * 20, 'A' * 50, 'a' * 7,
    None, 0, 1, 27, -1, 1.5, True, False, b'A', b'AA', ['A'], ('A',), {}, StrSub('AB'), StrSub('zz'),
]
for _ in range(40):
    n = rng.randrange(1, 7)
    col_labels.append(''.join(rng.choice('ABCDEFGHIJKLMNOPQRSTUVWXYZabcdefghijklmnopqrstuvwxyz') for _ in range(n)))
for _ in range(15):
    n = rng.randrange(1, 6)
    col_labels.append(''.join(rng.choice('AZaz09 $_!') for _ in range(n)))
for lab in col_labels:
    show('column_label_to_index', cell.column_label_to_index, lab)

print('## column round trips')


def col_roundtrip(i):
    lab = cell.column_index_to_label(i)
    return lab, cell.column_label_to_index(lab), cell.column_label_to_index(lab.lower())


for i in list(range(0, 30)) + [675, 676, 701, 702, 703, 16383, 18277, 18278, 475253, 475254] + \
        [rng.randrange(0, 10 ** 9) for _ in range(25)]:
    show('col_roundtrip', col_roundtrip, i)


def col_roundtrip_back(lab):
    i = cell.column_label_to_index(lab)
    return i, cell.column_index_to_label(i)


for lab in ['A', 'Z', 'AA', 'AZ', 'BA', 'ZZ', 'AAA', 'XFD', 'zz', 'aBc', '', '1', 'A1']:
    show('col_roundtrip_back', col_roundtrip_back, lab)

# ---------------------------------------------------------------- rows
print('## row_index_to_label')
row_indices = list(range(-3, 12)) + [
    26, 51, 99, 1048575, 1048576, 10 ** 20, -10 ** 20,
    0.0, 0.5, -0.5, -0.0, 1.5, 1e20, float('nan'), float('inf'), float('-inf'),
    True, False, IntSub(4), Decimal('2'), Decimal('2.5'), Fraction(3, 2),
    None, '5', '', b'1', [1], (1,), {}, 1 + 0j,
]
for r in row_indices:
    show('row_index_to_label', cell.row_index_to_label, r)

print('## row_label_to_index')
row_labels = [
    '0', '1', '2', '9', '10', '27', '50', '98', '1048576', '1048577', '00', '01', '007', '0010',
    '-1', '-0', '+1', '+0', '-5', ' 1', '1 ', ' 12 ', '\t3\n', '1_0', '1__0', '_1', '1_', '1.0', '1e3', '0x10', '0b1', '0o7',
    '', ' ', 'A', 'A1', '1A', '$1', '1$', 'one', 'nan', 'inf', 'True', 'None',
    u'٣', u'١٢', u'１２', u'²', u'①', u'1٠',
    '9' * 30, '9' * 4300, '9' * 4301, '1' + '0' * 5000, '-' + '9' * 4301,
    0, 1, 2, 50, -1, -2, -100, 10 ** 25, -10 ** 25,
    0.0, 0.5, 0.99, 1.0, 1.5, 2.9, -0.5, -0.99, -1.0, -1.5, 1e20, float('nan'), float('inf'), float('-inf'),
    True, False, IntSub(0), IntSub(7), IntSub(-7), Decimal('3'), Decimal('3.9'), Decimal('-3.9'), Decimal('NaN'), Decimal('Infinity'),
    Fraction(7, 2), Fraction(-7, 2),
    None, b'1', b'12', b'', b'A', bytearray(b'3'), [1], (1,), {}, 1 + 0j, StrSub('14'), StrSub('x'),
]
for _ in range(25):
    row_labels.append(str(rng.randrange(0, 10 ** 7)))
for _ in range(10):
    row_labels.append(''.join(rng.choice('0123456789 -+_aA$') for _ in range(rng.randrange(1, 5))))
for lab in row_labels:
    show('row_label_to_index', cell.row_label_to_index, lab)

print('## row round trips')


def row_roundtrip(i):
    lab = cell.row_index_to_label(i)
    return lab, cell.row_label_to_index(lab)


for i in list(range(-2, 12)) + [1048575, 10 ** 18] + [rng.randrange(0, 10 ** 9) for _ in range(15)]:
    show('row_roundtrip', row_roundtrip, i)

# ---------------------------------------------------------------- labels
print('## extract_label / to_label')


def decompose_recompose(label):
    parts = cell.extract_label(label)
    if not parts:
        return parts
    row, col = parts
    return parts, cell.to_label(row, col)


labels = [
    'A1', 'a1', 'Z1', 'AA1', 'AZ99', 'BA100', 'ZZ1048576', 'XFD1048576', 'xfd1', 'aBc12',
    '$A1', 'A$1', '$A$1', '$a$1', '$zz$999', 'a$7', '$b7', '$N$98', 'B6', '$B6',
    'A0', 'A00', 'A01', 'A001', '$A$0', 'A010', 'AAAA1', 'A' + '9' * 25, 'A' + '9' * 4301, 'Z' * 12 + '3',
    '', 'A', '1', '$', '$$A1', '$A$$1', 'A1$', 'A$', '$1', '1A', 'A1A', 'A1:B2', ' A1', 'A1 ', 'A 1', 'A1\n', '\nA1', 'A-1', 'A+1',
    'A1.0', 'A_1', 'A1_0', u'\xe91', u'A٣', u'Ａ1', u'A１', u'\xdf1', 'R1C1', 'TRUE', 'SUM(A1)', '#REF!', "A'1",
    StrSub('c3'), StrSub('$c$3'), StrSub('nope'),
]
for _ in range(40):
    lab = ''
    if rng.random() < 0.4:
        lab += '$'
    lab += ''.join(rng.choice('ABCXYZabcxyz') for _ in range(rng.randrange(1, 4)))
    if rng.random() < 0.4:
        lab += '$'
    lab += str(rng.randrange(0, 3000)) if rng.random() < 0.85 else '0' + str(rng.randrange(0, 50))
    labels.append(lab)
for lab in labels:
    show('decompose_recompose', decompose_recompose, lab)

for bad in [None, 0, 1, 1.5, True, b'A1', bytearray(b'A1'), ['A1'], ('A', 1), {}, object]:
    show('extract_label', cell.extract_label, bad)

print('## to_label direct')
PL = ParsedLabel


class Part(object):
    def __init__(self, index, is_absolute):
        self.index = index
        self.is_absolute = is_absolute

    def __repr__(self):
        return 'Part(%r, %r)' % (self.index, self.is_absolute)


class OnlyIndex(object):
    index = 3

    def __repr__(self):
        return 'OnlyIndex()'


class OnlyAbs(object):
    is_absolute = True

    def __repr__(self):
        return 'OnlyAbs()'


to_label_args = [
    (PL(0, '1', False), PL(0, 'A', False)),
    (PL(97, '98', True), PL(13, 'N', True)),
    (PL(5, '6', False), PL(1, 'B', True)),
    (PL(5, '6', True), PL(1, 'B', False)),
    (PL(-1, '0', False), PL(0, 'A', False)),
    (PL(-1, '0', True), PL(-1, '', True)),
    (PL(0, 'ignored', 1), PL(26, 'ignored', 0)),
    (PL(0, '1', 'yes'), PL(27, 'AB', '')),
    (PL(0, '1', None), PL(702, 'AAA', [0])),
    (PL(0, '1', []), PL(0, 'A', '$')),
    (PL(1.5, '', False), PL(26.7, '', False)),
    (PL(True, '', False), PL(True, '', True)),
    (PL('5', '', False), PL(0, '', False)),
    (PL(0, '', False), PL('5', '', False)),
    (PL('5', '', False), PL(None, '', False)),
    (PL(None, '', True), PL('x', '', True)),
    (PL(float('nan'), '', True), PL(float('nan'), '', True)),
    (PL(0, '', True), PL(float('inf'), '', True)),
    (Part(2, False), Part(2, True)),
    (Part(10 ** 6, True), Part(10 ** 6, False)),
    (OnlyIndex(), PL(0, 'A', False)),
    (PL(0, '1', False), OnlyIndex()),
    (OnlyAbs(), PL(0, 'A', False)),
    (PL(0, '1', False), OnlyAbs()),
    (OnlyAbs(), OnlyIndex()),
    (OnlyIndex(), OnlyAbs()),
    (None, PL(0, 'A', False)),
    (PL(0, '1', False), None),
    (None, None),
    ((0, '1', False), (0, 'A', False)),
]
for row, col in to_label_args:
    show('to_label', cell.to_label, row, col)
for _ in range(30):
    row = PL(rng.randrange(-2, 5000), 'r', rng.random() < 0.5)
    col = PL(rng.randrange(-2, 20000), 'c', rng.random() < 0.5)
    show('to_label', cell.to_label, row, col)

# ---------------------------------------------------------------- through the parser
print('## parser: cells and ranges with events')


def run_formula(formula):
    p = hotxlfp.Parser()
    events = []

    def on_cell(c, done):
        events.append(('cell', repr(c)))
        done(c.row.index * 1000 + c.col.index)

    def on_range(start, end, done):
        events.append(('range', repr(start), repr(end)))
        rows = []
        for r in range(start.row.index, min(end.row.index, start.row.index + 2) + 1):
            rows.append([r * 1000 + c for c in range(start.col.index, min(end.col.index, start.col.index + 2) + 1)])
        done(rows)

    p.on('callCellValue', on_cell)
    p.on('callRangeValue', on_range)
    out = p.parse(formula)
    return out, events


formulas = [
    'A1', 'a1', '$A1', 'A$1', '$A$1', '$a$1', 'Z1', 'AA1', 'AZ2', 'BA3', 'zz10', 'XFD1048576', 'AAA1', 'A0', 'A01', '$A$007',
    'A1+B2', 'A1*$B$2-c$3', 'SUM(A1)', 'SUM(A1,B1)', '-A1', 'A1%', 'A1&B1', 'A1=A1', 'AB12<ab12',
    'A1:B2', 'B2:A1', 'A2:B1', 'B1:A2', '$A$1:$B$2', '$B$2:$A$1', '$B2:A$1', 'B$2:$A1', 'a1:b2', 'b2:a1', 'A1:A1', 'A1:a1',
    '$A1:A1', 'A1:$A$1', 'SUM(A1:B2)', 'SUM(B2:A1)', 'SUM($C$5:A1)', 'SUM(A1:C3)', 'SUM(AA10:Z9)', 'SUM(Z9:AA10)', 'SUM(A0:B0)',
    'SUM(A1:B2,C3)', 'SUM(A1:B2)+D4', 'AVERAGE(b$2:$a1)', 'COUNT(A1:B2)', 'ROWS(A1:B3)', 'COLUMNS(A1:C1)',
    'A1:B', 'A:B', '1:2', 'A1:', ':A1', 'A1:B2:C3', '$$A1', 'A$$1', 'A1$', '$A', 'A$', 'A1 B2', 'A 1', 'A1.5', 'A1A', 'R1C1',
    'A1(2)', 'A1!', '"A1"', 'IF(TRUE,A1,B1)', 'IF(FALSE,A1,b$1)', '{1,2}+A1', 'A' + '9' * 30, 'A' + '9' * 4301 + ':B1',
]
for f in formulas:
    show('parse', run_formula, f)

print('## parser: call_cell_value / call_range_value direct')


def direct_cell(label):
    p = hotxlfp.Parser()
    events = []
    p.on('callCellValue', lambda c, done: events.append(repr(c)))
    return p.call_cell_value(label), events


def direct_range(a, b):
    p = hotxlfp.Parser()
    events = []
    p.on('callRangeValue', lambda s, e, done: events.append((repr(s), repr(e))))
    return p.call_range_value(a, b), events


for lab in ['A1', 'a1', '$a$1', 'zz$9', 'A0', 'A', '1', '', 'A1:B2', ' A1', u'\xdf1', None, 5, b'A1']:
    show('call_cell_value', direct_cell, lab)
for a, b in [('A1', 'B2'), ('B2', 'A1'), ('a2', 'b1'), ('$b$1', 'a2'), ('A1', 'A1'), ('$A1', 'A$1'), ('c3', 'A5'),
             ('A0', 'A1'), ('A1', 'A0'), ('ZZ1', 'AAA1'), ('AAA1', 'ZZ1'),
             (None, 'A1'), ('A1', None), (None, None), ('A1', 'B'), ('A', 'B2'), ('', ''), ('A1', ''), ('A1', 5), (5, 'A1'),
             ('A1', b'B2'), ('A1:B2', 'C3')]:
    show('call_range_value', direct_range, a, b)

print('## total evaluations: %d' % COUNT[0])
