# -*- coding: utf-8 -*-
"""
Probe for C03 refactoring 2 (hotxlfp.tinyemitter.Emitter on/once/emit/off and hotxlfp.Parser.parse).

Part 1 drives Emitter objects directly, one operation per line: the operation, its outcome (or the
exception it raised), everything the listeners and the comparison hooks of the callbacks logged while
it ran, and the emitter's registry afterwards.
Part 2 evaluates formulas with Parser.parse on several parsers that carry on/once listeners.
Deterministic: no time, no randomness, no memory addresses.
"""
from __future__ import print_function
import os
import sys
import threading

sys.path.insert(0, os.path.dirname(os.path.dirname(os.path.abspath(__file__))))

import hotxlfp  # noqa: E402
from hotxlfp.tinyemitter import Emitter  # noqa: E402
from hotxlfp.formulas import error as xlerror  # noqa: E402

COUNT = [0]
LOG = []


def show(value):
    if isinstance(value, xlerror.XLError):
        return 'XLError(%r)' % str(value)
    if isinstance(value, (Emitter, hotxlfp.Parser)):
        return '<%s>' % type(value).__name__
    if isinstance(value, dict):
        return '{' + ', '.join('%s: %s' % (show(k), show(value[k])) for k in sorted(value, key=repr)) + '}'
    if isinstance(value, list):
        return '[' + ', '.join(show(v) for v in value) + ']'
    if isinstance(value, tuple):
        return '(' + ', '.join(show(v) for v in value) + ')'
    if value is None or isinstance(value, (bool, int, float, complex, str, bytes)):
        return repr(value)
    tag = getattr(value, 'tag', None)
    if isinstance(tag, str):
        return '<%s>' % tag
    if callable(value):
        return '<callable %s>' % getattr(value, '__name__', type(value).__name__)
    return '<%s>' % type(value).__name__


def describe_fn(fn):
    if getattr(fn, '__name__', None) == 'onetime_listener':
        return 'once[%s,fired=%s]' % (describe_fn(fn.__dict__.get('_')), show(fn.__dict__.get('fired')))
    tag = getattr(type(fn), 'tag_of', None)
    if tag is not None:
        return tag(fn)
    return getattr(fn, '__name__', type(fn).__name__)


def registry(em):
    parts = []
    for key in sorted(em._e, key=repr):
        parts.append('%r:[%s]' % (key, ', '.join(
            '%s%s' % (describe_fn(l.fn), '' if l.ctx == {} else show(l.ctx)) for l in em._e[key])))
    return '{' + '; '.join(parts) + '}'


def step(label, em, desc, thunk):
    del LOG[:]
    try:
        out = thunk()
        outcome = 'self' if out is em else show(out)
    except BaseException as e:  # noqa
        outcome = 'RAISED %s(%s)' % (type(e).__name__, e)
    COUNT[0] += 1
    print('%04d %s | %s | %s | log=%s | registry=%s' % (
        COUNT[0], label, desc, outcome, ';'.join(LOG), registry(em)))


# ------------------------------------------------------------------------------------------ callbacks

def make(tag):
    def listener(*args, **kwargs):
        LOG.append('%s%s%s' % (tag, show(args), show(kwargs) if kwargs else ''))
    listener.__name__ = tag
    return listener


class Cb(object):
    """A callable object with configurable (and logged) comparison, truth value and '_' attribute."""
    NOTSET = object()

    def __init__(self, tag, ne=NOTSET, eq=NOTSET, truth=NOTSET, underscore=NOTSET, underscore_raises=None):
        self.tag = tag
        self._ne = ne
        self._eq = eq
        self._truth = truth
        self._underscore = underscore
        self._underscore_raises = underscore_raises

    @staticmethod
    def tag_of(self):
        return self.tag

    def __call__(self, *args, **kwargs):
        LOG.append('%s%s%s' % (self.tag, show(args), show(kwargs) if kwargs else ''))

    def __ne__(self, other):
        if self._ne is Cb.NOTSET:
            result = self is not other
        elif callable(self._ne):
            result = self._ne(other)
        else:
            result = self._ne
        LOG.append('%s.ne(%s)=%s' % (self.tag, describe_fn(other) if callable(other) else show(other), show(result)))
        return result

    def __eq__(self, other):
        if self._eq is Cb.NOTSET:
            result = self is other
        else:
            result = self._eq
        LOG.append('%s.eq(%s)=%s' % (self.tag, describe_fn(other) if callable(other) else show(other), show(result)))
        return result

    __hash__ = object.__hash__

    def __bool__(self):
        LOG.append('%s.bool' % self.tag)
        if self._truth is Cb.NOTSET:
            return True
        if isinstance(self._truth, BaseException):
            raise self._truth
        return self._truth

    __nonzero__ = __bool__

    def __getattr__(self, name):
        # only reached when normal lookup fails
        if name == '_':
            LOG.append('%s.getattr(_)' % self.__dict__.get('tag'))
            if self.__dict__.get('_underscore_raises') is not None:
                raise self.__dict__['_underscore_raises']
            value = self.__dict__.get('_underscore', Cb.NOTSET)
            if value is not Cb.NOTSET:
                return value
        raise AttributeError(name)


class NonBool(object):
    """A comparison result whose truth value is logged."""

    def __init__(self, tag, truth):
        self.tag = tag
        self.truth = truth

    def __bool__(self):
        LOG.append('%s.bool=%s' % (self.tag, self.truth))
        return self.truth

    __nonzero__ = __bool__


def emitter_part():
    a, b, c, d = make('a'), make('b'), make('c'), make('d')

    # --- on / emit basics
    em = Emitter()
    L = 'basic'
    step(L, em, 'new', lambda: None)
    step(L, em, 'emit x (no listeners)', lambda: em.emit('x'))
    step(L, em, 'emit x 1 2', lambda: em.emit('x', 1, 2))
    step(L, em, 'on x a', lambda: em.on('x', a))
    step(L, em, 'on x b ctx', lambda: em.on('x', b, {'k': 'v'}))
    step(L, em, 'on x a again', lambda: em.on('x', a))
    step(L, em, 'on y c ctx={}', lambda: em.on('y', c, {}))
    step(L, em, 'on y d ctx=None', lambda: em.on('y', d, None))
    step(L, em, 'emit x', lambda: em.emit('x'))
    step(L, em, 'emit x 1', lambda: em.emit('x', 1))
    step(L, em, 'emit x None [1] "s"', lambda: em.emit('x', None, [1], 's'))
    step(L, em, 'emit y 5', lambda: em.emit('y', 5))
    step(L, em, 'emit z', lambda: em.emit('z'))
    step(L, em, 'emit None', lambda: em.emit(None))
    step(L, em, 'emit 0', lambda: em.emit(0))
    step(L, em, 'emit ()', lambda: em.emit(()))
    step(L, em, 'emit [] (unhashable)', lambda: em.emit([]))
    step(L, em, 'emit (no name)', lambda: em.emit())
    step(L, em, 'on [] a (unhashable)', lambda: em.on([], a))
    step(L, em, 'on (missing callback)', lambda: em.on('x'))
    step(L, em, 'off [] (unhashable)', lambda: em.off([]))
    step(L, em, 'off x a', lambda: em.off('x', a))
    step(L, em, 'emit x', lambda: em.emit('x'))
    step(L, em, 'off x a (absent)', lambda: em.off('x', a))
    step(L, em, 'off x b', lambda: em.off('x', b))
    step(L, em, 'emit x', lambda: em.emit('x'))
    step(L, em, 'off x b (key gone)', lambda: em.off('x', b))
    step(L, em, 'off x (key gone)', lambda: em.off('x'))
    step(L, em, 'off y', lambda: em.off('y'))
    step(L, em, 'off y again', lambda: em.off('y'))
    step(L, em, 'off z (emitted, empty)', lambda: em.off('z'))
    step(L, em, 'off None', lambda: em.off(None))
    step(L, em, 'off 0 a', lambda: em.off(0, a))
    step(L, em, 'off () None', lambda: em.off((), None))
    step(L, em, 'off never', lambda: em.off('never'))
    step(L, em, 'off never a', lambda: em.off('never', a))

    # --- context handling
    em = Emitter()
    L = 'ctx'
    shared = {'n': 1}
    step(L, em, 'on x a shared ctx', lambda: em.on('x', a, shared))
    step(L, em, 'on x b shared ctx', lambda: em.on('x', b, shared))
    step(L, em, 'emit x', lambda: em.emit('x'))
    shared['m'] = 2
    step(L, em, 'emit x after ctx mutated', lambda: em.emit('x', 'p'))
    step(L, em, 'on y a ctx=0 (falsy, not None)', lambda: em.on('y', a, 0))
    step(L, em, 'emit y', lambda: em.emit('y'))
    step(L, em, 'off y', lambda: em.off('y'))
    step(L, em, 'on y a ctx=[("k",1)]', lambda: em.on('y', a, [('k', 1)]))
    step(L, em, 'emit y', lambda: em.emit('y'))
    step(L, em, 'off y a', lambda: em.off('y', a))
    step(L, em, 'on y a ctx={1:2}', lambda: em.on('y', a, {1: 2}))
    step(L, em, 'emit y', lambda: em.emit('y'))
    step(L, em, 'off y a', lambda: em.off('y', a))
    step(L, em, 'on y not-callable', lambda: em.on('y', 'text'))
    step(L, em, 'on y b', lambda: em.on('y', b))
    step(L, em, 'emit y (first listener not callable)', lambda: em.emit('y'))
    step(L, em, 'off y "text"', lambda: em.off('y', 'text'))
    step(L, em, 'emit y', lambda: em.emit('y'))
    step(L, em, 'on x (lambda with one arg)', lambda: em.on('w', lambda only: LOG.append('one(%r)' % (only,))))
    step(L, em, 'emit w', lambda: em.emit('w'))
    step(L, em, 'emit w 1', lambda: em.emit('w', 1))
    step(L, em, 'emit w 1 2', lambda: em.emit('w', 1, 2))
    step(L, em, 'once v a ctx', lambda: em.once('v', a, {'k': 1}))
    step(L, em, 'once v b ctx=None', lambda: em.once('v', b, None))
    step(L, em, 'once v c ctx={}', lambda: em.once('v', c, {}))
    step(L, em, 'emit v 9', lambda: em.emit('v', 9))
    step(L, em, 'emit v 9 again', lambda: em.emit('v', 9))

    # --- once
    em = Emitter()
    L = 'once'
    step(L, em, 'once x a', lambda: em.once('x', a))
    step(L, em, 'emit x 1', lambda: em.emit('x', 1))
    step(L, em, 'emit x 2', lambda: em.emit('x', 2))
    step(L, em, 'once x a', lambda: em.once('x', a))
    step(L, em, 'on x b', lambda: em.on('x', b))
    step(L, em, 'once x c', lambda: em.once('x', c))
    step(L, em, 'emit x 1', lambda: em.emit('x', 1))
    step(L, em, 'emit x 2', lambda: em.emit('x', 2))
    step(L, em, 'once x a', lambda: em.once('x', a))
    step(L, em, 'off x a (removes the wrapper)', lambda: em.off('x', a))
    step(L, em, 'emit x', lambda: em.emit('x'))
    step(L, em, 'once x a', lambda: em.once('x', a))
    step(L, em, 'once x a (second wrapper)', lambda: em.once('x', a))
    step(L, em, 'on x a (plain)', lambda: em.on('x', a))
    step(L, em, 'emit x', lambda: em.emit('x'))
    step(L, em, 'emit x', lambda: em.emit('x'))
    step(L, em, 'once x a', lambda: em.once('x', a))
    step(L, em, 'once x a', lambda: em.once('x', a))
    step(L, em, 'off x a (plain and both wrappers)', lambda: em.off('x', a))
    step(L, em, 'once y a', lambda: em.once('y', a))
    wrapper = em._e['y'][0].fn
    step(L, em, 'call wrapper directly', lambda: wrapper('direct'))
    step(L, em, 'call wrapper directly again', lambda: wrapper('direct'))
    step(L, em, 'emit y', lambda: em.emit('y'))
    step(L, em, 'once y a', lambda: em.once('y', a))
    wrapper2 = em._e['y'][0].fn
    step(L, em, 'off y wrapper2', lambda: em.off('y', wrapper2))
    step(L, em, 'call removed wrapper (off raises KeyError)', lambda: wrapper2('late'))
    step(L, em, 'call removed wrapper again', lambda: wrapper2('late'))
    step(L, em, 'once y a', lambda: em.once('y', a))
    wrapper3 = em._e['y'][0].fn
    wrapper3.fired = 1
    step(L, em, 'emit y with fired=1', lambda: em.emit('y'))
    wrapper3.fired = 0
    step(L, em, 'emit y with fired=0', lambda: em.emit('y'))
    step(L, em, 'emit y', lambda: em.emit('y'))
    step(L, em, 'once (missing callback)', lambda: em.once('y'))
    step(L, em, 'once y None', lambda: em.once('y', None))
    step(L, em, 'emit y (callback None)', lambda: em.emit('y'))
    step(L, em, 'emit y again', lambda: em.emit('y'))

    def boom(*args):
        LOG.append('boom%s' % show(args))
        raise ValueError('boom')
    boom.__name__ = 'boom'
    step(L, em, 'once z boom', lambda: em.once('z', boom))
    step(L, em, 'on z a', lambda: em.on('z', a))
    step(L, em, 'emit z (once listener raises)', lambda: em.emit('z', 1))
    step(L, em, 'emit z', lambda: em.emit('z', 2))
    step(L, em, 'on z boom', lambda: em.on('z', boom))
    step(L, em, 'on z b', lambda: em.on('z', b))
    step(L, em, 'emit z (second listener raises)', lambda: em.emit('z', 3))
    step(L, em, 'off z boom', lambda: em.off('z', boom))
    step(L, em, 'emit z', lambda: em.emit('z', 4))

    # --- listeners that change the registry while an emit is in progress
    em = Emitter()
    L = 'reentrant'

    def adder(*args):
        LOG.append('adder')
        em.on('x', a)
    adder.__name__ = 'adder'

    def remover(*args):
        LOG.append('remover')
        em.off('x', b)
    remover.__name__ = 'remover'

    def clearer(*args):
        LOG.append('clearer')
        em.off('x')
    clearer.__name__ = 'clearer'

    depth = [0]

    def reemit(*args):
        LOG.append('reemit%s' % show(args))
        if depth[0] < 2:
            depth[0] += 1
            em.emit('x', *(args + ('again',)))
            depth[0] -= 1
    reemit.__name__ = 'reemit'

    def once_adder(*args):
        LOG.append('once_adder')
        em.once('x', c)
    once_adder.__name__ = 'once_adder'

    step(L, em, 'on x adder', lambda: em.on('x', adder))
    step(L, em, 'on x b', lambda: em.on('x', b))
    step(L, em, 'emit x (adds a)', lambda: em.emit('x'))
    step(L, em, 'emit x (adds another a)', lambda: em.emit('x'))
    step(L, em, 'off x adder', lambda: em.off('x', adder))
    step(L, em, 'off x a', lambda: em.off('x', a))
    step(L, em, 'on x remover (after b)', lambda: em.on('x', remover))
    step(L, em, 'emit x (removes b after it ran)', lambda: em.emit('x'))
    step(L, em, 'off x', lambda: em.off('x'))
    step(L, em, 'on x remover', lambda: em.on('x', remover))
    step(L, em, 'on x b', lambda: em.on('x', b))
    step(L, em, 'emit x (b removed but in snapshot)', lambda: em.emit('x'))
    step(L, em, 'emit x (remover alone: off of absent b keeps remover)', lambda: em.emit('x'))
    step(L, em, 'off x', lambda: em.off('x'))
    step(L, em, 'on x clearer', lambda: em.on('x', clearer))
    step(L, em, 'on x a', lambda: em.on('x', a))
    step(L, em, 'emit x (clears all, a still in snapshot)', lambda: em.emit('x'))
    step(L, em, 'emit x', lambda: em.emit('x'))
    step(L, em, 'once x a', lambda: em.once('x', a))
    step(L, em, 'on x reemit', lambda: em.on('x', reemit))
    step(L, em, 'once x b', lambda: em.once('x', b))
    step(L, em, 'emit x 0 (nested emits; once listeners fire once)', lambda: em.emit('x', 0))
    step(L, em, 'emit x 1', lambda: em.emit('x', 1))
    step(L, em, 'off x', lambda: em.off('x'))
    step(L, em, 'on x reemit', lambda: em.on('x', reemit))
    step(L, em, 'once x a (after reemit)', lambda: em.once('x', a))
    step(L, em, 'emit x 0 (inner emit fires a first; outer snapshot skips it)', lambda: em.emit('x', 0))
    step(L, em, 'off x', lambda: em.off('x'))
    step(L, em, 'on x once_adder', lambda: em.on('x', once_adder))
    step(L, em, 'emit x', lambda: em.emit('x'))
    step(L, em, 'emit x', lambda: em.emit('x'))
    step(L, em, 'emit x', lambda: em.emit('x'))
    step(L, em, 'off x c', lambda: em.off('x', c))
    step(L, em, 'off x once_adder', lambda: em.off('x', once_adder))

    # --- off with callbacks that have their own comparison / truth value / '_' attribute
    L = 'compare'

    def fresh(*cbs):
        e = Emitter()
        for cb in cbs:
            e.on('x', cb)
        return e

    p = Cb('p')
    q = Cb('q')
    em = fresh(p, q, a)
    step(L, em, 'off x p', lambda: em.off('x', p))
    step(L, em, 'off x a', lambda: em.off('x', a))
    step(L, em, 'off x p (absent)', lambda: em.off('x', p))
    step(L, em, 'off x q', lambda: em.off('x', q))

    never_ne = Cb('never_ne', ne=False)
    em = fresh(a, never_ne, b)
    step(L, em, 'off x b (never_ne goes too)', lambda: em.off('x', b))
    step(L, em, 'emit x', lambda: em.emit('x'))
    em = fresh(never_ne)
    step(L, em, 'off x a (never_ne only)', lambda: em.off('x', a))

    always_ne = Cb('always_ne', ne=True, eq=True)
    em = fresh(always_ne, a)
    step(L, em, 'off x always_ne (cannot be removed)', lambda: em.off('x', always_ne))
    step(L, em, 'off x a', lambda: em.off('x', a))
    step(L, em, 'off x', lambda: em.off('x'))

    eq_all = Cb('eq_all', eq=True)  # == says yes to everything, != is identity
    em = fresh(eq_all, a)
    step(L, em, 'off x b (eq_all stays: off uses !=)', lambda: em.off('x', b))
    step(L, em, 'off x eq_all', lambda: em.off('x', eq_all))

    # the reflected comparison: a plain function on the left, a Cb on the right
    target = Cb('target', ne=False)
    em = fresh(a, b)
    step(L, em, 'off x target(ne=False): reflected != removes all', lambda: em.off('x', target))
    target2 = Cb('target2', ne=True)
    em = fresh(a, b)
    step(L, em, 'off x target2(ne=True): keeps all', lambda: em.off('x', target2))

    nb_true = Cb('nb_true', ne=lambda other: NonBool('nbT', True))
    nb_false = Cb('nb_false', ne=lambda other: NonBool('nbF', False))
    em = fresh(nb_true, nb_false, a)
    step(L, em, 'off x a (non-bool comparison results)', lambda: em.off('x', a))
    em = fresh(nb_true, nb_false, a)
    step(L, em, 'off x nb_true', lambda: em.off('x', nb_true))
    ne_list = Cb('ne_list', ne=[])
    ne_list1 = Cb('ne_list1', ne=[0])
    em = fresh(ne_list, ne_list1)
    step(L, em, 'off x a (!= gives [] and [0])', lambda: em.off('x', a))

    ne_raises = Cb('ne_raises', ne=lambda other: 1 // 0)
    em = fresh(a, ne_raises, b)
    step(L, em, 'off x a (comparison raises half way)', lambda: em.off('x', a))
    step(L, em, 'emit x', lambda: em.emit('x'))
    em = Emitter()
    step(L, em, 'off fresh-key a (no listeners: no comparison)', lambda: em.off('x', ne_raises))

    falsy = Cb('falsy', truth=False)
    em = fresh(a, falsy, b)
    step(L, em, 'off x falsy (falsy callback: removes all)', lambda: em.off('x', falsy))
    em = fresh(a, falsy, b)
    step(L, em, 'off x a (falsy listener registered)', lambda: em.off('x', a))
    step(L, em, 'emit x', lambda: em.emit('x'))
    truth_raises = Cb('truth_raises', truth=RuntimeError('no truth'))
    em = fresh(a)
    step(L, em, 'off x truth_raises', lambda: em.off('x', truth_raises))
    em = Emitter()
    step(L, em, 'off x truth_raises (no listeners: truth not asked)', lambda: em.off('x', truth_raises))
    for falsy_value in (0, '', (), [], {}, False, 0.0):
        em = fresh(a, b)
        step(L, em, 'off x %r' % (falsy_value,), lambda: em.off('x', falsy_value))
    for truthy_value in (1, 'a', (0,), True):
        em = fresh(a, b)
        step(L, em, 'off x %r' % (truthy_value,), lambda: em.off('x', truthy_value))

    # '_' attribute: the wrapper protocol of once()
    wraps_a = Cb('wraps_a', underscore=a)
    wraps_b = Cb('wraps_b', underscore=b)
    wraps_none = Cb('wraps_none', underscore=None)
    em = fresh(wraps_a, wraps_b, wraps_none, c)
    step(L, em, 'off x a (removes wraps_a)', lambda: em.off('x', a))
    step(L, em, 'off x None (falsy: removes all)', lambda: em.off('x', None))
    em = fresh(wraps_a, wraps_b, wraps_none, c)
    step(L, em, 'off x wraps_b', lambda: em.off('x', wraps_b))
    step(L, em, 'off x c', lambda: em.off('x', c))
    step(L, em, 'emit x', lambda: em.emit('x', 1))
    us_attr_error = Cb('us_attr_error', underscore_raises=AttributeError('nope'))
    us_value_error = Cb('us_value_error', underscore_raises=ValueError('bad _'))
    em = fresh(us_attr_error, a)
    step(L, em, 'off x a (_ lookup raises AttributeError)', lambda: em.off('x', a))
    em = fresh(a, us_value_error, b)
    step(L, em, 'off x a (_ lookup raises ValueError)', lambda: em.off('x', a))
    wraps_p = Cb('wraps_p', underscore=p)
    wraps_never = Cb('wraps_never', underscore=never_ne)
    wraps_always = Cb('wraps_always', underscore=always_ne)
    wraps_nb = Cb('wraps_nb', underscore=nb_false)
    em = fresh(wraps_p, wraps_never, wraps_always, wraps_nb)
    step(L, em, 'off x p', lambda: em.off('x', p))
    em = fresh(wraps_p, wraps_never, wraps_always, wraps_nb)
    step(L, em, 'off x always_ne', lambda: em.off('x', always_ne))
    em = fresh(wraps_nb, wraps_always)
    step(L, em, 'off x c', lambda: em.off('x', c))

    def tagged(*args):
        LOG.append('tagged%s' % show(args))
    tagged.__name__ = 'tagged'
    tagged._ = a
    em = fresh(tagged, a, b)
    step(L, em, 'off x a (function with _ = a goes too)', lambda: em.off('x', a))
    em = fresh(tagged, b)
    em.once('x', tagged)
    step(L, em, 'off x tagged (plain + once wrapper)', lambda: em.off('x', tagged))
    em = fresh(b)
    em.once('x', tagged)
    step(L, em, 'off x a (wrapper._ is tagged, tagged._ is a: not transitive)', lambda: em.off('x', a))
    step(L, em, 'emit x', lambda: em.emit('x', 1))

    # bound methods compare equal without being identical
    class Holder(object):
        def method(self, *args):
            LOG.append('method%s' % show(args))
    h = Holder()
    em = Emitter()
    step(L, em, 'on x h.method', lambda: em.on('x', h.method))
    step(L, em, 'once x h.method', lambda: em.once('x', h.method))
    step(L, em, 'off x h.method (another bound-method object)', lambda: em.off('x', h.method))

    # --- emitters do not share anything
    L = 'separate'
    e1, e2 = Emitter(), Emitter()
    step(L, e1, 'e1.on x a', lambda: e1.on('x', a))
    step(L, e2, 'e2 registry', lambda: None)
    step(L, e2, 'e2.emit x', lambda: e2.emit('x'))
    step(L, e2, 'e2.off x a', lambda: e2.off('x', a))
    step(L, e1, 'e1 registry', lambda: None)
    step(L, e1, 'e1.emit x', lambda: e1.emit('x'))
    step(L, e1, 'chained', lambda: e1.on('y', b).once('y', c).emit('y', 1).off('y', b).emit('y', 2))
    step(L, e1, 'chained off of last', lambda: e1.on('y', b).off('y', b).on('y', c))
    step(L, e2, 'e2 registry', lambda: None)


# ------------------------------------------------------------------------------------ parser part

def describe_event(kind, args):
    if kind == 'callFunction':
        return 'F:%s%s' % (args[0], show(args[1]))
    if kind == 'callVariable':
        return 'V:%s' % args[0]
    if kind == 'callCellValue':
        return 'C:%s' % args[0].label
    return 'R:%s:%s' % (args[0].label, args[1].label)


class Harness(object):

    def __init__(self, label, once_events=False, provide=False):
        self.label = label
        self.log = []
        self.parser = hotxlfp.Parser()
        self.provide = provide
        for kind in ('callFunction', 'callVariable', 'callCellValue', 'callRangeValue'):
            self.parser.on(kind, self.recorder(kind))
        self.once_events = once_events

    def recorder(self, kind):
        def record(*args):
            self.log.append(describe_event(kind, args))
            if kind == 'callVariable':
                if args[0] == 'lraise_badstr':
                    raise BadStr()
                if args[0] == 'lraise_value':
                    raise xlerror.VALUE
                if args[0] == 'lraise_plain':
                    raise RuntimeError('#NUM!')
                if args[0] == 'lraise_kbd':
                    raise KeyboardInterrupt('stop')
            if self.provide:
                setter = args[-1]
                if kind == 'callCellValue':
                    setter(args[0].row.index * 10 + args[0].col.index)
                elif kind == 'callRangeValue':
                    setter([[r * 10 + c for c in range(args[0].col.index, args[1].col.index + 1)]
                            for r in range(args[0].row.index, args[1].row.index + 1)])
                elif kind == 'callVariable' and args[0] == 'given':
                    setter('given value')
        return record

    def arm_once(self):
        def first_function(name, args, setter):
            self.log.append('ONCE-F:%s' % name)
            setter('once!')

        def first_variable(name, setter):
            self.log.append('ONCE-V:%s' % name)
            setter('once var')
        self.parser.once('callFunction', first_function)
        self.parser.once('callVariable', first_variable)

    def evaluate(self, formula, quiet=False):
        del self.log[:]
        if self.once_events:
            self.arm_once()
        try:
            outcome = show(self.parser.parse(formula))
        except BaseException as e:  # noqa
            outcome = 'RAISED %s(%s)' % (type(e).__name__, e)
        if self.once_events:
            # drop the one-time listeners that did not fire, so every evaluation starts alike
            for kind in ('callFunction', 'callVariable'):
                self.parser._e[kind] = [l for l in self.parser._e[kind]
                                        if getattr(l.fn, '__name__', '') != 'onetime_listener']
        shape = ','.join('%s=%d' % (k, len(self.parser._e[k])) for k in sorted(self.parser._e))
        line = '%s | %s | %s | events=%s | listeners=%s' % (
            self.label, show(formula), outcome, ';'.join(self.log), shape)
        if not quiet:
            COUNT[0] += 1
            print('%04d %s' % (COUNT[0], line))
        return line


class EqEmpty(object):
    tag = 'EqEmpty'

    def __eq__(self, other):
        return other == ''

    __hash__ = object.__hash__


class EqRaises(object):
    tag = 'EqRaises'

    def __eq__(self, other):
        raise KeyError('#N/A')

    __hash__ = object.__hash__


class EqRaisesNum(object):
    tag = 'EqRaisesNum'

    def __eq__(self, other):
        raise xlerror.NUM

    __hash__ = object.__hash__


def raise_value(*args):
    raise xlerror.VALUE


def raise_named(*args):
    raise RuntimeError('#DIV/0!')


def raise_plain(*args):
    raise RuntimeError('nothing special')


def raise_keyerror(*args):
    raise KeyError('#N/A')  # str() of a KeyError quotes the key


class BadStr(Exception):
    def __str__(self):
        raise ValueError('cannot print')


def raise_badstr(*args):
    raise BadStr()


FUNCS = {
    'RAISEVALUE': raise_value, 'RAISENAMED': raise_named, 'RAISEPLAIN': raise_plain,
    'RAISEKEYERROR': raise_keyerror, 'RETERR': lambda *a: xlerror.NOT_AVAILABLE,
    'RETNEWERR': lambda *a: xlerror.XLError('#DIV/0!'), 'RETODDERR': lambda *a: xlerror.XLError('odd'),
    'RETNONE': lambda *a: None, 'RETEMPTY': lambda *a: '', 'RETLIST': lambda *a: [xlerror.REF, 1],
    'RETEXC': lambda *a: ValueError('#NUM!'), 'NARGS': lambda *a: len(a),
}

FORMULAS = [
    '', ' ', '  ', '\t', '\n', '1', '0', '-1', '1.5', '.5', '1.', '1e3', '50%', '2^3', '2^-1', '1+2*3',
    '(1+2)*3', '((1))', '()', '(', ')', '1+', '+1', '*1', '1 1', '1,1', '=1', '==', '"a"', '""', "''",
    '"unterminated', '"a""b"', '"a\\"b"', '"a"&"b"', '"a"&1', '1&1', '&', '1=1', '1<>2', '1<2', '1>2',
    '1<=1', '1>=2', '"a"="A"', 'TRUE', 'FALSE', 'NULL', 'TRUE=1', 'TRUE&""', 'NULL&""', '-TRUE', '-NULL',
    '-"a"', '-"1"', '1/0', '0/0', '1/0+1', '-(1/0)', '(1/0)&"a"', '"a"&(1/0)', '(1/0)=(1/0)', '1+"a"',
    '"1"+1', '#N/A', '#DIV/0!', '#NAME?', '#NULL!', '#NUM!', '#REF!', '#VALUE!', '#ERROR!', '#GETTING_DATA',
    '#WHATEVER', '#', '#N/A+1', '1+#N/A', '#REF!&#NUM!', '#NUM!&#REF!', '-#VALUE!', '#N/A=#N/A',
    '{1,2,3}', '{1;2;3}', '{1,2;3,4}', '{1\\2}', '{}', '{1,#N/A}', '{,}', '{;;}', '{1,,2}', '{"a",TRUE}',
    'SUM(1,2)', 'SUM()', 'SUM(1,#N/A)', 'SUM(1/0)', 'SUM({1,2})', 'SUM(1', 'SUM)', 'SUM', 'sum(1)',
    'NOPE()', 'NOPE(1)', 'NOPE', 'IF(1,2,3)', 'IF(0,2,3)', 'IF(1/0,2,3)', 'IFERROR(1/0,0)', 'IFERROR(NOPE(),0)',
    'ISERROR(1/0)', 'ISNA(#N/A)', 'SQRT(-1)', 'LN(-1)', 'POWER(0,-1)', 'MOD(1,0)', 'ABS("a")', 'LEN(1/0)',
    'MAX(1,2)&MIN(1,2)', 'CONCATENATE("a",1,TRUE)', 'PI()*0', 'ROUND(1.005,2)', 'AND()', 'OR()', 'NOT()',
    'RAISEVALUE()', 'RAISENAMED()', 'RAISEPLAIN()', 'RAISEKEYERROR()', 'RETERR()', 'RETNEWERR()',
    'RETODDERR()', 'RETNONE()', 'RETEMPTY()', 'RETLIST()', 'RETEXC()', 'NARGS()', 'NARGS(1,2)', 'NARGS(,)',
    'RETERR()+1', 'RETODDERR()&"x"', 'IFERROR(RETERR(),"e")', 'IFERROR(RAISEPLAIN(),"e")',
    'ISERROR(RETODDERR())', 'RETNONE()&"x"', '-RETERR()', '-RETNONE()', 'SUM(RETLIST())', 'RAISEBADSTR()',
    'var', 'var+1', 'var.sub', 'given', 'given&"!"', 'missing', 'missing.sub', 'errvar', 'nonevar', 'listvar',
    'errvar&"x"', '-errvar', 'IFERROR(errvar,1)', 'IFERROR(missing,1)', 'A1', 'B2', '$A$1', 'A$1', '$A1',
    'A1+1', 'A1&"x"', '-A1', 'A1:B2', 'B2:A1', '$A$1:B2', 'SUM(A1:B2)', 'SUM(A1,B2)', 'A1:B', 'A:B', '1:2',
    'lraise_badstr', 'lraise_value', 'lraise_plain', 'lraise_kbd', '1+lraise_value', 'IFERROR(lraise_value,1)',
    'SUM(1,lraise_plain)', 'A1:B2:C3', 'ZZ100', 'A0', 'a1', 'A1.B1', 'x y', 'x!y', 'x@y', 'é', '1;2', '1\\2', 'a\\b',
]

ODD_EXPRESSIONS = [None, 0, 1, 1.5, True, False, b'', b'1+1', [], ['1'], (), {}, EqEmpty(), EqRaises(),
                   EqRaisesNum(), xlerror.NUM, object]


def make_harness(label, **kwargs):
    h = Harness(label, **kwargs)
    for k in sorted(FUNCS):
        h.parser.set_function(k, FUNCS[k])
    h.parser.set_function('RAISEBADSTR', raise_badstr)
    h.parser.set_variable('var', 7)
    h.parser.set_variable('errvar', xlerror.NUM)
    h.parser.set_variable('nonevar', None)
    h.parser.set_variable('listvar', [1, [2, xlerror.REF]])
    return h


def parser_part():
    plain = make_harness('plain')
    provider = make_harness('provider', provide=True)
    onceh = make_harness('once', once_events=True, provide=True)
    alone = {}
    for h in (plain, provider, onceh):
        for f in FORMULAS:
            alone[(h.label, f)] = h.evaluate(f)
    for expr in ODD_EXPRESSIONS:
        plain.evaluate(expr)

    # no listeners, no functions, no variables
    bare = hotxlfp.Parser()
    for f in ['', '1+1', 'var', 'given', 'NARGS()', 'A1', 'A1:B2', 'SUM(A1:B2)', '1/0', ')', '#REF!', 'TRUE']:
        COUNT[0] += 1
        print('%04d bare | %s | %s | registry=%s' % (COUNT[0], show(f), show(bare.parse(f)), registry(bare)))

    # the shared error values carry no traceback after parse
    leftovers = [str(e) for e in (xlerror.ERROR, xlerror.DIV_ZERO, xlerror.NAME, xlerror.NOT_AVAILABLE,
                                  xlerror.NULL, xlerror.NUM, xlerror.REF, xlerror.VALUE, xlerror.DATA)
                 if e.__traceback__ is not None or e.__context__ is not None]
    print('error values with leftovers:', leftovers)

    # nested: a function of one parser evaluating on another parser and on its own parser
    other = make_harness('other')
    other.parser.set_variable('var', 'other var')
    host = make_harness('host', provide=True)
    host.parser.set_function('OTHER', lambda f: show(other.parser.parse(f)))
    host.parser.set_function('SELF', lambda f: show(host.parser.parse(f)))
    host.parser.set_function('OTHERVAL', lambda f: other.parser.parse(f)['result'])
    host.parser.set_function('SELFVAL', lambda f: host.parser.parse(f)['result'])
    nested = [
        'OTHER("var")', 'SELF("var")', 'var', 'OTHER("given")', 'SELF("given")', 'OTHER("A1")', 'SELF("B2")',
        'OTHER("1/0")', 'SELF("1/0")', 'OTHER(")")', 'SELF(")")', 'OTHER("")', 'SELF("")', 'OTHER("OTHER(1)")',
        'SELF("SELF(""var"")")', 'SELF("OTHER(""var"")")', 'OTHERVAL("1/0")', 'SELFVAL("1/0")',
        'OTHERVAL("1/0")+1', 'IFERROR(SELFVAL("#N/A"),"n/a")', 'OTHERVAL("var")&"+"&SELFVAL("var")&"+"&var',
        'SUM(OTHERVAL("1"),SELFVAL("2"),A1)', 'OTHERVAL("RAISEPLAIN()")', 'SELF("RAISEVALUE()")',
        '1/0+SELFVAL("1")', 'SELFVAL("1")+1/0', 'OTHER(1)', 'SELF()', 'OTHERVAL("RETERR()")', 'SELFVAL("missing")',
    ]
    nested_alone = {}
    for f in nested:
        nested_alone[f] = host.evaluate(f)
    for f in ['var', 'SELF("1")', 'given', 'A1']:
        other.evaluate(f)

    # concurrent, different parsers
    mismatches = []

    def worker(h, formulas, out):
        for f in formulas:
            out.append((f, h.evaluate(f, quiet=True)))

    for round_no in range(3):
        outs = {}
        threads = []
        for h in (plain, provider, onceh):
            outs[h.label] = []
            formulas = FORMULAS if round_no != 1 else list(reversed(FORMULAS))
            threads.append(threading.Thread(target=worker, args=(h, formulas, outs[h.label])))
        outs['host'] = []
        threads.append(threading.Thread(target=worker, args=(host, nested * 3, outs['host'])))
        for t in threads:
            t.start()
        for t in threads:
            t.join()
        for label in sorted(outs):
            for f, line in outs[label]:
                expected = nested_alone[f] if label == 'host' else alone[(label, f)]
                if line != expected:
                    mismatches.append((round_no, label, f, line, expected))
        print('concurrent round %d: %d evaluations, %d mismatches so far' % (
            round_no, sum(len(v) for v in outs.values()), len(mismatches)))
    for m in mismatches:
        print('MISMATCH', m)


def main():
    emitter_part()
    print('emitter operations printed: %d' % COUNT[0])
    parser_part()
    print('lines printed: %d' % COUNT[0])


if __name__ == '__main__':
    main()
