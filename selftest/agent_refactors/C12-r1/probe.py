# -*- coding: utf-8 -*-
"""
Probe for C12 refactoring 1 (logic.py: AND / OR / XOR / SWITCH / IFS on shared helpers).
Prints a deterministic transcript: one line per evaluation.
"""
import os
import sys
import itertools
import datetime
import decimal
import fractions

sys.path.insert(0, os.path.dirname(os.path.dirname(os.path.abspath(__file__))))

import hotxlfp  # noqa: E402
from hotxlfp.formulas import error, logic, utils  # noqa: E402

COUNT = [0]


def show(value):
    """ repr without memory addresses """
    if value is utils.DEFAULT:
        return '<utils.DEFAULT>'
    if isinstance(value, (list, tuple)):
        inner = ', '.join(show(v) for v in value)
        if isinstance(value, list):
            return '[' + inner + ']'
        return '(' + inner + (',)' if len(value) == 1 else ')')
    if isinstance(value, dict):
        return '{' + ', '.join('%s: %s' % (show(k), show(v)) for k, v in sorted(value.items())) + '}'
    return repr(value)


def line(kind, what, outcome):
    COUNT[0] += 1
    print('%04d %s %s -> %s' % (COUNT[0], kind, what, outcome))


# ---------------------------------------------------------------------------
# part 1: formulas through the parser, with the events that were seen
# ---------------------------------------------------------------------------

SHEET = {
    'A1': 1, 'A2': 0, 'A3': None, 'A4': 'text', 'A5': True, 'A6': False,
    'A7': error.DIV_ZERO, 'A8': '', 'A9': -2.5, 'A10': error.NOT_AVAILABLE,
    'B1': 2, 'B2': 'x', 'B3': None, 'B4': 0.0, 'B5': True, 'B6': error.VALUE,
    'C1': 0, 'C2': 0, 'C3': False, 'C4': None,
}


def make_parser():
    parser = hotxlfp.Parser()
    events = []

    def on_function(name, args, setter):
        events.append('F:%s%s' % (name, show(args)))

    def on_variable(name, setter):
        events.append('V:%s' % name)
        if name == 'blank':
            pass
        elif name == 'one':
            setter(1)
        elif name == 'zero':
            setter(0)
        elif name == 'txt':
            setter('abc')
        elif name == 'empty':
            setter('')
        elif name == 'errnum':
            setter(error.NUM)
        elif name == 'errna':
            setter(error.NOT_AVAILABLE)
        elif name == 'lst':
            setter([1, [0, [True, None]], 'a'])
        elif name == 'errlst':
            setter([1, [error.REF, error.NUM], 0])

    def on_cell(cell, setter):
        events.append('C:%s' % cell.label)
        setter(SHEET.get(cell.label))

    def on_range(start, end, setter):
        events.append('R:%s:%s' % (start.label, end.label))
        rows = []
        for r in range(start.row.index, end.row.index + 1):
            row = []
            for c in range(start.col.index, end.col.index + 1):
                row.append(SHEET.get('ABCDEFGH'[c] + str(r + 1)))
            rows.append(row)
        setter(rows)

    parser.on('callFunction', on_function)
    parser.on('callVariable', on_variable)
    parser.on('callCellValue', on_cell)
    parser.on('callRangeValue', on_range)
    parser.set_variable('blank', None)
    return parser, events


def run_formula(parser, events, formula):
    del events[:]
    outcome = parser.parse(formula)
    line('formula', repr(formula), '%s | events %s' % (show(outcome), ' '.join(events)))


ATOMS = ['TRUE', 'FALSE', '1', '0', '-1', '0.5', '0.0', '""', '"a"', '"0"', '"TRUE"', '"FALSE"',
         'A1', 'A2', 'A3', 'A4', 'A5', 'A6', 'A7', 'A8', 'A9', 'A10',
         'NA()', '1/0', 'blank', 'one', 'zero', 'txt', 'empty', 'errnum', 'errna', 'lst', 'errlst',
         '{1,0}', '{0,0}', '{1;0}', '{TRUE,FALSE,TRUE}', '{"a","b"}', 'A1:A3', 'A1:B2', 'C1:C4',
         'A5:B7', 'A1:A10', 'TRUE()', 'FALSE()', 'SQRT(-1)', '1=1', '1>2', 'NOT(TRUE)', '2^2', '50%']

FORMULAS = []
for fn in ('AND', 'OR', 'XOR'):
    FORMULAS.append('%s()' % fn)
    for a in ATOMS:
        FORMULAS.append('%s(%s)' % (fn, a))
    for a, b in [('TRUE', 'TRUE'), ('TRUE', 'FALSE'), ('FALSE', 'TRUE'), ('FALSE', 'FALSE'),
                 ('1', '"a"'), ('0', '""'), ('A3', 'A3'), ('A3', '1'), ('1/0', 'NA()'), ('NA()', '1/0'),
                 ('TRUE', '1/0'), ('FALSE', '1/0'), ('1/0', 'TRUE'), ('A1:A3', 'TRUE'), ('A1:A10', 'FALSE'),
                 ('{1,1}', '{1,0}'), ('errlst', 'NA()'), ('A7', 'B6'), ('B6', 'A7'), ('lst', 'lst')]:
        FORMULAS.append('%s(%s,%s)' % (fn, a, b))
        FORMULAS.append('%s(%s;%s)' % (fn, a, b))
    FORMULAS.append('%s(TRUE,TRUE,TRUE)' % fn)
    FORMULAS.append('%s(TRUE,TRUE,TRUE,TRUE)' % fn)
    FORMULAS.append('%s(1,1,1,1,1,0,0,3)' % fn)
    FORMULAS.append('%s(,)' % fn)
    FORMULAS.append('%s(,,)' % fn)
    FORMULAS.append('%s(TRUE,)' % fn)
    FORMULAS.append('%s(,TRUE)' % fn)
    FORMULAS.append('%s(1,,1)' % fn)
    FORMULAS.append('%s({1,{1,1}},1)' % fn)
    FORMULAS.append('%s(%s(TRUE,FALSE),%s(1,1))' % (fn, fn, fn))
    FORMULAS.append('%s(A1:B6)' % fn)
    FORMULAS.append('%s(B1:B5)' % fn)
    FORMULAS.append('%s(B6:A1)' % fn)
    FORMULAS.append('%s(1\\0)' % fn)

FORMULAS += [
    'SWITCH()', 'SWITCH(1)', 'SWITCH(1,1)', 'SWITCH(1,1,"one")', 'SWITCH(2,1,"one")',
    'SWITCH(2,1,"one","other")', 'SWITCH(1,1,"one","other")', 'SWITCH(2,1,"one",2,"two")',
    'SWITCH(3,1,"one",2,"two")', 'SWITCH(3,1,"one",2,"two","dflt")', 'SWITCH(2,1,"one",2,"two","dflt")',
    'SWITCH(1,1,"first",1,"second")', 'SWITCH("a","A","upper","a","lower")', 'SWITCH("a","b",1,"c",2)',
    'SWITCH(TRUE,1,"num",TRUE,"bool")', 'SWITCH(1,TRUE,"bool",1,"num")', 'SWITCH(0,FALSE,"bool",0,"num")',
    'SWITCH(A3,0,"zero","","empty",A3,"blank","dflt")', 'SWITCH(A3,0,"zero","dflt")', 'SWITCH(,,"blank")',
    'SWITCH(,1,2)', 'SWITCH(,1,2,3)', 'SWITCH(1,,2)', 'SWITCH(1,,2,)', 'SWITCH(1,1,)', 'SWITCH(1,2,3,)',
    'SWITCH(1/0,1,2)', 'SWITCH(1/0,1,2,3)', 'SWITCH(NA(),NA(),"na","dflt")', 'SWITCH(1/0,1/0,"div")',
    'SWITCH(1/0,NA(),"na",1/0,"div","dflt")', 'SWITCH(1,1/0,"err",1,"one")', 'SWITCH(1,2,1/0)',
    'SWITCH(1,1,1/0)', 'SWITCH(1,2,"two",1/0)', 'SWITCH(1,2,"two",NA())', 'SWITCH(1.0,1,"int")',
    'SWITCH(1,1.0,"float")', 'SWITCH(0.5,50%,"half")', 'SWITCH({1,2},{1,2},"arr","dflt")',
    'SWITCH({1,2},{1,3},"arr","dflt")', 'SWITCH({1,2},1,"one")', 'SWITCH(A1,A2,"a2",B1,"b1",A1,"a1")',
    'SWITCH(A4,"text","t","TEXT","T")', 'SWITCH(A1:A2,A1:A2,"same")', 'SWITCH(lst,lst,"same","dflt")',
    'SWITCH(one,zero,"z",one,"o")', 'SWITCH(txt,"abc",1,"dflt")', 'SWITCH(5,1,1,2,2,3,3,4,4,5,5,6,6)',
    'SWITCH(7,1,1,2,2,3,3,4,4,5,5,6,6)', 'SWITCH(7,1,1,2,2,3,3,4,4,5,5,6,6,"d")',
    'SWITCH(6,1,1,2,2,3,3,4,4,5,5,6,6,"d")', 'SWITCH("d",1,1,2,2,"d")', 'SWITCH(2,1,1,2)',
    'SWITCH(SWITCH(1,1,2),2,"nested","no")', 'SWITCH(1;1;"semi")', 'SWITCH(2;1;"semi";"dflt")',
    'IFS()', 'IFS(TRUE)', 'IFS(FALSE)', 'IFS(TRUE,1)', 'IFS(FALSE,1)', 'IFS(FALSE,1,TRUE,2)',
    'IFS(FALSE,1,FALSE,2)', 'IFS(TRUE,1,TRUE,2)', 'IFS(FALSE,1,TRUE)', 'IFS(FALSE,1,TRUE,2,TRUE)',
    'IFS(0,"zero",1,"one")', 'IFS("","empty","a","text")', 'IFS("0","text zero")', 'IFS(A3,"blank",TRUE,"else")',
    'IFS(,1,TRUE,2)', 'IFS(,,)', 'IFS(TRUE,)', 'IFS(,)', 'IFS(1/0,1,TRUE,2)', 'IFS(FALSE,1,1/0,2)',
    'IFS(TRUE,1,1/0,2)', 'IFS(TRUE,1/0)', 'IFS(FALSE,1/0,TRUE,2)', 'IFS(NA(),1)', 'IFS(FALSE,1,NA())',
    'IFS(FALSE,1,NA(),2)', 'IFS({0},"arr0")', 'IFS({0,0},"arr00")', 'IFS(A1:A2,"rng")', 'IFS(A7,"err cell")',
    'IFS(A2,"a2",A6,"a6",A8,"a8",A3,"a3",A9,"a9")', 'IFS(A2,"a2",A6,"a6",A8,"a8",A3,"a3")',
    'IFS(A2,"a2",A10,"a10",A1,"a1")', 'IFS(A1>2,"big",A1>0,"pos",TRUE,"neg")', 'IFS(-1,"neg")',
    'IFS(0.0,"fzero",0.1,"small")', 'IFS(blank,"b",empty,"e",zero,"z",one,"o")', 'IFS(errnum,1,TRUE,2)',
    'IFS(zero,1,errna,2,TRUE,3)', 'IFS(lst,"list")', 'IFS(IFS(FALSE,1,TRUE,0),"inner","x")',
    'IFS(FALSE;1;TRUE;2)', 'IFS(0,1,0,2,0,3,0,4,0,5,0,6,0,7,1,8)', 'IFS(0,1,0,2,0,3,0,4,0,5,0,6,0,7,0,8)',
    'IF(AND(TRUE,1),"y","n")', 'IF(OR(0,FALSE),"y","n")', 'IF(XOR(1,1,1),"y","n")', 'IF(AND(1/0),"y","n")',
    'NOT(AND(1,0))', 'NOT(OR(A1:A3))', 'NOT(XOR(NA()))', 'ISERROR(AND(1/0))', 'ISNA(IFS(FALSE,1))',
    'ISNA(SWITCH(1,2,3))', 'IFERROR(OR(1/0),"caught")', 'IFNA(SWITCH(9,1,2),"no match")',
    'AND(TRUE,TRUE)+1', 'XOR(1)&"x"', 'OR(0)=FALSE', 'and(TRUE)', 'Xor(1,0)', 'switch(1,1,2)', 'ifs(1,2)',
]


def part_formulas():
    parser, events = make_parser()
    for formula in FORMULAS:
        run_formula(parser, events, formula)
    # a second, independent parser sees the same thing (no state shared between parsers or calls)
    parser2, events2 = make_parser()
    for formula in ('XOR(1,1,1)', 'AND(1/0,NA())', 'SWITCH(2,1,"one","other")', 'IFS(FALSE,1)', 'XOR(1,1,1)'):
        run_formula(parser2, events2, formula)
        run_formula(parser, events, formula)


# ---------------------------------------------------------------------------
# part 2: direct calls with python values the grammar cannot produce
# ---------------------------------------------------------------------------

class Loud(object):
    """ logs every truth test / comparison, so that order and number of them show up """

    def __init__(self, name, truth=True, equal_to=(), log=None, bad_bool=False):
        self.name = name
        self.truth = truth
        self.equal_to = equal_to
        self.log = log
        self.bad_bool = bad_bool

    def __bool__(self):
        self.log.append('bool(%s)' % self.name)
        if self.bad_bool:
            raise ValueError('no truth value for %s' % self.name)
        return self.truth

    __nonzero__ = __bool__

    def __eq__(self, other):
        self.log.append('%s==%s' % (self.name, show(other)))
        return getattr(other, 'name', other) in self.equal_to

    def __ne__(self, other):
        self.log.append('%s!=%s' % (self.name, show(other)))
        return not (getattr(other, 'name', other) in self.equal_to)

    __hash__ = None

    def __repr__(self):
        return 'Loud(%s)' % self.name


class MyError(error.XLError):
    def __repr__(self):
        return 'MyError(%s)' % ', '.join(repr(a) for a in self.args)


def call(fn, *args, **kw):
    log = kw.get('log')
    try:
        outcome = show(fn(*args))
    except BaseException as e:  # noqa
        outcome = 'raised %s(%s)' % (type(e).__name__, e)
    what = '%s%s' % (fn.__name__, show(args))
    if log is not None:
        outcome += ' | log ' + ' '.join(log)
    line('call', what, outcome)


def part_direct():
    nan = float('nan')
    inf = float('inf')
    values = [True, False, 0, 1, -1, 2, 0.0, -0.0, 1e-300, nan, inf, -inf, 0j, 1j, None, '', ' ', 'a', '0', 'FALSE',
              error.NULL, error.DIV_ZERO, error.VALUE, error.REF, error.NAME, error.NUM, error.NOT_AVAILABLE,
              error.DATA, error.ERROR, MyError('#MINE'), [], (), [[]], [[], []], [0], [1], [None], [''],
              [error.NUM], [[error.NUM]], [1, [2, [3, [error.NAME]]]], [0, (0, [0.0, ''])], (1, 0), {},
              {'a': 1}, set(), frozenset([1]), b'', b'x', bytearray(b''), range(0), range(3),
              datetime.datetime(2020, 1, 2), datetime.timedelta(0), decimal.Decimal('0'), decimal.Decimal('1.5'),
              fractions.Fraction(0, 1), fractions.Fraction(1, 3), 10 ** 30, -(10 ** 30)]
    for fn in (logic.AND, logic.OR, logic.XOR):
        call(fn)
        for v in values:
            call(fn, v)
        for a, b in itertools.product([True, False, 0, 3, None, 'a', '', error.NUM, error.NOT_AVAILABLE, [1, 0], [[]]],
                                      repeat=2):
            call(fn, a, b)
        for n in range(0, 9):
            call(fn, *([True] * n))
            call(fn, [True] * n)
            call(fn, *([1, 0] * n))
            call(fn, [[1] * n, [[0] * n]], 'a')
        call(fn, error.NUM, error.VALUE)
        call(fn, error.VALUE, error.NUM)
        call(fn, [0, [error.REF]], error.NUM)
        call(fn, 0, [1, (error.NAME, error.NULL)], error.NUM)
        call(fn, MyError('#A'), error.NUM)
        call(fn, 1, MyError('#B'))
        # truth tests: which, in what order, how many
        for truths in itertools.product([True, False], repeat=3):
            log = []
            objs = [Loud('L%d%s' % (i, 'T' if t else 'F'), truth=t, log=log) for i, t in enumerate(truths)]
            call(fn, *objs, log=log)
            del log[:]
            call(fn, objs[0], [objs[1], [objs[2]]], log=log)
        log = []
        call(fn, Loud('p', True, log=log), error.NUM, Loud('q', False, log=log), log=log)
        log = []
        call(fn, Loud('p', True, log=log), Loud('bad', bad_bool=True, log=log), Loud('q', True, log=log), log=log)
        log = []
        call(fn, Loud('p', False, log=log), Loud('bad', bad_bool=True, log=log), Loud('q', False, log=log), log=log)
        log = []
        call(fn, Loud('bad', bad_bool=True, log=log), error.DIV_ZERO, log=log)

    # SWITCH
    call(logic.SWITCH)
    for n in range(0, 8):
        call(logic.SWITCH, 99, *range(n))
        call(logic.SWITCH, 4, *range(n))
        call(logic.SWITCH, 0, *range(n))
        call(logic.SWITCH, n, *range(n))
        call(logic.SWITCH, n - 1, *range(n))
        call(logic.SWITCH, n - 2, *range(n))
    for target in values:
        call(logic.SWITCH, target, 0, 'zero', '', 'empty', None, 'none', False, 'false', 'dflt')
        call(logic.SWITCH, target, target, 'itself')
        call(logic.SWITCH, target, 'nope', 'x', target)
    call(logic.SWITCH, 1, 2, 3, utils.DEFAULT)
    call(logic.SWITCH, 1, 2, 3, 4, 5, utils.DEFAULT)
    call(logic.SWITCH, 1, 1, utils.DEFAULT)
    call(logic.SWITCH, 1, 1, utils.DEFAULT, 7)
    call(logic.SWITCH, utils.DEFAULT, utils.DEFAULT, 'sentinel')
    call(logic.SWITCH, utils.DEFAULT, 1, 2, utils.DEFAULT)
    call(logic.SWITCH, nan, nan, 'nan', 'dflt')
    call(logic.SWITCH, 1, True, 'bool')
    call(logic.SWITCH, True, 1, 'int')
    call(logic.SWITCH, 1, 1.0, 'float', 1, 'int')
    call(logic.SWITCH, 1, 1 + 0j, 'complex')
    call(logic.SWITCH, 'a', 'A', 'upper')
    call(logic.SWITCH, [1, 2], [1, 2], 'list', 'dflt')
    call(logic.SWITCH, [1, 2], (1, 2), 'tuple', 'dflt')
    call(logic.SWITCH, error.NUM, error.VALUE, 'value', error.NUM, 'num', 'dflt')
    call(logic.SWITCH, error.NUM, 1, 2)
    call(logic.SWITCH, 1, 2, 3, error.NUM)
    call(logic.SWITCH, None, None, 'none')
    call(logic.SWITCH, None, 0, 'zero', 'dflt')
    for matching in ([], ['c0'], ['c1'], ['c2'], ['c0', 'c2'], ['c1', 'c2'], ['d']):
        for with_default in (False, True):
            log = []
            target = Loud('t', equal_to=matching, log=log)
            args = [Loud('c0', log=log), 'r0', Loud('c1', log=log), 'r1', Loud('c2', log=log), 'r2']
            if with_default:
                args.append(Loud('d', log=log))
            call(logic.SWITCH, target, *args, log=log)
            del log[:]
            # plain target, loud cases: the comparison is driven by the target first
            call(logic.SWITCH, 'c1', *args, log=log)
    log = []
    call(logic.SWITCH, Loud('t', log=log), log=log)
    log = []
    call(logic.SWITCH, Loud('t', equal_to=['x'], log=log), Loud('x', log=log), log=log)

    # IFS
    call(logic.IFS)
    for n in range(0, 9):
        call(logic.IFS, *([False] * n))
        call(logic.IFS, *([True] * n))
        call(logic.IFS, *range(n))
        call(logic.IFS, *range(n, 0, -1))
        call(logic.IFS, *([0, 'skipped'] * n + [1]))
        call(logic.IFS, *([0, 'skipped'] * n + [1, 'hit']))
        call(logic.IFS, *([None, 'skipped'] * n + [error.NUM, 'err']))
    for v in values:
        call(logic.IFS, v, 'taken', True, 'fallback')
        call(logic.IFS, False, 'no', v, 'second')
        call(logic.IFS, True, v)
    call(logic.IFS, error.NUM)
    call(logic.IFS, False, 1, error.NUM)
    call(logic.IFS, True, 1, error.NUM, 2)
    call(logic.IFS, MyError('#C'), 1)
    call(logic.IFS, [error.NUM], 'list with error is just a non-empty list')
    call(logic.IFS, [], 'empty list', [0], 'list of zero')
    for truths in itertools.product([True, False], repeat=3):
        log = []
        args = []
        for i, t in enumerate(truths):
            args += [Loud('c%d%s' % (i, 'T' if t else 'F'), truth=t, log=log), Loud('v%d' % i, log=log)]
        call(logic.IFS, *args, log=log)
        del log[:]
        call(logic.IFS, *(args + [Loud('odd', log=log)]), log=log)
    log = []
    call(logic.IFS, Loud('c0', False, log=log), 1, Loud('bad', bad_bool=True, log=log), 2, Loud('c2', True, log=log), 3,
         log=log)
    log = []
    call(logic.IFS, Loud('c0', False, log=log), 1, error.REF, 2, Loud('c2', True, log=log), 3, log=log)

    # the untouched neighbours, for completeness
    for v in values:
        call(logic.NOT, v)
        call(logic.IF, v, 'then', 'else')


if __name__ == '__main__':
    part_formulas()
    part_direct()
    print('evaluations: %d' % COUNT[0])
