# -*- coding: utf-8 -*-
"""
Probe for C14 refactoring 1 (date component extractors share a helper; DATEDIF split into
guard clauses, one helper per unit and a constant dispatch table).

Prints a deterministic transcript: one line per evaluation.
"""
import os
import sys
import datetime

sys.path.insert(0, os.path.dirname(os.path.dirname(os.path.abspath(__file__))))

import hotxlfp  # noqa: E402
from hotxlfp.formulas import dateandtime as dt  # noqa: E402
from hotxlfp.formulas import error  # noqa: E402
from hotxlfp.formulas import utils  # noqa: E402

COUNT = [0]


def out(line):
    COUNT[0] += 1
    sys.stdout.write('%04d %s\n' % (COUNT[0], line))


def show(value):
    if isinstance(value, BaseException):
        return '%s(%s)' % (type(value).__name__, ', '.join(repr(a) for a in value.args))
    if isinstance(value, (list, tuple)):
        inner = ', '.join(show(v) for v in value)
        return ('[%s]' if isinstance(value, list) else '(%s)') % inner
    return repr(value)


PARSER = hotxlfp.Parser()
EVENTS = []


def on_call(name, args, setter):
    EVENTS.append('%s%s' % (name, show(list(args))))


PARSER.on('callFunction', on_call)
CELLS = {
    'A1': datetime.datetime(2020, 2, 29, 13, 14, 15),
    'A2': 43890,
    'A3': '2021-03-04T05:06:07',
    'A4': None,
    'A5': True,
    'A6': 'not a date',
    'A7': error.NOT_AVAILABLE,
    'A8': 36526.75,
    'A9': 'YM',
}


def on_cell(cell, setter):
    setter(CELLS.get(cell.label))


PARSER.on('callCellValue', on_cell)


def ev(formula):
    del EVENTS[:]
    ret = PARSER.parse(formula)
    out('F %s => result=%s error=%s events=%s' % (formula, show(ret['result']), show(ret['error']), ' | '.join(EVENTS)))


def call(fn, *args):
    try:
        ret = fn(*args)
    except BaseException as e:  # noqa
        ret_s = 'RAISED ' + show(e)
    else:
        ret_s = show(ret)
    error.clear_tracebacks()
    out('C %s(%s) => %s' % (fn.__name__, ', '.join(show(a) for a in args), ret_s))


class Aware(datetime.tzinfo):
    def utcoffset(self, d):
        return datetime.timedelta(hours=2)

    def dst(self, d):
        return datetime.timedelta(0)

    def tzname(self, d):
        return 'X'

    def __repr__(self):
        return 'Aware()'


D = datetime.datetime
PARTS = ('YEAR', 'MONTH', 'DAY', 'HOUR', 'MINUTE', 'SECOND')
PART_FNS = (dt.YEAR, dt.MONTH, dt.DAY, dt.HOUR, dt.MINUTE, dt.SECOND)

# ---------------------------------------------------------------- component extractors, through the parser
PART_ARGS = [
    'DATE(2020,2,29)', 'DATE(1900,1,1)', 'DATE(9999,12,31)', 'DATE(0,1,1)', 'DATE(1899,12,31)', 'DATE(95,10,12)',
    'DATE(2021,13,1)', 'DATE(2021,2,30)', 'DATE("2021","3","4")', 'DATE(2021.5,3,4)', 'DATE(TRUE,1,1)',
    'DATE(,1,1)', 'DATE("x",1,1)', 'DATE(#N/A,1,1)', 'DATE(-5,6,7)', 'DATE(10000,1,1)',
    'TIME(1,2,3)', 'TIME(23,59,59)', 'TIME(0,0,0)', 'TIME(24,0,0)', 'TIME("1",2,3)', 'TIME(1,"2",3)', 'TIME(1,2,"x")',
    'TIME(,2,3)', 'TIME(1.5,2,3)', 'TIME(TRUE,2,3)', 'TIME(#NUM!,2,3)', 'TIME(1,60,3)',
    '"2020-10-12 10:04:11"', '"2020-10-12T10:04:11"', '"1999-12-31T23:59:59"', '"2020-10-12"', '"10:04:11"',
    '"2020-10-12T10:04:11Z"', '"2020-10-12T10:04:11+02:00"', '"8/22/2011"', '"22-MAY-2011"', '"2011/02/23"',
    '"abc"', '""', '"41193"', '"41193.5"', '"1e3"', '"-3"',
    '0', '0.5', '1', '2', '59', '60', '61', '60.5', '366', '367', '41193', '41193.75', '2958465', '2958466', '-1', '-0.5',
    '1e10', '36526.999999', 'TRUE', 'FALSE', '1/0', '#VALUE!', '#N/A', '#REF!', '{41193}', '{41193,2}', '{1;2;3}',
    'A1', 'A2', 'A3', 'A4', 'A5', 'A6', 'A7', 'A8', 'NULL', '"  2020-01-02  "', '2*20000', '-(-41193)', '"2020-02-30"',
]
for arg in PART_ARGS:
    for part in PARTS:
        ev('%s(%s)' % (part, arg))

for part in PARTS:
    ev('%s()' % part)
    ev('%s(,)' % part)
    ev('%s(1,2)' % part)
    ev('%s(%s(DATE(2020,5,6)))' % (part, part))
    ev('%s(DATE(2001,2,3))+%s(TIME(4,5,6))' % (part, part))

# ---------------------------------------------------------------- component extractors, called directly
DIRECT_PART_ARGS = [
    D(2020, 2, 29, 13, 14, 15), D(1900, 1, 1), D(9999, 12, 31, 23, 59, 59, 999999), D(1, 1, 1), D(1899, 12, 31),
    D(2020, 1, 1, tzinfo=Aware()), datetime.date(2020, 1, 2), datetime.time(1, 2, 3),
    0, 1, 60, 61, 0.25, 41193, 41193.5, -1, True, False, None, '', 'x', '2020-10-12 10:04:11', '2020-10-12T10:04:11Z',
    '41193', [41193], (41193,), {}, 1 + 2j, float('nan'), float('inf'), -float('inf'), 1e300, 10 ** 30,
    error.NUM, error.VALUE, error.NOT_AVAILABLE, error.DIV_ZERO, error.XLError('#custom'), b'2020-01-01',
]
for arg in DIRECT_PART_ARGS:
    for fn in PART_FNS:
        call(fn, arg)
for fn in PART_FNS:
    call(fn)
    call(fn, 1, 2)

# ---------------------------------------------------------------- DATEDIF / DAYS through the parser
UNITS = ['"d"', '"m"', '"y"', '"ym"', '"md"', '"yd"', '"D"', '"M"', '"Y"', '"YM"', '"Md"', '"yD"', '"x"', '""', '" d"',
         '"dd"', '1', 'TRUE', '#N/A', '{"d"}', 'A9', 'A4', 'A7']
PAIRS = [
    ('DATE(2019,10,6)', 'DATE(2020,10,5)'),
    ('DATE(2019,10,6)', 'DATE(2020,10,6)'),
    ('DATE(2019,10,6)', 'DATE(2020,10,7)'),
    ('DATE(2020,1,31)', 'DATE(2020,3,1)'),
    ('DATE(2019,1,31)', 'DATE(2019,3,1)'),
    ('DATE(2019,12,31)', 'DATE(2020,1,1)'),
    ('DATE(2020,2,29)', 'DATE(2021,2,28)'),
    ('DATE(2020,2,29)', 'DATE(2024,2,29)'),
    ('DATE(2019,3,31)', 'DATE(2019,5,1)'),
    ('DATE(1900,1,1)', 'DATE(9999,12,31)'),
    ('DATE(2020,5,5)', 'DATE(2020,5,5)'),
    ('DATE(2020,10,5)', 'DATE(2019,10,6)'),
    ('DATE(1900,1,1)', 'DATE(1900,1,2)'),
    ('DATE(1900,2,28)', 'DATE(1900,3,1)'),
]
for start, end in PAIRS:
    for unit in UNITS:
        ev('DATEDIF(%s,%s,%s)' % (start, end, unit))
    ev('DAYS(%s,%s)' % (end, start))
    ev('DAYS(%s,%s)' % (start, end))

MIXED = [
    ('43000', '43890'), ('"2019-10-06"', '"2020-10-05T12:00:00"'), ('A2', 'A1'), ('A3', 'A1'), ('A1', 'A3'), ('A4', 'A1'),
    ('A5', 'A2'), ('A6', 'A1'), ('A1', 'A6'), ('A7', 'A1'), ('A1', 'A7'), ('0', '1'), ('0', '0.5'), ('59', '61'),
    ('60', '61'), ('-1', '5'), ('5', '-1'), ('"a"', '"b"'), ('#REF!', '#NUM!'), ('{1,2}', '5'), ('TRUE', 'FALSE'),
    ('1.25', '1.75'), ('"2020-01-01T00:00:00Z"', '"2020-06-01"'), ('"2020-01-01T00:00:00Z"', '"2020-06-01T00:00:00Z"'),
    ('"2020-06-01T00:00:00Z"', '"2020-06-01T00:00:00Z"'), ('TIME(1,2,3)', 'TIME(4,5,6)'), ('TIME(1,2,3)', 'DATE(1900,1,1)'),
    ('A8', '36527'), ('36526', 'A8'),
]
for start, end in MIXED:
    for unit in ('"d"', '"m"', '"y"', '"ym"', '"md"', '"yd"', '"q"', '7'):
        ev('DATEDIF(%s,%s,%s)' % (start, end, unit))
    ev('DAYS(%s,%s)' % (end, start))

ev('DATEDIF()')
ev('DATEDIF(1)')
ev('DATEDIF(1,2)')
ev('DATEDIF(1,2,"d",4)')
ev('DATEDIF(,,)')
ev('DATEDIF(,5,"d")')
ev('DATEDIF(1,,"d")')
ev('DATEDIF(1,5,)')
ev('DAYS()')
ev('DAYS(1)')
ev('DAYS(,)')
ev('DAYS(1,2,3)')
ev('DATEDIF(DATE(2019,10,6);DATE(2020,10,5);"y")')
ev('DATEDIF(DATE(2019,10,6), DATE(2020,10,5), "y") + DATEDIF(DATE(2019,10,6), DATE(2020,10,5), "ym")')
ev('SUM(DATEDIF(1,400,"d"),DATEDIF(1,400,"m"),DATEDIF(1,400,"y"))')

# ---------------------------------------------------------------- DATEDIF called directly


class StrSub(str):
    pass


DIRECT_UNITS = ['d', 'm', 'y', 'ym', 'md', 'yd', 'YD', 'Ym', u'İ', '', 'z', StrSub('d'), b'd', None, 1, 1.5, True,
                ['d'], ('d',), error.NUM, {}]
DIRECT_PAIRS = [
    (D(2019, 10, 6), D(2020, 10, 5)),
    (D(2019, 10, 6, 12), D(2020, 10, 6, 11)),
    (D(2020, 2, 29), D(2021, 3, 1)),
    (D(2020, 1, 15), D(2021, 1, 10)),
    (D(2020, 3, 31), D(2021, 3, 30)),
    (D(2020, 3, 31), D(2020, 3, 31)),
    (D(2021, 1, 1), D(2020, 1, 1)),
    (D(2020, 1, 1, tzinfo=Aware()), D(2020, 6, 1)),
    (D(2020, 1, 1, tzinfo=Aware()), D(2020, 6, 1, tzinfo=Aware())),
    (D(2020, 1, 1, tzinfo=Aware()), D(2020, 1, 1, tzinfo=Aware())),
    (1, 2), (2, 1), (59, 61), (0, 0), (None, 5), (5, None), ('x', 5), (5, 'x'), (error.NOT_AVAILABLE, 5), (-1, 5),
    ([1], 5), (True, 400), (1.5, 800.25), ('2019-10-06', '2020-10-05'), (1 + 2j, 5), (float('nan'), 5), (5, float('inf')),
    (D(1, 1, 1), D(9999, 12, 31)), (D(2019, 12, 31), D(2020, 1, 30)), (D(2019, 1, 31), D(2020, 3, 1)),
]
for start, end in DIRECT_PAIRS:
    for unit in DIRECT_UNITS:
        call(dt.DATEDIF, start, end, unit)
    call(dt.DAYS, end, start)
call(dt.DATEDIF)
call(dt.DATEDIF, 1, 2)
call(dt.DATEDIF, 1, 2, 'd', 4)
call(dt.DAYS)
call(dt.DAYS, 1)

# exhaustive-ish sweep of the four property units against an independent walk over the calendar
SWEEP_STARTS = [D(2019, 1, 31), D(2019, 12, 15), D(2020, 2, 29), D(1999, 6, 30), D(1900, 1, 1), D(2023, 7, 1)]
SWEEP_STEPS = [1, 27, 28, 29, 30, 31, 59, 60, 61, 364, 365, 366, 367, 730, 1461, 36524, 146097]
for start in SWEEP_STARTS:
    for step in SWEEP_STEPS:
        end = start + datetime.timedelta(days=step)
        for unit in ('d', 'm', 'y', 'ym', 'md', 'yd'):
            call(dt.DATEDIF, start, end, unit)

# registry still names the same callables
for name in ('DATE', 'TIME', 'YEAR', 'MONTH', 'DAY', 'HOUR', 'MINUTE', 'SECOND', 'DAYS', 'DATEDIF', 'EDATE', 'WEEKDAY'):
    fn = hotxlfp.formulas.get_for(name)
    out('R %s -> %s.%s is_module_attr=%r' % (name, fn.__module__, fn.__name__, getattr(dt, name) is fn))
out('R supported=%d' % len(hotxlfp.formulas.supported()))

# a second parser sees nothing of the first one
P2 = hotxlfp.Parser()
for f in ('YEAR(DATE(2020,2,29))', 'DATEDIF(1,400,"M")', 'DATEDIF(400,1,"M")', 'MONTH("x")', 'SECOND(TIME(1,2,3))'):
    ret = P2.parse(f)
    out('P2 %s => result=%s error=%s' % (f, show(ret['result']), show(ret['error'])))
