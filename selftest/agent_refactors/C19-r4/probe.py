# -*- coding: utf-8 -*-
"""Probe for C19 refactoring 4 (row label conversion, label decomposition / recomposition).

Prints a deterministic transcript: one line per evaluation with the input and
repr() of the outcome (or the exception type and message).
"""
from __future__ import print_function
import os
import sys
import random
from collections import namedtuple
from decimal import Decimal
from fractions import Fraction

sys.path.insert(0, os.path.dirname(os.path.dirname(os.path.abspath(__file__))))

import hotxlfp  # noqa: E402
from hotxlfp.helper import cell as cellmod  # noqa: E402

COUNT = [0]


def show(kind, arg, fn):
    COUNT[0] += 1
    try:
        outcome = repr(fn())
    except Exception as e:  # the exception type and text are part of the behaviour
        outcome = 'raised %s: %s' % (type(e).__name__, e)
    print('%04d %s %s -> %s' % (COUNT[0], kind, arg, outcome))


class Idx(int):
    """plain int subclass"""


class StubbornInt(int):
    """an integer that refuses to be converted: int() raises ValueError"""

    def __int__(self):
        raise ValueError('no conversion')

    def __repr__(self):
        return 'StubbornInt(%d)' % int.__int__(self)


class Txt(str):
    """plain str subclass"""


class Part(object):
    """duck-typed stand-in for a ParsedLabel"""

    def __init__(self, index, is_absolute):
        self.index = index
        self.is_absolute = is_absolute

    def __repr__(self):
        return 'Part(%r, %r)' % (self.index, self.is_absolute)


class Truthy(object):
    def __init__(self, value):
        self.value = value

    def __bool__(self):
        return self.value
    __nonzero__ = __bool__

    def __repr__(self):
        return 'Truthy(%r)' % self.value


rng = random.Random(4190)
LETTERS = 'ABCDEFGHIJKLMNOPQRSTUVWXYZ'
PL = cellmod.ParsedLabel

# ---------------------------------------------------------------- row_label_to_index
row_labels = ['1', '2', '9', '10', '99', '100', '1048576', '1048577', '0', '00', '01', '007', '-1', '-0', '+5',
              ' 7', '7 ', ' 7 ', '\t8\n', '1_000', '1__0', '_1', '1e3', '1.0', '1.5', '0x10', '', ' ', 'A', 'A1',
              '1A', '$1', 'one', u'١٢', u'１２', u'²', '9' * 40, '-' + '9' * 40, 'nan', 'inf', 'None', 'True',
              Txt('12'), Txt('x'), b'12', b'x', bytearray(b'3'),
              1, 2, 0, -1, -7, 10 ** 20, -10 ** 20, True, False, Idx(5), Idx(0), Idx(-3),
              StubbornInt(5), StubbornInt(1), StubbornInt(0), StubbornInt(-4),
              1.0, 1.5, 2.999, 0.0, -0.0, -0.5, -1.5, 1e20, float('nan'), float('inf'), float('-inf'),
              Decimal('3'), Decimal('3.7'), Decimal('-2'), Decimal('NaN'), Decimal('Infinity'),
              Fraction(7, 2), Fraction(-7, 2), None, [], [1], (1,), {}, 3 + 4j, object]
for lab in row_labels:
    show('row_label_to_index', repr(lab), lambda lab=lab: cellmod.row_label_to_index(lab))
for _ in range(40):
    lab = str(rng.randint(0, 10 ** rng.randint(1, 9)))
    if rng.random() < 0.3:
        lab = '0' * rng.randint(1, 3) + lab
    show('row_label_to_index', repr(lab), lambda lab=lab: cellmod.row_label_to_index(lab))

# ---------------------------------------------------------------- row_index_to_label
row_indices = list(range(-3, 30)) + [98, 99, 100, 999, 1048575, 1048576, 10 ** 20, -10 ** 20,
                                     True, False, Idx(4), Idx(-4), StubbornInt(4), StubbornInt(-4),
                                     0.0, -0.0, 0.5, 1.5, -0.5, -1.0, 1e20, float('nan'), float('inf'), float('-inf'),
                                     Decimal('2'), Decimal('2.5'), Decimal('-1'), Decimal('NaN'),
                                     Fraction(5, 2), Fraction(-1, 2),
                                     None, '1', '', 'A', b'1', [], [1], (1,), {}, 3 + 4j, object]
for idx in row_indices:
    show('row_index_to_label', repr(idx), lambda idx=idx: cellmod.row_index_to_label(idx))
for idx in list(range(0, 25)) + [rng.randint(0, 10 ** 8) for _ in range(25)]:
    show('row index->label->index', repr(idx),
         lambda idx=idx: cellmod.row_label_to_index(cellmod.row_index_to_label(idx)))
for lab in ['1', '5', '10', '007', '0', '00', '1048576'] + [str(rng.randint(1, 10 ** 7)) for _ in range(20)]:
    show('row label->index->label', repr(lab),
         lambda lab=lab: cellmod.row_index_to_label(cellmod.row_label_to_index(lab)))

# ---------------------------------------------------------------- extract_label
cell_labels = ['A1', 'a1', '$A1', 'A$1', '$A$1', '$a$1', 'Z9', 'AA10', '$aa$10', 'aA$10', 'XFD1048576', 'xfd1048576',
               'ZZZ999', 'A0', '$A$0', 'A00', 'A01', 'A007', '$b$007', 'AbC12', 'IV65536', 'iv$65536',
               'A1\n', 'A1\r', ' A1', 'A1 ', '\nA1', 'A', 'AB', '1', '12', '', ' ', '$', '$$', '$A', 'A$', '$1',
               '$$A1', 'A$$1', 'A1$', '$A$1$', '$A$$1', '1A', '1$A', 'A-1', 'A+1', 'A1.0', 'A1e3', 'A1:B2', 'A1,B2',
               'A_1', 'A 1', 'A\t1', u'É1', u'é1', u'A١', u'Ａ1', u'A１', u'ß1', u'ı1', 'R1C1', 'R[1]C[1]', 'Sheet1!A1',
               "'A1'", '"A1"', 'A1A', 'A1a1', 'A' * 30 + '1', 'B' + '9' * 30, '$' + 'C' * 12 + '$' + '0' * 12 + '5',
               Txt('C3'), Txt('$c$3'), Txt('nope')]
for lab in cell_labels:
    show('extract_label', repr(lab), lambda lab=lab: cellmod.extract_label(lab))
for lab in [None, 12, 1.5, True, b'A1', bytearray(b'A1'), memoryview(b'A1'), ['A1'], ('A', 1), {'A': 1},
            object, 3 + 4j, PL(0, 'A', False)]:
    show('extract_label', repr(lab) if not isinstance(lab, memoryview) else 'memoryview(b"A1")',
         lambda lab=lab: cellmod.extract_label(lab))
for lab in cell_labels[:30]:
    def detail(lab=lab):
        parts = cellmod.extract_label(lab)
        return [(type(x).__name__, x._fields, tuple(x), type(x.index).__name__, type(x.is_absolute).__name__)
                for x in parts]
    show('extract_label detail', repr(lab), detail)

# ---------------------------------------------------------------- decompose then recompose
for lab in cell_labels:
    def recompose(lab=lab):
        parts = cellmod.extract_label(lab)
        if not parts:
            return None
        row, col = parts
        return cellmod.to_label(row, col)
    show('extract->to_label', repr(lab), recompose)
for _ in range(80):
    lab = ''.join(rng.choice(LETTERS + LETTERS.lower()) for _ in range(rng.randint(1, 4)))
    lab = rng.choice(['', '$']) + lab + rng.choice(['', '$']) + str(rng.randint(1, 10 ** rng.randint(1, 7)))

    def recompose(lab=lab):
        row, col = cellmod.extract_label(lab)
        again = cellmod.extract_label(cellmod.to_label(row, col))
        return (row, col, cellmod.to_label(row, col), again)
    show('extract->to_label->extract', repr(lab), recompose)
for _ in range(30):
    lab = ''.join(rng.choice('AZaz09$ 1_.:' + u'é') for _ in range(rng.randint(0, 6)))
    show('extract_label', repr(lab), lambda lab=lab: cellmod.extract_label(lab))

# ---------------------------------------------------------------- to_label
Other = namedtuple('Other', ['index', 'label', 'is_absolute', 'extra'])
pairs = [(PL(0, '1', False), PL(0, 'A', False)), (PL(9, '10', True), PL(27, 'AB', True)),
         (PL(9, '10', True), PL(27, 'AB', False)), (PL(9, '10', False), PL(27, 'AB', True)),
         (PL(-1, '0', False), PL(-1, '', False)), (PL(-1, '0', True), PL(-1, '', True)),
         (PL(-5, '', True), PL(3, 'D', False)), (PL(3, '4', False), PL(-5, '', True)),
         (PL(5, 'x', 1), PL(2.7, 'y', 0)), (PL(5, 'x', 0), PL(2, 'y', 1)),
         (PL(3, '4', ''), PL(16383, 'XFD', '$')), (PL(3, '4', '$'), PL(16383, 'XFD', '')),
         (PL(3, '4', []), PL(4, 'E', [0])), (PL(3, '4', None), PL(4, 'E', 'no')),
         (PL(3, '4', Truthy(True)), PL(4, 'E', Truthy(False))), (PL(3, '4', Truthy(False)), PL(4, 'E', Truthy(True))),
         (PL(3, '4', float('nan')), PL(4, 'E', 0.0)),
         (PL(0, '1', None), PL(None, 'A', None)), (PL(None, '1', False), PL(0, 'A', False)),
         (PL(None, '1', True), PL(None, 'A', True)), (PL('3', '4', False), PL(0, 'A', False)),
         (PL(0, '1', False), PL('3', 'A', False)), (PL(2, '3', True), PL(float('nan'), 'A', True)),
         (PL(float('nan'), '3', True), PL(2, 'A', True)), (PL(2, '3', True), PL(float('inf'), 'A', True)),
         (PL(float('inf'), '3', True), PL(2, 'A', True)), (PL(1.5, '2', False), PL(True, 'B', False)),
         (PL(True, '2', True), PL(False, 'A', True)), (PL(Idx(6), '7', False), PL(Idx(26), 'AA', False)),
         (PL(10 ** 20, 'big', False), PL(10 ** 20, 'big', True)),
         (Part(1, True), Part(1, False)), (Part(1, False), Part(701, True)), (Part(-1, True), Part(702, True)),
         (Other(2, 'x', True, 'e'), Other(2, 'y', False, 'e')),
         (Part(Decimal('4'), True), Part(Decimal('30'), True)), (Part(Fraction(9, 2), False), Part(Fraction(55, 2), False)),
         ((0, '1', False), PL(0, 'A', False)), (PL(0, '1', False), (0, 'A', False)),
         (None, PL(0, 'A', False)), (PL(0, '1', False), None), ('A', '1'), (1, 1), ({}, {})]
for r, c in pairs:
    show('to_label', repr((r, c)), lambda r=r, c=c: cellmod.to_label(r, c))
for r in range(-1, 4):
    for c in (-1, 0, 25, 26, 701, 702):
        for ra in (False, True):
            for ca in (False, True):
                show('to_label', repr((r, ra, c, ca)),
                     lambda r=r, c=c, ra=ra, ca=ca: cellmod.to_label(PL(r, None, ra), PL(c, None, ca)))
show('to_label argcount', '()', lambda: cellmod.to_label())
show('to_label argcount', '(1)', lambda: cellmod.to_label(PL(0, '1', False)))
show('to_label kwargs', 'row=,column=', lambda: cellmod.to_label(column=PL(2, 'C', True), row=PL(4, '5', False)))
show('extract_label argcount', '()', lambda: cellmod.extract_label())
show('extract_label kwargs', 'label=', lambda: cellmod.extract_label(label='$d$4'))
show('row_label_to_index kwargs', 'label=', lambda: cellmod.row_label_to_index(label='4'))
show('row_index_to_label kwargs', 'row=', lambda: cellmod.row_index_to_label(row=3))

# ---------------------------------------------------------------- through the parser, with events


def make_parser():
    p = hotxlfp.Parser()
    events = []

    def value_at(r, c):
        return (r + 1) * 100 + (c + 1)

    def on_cell(cell, done):
        events.append(('cell', cell.label, tuple(cell.row), tuple(cell.col), repr(cell)))
        if cell.row.index >= 0 and cell.row.index % 5 != 4:
            done(value_at(cell.row.index, cell.col.index))

    def on_range(start, end, done):
        events.append(('range', start.label, tuple(start.row), tuple(start.col),
                       end.label, tuple(end.row), tuple(end.col), repr(start), repr(end)))
        rows = range(max(start.row.index, 0), min(end.row.index, start.row.index + 5) + 1)
        cols = range(max(start.col.index, 0), min(end.col.index, start.col.index + 5) + 1)
        done([[value_at(r, c) for c in cols] for r in rows])

    p.on('callCellValue', on_cell)
    p.on('callRangeValue', on_range)
    return p, events


formulas = ['A1', 'a1', '$A$1', '$a1', 'a$1', 'B5', 'b10', 'Z1', 'AA1', 'AZ12', 'ZZ3', 'AAA3', 'XFD1048576',
            'A0', '$A$0', 'B00', 'C007', '$C$007', 'A1+B2', 'A1*$B$2-c3', 'SUM(A1:B3)', 'SUM(B3:A1)',
            'SUM($A$1:$B$3)', 'SUM($B3:A$1)', 'SUM(B$3:$A1)', 'A1:C2', 'C2:A1', 'A2:C1', 'C1:A2', '$A2:C$1',
            'C$1:$A2', '$C$1:A2', 'a1:a1', '$a$1:a1', 'AA10:AB11', 'ab11:aa10', 'A0:B1', 'B1:A0', 'A0:A0',
            '$A$0:$B$0', 'A007:B009', 'B009:A007', 'A1:XFD2', 'SUM(A1:A100)', 'MAX(Y1:AB3)', 'COUNT(A1:Z1)',
            'AVERAGE($C$3:$A$1)', 'IF(A1>B1,AA1,ZZ1)', 'ISBLANK(A5)', 'ISBLANK(A6)', 'CONCATENATE(A1,"-",b1)',
            'A1&B1', '-A1', 'A1%', '(AZ9)', 'SUM(A1,B1:C2,$D$4)', 'INDEX(A1:C3,2,2)', 'ROWS(A1:C9)',
            'COLUMNS(A1:C9)', 'A', '1', 'A1B', 'A1:', ':A1', 'A1:B', '$A', 'A$', '$$A1', 'A$1$', 'abc123',
            'SUM(zz9:AAA7)', 'A99999999999', 'A1:A99999999999']
p1, ev1 = make_parser()
p2, ev2 = make_parser()
for rnd in range(2):
    for f in formulas:
        for name, p, ev in (('p1', p1, ev1), ('p2', p2, ev2)):
            if name == 'p2' and rnd == 1:
                continue
            del ev[:]
            COUNT[0] += 1
            res = p.parse(f)
            print('%04d parse[%s round %d] %r -> %r events=%r' % (COUNT[0], name, rnd, f, res, ev))
for _ in range(60):
    a = ''.join(rng.choice(LETTERS + LETTERS.lower()) for _ in range(rng.randint(1, 3)))
    b = ''.join(rng.choice(LETTERS + LETTERS.lower()) for _ in range(rng.randint(1, 3)))
    f = '%s%s%s%d:%s%s%s%d' % (rng.choice(['', '$']), a, rng.choice(['', '$']), rng.randint(0, 500),
                               rng.choice(['', '$']), b, rng.choice(['', '$']), rng.randint(0, 500))
    if rng.random() < 0.4:
        f = 'SUM(%s)' % f
    del ev1[:]
    COUNT[0] += 1
    res = p1.parse(f)
    print('%04d parse[p1 random] %r -> %r events=%r' % (COUNT[0], f, res, ev1))

# direct calls of the parser's cell hooks (labels the grammar would never pass on)
for lab in ['a1', '$b$2', 'A0', 'nope', '', 'A1:B2', None, 5]:
    del ev1[:]
    show('call_cell_value', repr(lab), lambda lab=lab: (p1.call_cell_value(lab), list(ev1)))
for a, b in [('a1', 'b2'), ('b2', 'a1'), ('$B$2', 'a1'), ('A1', None), (None, 'A1'), ('nope', 'A1'), ('A1', 'nope'),
             ('A0', 'B0'), ('', '')]:
    del ev1[:]
    show('call_range_value', repr((a, b)), lambda a=a, b=b: (p1.call_range_value(a, b), list(ev1)))

print('total evaluations: %d' % COUNT[0])
