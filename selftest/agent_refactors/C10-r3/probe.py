# -*- coding: utf-8 -*-
"""
Probe for C10 refactoring 3 (value setters: dict box -> nonlocal).

Prints one line per evaluation: the formula, repr() of the outcome and the events seen
(with what each listener handed to the setter).  Deterministic: no time, no randomness
beyond a fixed seed, no memory addresses.
"""
import os
import random
import sys

sys.path.insert(0, os.path.dirname(os.path.dirname(os.path.abspath(__file__))))

import hotxlfp  # noqa: E402
from hotxlfp import Parser  # noqa: E402
from hotxlfp.formulas import error as xlerror  # noqa: E402

COUNT = [0]


def show_parsed(pl):
    return '%s/%r/%s' % (pl.index, pl.label, 'abs' if pl.is_absolute else 'rel')


def show_cell(c):
    return '%s[r=%s c=%s]' % (c.label, show_parsed(c.row), show_parsed(c.col))


def safe_repr(v):
    if isinstance(v, list):
        return '[' + ', '.join(safe_repr(x) for x in v) + ']'
    if isinstance(v, tuple):
        return '(' + ', '.join(safe_repr(x) for x in v) + ')'
    if isinstance(v, dict):
        return '{' + ', '.join('%s: %s' % (safe_repr(k), safe_repr(v[k])) for k in sorted(v, key=str)) + '}'
    if isinstance(v, xlerror.XLError):
        return 'XLError(%s)' % (v.args[0] if v.args else '')
    if callable(v) and not isinstance(v, type):
        return '<callable %s>' % getattr(v, '__name__', type(v).__name__)
    return repr(v)


class Recorder(object):
    """Listens to the four events, records them, feeds the setters from plans."""

    def __init__(self, parser, cells=None, ranges=None, variables=None, functions=None,
                 check_return=True):
        self.events = []
        self.kept = []          # setters kept beyond the event
        self.cells = cells or {}
        self.ranges = ranges or {}
        self.variables = variables or {}
        self.functions = functions or {}
        self.check_return = check_return
        parser.on('callCellValue', self.on_cell)
        parser.on('callRangeValue', self.on_range)
        parser.on('callVariable', self.on_variable)
        parser.on('callFunction', self.on_function)
        self.parser = parser

    def detach(self):
        for name, fn in (('callCellValue', self.on_cell), ('callRangeValue', self.on_range),
                         ('callVariable', self.on_variable), ('callFunction', self.on_function)):
            self.parser.off(name, fn)

    def feed(self, setter, plan, tag):
        """plan: a list of values handed to the setter in turn (a non-list is one value)."""
        self.kept.append(setter)
        if not isinstance(plan, Plan):
            plan = Plan(plan)
        for v in plan.values:
            r = setter(v)
            if self.check_return and r is not None:
                self.events.append('%s setter returned %r' % (tag, r))
            self.events.append('%s<-%s' % (tag, safe_repr(v)))
        if plan.keyword is not NOTHING:
            setter(new_value=plan.keyword)
            self.events.append('%s<-kw %s' % (tag, safe_repr(plan.keyword)))
        if plan.raises is not None:
            raise plan.raises

    def on_cell(self, cell, setter):
        row, col = cell  # Cell supports unpacking
        assert row is cell.row and col is cell.col
        self.events.append('cell ' + show_cell(cell))
        key = cell.label.replace('$', '')
        if key in self.cells:
            self.feed(setter, self.cells[key], 'cell ' + cell.label)
        else:
            self.kept.append(setter)

    def on_range(self, start, end, setter):
        self.events.append('range ' + show_cell(start) + ':' + show_cell(end))
        key = (start.label + ':' + end.label).replace('$', '')
        if key in self.ranges:
            self.feed(setter, self.ranges[key], 'range ' + key)
        else:
            self.kept.append(setter)

    def on_variable(self, name, setter):
        self.events.append('var ' + name)
        if name in self.variables:
            self.feed(setter, self.variables[name], 'var ' + name)
        else:
            self.kept.append(setter)

    def on_function(self, name, args, setter):
        self.events.append('fn %s%s' % (name, safe_repr(args)))
        if name in self.functions:
            self.feed(setter, self.functions[name], 'fn ' + name)
        else:
            self.kept.append(setter)


NOTHING = object()


class Plan(object):
    def __init__(self, *values, **kw):
        if len(values) == 1 and isinstance(values[0], Plan):
            values = values[0].values
        self.values = list(values)
        self.keyword = kw.get('keyword', NOTHING)
        self.raises = kw.get('raises')


def outcome(parser, formula):
    try:
        res = parser.parse(formula)
    except BaseException as e:  # parse() is not supposed to raise
        return 'RAISED %s(%s)' % (type(e).__name__, e)
    return '{result: %s, error: %s}' % (safe_repr(res['result']), safe_repr(res['error']))


def run(parser, formula, recorder=None, note=''):
    if recorder is not None:
        del recorder.events[:]
    out = outcome(parser, formula)
    COUNT[0] += 1
    ev = ' | '.join(recorder.events) if recorder is not None else '-'
    print('%04d %s%r => %s  events: %s' % (COUNT[0], (note + ' ') if note else '', formula, out, ev))


FORMULAS = [
    'A1', 'a1', '$A$1', '$a1', 'a$1', 'B2', 'Z9', 'AA10', 'zz100', 'XFD1048576', 'A0', 'A01', 'A001',
    'A1+B2', 'A1&B2', 'A1*2', '-A1', 'A1=B2', 'A1<>B2', '(A1)', 'A1+A1', 'A1+a1+$A$1',
    'A1:B2', 'B2:A1', 'a1:b2', '$A$1:$B$2', '$B2:A$1', 'A2:B1', 'B1:A2', 'A1:A1', 'C3:A1', 'A3:C1',
    'AA10:A1', 'a10:AA1', '$C$3:a1', 'c$3:$a1', 'A0:B0', 'B0:A0',
    'SUM(A1:B2)', 'SUM(B2:A1)', 'SUM(A1,B2)', 'SUM(A1:B2,C3)', 'SUM(A1:B2,C3:D4)', 'SUM(C3:D4,A1:B2)',
    'SUM(A1;B2)', 'SUM(A1:B2)+SUM(C3:D4)', 'AVERAGE(A1:B2)', 'COUNT(A1:B2)', 'COUNTA(A1:B2)',
    'MAX(A1:B2)', 'MIN(A1:B2)', 'CONCATENATE(A1,B2)', 'LEN(A1)', 'UPPER(B2)', 'ISBLANK(A1)', 'ISBLANK(Z9)',
    'ISNUMBER(A1)', 'ISTEXT(B2)', 'ISLOGICAL(C3)', 'ISERROR(D4)', 'IF(A1,B2,C3)', 'IF(C3,A1,B2)',
    'IF(A1>0,"pos","neg")', 'AND(A1,C3)', 'OR(A1,C3)', 'NOT(C3)', 'IFERROR(D4,A1)', 'IFERROR(A1/E5,"div")',
    'SUM(A1,SUM(B2,SUM(C3,A1)))', 'ABS(-A1)', 'ROUND(A1/3,2)', 'SUM()', 'PI()', 'SUM(1,2,3)', 'SUM(1,,3)',
    'SUM({1,2,3})', 'SUM({1,2;3,4})', 'NOSUCHFN(A1)', 'NOSUCHFN()', 'nosuchfn(1)', 'MYFN(A1)', 'MYFN()',
    'MYFN(1,2,3)', 'MYERR(A1)', 'MYBOOM(A1)', 'MYNONE(A1)', 'MYLIST(A1,B2)', 'MYERR(A1)+1', 'MYBOOM(1)&"x"',
    'ISERROR(MYERR(1))', 'ISERROR(MYBOOM(1))', 'IFERROR(MYBOOM(1),7)', 'SQRT(-1)', 'SQRT(A1)', 'LN(0)',
    'myvar', 'MYVAR', 'other', 'blankvar', 'zerovar', 'falsevar', 'emptyvar', 'nonevar', 'listvar', 'errvar',
    'unknownvar', 'unknownvar+1', 'myvar+other', 'myvar&other', 'myvar.other', 'SUM(myvar,other)',
    'SUM(myvar,A1,B2:C3,other)', 'TRUE', 'FALSE', 'NULL', 'true', 'IF(TRUE,A1,B2)', 'IF(FALSE,A1,B2)',
    'IF(myvar,A1,B2)', 'NOT(TRUE)', 'SUM(TRUE,A1)', 'lookup', 'lookup+A1',
    '1+2', '"text"', "'text'", '""', '', '1.5', '.5', '2^3', '50%', '1/0', '#N/A', '#REF!', '#DIV/0!',
    '#VALUE!', '#NAME?', '#NUM!', '#NULL!', '#ERROR!', '#FOO!', '1+', '(', 'A1:', ':A1', 'A1:B', 'A:B',
    'A1:B2:C3', 'SUM(A1', 'A1 B2', '=A1', '{A1,B2}', '{A1:B2}', 'SUM({A1,B2})', 'A1%', '-A1:B2',
    'A1+#N/A', 'SUM(A1,#N/A)', 'IF(A1,#N/A,B2)', 'F6', 'F6+1', 'G7', 'G7&"x"', 'H8', 'H8+1', 'I9', 'J10',
    'SUM(F6,G7,H8)', 'K11', 'K11+1', 'L12', 'ISBLANK(L12)', 'M13', 'SUM(M13)', 'N14', 'N14:O15', 'P16:Q17',
    'SUM(P16:Q17)', 'R18:S19', 'SUM(R18:S19)', 'T20:U21', 'V22:W23', 'ISBLANK(V22:W23)', 'X24', 'X24+1',
    'Y25', 'Y25:Z26', 'MATCH(2,A1:C1,0)', 'INDEX(A1:B2,1,1)', 'VLOOKUP(1,A1:B2,2,FALSE)',
    'SUMIF(A1:B2,">0")', 'COUNTIF(A1:B2,1)', 'SUMPRODUCT(A1:B2,C3:D4)', 'LEFT(B2,1)&RIGHT(B2,1)',
    'A1+B2*C3-D4/E5', 'A1>B2', 'A1>=B2', 'A1<=B2', 'A1<B2', 'A1=A1', 'SUM(A1:B2)>SUM(C3:D4)',
    'IF(SUM(A1:B2)>1,MAX(A1,B2),MIN(myvar,other))', 'CHOOSE(2,A1,B2,C3)', 'SWITCH(A1,1,B2,C3)',
]


def base_plans():
    cells = {
        'A1': 1, 'B2': 'two', 'C3': True, 'D4': xlerror.DIV_ZERO, 'E5': 0,
        'F6': Plan(5, None),                  # None after a value: the value stays
        'G7': Plan(None, 'late'),             # None first, then a value
        'H8': Plan(1, 2, 3),                  # the last one wins
        'I9': Plan(7, 0),                     # 0 overrides
        'J10': Plan(7, False),                # False overrides
        'K11': Plan(7, ''),                   # empty text overrides
        'L12': Plan(None),                    # only None: blank
        'M13': Plan(None, None, 0, None),     # 0 survives trailing None
        'N14': Plan(),                        # listener present but never sets
        'X24': Plan(1, keyword=41),           # keyword call of the setter
        'Y25': Plan(keyword=None),            # keyword None: blank
        'C1': 3, 'B1': 2, 'D3': 4, 'C4': 5,
    }
    ranges = {
        'A1:B2': [[1, 2], [3, 4]],
        'C3:D4': [[10, 20], [30, 40]],
        'A1:C1': [[1, 2, 3]],
        'P16:Q17': Plan([[1, 2], [3, 4]], None),
        'R18:S19': Plan([[1]], [[5, 6], [7, 8]]),
        'T20:U21': Plan([[1]], 0),
        'V22:W23': Plan(None),
        'Y25:Z26': Plan([[9]], keyword=[[8]]),
        'A1:A1': [[1]],
        'A1:C3': [[1, 2, 3], [4, 5, 6], [7, 8, 9]],
        'B2:C3': [[5, 6], [8, 9]],
    }
    variables = {
        'other': 10,              # overrides the stored variable
        'blankvar': None,         # None: stored value stays
        'lookup': 'from listener',  # supplies a variable that is not stored
        'zerovar': Plan(3, 0),
        'falsevar': Plan(True, False),
        'emptyvar': Plan('x', ''),
        'nonevar': Plan(None, None),
    }
    functions = {
        'ABS': 100,                       # overrides a built-in's result
        'PI': None,                       # None: result stays
        'MYNONE': 0,                      # function returned None, listener supplies 0
        'ROUND': Plan(1, None, 2, None),
        'NOT': Plan(keyword='kw'),
    }
    return cells, ranges, variables, functions


def install_functions(p):
    def myfn(*args):
        return len(args)

    def myerr(*args):
        raise xlerror.NOT_AVAILABLE

    def myboom(*args):
        raise ValueError('boom')

    def mynone(*args):
        return None

    def mylist(*args):
        return list(args)

    p.set_function('MYFN', myfn)
    p.set_function('MYERR', myerr)
    p.set_function('MYBOOM', myboom)
    p.set_function('MYNONE', mynone)
    p.set_function('MYLIST', mylist)


def install_variables(p):
    p.set_variable('myvar', 5)
    p.set_variable('MYVAR', 'upper')
    p.set_variable('other', 6)
    p.set_variable('blankvar', 'stored')
    p.set_variable('zerovar', 1)
    p.set_variable('falsevar', 1)
    p.set_variable('emptyvar', 1)
    p.set_variable('nonevar', None)
    p.set_variable('listvar', [1, 2, 3])
    p.set_variable('errvar', xlerror.REF)


def main():
    print('hotxlfp probe r3; module %s' % hotxlfp.__name__)

    # --- section 1: no listeners at all -----------------------------------------------
    print('== no listener')
    p0 = Parser()
    install_functions(p0)
    install_variables(p0)
    for f in FORMULAS:
        run(p0, f)

    # --- section 2: recording listener that never sets ---------------------------------
    print('== recording only')
    p1 = Parser()
    install_functions(p1)
    install_variables(p1)
    rec1 = Recorder(p1)
    for f in FORMULAS:
        run(p1, f, rec1)

    # --- section 3: listeners with plans -----------------------------------------------
    print('== planned setters')
    p2 = Parser()
    install_functions(p2)
    install_variables(p2)
    cells, ranges, variables, functions = base_plans()
    rec2 = Recorder(p2, cells, ranges, variables, functions)
    for f in FORMULAS:
        run(p2, f, rec2)

    # --- section 4: setters kept from earlier evaluations are dead ----------------------
    print('== stale setters')
    stale = list(rec2.kept)
    for s in stale[:200]:
        s(12345)
        s(new_value='stale')
    for f in FORMULAS[:60]:
        run(p2, f, rec2, note='after-stale')
    # and the first parser, which has no listeners, is untouched
    for f in FORMULAS[:30]:
        run(p0, f, note='p0-again')

    # --- section 5: two listeners on the same event; order decides ----------------------
    print('== two listeners')
    p3 = Parser()
    install_functions(p3)
    install_variables(p3)
    reca = Recorder(p3, {'A1': 1, 'B2': 2, 'C3': None}, {'A1:B2': [[1, 2], [3, 4]]}, {'myvar': 'a'}, {'SUM': 1000})
    recb = Recorder(p3, {'A1': None, 'B2': 20, 'C3': 30}, {'A1:B2': None}, {'myvar': None, 'other': 'b'}, {'SUM': None, 'MAX': -1})
    for f in ['A1', 'B2', 'C3', 'A1+B2+C3', 'A1:B2', 'SUM(A1:B2)', 'myvar', 'other', 'myvar&other',
              'SUM(A1,B2)', 'MAX(A1,B2)', 'MAX(SUM(A1,B2),C3)', 'B2:A1', 'D4', 'unknownvar']:
        del recb.events[:]
        run(p3, f, reca)
        print('     second listener: ' + ' | '.join(recb.events))
    recb.detach()
    for f in ['A1', 'B2', 'C3', 'A1+B2+C3', 'A1:B2', 'SUM(A1:B2)', 'myvar', 'other', 'MAX(A1,B2)']:
        run(p3, f, reca, note='b-detached')
    reca.detach()
    for f in ['A1', 'B2', 'A1:B2', 'SUM(A1:B2)', 'myvar', 'other', 'MAX(A1,B2)']:
        run(p3, f, note='all-detached')

    # --- section 6: listeners that raise ------------------------------------------------
    print('== raising listeners')
    p4 = Parser()
    install_functions(p4)
    install_variables(p4)
    rec4 = Recorder(p4,
                    {'A1': Plan(1, raises=ValueError('listener failed')),
                     'B2': Plan(raises=xlerror.NOT_AVAILABLE),
                     'C3': Plan(3, raises=xlerror.REF), 'D4': 4},
                    {'A1:B2': Plan([[1]], raises=KeyError('k')), 'C3:D4': Plan(raises=xlerror.NUM)},
                    {'myvar': Plan(1, raises=xlerror.VALUE), 'other': Plan(raises=RuntimeError('#DIV/0!'))},
                    {'SUM': Plan(1, raises=xlerror.NULL), 'MAX': Plan(raises=ZeroDivisionError('z'))})
    for f in ['A1', 'B2', 'C3', 'D4', 'D4+A1', 'A1+D4', 'IFERROR(B2,1)', 'A1:B2', 'C3:D4', 'D4:C3', 'myvar', 'other',
              'SUM(D4)', 'MAX(D4)', 'MIN(D4)', 'MIN(D4,SUM(D4))', 'D4', 'MIN(D4,D4)']:
        run(p4, f, rec4)

    # --- section 7: re-entrant evaluation from inside a listener -------------------------
    print('== re-entrant')
    p5 = Parser()
    inner = Parser()
    install_functions(p5)
    install_variables(p5)
    rec_inner = Recorder(inner, {'A1': 11, 'B2': 22}, {'A1:B2': [[11, 22]]})
    log = []
    source = {'A1': 'B2+1', 'B2': 'C3*2', 'C3': '4', 'D4': 'SUM(A1:B2)', 'E5': 'A1'}

    def cell_listener(cell, setter):
        log.append('outer cell ' + show_cell(cell))
        key = cell.label.replace('$', '')
        if key in source:
            sub = p5.parse(source[key])      # same parser, nested
            log.append('nested %s => %s' % (source[key], safe_repr(sub['result'])))
            setter(sub['result'])
        elif key == 'Z9':
            sub = inner.parse('A1+B2')       # another parser
            log.append('inner => %s' % safe_repr(sub['result']))
            setter(sub['result'])

    def range_listener(start, end, setter):
        log.append('outer range ' + show_cell(start) + ':' + show_cell(end))
        a = p5.parse(start.label)['result']
        b = p5.parse(end.label)['result']
        setter([[a, b]])

    p5.on('callCellValue', cell_listener)
    p5.on('callRangeValue', range_listener)
    for f in ['C3', 'B2', 'A1', 'A1+B2', 'D4', 'E5', 'Z9', 'Z9+A1', 'A1:B2', 'b2:a1', 'SUM(A1:B2)', 'Q1', 'SUM($A$1:$B$2,Z9)']:
        del log[:]
        out = outcome(p5, f)
        COUNT[0] += 1
        print('%04d %r => %s  events: %s' % (COUNT[0], f, out, ' | '.join(log)))

    # --- section 8: once-listeners ------------------------------------------------------
    print('== once')
    p6 = Parser()
    install_variables(p6)
    seen = []

    def once_cell(cell, setter):
        seen.append('once ' + show_cell(cell))
        setter(99)

    p6.once('callCellValue', once_cell)
    for f in ['A1+B2', 'A1+B2', 'C3']:
        del seen[:]
        out = outcome(p6, f)
        COUNT[0] += 1
        print('%04d %r => %s  events: %s' % (COUNT[0], f, out, ' | '.join(seen)))

    # --- section 9: random formulas, fixed seed, on two parsers ---------------------------
    print('== random')
    rnd = random.Random(20240310)
    atoms = ['A1', 'B2', 'C3', 'D4', 'E5', 'F6', 'G7', 'H8', 'I9', 'J10', 'K11', 'L12', 'M13', 'N14', 'X24',
             '$A$1', 'a$1', '$b2', 'A1:B2', 'B2:A1', 'C3:D4', 'P16:Q17', 'R18:S19', 'T20:U21', 'V22:W23',
             'myvar', 'other', 'blankvar', 'zerovar', 'falsevar', 'emptyvar', 'nonevar', 'lookup', 'nobody',
             '1', '2.5', '"s"', 'TRUE', 'FALSE', '#N/A', '0']
    fns = ['SUM', 'MAX', 'MIN', 'COUNT', 'COUNTA', 'AVERAGE', 'ABS', 'MYFN', 'MYERR', 'MYBOOM', 'MYNONE', 'MYLIST',
           'IF', 'IFERROR', 'ISBLANK', 'ISERROR', 'CONCATENATE', 'NOSUCH', 'AND', 'OR', 'ROUND', 'PI', 'NOT']
    ops = ['+', '-', '*', '/', '&', '=', '<>', '<', '>', '<=', '>=']

    def gen(depth):
        r = rnd.random()
        if depth <= 0 or r < 0.35:
            return rnd.choice(atoms)
        if r < 0.7:
            n = rnd.choice([0, 1, 1, 2, 2, 3, 4])
            return '%s(%s)' % (rnd.choice(fns), rnd.choice([',', ';', ',']).join(gen(depth - 1) for _ in range(n)))
        if r < 0.9:
            return '%s%s%s' % (gen(depth - 1), rnd.choice(ops), gen(depth - 1))
        if r < 0.95:
            return '(%s)' % gen(depth - 1)
        return '-%s' % gen(depth - 1)

    p7 = Parser()
    install_functions(p7)
    install_variables(p7)
    rec7 = Recorder(p7, *base_plans())
    generated = [gen(3) for _ in range(150)]
    for f in generated:
        run(p2, f, rec2, note='p2')
        run(p7, f, rec7, note='p7')
    for f in generated[:40]:
        run(p0, f, note='p0')

    # --- section 10: the call_* methods directly -----------------------------------------
    print('== direct')
    p8 = Parser()
    install_functions(p8)
    install_variables(p8)
    rec8 = Recorder(p8, *base_plans())

    def direct(label, fn, *args):
        del rec8.events[:]
        try:
            out = safe_repr(fn(*args))
        except BaseException as e:
            out = 'RAISED %s(%s)' % (type(e).__name__, e)
        COUNT[0] += 1
        print('%04d %s%s => %s  events: %s' % (COUNT[0], label, safe_repr(list(args)), out, ' | '.join(rec8.events)))

    for lab in ['A1', 'a1', '$a$1', 'F6', 'G7', 'H8', 'I9', 'J10', 'K11', 'L12', 'M13', 'N14', 'X24', 'Y25', 'Q99',
                '', 'A', '1', 'A1B', '$$A1', 'A-1', ' A1', 'A1\n']:
        direct('call_cell_value', p8.call_cell_value, lab)
    for a, b in [('A1', 'B2'), ('b2', 'a1'), ('$B$2', 'A1'), ('A2', 'B1'), (None, 'A1'), ('A1', None), (None, None),
                 ('P16', 'Q17'), ('R18', 'S19'), ('T20', 'U21'), ('V22', 'W23'), ('Y25', 'Z26'), ('A1', 'bad'),
                 ('bad', 'A1'), ('', ''), ('A1', 'A1')]:
        direct('call_range_value', p8.call_range_value, a, b)
    for name in ['myvar', 'other', 'blankvar', 'zerovar', 'falsevar', 'emptyvar', 'nonevar', 'listvar', 'errvar',
                 'lookup', 'nobody', 'TRUE', 'FALSE', 'NULL', '']:
        direct('call_variable', p8.call_variable, name)
    for args in [('SUM',), ('SUM', None), ('SUM', []), ('SUM', [1, 2]), ('SUM', [[1, 2], [3]]), ('ABS', [-1]),
                 ('PI',), ('MYFN', [1, 2, 3]), ('MYFN', (1, 2)), ('MYERR', [1]), ('MYBOOM', [1]), ('MYNONE', []),
                 ('MYNONE',), ('MYLIST', [None, 0]), ('NOSUCH', [1]), ('NOSUCH',), ('sum', [1]), ('ROUND', [1.234, 1]),
                 ('NOT', [True]), ('SQRT', [-1]), ('ABS', []), ('ABS', [1, 2, 3])]:
        direct('call_function', p8.call_function, *args)

    print('evaluations: %d' % COUNT[0])


if __name__ == '__main__':
    main()
