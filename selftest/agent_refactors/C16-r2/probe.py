# -*- coding: utf-8 -*-
"""
Probe for C16 refactoring 2 (parse_number / ATAN2 / LOG10 / POWER / RANDBETWEEN / PV restructured in place).
Prints a deterministic transcript: one line per evaluation.
"""
import os
import sys
import random

sys.path.insert(0, os.path.dirname(os.path.dirname(os.path.abspath(__file__))))

import hotxlfp  # noqa: E402
from hotxlfp import formulas  # noqa: E402
from hotxlfp.formulas import error, mathtrig, financial, utils  # noqa: E402

COUNT = [0]


def show(label, outcome):
    COUNT[0] += 1
    line = '%04d %s => %s' % (COUNT[0], label, outcome)
    print(line.encode('ascii', 'backslashreplace').decode('ascii'))  # keep the transcript pure ASCII


def outcome_of(thunk):
    try:
        value = thunk()
    except BaseException as e:  # noqa
        return 'RAISED %s: %s' % (type(e).__name__, e)
    try:
        return 'RETURNED %s %r' % (type(value).__name__, value)
    except ValueError:  # an int too long to print
        return 'RETURNED %s of %d bits, mod 1000003 = %d' % (type(value).__name__, value.bit_length(), value % 1000003)


class Opaque(object):
    def __repr__(self):
        return '<Opaque>'


class IntLike(int):
    def __repr__(self):
        return 'IntLike(%d)' % int(self)


class FloatLike(float):
    def __repr__(self):
        return 'FloatLike(%r)' % float(self)


class StrLike(str):
    def __repr__(self):
        return 'StrLike(%s)' % str.__repr__(self)


class MyError(error.XLError):
    """ a subclass of the error type """


CUSTOM_ERROR = error.XLError('#CUSTOM!')
SUB_ERROR = MyError('#SUB!')
ALL_ERRORS = [error.NUM, error.VALUE, error.DIV_ZERO, error.NOT_AVAILABLE, error.NAME, error.REF, error.NULL,
              error.ERROR, error.DATA, CUSTOM_ERROR, SUB_ERROR]

VALUES = [
    None, True, False, 0, -0.0, 0.0, 1, -1, 0.5, -0.5, 1.0, 2, 3, 10, 1.5, -1.5, 100, 1000, 1e308, -1e308, 5e-324,
    float('inf'), float('-inf'), float('nan'), 10 ** 400, -10 ** 400, 2 ** 53 + 1,
    '1', ' 1 ', '-1', '0', '0.0', '-0.0', '0.5', '.5', '1e3', '1_0', '0x10', 'inf', '-inf', 'nan', 'Infinity', '', ' ',
    'abc', 'TRUE', '1,5', u'١', StrLike('7'), StrLike('seven'),
    [1], (1,), [], {}, b'1', 1j, 0j, complex(2, 0), Opaque(), IntLike(0), IntLike(3), FloatLike(0.25), FloatLike(-2.5),
    ValueError('#VALUE!'), RuntimeError('#NUM!'),
] + ALL_ERRORS

# ---------------------------------------------------------------------------------------------
# 1. utils.parse_number and the helpers built on it
# ---------------------------------------------------------------------------------------------
for value in VALUES:
    show('parse_number(%r)' % (value,), outcome_of(lambda: utils.parse_number(value)))
for err in ALL_ERRORS:
    show('parse_number(%r) is same object' % err, repr(utils.parse_number(err) is err))
for value in (True, False, IntLike(3), FloatLike(0.25), 10 ** 400):
    show('parse_number(%r) is same object' % (value,), repr(utils.parse_number(value) is value))
show('parse_number("abc") is error.VALUE', repr(utils.parse_number('abc') is error.VALUE))
show('parse_number()', outcome_of(lambda: utils.parse_number()))
show('parse_number(string="2")', outcome_of(lambda: utils.parse_number(string='2')))
show('iparse_number_array([])', outcome_of(lambda: utils.iparse_number_array([])))
show('iparse_number_array(mixed)', outcome_of(lambda: list(utils.iparse_number_array([1, '2', 'x', None, True, error.NUM, [3]]))))

# ---------------------------------------------------------------------------------------------
# 2. the functions called directly
# ---------------------------------------------------------------------------------------------
ATAN2 = formulas.get_for('ATAN2')
LOG = formulas.get_for('LOG')
LOG10 = formulas.get_for('LOG10')
POWER = formulas.get_for('POWER')
PV = formulas.get_for('PV')
RANDBETWEEN = formulas.get_for('RANDBETWEEN')
assert ATAN2 is mathtrig.ATAN2 and PV is financial.PV

COORDS = [0, -0.0, 0.0, 1, -1, 0.5, -2.5, True, False, None, '0', '-0.0', '1', '-3', 'abc', '', 1e308, 5e-324,
          float('inf'), float('-inf'), float('nan'), 10 ** 400, 0j, 1j, IntLike(0), FloatLike(0.0), [0],
          error.NUM, error.NOT_AVAILABLE, CUSTOM_ERROR, SUB_ERROR]
for x in COORDS:
    for y in COORDS:
        show('ATAN2(%r, %r)' % (x, y), outcome_of(lambda: ATAN2(x, y)))
for x, y in [(error.NUM, error.REF), (error.REF, error.NUM), ('abc', error.NUM), (error.NUM, 'abc'), (0, CUSTOM_ERROR),
             (CUSTOM_ERROR, 0), (SUB_ERROR, CUSTOM_ERROR)]:
    res = ATAN2(x, y)
    show('ATAN2(%r, %r) identity' % (x, y), 'is x: %r, is y: %r, is VALUE: %r' % (res is x, res is y, res is error.VALUE))
show('ATAN2(0, 0) is DIV_ZERO', repr(ATAN2(0, 0) is error.DIV_ZERO))
show('ATAN2()', outcome_of(lambda: ATAN2()))
show('ATAN2(1)', outcome_of(lambda: ATAN2(1)))
show('ATAN2(1, 2, 3)', outcome_of(lambda: ATAN2(1, 2, 3)))
show('ATAN2(y_num=1, x_num=2)', outcome_of(lambda: ATAN2(y_num=1, x_num=2)))

for value in VALUES:
    show('LOG10(%r)' % (value,), outcome_of(lambda: LOG10(value)))
    show('LOG(%r)' % (value,), outcome_of(lambda: LOG(value)))
    show('LOG(%r, 10)' % (value,), outcome_of(lambda: LOG(value, 10)))
for value in [1, 10, 100, 1000, 10 ** 15, 10 ** 23, 0.001, 1e-5, 2, 8, 125, 1e300, 3, 7, 10 ** 400, 10.0 ** 22, 5e-324]:
    show('LOG10(%r) == LOG(%r, 10)' % (value, value), repr(LOG10(value) == LOG(value, 10)))
for err in ALL_ERRORS:
    show('LOG10(%r) is error.VALUE' % err, repr(LOG10(err) is error.VALUE))
show('LOG10()', outcome_of(lambda: LOG10()))
show('LOG10(1, 2)', outcome_of(lambda: LOG10(1, 2)))
show('LOG10(number=100)', outcome_of(lambda: LOG10(number=100)))
BASES = [2, 10, 1, 0, -2, 0.5, '2', 'x', None, True, False, float('inf'), float('nan'), error.NUM, CUSTOM_ERROR, 1j]
for number in [8, 1, 0, -8, 0.125, '8', 'x', None, True, float('inf'), float('nan'), error.REF, 10 ** 400]:
    for base in BASES:
        show('LOG(%r, %r)' % (number, base), outcome_of(lambda: LOG(number, base)))

POW_VALUES = [0, -0.0, 1, -1, 2, -2, 0.5, -0.5, 3, -8, 10, 1000, 1e308, float('inf'), float('-inf'), float('nan'),
              True, False, None, '2', '0.5', 'abc', '', 1j, 10 ** 400, IntLike(2), FloatLike(0.5), error.NUM, CUSTOM_ERROR]
for number in POW_VALUES:
    for power in POW_VALUES:
        if isinstance(power, int) and abs(power) > 10 ** 6:
            continue  # an exponent of 10**400 would never finish
        show('POWER(%r, %r)' % (number, power), outcome_of(lambda: POWER(number, power)))
show('POWER(nan, 1) is error.NUM', repr(POWER(float('nan'), 1) is error.NUM))
show('POWER(err, err) is error.VALUE', repr(POWER(error.NUM, error.REF) is error.VALUE))
show('POWER()', outcome_of(lambda: POWER()))
show('POWER(2)', outcome_of(lambda: POWER(2)))
show('POWER(power=3, number=2)', outcome_of(lambda: POWER(power=3, number=2)))

PV_RATES = [0, 0.0, -0.0, 0.05, -0.05, 1, -1, -2, 0.1, '0.1', '0', 'abc', None, True, False, 1e-12, 1e308, float('inf'),
            float('nan'), 0j, 1j, error.NUM, CUSTOM_ERROR, IntLike(0), FloatLike(0.05)]
PV_PERIODS = [0, 1, 10, -3, 0.5, 2.5, 2000, 10 ** 6, '12', 'x', None, True, float('inf'), float('nan'), error.REF]
for rate in PV_RATES:
    for periods in PV_PERIODS:
        show('PV(%r, %r, -100)' % (rate, periods), outcome_of(lambda: PV(rate, periods, -100)))
        show('PV(%r, %r, 250.5, 1000, 1)' % (rate, periods), outcome_of(lambda: PV(rate, periods, 250.5, 1000, 1)))
PV_EXTRAS = [None, 0, 1, -1, 500, 0.5, '3', 'x', '', True, False, float('inf'), float('nan'), 10 ** 400, 1j,
             error.NOT_AVAILABLE, CUSTOM_ERROR, [1], utils.DEFAULT]
for future in PV_EXTRAS:
    for type_ in PV_EXTRAS:
        label = 'PV(0.08, 5, -200, %s, %s)' % ('DEFAULT' if future is utils.DEFAULT else repr(future),
                                              'DEFAULT' if type_ is utils.DEFAULT else repr(type_))
        show(label, outcome_of(lambda: PV(0.08, 5, -200, future, type_)))
        show(label.replace('0.08', '0'), outcome_of(lambda: PV(0, 5, -200, future, type_)))
for payment in [0, 1, -1, 0.5, '7', 'x', None, True, float('inf'), float('nan'), 10 ** 400, error.NUM, 1j]:
    show('PV(0.03, 7, %r)' % (payment,), outcome_of(lambda: PV(0.03, 7, payment)))
    show('PV(0, 7, %r, 5)' % (payment,), outcome_of(lambda: PV(0, 7, payment, 5)))
    show('PV(1, 2000, %r, 5, 1)' % (payment,), outcome_of(lambda: PV(1, 2000, payment, 5, 1)))
    show('PV(0.5, 3, %r, 10**400, 10**400)' % (payment,), outcome_of(lambda: PV(0.5, 3, payment, 10 ** 400, 10 ** 400)))
show('PV()', outcome_of(lambda: PV()))
show('PV(1, 2)', outcome_of(lambda: PV(1, 2)))
show('PV(1, 2, 3, 4, 5, 6)', outcome_of(lambda: PV(1, 2, 3, 4, 5, 6)))
show('PV(0.1, 2, 3, type=1)', outcome_of(lambda: PV(0.1, 2, 3, type=1)))
show('PV(0.1, 2, 3, future=7)', outcome_of(lambda: PV(0.1, 2, 3, future=7)))
show('PV(rate=0.1, periods=2, payment=3, future=4, type=0)',
     outcome_of(lambda: PV(rate=0.1, periods=2, payment=3, future=4, type=0)))
show('PV(err...) is error.VALUE', repr(PV(error.NUM, 1, 1) is error.VALUE))
# the annuity equation, on a few points
for rate, n, pmt, fv, typ in [(0.05, 10, -100, 0, 0), (0.05, 10, -100, 50, 1), (0.2, 3, 7, -9, 0), (-0.5, 4, 1, 1, 1),
                              (0, 10, -100, 50, 1), (1e-9, 12, -1, 0, 0)]:
    pv = PV(rate, n, pmt, fv, typ)
    if rate == 0:
        residual = pv + pmt * n + fv
    else:
        residual = pv * (1 + rate) ** n + pmt * (1 + rate * typ) * ((1 + rate) ** n - 1) / rate + fv
    show('annuity residual %r' % ((rate, n, pmt, fv, typ),), '%r %r' % (pv, residual))


def seeded(seed, thunk):
    random.seed(seed)
    first = outcome_of(thunk)
    return '%s next=%r' % (first, random.random())  # the draw after it shows how much randomness was consumed


RB_VALUES = [0, 1, -1, 5, 10, 1.5, 9.99, -9.99, '3', '7.9', 'x', '', None, True, False, 10 ** 30, float('inf'),
             float('nan'), 1j, IntLike(4), FloatLike(6.5), error.NUM, CUSTOM_ERROR]
for seed, bottom in enumerate(RB_VALUES):
    for top in RB_VALUES:
        show('RANDBETWEEN(%r, %r) seed=%d' % (bottom, top, seed), seeded(seed, lambda: RANDBETWEEN(bottom, top)))
for seed in range(20):
    show('RANDBETWEEN(-3, 12) seed=%d' % (100 + seed), seeded(100 + seed, lambda: RANDBETWEEN(-3, 12)))
show('RANDBETWEEN()', seeded(1, lambda: RANDBETWEEN()))
show('RANDBETWEEN(1)', seeded(1, lambda: RANDBETWEEN(1)))
show('RANDBETWEEN(top=4, bottom=2)', seeded(1, lambda: RANDBETWEEN(top=4, bottom=2)))

# ---------------------------------------------------------------------------------------------
# 3. through the formula parser, recording the events
# ---------------------------------------------------------------------------------------------
def make_parser(override=None):
    p = hotxlfp.Parser()
    log = []

    def on_function(name, args, setter):
        log.append('callFunction(%s, %r)' % (name, args))
        if override is not None and name in override:
            setter(override[name])

    def on_cell(cell, setter):
        log.append('callCellValue(%s)' % cell.label)
        setter({'A1': 0.25, 'B2': '0.75', 'C3': None, 'D4': 0}.get(cell.label))

    def on_range(start, end, setter):
        log.append('callRangeValue(%s, %s)' % (start.label, end.label))
        setter([[0.25, 1], [2, '0.75']])

    def on_variable(name, setter):
        log.append('callVariable(%s)' % name)

    p.on('callFunction', on_function)
    p.on('callCellValue', on_cell)
    p.on('callRangeValue', on_range)
    p.on('callVariable', on_variable)
    p.set_variable('myvar', 0.125)
    return p, log


ARGS1 = ['0', '1', '-1', '0.5', '10', '100', '1000', '0.001', '"100"', '"abc"', '""', 'TRUE', 'FALSE', 'NULL', '#N/A',
         '#DIV/0!', '#NUM!', '{1,2}', 'A1', 'C3', 'D4', 'A1:B2', 'myvar', 'nosuchvar', '1/0', '10^400', '', ',', '1,', ',1']
FORMULAS = []
for a in ARGS1:
    FORMULAS.append('LOG10(%s)' % a)
    FORMULAS.append('LOG(%s)' % a)
ARGS2 = ['0', '1', '-1', '0.5', '-2.5', '"2"', '"x"', 'TRUE', 'FALSE', 'NULL', '#N/A', '#REF!', 'D4', 'C3', '{0}', '1/0']
for a in ARGS2:
    for b in ARGS2:
        FORMULAS.append('ATAN2(%s,%s)' % (a, b))
for a in ARGS2:
    for b in ['0', '2', '-1', '0.5', '"3"', '"x"', 'TRUE', '#NUM!', 'C3', '1000']:
        FORMULAS.append('POWER(%s,%s)' % (a, b))
        FORMULAS.append('LOG(%s,%s)' % (a, b))
FORMULAS += [
    'ATAN2(1)', 'ATAN2()', 'ATAN2(1,2,3)', 'ATAN2(,)', 'ATAN2(1,)', 'ATAN2(,1)', 'ATAN2(1;2)', 'ATAN2(0,0)&"!"',
    'ATAN2(1,1)-PI()/4', 'ATAN2(-1,0)-PI()', 'ATAN2(0,-1)+PI()/2', 'ATAN2(COS(0.3),SIN(0.3))',
    'LOG10(1,2)', 'LOG10()', 'LOG(8,2,1)', 'LOG(100)-LOG10(100)', 'LOG(5,3)-LN(5)/LN(3)', 'LOG10(LOG10(10))',
    'POWER(2)', 'POWER()', 'POWER(2,3,4)', 'POWER(-8,1/3)', 'POWER(0,-1)', 'POWER(10,400)', 'POWER(10.5,400)', 'POWER(0,0)',
    'POWER(POWER(2,3),2)', 'POWER(2,3)^2', 'SQRT(POWER(3,2)+POWER(4,2))',
    'PV(0.05,10,-100)', 'PV(0.05,10,-100,50)', 'PV(0.05,10,-100,50,1)', 'PV(0,10,-100)', 'PV(0,10,-100,50,1)',
    'PV(0.05,10,-100,,1)', 'PV(0.05,10,-100,50,)', 'PV(0.05,10,-100,,)', 'PV(0.05,10)', 'PV()', 'PV(1,2,3,4,5,6)',
    'PV("0.05","10","-100","50","1")', 'PV("x",10,-100)', 'PV(0.05,"x",-100)', 'PV(0.05,10,"x")', 'PV(0.05,10,-100,"x")',
    'PV(0.05,10,-100,0,"x")', 'PV(#N/A,10,-100)', 'PV(0.05,10,-100,#NUM!)', 'PV(0.05,10,-100,0,#REF!)', 'PV(TRUE,2,FALSE,TRUE,TRUE)',
    'PV(-1,10,-100)', 'PV(-1,-10,-100)', 'PV(-2,0.5,-100)', 'PV(1,2000,-100)', 'PV(0.5,2000,-100)', 'PV(A1,B2,C3,D4)',
    'PV(myvar,12,-1,A1:B2)', 'PV(0.1/12,5*12,-250)', 'PV(NULL,NULL,NULL)', 'PV(0.05,10,-100)*POWER(1.05,10)',
    'PV(1/0,10,-100)', 'PV({0.05},10,-100)', 'PV(0.05;10;-100)',
    'RANDBETWEEN(5,5)', 'RANDBETWEEN("x",5)', 'RANDBETWEEN(5,"x")', 'RANDBETWEEN(#N/A,5)', 'RANDBETWEEN(5)', 'RANDBETWEEN()',
    'RANDBETWEEN(9,1)', 'RANDBETWEEN(1.5,1.9)', 'RANDBETWEEN(TRUE,TRUE)', 'RANDBETWEEN(NULL,3)', 'RANDBETWEEN(1,10)',
    'RANDBETWEEN(-5,5)*2', 'RANDBETWEEN(1,6)+RANDBETWEEN(1,6)', 'RANDBETWEEN("1","100")', 'RANDBETWEEN(1/0,2)',
    # other users of parse_number
    'ROUND("2.567","1")', 'ROUND("x",1)', 'ROUND(#N/A,1)', 'MOD("7","3")', 'MOD(#REF!,3)', 'MOD(7,"x")', 'CEILING("2.3")',
    'FLOOR("x")', 'QUOTIENT(7,TRUE)', 'INT("5.5")', 'INT(NULL)', 'SIGN("-3")', 'SIGN("x")', 'ODD("2")', 'EVEN(TRUE)',
    'FACT("4")', 'FACT("x")', 'ABS("x")', 'SQRT("16")', 'SIN(#NUM!)', 'DEC2BIN("5")', 'DEC2BIN("x")', 'COMPLEX("1","2")',
    'DELTA("1",1)', 'DATE("2020","2","30")', 'DATE("x",1,1)', 'TIME("1","2","3")', 'CHAR("65")', 'CHAR("x")',
    'INDEX({1,2;3,4},"2","1")', 'INDEX({1,2;3,4},"x",1)', 'SUBSTITUTE("aaa","a","b","2")', 'LARGE({1,5,3},"2")',
]

parser, events = make_parser()
for k, formula in enumerate(FORMULAS):
    del events[:]
    random.seed(1000 + k)
    res = parser.parse(formula)
    show('parse %r' % formula, '%r events=%s next=%r' % (res, events, random.random()))

# listeners replacing the value of a call; user functions shadowing the built-in ones
parser2, events2 = make_parser(override={'LOG': 42, 'POWER': error.NUM, 'PV': 'text', 'ATAN2': 0})
parser2.set_function('LN', lambda x: 'user-ln')
for formula in ['LOG10(100)', 'LOG(100)', 'LOG10(LOG(5))', 'POWER(2,2)', 'POWER(2,2)+1', 'PV(0.1,2,3)', 'ATAN2(0,0)',
                'ATAN2(ATAN2(1,1),0)', 'RANDBETWEEN(3,3)', 'LN(3)', 'LOG(9,3)-LN(9)/LN(3)']:
    del events2[:]
    res = parser2.parse(formula)
    show('parse(override) %r' % formula, '%r events=%s' % (res, events2))

# utils.parse_number is looked up at call time: a patched one (numbers kept, anything else read as 8) is seen
saved = utils.parse_number
try:
    utils.parse_number = lambda v: v if isinstance(v, (int, float)) else 8
    for label, thunk in [('LOG10("zzz")', lambda: LOG10('zzz')), ('ATAN2("a","b")', lambda: ATAN2('a', 'b')),
                         ('POWER("a","b")', lambda: POWER('a', 'b')), ('PV("a","b","c")', lambda: PV('a', 'b', 'c')),
                         ('RANDBETWEEN("a","b")', lambda: RANDBETWEEN('a', 'b'))]:
        show('%s with parse_number patched' % label, seeded(5, thunk))
finally:
    utils.parse_number = saved

print('total evaluations: %d' % COUNT[0])
