# -*- coding: utf-8 -*-
"""
Probe for C03 refactoring 1 (value slot + setter of the four call_* hooks of hotxlfp.parser.Parser).

Prints one line per evaluation: parser label, formula, repr() of the outcome and the events the
parser's listeners saw (with their payloads and what the listeners did with the value setter).
Deterministic: no time, no randomness, no memory addresses.
"""
from __future__ import print_function
import os
import sys
import threading

sys.path.insert(0, os.path.dirname(os.path.dirname(os.path.abspath(__file__))))

import hotxlfp  # noqa: E402
from hotxlfp.formulas import error as xlerror  # noqa: E402

COUNT = [0]


def show(value):
    """repr() without memory addresses (functions and other objects print by type name)."""
    if isinstance(value, xlerror.XLError):
        return 'XLError(%r)' % str(value)
    if isinstance(value, dict):
        return '{' + ', '.join('%s: %s' % (show(k), show(value[k])) for k in sorted(value, key=repr)) + '}'
    if isinstance(value, list):
        return '[' + ', '.join(show(v) for v in value) + ']'
    if isinstance(value, tuple):
        return '(' + ', '.join(show(v) for v in value) + ')'
    if value is None or isinstance(value, (bool, int, float, complex, str, bytes)):
        return repr(value)
    if callable(value):
        return '<callable %s>' % getattr(value, '__name__', type(value).__name__)
    return '<%s>' % type(value).__name__


def show_cell(cell):
    def part(pl):
        if pl is None:
            return 'None'
        return '(%r,%r,%r)' % (pl.index, pl.label, pl.is_absolute)
    return 'Cell(%r,row=%s,col=%s)' % (cell.label, part(cell.row), part(cell.col))


SHEET = [
    [1, 2, 3, 'x', None],
    [4, 5.5, -6, 'Yes', True],
    [0, '', 'abc', False, 1e308],
    [xlerror.DIV_ZERO, xlerror.NOT_AVAILABLE, 7, 8, 9],
    [10, 20, 30, 40, 50],
]


def sheet_value(row, col):
    if 0 <= row < len(SHEET) and 0 <= col < len(SHEET[0]):
        return SHEET[row][col]
    return None


class Harness(object):
    """A parser with a recording listener per event and an optional value provider."""

    def __init__(self, label, provide_vars=None, provide_cells=False, override_functions=None,
                 second_listener=False, variables=None, functions=None):
        self.label = label
        self.log = []
        self.parser = hotxlfp.Parser()
        self.provide_vars = provide_vars or {}
        self.provide_cells = provide_cells
        self.override_functions = override_functions or {}
        for k in sorted(variables or {}):
            self.parser.set_variable(k, variables[k])
        for k in sorted(functions or {}):
            self.parser.set_function(k, functions[k])
        self.parser.on('callFunction', self.on_function)
        self.parser.on('callVariable', self.on_variable)
        self.parser.on('callCellValue', self.on_cell)
        self.parser.on('callRangeValue', self.on_range)
        if second_listener:
            self.parser.on('callFunction', self.on_function_2)
            self.parser.on('callVariable', self.on_variable_2)
            self.parser.on('callCellValue', self.on_cell_2)
            self.parser.on('callRangeValue', self.on_range_2)

    # first listeners: record, maybe provide
    def on_function(self, name, args, setter):
        entry = 'F:%s%s' % (name, show(args))
        if name in self.override_functions:
            new = self.override_functions[name]
            if callable(new):
                new = new(args)
            setter(new)
            entry += '->set(%s)' % show(new)
        self.log.append(entry)

    def on_variable(self, name, setter):
        entry = 'V:%s' % name
        if name in self.provide_vars:
            setter(self.provide_vars[name])
            entry += '->set(%s)' % show(self.provide_vars[name])
        self.log.append(entry)

    def on_cell(self, cell, setter):
        entry = 'C:%s' % show_cell(cell)
        if self.provide_cells:
            v = sheet_value(cell.row.index, cell.col.index)
            setter(v)
            entry += '->set(%s)' % show(v)
        self.log.append(entry)

    def on_range(self, start, end, setter):
        entry = 'R:%s..%s' % (show_cell(start), show_cell(end))
        if self.provide_cells:
            rows = []
            for r in range(start.row.index, end.row.index + 1):
                rows.append([sheet_value(r, c) for c in range(start.col.index, end.col.index + 1)])
            setter(rows)
            entry += '->set(%s)' % show(rows)
        self.log.append(entry)

    # second listeners: called after the first ones; they override again, sometimes with None
    def on_function_2(self, name, args, setter):
        if name == 'SUM':
            setter(None)  # no effect
            self.log.append('F2:%s->set(None)' % name)
        elif name == 'MAX':
            setter('second')
            setter(None)
            self.log.append('F2:%s->set(second),set(None)' % name)
        elif name == 'MIN':
            setter(xlerror.NUM)
            self.log.append('F2:%s->set(#NUM!)' % name)
        elif name == 'ABS':
            setter(0)
            setter(False)
            self.log.append('F2:%s->set(0),set(False)' % name)
        else:
            self.log.append('F2:%s' % name)

    def on_variable_2(self, name, setter):
        if name == 'twice':
            setter('from second')
            self.log.append('V2:%s->set' % name)
        elif name == 'nothing':
            setter(None)
            self.log.append('V2:%s->set(None)' % name)
        elif name == 'zero':
            setter(0)
            self.log.append('V2:%s->set(0)' % name)
        elif name == 'empty':
            setter('')
            self.log.append('V2:%s->set(\'\')' % name)
        elif name == 'errvar':
            setter(xlerror.REF)
            self.log.append('V2:%s->set(#REF!)' % name)
        else:
            self.log.append('V2:%s' % name)

    def on_cell_2(self, cell, setter):
        if cell.label == 'Z9':
            setter('z9 from second')
            self.log.append('C2:%s->set' % cell.label)
        elif cell.label == '$Z$9':
            setter(None)
            self.log.append('C2:%s->set(None)' % cell.label)
        else:
            self.log.append('C2:%s' % cell.label)

    def on_range_2(self, start, end, setter):
        if start.label == 'Y1':
            setter([[1, 2], [3, 4]])
            self.log.append('R2:%s->set' % start.label)
        else:
            self.log.append('R2:%s' % start.label)

    def evaluate(self, formula, quiet=False):
        del self.log[:]
        try:
            outcome = show(self.parser.parse(formula))
        except BaseException as e:  # noqa
            outcome = 'RAISED %s(%s)' % (type(e).__name__, e)
        line = '%s | %s | %s | events=%s' % (self.label, formula, outcome, ';'.join(self.log))
        if not quiet:
            COUNT[0] += 1
            print('%04d %s' % (COUNT[0], line))
        return line


# ---------------------------------------------------------------------------------- custom functions

def raise_value(*args):
    raise xlerror.VALUE


def raise_zero(*args):
    return 1 // 0


def raise_key(*args):
    return {}['missing']


def raise_custom_xl(*args):
    raise xlerror.XLError('#CUSTOM!')


def return_error(*args):
    return xlerror.NOT_AVAILABLE


def return_none(*args):
    return None


def count_args(*args):
    return len(args)


def echo(*args):
    return list(args)


def first(*args):
    return args[0]


def needs_two(a, b):
    return [a, b]


def my_sum(*args):
    return 'custom sum of %d' % len(args)


CUSTOM = {
    'RAISEVALUE': raise_value,
    'RAISEZERO': raise_zero,
    'RAISEKEY': raise_key,
    'RAISECUSTOM': raise_custom_xl,
    'RETERR': return_error,
    'RETNONE': return_none,
    'NARGS': count_args,
    'ECHO': echo,
    'FIRST': first,
    'TWO': needs_two,
    'my.func': count_args,
    'lower_case': echo,
    'OVERRIDE': lambda *a: 'original',
    'OVERNONE': lambda *a: 'original kept',
    'OVERERR': lambda *a: 'original',
    'OVERARGS': raise_value,
}

VARS = {
    'foo': 10, 'bar': 2.5, 'txt': 'hello', 'flag': True, 'off': False, 'nil': None,
    'lst': [1, 2, 3], 'grid': [[1, 2], [3, 4]], 'neg': -3, 'big': 1e308, 'emptytxt': '',
    'err': xlerror.DIV_ZERO, 'zero': 0, 'A_B': 'underscore', 'a': 'single letter',
}

FORMULAS = [
    # literals and operators (no hooks)
    '', '1', '1+2', '-3', '2^3', '50%', '.5', '1.5', '"text"', "'single'", '"a"&"b"', '1&2',
    '1/0', '#N/A', '#DIV/0!', '#REF!', '#NULL!', '#NUM!', '#VALUE!', '#NAME?', '#UNKNOWN', '#',
    '1+', ')', '1 2', '{1,2,3}', '{1;2;3}', '{1,2;3,4}', '1=1', '1<>1', '"a"<"b"', '1>=2', '1<=2',
    '(1+2)*3', '1+#N/A', '#N/A&"x"', '"x"&#REF!', '-#NUM!', 'TRUE', 'FALSE', 'NULL', 'TRUE+1',
    # built-in functions
    'SUM(1,2,3)', 'SUM()', 'SUM(1,,3)', 'SUM({1,2,3})', 'SUM({1,2;3,4})', 'SUM(1;2;3)', 'SUM("a")',
    'SUM(1,"2",TRUE)', 'SUM(#N/A,1)', 'MAX(1,5,3)', 'MAX()', 'MIN(4,2,8)', 'MIN()', 'ABS(-4)',
    'ABS("x")', 'ABS()', 'ABS(1,2)', 'SQRT(-1)', 'SQRT(16)', 'LN(0)', 'LOG(-1)', 'IF(TRUE,1,2)',
    'IF(FALSE,1,2)', 'IF(1>2,"a","b")', 'IF(#N/A,1,2)', 'IFERROR(1/0,"safe")', 'ISERROR(#REF!)',
    'ISBLANK(NULL)', 'ISBLANK(nil)', 'AND(TRUE,FALSE)', 'OR(TRUE,FALSE)', 'NOT(TRUE)', 'LEN("hello")',
    'UPPER("abc")', 'CONCATENATE("a","b",1)', 'LEFT("hello",2)', 'MID("hello",2,3)', 'ROUND(2.567,2)',
    'POWER(2,10)', 'MOD(7,3)', 'MOD(7,0)', 'AVERAGE(1,2,3,4)', 'AVERAGE()', 'COUNT(1,"a",TRUE)',
    'COUNTA(1,"a",TRUE,)', 'SUM(SUM(1,2),MAX(3,4))', 'SUM(1,2', 'SUM 1', 'sum(1,2)', 'Sum(1,2)',
    'NOSUCHFUNCTION(1)', 'NOSUCHFUNCTION()', 'PI()', 'INT(5.7)', 'MAX("a")', 'MIN({})',
    'SUM(1\\2\\3)', 'SUM(,)', 'SUM(;;)', 'SUM(,1)', 'SUM(1,)', 'SUM(1,,)', 'MAX(,,)', 'ABS(,)',
    # custom functions
    'RAISEVALUE()', 'RAISEVALUE(1)', 'RAISEZERO()', 'RAISEKEY(1,2)', 'RAISECUSTOM()', 'RETERR()',
    'RETNONE()', 'RETNONE(1)', 'NARGS()', 'NARGS(1)', 'NARGS(1,2,3)', 'NARGS(,)', 'NARGS({1,2})',
    'ECHO()', 'ECHO(1,"a",TRUE,NULL,#N/A)', 'ECHO({1,2;3,4})', 'FIRST()', 'FIRST(7)', 'TWO(1)',
    'TWO(1,2)', 'TWO(1,2,3)', 'my.func(1,2)', 'lower_case(1)', 'MYSUM(1)', '1+RAISEVALUE()',
    'RETERR()&"x"', 'IFERROR(RAISEZERO(),"caught")', 'IFERROR(RAISEVALUE(),"caught")',
    'ISERROR(RAISEKEY())', 'SUM(NARGS(1,2),NARGS())', 'NARGS(RAISEVALUE())', 'OVERRIDE()',
    'OVERRIDE(1,2)', 'OVERNONE()', 'OVERERR()', 'OVERARGS(1,2,3)', 'OVERRIDE()+1',
    # variables
    'foo', 'bar', 'txt', 'flag', 'off', 'nil', 'lst', 'grid', 'neg', 'big', 'emptytxt', 'err', 'zero',
    'A_B', 'a', 'foo+bar', 'foo*neg', 'txt&txt', 'SUM(lst)', 'SUM(grid)', 'missing', 'missing+1',
    'SUM(missing)', 'IFERROR(missing,"dflt")', 'provided', 'provided+1', 'providednone',
    'providedzero', 'providedfalse', 'providedempty', 'providederr', 'providedlist', 'twice',
    'nothing', 'empty', 'errvar', 'foo.bar', 'missing.foo', 'foo.missing', 'provided.x.y',
    'Foo', 'FOO', 'true', 'True', '_x', 'x_', 'nil&"x"', 'nil+1', '-txt', '-nil', 'err+1', 'big*10',
    # cells
    'A1', 'a1', '$A$1', '$A1', 'A$1', 'B2', 'C3', 'D4', 'E5', 'E1', 'E3', 'A4', 'B4', 'Z9', '$Z$9',
    'z9', 'AA10', 'XFD1048576', 'A0', 'A1+B2', 'A1&D1', 'SUM(A1,B1,C1)', 'IF(E2,"t","f")', '-A1',
    '-D1', 'A1/A3', 'ISBLANK(E1)', 'IFERROR(A4,"e")', 'A1.B2', 'A1:', ':A1',
    # ranges
    'A1:B2', 'B2:A1', 'A2:B1', 'B1:A2', '$A$1:$B$2', '$B$2:$A$1', 'A$1:$B2', '$B1:A$2', 'A1:A1',
    'a1:c3', 'SUM(A1:C1)', 'SUM(A1:C2)', 'SUM(C2:A1)', 'SUM(A1:E5)', 'SUM(A5:E5)', 'MAX(A5:E5)',
    'MIN(A1:C2)', 'AVERAGE(A5:E5)', 'COUNT(A1:E3)', 'COUNTA(A1:E3)', 'Y1:Z2', 'Z2:Y1', 'SUM(Y1:Z2)',
    'A1:$B$2', '$A$1:B2', 'A1:B$2', 'AA1:AB2', 'A10:A1', 'E1:A1', 'SUM(A4:B4)', 'A0:B0',
    'A1:B2:C3', 'SUM(A1:B2,C3)', 'A1:B2+1', 'INDEX(A1:C3,2,2)', 'VLOOKUP(4,A1:C3,3,FALSE)',
]


def nested_setup():
    """Parsers whose custom functions / listeners evaluate formulas on another parser or on themselves."""
    inner = Harness('inner', variables={'foo': 'inner foo', 'only_inner': 1},
                    functions={'WHO': lambda: 'inner', 'INNERONLY': lambda: 'inner only'},
                    provide_vars={'provided': 'inner provided'})
    outer = Harness('outer', variables={'foo': 'outer foo', 'only_outer': 2},
                    provide_cells=True, provide_vars={'provided': 'outer provided'})

    def on_inner(formula):
        return inner.parser.parse(formula)['result']

    def on_inner_full(formula):
        return show(inner.parser.parse(formula))

    def on_self(formula):
        return outer.parser.parse(formula)['result']

    def on_self_full(formula):
        return show(outer.parser.parse(formula))

    def on_fresh(formula):
        return show(hotxlfp.Parser().parse(formula))

    outer.parser.set_function('WHO', lambda: 'outer')
    outer.parser.set_function('INNER', on_inner)
    outer.parser.set_function('INNERFULL', on_inner_full)
    outer.parser.set_function('SELF', on_self)
    outer.parser.set_function('SELFFULL', on_self_full)
    outer.parser.set_function('FRESH', on_fresh)

    # a listener of outer that evaluates on inner while outer's call is in progress
    def nested_listener(name, setter):
        if name == 'vianested':
            setter(inner.parser.parse('foo&"/"&WHO()')['result'])
        elif name == 'viaself':
            setter(outer.parser.parse('foo&"/"&WHO()')['result'])
    outer.parser.on('callVariable', nested_listener)
    return inner, outer


NESTED_FORMULAS = [
    'WHO()', 'foo', 'INNER("WHO()")', 'INNER("foo")', 'INNER("only_inner")', 'INNER("only_outer")',
    'INNERFULL("only_outer")', 'INNERFULL("INNERONLY()")', 'INNERONLY()', 'only_inner', 'only_outer',
    'INNER("1+1")+1', 'INNER("1/0")', 'INNERFULL("1/0")', 'INNERFULL("A1")', 'A1', 'INNERFULL("A1:B2")',
    'A1:B2', 'INNERFULL("provided")', 'provided', 'SELF("1+1")', 'SELF("foo")', 'SELF("WHO()")',
    'SELFFULL("missing")', 'SELFFULL("1/0")', 'SELF("SELF(""1"")")', 'SELF("INNER(""foo"")")',
    'SELF("A1")+SELF("B1")', 'SELF("SUM(A1:C1)")', 'INNER("SUM(1,2)")+SUM(3,4)',
    'SUM(INNER("1"),SELF("2"),3)', 'FRESH("foo")', 'FRESH("WHO()")', 'FRESH("SUM(1,2)")', 'FRESH("A1")',
    'vianested', 'viaself', 'vianested&"|"&foo', 'viaself&"|"&INNER("foo")', 'INNER("")', 'SELF("")',
    'INNERFULL(")")', 'SELFFULL(")")', 'INNER("#N/A")', 'IFERROR(INNER("missing"),"outer caught")',
    'INNER("missing")', 'foo&INNER("foo")&foo', 'WHO()&INNER("WHO()")&WHO()',
    'INNER(1)', 'SELF(1)', 'INNER()', 'INNER("1","2")',
]


def main():
    plain = Harness('plain', variables=VARS, functions=CUSTOM)
    overrides = {
        'OVERRIDE': 42,
        'OVERNONE': None,
        'OVERERR': xlerror.REF,
        'OVERARGS': lambda args: len(args),
        'NOSUCHFUNCTION': 'never seen',  # an unknown function raises before the event
        'RAISEVALUE': 'rescued',
        'RAISEZERO': None,
        'PI': 3,
        'MYSUM': 'never seen',
    }
    provided = {
        'provided': 99, 'providednone': None, 'providedzero': 0, 'providedfalse': False,
        'providedempty': '', 'providederr': xlerror.NUM, 'providedlist': [[1, 2], [3, 4]],
        'foo': 'overridden foo', 'nil': 'overridden nil', 'off': None,
    }
    rich = Harness('rich', variables=VARS, functions=dict(CUSTOM, SUM=my_sum, MYSUM=my_sum),
                   provide_vars=provided, provide_cells=True, override_functions=overrides)
    double = Harness('double', variables=VARS, functions=CUSTOM, provide_vars=provided,
                     provide_cells=True, override_functions=overrides, second_listener=True)

    alone = {}
    for h in (plain, rich, double):
        for f in FORMULAS:
            alone[(h.label, f)] = h.evaluate(f)

    # each parser is unaffected by what happened on the others: registering on one is invisible elsewhere
    bare = Harness('bare')
    for f in ['foo', 'RAISEVALUE()', 'NARGS(1)', 'provided', 'A1', 'A1:B2', 'OVERRIDE()', 'SUM(1,2)',
              'MYSUM(1)', 'TRUE', 'nil', 'twice', 'Z9', 'Y1:Z2']:
        bare.evaluate(f)
    print('bare variables:', show(bare.parser.variables))
    print('bare functions:', show(bare.parser.functions))
    print('plain functions:', sorted(plain.parser.functions))
    print('rich functions:', sorted(rich.parser.functions))

    # parser without any listener at all
    nolisten = hotxlfp.Parser()
    nolisten.set_variable('v', 5)
    for f in ['v', 'w', 'A1', 'A1:B2', 'SUM(1,2)', 'SUM(A1,1)', 'SUM(A1:B2)', 'NOPE()', 'v+A1', '"s"&A1']:
        COUNT[0] += 1
        print('%04d nolisten | %s | %s' % (COUNT[0], f, show(nolisten.parse(f))))

    # direct calls of the hooks (unusual argument counts and types)
    direct = Harness('direct', variables=VARS, functions=CUSTOM, provide_cells=True,
                     provide_vars={'provided': 1}, override_functions={'OVERRIDE': 42})
    calls = [
        ('call_function', ('SUM',)), ('call_function', ('SUM', None)), ('call_function', ('SUM', [])),
        ('call_function', ('SUM', [1, 2])), ('call_function', ('SUM', (1, 2))),
        ('call_function', ('NARGS', [None, None])), ('call_function', ('NOPE',)),
        ('call_function', ('NOPE', [1])), ('call_function', ('RAISEVALUE', [])),
        ('call_function', ('RAISEZERO', [])), ('call_function', ('OVERRIDE', [1])),
        ('call_function', ('OVERRIDE',)), ('call_function', (None,)), ('call_function', ('sum', [1])),
        ('call_function', ('TWO', [1])), ('call_function', ('SUM', 5)), ('call_function', ()),
        ('call_variable', ('foo',)), ('call_variable', ('nil',)), ('call_variable', ('missing',)),
        ('call_variable', ('provided',)), ('call_variable', (None,)), ('call_variable', (1,)),
        ('call_variable', ()), ('call_variable', ('TRUE',)), ('call_variable', ('NULL',)),
        ('call_cell_value', ('A1',)), ('call_cell_value', ('a1',)), ('call_cell_value', ('$c$3',)),
        ('call_cell_value', ('ZZ99',)), ('call_cell_value', ('nonsense',)), ('call_cell_value', ('',)),
        ('call_cell_value', (None,)), ('call_cell_value', (1,)), ('call_cell_value', ()),
        ('call_cell_value', ('A1\n',)),
        ('call_range_value', ('A1', 'B2')), ('call_range_value', ('b2', 'a1')),
        ('call_range_value', ('A2', 'B1')), ('call_range_value', ('$B$1', 'A$2')),
        ('call_range_value', (None, 'A1')), ('call_range_value', ('A1', None)),
        ('call_range_value', (None, None)), ('call_range_value', ('A1', 'bad')),
        ('call_range_value', ('bad', 'A1')), ('call_range_value', ('A1',)), ('call_range_value', (1, 2)),
        ('call_range_value', ('E5', 'A1')), ('call_range_value', ('A1', 'A1')),
    ]
    for method, args in calls:
        del direct.log[:]
        try:
            out = show(getattr(direct.parser, method)(*args))
        except BaseException as e:  # noqa
            out = 'RAISED %s(%s)' % (type(e).__name__, e)
        xlerror.clear_tracebacks()
        COUNT[0] += 1
        print('%04d direct | %s%s | %s | events=%s' % (COUNT[0], method, show(args), out, ';'.join(direct.log)))

    # a setter kept by a listener and used after the call has returned has no effect on later calls
    kept = []
    keeper = hotxlfp.Parser()
    keeper.set_variable('v', 1)
    keeper.on('callVariable', lambda name, setter: kept.append(setter))
    keeper.on('callFunction', lambda name, args, setter: kept.append(setter))
    keeper.on('callCellValue', lambda cell, setter: kept.append(setter))
    keeper.on('callRangeValue', lambda a, b, setter: kept.append(setter))
    for f in ['v', 'SUM(v,1)', 'A1', 'A1:B2', 'v', 'SUM(v,1)', 'A1', 'A1:B2', 'w']:
        for s in kept:
            s('late')
        COUNT[0] += 1
        print('%04d keeper | %s | %s | setters kept=%d distinct=%d names=%s' % (
            COUNT[0], f, show(keeper.parse(f)), len(kept), len(set(id(s) for s in kept)),
            sorted(set(s.__name__ for s in kept))))

    # nested evaluations
    inner, outer = nested_setup()
    nested_alone = {}
    for f in NESTED_FORMULAS:
        nested_alone[f] = outer.evaluate(f)
    for f in ['WHO()', 'foo', 'only_outer', 'only_inner', 'SELF("1")', 'provided', 'A1', 'vianested']:
        inner.evaluate(f)

    # concurrent evaluations on different parsers: same outcomes as alone
    mismatches = []

    def worker(h, formulas, out):
        for f in formulas:
            out.append((f, h.evaluate(f, quiet=True)))

    for round_no in range(3):
        outs = {}
        threads = []
        for h in (plain, rich, double):
            outs[h.label] = []
            formulas = FORMULAS if round_no % 2 == 0 else list(reversed(FORMULAS))
            threads.append(threading.Thread(target=worker, args=(h, formulas, outs[h.label])))
        outs['outer'] = []
        threads.append(threading.Thread(target=worker, args=(outer, NESTED_FORMULAS, outs['outer'])))
        for t in threads:
            t.start()
        for t in threads:
            t.join()
        for label in sorted(outs):
            for f, line in outs[label]:
                expected = nested_alone[f] if label == 'outer' else alone[(label, f)]
                if line != expected:
                    mismatches.append((round_no, label, f, line, expected))
        print('concurrent round %d: %d evaluations, %d mismatches so far' % (
            round_no, sum(len(v) for v in outs.values()), len(mismatches)))
    for m in mismatches:
        print('MISMATCH', m)

    print('evaluations printed: %d' % COUNT[0])


if __name__ == '__main__':
    main()
