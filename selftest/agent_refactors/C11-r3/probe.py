# -*- coding: utf-8 -*-
"""
Probe for C11 refactoring 3 (criteria predicates: closures -> functools.partial, criterion parsed once).
Prints a deterministic transcript: one line per evaluation.
"""
import os
import sys
import random

sys.path.insert(0, os.path.dirname(os.path.dirname(os.path.abspath(__file__))))

import hotxlfp  # noqa: E402
from hotxlfp import Parser  # noqa: E402
from hotxlfp.formulas import utils, error, statistical, mathtrig  # noqa: E402

COUNT = [0]


def out(kind, what, outcome):
    COUNT[0] += 1
    print('%04d %s %s -> %s' % (COUNT[0], kind, what, outcome))


def outcome_of(fn, *args):
    try:
        return 'value ' + repr(fn(*args))
    except BaseException as e:  # noqa
        return 'raised %s %r' % (type(e).__name__, str(e))


class Noisy(object):
    """ an item whose comparisons are logged (order and operands of every comparison) """

    def __init__(self, v, log):
        self.v = v
        self.log = log

    def _cmp(self, name, other, res):
        self.log.append('%s(%r,%r)' % (name, self.v, other))
        return res

    def __eq__(self, other):
        return self._cmp('eq', other, self.v == other)

    def __ne__(self, other):
        return self._cmp('ne', other, self.v != other)

    def __lt__(self, other):
        return self._cmp('lt', other, self.v < other)

    def __le__(self, other):
        return self._cmp('le', other, self.v <= other)

    def __gt__(self, other):
        return self._cmp('gt', other, self.v > other)

    def __ge__(self, other):
        return self._cmp('ge', other, self.v >= other)

    def __radd__(self, other):
        self.log.append('radd(%r,%r)' % (other, self.v))
        return other + self.v

    __hash__ = None

    def __repr__(self):
        return 'Noisy(%r)' % (self.v,)


# ---------------------------------------------------------------- 1. the predicates themselves
CRITERIA = [
    '>2', '<2', '>=2', '<=2', '<>2', '=2', '2', '2.0', '2.5', '>2.5', '<-1', '>-0', '-3', '=-3',
    '> 2', '<> 3', '= 2', ' 2', '2 ', '1e2', '>1e2', '=1E-2', '0x10', '1_0', '>1_0', 'inf', '<inf', 'nan', '<>nan',
    'foo', '=foo', '<>foo', '>foo', '<foo', '>=b', 'Foo', 'foo bar', 'f*', '*o', 'f?o', '?', '*', '??', 'f[a-o]o', '[!f]oo',
    '=f*', '<>f*', '>f*', '*=*', 'a=b', 'a>b', '>', '<', '=', '<>', '>=', '<=', '==', '=<', '><', '>>1', '<<1', '=>1', '=<1',
    '<>=1', '>=<', '===', 'TRUE', 'True', 'FALSE', '=TRUE', '', ' ', '\n', '\n1', '1\n', 'a\nb', '>1\n', u'\xe1\xe0 \xe3',
    u'\xe1*', u'>\xe9', '0', '=0', '<>0', '00', '007', '+5', '>+5', '1,5', '1.', '.5', '>.5', '1..2', '#VALUE!', '#N/A', '=#DIV/0!',
    '9' * 30, '>' + '9' * 30, '1' * 5000, '?*', '*?*', '**', '\\*', '~*', '~?', 'a~*',
]
BAD_CRITERIA = [2, 2.5, None, True, False, b'>2', ['>2'], ('>2',), error.VALUE, error.NUM, {'>2': 1}, 1 + 2j]
ITEMS = [
    0, 1, 2, 3, -1, -3, 2.0, 2.5, -0.0, 100, 0.01, 16, 10, 5, 0.5, 7, float('inf'), float('-inf'), float('nan'), 10 ** 29 * 9 + 5,
    int('9' * 30), True, False, None, '', ' ', '2', ' 2', '2 ', 'foo', 'Foo', 'FOO', 'foo bar', 'fo', 'f', 'fao', 'boo', 'b', 'c', 'f*', '?', '*',
    'a=b', 'a>b', '>', '<', '=', 'TRUE', 'True', 'a\nb', '\n', u'\xe1\xe0 \xe3', u'\xe1b', u'\xe9', u'\xea', '1,5', '#VALUE!', '\\*', '~*',
    1 + 2j, 2 + 0j, error.VALUE, error.NUM, error.DIV_ZERO, [2], (2,), [], {}, b'foo', b'2',
]

for crit in CRITERIA + BAD_CRITERIA:
    try:
        pred = utils.parse_criteria(crit)
    except BaseException as e:  # noqa
        out('criteria', repr(crit), 'parse raised %s %r' % (type(e).__name__, str(e)))
        continue
    res = []
    for item in ITEMS:
        try:
            r = pred(item)
            res.append(repr(r))
        except BaseException as e:  # noqa
            res.append('!%s:%s' % (type(e).__name__, str(e)))
    out('criteria', repr(crit), ' '.join(res))
    # the same predicate used a second time gives the same answers
    res2 = []
    for item in ITEMS:
        try:
            res2.append(repr(pred(item)))
        except BaseException as e:  # noqa
            res2.append('!%s:%s' % (type(e).__name__, str(e)))
    out('criteria-again', repr(crit), 'same' if res2 == res else 'DIFFERENT ' + ' '.join(res2))

# order and operands of the comparisons a predicate makes on an item
for crit in ['>2', '<2', '>=2', '<=2', '<>2', '=2', '2', '2.0', 'foo', 'f*', '?', '=foo', '<>foo', '1e2', ' 2', '007', 'TRUE']:
    log = []
    pred = utils.parse_criteria(crit)
    res = []
    for v in [1, 2, 3, 2.0, 'foo', 7, 100]:
        try:
            res.append(repr(pred(Noisy(v, log))))
        except BaseException as e:  # noqa
            res.append('!%s:%s' % (type(e).__name__, str(e)))
    out('criteria-noisy', repr(crit), ' '.join(res) + ' | ' + ' '.join(log))

# two predicates alive at once do not share anything
p1 = utils.parse_criteria('>2')
p2 = utils.parse_criteria('<2')
p3 = utils.parse_criteria('3')
p4 = utils.parse_criteria('f*')
p5 = utils.parse_criteria('b*')
for item in [1, 2, 3, 'foo', 'bar']:
    out('criteria-pair', repr(item), ' '.join(outcome_of(p, item) for p in (p1, p2, p3, p4, p5)))

# ---------------------------------------------------------------- 2. through the formulas (direct calls)
RANGES = [
    [1, 2, 3, 4], [4, 3, 2, 1], [1, 4, 5, 100], [], [0], [2], [2.0, 2, '2', True], [None, '', 0, False], ['foo', 'bar', 'f', 'foo bar'],
    [[1, 2], [3, 4]], [[1, [2, [3]]], 4], (1, 2, 3), ((1, 2), [3, 4]), [1, 'a', None, True, 2.5, -3], [error.VALUE, 1, 2], [1, error.NUM],
    [float('nan'), 1.5, float('inf')], [1e308, 1e308, -1e308], [0.1, 0.2, 0.3, 0.1, 0.2, 0.3, 1e16, -1e16], 5, 2, 'foo', None, True,
]
CRITS = ['>2', '<3', '>=2', '<>2', '=2', '2', 'foo', 'f*', '?', '*', '<>foo', '>a', '1e0', ' 2', '', '=<1', 3, None]
for name, fn in (('SUMIF', mathtrig.SUMIF), ('COUNTIF', statistical.COUNTIF), ('AVERAGEIF', statistical.AVERAGEIF)):
    for rng in RANGES:
        for crit in CRITS:
            out(name, '%r, %r' % (rng, crit), outcome_of(fn, rng, crit))
for rng, crit, avg in [
    ([1, 2, 3, 4], '>2', [4, 3, 2, 1]), ([1, 2, 3, 4], '>2', [4, 3, 2]), ([1, 2, 3, 4], '>2', [4, 3, 2, 1, 9]), ([1, 2, 3, 4], '>2', []),
    ([1, 2, 3, 4], '>2', ['4', '3', '2', '1']), ([1, 2, 3, 4], '>2', ['a', 'b', 'c', 'd']), ([1, 2, 3, 4], '>5', ['a', 'b', 'c', 'd']),
    ([1, 2, 3, 4], '<3', ['a', 'b', 3, 4]), ([1, 2, 3, 4], '>2', [[4, 3], [2, 1]]), ([[1, 2], [3, 4]], '>2', [4, 3, 2, 1]),
    ([1, 2, 3, 4], '>2', 7), ([1, 2, 3, 4], '>2', 0), ([1, 2, 3, 4], '>2', None), ([1, 2, 3, 4], '>2', [None, None, True, 2.5]),
    ([1, 2, 3, 4], '>2', [1, 2, error.NUM, 4]), ([1, 2, 3, 4], '<2', [1, 2, error.NUM, 4]), (['a', 'b', 'ab'], 'a*', [1, 2, 3]),
    (['a', 'b', 'ab'], 'a', [1, 2, 3]), (['a', 'b', 'ab'], '<>a', [1, 2, 3]), (['a', 1, None], '1', [10, 20, 30]), ([], '>2', [1]), ([1], 2, [1]),
]:
    out('AVERAGEIF3', '%r, %r, %r' % (rng, crit, avg), outcome_of(statistical.AVERAGEIF, rng, crit, avg))

IFS_CASES = [
    ([1, 2, 3, 4], [1, 2, 3, 4], '>2'), ([1, 2, 3, 4], [4, 3, 2, 1], '>2'), ([1, 2, 3, 4], [4, 3, 2, 1], '>2', [1, 2, 3, 4], '<> 3'),
    ([1, 2, 3, 4], [4, 3, 2, 1], '>3', [1, 2, 3, 4], '<>3'), ([1, 4, 5, 100], [1, 4, 5, 100], '<>200', [1, 4, 300, 100], '<100', [2, -3, 5, 2], '>1'),
    ([1, 4, 5], '>1', '<5'), ([1, 4, 5], [1, 4, 5, 100], '<5'), ([1, 4, 5, 100], [1, 4, 5], '<500'), ([1, 4, 5], [1, 4, 5]), ([1, 4, 5],),
    ([1, 4, 5], [1, 4, 5], '>1', [1, 4, 5]), ([], [], '>1'), ([1, 2], ['a', 'b'], 'a'), ([1, 2, 3], ['a', 'b', 'ab'], 'a*', ['x', 'y', 'xy'], '?y'),
    ([1, 2, 3], ['a', 'b', 'ab'], '*', [1, 2, 3], '>1'), ([1, 2, 3], ['a', 'b', 'ab'], '>1'), ([1, 2, 3], [1, None, 3], '>1'), ([1, 2, 3], [1, None, 3], '1'),
    (['a', 2, 3], [1, 2, 3], '>0'), (['a', 2, 3], [1, 2, 3], '>1'), ([1.5, 2.5, -3.5], [True, False, True], 'TRUE'), ([1.5, 2.5, -3.5], [1, 0, 1], '1.0'),
    ((1, 2, 3), (3, 2, 1), '>=2'), ([1, 2, 3], 5, '>1'), (5, [1, 2, 3], '>1'), ('abc', ['a', 'b', 'c'], 'a'), ([1, 2, 3], [1, 2, 3], 2), ([1, 2, 3], [1, 2, 3], ''),
    ([1, 2, 3], [1, 2, 3], '=<2'), ([1, 2, 3], [1, 2, 3], '>1', [1, 2, 3], None), ([error.VALUE, 2, 3], [1, 2, 3], '>1'), ([error.VALUE, 2, 3], [1, 2, 3], '>0'),
    ([1, 2, 3], [error.VALUE, 2, 3], '>1'), ([1, 2, 3], [error.VALUE, 2, 3], '2'), ([[1, 2], [3, 4]], [[1, 2], [3, 4]], '>1'), ([1, 2], [[1, 2], [3, 4]], '>1'),
    ([-1, -2, -3], [1, 2, 3], '>1'), ([-1, -2, -3], [1, 2, 3], '>5'), ([0.1, 0.2, 0.3, 1e16, -1e16], [1, 1, 1, 1, 1], '1'), ([3, 1, 2], {0: 5, 1: 6, 2: 7}, '>5'),
    ({0: 5, 1: 6}, [1, 2], '>0'), (None, [1, 2], '>0'), ([1, 2, 3], [1, 2, 3], '>1', [1, 2], '>0'), ([1, 2, 3], [1, 2, 3], '>2', [1, 2], '>0'),
]
for name, fn in (('SUMIFS', mathtrig.SUMIFS), ('AVERAGEIFS', statistical.AVERAGEIFS), ('MAXIFS', statistical.MAXIFS)):
    for case in IFS_CASES:
        out(name, repr(case), outcome_of(fn, *case))

# noisy items: which comparisons are made, on what, in what order
for name, fn in (('SUMIF', mathtrig.SUMIF), ('COUNTIF', statistical.COUNTIF), ('AVERAGEIF', statistical.AVERAGEIF)):
    for crit in ['>1', '2', '<>2', 'f*']:
        log = []
        rng = [Noisy(1, log), Noisy(2, log), [Noisy(3, log)], 2]
        out(name + '-noisy', repr(crit), outcome_of(fn, rng, crit) + ' | ' + ' '.join(log))
for name, fn in (('SUMIFS', mathtrig.SUMIFS), ('AVERAGEIFS', statistical.AVERAGEIFS), ('MAXIFS', statistical.MAXIFS)):
    for c1, c2 in [('>1', '<3'), ('2', '>0'), ('<>2', '3'), ('>5', '>0')]:
        log = []
        r1 = [Noisy(1, log), Noisy(2, log), Noisy(3, log)]
        r2 = [Noisy(10, log), Noisy(2, log), Noisy(3, log)]
        out(name + '-noisy', repr((c1, c2)), outcome_of(fn, [1, 2, 3], r1, c1, r2, c2) + ' | ' + ' '.join(log))

# ---------------------------------------------------------------- 3. through the parser, with events
FORMULAS = [
    'SUMIF({1;4;5}, ">0")', 'SUMIF({1;4;5}, ">1")', 'SUMIF({1;4;5}, "4")', 'SUMIF({1;4;5}, "<>4")', 'SUMIF({1;4;5}, ">=4")', 'SUMIF({1;4;5}, "<=4")',
    'SUMIF({1;4;5}, "=4")', 'SUMIF({1;4;5}, "<4")', 'SUMIF({1;4;5}, ">9")', 'SUMIF({1;4;5}, 4)', 'SUMIF({1;4;5}, "")', 'SUMIF({1;"a";5}, ">0")',
    'SUMIF({1;"a";5}, "a")', 'SUMIF({1,2;3,4}, ">1")', 'SUMIF(A1:B2, ">1")', 'SUMIF(R, ">1.5")', 'SUMIF(R, "<>")', 'SUMIF(R, "2.50")', 'SUMIF(MIXED, "2")',
    'SUMIF(MIXED, ">0")', 'SUMIF(NUMS, ">0")', 'SUMIF(NUMS, "<0")', 'SUMIF(NUMS, "0")', 'SUMIF(ERRS, ">0")', 'SUMIF(#N/A, ">0")', 'SUMIF({1;2}, #N/A)',
    'COUNTIF({1;3};">2")', 'COUNTIF({"foo";"bar"};"foo")', 'COUNTIF({"foo bar";"baz"};"foo bar")', u'COUNTIF({"\xe1\xe0 \xe3\xe2\xe4";"baz"}; "\xe1\xe0 \xe3\xe2\xe4")',
    u'COUNTIF({"\xe1\xe0 \xe3,\xe2,\xe4";"baz"}; "\xe1\xe0 \xe3,\xe2,\xe4")', 'COUNTIF({"foo";"bar";"baz"};"ba*")', 'COUNTIF({"foo";"bar";"baz"};"ba?")',
    'COUNTIF({"foo";"bar";"baz"};"*")', 'COUNTIF({"foo";"bar";"baz";1};"*")', 'COUNTIF({"foo";"bar";"baz";1};"<>foo")', 'COUNTIF({"foo";"bar";"baz"};"?a?")',
    'COUNTIF({"foo";"Foo";"FOO"};"foo")', 'COUNTIF({"foo";"Foo";"FOO"};"f*")', 'COUNTIF(MIXED;"2")', 'COUNTIF(MIXED;"<>2")', 'COUNTIF(MIXED;">1")', 'COUNTIF(MIXED;"TRUE")',
    'COUNTIF(WORDS;"a*")', 'COUNTIF(WORDS;"*a")', 'COUNTIF(WORDS;"*a*")', 'COUNTIF(WORDS;"a")', 'COUNTIF(WORDS;"=a")', 'COUNTIF(WORDS;">a")', 'COUNTIF(NUMS;">=-1")',
    'COUNTIF(NUMS;"1e0")', 'COUNTIF(NUMS;" 1")', 'COUNTIF(NUMS;"=<1")', 'COUNTIF(NUMS;">>1")', 'COUNTIF(EMPTY;">1")', 'COUNTIF(5;"5")', 'COUNTIF(5;">4")', 'COUNTIF("a";"a")',
    'AVERAGEIF({1;2;3;4};">2")', 'AVERAGEIF({1;2;3;4};">2";{4;3;2;1})', 'AVERAGEIF({1;2;3;4};">9")', 'AVERAGEIF({1;2;3;4};"2")', 'AVERAGEIF({1;2;3;4};"<>2")',
    'AVERAGEIF(WORDS;"a*";{1;2;3;4;5})', 'AVERAGEIF(WORDS;"zz";{1;2;3;4;5})', 'AVERAGEIF(NUMS;">0")', 'AVERAGEIF(MIXED;">0")', 'AVERAGEIF(EMPTY;">0")',
    'SUMIFS({1;4;5;100}, {1;4;5;100},"<>200")', 'SUMIFS({1;4;5}, {3;5;9},"<7")', 'SUMIFS({1;4;5}, ">1","<5")', 'SUMIFS({1;4;5}, {1;4;5;100},"<5")',
    'SUMIFS({1;4;5;100}, {1;4;5;100},"<>200", {1;4;300;100},"<100", {2;-3;5;2},">1")', 'SUMIFS({1;4;5}, {"a";"b";"ab"},"a*")', 'SUMIFS({1;4;5}, {"a";"b";"ab"},"b")',
    'SUMIFS({1;4;5}, {"a";"b";"ab"},"<>b")', 'SUMIFS({1;4;5}, {3;5;9},"5")', 'SUMIFS({1;4;5}, {3;5;9},"=5", {1;1;1}, "1")', 'SUMIFS({1;4;5}, {3;5;9},">99")',
    'SUMIFS(NUMS, NUMS, ">0")', 'SUMIFS(NUMS, NUMS, ">0", NUMS, "<2")', 'SUMIFS(NUMS, NUMS)', 'SUMIFS(NUMS)', 'SUMIFS(NUMS, NUMS, 1)',
    'AVERAGEIFS({1;2;3;4};{1;2;3;4};">2")', 'AVERAGEIFS({1;2;3;4};{4;3;2;1};">2")', 'AVERAGEIFS({1;2;3;4};{4;3;2;1};">2";{1;2;3;4};"<> 3")',
    'AVERAGEIFS({1;2;3;4};{4;3;2;1};">9")', 'AVERAGEIFS({1;2;3;4};{"a";"b";"c";"a"};"a")', 'AVERAGEIFS({1;2;3;4};{"a";"b";"c";"a"};"?")', 'AVERAGEIFS(5;{1};">0")',
    'AVERAGEIFS(NUMS; NUMS; "<>0")', 'AVERAGEIFS(NUMS; NUMS; "<>0"; NUMS)', 'AVERAGEIFS(NUMS; WORDS; "a*")',
    'MAXIFS({1;2;3;4};{1;2;3;4};">2")', 'MAXIFS({1;2;3;4};{4;3;2;1};">2")', 'MAXIFS({1;2;3;4};{4;3;2;1};">3";{1;2;3;4};"<>3")', 'MAXIFS({1;2;3;4};{4;3;2;1};">9")',
    'MAXIFS({-1;-2};{1;2};">0")', 'MAXIFS({-1;-2};{1;2};"2")', 'MAXIFS(NUMS; NUMS; "<1")', 'MAXIFS(NUMS; WORDS; "*a")', 'MAXIFS(5;{1};">0")',
    'SUM(SUMIF({1;4;5}, ">1"), COUNTIF({1;3};">2"))', 'IF(COUNTIF(WORDS;"a*")>1, "many", "few")', 'SUMIF({1;4;5}, ">" & 1)', 'COUNTIF(WORDS; "a" & "*")',
    'SUMIF({1;4;5}, CRIT)', 'COUNTIF(WORDS, WCRIT)', 'SUMIF({1;4;5}, NOCRIT)', 'SUMIF({1;4;5}, UNDEFINED)',
]


def make_parser(events):
    p = Parser(debug=False)
    p.set_variable('R', [[1, 2.5], [2.5, 4]])
    p.set_variable('MIXED', [2, '2', 2.0, True, None, 'a', -1])
    p.set_variable('NUMS', [-1, 0, 1, 2.5, 1, -0.0])
    p.set_variable('ERRS', [1, error.VALUE, 2])
    p.set_variable('WORDS', ['a', 'ab', 'ba', 'b', 'A'])
    p.set_variable('EMPTY', [])
    p.set_variable('CRIT', '>=4')
    p.set_variable('WCRIT', '?a')
    p.set_variable('NOCRIT', None)

    def on_function(name, args, setter):
        events.append('callFunction %s %r' % (name, args))

    def on_variable(name, setter):
        events.append('callVariable %s' % name)

    def on_range(start, end, setter):
        events.append('callRangeValue %s:%s' % (start.label, end.label))
        setter([[1, 2], [3, 4]])

    p.on('callFunction', on_function)
    p.on('callVariable', on_variable)
    p.on('callRangeValue', on_range)
    return p


events1 = []
events2 = []
parser1 = make_parser(events1)
parser2 = make_parser(events2)
for rnd in (1, 2):
    for f in FORMULAS:
        del events1[:]
        out('parse%d' % rnd, f, repr(parser1.parse(f)) + ' | ' + ' ; '.join(events1))
for f in FORMULAS:
    del events2[:]
    out('parse-second-parser', f, repr(parser2.parse(f)) + ' | ' + ' ; '.join(events2))

# ---------------------------------------------------------------- 4. randomised agreement with a plain reference
rng = random.Random(1103)
OPS = ['>', '<', '>=', '<=', '<>', '=', '']
for k in range(120):
    n = rng.randint(0, 8)
    vals = [rng.choice([rng.randint(-5, 5), rng.randint(-5, 5) / 2.0, rng.choice(['a', 'ab', 'b', '3', '']), None, True]) for _ in range(n)]
    sums = [rng.randint(-9, 9) for _ in range(n)]
    if rng.random() < 0.3:
        crit = rng.choice(['a', 'a*', '?', '*b', 'ab', '<>a', '3', '3.0', '<>'])
    else:
        crit = rng.choice(OPS) + str(rng.choice([rng.randint(-5, 5), rng.randint(-5, 5) / 2.0]))
    out('random', '%r %r %r' % (vals, sums, crit), ' / '.join([
        outcome_of(mathtrig.SUMIF, vals, crit), outcome_of(statistical.COUNTIF, vals, crit), outcome_of(statistical.AVERAGEIF, vals, crit, sums),
        outcome_of(mathtrig.SUMIFS, sums, vals, crit), outcome_of(statistical.AVERAGEIFS, sums, vals, crit), outcome_of(statistical.MAXIFS, sums, vals, crit),
    ]))

print('evaluations: %d' % COUNT[0])
