# -*- coding: utf-8 -*-
"""
Probe for C18 refactoring 4 (INDEX: early returns / helpers / dead branch removed; CHOOSE: one length, one guard).
Prints one line per evaluation: the input and repr() of the outcome; for the
parser-driven evaluations also the events that were seen.
"""
from __future__ import print_function
import os
import sys
import random

sys.path.insert(0, os.path.dirname(os.path.dirname(os.path.abspath(__file__))))

import hotxlfp  # noqa: E402
from hotxlfp.formulas import error  # noqa: E402
from hotxlfp.formulas import lookupandreference as lr  # noqa: E402
from hotxlfp.formulas.utils import DEFAULT  # noqa: E402

COUNT = [0]


def show(kind, label, outcome):
    COUNT[0] += 1
    print('%04d %s %s => %s' % (COUNT[0], kind, label, outcome))


def rep(value):
    return 'DEFAULT' if value is DEFAULT else repr(value)


RANGES = {
    'A1:C1': [[10, 20, 30]],
    'A1:A3': [[10], [40], [70]],
    'A1:C3': [[10, 20, 30], [40, 50, 60], [70, 80, 90]],
    'B2:B2': [[50]],
    'D1:F1': [1, 2, 3],
    'D2:E3': [['a', None], [True, '']],
}
CELLS = {'A1': 10, 'B1': 2, 'C1': 0, 'D1': '2', 'E1': None, 'F1': -1}


def make_parser(events):
    p = hotxlfp.Parser()

    def on_call(name, args, setter):
        events.append('%s(%r)' % (name, args))

    def on_range(start, end, setter):
        key = '%s:%s' % (start.label, end.label)
        events.append('range ' + key)
        setter(RANGES.get(key))

    def on_cell(cell, setter):
        events.append('cell ' + cell.label)
        setter(CELLS.get(cell.label))

    p.on('callFunction', on_call)
    p.on('callRangeValue', on_range)
    p.on('callCellValue', on_cell)
    p.set_variable('GRID', [[1, 2, 3], [4, 5, 6]])
    p.set_variable('LINE', [7, 8, 9])
    p.set_variable('EMPTY', [])
    p.set_variable('EMPTYROW', [[]])
    p.set_variable('RAGGED', [[1, 2], [3]])
    p.set_variable('HALF', [1, [2, 3]])
    p.set_variable('WORDS', ['abc', 'de'])
    p.set_variable('WITHERR', [[1, error.NUM], [error.NOT_AVAILABLE, 4]])
    p.set_variable('TUP', (1, 2, 3))
    p.set_variable('BLANK', None)
    p.set_variable('TWO', 2)
    p.set_variable('NAN', float('nan'))
    p.set_variable('INF', float('inf'))
    p.set_variable('HALFNUM', 0.5)
    return p


def run_formula(p, tag, events, formula):
    del events[:]
    try:
        outcome = repr(p.parse(formula))
    except BaseException as e:  # parse() does not let anything through; be sure to see it if it did
        outcome = 'RAISED %s(%s)' % (type(e).__name__, e)
    show('F[%s]' % tag, formula, '%s events=%s' % (outcome, ' | '.join(events)))


def formulas():
    out = []
    arrays = ['{1,2,3;4,5,6}', '{1,2,3}', '{1;2;3}', '{5}', '7', '"text"', 'GRID', 'LINE', 'EMPTY', 'EMPTYROW',
              'RAGGED', 'HALF', 'WORDS', 'WITHERR', 'TUP', 'BLANK', 'A1:C3', 'A1:C1', 'A1:A3', 'B2:B2', 'D1:F1',
              'D2:E3', 'Z1:Z2', '{1,2}*2', '{"a","b";"c","d"}', 'TRUE', '1/0']
    positions = ['', '0', '1', '2', '3', '4', '-1', '1.5', '2.0', '"2"', '"x"', 'TRUE', 'FALSE', '1/0', 'BLANK',
                 'TWO', 'NAN', 'INF', 'HALFNUM', '"nan"', '" 1 "', 'B1', 'E1']
    for a in arrays:
        out.append('INDEX(%s)' % a)
        for r in positions:
            out.append('INDEX(%s,%s)' % (a, r))
    for a in arrays:
        for r in positions[:16]:
            for c in positions[:16]:
                out.append('INDEX(%s,%s,%s)' % (a, r, c))
    out += ['INDEX()', 'INDEX(,1,1)', 'INDEX(,,)', 'INDEX({1,2},1,1,1)', 'INDEX({1,2},1,1,2)', 'INDEX({1,2},1,1,1,1)',
            'INDEX({1,2;3,4};2;2)', 'INDEX({1\\2;3\\4};1;2)', 'SUM(INDEX({1,2,3;4,5,6},2,0))',
            'SUM(INDEX({1,2,3;4,5,6},0,3))', 'SUM(INDEX({1,2,3;4,5,6},0,0))', 'INDEX(INDEX({1,2,3;4,5,6},2,0),1,3)',
            'INDEX(INDEX({1,2,3;4,5,6},2,0),3)', 'INDEX(INDEX({1,2,3;4,5,6},0,2),2)', 'index({1,2,3},2)',
            'INDEX({1,2,3},MATCH(2,{1,2,3},0))', 'INDEX({1,2,3;4,5,6},MATCH(4,{1,4},0),MATCH(6,{4,5,6},0))',
            'INDEX({1,2,3},CHOOSE(2,1,3))', 'CHOOSE(INDEX({1,2,3},2),"a","b","c")']
    # CHOOSE
    indexes = ['0', '1', '2', '3', '4', '5', '-1', '254', '255', '256', '1.5', '2.0', '"2"', '"x"', '""', 'TRUE',
               'FALSE', '1/0', '', 'BLANK', 'TWO', 'NAN', 'INF', 'HALFNUM', '{1,2}', 'LINE', 'B1', 'D1', 'E1', 'F1']
    tails = ['', ',"a"', ',"a","b"', ',"a","b","c"', ',{1,2},{3,4},5', ',1/0,2', ',,', ',A1:C1,D1:F1', ',GRID,LINE,EMPTY']
    for i in indexes:
        for t in tails:
            out.append('CHOOSE(%s%s)' % (i, t))
    many = ','.join(str(n) for n in range(1001, 1255))  # 254 values
    out += ['CHOOSE()', 'CHOOSE(254,%s)' % many, 'CHOOSE(253,%s)' % many, 'CHOOSE(1,%s)' % many,
            'CHOOSE(255,%s)' % many, 'CHOOSE(255,%s,0)' % many, 'CHOOSE(254,%s,0)' % many,
            'SUM(CHOOSE(2,{1,2},{3,4}))', 'CHOOSE(CHOOSE(1,2,3),"a","b")', 'choose(1,"x")',
            'CHOOSE(1,CHOOSE(3,1,2))', 'IF(CHOOSE(1,TRUE,FALSE),CHOOSE(2,1,2),CHOOSE(3,1,2))']
    return out


def describe(result, arr):
    notes = []
    if isinstance(arr, list):
        if result is arr:
            notes.append('is-array')
        for n, row in enumerate(arr):
            if isinstance(row, list) and result is row:
                notes.append('is-row-%d' % n)
    return (' [%s]' % ','.join(notes)) if notes else ''


def run_index(arr, *rest):
    before = repr(arr)
    label = 'INDEX(%s)' % ', '.join([before] + [rep(x) for x in rest])
    try:
        result = lr.INDEX(arr, *rest)
        outcome = repr(result) + describe(result, arr)
    except BaseException as e:
        outcome = 'RAISED %s(%s)' % (type(e).__name__, e)
    if repr(arr) != before:
        outcome += ' ARRAY-CHANGED ' + repr(arr)
    show('D', label, outcome)


def run_choose(*args):
    label = 'CHOOSE(%s)' % ', '.join(rep(x) if not (isinstance(x, int) and x > 1000) else '..' for x in args)
    try:
        result = lr.CHOOSE(*args)
        outcome = repr(result)
        for n, a in enumerate(args):
            if isinstance(a, list) and result is a:
                outcome += ' [is-arg-%d]' % n
    except BaseException as e:
        outcome = 'RAISED %s(%s)' % (type(e).__name__, e)
    show('D', label, outcome)


def direct_calls():
    nan = float('nan')
    inf = float('inf')
    positions = [DEFAULT, None, 0, 1, 2, 3, -1, 0.5, 1.0, 2.0, 1.5, -0.0, '1', '2', ' 1 ', '1_0', 'x', '', True, False,
                 nan, inf, -inf, 'nan', '-inf', 1 + 0j, 0j, error.DIV_ZERO, [1], (1,), 10 ** 30, -10 ** 30, 1e-9]
    full = [
        [[1, 2, 3], [4, 5, 6]],
        [7, 8, 9],
    ]
    for arr in full:
        for r in positions:
            for c in positions:
                run_index(arr, r, c)
    small_positions = [DEFAULT, None, 0, 1, 2, 3, -1, 0.5, 2.0, '2', 'x', True, nan, inf, 1 + 0j, error.DIV_ZERO]
    others = [
        [], [[]], [[], []], [[1]], [5], [None], [[None]], [[1, 2], [3]], [[1], [2, 3]], [1, [2, 3]], [[1, 2], 3],
        ['abc', 'de'], [['ab', 'cd'], ['ef', 'gh']], [{0: 'a', 1: 'b'}], [[{0: 'a'}]], [(1, 2), (3, 4)],
        [[error.NUM, 2], [3, error.REF]], [error.NUM, 2], 5, 0, 'text', '', None, True, (1, 2, 3), {1: 2}, error.NAME,
        1.5, [[[1, 2], [3, 4]], [[5, 6], [7, 8]]],
    ]
    for arr in others:
        for r in small_positions:
            for c in small_positions:
                run_index(arr, r, c)
    # other argument counts
    grid = [[1, 2, 3], [4, 5, 6]]
    run_index(grid)
    for r in positions:
        run_index(grid, r)
        run_index([7, 8, 9], r)
    for area in (DEFAULT, None, 1, 2, 'x', error.NUM, [1]):
        run_index(grid, 2, 3, area)
        run_index(grid, 0, 0, area)
        run_index(grid, 9, 9, area)
    try:
        lr.INDEX()
    except TypeError as e:
        show('D', 'INDEX()', 'RAISED TypeError(%s)' % e)
    try:
        lr.INDEX(grid, 1, 1, 1, 1)
    except TypeError as e:
        show('D', 'INDEX(grid, 1, 1, 1, 1)', 'RAISED TypeError(%s)' % e)
    run_index(grid, 1, 1)
    show('D', 'keywords', repr(lr.INDEX(arr=grid, column_num=2)))
    show('D', 'keywords', repr(lr.INDEX(grid, column_num=2, row_num=2)))
    show('D', 'keywords', repr(lr.INDEX(grid, row_num=0, column_num=None)))
    # random positions on random shapes
    rnd = random.Random(1804)
    for _ in range(400):
        rows = rnd.randint(1, 4)
        cols = rnd.randint(1, 4)
        if rnd.random() < 0.5:
            arr = [[r * 10 + c for c in range(cols)] for r in range(rows)]
        else:
            arr = [r * 10 for r in range(rows)]
        pick = lambda: rnd.choice([DEFAULT, None, 0, 0, 1, 1, 2, 3, 4, 5, -1, '2', 2.0, True])
        run_index(arr, pick(), pick())

    # CHOOSE
    run_choose()
    tails = [(), ('a',), ('a', 'b'), ('a', 'b', 'c'), ([1, 2], [3, 4], None), (error.NUM, 2)]
    indexes = [0, 1, 2, 3, 4, -1, 254, 255, 1.0, 1.5, 2.0, 2.5, 0.99, 254.5, -0.0, '1', 'x', '', True, False, None, nan,
               inf, -inf, 1 + 0j, error.NUM, [1], (1,), DEFAULT, 10 ** 30, b'1']
    for i in indexes:
        for t in tails:
            run_choose(i, *t)
    many = tuple(range(1001, 1255))
    for i in (1, 2, 253, 254, 255, 256, 253.0, True, nan):
        run_choose(i, *many)
        run_choose(i, *(many + (0,)))
        run_choose(i, *many[:-1])


def main():
    ev_a, ev_b = [], []
    pa = make_parser(ev_a)
    pb = make_parser(ev_b)
    fs = formulas()
    for f in fs:
        run_formula(pa, 'a', ev_a, f)
    # the same parser again on a sample, then a second parser
    for f in fs[::9]:
        run_formula(pa, 'a2', ev_a, f)
    for f in fs[::4]:
        run_formula(pb, 'b', ev_b, f)
    direct_calls()
    show('D', 'registered', repr([hotxlfp.formulas.get_for(n).__name__ for n in ('CHOOSE', 'MATCH', 'INDEX')]))
    show('D', 'supported', repr([n for n in hotxlfp.formulas.supported() if n in ('CHOOSE', 'MATCH', 'INDEX')]))
    run_formula(pa, 'a3', ev_a, 'INDEX({1,2,3},1/0)')
    show('D', 'tracebacks', repr([e.__traceback__ for e in (error.NOT_AVAILABLE, error.VALUE, error.REF, error.ERROR,
                                                             error.DIV_ZERO)]))


if __name__ == '__main__':
    main()
