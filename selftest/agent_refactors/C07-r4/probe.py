# -*- coding: utf-8 -*-
"""
Probe for C07 refactoring 4 (constant module-level tables for the number < text < logical
ordering across types, locals instead of repeated attribute reads).  Prints a deterministic transcript.
"""
import os
import sys
import datetime
import random

sys.path.insert(0, os.path.dirname(os.path.dirname(os.path.abspath(__file__))))

import hotxlfp  # noqa: E402
from hotxlfp.formulas import operators, error  # noqa: E402

OPS = ('<', '=', '>', '<=', '>=', '<>')
COUNT = [0]


class Text(str):
    """a str subclass: type(Text('a')) != str"""
    pass


class Whole(int):
    """an int subclass"""
    pass


def show(value):
    if isinstance(value, error.XLError):
        return 'XLError(%s)' % str(value)
    if isinstance(value, list):
        return '[' + ', '.join(show(v) for v in value) + ']'
    if isinstance(value, dict):
        return '{' + ', '.join('%r: %s' % (k, show(value[k])) for k in sorted(value)) + '}'
    return '%s:%r' % (type(value).__name__, value)


def line(kind, what, outcome):
    COUNT[0] += 1
    print('%04d %s | %s -> %s' % (COUNT[0], kind, what, outcome))


def attempt(fn, *args):
    try:
        return show(fn(*args))
    except error.XLError as e:
        return 'raised XLError(%s)' % str(e)
    except Exception as e:  # noqa
        return 'raised %s(%s)' % (type(e).__name__, e)


# ---------------------------------------------------------------- formula level

def make_parser(log):
    p = hotxlfp.Parser()
    cells = {
        'A1': 1, 'A2': 2.5, 'A3': 'abc', 'A4': True, 'A5': None, 'A6': '', 'A7': 0,
        'A8': False, 'A9': datetime.datetime(2020, 2, 29), 'B1': 'ABC', 'B2': -3,
        'B3': datetime.datetime(1900, 1, 1), 'B4': 43890.0, 'B5': '10', 'B6': 10,
    }

    def on_cell(cell, setter):
        log.append('cell %s r%d c%d' % (cell.label, cell.row.index, cell.col.index))
        setter(cells.get(cell.label))

    def on_range(start, end, setter):
        log.append('range %s:%s' % (start.label, end.label))
        rows = []
        for r in range(start.row.index, end.row.index + 1):
            row = []
            for c in range(start.col.index, end.col.index + 1):
                row.append(cells.get('%s%d' % (chr(ord('A') + c), r + 1)))
            rows.append(row)
        setter(rows)

    def on_variable(name, setter):
        log.append('var %s' % name)

    def on_function(name, args, setter):
        log.append('fn %s %s' % (name, show(args)))

    p.on('callCellValue', on_cell)
    p.on('callRangeValue', on_range)
    p.on('callVariable', on_variable)
    p.on('callFunction', on_function)
    p.set_variable('blank', None)
    p.set_variable('dya', datetime.datetime(2019, 12, 31))
    p.set_variable('dyb', datetime.datetime(2020, 1, 1, 12, 30))
    p.set_variable('dyz', datetime.datetime(1900, 1, 1))
    p.set_variable('early', datetime.datetime(1900, 2, 1))
    p.set_variable('inf', float('inf'))
    p.set_variable('ninf', float('-inf'))
    p.set_variable('nan', float('nan'))
    p.set_variable('cplx', 1 + 2j)
    p.set_variable('arr', [1, 2, 3])
    p.set_variable('one', [1])
    p.set_variable('txt', Text('abc'))
    p.set_variable('whole', Whole(5))
    p.set_variable('big', 10 ** 30)
    p.set_variable('tiny', 5e-324)
    p.set_variable('err', error.NUM)
    p.set_variable('tup', (1, 2))
    p.set_variable('date', datetime.date(2020, 1, 1))
    return p


def formula(p, log, text, tag):
    del log[:]
    res = p.parse(text)
    line('formula' + tag, text, '%s events=%r' % (show(res), log))


FORMULA_OPERANDS = [
    '1', '0', '-1', '2.5', '1.0', '"abc"', '"ABC"', '"abd"', '""', '"10"', '"1"', 'TRUE', 'FALSE',
    'NULL', 'blank', 'A1', 'A3', 'A4', 'A5', 'A6', 'A9', 'B3', 'dya', 'dyb', 'dyz',
    'DATE(2020,2,29)', '43890', 'inf', 'nan', 'cplx', 'arr', 'one', 'txt', 'whole',
    'big', 'tiny', '#N/A', '#DIV/0!', '1/0', 'err', 'SQRT(-1)', 'tup', 'date', '{1,2}', 'A1:A2',
    '50%', '2^3', '.5', '"a"&"b"', '-A1', '(1+1)', 'nosuch',
]


def formula_section():
    log1, log2 = [], []
    p1 = make_parser(log1)
    p2 = make_parser(log2)
    rnd = random.Random(4007)
    pairs = []
    # a systematic slice: the first 16 operands against each other for two operators each
    core = FORMULA_OPERANDS[:16]
    for i, a in enumerate(core):
        for j, b in enumerate(core):
            pairs.append((a, OPS[(i + j) % 6], b))
            pairs.append((a, OPS[(i + 2 * j + 3) % 6], b))
    # every operand on each side of blanks / text / logicals / numbers with all six operators
    for a in FORMULA_OPERANDS:
        for b in ('NULL', 'A5', '"abc"', 'TRUE', '1', 'dya'):
            for op in OPS:
                pairs.append((a, op, b))
                pairs.append((b, op, a))
    # random others
    for _ in range(400):
        pairs.append((rnd.choice(FORMULA_OPERANDS), rnd.choice(OPS), rnd.choice(FORMULA_OPERANDS)))
    for n, (a, op, b) in enumerate(pairs):
        text = '%s%s%s' % (a, op, b)
        formula(p1, log1, text, '/p1')
        if n % 3 == 0:
            formula(p2, log2, text, '/p2')
        if n % 7 == 0:
            formula(p1, log1, text, '/p1-again')
    # chains, precedence, nesting, use inside functions
    extra = [
        '1<2<3', '1<2=TRUE', '3>2>1', '(3>2)>1', '1=1=1', '1<>1<>1', '"a"<"b"="c"', '1<2+3', '1+1=2',
        '2*3>=6', '1&2=12', '1&2="12"', '-1<-2', '--1=1', 'IF(1<2,"y","n")', 'IF("a">1,"y","n")',
        'IF(TRUE>"z","y","n")', 'IF(NULL=0,"y","n")', 'IF(NULL="","y","n")', 'IF(NULL=FALSE,"y","n")',
        'AND(1<2,2<3)', 'OR(1>2,"a">"b")', 'NOT(1=1)', 'SUM(1<2,2<3)', 'SUM(A1:A2)>3', 'A1:A2>3',
        'A1<A2', 'A3<B1', 'A3=B1', 'B1<A3', 'A9>B4', 'A9=B4', 'A9<B4', 'B5=B6', 'B5>B6', 'B5<B6',
        'A5=A6', 'A5=A7', 'A5=A8', 'A6=A7', 'A7=A8', 'A5<A1', 'A5>B2', 'A5<A3', 'A5<A4', 'A5>A8',
        'dya<dyb', 'dyb<dya', 'dya=dya', 'dya<>dyb', 'dya>=dyz', 'dyz=0', 'dyz<1', 'early>31', 'early=32', 'early<33',
        'DATE(2020,1,1)<DATE(2020,1,2)', 'DATE(2020,1,1)=43831', 'DATE(2020,1,1)>"a"', 'DATE(2020,1,1)<TRUE',
        'DATE(2020,1,1)>NULL', 'NULL<DATE(2020,1,1)', 'nan=nan', 'nan<>nan', 'nan<nan', 'nan>=nan', 'inf>big',
        'ninf<-big', 'inf=inf', 'big=big+1', 'tiny>0', 'tiny>NULL', 'whole=5', 'whole<5.5', 'whole>"5"',
        'txt="abc"', 'txt<"abd"', 'txt>1', 'txt<TRUE', 'txt=NULL', 'NULL=txt', 'txt>NULL', 'cplx=cplx',
        'cplx<cplx', 'cplx<1', 'cplx<"a"', 'cplx>TRUE', 'cplx=NULL', 'NULL<cplx', 'NULL>cplx', 'cplx<>NULL',
        'arr=arr', 'arr<arr', 'arr<1', 'arr>"a"', 'arr=NULL', 'NULL=arr', 'NULL<arr', 'NULL>arr', 'arr<=NULL',
        'one=1', 'one<2', 'tup<1', 'tup=tup', 'NULL<tup', 'date<dya', 'date=date', 'NULL<date', 'date>NULL',
        '1<', '<1', '1<>', '1=<2', '1=>2', '1><2', '1<<2', '1==2', '=1', '""=""', '"<"<">"', '"="="="',
        '1 < 2', ' 1<=2 ', '1 <> 2', '1 > = 2', 'true=TRUE', 'True<False',
    ]
    for text in extra:
        formula(p1, log1, text, '/p1')
        formula(p2, log2, text, '/p2')
    for text in extra[::4]:
        formula(p1, log1, text, '/p1-again')


# ---------------------------------------------------------------- direct level

VALUES = [
    ('0', 0), ('1', 1), ('-1', -1), ('2', 2), ('0.0', 0.0), ('-0.0', -0.0), ('1.5', 1.5), ('1e308', 1e308),
    ('big', 10 ** 30), ('inf', float('inf')), ('-inf', float('-inf')), ('nan', float('nan')),
    ('0j', 0j), ('1+2j', 1 + 2j), ('Whole5', Whole(5)), ('Whole0', Whole(0)),
    ('""', ''), ('"a"', 'a'), ('"A"', 'A'), ('"abc"', 'abc'), ('"abd"', 'abd'), ('"1"', '1'), ('" "', ' '),
    ('u-e', u'\xe9'), ('Text-abc', Text('abc')), ('Text-empty', Text('')),
    ('True', True), ('False', False), ('None', None),
    ('dt2020', datetime.datetime(2020, 2, 29)), ('dt1900', datetime.datetime(1900, 1, 1)),
    ('dt1900feb', datetime.datetime(1900, 2, 10)), ('dt1899', datetime.datetime(1899, 12, 30, 6)),
    ('dt-noon', datetime.datetime(2020, 2, 29, 12)), ('43890.0', 43890.0), ('43890', 43890),
    ('date', datetime.date(2020, 2, 29)), ('[]', []), ('[1]', [1]), ('[1,2]', [1, 2]), ('[None]', [None]),
    ('(1,)', (1,)), ('{}', {}), ('b"a"', b'a'), ('errNA', error.NOT_AVAILABLE), ('errDIV', error.DIV_ZERO),
    ('object-type', object), ('td', datetime.timedelta(1)),
]


def direct_section():
    # the public entry point, every pair, a rotating operator plus the strict ones
    for i, (na, a) in enumerate(VALUES):
        for j, (nb, b) in enumerate(VALUES):
            for op in ('<', '>', OPS[(i + j) % 6]):
                line('logic', '%s %s %s' % (na, op, nb), attempt(operators.evaluate_logic, op, a, b))
    # all six operators and the trichotomy / derived relations on the scalar part
    scalars = [v for v in VALUES if v[0] in (
        '0', '1', '-1', '0.0', '1.5', 'inf', '-inf', '""', '"a"', '"A"', '"abc"', '"1"', 'True', 'False', 'None',
        'dt2020', 'dt1900', 'dt1900feb', '43890.0', '43890', 'Whole5', 'big')]
    for na, a in scalars:
        for nb, b in scalars:
            r = dict((op, operators.evaluate_logic(op, a, b)) for op in OPS)
            flipped = operators.evaluate_logic('>', b, a)
            exactly_one = [r['<'], r['='], r['>']].count(True) == 1
            derived = (r['<='] == (r['<'] or r['=']) and r['>='] == (r['>'] or r['=']) and r['<>'] == (not r['=']))
            line('relations', '%s ? %s' % (na, nb), '%s one=%r derived=%r mirror=%r' % (
                ' '.join('%s%s' % (op, 'T' if r[op] is True else 'F' if r[op] is False else '?') for op in OPS),
                exactly_one, derived, flipped == r['<']))
    # odd operators handed to evaluate_logic
    for op in ('+', '-', '*', '/', '&', '==', '', None, '< ', 'lt'):
        for na, a, nb, b in (('1', 1, '2', 2), ('None', None, '"a"', 'a'), ('errNA', error.NOT_AVAILABLE, '1', 1),
                             ('1', 1, 'errDIV', error.DIV_ZERO)):
            line('logic-oddop', '%s %r %s' % (na, op, nb), attempt(operators.evaluate_logic, op, a, b))
    # the comparator's methods one by one
    methods = ('__lt__', '__gt__', '__eq__', '__ge__', '__le__', '__ne__', 'convert_other')
    sample = [v for n, v in enumerate(VALUES) if n % 2 == 0 or v[0] in ('None', 'True', '"a"', '1', 'dt2020', '[1]')]
    for na, a in sample:
        for nb, b in sample:
            for m in methods:
                def call(m=m, a=a, b=b):
                    return getattr(operators.ExcelComparator(a), m)(b)
                line('method', 'Cmp(%s).%s(%s)' % (na, m, nb), attempt(call))
    # construction and the value it keeps; instances are reusable and unchanged by comparing
    for na, a in VALUES:
        c = operators.ExcelComparator(a)
        before = show(c.value)
        outcomes = []
        for nb, b in VALUES[::5]:
            outcomes.append(attempt(lambda: c < b))
            outcomes.append(attempt(lambda: c > b))
            outcomes.append(attempt(lambda: b < c))
            outcomes.append(attempt(lambda: b >= c))
            outcomes.append(attempt(lambda: c == b))
            outcomes.append(attempt(lambda: c != b))
        line('instance', 'Cmp(%s)' % na, 'value=%s after=%s attrs=%r :: %s' % (
            before, show(c.value), sorted(getattr(c, '__dict__', {'value': 0})), ' '.join(outcomes)))
    # comparator against comparator, and sorting with it
    for na, a in scalars[::3]:
        for nb, b in scalars[::2]:
            ca, cb = operators.ExcelComparator(a), operators.ExcelComparator(b)
            line('cmp-vs-cmp', '%s , %s' % (na, nb), ' '.join(
                attempt(f) for f in (lambda: ca < cb, lambda: ca > cb, lambda: ca == cb, lambda: ca <= cb)))
    is_number = operators.is_number
    for na, a in VALUES:
        line('is_number', na, show(is_number(a)))
    line('class', 'public names', repr(sorted(n for n in vars(operators.ExcelComparator)
                                               if n in ('__lt__', '__gt__', '__eq__', '__ge__', '__le__',
                                                        '__ne__', '__init__', 'convert_other', '__hash__'))))


def grid_section():
    """every pair of kinds (number / text / logical / other, plain and subclassed) under every operator"""
    reps = [
        ('int7', 7), ('float7', 7.0), ('float7.5', 7.5), ('cplx7', 7 + 0j), ('Whole7', Whole(7)), ('int0', 0),
        ('str7', '7'), ('strz', 'z'), ('Textz', Text('z')), ('Text7', Text('7')), ('empty', ''),
        ('T', True), ('F', False), ('blank', None),
        ('list7', [7]), ('tuple7', (7,)), ('date', datetime.date(1900, 1, 7)),
        ('dt', datetime.datetime(1900, 1, 7)), ('bytes', b'z'), ('set', frozenset([7])),
    ]
    for na, a in reps:
        for nb, b in reps:
            out = []
            for op in OPS:
                out.append('%s %s' % (op, attempt(operators.evaluate_logic, op, a, b)))
            line('grid', '%s ? %s' % (na, nb), ' ; '.join(out))
    # transitivity on the non-blank scalars, reported as a count per left operand
    scalars = [v for v in reps if v[0] in ('int7', 'float7', 'float7.5', 'Whole7', 'int0', 'str7', 'strz',
                                             'empty', 'T', 'F', 'dt')]
    for na, a in scalars:
        broken = 0
        for nb, b in scalars:
            for nc, c in scalars:
                if operators.evaluate_logic('<', a, b) and operators.evaluate_logic('<', b, c):
                    if not operators.evaluate_logic('<', a, c):
                        broken += 1
        line('transitive', na, 'violations=%d' % broken)


if __name__ == '__main__':
    formula_section()
    direct_section()
    grid_section()
    print('total %d' % COUNT[0])
