# -*- coding: utf-8 -*-
"""
Probe for C15 refactoring 1 (text coercion / n-th replacement / error test helpers extracted).

Prints a deterministic transcript: one line per evaluation, with the input, repr() of the
outcome and the callFunction events seen. Emphasis on CLEAN, LEN, LOWER, UPPER, PROPER,
SUBSTITUTE and CONCATENATE, but every text function the property names is exercised.
"""
from __future__ import print_function
import os
import sys
import random

sys.path.insert(0, os.path.dirname(os.path.dirname(os.path.abspath(__file__))))

import hotxlfp  # noqa: E402
from hotxlfp.formulas import error  # noqa: E402
from hotxlfp.formulas import text as T  # noqa: E402
from hotxlfp.formulas.utils import DEFAULT  # noqa: E402

COUNT = [0]


class Odd(object):
    """ a value that is neither text, number, logical, blank nor error """

    def __init__(self, tag):
        self.tag = tag

    def __repr__(self):
        return 'Odd(%r)' % (self.tag,)

    def __str__(self):
        return 'odd:%s' % (self.tag,)


class BadStr(object):
    """ a value whose str() fails """

    def __repr__(self):
        return 'BadStr()'

    def __str__(self):
        raise ValueError('no text for this one')


class ErrStr(object):
    """ a value whose str() raises an error value """

    def __repr__(self):
        return 'ErrStr()'

    def __str__(self):
        raise error.NUM


class Shout(str):
    """ a str subclass """

    def __repr__(self):
        return 'Shout(%s)' % str.__repr__(self)


def safe_repr(value):
    if value is DEFAULT:
        return '<DEFAULT>'
    if isinstance(value, list):
        return '[' + ', '.join(safe_repr(v) for v in value) + ']'
    if isinstance(value, tuple):
        return '(' + ', '.join(safe_repr(v) for v in value) + (',)' if len(value) == 1 else ')')
    return repr(value)


CELLS = {
    'A1': 'alpha', 'A2': None, 'A3': 12, 'A4': 3.5, 'A5': True, 'A6': '', 'A7': ' two  spaces ',
    'A8': error.NOT_AVAILABLE, 'A9': 'a\tb\nc', 'B1': 'banana', 'B2': 'an', 'B3': 'AN', 'B4': 2,
}


def make_parser():
    p = hotxlfp.Parser()
    p.set_variable('BLANK', None)
    p.set_variable('EMPTY', '')
    p.set_variable('ERRV', error.VALUE)
    p.set_variable('ERRN', error.NUM)
    p.set_variable('ERRD', error.DIV_ZERO)
    p.set_variable('ARR', [['a', None], [1, True]])
    p.set_variable('ARRE', ['x', [error.REF, error.NUM], 'y'])
    p.set_variable('ARRS', ['ab', 'cd', ['ef', ['gh']]])
    p.set_variable('NOARR', [])
    p.set_variable('TUP', ('t1', ('t2', None), 3))
    p.set_variable('TWOF', 2.0)
    p.set_variable('HALF', 1.5)
    p.set_variable('NEG', -1)
    p.set_variable('NEGF', -0.5)
    p.set_variable('ZEROF', 0.0)
    p.set_variable('INF', float('inf'))
    p.set_variable('NANV', float('nan'))
    p.set_variable('CPLX', 1 + 2j)
    p.set_variable('BIG', 10 ** 30)
    p.set_variable('ODD', Odd('v'))
    p.set_variable('BADSTR', BadStr())
    p.set_variable('ERRSTR', ErrStr())
    p.set_variable('SHOUT', Shout('Loud and CLEAR'))
    p.set_variable('CTRL', 'a\x00b\x01c\x1fd\x20e\x7ff\tg\nh')
    p.set_variable('UNI', u'\xe9cole \xdcBER stra\xdfe ǅ İi')
    p.set_variable('MIX', "it's o'neil's 2nd-hand ITEM_no3 x9y")
    p.set_variable('SPACES', '   lead  mid   trail    ')
    p.set_variable('TABS', ' \t a \n  b \xa0 ')
    p.set_variable('NUMTXT', '42')
    p.set_variable('FLTTXT', '2.0')
    p.set_variable('EXPTXT', '1e400')
    p.set_variable('WORD', 'abracadabra')
    p.set_variable('AAAA', 'aaaa')

    def on_cell(cell, setter):
        setter(CELLS.get(cell.label))

    def on_range(start, end, setter):
        rows = []
        for r in range(start.row.index, end.row.index + 1):
            row = []
            for c in range(start.col.index, end.col.index + 1):
                row.append(CELLS.get('ABCDEFGH'[c] + str(r + 1)))
            rows.append(row)
        setter(rows)

    p.on('callCellValue', on_cell)
    p.on('callRangeValue', on_range)
    return p


def ev(p, formula):
    events = []

    def on_call(name, args, setter):
        events.append('%s%s' % (name, safe_repr(list(args))))

    p.on('callFunction', on_call)
    try:
        try:
            outcome = repr(p.parse(formula))
        except BaseException as e:  # parse() is not supposed to raise
            outcome = 'RAISED %s: %s' % (type(e).__name__, e)
    finally:
        p.off('callFunction', on_call)
    COUNT[0] += 1
    print('F %s -> %s | events: %s' % (formula, outcome, '; '.join(events)))


def call(fn, *args):
    label = '%s(%s)' % (fn.__name__, ', '.join(safe_repr(a) for a in args))
    try:
        outcome = safe_repr(fn(*args))
    except BaseException as e:
        outcome = 'RAISED %s: %s' % (type(e).__name__, e)
    COUNT[0] += 1
    print('D %s -> %s' % (label, outcome))


def main():
    p = make_parser()

    # ---- one-argument functions over a pool of argument expressions
    one_arg = ['CLEAN', 'LEN', 'LENB', 'LOWER', 'UPPER', 'PROPER', 'TRIM', 'CODE', 'CHAR']
    pool = ['"Hello World"', '""', '" "', '"  a  b  "', '"ABC def"', '12', '0', '-3', '3.50', '1/0', '1/4',
            'TRUE', 'FALSE', 'NULL', 'BLANK', 'EMPTY', 'ERRV', 'ERRN', '#N/A', '#REF!', 'ARR', 'ARRE', 'NOARR',
            'TUP', 'TWOF', 'HALF', 'INF', 'NANV', 'CPLX', 'BIG', 'ODD', 'BADSTR', 'ERRSTR', 'SHOUT', 'CTRL',
            'UNI', 'MIX', 'SPACES', 'TABS', 'NUMTXT', 'A1', 'A2', 'A3', 'A5', 'A8', 'A9', 'A1:A3', '{1,2}',
            '{"x";"y"}', 'CHAR(7)&"bell"&CHAR(31)&CHAR(32)', '65', '"65"', '1114111', '1114112', '"A"', '"AB"',
            'NOSUCH', '"x"&1', '10%', '2^3', '-"a"', 'SQRT(-1)']
    for fname in one_arg:
        for arg in pool:
            ev(p, '%s(%s)' % (fname, arg))
    for fname in one_arg:
        ev(p, '%s()' % fname)
        ev(p, '%s("a","b")' % fname)
        ev(p, '%s(,)' % fname)

    # ---- idempotence and round trips
    for arg in ['MIX', 'UNI', 'SPACES', 'CTRL', 'SHOUT', '"hello wORLD"', '12.5', 'BLANK', 'TRUE']:
        for fname in ['UPPER', 'LOWER', 'PROPER', 'TRIM', 'CLEAN']:
            ev(p, '%s(%s(%s))=%s(%s)' % (fname, fname, arg, fname, arg))
            ev(p, 'LEN(%s(%s))' % (fname, arg))
    for n in [1, 9, 10, 31, 32, 65, 97, 127, 128, 255, 256, 8364, 55296, 65535, 65536]:
        ev(p, 'CODE(CHAR(%d))' % n)
        ev(p, 'LEN(CLEAN(CHAR(%d)))' % n)
    for a, b in [('"ab"', '"cde"'), ('""', '"x"'), ('12', '"x"'), ('BLANK', '"x"'), ('TRUE', 'FALSE'),
                 ('UNI', 'MIX'), ('1.50', '2'), ('ERRV', '"x"'), ('"x"', 'ERRN'), ('ARR', '"x"')]:
        ev(p, 'LEN(%s&%s)=LEN(%s)+LEN(%s)' % (a, b, a, b))
        ev(p, 'LEN(CONCATENATE(%s,%s))' % (a, b))

    # ---- SUBSTITUTE
    subs = [
        ('"banana"', '"an"', '"AN"'), ('"banana"', '"an"', '""'), ('"banana"', '"x"', '"y"'),
        ('"banana"', '""', '"y"'), ('""', '"a"', '"y"'), ('"aaaa"', '"aa"', '"b"'), ('"aaaa"', '"a"', '"aa"'),
        ('"banana"', '"banana"', '"x"'), ('"banana"', '"bananas"', '"x"'), ('"a.b.c"', '"."', '"-"'),
        ('WORD', '"abra"', '"X"'), ('WORD', '"a"', 'BLANK'), ('BLANK', '"a"', '"b"'), ('"abc"', 'BLANK', '"b"'),
        ('123123', '"2"', '"x"'), ('"123123"', '2', '"x"'), ('"123123"', '"2"', '7'), ('0', '"0"', '"x"'),
        ('TRUE', '"T"', '"x"'), ('ERRV', '"a"', '"b"'), ('"abc"', 'ERRN', '"b"'), ('"abc"', '"b"', 'ERRD'),
        ('ARRS', '"cd"', '"x"'), ('ARRS', 'ARRS', 'ARRS'), ('"abc"', 'ARRS', '"x"'), ('"abab"', '"ab"', 'ARRS'),
        ('UNI', '"\xe9"', '"e"'), ('SHOUT', '"and"', '"&"'), ('ODD', '"o"', '"0"'), ('"Aa"', '"a"', '"b"'),
        ('A1', '"a"', '"@"'), ('B1', 'B2', 'B3'), ('A2', '"a"', '"b"'), ('A3', '"1"', '"b"'),
    ]
    insts = [None, '1', '2', '3', '4', '0', '-1', '1.5', 'TWOF', '"2"', 'FLTTXT', '"x"', 'TRUE', 'FALSE',
             'BLANK', 'ERRN', 'INF', 'NANV', 'CPLX', 'EXPTXT', 'ARR', 'BIG', '1/0', 'B4']
    for text, old, new in subs:
        for inst in insts[:6]:
            if inst is None:
                ev(p, 'SUBSTITUTE(%s,%s,%s)' % (text, old, new))
            else:
                ev(p, 'SUBSTITUTE(%s,%s,%s,%s)' % (text, old, new, inst))
    for text, old, new in subs[:8] + subs[22:26]:
        for inst in insts[6:]:
            ev(p, 'SUBSTITUTE(%s,%s,%s,%s)' % (text, old, new, inst))
    ev(p, 'SUBSTITUTE("a")')
    ev(p, 'SUBSTITUTE("a","b")')
    ev(p, 'SUBSTITUTE("a","b","c",1,2)')
    ev(p, 'SUBSTITUTE("a",,"c")')
    ev(p, 'SUBSTITUTE("aXbXc","X",)')
    ev(p, 'SUBSTITUTE("aXbXc","X",,2)')
    ev(p, 'SUBSTITUTE(SUBSTITUTE("a-b-c","-","+",1),"-","*")')

    # ---- CONCATENATE / CONCAT
    cats = ['"a","b","c"', '"a"', '', '1,2,3', '"a",1,TRUE,2.5', 'BLANK,"x",BLANK', '"x",,"y"', ',', 'ARR',
            'ARR,ARRS,"z"', 'ARRE', '"a",ERRV,ERRN', 'ERRN,ERRV', '"a",1/0', 'TUP', 'NOARR', 'NOARR,"x"',
            'ODD,"x"', 'BADSTR,"x"', 'ERRSTR,"x"', '"x",ERRSTR,ERRV', 'ERRV,ERRSTR', 'SHOUT,UNI', 'A1:B3',
            'A1:A9', 'A1,A2,A3', '{1,2;3,4}', '{"p","q"},"r"', 'HALF,INF,NANV,CPLX,BIG', 'NOSUCH,"x"',
            '"x",#N/A', 'CONCAT("a","b"),CONCATENATE("c")', 'LEFT("abc",2),RIGHT("abc",1)']
    for args in cats:
        ev(p, 'CONCATENATE(%s)' % args)
        ev(p, 'CONCAT(%s)' % args)

    # ---- LEFT / RIGHT / MID / TEXTJOIN, more briefly
    for text in ['"hello"', '""', 'UNI', '12345', 'BLANK', 'ERRV', 'ARRS', 'SHOUT']:
        for n in ['0', '1', '3', '5', '9', '-1', 'HALF', 'TRUE', 'BLANK', '"2"', 'ERRN']:
            ev(p, 'LEFT(%s,%s)' % (text, n))
            ev(p, 'RIGHT(%s,%s)' % (text, n))
            ev(p, 'MID(%s,2,%s)' % (text, n))
        ev(p, 'LEFT(%s)' % text)
        ev(p, 'RIGHT(%s)' % text)
        ev(p, 'MID(%s,1)' % text)
    for s in ['"hello"', 'UNI', '""', 'MIX']:
        for n in [0, 1, 2, 5, 40]:
            ev(p, 'LEFT(%s,%d)&RIGHT(%s,LEN(%s)-%d)=%s' % (s, n, s, s, n, s))
            ev(p, 'MID(%s,1,%d)=LEFT(%s,%d)' % (s, n, s, n))
    for args in ['",",TRUE,"a","b"', '",",TRUE,"a",BLANK,"b"', '",",FALSE,"a",BLANK,"b"', '"",TRUE,ARRS',
                 '"-",0,ARR', '"-",1,ARR', '1,TRUE,"a"', '"-",TRUE,"a",1', '"-",TRUE,"a",ERRV', '"-",TRUE',
                 'BLANK,TRUE,"a"', '", ",FALSE,A1:B3', '", ",TRUE,A1:B3', 'ERRV,TRUE,"a"', '"-",ERRV,"a",BLANK']:
        ev(p, 'TEXTJOIN(%s)' % args)

    # ---- direct calls with python values the grammar cannot produce
    rnd = random.Random(1515)
    values = [None, '', 'abc', 'Hello wORLD', u'\xdfİ', 'a\x00\x1f\x20b', 0, 7, -7, 2.0, 1.5, True, False,
              float('inf'), 1 + 2j, error.VALUE, error.NUM, [], ['a', 'b'], ('a',), [['a'], None], Odd('d'),
              BadStr(), ErrStr(), Shout('Sub Class'), b'bytes', {'k': 1}]
    for fn in (T.CLEAN, T.LEN, T.LOWER, T.UPPER, T.PROPER, T.TRIM):
        for v in values:
            call(fn, v)
    for v in values:
        call(T.CONCATENATE, v)
        call(T.CONCATENATE, 'x', v, 'y')
        call(T.CONCATENATE, [v, [v]], error.REF)
    texts = ['', 'a', 'aaaa', 'abcabcabc', 'banana', ['a', 'b', 'a'], ('a', 'b'), 0, 5, None, error.NUM, b'abab',
             Shout('abab')]
    olds = ['', 'a', 'aa', 'abc', 'ana', ['a'], ('a',), 0, 5, None, error.NUM, b'ab', Shout('ab')]
    news = ['', 'X', 'aa', ['N'], ('N',), None, 3, error.REF]
    nums = [DEFAULT, 1, 2, 3, 0, -1, 2.0, 1.5, '2', '2.0', 'x', True, False, None, float('inf'), float('nan'),
            1 + 0j, error.DIV_ZERO, [1], 10 ** 20]
    for text in texts:
        for old in olds:
            call(T.SUBSTITUTE, text, old, rnd.choice(news), rnd.choice(nums))
            call(T.SUBSTITUTE, text, old, rnd.choice(news))
    for num in nums:
        call(T.SUBSTITUTE, 'abcabcabc', 'bc', '-', num)
        call(T.SUBSTITUTE, 'aaaa', 'aa', 'b', num)
        call(T.SUBSTITUTE, ['a', 'b', 'a'], ['a'], ['N'], num)
        call(T.SUBSTITUTE, '', 'a', 'b', num)
    for new in news:
        call(T.SUBSTITUTE, 'banana', 'an', new)
        call(T.SUBSTITUTE, 'banana', 'an', new, 2)
        call(T.SUBSTITUTE, 'banana', 'zz', new, 2)

    # ---- nothing may be left behind on the shared error values or in the registry
    ev(p, 'CONCATENATE("a",ERRV)&"b"')
    print('S tracebacks %r' % ([e.__traceback__ for e in (error.VALUE, error.NUM, error.REF)],))
    print('S supported %s' % ','.join(n for n in hotxlfp.formulas.supported()
                                      if hotxlfp.formulas.get_for(n).__module__ == T.__name__))
    print('S evaluations %d' % COUNT[0])


if __name__ == '__main__':
    main()
