# -*- coding: utf-8 -*-
"""
Probe for C05 refactoring 3: the separator-delimited sequence rules
(function arguments and array literals written with ',' ';' or '\\').
Prints one line per evaluation: the formula, repr() of the outcome and the
callFunction events (name and argument payload) seen while evaluating it.
"""
import itertools
import os
import sys

sys.path.insert(0, os.path.dirname(os.path.dirname(os.path.abspath(__file__))))

import hotxlfp  # noqa: E402

SEPARATORS = (',', ';', '\\')


def show(value):
    """repr() that spells nested lists/tuples and keeps bool/int/float apart."""
    if isinstance(value, (list, tuple)):
        inner = ', '.join(show(v) for v in value)
        return ('[%s]' if isinstance(value, list) else '(%s)') % inner
    return '%s:%r' % (type(value).__name__, value)


def make_parser():
    parser = hotxlfp.Parser()
    events = []

    def args_fn(*args):
        return 'ARGS' + show(args)

    def count_fn(*args):
        return len(args)

    def first_fn(*args):
        return args[0] if args else 'nothing'

    def last_fn(*args):
        return args[-1] if args else 'nothing'

    parser.set_function('ARGS', args_fn)
    parser.set_function('COUNTARGS', count_fn)
    parser.set_function('FIRST', first_fn)
    parser.set_function('LAST', last_fn)

    def on_function(name, args, valsetter):
        events.append('callFunction(%s, %s)' % (name, show(args)))

    def on_cell(cell, valsetter):
        events.append('callCellValue(%s)' % cell.label)
        valsetter({'A1': 11, 'B2': 'bee', 'C3': True}.get(cell.label))

    def on_range(start, end, valsetter):
        events.append('callRangeValue(%s:%s)' % (start.label, end.label))
        valsetter([[1, 2], [3, 4]])

    def on_variable(name, valsetter):
        events.append('callVariable(%s)' % name)
        if name == 'foo':
            valsetter(42)

    parser.on('callFunction', on_function)
    parser.on('callCellValue', on_cell)
    parser.on('callRangeValue', on_range)
    parser.on('callVariable', on_variable)
    return parser, events


COUNTER = [0]


def evaluate(tag, parser, events, formula):
    del events[:]
    try:
        outcome = parser.parse(formula)
        text = 'result=%s error=%r' % (show(outcome['result']), outcome['error'])
    except Exception as exc:  # not expected: parse() turns exceptions into errors
        text = 'raised %s(%s)' % (type(exc).__name__, exc)
    COUNTER[0] += 1
    print('%04d %s %r -> %s | events=%s' % (COUNTER[0], tag, formula, text, events))


def formulas():
    items = ('1', '"a"', '', 'TRUE', '-2.5')
    # every sequence of up to three slots, each separator, as arguments and as array
    for sep in SEPARATORS:
        for length in range(0, 4):
            for combo in itertools.product(items, repeat=length):
                body = sep.join(combo)
                yield 'ARGS(' + body + ')'
                yield '{' + body + '}'
    # longer runs of omitted slots and mixtures
    for sep in SEPARATORS:
        for body in ('%s', '%s%s', '%s%s%s', '%s%s%s%s', '1%s', '%s1', '1%s%s', '%s%s1',
                     '1%s%s2', '1%s%s%s2', '1%s2%s%s3', '%s1%s', '%s%s1%s%s', '1%s2%s3%s4%s5',
                     '1%s%s2%s%s3', '%s1%s%s2', '1%s%s2%s', '%s%s%s1', '1%s%s%s'):
            text = body.replace('%s', sep)
            yield 'ARGS(' + text + ')'
            yield 'COUNTARGS(' + text + ')'
            yield '{' + text + '}'
            yield 'FIRST(' + text + ')'
            yield 'LAST(' + text + ')'
    # rows: ';' between two comma- or backslash-separated rows, and what is not accepted
    for body in ('1,2;3,4', '1\\2;3\\4', '1,2;3\\4', '1\\2;3,4', '1,2;3,4;5,6', '1;2,3', '1,2;3',
                 '1;2;3', '1,2,3;4,5,6', '1\\2\\3;4\\5\\6', '"a","b";"c","d"', '1,;3,4', ',1;2,',
                 '1,,2;3,,4', ',,;,,', '\\\\;\\\\', '1,2;', ';1,2', '1,2;;3,4', '1,2\\3', '1\\2,3',
                 '1;2\\3', '1\\2;3', 'TRUE,FALSE;1,"x"', '1, 2 ; 3, 4', ' 1 \\ 2 ; 3 \\ 4 ',
                 '{1,2},{3,4}', '{1,2};{3,4}', '{1;2}\\{3;4}', '{1,2;3,4},5', '{{1}}', '{}',
                 '1+1,2*3;4-1,8/2', '-1,-2;-3,-4', '1%,2^3;.5,1.5'):
        yield '{' + body + '}'
        yield 'ARGS(' + body + ')'
        yield 'ARGS({' + body + '})'
        yield 'COUNTARGS(' + body + ')'
    # whitespace around tokens, nested calls, references, errors inside sequences
    for formula in (
            'ARGS( 1 , 2 , 3 )', 'ARGS(1 ;2; 3)', 'ARGS( 1\\ 2 \\3 )', 'ARGS(\t1,\n2)', 'ARGS (1,2)',
            '{ 1 , 2 }', '{ 1 ; 2 }', '{ 1 \\ 2 }', ' { 1,2 } ', 'ARGS( , )', 'ARGS( ; )', 'ARGS( \\ )',
            'ARGS( ,, )', 'ARGS(, ,)', '{ , }', '{, ,}', '{ ; ; }',
            'ARGS(ARGS(1,2),ARGS(3;4),ARGS(5\\6))', 'ARGS(ARGS(),ARGS(,),ARGS(,,))',
            'ARGS({1,2},{3;4},{5\\6})', 'ARGS({1,2;3,4},{5\\6;7\\8})', 'COUNTARGS(ARGS(1,2),{1,2,3})',
            'ARGS(A1,B2,C3)', 'ARGS(a1;b2;c3)', 'ARGS(A1\\b2\\C3)', '{A1,B2}', '{a1;B2}', '{A1,b2;c3,D4}',
            'ARGS(A1:B2,C3)', 'ARGS(a1:b2;c3)', '{A1:B2,1}', 'ARGS($A$1,$B2,C$3)',
            'ARGS(foo,TRUE,FALSE,NULL)', 'ARGS(foo;bar)', '{foo,TRUE}', '{TRUE;FALSE;NULL}',
            'ARGS(#N/A,1)', 'ARGS(1,#VALUE!)', '{1,#REF!}', '{#DIV/0!;1}', 'ARGS(1/0,2)', '{1/0,2}',
            'ARGS(1,UNKNOWNFN(2))', '{UNKNOWNFN(),1}', 'ARGS("a,b","c;d","e\\f")', "ARGS('x','y,z')",
            '{"a,b";"c;d"}', '{"",""}', 'ARGS("","")', 'ARGS(1,2', 'ARGS(1,2))', '{1,2', '1,2', '1;2',
            '{1,2}}', 'ARGS(1,,,2)', 'ARGS(1;;;2)', 'ARGS(1\\\\\\2)', 'ARGS(,,,)', '{,,,}', '{;;;}',
            'SUM(1,2,3)', 'SUM(1;2;3)', 'SUM(1\\2\\3)', 'SUM({1,2,3})', 'SUM({1;2;3})', 'SUM({1,2;3,4})',
            'SUM(1,,3)', 'SUM(,1)', 'SUM(1,)', 'SUM({1,2},{3,4})', 'IF(TRUE,1,2)', 'IF(FALSE;1;2)',
            'IF(TRUE\\1\\2)', 'IF(TRUE,,2)', 'IF(FALSE,1,)', 'IF(,1,2)', 'CONCATENATE("a",,"b")',
            'CONCATENATE("a";"b";"c")', 'MAX({1,5;7,2})', 'MIN({1\\5;7\\2})', 'COUNT({1,2;3,4})',
            'COUNTA(1,,3)', 'AVERAGE(1;2;3;4)', 'ARGS(1,2)&ARGS(3;4)', 'ARGS(1,2)=ARGS(1;2)',
            'ARGS((1),(2))', 'ARGS((1,2))', 'ARGS(-1,-(2),--3)', 'ARGS(1%,2^2,.5,10.25)',
            'ARGS(1+2,3*4;5)', 'ARGS(1<2,2>=3,"a"<>"b")', 'ARGS(1,2)+1', '{1,2}&"x"',
    ):
        yield formula


def main():
    parser, events = make_parser()
    second, second_events = make_parser()
    batch = list(formulas())
    for formula in batch:
        evaluate('p1', parser, events, formula)
    # the same parser again (every third formula) and a second parser (every other one)
    for formula in batch[::3]:
        evaluate('p1-again', parser, events, formula)
    for formula in batch[::2]:
        evaluate('p2', second, second_events, formula)
    # a parser without listeners or custom functions
    bare = hotxlfp.Parser()
    for formula in ('{1,2,3}', '{1;2;3}', '{1\\2\\3}', '{1,2;3,4}', '{1\\2;3\\4}', '{,}', '{;;}', '{1,,2}',
                    'SUM(1,2;3)', 'SUM(1,2,3)', 'A1', '{A1,b2}', 'ARGS(1)', 'SUM(,)', 'SUM(,,)', '{1,2;3,4;5,6}'):
        evaluate('bare', bare, [], formula)
    print('evaluations: %d' % COUNTER[0])


if __name__ == '__main__':
    main()
