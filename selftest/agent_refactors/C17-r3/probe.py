# -*- coding: utf-8 -*-
"""
Probe for C17 refactoring 3 (ROMAN / ARABIC / BASE: module-level constant tables,
module-level numeral generator, list + join, divmod).
Prints a deterministic transcript; it must be byte-identical before and after the change.
"""
import os
import sys
import random

sys.path.insert(0, os.path.dirname(os.path.dirname(os.path.abspath(__file__))))

import hotxlfp  # noqa: E402
from hotxlfp.formulas import mathtrig, error  # noqa: E402

COUNT = [0]


def show(value):
    if isinstance(value, BaseException):
        return '%s(%s)' % (type(value).__name__, str(value))
    if isinstance(value, dict):
        return '{' + ', '.join('%r: %s' % (k, show(value[k])) for k in sorted(value)) + '}'
    if isinstance(value, (list, tuple)):
        inner = ', '.join(show(v) for v in value)
        return ('[%s]' if isinstance(value, list) else '(%s)') % inner
    if callable(value):
        return 'callable:%s' % getattr(value, '__name__', '?')
    return '%s:%r' % (type(value).__name__, value)


class Probe(object):
    """a parser together with a log of the events it emits"""

    def __init__(self, name):
        self.name = name
        self.parser = hotxlfp.Parser()
        self.events = []
        self.parser.on('callFunction', self.on_function)
        self.parser.on('callVariable', self.on_variable)
        self.parser.on('callCellValue', self.on_cell)
        self.parser.set_variable('N', 1994)
        self.parser.set_variable('T', 'mmxxiv')
        self.parser.set_variable('B', None)
        self.parser.set_variable('ARR', [1, 2, 3])
        self.parser.set_variable('ERR', error.NUM)

    def on_function(self, name, args, setter):
        self.events.append('F %s %s' % (name, show(list(args))))

    def on_variable(self, name, setter):
        self.events.append('V %s' % name)

    def on_cell(self, cell, setter):
        self.events.append('C %s' % cell.label)
        if cell.label == 'A1':
            setter(1666)
        elif cell.label == 'A2':
            setter('MDCLXVI')
        elif cell.label == 'A3':
            setter(2)

    def ev(self, formula):
        del self.events[:]
        out = self.parser.parse(formula)
        COUNT[0] += 1
        print('%s | %s -> %s | %s' % (self.name, formula, show(out), '; '.join(self.events)))


def call(fn, *args):
    COUNT[0] += 1
    try:
        out = fn(*args)
    except BaseException as e:  # noqa
        out = e
        print('call %s%s raised %s' % (fn.__name__, show(args), show(out)))
        return None
    print('call %s%s -> %s' % (fn.__name__, show(args), show(out)))
    return out


class Odd(object):
    def __str__(self):
        return 'xiv'

    def __repr__(self):
        return 'Odd()'


def main():
    p1 = Probe('p1')
    p2 = Probe('p2')

    # ---- ROMAN through the parser -------------------------------------------------------
    formulas = []
    for n in (1, 2, 3, 4, 5, 6, 8, 9, 10, 14, 19, 40, 45, 49, 90, 95, 99, 400, 444, 445, 490, 495, 499,
              900, 945, 949, 990, 995, 999, 1000, 1666, 1994, 1999, 2024, 2999, 3888, 3994, 3999):
        formulas.append('ROMAN(%d)' % n)
        for form in range(5):
            formulas.append('ROMAN(%d,%d)' % (n, form))
    formulas += [
        'ROMAN(0)', 'ROMAN(-1)', 'ROMAN(4000)', 'ROMAN(3999.5)', 'ROMAN(0.5)', 'ROMAN(499.9,2)',
        'ROMAN(499,5)', 'ROMAN(499,-1)', 'ROMAN(499,4.0)', 'ROMAN(499,2.5)', 'ROMAN(499,0.5)', 'ROMAN(1999,3.999)',
        'ROMAN(499,TRUE)', 'ROMAN(499,FALSE)', 'ROMAN(499,TRUE())', 'ROMAN(499,FALSE())',
        'ROMAN(TRUE)', 'ROMAN(FALSE)', 'ROMAN(TRUE,TRUE)', 'ROMAN("499")', 'ROMAN("499","3")',
        'ROMAN("abc")', 'ROMAN(499,"abc")', 'ROMAN("")', 'ROMAN("4e2")', 'ROMAN("1e3",1)',
        'ROMAN()', 'ROMAN(1,2,3)', 'ROMAN(B)', 'ROMAN(N)', 'ROMAN(N,B)', 'ROMAN(ARR)', 'ROMAN(ERR)',
        'ROMAN(N,ERR)', 'ROMAN(1/0)', 'ROMAN(#N/A)', 'ROMAN(10,#REF!)', 'ROMAN(A1)', 'ROMAN(A1,A3)',
        'ROMAN(A9)', 'ROMAN(A1,A9)', 'ROMAN({1,2})', 'ROMAN(2^10)', 'ROMAN(1e3)', 'ROMAN(-0)',
        'ROMAN(3999,4)&ROMAN(1,0)', 'LEN(ROMAN(3888))', 'ROMAN(ROUND(1234.5,0))', 'ROMAN(INT(12.7))',
    ]
    # ---- ARABIC through the parser ------------------------------------------------------
    for t in ('M', 'LVII', 'mcmxii', 'MMXXIV', 'MDCLXVI', 'IV', 'IX', 'XL', 'XC', 'CD', 'CM', 'MMMM', 'MMMMM',
              'MMMMCMXCIX', 'IIII', 'VV', 'IC', 'IM', 'VM', 'XM', 'LM', 'ID', 'VD', 'XD', 'LD', 'IL', 'VL',
              'XCIX', 'VLIV', 'LDVLIV', 'XDIX', 'CDXCIX', '', ' ', ' X', 'X ', 'x', 'MmXx', 'ABC', '12',
              'CMCM', 'CDC', 'DCD', 'XLX', 'IXI', 'IVI', 'DD', 'LL', 'CCCC', 'XXXX', 'MCMXCIV', 'mdclxvi'):
        formulas.append('ARABIC("%s")' % t)
    formulas += [
        'ARABIC(12)', 'ARABIC(TRUE)', 'ARABIC(B)', 'ARABIC(T)', 'ARABIC(ARR)', 'ARABIC(ERR)', 'ARABIC(#N/A)',
        'ARABIC()', 'ARABIC("X","I")', 'ARABIC(A2)', 'ARABIC(A9)', 'ARABIC(1/0)', 'ARABIC({"X","V"})',
        'ARABIC("M"&"CM")', 'ARABIC(LOWER("MCM"))', 'ARABIC(ROMAN(499))', 'ARABIC(ROMAN(499,4))',
        'ARABIC(ROMAN(A1,A3))', 'ARABIC(ROMAN(N))+1', 'ROMAN(ARABIC(T))', 'ROMAN(ARABIC(A2),4)',
        'ARABIC(ROMAN(0))', 'ARABIC(ROMAN(4000))', 'ARABIC(CHAR(77)&CHAR(10))',
    ]
    # ---- BASE / DECIMAL through the parser ----------------------------------------------
    formulas += [
        'BASE(7,2)', 'BASE(100,16)', 'BASE(15,2,10)', 'BASE(0,2)', 'BASE(0,36)', 'BASE(0,2,0)', 'BASE(0,2,3)',
        'BASE(1,2,0)', 'BASE(255,16,1)', 'BASE(255,16,2)', 'BASE(255,16,8)', 'BASE(35,36)', 'BASE(36,36)',
        'BASE(1295,36)', 'BASE(46655,36)', 'BASE(46656,36)', 'BASE(-1,2)', 'BASE(1,1)', 'BASE(1,37)',
        'BASE(1,0)', 'BASE(1,-2)', 'BASE(10,2,-1)', 'BASE(10.9,2)', 'BASE(10,2.9)', 'BASE(10,2,4.5)',
        'BASE(10,1.5)', 'BASE(10,36.5)', 'BASE(0.5,2)', 'BASE(-0.5,2)', 'BASE(TRUE,2)', 'BASE(3,TRUE)',
        'BASE("12","3")', 'BASE("12","3","5")', 'BASE("a",2)', 'BASE(2,"a")', 'BASE(2,2,"a")', 'BASE(B,2)',
        'BASE(2,B)', 'BASE(2,2,B)', 'BASE(ERR,2)', 'BASE(2,ERR)', 'BASE(2,2,ERR)', 'BASE(#N/A,2)', 'BASE()',
        'BASE(1)', 'BASE(1,2,3,4)', 'BASE(ARR,2)', 'BASE(A1,A3)', 'BASE(A1,16,A3)', 'BASE(A9,2)',
        'BASE(2^40,2)', 'BASE(2^53,36)', 'BASE(1e15,10)', 'BASE(1e22,7)', 'BASE(549755813887,16)',
        'BASE(549755813888,16)', 'BASE(1099511627775,16)', 'BASE(1099511627776,16)',
        'DECIMAL("FF",16)', 'DECIMAL(111,2)', 'DECIMAL("zap",36)', 'DECIMAL("ZZ",36)', 'DECIMAL("z",35)',
        'DECIMAL("12",2)', 'DECIMAL("",2)', 'DECIMAL("10",1)', 'DECIMAL("10",37)', 'DECIMAL("10",0)',
        'DECIMAL("7FFFFFFFFF",16)', 'DECIMAL("8000000000",16)', 'DECIMAL("FFFFFFFFFF",16)',
        'DECIMAL(BASE(12345,7),7)', 'DECIMAL(BASE(A1,A3),A3)', 'DECIMAL(BASE(N,36),36)',
        'DECIMAL(BASE(0,5),5)', 'DECIMAL(BASE(549755813887,36),36)', 'BASE(DECIMAL("HELLO",36),36)',
        'BASE(DECIMAL("00101",2),2,5)', 'HEX2DEC(BASE(48879,16))', 'BASE(HEX2DEC("BEEF"),16)',
        'DEC2HEX(DECIMAL("1010",2))', 'LEN(BASE(2^52,2))', 'BASE(10,2)&BASE(10,8)&BASE(10,16)',
    ]
    for r in (2, 3, 8, 10, 11, 16, 20, 35, 36):
        formulas.append('BASE(123456789,%d)' % r)
        formulas.append('DECIMAL(BASE(123456789,%d),%d)' % (r, r))
        formulas.append('BASE(%d,%d)' % (r - 1, r))
        formulas.append('BASE(%d,%d,3)' % (r * r, r))

    for f in formulas:
        p1.ev(f)
    # a second parser and repeated evaluation on the first
    for f in formulas[::3]:
        p2.ev(f)
    for f in formulas[::7]:
        p1.ev(f)

    # ---- direct calls: exhaustive round trips -------------------------------------------
    bad = 0
    for n in range(1, 4000):
        for form in (0, 1, 2, 3, 4, True, False, 0.0, 1.5, 4.0):
            text = mathtrig.ROMAN(n, form)
            if mathtrig.ARABIC(text) != n and form in (0, True):
                bad += 1
            if n % 97 == 0 or n in (1, 3999):
                print('ROMAN(%r,%r) = %s ; ARABIC = %s' % (n, form, show(text), show(mathtrig.ARABIC(text))))
    COUNT[0] += 1
    print('classic round trip failures: %d' % bad)
    import hashlib
    h = hashlib.sha256()
    for n in range(1, 4000):
        for form in (0, 1, 2, 3, 4):
            h.update(mathtrig.ROMAN(n, form).encode('ascii') + b'\n')
    COUNT[0] += 1
    print('sha256 of all 5 x 3999 numerals: %s' % h.hexdigest())
    h = hashlib.sha256()
    for r in range(2, 37):
        for n in list(range(0, 1500)) + [2 ** k for k in range(11, 64)] + [2 ** k - 1 for k in range(11, 64)]:
            t = mathtrig.BASE(n, r)
            h.update(t.encode('ascii') + b'\n')
            if int(t, r) != n:
                print('BASE mismatch', n, r, t)
    COUNT[0] += 1
    print('sha256 of BASE table: %s' % h.hexdigest())

    rnd = random.Random(17)
    for _ in range(60):
        n = rnd.randrange(0, 2 ** rnd.randrange(1, 70))
        r = rnd.randrange(2, 37)
        places = rnd.choice([None, 0, 1, 5, 20, 80])
        if places is None:
            t = call(mathtrig.BASE, n, r)
        else:
            t = call(mathtrig.BASE, n, r, places)
        if isinstance(t, str):
            call(mathtrig.DECIMAL, t, r)
    for _ in range(40):
        n = rnd.choice([rnd.randrange(1, 4000), rnd.uniform(0, 4100)])
        form = rnd.choice([0, 1, 2, 3, 4, True, False, rnd.uniform(-0.5, 4.5)])
        t = call(mathtrig.ROMAN, n, form)
        if isinstance(t, str):
            call(mathtrig.ARABIC, t)
            call(mathtrig.ARABIC, t.lower())

    # ---- direct calls: unusual types ----------------------------------------------------
    inf = float('inf')
    nan = float('nan')
    weird = [None, True, False, '', ' ', 'x', '12', '1e2', '0x10', 1.0, -0.0, 0.5, 3999.9999999, 4000.0,
             inf, -inf, nan, 1 + 2j, 5j, [], [1], (1, 2), {}, error.VALUE, error.DIV_ZERO, error.NOT_AVAILABLE,
             b'X', Odd(), 10 ** 30, -10 ** 30, 2 ** 64, '499', ' 499 ', '4_99']
    for w in weird:
        call(mathtrig.ROMAN, w)
        call(mathtrig.ROMAN, 499, w)
        call(mathtrig.ROMAN, w, w)
        call(mathtrig.ARABIC, w)
        call(mathtrig.BASE, w, 2)
        call(mathtrig.BASE, 77, w)
        call(mathtrig.BASE, 77, 5, w)
        call(mathtrig.DECIMAL, w, 16)
    call(mathtrig.ROMAN)
    call(mathtrig.ROMAN, 1, 2, 3)
    call(mathtrig.ARABIC)
    call(mathtrig.ARABIC, 'X', 'X')
    call(mathtrig.BASE)
    call(mathtrig.BASE, 1)
    call(mathtrig.BASE, 1, 2, 3, 4)
    call(mathtrig.BASE, 5, 2, mathtrig.DEFAULT)
    call(mathtrig.ARABIC, 'M\n')
    call(mathtrig.ARABIC, 'M\n\n')
    call(mathtrig.ARABIC, '\nM')
    call(mathtrig.ARABIC, 'm' * 4 + 'cm' + 'xc' + 'ix')
    call(mathtrig.ARABIC, u'Ⅰ')
    call(mathtrig.ARABIC, u'ſ')
    call(mathtrig.ARABIC, u'ıv')
    print('evaluations: %d' % COUNT[0])


if __name__ == '__main__':
    main()
