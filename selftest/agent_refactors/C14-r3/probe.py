# -*- coding: utf-8 -*-
"""Probe for C14 refactoring 3 (DATEDIF unit dispatch table). Deterministic transcript."""
import os
import sys
import random
import datetime

sys.path.insert(0, os.path.dirname(os.path.dirname(os.path.abspath(__file__))))

import hotxlfp
from hotxlfp.formulas import dateandtime, error

COUNT = [0]


def show(value):
    if isinstance(value, error.XLError):
        return 'XLError(%s)' % str(value)
    if isinstance(value, dict):
        return '{' + ', '.join('%r: %s' % (k, show(value[k])) for k in sorted(value)) + '}'
    if isinstance(value, (list, tuple)):
        return type(value).__name__ + '[' + ', '.join(show(v) for v in value) + ']'
    return repr(value)


def make_parser():
    p = hotxlfp.Parser()
    events = []

    def on_function(name, args, setter):
        events.append('%s(%s)' % (name, ', '.join(show(a) for a in args)))

    def on_cell(cell, setter):
        events.append('cell:%s' % cell.label)
        values = {'A1': datetime.datetime(2019, 10, 6), 'A2': datetime.datetime(2020, 10, 5),
                  'A3': 'ym', 'A4': None, 'A5': 43000, 'A6': '2021-03-04T05:06:07', 'A7': True}
        setter(values.get(cell.label))

    p.on('callFunction', on_function)
    p.on('callCellValue', on_cell)
    p.set_variable('UNITVAR', 'YD')
    p.set_variable('D1', datetime.datetime(2000, 2, 29))
    p.set_variable('D2', datetime.datetime(2023, 2, 28, 13, 14, 15))
    return p, events


def ev(p, events, formula, tag='p1'):
    del events[:]
    out = p.parse(formula)
    COUNT[0] += 1
    print('%s | %s => %s | events: %s' % (tag, formula, show(out), ' ; '.join(events)))


def direct(fn, *args):
    COUNT[0] += 1
    try:
        out = show(fn(*args))
    except Exception as e:  # noqa
        out = 'raised %s: %s' % (type(e).__name__, e)
    print('direct | %s(%s) => %s' % (fn.__name__, ', '.join(show(a) for a in args), out))


class MyStr(str):
    pass


def main():
    p1, e1 = make_parser()
    p2, e2 = make_parser()
    units = ['"y"', '"m"', '"d"', '"md"', '"ym"', '"yd"']
    odd_units = ['"Y"', '"M"', '"D"', '"MD"', '"Ym"', '"yD"', '"YM"', '"x"', '""', '" y"', '"y "', '"dy"',
                 '"days"', '1', '0', 'TRUE', 'FALSE', '', '1/0', '#N/A', '"1"', 'UNITVAR', 'A3', 'A4', '{"y"}', '2.5']
    pairs = [
        ('DATE(2019,10,6)', 'DATE(2020,10,5)'),
        ('DATE(2019,10,6)', 'DATE(2020,10,6)'),
        ('DATE(2019,10,6)', 'DATE(2020,10,7)'),
        ('DATE(2019,1,20)', 'DATE(2019,3,10)'),
        ('DATE(2019,1,31)', 'DATE(2019,3,1)'),
        ('DATE(2020,1,31)', 'DATE(2020,3,1)'),
        ('DATE(2019,12,31)', 'DATE(2020,1,1)'),
        ('DATE(2019,12,31)', 'DATE(2020,1,30)'),
        ('DATE(2000,2,29)', 'DATE(2001,2,28)'),
        ('DATE(2000,2,29)', 'DATE(2004,2,29)'),
        ('DATE(2000,2,29)', 'DATE(2003,3,1)'),
        ('DATE(1900,1,1)', 'DATE(9999,12,31)'),
        ('DATE(1900,1,1)', 'DATE(1900,1,2)'),
        ('DATE(1900,2,28)', 'DATE(1900,3,1)'),
        ('DATE(5,5,5)', 'DATE(1905,6,4)'),
        ('DATE(2020,10,5)', 'DATE(2019,10,6)'),
        ('DATE(2020,10,5)', 'DATE(2020,10,5)'),
        ('DATE(2019,4,30)', 'DATE(2019,5,29)'),
        ('DATE(2019,5,31)', 'DATE(2019,6,30)'),
        ('DATE(2019,6,30)', 'DATE(2019,7,29)'),
        ('DATE(2019,11,30)', 'DATE(2019,12,1)'),
        ('"2019-10-06"', '"2020-10-05"'),
        ('"2019-10-06T10:11:12"', '"2019-10-06T10:11:13"'),
        ('"2019-10-06T10:11:12"', '"2019-10-06T10:11:12"'),
        ('"2019-10-06T10:11:12Z"', '"2020-10-06T10:11:12Z"'),
        ('"2019-10-06T10:11:12Z"', '"2020-10-06T10:11:12"'),
        ('"2019-10-06T10:11:12+02:00"', '"2019-10-06T08:11:12Z"'),
        ('"8/22/2011"', '"22-MAY-2012"'),
        ('1', '2'), ('0', '1'), ('0', '0'), ('0', '0.5'), ('59', '61'), ('60', '61'), ('60', '60'),
        ('40000', '43000'), ('43000', '40000'), ('40000.25', '40000.75'), ('"40000"', '"40366"'),
        ('-1', '5'), ('5', '-1'), ('TRUE', '400'), ('FALSE', 'TRUE'), ('', '400'), ('400', ''), ('', ''),
        ('"abc"', '400'), ('400', '"abc"'), ('1/0', '400'), ('400', '#REF!'), ('#N/A', '#NUM!'),
        ('A1', 'A2'), ('A2', 'A1'), ('A4', 'A5'), ('A5', 'A6'), ('A7', 'A5'), ('D1', 'D2'), ('D2', 'D1'),
        ('{1,2}', '400'), ('400', '{500,600}'), ('1e20', '2e20'), ('2958465', '2958466'),
    ]
    # every unit on every pair
    for s, e in pairs:
        for u in units:
            ev(p1, e1, 'DATEDIF(%s, %s, %s)' % (s, e, u))
    # unusual units on a few pairs (start < end, start == end, start > end, error)
    for s, e in (pairs[0], pairs[16], pairs[15], ('"abc"', '400')):
        for u in odd_units:
            ev(p1, e1, 'DATEDIF(%s, %s, %s)' % (s, e, u))
    # unusual argument counts and nesting
    for f in ['DATEDIF()', 'DATEDIF(1)', 'DATEDIF(1,2)', 'DATEDIF(1,2,"d",4)', 'DATEDIF(1;400;"m")',
              'DATEDIF(DATE(2019,1,1), EDATE(DATE(2019,1,31), 1), "md")',
              'DATEDIF(DATE(2019,1,1), DATE(2019,1,1)+400, "ym")',
              'DATEDIF(1, 800, "y") + DATEDIF(1, 800, "m") * 2',
              'SUM(DATEDIF(1, 800, "d"), DATEDIF(1, 800, "yd"))',
              'IF(DATEDIF(A1, A2, "y") = 0, "lt1", "ge1")',
              'DAYS(DATE(2020,10,5), DATE(2019,10,6)) - DATEDIF(DATE(2019,10,6), DATE(2020,10,5), "D")',
              'YEAR(DATE(2020,10,5)) & MONTH(DATE(2020,10,5)) & DAY(DATE(2020,10,5))',
              'datedif(1, 800, "d")']:
        ev(p1, e1, f)
    # random dates, fixed seed; same formulas on both parsers, and repeated on the first
    rnd = random.Random(1414)
    formulas = []
    for _ in range(60):
        y1 = rnd.randint(1900, 2100)
        y2 = y1 + rnd.choice([0, 0, 1, 1, 2, 7, 100])
        m1, m2 = rnd.randint(1, 12), rnd.randint(1, 12)
        d1, d2 = rnd.randint(1, 28), rnd.randint(1, 31)
        formulas.append('DATEDIF(DATE(%d,%d,%d), DATE(%d,%d,%d), "%s")' % (
            y1, m1, d1, y2, m2, d2, rnd.choice(['y', 'm', 'd', 'md', 'ym', 'yd', 'Y', 'YM', 'q'])))
    for f in formulas:
        ev(p1, e1, f)
    for f in formulas:
        ev(p2, e2, f, 'p2')
    for f in formulas[:20]:
        ev(p1, e1, f, 'p1-again')
    # direct calls with python values
    dt = datetime.datetime
    aware = dt(2020, 1, 1, tzinfo=datetime.timezone.utc)
    for u in ['y', 'm', 'd', 'md', 'ym', 'yd', 'YD', 'zz', '', MyStr('y'), b'y', None, 1, 1.0, True, ('y',), ['y'],
              error.NUM, u'K', 'ı']:
        direct(dateandtime.DATEDIF, dt(2000, 2, 29), dt(2023, 2, 28), u)
        direct(dateandtime.DATEDIF, dt(2023, 2, 28), dt(2023, 2, 28), u)
        direct(dateandtime.DATEDIF, dt(2023, 2, 28), dt(2000, 2, 29), u)
    for u in ['y', 'm', 'd', 'md', 'ym', 'yd', 'nope']:
        direct(dateandtime.DATEDIF, aware, dt(2021, 1, 1), u)
        direct(dateandtime.DATEDIF, aware, aware, u)
        direct(dateandtime.DATEDIF, aware, dt(2021, 1, 1, tzinfo=datetime.timezone.utc), u)
        direct(dateandtime.DATEDIF, None, 400, u)
        direct(dateandtime.DATEDIF, 'x', 400, u)
        direct(dateandtime.DATEDIF, 1.5, float('nan'), u)
        direct(dateandtime.DATEDIF, [1], 2, u)
        direct(dateandtime.DATEDIF, dt(2000, 2, 29), dt(2001, 2, 1), u)
        direct(dateandtime.DATEDIF, dt(1, 1, 1), dt(1, 3, 1), u)
        direct(dateandtime.DATEDIF, dt(2019, 3, 31), dt(2019, 1, 1).replace(year=2020), u)
    print('registered: %r' % (hotxlfp.formulas.get_for('DATEDIF') is dateandtime.DATEDIF))
    print('evaluations: %d' % COUNT[0])


if __name__ == '__main__':
    main()
