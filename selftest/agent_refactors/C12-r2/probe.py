# -*- coding: utf-8 -*-
"""
Probe for C12 refactoring 2 (information.py type predicates and ISEVEN / ISODD, logic.py IF / NOT).
Prints a deterministic transcript: one line per evaluation.
"""
import os
import sys
import datetime
import decimal
import fractions

sys.path.insert(0, os.path.dirname(os.path.dirname(os.path.abspath(__file__))))

import hotxlfp  # noqa: E402
from hotxlfp.formulas import error, information, logic  # noqa: E402

COUNT = [0]


def show(value):
    """ repr without memory addresses """
    if type(value) in (list, tuple):  # type(), not isinstance(): some probe values lie about their class
        inner = ', '.join(show(v) for v in value)
        if type(value) is list:
            return '[' + inner + ']'
        return '(' + inner + (',)' if len(value) == 1 else ')')
    if type(value) is dict:
        return '{' + ', '.join('%s: %s' % (show(k), show(v)) for k, v in sorted(value.items())) + '}'
    return repr(value)


def line(kind, what, outcome):
    COUNT[0] += 1
    print('%04d %s %s -> %s' % (COUNT[0], kind, what, outcome))


# ---------------------------------------------------------------------------
# part 1: formulas through the parser, with the events that were seen
# ---------------------------------------------------------------------------

SHEET = {
    'A1': 1, 'A2': 0, 'A3': None, 'A4': 'text', 'A5': True, 'A6': False,
    'A7': error.DIV_ZERO, 'A8': '', 'A9': -2.5, 'A10': error.NOT_AVAILABLE,
    'B1': 2, 'B2': '2', 'B3': 3.0, 'B4': -3, 'B5': 2.9999, 'B6': error.VALUE,
    'B7': 1e15, 'B8': 1e15 + 1, 'B9': -0.0, 'B10': 0.9999999999999999,
}


def make_parser():
    parser = hotxlfp.Parser()
    events = []

    def on_function(name, args, setter):
        events.append('F:%s%s' % (name, show(args)))

    def on_variable(name, setter):
        events.append('V:%s' % name)
        table = {'one': 1, 'zero': 0, 'txt': 'abc', 'empty': '', 'errnum': error.NUM, 'errna': error.NOT_AVAILABLE,
                 'lst': [1, [0, [True, None]], 'a'], 'big': 2 ** 70, 'bigodd': 2 ** 70 + 1, 'huge': 1e308,
                 'inf': float('inf'), 'nan': float('nan'), 'cplx': 2 + 0j, 'date': datetime.datetime(2020, 1, 2)}
        if name in table:
            setter(table[name])

    def on_cell(cell, setter):
        events.append('C:%s' % cell.label)
        setter(SHEET.get(cell.label))

    def on_range(start, end, setter):
        events.append('R:%s:%s' % (start.label, end.label))
        rows = []
        for r in range(start.row.index, end.row.index + 1):
            row = []
            for c in range(start.col.index, end.col.index + 1):
                row.append(SHEET.get('ABCDEFGH'[c] + str(r + 1)))
            rows.append(row)
        setter(rows)

    parser.on('callFunction', on_function)
    parser.on('callVariable', on_variable)
    parser.on('callCellValue', on_cell)
    parser.on('callRangeValue', on_range)
    parser.set_variable('blank', None)
    return parser, events


def run_formula(parser, events, formula):
    del events[:]
    outcome = parser.parse(formula)
    line('formula', repr(formula), '%s | events %s' % (show(outcome), ' '.join(events)))


ATOMS = ['TRUE', 'FALSE', '1', '0', '-1', '2', '-2', '3', '0.5', '1.5', '2.5', '-1.5', '-0.5', '0.0', '2.999', '3.001',
         '""', '"a"', '"2"', '"3"', '"TRUE"', '" "', '"#N/A"',
         'A1', 'A2', 'A3', 'A4', 'A5', 'A6', 'A7', 'A8', 'A9', 'A10',
         'B1', 'B2', 'B3', 'B4', 'B5', 'B6', 'B7', 'B8', 'B9', 'B10',
         'NA()', '1/0', 'SQRT(-1)', 'blank', 'one', 'zero', 'txt', 'empty', 'errnum', 'errna', 'lst', 'big', 'bigodd',
         'huge', 'inf', 'nan', 'cplx', 'date', '{1,2}', '{2}', '{"a"}', 'A1:A3', 'B1:B4', 'TRUE()', 'FALSE()',
         '1=1', '1>2', '2^3', '50%', '300%', '1&2', '1+1', '7/2', '-(3)', 'IF(TRUE,,)', 'T(1)', 'N("a")']

PREDICATES = ['ISNUMBER', 'ISTEXT', 'ISLOGICAL', 'ISBLANK', 'ISERROR', 'ISERR', 'ISNA', 'ISNONTEXT', 'ISEVEN', 'ISODD']

FORMULAS = []
for fn in PREDICATES:
    for a in ATOMS:
        FORMULAS.append('%s(%s)' % (fn, a))
    FORMULAS.append('%s()' % fn)
    FORMULAS.append('%s(,)' % fn)
    FORMULAS.append('%s(1,2)' % fn)
    FORMULAS.append('%s(%s(1))' % (fn, fn))
    FORMULAS.append('NOT(%s(1))' % fn)
    FORMULAS.append('IF(%s(A4),"yes","no")' % fn)
    FORMULAS.append('%s(1)+0' % fn)
    FORMULAS.append('%s(2)=TRUE' % fn)
    FORMULAS.append('%s(2)&""' % fn)
    FORMULAS.append(fn.lower() + '(2)')

FORMULAS += [
    # the relations the property states, spelled as formulas
    'ISERROR(1/0)=OR(ISERR(1/0),ISNA(1/0))', 'ISERROR(NA())=OR(ISERR(NA()),ISNA(NA()))',
    'ISERROR(1)=OR(ISERR(1),ISNA(1))', 'ISNONTEXT("a")=NOT(ISTEXT("a"))', 'ISNONTEXT(1)=NOT(ISTEXT(1))',
    'ISNONTEXT(A3)=NOT(ISTEXT(A3))', 'ISEVEN(3)=NOT(ISODD(3))', 'ISEVEN(4)=NOT(ISODD(4))',
    'ISEVEN(-3.7)=NOT(ISODD(-3.7))', 'ISODD(3)', 'ISODD(3)=TRUE', 'ISODD(3)=1', 'ISODD(4)=0', 'ISODD(4)=FALSE',
    'ISODD(3)+ISODD(5)', 'ISEVEN(2)+ISEVEN(4)', 'IF(ISODD(3),"odd","even")', 'IF(ISODD(4),"odd","even")',
    'IF(ISEVEN("x"),"odd","even")', 'NOT(ISODD(3))', 'NOT(ISODD(4))', 'NOT(ISODD("x"))', 'AND(ISODD(3),ISEVEN(2))',
    'XOR(ISODD(3),ISODD(5),ISODD(7))', 'SUM(ISODD(3),ISODD(5))',
    # IF
    'IF(TRUE,1,2)', 'IF(FALSE,1,2)', 'IF(1,"t","f")', 'IF(0,"t","f")', 'IF(-1,"t","f")', 'IF(0.0,"t","f")',
    'IF("","t","f")', 'IF("a","t","f")', 'IF("0","t","f")', 'IF("FALSE","t","f")', 'IF(A3,"t","f")', 'IF(A8,"t","f")',
    'IF(A7,"t","f")', 'IF(A10,"t","f")', 'IF(1/0,"t","f")', 'IF(NA(),"t","f")', 'IF(SQRT(-1),"t","f")',
    'IF(TRUE,1/0,2)', 'IF(FALSE,1/0,2)', 'IF(TRUE,1,1/0)', 'IF(FALSE,1,1/0)', 'IF(TRUE,NA(),1/0)', 'IF(,,)',
    'IF(,1,2)', 'IF(TRUE,,2)', 'IF(FALSE,1,)', 'IF(TRUE,1,)', 'IF(FALSE,,2)', 'IF(TRUE)', 'IF(TRUE,1)', 'IF()',
    'IF(TRUE,1,2,3)', 'IF({1,0},"t","f")', 'IF({0},"t","f")', 'IF({0,0},"t","f")', 'IF(A1:A3,"t","f")',
    'IF(lst,"t","f")', 'IF(blank,"t","f")', 'IF(empty,"t","f")', 'IF(zero,"t","f")', 'IF(one,"t","f")',
    'IF(errnum,"t","f")', 'IF(errna,"t","f")', 'IF(nan,"t","f")', 'IF(inf,"t","f")', 'IF(cplx,"t","f")',
    'IF(date,"t","f")', 'IF(1>2,"t","f")', 'IF(2>1,"t","f")', 'IF(A1=1,A4,A9)', 'IF(A2=1,A4,A9)',
    'IF(IF(TRUE,FALSE,TRUE),"t","f")', 'IF(TRUE,IF(FALSE,1,2),3)', 'IF(TRUE,{1,2},3)', 'IF(FALSE,3,{1,2})',
    'IF(TRUE;1;2)', 'IF(FALSE;1;2)', 'if(TRUE,1,2)', 'IF(NOT(TRUE),1,2)', 'IF(ISERROR(1/0),"err","ok")',
    'IF(ISBLANK(A3),"blank",A3)', 'IF(TRUE,1,2)+IF(FALSE,1,2)', 'IF(TRUE,"a","b")&IF(FALSE,"a","b")',
    # NOT
    'NOT(TRUE)', 'NOT(FALSE)', 'NOT(1)', 'NOT(0)', 'NOT(-1)', 'NOT(0.5)', 'NOT(0.0)', 'NOT("")', 'NOT("a")',
    'NOT("0")', 'NOT("FALSE")', 'NOT(A3)', 'NOT(A7)', 'NOT(A10)', 'NOT(A8)', 'NOT(1/0)', 'NOT(NA())',
    'NOT(SQRT(-1))', 'NOT()', 'NOT(,)', 'NOT(1,2)', 'NOT({1})', 'NOT({0})', 'NOT({0,0})', 'NOT(A1:A3)', 'NOT(lst)',
    'NOT(blank)', 'NOT(empty)', 'NOT(zero)', 'NOT(one)', 'NOT(errnum)', 'NOT(errna)', 'NOT(nan)', 'NOT(inf)',
    'NOT(cplx)', 'NOT(date)', 'NOT(NOT(TRUE))', 'NOT(NOT(1/0))', 'NOT(NOT("a"))', 'NOT(1=1)', 'NOT(1>2)',
    'NOT(TRUE)+1', 'NOT(FALSE)&"x"', 'not(TRUE)', 'NOT(IF(TRUE,FALSE,TRUE))', 'NOT(ISNUMBER("a"))',
]


def part_formulas():
    parser, events = make_parser()
    for formula in FORMULAS:
        run_formula(parser, events, formula)
    parser2, events2 = make_parser()
    for formula in ('ISODD(3)', 'ISEVEN(3)', 'ISERR(NA())', 'ISNUMBER(TRUE)', 'IF(1/0,1,2)', 'NOT(NA())', 'ISODD(3)'):
        run_formula(parser2, events2, formula)
        run_formula(parser, events, formula)


# ---------------------------------------------------------------------------
# part 2: direct calls with python values the grammar cannot produce
# ---------------------------------------------------------------------------

class MyInt(int):
    def __repr__(self):
        return 'MyInt(%d)' % int(self)


class MyFloat(float):
    def __repr__(self):
        return 'MyFloat(%r)' % float(self)


class MyStr(str):
    def __repr__(self):
        return 'MyStr(%s)' % str.__repr__(self)


class OddInt(int):
    """ an int whose __int__ lies """
    def __int__(self):
        return 7

    def __repr__(self):
        return 'OddInt(%d)' % int.__add__(self, 0)


class MyError(error.XLError):
    def __repr__(self):
        return 'MyError(%s)' % ', '.join(repr(a) for a in self.args)


class LoudError(error.XLError):
    """ an error value that logs its comparisons and truth tests """
    log = None
    answer = True

    def __eq__(self, other):
        self.log.append('eq(%s)' % show(other))
        return not self.answer

    def __ne__(self, other):
        self.log.append('ne(%s)' % show(other))
        return self.answer

    def __bool__(self):
        self.log.append('bool')
        return True

    __hash__ = None

    def __repr__(self):
        return 'LoudError(%s)' % self.answer


class Loud(object):
    """ logs truth tests and comparisons """

    def __init__(self, name, truth, log, bad_bool=False):
        self.name = name
        self.truth = truth
        self.log = log
        self.bad_bool = bad_bool

    def __bool__(self):
        self.log.append('bool(%s)' % self.name)
        if self.bad_bool:
            raise ValueError('no truth value for %s' % self.name)
        return self.truth

    __nonzero__ = __bool__

    def __eq__(self, other):
        self.log.append('%s==%s' % (self.name, show(other)))
        return 'eq-answer'

    def __ne__(self, other):
        self.log.append('%s!=%s' % (self.name, show(other)))
        return 'ne-answer'

    def __int__(self):
        self.log.append('int(%s)' % self.name)
        return 3

    __hash__ = None

    def __repr__(self):
        return 'Loud(%s)' % self.name


class Spoof(object):
    """ claims another class through __class__ (isinstance honours it), logging each look """

    def __init__(self, claimed, log):
        object.__setattr__(self, '_claimed', claimed)
        object.__setattr__(self, '_log', log)

    @property
    def __class__(self):
        self._log.append('class?')
        return self._claimed

    def __int__(self):
        self._log.append('int')
        return 5

    def __repr__(self):
        return 'Spoof(%s)' % self._claimed.__name__


def call(fn, *args, **kw):
    log = kw.get('log')
    try:
        result = fn(*args)
    except BaseException as e:  # noqa
        seen = list(log or [])
        outcome = 'raised %s(%s)' % (type(e).__name__, e)
    else:
        seen = list(log or [])  # what the call itself did, before show() looks at anything
        outcome = show(result)
    what = '%s%s' % (fn.__name__, show(args))
    if log is not None:
        outcome += ' | log ' + ' '.join(seen)
    line('call', what, outcome)


def part_direct():
    nan = float('nan')
    inf = float('inf')
    values = [True, False, 0, 1, -1, 2, -2, 3, -3, 0.0, -0.0, 0.5, -0.5, 0.9999999999999999, 1.0, 1.5, -1.5, 2.0, 2.5,
              -2.5, 3.999999, 1e-300, 5e-324, 2 ** 31 - 1, 2 ** 31, 2 ** 53, 2 ** 53 + 1, float(2 ** 53), 2 ** 63 - 1,
              2 ** 64, 2 ** 64 + 1, -(2 ** 64) - 1, 10 ** 30, 10 ** 30 + 1, 1e15, 1e15 + 1, 1e16, 1e22, 1e308, -1e308,
              nan, inf, -inf, 0j, 1j, 2 + 0j, 3 + 0j, complex(nan, 0), None, '', ' ', 'a', '0', '1', '2', '3', '2.0',
              'TRUE', 'FALSE', '#N/A', '#DIV/0!', u'\xe9', MyInt(2), MyInt(3), MyInt(-3), MyFloat(2.5), MyFloat(3.0),
              MyFloat(nan), MyStr(''), MyStr('2'), OddInt(2), OddInt(3),
              error.NULL, error.DIV_ZERO, error.VALUE, error.REF, error.NAME, error.NUM, error.NOT_AVAILABLE,
              error.DATA, error.ERROR, error.XLError('#N/A'), error.XLError('#NUM!'), error.XLError(), MyError('#N/A'),
              MyError('#MINE'), RuntimeError('#N/A'), ValueError('x'), error.XLError, RuntimeError, int, str, bool,
              [], (), [[]], [0], [1], [2], [None], [''], ['a'], [error.NUM], [error.NOT_AVAILABLE], [1, 2], (1, 2),
              [[1, 2], [3, 4]], {}, {'a': 1}, set(), frozenset([1]), b'', b'x', b'2', bytearray(b'2'), range(0),
              range(3), datetime.datetime(2020, 1, 2), datetime.date(2020, 1, 2), datetime.timedelta(0),
              decimal.Decimal('0'), decimal.Decimal('2'), decimal.Decimal('3.5'), fractions.Fraction(0, 1),
              fractions.Fraction(4, 2), fractions.Fraction(1, 3), NotImplemented, Ellipsis, len, object]
    predicates = [information.ISNUMBER, information.ISTEXT, information.ISLOGICAL, information.ISBLANK,
                  information.ISERROR, information.ISERR, information.ISNA, information.ISNONTEXT,
                  information.ISEVEN, information.ISODD]
    for fn in predicates:
        for v in values:
            call(fn, v)
        call(fn)
        call(fn, 1, 2)
        # values that log what is done to them
        log = []
        call(fn, Loud('x', True, log), log=log)
        for answer in (True, False):
            log = []
            e = LoudError('#LOUD')
            e.log = log
            e.answer = answer
            call(fn, e, log=log)
        for claimed in (int, float, complex, bool, str, error.XLError, type(None), list, object):
            log = []
            call(fn, Spoof(claimed, log), log=log)

    # one line per value: the five exclusive classes and the derived predicates side by side
    for v in values:
        try:
            marks = ''.join('1' if f(v) is True else ('0' if f(v) is False else '?') for f in predicates[:8])
        except BaseException as e:  # noqa
            marks = 'raised %s' % type(e).__name__
        line('classes', show(v), 'NUM TXT LOG BLK ERROR ERR NA NONTXT = ' + marks)

    for v in values:
        call(logic.IF, v, 'then', 'else')
        call(logic.NOT, v)
    call(logic.IF)
    call(logic.IF, True)
    call(logic.IF, True, 1)
    call(logic.IF, True, 1, 2, 3)
    call(logic.NOT)
    call(logic.NOT, 1, 2)
    for truth in (True, False):
        log = []
        call(logic.IF, Loud('c', truth, log), Loud('then', True, log), Loud('else', True, log), log=log)
        log = []
        call(logic.NOT, Loud('c', truth, log), log=log)
    log = []
    call(logic.IF, Loud('bad', True, log, bad_bool=True), 1, 2, log=log)
    log = []
    call(logic.NOT, Loud('bad', True, log, bad_bool=True), log=log)
    for answer in (True, False):
        log = []
        e = LoudError('#LOUD')
        e.log = log
        e.answer = answer
        call(logic.IF, e, 1, 2, log=log)
        del log[:]
        call(logic.NOT, e, log=log)
        del log[:]
        call(logic.IF, True, e, 2, log=log)
        del log[:]
        call(logic.IF, False, 1, e, log=log)
    for claimed in (int, bool, str, error.XLError, type(None)):
        log = []
        call(logic.IF, Spoof(claimed, log), 'then', 'else', log=log)
        log = []
        call(logic.NOT, Spoof(claimed, log), log=log)
    call(logic.IF, error.NUM, error.VALUE, error.REF)
    call(logic.IF, True, error.VALUE, error.REF)
    call(logic.IF, False, error.VALUE, error.REF)
    call(logic.IF, [error.NUM], 't', 'f')
    call(logic.NOT, [error.NUM])
    call(logic.NOT, MyError('#Z'))
    call(logic.IF, MyError('#Z'), 1, 2)


if __name__ == '__main__':
    part_formulas()
    part_direct()
    print('evaluations: %d' % COUNT[0])
