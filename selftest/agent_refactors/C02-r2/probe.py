# -*- coding: utf-8 -*-
"""
Probe for C02 refactoring 2: Parser.parse (result / error of an evaluation, debug output,
clearing of the shared error instances) and the Emitter (on / once / emit / off).

Prints one line per evaluation: input, repr() of the outcome, the events seen, and for the
emitter the listener table after each operation. Deterministic: no clock, no randomness,
no memory addresses.
"""
import io
import os
import sys
import contextlib

sys.path.insert(0, os.path.dirname(os.path.dirname(os.path.abspath(__file__))))

import hotxlfp  # noqa: E402
from hotxlfp import Parser  # noqa: E402
from hotxlfp.tinyemitter import Emitter  # noqa: E402
from hotxlfp.formulas import error as xlerror  # noqa: E402

COUNT = [0]
ALL_ERRORS = ('ERROR', 'DIV_ZERO', 'NAME', 'NOT_AVAILABLE', 'NULL', 'NUM', 'REF', 'VALUE', 'DATA')


def show(value):
    """ repr() without memory addresses """
    if isinstance(value, BaseException):
        return '%s(%r)' % (type(value).__name__, str(value))
    if callable(value):
        return '<callable %s>' % getattr(value, '__name__', type(value).__name__)
    if isinstance(value, list):
        return '[' + ', '.join(show(v) for v in value) + ']'
    if isinstance(value, tuple):
        return '(' + ', '.join(show(v) for v in value) + ')'
    if isinstance(value, dict):
        return '{' + ', '.join('%s: %s' % (show(k), show(value[k])) for k in value) + '}'
    return repr(value)


def line(tag, text, outcome, extra):
    COUNT[0] += 1
    print('%04d | %s | %s | %s | %s' % (COUNT[0], tag, text, show(outcome), show(extra)))


def residue():
    """ what the shared error instances still hold on to """
    return [n for n in ALL_ERRORS
            if getattr(xlerror, n).__traceback__ is not None or getattr(xlerror, n).__context__ is not None]


class CustomError(xlerror.XLError):
    pass


class Weird(object):
    """ an expression that is not a string """
    def __init__(self, eq):
        self.eq = eq

    def __eq__(self, other):
        if isinstance(self.eq, BaseException):
            raise self.eq
        return self.eq

    def __repr__(self):
        return 'Weird(%s)' % show(self.eq)


def make(events, debug=False, listeners='sheet'):
    p = Parser(debug=debug)
    host = {
        'lst': [1, 2, 3], 'nested': [[1, 2], [3, 4]], 'txt': 'abc', 'num': 4, 'flt': 0.5, 'zero': 0,
        'yes': True, 'no': False, 'nothing': None, 'empty': '', 'dct': {'k': 1}, 'tpl': (1, 2),
        'e_value': xlerror.VALUE, 'e_div': xlerror.DIV_ZERO, 'e_na': xlerror.NOT_AVAILABLE, 'e_data': xlerror.DATA,
        'e_fresh': xlerror.XLError('#NUM!'), 'e_odd': xlerror.XLError('#ODD!'), 'e_custom': CustomError('#REF!'),
        'e_noargs': xlerror.XLError(), 'e_plain': ValueError('#VALUE!'), 'big': 10 ** 30, 'tiny': 5e-324,
        'inf': float('inf'),
    }
    for k, v in host.items():
        p.set_variable(k, v)
    p.set_function('BOOM', lambda *a: 1 / 0)
    p.set_function('XLBOOM', lambda *a: (_ for _ in ()).throw(xlerror.NUM))
    p.set_function('RETERR', lambda *a: xlerror.NULL)
    p.set_function('RETODD', lambda *a: xlerror.XLError('whatever'))
    p.set_function('RETPLAIN', lambda *a: KeyError('#N/A'))
    p.set_function('RAISEMSG', lambda *a: (_ for _ in ()).throw(RuntimeError('#DIV/0!')))
    p.set_function('NARGS', lambda *a: len(a))
    p.set_function('ECHO', lambda *a: list(a))
    p.set_function('NONE', lambda *a: None)
    p.set_function('STOP', lambda *a: (_ for _ in ()).throw(StopIteration('#REF!')))

    sheet = {'A1': 1, 'A2': 2.5, 'A3': 'text', 'A4': True, 'A5': None, 'A6': '', 'A7': xlerror.DIV_ZERO,
             'B1': 10, 'B2': -3, 'B3': '7', 'B4': False, 'B5': 0}

    def on_function(name, args, setter):
        events.append(('callFunction', name, list(args)))
        if listeners == 'raising' and name in ('NARGS', 'SUM'):
            raise RuntimeError('#N/A')
        if listeners == 'raising' and name == 'NONE':
            raise xlerror.DATA

    def on_variable(name, setter):
        events.append(('callVariable', name))
        if listeners == 'raising' and name == 'txt':
            raise CustomError('#NULL!')

    def on_cell(cell, setter):
        events.append(('callCellValue', cell.label))
        if listeners == 'raising' and cell.label == 'A2':
            raise ZeroDivisionError('division by zero')
        setter(sheet.get(cell.label))

    def on_range(start, end, setter):
        events.append(('callRangeValue', start.label, end.label))
        if listeners == 'raising' and start.label == 'B1':
            raise xlerror.REF
        setter([[sheet.get(chr(65 + c) + str(r + 1)) for c in range(start.col.index, end.col.index + 1)]
                for r in range(start.row.index, end.row.index + 1)])

    if listeners != 'none':
        p.on('callFunction', on_function)
        p.on('callVariable', on_variable)
        p.on('callCellValue', on_cell)
        p.on('callRangeValue', on_range)
    return p, host


FORMULAS = [
    # blanks and literals
    '', ' ', '  ', '\t', '\n', '0', '1', '007', '1.5', '.5', '1.', '1e3', '50%', '2^3', '2^0.5', '-1', '--1', '+1',
    '"text"', "'text'", '""', "''", '"a""b"', '"#N/A"', 'TRUE', 'FALSE', 'NULL', 'true', '1+2*3', '(1+2)*3',
    '10/4', '10/0', '0/0', '1-1', '2*"3"', '"a"+1', '"a"&"b"', '1&2', '1=1', '1<>1', '1<2', '2<=2', '3>4',
    '"a"="A"', '1="1"', '1+TRUE', 'TRUE+TRUE', '-"a"', '-TRUE', '1%', '9999999999999999999', '1/3',
    # error literals
    '#ERROR!', '#DIV/0!', '#NAME?', '#N/A', '#NULL!', '#NUM!', '#REF!', '#VALUE!', '#GETTING_DATA', '#BOGUS!',
    '#BOGUS', '#', '#N/A+1', '1+#REF!', 'SUM(#VALUE!)', 'IFERROR(#DIV/0!,5)', 'ISERROR(#N/A)', '{#N/A,1}',
    # syntax errors and lexer errors
    '1+', '+', '*1', '(', ')', '(1', '1)', '1 2', 'SUM(', 'SUM(1', 'SUM)', '"open', "'open", '@', '~', '!',
    '1..2', '1,2', '1;2', '{1,2', '1,2}', 'A1:', ':A1', '=1', '==', '<>', '&', '%', '^', 'é', '1 + + 2', '$', '$A',
    # variables: plain values, error values, unknown names
    'num', 'flt', 'txt', 'lst', 'nested', 'zero', 'yes', 'no', 'nothing', 'empty', 'dct', 'tpl', 'big', 'tiny', 'inf',
    'e_value', 'e_div', 'e_na', 'e_data', 'e_fresh', 'e_odd', 'e_custom', 'e_noargs', 'e_plain', 'missing',
    'e_value+1', '1+e_div', 'e_na&"x"', '"x"&e_na', '-e_value', 'e_odd+1', 'e_custom=1', 'e_plain+1',
    'ISERROR(e_odd)', 'IFERROR(e_custom,1)', 'SUM(e_fresh)', 'num+missing', 'num/zero', 'inf-inf', 'big*big',
    'num.x', 'missing.x.y', 'nothing+1', 'empty&empty', 'lst+1', 'txt*2', 'dct&""', '-lst', '-nothing',
    # functions: results, raised errors, returned errors
    'SUM(1,2,3)', 'SUM()', 'SUM(lst)', 'sum(1)', 'BOOM()', 'XLBOOM()', 'RETERR()', 'RETODD()', 'RETPLAIN()',
    'RAISEMSG()', 'STOP()', 'NARGS()', 'NARGS(1,,3)', 'NARGS(,)', 'ECHO(lst,nothing)', 'NONE()', 'NONE()+1',
    '1+BOOM()', '1+XLBOOM()', 'RETERR()+1', 'RETODD()&"x"', 'ISERROR(BOOM())', 'IFERROR(XLBOOM(),0)',
    'IF(TRUE,RETERR(),1)', 'IF(FALSE,RETERR(),1)', 'UNKNOWN()', 'UNKNOWN(1)', 'UNKNOWN(BOOM())', 'SQRT(-1)',
    'LOG(0)', 'LOG(-1)', 'MOD(5,0)', 'POWER(0,-1)', 'ABS("a")', 'LEN(nothing)', 'LEN(lst)', 'SUM("a","b")',
    'MAX()', 'MIN(lst)', 'AVERAGE()', 'AVERAGE(lst)', 'ROUND(2.5,0)', 'ROUND(1)', 'IF()', 'IF(1)', 'AND()',
    'OR(yes,no)', 'NOT(nothing)', 'CONCATENATE()', 'CONCATENATE(lst)', 'UPPER(txt)', 'LEFT(txt,10)', 'MID(txt,0,1)',
    'VLOOKUP(1,nested,2)', 'VLOOKUP(9,nested,2,FALSE)', 'INDEX(nested,1,1)', 'INDEX(nested,9,9)', 'MATCH(3,lst,0)',
    'CHOOSE(2,"a","b")', 'CHOOSE(9,"a")', 'DATE(2020,1,1)', 'YEAR(DATE(2020,1,1))', 'BIN2DEC("101")', 'DEC2BIN(5)',
    'ISBLANK(nothing)', 'ISNUMBER(num)', 'ISTEXT(txt)', 'ISLOGICAL(yes)', 'N(yes)', 'PI()', 'SUM({1,2;3,4})',
    # cells and ranges
    'A1', 'a1', 'A2', 'A3', 'A4', 'A5', 'A6', 'A7', 'B1', 'B3', 'Z9', '$A$1', '$A1', 'A$1', 'A1+B1', 'A7+1',
    'A3&B3', 'A5&"x"', 'SUM(A1,B1)', 'A1:B2', 'B2:A1', 'B1:B5', 'B5:B1', 'SUM(A1:B2)', 'SUM(A1:A7)', 'SUM(B1:B5)',
    'MAX(A1:B2)', 'COUNT(A1:B5)', 'A1:B2+1', 'ISERROR(A7)', 'IFERROR(A7,"safe")', 'IF(A4,A1,B1)', 'IF(B4,A1,B1)',
    # arrays
    '{1,2,3}', '{1;2;3}', '{1,2;3,4}', '{}', '{,}', '{;}', '{1,,2}', '{"a",TRUE,1.5}', '{num,txt}', '{BOOM()}',
    '{e_value}', 'SUM({1,2,3})', '{1,2}+1', '{1\\2}', '{\\\\}',
]

ODD_INPUTS = [None, 0, 1, 1.5, True, False, b'', b'1+1', [], ['1'], ('1',), {}, Weird(True), Weird(False),
              Weird(0), Weird(''), Weird(ValueError('#VALUE!')), Weird(xlerror.NUM), Weird(CustomError('#N/A')),
              Weird(KeyError('x')), xlerror.REF, '1' * 400, '(' * 50 + '1' + ')' * 50, 'SUM(' * 20 + '1' + ')' * 20]


def evaluate(parser, expression):
    err = io.StringIO()
    with contextlib.redirect_stderr(err):
        try:
            outcome = parser.parse(expression)
        except BaseException as e:  # noqa
            outcome = ('raised', e)
    # of what went to stderr keep the exception line of each traceback: no paths, no line numbers
    tb = [l for l in err.getvalue().splitlines() if l and not l.startswith(' ') and not l.startswith('Traceback')]
    return outcome, tb


def run_formulas():
    for debug in (False, True):
        for listeners in ('sheet', 'none', 'raising'):
            tag = 'parse/%s/%s' % ('debug' if debug else 'quiet', listeners)
            events = []
            parser, host = make(events, debug=debug, listeners=listeners)
            before = show(host)
            outcomes = {}
            for formula in FORMULAS:
                del events[:]
                outcome, tb = evaluate(parser, formula)
                outcomes[formula] = show(outcome)
                keys = list(outcome.keys()) if isinstance(outcome, dict) else None
                line(tag, repr(formula), outcome, [('keys', keys), ('events', list(events)), ('stderr', tb), ('residue', residue())])
            # the same formulas again on the same parser in reverse order, and on fresh parsers: same outcomes
            changed = []
            for formula in reversed(FORMULAS):
                again, _ = evaluate(parser, formula)
                fresh, _ = evaluate(make([], debug=debug, listeners=listeners)[0], formula)
                if show(again) != outcomes[formula] or show(fresh) != outcomes[formula]:
                    changed.append(formula)
            line(tag, 'replayed in reverse / fresh parser', changed, [('host unchanged', before == show(host))])
            # each call returns a new dict
            a = parser.parse('1')
            b = parser.parse('1')
            a['result'] = 'scribbled'
            line(tag, 'outcome dicts independent', (a is not b, b, parser.parse('1')), [])
            line(tag, 'listener table', sorted((k, len(v)) for k, v in parser._e.items()), [])


def run_odd_inputs():
    for debug in (False, True):
        tag = 'odd/%s' % ('debug' if debug else 'quiet')
        events = []
        parser, host = make(events, debug=debug)
        for expression in ODD_INPUTS:
            del events[:]
            outcome, tb = evaluate(parser, expression)
            text = show(expression) if len(show(expression)) < 60 else show(expression)[:57] + '...'
            line(tag, text, outcome, [('events', list(events)), ('stderr', tb), ('residue', residue())])
            # the parser is still usable afterwards
            outcome, tb = evaluate(parser, 'num+1')
            line(tag, 'then num+1', outcome, [('stderr', tb)])


def table(emitter):
    return [(name, [(show(l.fn), show(l.ctx)) for l in emitter._e[name]]) for name in sorted(emitter._e.keys())]


def run_emitter():
    log = []

    def rec(label):
        def listener(*args, **kwargs):
            log.append((label, args, sorted(kwargs.items())))
        listener.__name__ = 'rec_' + label
        return listener

    def step(em, text, fn):
        del log[:]
        try:
            ret = fn()
            outcome = 'self' if ret is em else ret
        except BaseException as e:  # noqa
            outcome = ('raised', e)
        line('emitter', text, outcome, [('log', list(log)), ('table', table(em))])

    class AlwaysEqual(object):
        def __eq__(self, other):
            return True

        def __ne__(self, other):
            return False

        def __hash__(self):
            return 1

        def __call__(self, *a, **k):
            log.append(('always-equal', a, sorted(k.items())))

        __name__ = 'AlwaysEqual'

    class Falsy(object):
        def __bool__(self):
            return False

        def __call__(self, *a, **k):
            log.append(('falsy', a, sorted(k.items())))

        __name__ = 'Falsy'

    em = Emitter()
    a, b, c, d = rec('a'), rec('b'), rec('c'), rec('d')
    falsy = Falsy()
    step(em, 'emit unknown', lambda: em.emit('x'))
    step(em, 'off unknown', lambda: em.off('x'))
    step(em, 'off unknown again', lambda: em.off('nothing-here'))
    step(em, 'off unknown with callback', lambda: em.off('nothing-here', a))
    step(em, 'on x a', lambda: em.on('x', a))
    step(em, 'on x b ctx', lambda: em.on('x', b, {'k': 1}))
    step(em, 'on x a again', lambda: em.on('x', a))
    step(em, 'on y c', lambda: em.on('y', c, {}))
    step(em, 'emit x', lambda: em.emit('x'))
    step(em, 'emit x args', lambda: em.emit('x', 1, 'two', None, [3]))
    step(em, 'emit y args', lambda: em.emit('y', 1))
    step(em, 'emit z', lambda: em.emit('z', 1))
    step(em, 'off x b', lambda: em.off('x', b))
    step(em, 'emit x', lambda: em.emit('x', 0))
    step(em, 'off x d (not registered)', lambda: em.off('x', d))
    step(em, 'off x a (both)', lambda: em.off('x', a))
    step(em, 'emit x', lambda: em.emit('x', 0))
    step(em, 'off y (all)', lambda: em.off('y'))
    step(em, 'off z (empty entry)', lambda: em.off('z'))
    step(em, 'emit y', lambda: em.emit('y'))
    # once
    step(em, 'once x a', lambda: em.once('x', a))
    step(em, 'once x b ctx', lambda: em.once('x', b, {'k': 2}))
    step(em, 'on x c', lambda: em.on('x', c))
    step(em, 'emit x 1', lambda: em.emit('x', 1))
    step(em, 'emit x 2', lambda: em.emit('x', 2))
    step(em, 'once x d', lambda: em.once('x', d))
    step(em, 'off x d (by original callback)', lambda: em.off('x', d))
    step(em, 'emit x 3', lambda: em.emit('x', 3))
    step(em, 'off x c', lambda: em.off('x', c))
    step(em, 'emit x 4', lambda: em.emit('x', 4))
    # a once listener called again by hand, and re-entrantly
    em2 = Emitter()
    em2.once('x', a)
    wrapper = em2._e['x'][0].fn
    step(em2, 'wrapper attributes', lambda: (wrapper.fired, wrapper._ is a, wrapper.__name__))
    step(em2, 'wrapper by hand', lambda: wrapper('first'))
    step(em2, 'wrapper by hand again', lambda: wrapper('second'))
    step(em2, 'wrapper fired', lambda: wrapper.fired)

    def reenter(*args):
        log.append(('reenter', args, []))
        if len(args) < 3:
            em2.emit('x', *(args + ('again',)))
    reenter.__name__ = 'reenter'
    step(em2, 'once reenter', lambda: em2.once('x', reenter))
    step(em2, 'once a after it', lambda: em2.once('x', a))
    step(em2, 'emit x re-entrant', lambda: em2.emit('x', 'go'))
    step(em2, 'emit x after', lambda: em2.emit('x', 'go'))
    # listeners that change the table during an emit
    em3 = Emitter()

    def adder(*args):
        log.append(('adder', args, []))
        em3.on('x', b)
    adder.__name__ = 'adder'

    def remover(*args):
        log.append(('remover', args, []))
        em3.off('x', c)
    remover.__name__ = 'remover'

    def clearer(*args):
        log.append(('clearer', args, []))
        em3.off('x')
    clearer.__name__ = 'clearer'
    step(em3, 'on adder', lambda: em3.on('x', adder))
    step(em3, 'on remover', lambda: em3.on('x', remover))
    step(em3, 'on c', lambda: em3.on('x', c))
    step(em3, 'emit 1', lambda: em3.emit('x', 1))
    step(em3, 'emit 2', lambda: em3.emit('x', 2))
    step(em3, 'on clearer', lambda: em3.on('x', clearer))
    step(em3, 'on d', lambda: em3.on('x', d))
    step(em3, 'emit 3', lambda: em3.emit('x', 3))
    step(em3, 'emit 4', lambda: em3.emit('x', 4))
    # raising listeners: the emit stops there, the table is unchanged
    em4 = Emitter()

    def bad(*args, **kwargs):
        log.append(('bad', args, sorted(kwargs.items())))
        raise ValueError('bad listener')
    bad.__name__ = 'bad'
    step(em4, 'on a', lambda: em4.on('x', a))
    step(em4, 'on bad', lambda: em4.on('x', bad))
    step(em4, 'on b', lambda: em4.on('x', b))
    step(em4, 'emit', lambda: em4.emit('x', 1))
    step(em4, 'once bad', lambda: em4.once('y', bad, {'k': 3}))
    step(em4, 'emit y', lambda: em4.emit('y', 1))
    step(em4, 'emit y again', lambda: em4.emit('y', 2))
    step(em4, 'ctx mismatch', lambda: em4.on('z', lambda: None, {'unexpected': 1}))
    step(em4, 'emit z', lambda: em4.emit('z'))
    step(em4, 'emit z extra arg', lambda: em4.emit('z', 1))
    # unusual callbacks and names
    em5 = Emitter()
    always = AlwaysEqual()
    step(em5, 'on falsy', lambda: em5.on('x', falsy))
    step(em5, 'on a', lambda: em5.on('x', a))
    step(em5, 'emit', lambda: em5.emit('x', 1))
    step(em5, 'off falsy callback (treated as no callback)', lambda: em5.off('x', falsy))
    step(em5, 'on a, b', lambda: em5.on('x', a).on('x', b))
    step(em5, 'off always-equal callback', lambda: em5.off('x', always))
    step(em5, 'on always-equal, a', lambda: em5.on('x', always).on('x', a))
    step(em5, 'off a', lambda: em5.off('x', a))
    step(em5, 'emit', lambda: em5.emit('x', 1))
    step(em5, 'off always', lambda: em5.off('x', always))
    step(em5, 'name None', lambda: em5.on(None, a).emit(None, 1).off(None, a))
    step(em5, 'name tuple', lambda: em5.on((1, 2), a).emit((1, 2), 1).off((1, 2)))
    step(em5, 'name unhashable', lambda: em5.on([], a))
    step(em5, 'emit unhashable', lambda: em5.emit([], a))
    step(em5, 'off unhashable', lambda: em5.off([], a))
    step(em5, 'callback None', lambda: em5.on('n', None))
    step(em5, 'emit callback None', lambda: em5.emit('n'))
    step(em5, 'off callback None', lambda: em5.off('n', None))
    step(em5, 'ctx not a mapping', lambda: em5.on('m', a, [1]))
    step(em5, 'emit ctx not a mapping', lambda: em5.emit('m'))
    step(em5, 'off m', lambda: em5.off('m'))
    step(em5, 'ctx shared dict', lambda: em5.on('s', a, {'k': 1}).on('s', b, None))
    step(em5, 'emit s', lambda: em5.emit('s', 1))
    step(em5, 'once with same callback twice', lambda: em5.once('t', c).once('t', c))
    step(em5, 'emit t', lambda: em5.emit('t', 1))
    step(em5, 'emit t again', lambda: em5.emit('t', 2))
    step(em5, 'once then on same callback, off removes both', lambda: em5.once('u', d).on('u', d).on('u', a).off('u', d))
    step(em5, 'emit u', lambda: em5.emit('u', 1))
    # emitters are independent of each other
    step(em, 'first emitter at the end', lambda: em.emit('x', 'end'))

    # the parser is an emitter: once / off on its events
    events = []
    p = Parser()
    p.set_variable('v', 1)
    listener = lambda name, setter: events.append(('v-listener', name))
    one = lambda name, setter: (events.append(('once', name)), setter(5))
    for text, fn in [
        ('parse v', lambda: p.parse('v')),
        ('on', lambda: p.on('callVariable', listener) is p),
        ('once', lambda: p.once('callVariable', one) is p),
        ('parse v+v', lambda: p.parse('v+v')),
        ('parse v', lambda: p.parse('v')),
        ('off', lambda: p.off('callVariable', listener) is p),
        ('parse v', lambda: p.parse('v')),
        ('off again', lambda: p.off('callVariable', listener) is p),
        ('off all', lambda: p.off('callVariable') is p),
        ('parse ghost', lambda: p.parse('ghost')),
        ('once raising', lambda: p.once('callVariable', lambda name, setter: 1 / 0) is p),
        ('parse v', lambda: p.parse('v')),
        ('parse v', lambda: p.parse('v')),
    ]:
        del events[:]
        outcome = fn()
        line('parser-emitter', text, outcome, [('events', list(events)), ('table', sorted((k, len(x)) for k, x in p._e.items())), ('residue', residue())])


if __name__ == '__main__':
    run_formulas()
    run_odd_inputs()
    run_emitter()
    print('evaluations: %d' % COUNT[0])
