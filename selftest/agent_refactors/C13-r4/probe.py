# -*- coding: utf-8 -*-
"""
Probe for C13 refactoring 4 (date-aware arithmetic and comparison in hotxlfp/formulas/operators.py).
Prints a deterministic transcript: one line per evaluation.
"""
import os
import sys
import random
import datetime

sys.path.insert(0, os.path.dirname(os.path.dirname(os.path.abspath(__file__))))

import hotxlfp  # noqa: E402
from hotxlfp.formulas import utils, error, operators  # noqa: E402

random.seed(1304)
COUNT = [0]


def outcome(thunk):
    try:
        return repr(thunk())
    except BaseException as e:  # the kind and text of the exception is part of the behaviour
        return 'RAISED %s(%s)' % (type(e).__name__, e)


def emit(label, text):
    COUNT[0] += 1
    line = '%04d %s -> %s' % (COUNT[0], label, text)
    print(line.encode('ascii', 'backslashreplace').decode('ascii'))


def show(label, thunk):
    emit(label, outcome(thunk))


class FixedOffset(datetime.tzinfo):
    def utcoffset(self, dt):
        return datetime.timedelta(hours=2)

    def dst(self, dt):
        return datetime.timedelta(0)

    def tzname(self, dt):
        return 'X'

    def __repr__(self):
        return 'FixedOffset(+2)'


dt = datetime.datetime
VALUES = [
    None, True, False, 0, 1, 2.5, -3, 61, 40777.75, 0.0, '', 'abc', '5', '2.5', '8/22/2011', '1900-03-01',
    dt(1900, 1, 1), dt(1900, 2, 28), dt(1900, 3, 1), dt(2011, 8, 22, 18), dt(2020, 2, 29, 23, 59, 59, 999000),
    error.NUM, error.NOT_AVAILABLE, [1, 2], [dt(2011, 8, 22), 1], [[1, 2], [3, 4]], [], [5], [None, 'abc', True],
    1j, b'x', {}, dt(2020, 1, 1, tzinfo=FixedOffset()),
]
ARITH = ('+', '-', '*', '/')
LOGIC = ('>', '<', '<>', '=', '>=', '<=')

# ---------------------------------------------------------------- evaluate_arithmetic, every pair, every operator
for a in VALUES:
    for b in VALUES:
        emit('arith %r ? %r' % (a, b),
             ' | '.join('%s %s' % (op, outcome(lambda op=op: operators.evaluate_arithmetic(op, a, b))) for op in ARITH))

# ---------------------------------------------------------------- evaluate_logic, every pair, every operator
for a in VALUES:
    for b in VALUES:
        emit('logic %r ? %r' % (a, b),
             ' | '.join('%s %s' % (op, outcome(lambda op=op: operators.evaluate_logic(op, a, b))) for op in LOGIC))

# ---------------------------------------------------------------- operators the tables do not know
for op in ('^', '&', '>', '=', '', None, '+ '):
    for a, b in ((1, 2), (error.NUM, 2), (1, error.NUM), ([1], 2), (1, [2]), ('abc', 1), (dt(2011, 8, 22), 1),
                 ({}, 1), (1, {})):
        show('evaluate_arithmetic(%r, %r, %r)' % (op, a, b), lambda: operators.evaluate_arithmetic(op, a, b))
for op in ('+', '/', '^', None):
    for a, b in ((1, 2), (error.NUM, 2), (1, error.NUM), (dt(2011, 8, 22), 1)):
        show('evaluate_logic(%r, %r, %r)' % (op, a, b), lambda: operators.evaluate_logic(op, a, b))

# ---------------------------------------------------------------- the pieces
for v in VALUES:
    show('value_and_type(%r)' % (v,), lambda: operators.value_and_type(v))
    show('is_number(%r)' % (v,), lambda: operators.is_number(v))
    show('ExcelComparator(%r).value' % (v,), lambda: operators.ExcelComparator(v).value)
for a in VALUES:
    for b in (None, True, 0, 'abc', dt(1900, 3, 1), dt(2011, 8, 22, 18), [1], dt(2020, 1, 1, tzinfo=FixedOffset())):
        show('ExcelComparator(%r).convert_other(%r)' % (a, b), lambda: operators.ExcelComparator(a).convert_other(b))
for a in VALUES:
    for b in (None, 61, dt(1900, 3, 1), 'abc', True):
        show('ExcelComparator(%r) ge/le %r' % (a, b),
             lambda: (operators.ExcelComparator(a).__ge__(b), operators.ExcelComparator(a).__le__(b)))

ARRAYS = [[], [1], [1, 2], [1, 2, 3], [dt(2011, 8, 22), dt(1900, 3, 1)], [None, 'abc'], [[1, 2], [3, 4]], [error.NUM, 1]]
OPERANDS = [None, 1, 2.5, 'abc', '5', dt(2011, 8, 22, 18), True, [], [10], [10, 20], [10, 20, 30], [[1, 2]],
            [[1, 2], [3, 4]], [dt(2000, 1, 1), 1], error.NUM, [error.NUM, 2], (1, 2)]
for arr in ARRAYS:
    for v in OPERANDS:
        ops = operators.ExcelArrayOps(arr)
        show('ExcelArrayOps(%r).adapt_value(%r)' % (arr, v), lambda: ops.adapt_value(v))
        emit('ExcelArrayOps(%r) with %r' % (arr, v), ' | '.join('%s %s' % (name, outcome(lambda name=name: getattr(ops, name)(v))) for name in (
            '__add__', '__radd__', '__sub__', '__rsub__', '__mul__', '__rmul__', '__truediv__', '__rtruediv__')))
        show('ExcelArrayOps(%r) untouched' % (arr,), lambda: ops.arr)

# the conversion table as seen from outside
TYPE_NAMES = {operators.number_types: 'number', datetime.datetime: 'datetime', operators.NoneType: 'blank'}


def conv_name(f):
    if f is None:
        return 'None'
    if f is utils.serialize_date:
        return 'serialize_date'
    if f is utils.parse_date:
        return 'parse_date'
    return 'f(x)=%r,%r' % (f('x'), f(None))


for op in ARITH:
    table = operators.IMPLICIT_DATA_TYPE_CONVERSIONS[op]
    for ltype in table:
        for rtype in table[ltype]:
            rule = table[ltype][rtype]
            show('table %s %s %s' % (op, TYPE_NAMES[ltype], TYPE_NAMES[rtype]),
                 lambda: [(k, conv_name(rule[k])) for k in rule])
show('table operators', lambda: list(operators.IMPLICIT_DATA_TYPE_CONVERSIONS))

# ---------------------------------------------------------------- property-shaped random checks
base = dt(1900, 3, 1)
for i in range(150):
    d = base + datetime.timedelta(days=random.randint(0, 60000), milliseconds=random.choice([0, random.randint(0, 86399999)]))
    n = random.choice([random.randint(0, 5000), random.randint(0, 5000) + 0.5, 0, 1, None])
    e = base + datetime.timedelta(days=random.randint(0, 60000), hours=random.randint(0, 23))
    show('date %r, n %r, other %r' % (d, n, e), lambda: (
        operators.evaluate_arithmetic('+', d, n), operators.evaluate_arithmetic('+', n, d),
        operators.evaluate_arithmetic('-', d, n), operators.evaluate_arithmetic('-', e, d),
        operators.evaluate_arithmetic('*', d, 1), operators.evaluate_arithmetic('/', d, 2),
        operators.evaluate_logic('<', d, e), operators.evaluate_logic('>=', d, e),
        operators.evaluate_logic('=', d, utils.serialize_date(d)), operators.evaluate_logic('<>', d, e)))
for k in range(0, 70):
    d = dt(1900, 1, 1) + datetime.timedelta(days=k, hours=6 * (k % 4))
    show('early date %r' % (d,), lambda: (
        operators.evaluate_arithmetic('+', d, 1), operators.evaluate_arithmetic('-', d, 1),
        operators.evaluate_arithmetic('-', d, dt(1900, 1, 1)), operators.evaluate_arithmetic('+', d, None),
        operators.evaluate_arithmetic('/', d, None), operators.evaluate_arithmetic('/', None, d),
        operators.evaluate_logic('=', d, utils.serialize_date(d)), operators.evaluate_logic('<', d, dt(1900, 3, 1))))

# ---------------------------------------------------------------- through the parser, with the events seen
FORMULAS = [
    'DATE(2020,10,12) + 1', '1 + DATE(2020,10,12)', 'DATE(2020,10,12) - 1', 'DATE(2020,10,12) - DATE(2020,1,1)',
    'DATE(2020,10,12) + DATE(2020,1,1)', 'DATE(2020,10,12) + 0.5', 'DATE(1900,2,28) + 1', 'DATE(1900,2,28) + 2',
    'DATE(1900,1,1) + 1', 'DATE(1900,1,1) + 59', 'DATE(1900,1,1) + 60', 'DATE(1900,3,1) - 1', 'DATE(1900,3,1) - 2',
    'D + 30', 'D - D', 'D + A1', 'A1 + D', 'A1 - D', 'D - A1', 'D * A1', 'A1 * D', 'D / A1', 'A1 / D', 'A1 + A1',
    'A1 / A1', 'A1 - 1', '1 / A1', 'D - 100000', 'D * 2', '2 * D', 'D * D', 'D / 2', '2 / D', 'D / D', 'D / 0',
    '1 / 0', '0 / 0', '"8/22/2011" + 1', '"2011-02-23 06:00" - "2011-02-22"', '"5" + "6"', '"5" * D', 'D + "abc"',
    '"abc" + D', 'S + 1', 'S - S', 'D + TRUE', 'TRUE + TRUE', 'D + #NUM!', '#N/A + D', '#NUM! + #N/A',
    'D + {1,2}', '{1,2} + D', 'D - {1;2}', '{1,2} - D', '{1,2} * {3,4}', '{1,2} / {3,0}', '{1,2} + {1,2,3}',
    '{1,2} + {5}', '{5} + {1,2}', '10 - {1,2}', '10 / {1,2,0}', '{D} - 1', 'D + 3000000', 'D & ""', 'D & D',
    '1 + 2 * 3 - 4 / 5', '(D + 1) - D', '(D - 1) + 1 = D', 'D + 1 - 1 = D', 'D + 1 > D', 'D - 1 < D',
    'D > DATE(2011,8,22)', 'D >= DATE(2011,8,22)', 'D = DATE(2011,8,22)', 'D = DATEVALUE(D)', 'D = N(D)',
    'DATEVALUE(D) = D', 'N(D) >= D', 'D < 40777.8', 'D > 40777.7', 'D <> 40777.75', 'D = 40777.75',
    '40777.75 = D', 'DATE(1900,1,1) = 0', 'DATE(1900,3,1) = 61', 'DATE(1900,2,28) = 59',
    'DATE(1900,2,28) < DATE(1900,3,1)', 'DATE(1900,3,1) - DATE(1900,2,28)', 'D > "abc"', '"abc" > D', 'D < TRUE',
    'TRUE > D', 'D = A1', 'A1 < D', 'A1 = A1', 'A1 = 0', 'A1 = ""', 'A1 = FALSE', 'A1 < "a"', 'A1 >= A1',
    'D <= #N/A', '#REF! = #REF!', 'S = "ABC"', 'S < "abd"', '1 < 2', '2 <= 2', '"1" = 1', 'TRUE = 1', 'TRUE > 100',
    'DAYS(D + 10, D)', 'N(D + 1) - N(D)', 'DATEVALUE(D + 365) - DATEVALUE(D)', 'YEAR(D + 365)', 'IF(D > 40000, D - 40000, 0)',
    'SUM({1,2} + 1)', 'SUM({1,2} * {3,4})', 'B2 + 1', 'B2 - 1', 'B2 = 61', 'B2 - B2', 'B2 < D', 'B2 + A1', 'NOPE + 1',
]


def make_parser():
    p = hotxlfp.Parser()
    seen = []
    p.set_variable('D', dt(2011, 8, 22, 18))
    p.set_variable('S', 'abc')

    def on_function(name, args, done):
        seen.append(('callFunction', name, repr(args)))

    def on_variable(name, done):
        seen.append(('callVariable', name))

    def on_cell(cell, done):
        seen.append(('callCellValue', cell.label))
        if cell.label == 'B2':
            done(dt(1900, 3, 1))

    p.on('callFunction', on_function)
    p.on('callVariable', on_variable)
    p.on('callCellValue', on_cell)
    return p, seen


p1, seen1 = make_parser()
p2, seen2 = make_parser()
for rnd, name, p, seen in ((1, 'p1', p1, seen1), (1, 'p2', p2, seen2), (2, 'p1', p1, seen1)):
    for f in FORMULAS:
        del seen[:]
        show('%s round %d %s' % (name, rnd, f), lambda: (p.parse(f), list(seen)))

print('evaluations: %d' % COUNT[0])
