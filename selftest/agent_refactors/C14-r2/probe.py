# -*- coding: utf-8 -*-
"""
Probe for C14 refactoring 2 (serial number <-> date conversion in formulas/utils.py written with
named module-level constants and a single day-offset; EDATE month arithmetic computed from a
zero-based month count and a shared days-in-month helper; WEEKDAY type 1 by modular arithmetic).

Prints a deterministic transcript: one line per evaluation.
"""
import os
import sys
import random
import datetime

sys.path.insert(0, os.path.dirname(os.path.dirname(os.path.abspath(__file__))))

import hotxlfp  # noqa: E402
from hotxlfp.formulas import dateandtime as dt  # noqa: E402
from hotxlfp.formulas import error  # noqa: E402
from hotxlfp.formulas import utils  # noqa: E402
from hotxlfp.formulas import information  # noqa: E402

COUNT = [0]
RNG = random.Random(20140214)


def out(line):
    COUNT[0] += 1
    sys.stdout.write('%04d %s\n' % (COUNT[0], line))


def show(value):
    if isinstance(value, BaseException):
        return '%s(%s)' % (type(value).__name__, ', '.join(repr(a) for a in value.args))
    if isinstance(value, (list, tuple)):
        inner = ', '.join(show(v) for v in value)
        return ('[%s]' if isinstance(value, list) else '(%s)') % inner
    return repr(value)


PARSER = hotxlfp.Parser()
EVENTS = []


def on_call(name, args, setter):
    EVENTS.append('%s%s' % (name, show(list(args))))


PARSER.on('callFunction', on_call)
CELLS = {
    'A1': datetime.datetime(2020, 1, 31, 13, 14, 15),
    'A2': 43890,
    'A3': '2021-03-04T05:06:07',
    'A4': None,
    'A5': True,
    'A6': 'not a date',
    'A7': error.NOT_AVAILABLE,
    'A8': 36526.75,
    'A9': '3',
    'B1': 2,
    'B2': 1.0,
    'B3': datetime.datetime(1900, 1, 1),
}


def on_cell(cell, setter):
    setter(CELLS.get(cell.label))


PARSER.on('callCellValue', on_cell)


def ev(formula):
    del EVENTS[:]
    ret = PARSER.parse(formula)
    out('F %s => result=%s error=%s events=%s' % (formula, show(ret['result']), show(ret['error']), ' | '.join(EVENTS)))


def call(fn, *args):
    try:
        ret = fn(*args)
    except BaseException as e:  # noqa
        ret_s = 'RAISED ' + show(e)
    else:
        ret_s = show(ret)
    error.clear_tracebacks()
    out('C %s(%s) => %s' % (fn.__name__, ', '.join(show(a) for a in args), ret_s))


class Aware(datetime.tzinfo):
    def utcoffset(self, d):
        return datetime.timedelta(hours=2)

    def dst(self, d):
        return datetime.timedelta(0)

    def tzname(self, d):
        return 'X'

    def __repr__(self):
        return 'Aware()'


D = datetime.datetime

# ---------------------------------------------------------------- utils.parse_date / utils.serialize_date, directly
NUMBERS = [0, 0.0, -0.0, 0.25, 0.999999, 1, 1.0, 1.5, 2, 58, 59, 59.5, 59.999999, 60, 60.0, 60.000001, 60.5, 61, 61.25,
           62, 365, 366, 367, 25569, 25569.5, 36526, 41193, 41193.75, 43890.123456789, 73050, 2958465, 2958465.999,
           2958466, 2958467, 3000000, 10 ** 9, 10 ** 12, 10 ** 30, 1e300, -1, -0.5, -1e-9, -10 ** 30,
           float('nan'), float('inf'), -float('inf'), True, False, 1 + 2j, 0j, 1e-9, 5e-324, 59.99999999999999,
           60.00000000000001, 0.9999999999999999]
NUMBERS += [RNG.randint(0, 2958465) for _ in range(40)]
NUMBERS += [round(RNG.uniform(0, 2958465), 6) for _ in range(40)]
NUMBERS += [RNG.uniform(0, 130) for _ in range(20)]
OTHERS = [None, '', ' ', 'x', '0', '1', '59', '60', '61', '60.5', '-1', '1e3', 'nan', 'inf', '-inf', '2020-10-12',
          '2020-10-12 10:04:11', '2020-10-12T10:04:11', '2020-10-12T10:04:11.250', '2020-10-12T10:04:11Z',
          '1900-01-01', '1900-02-28', '1900-03-01', '1899-12-31', '0001-01-01', '9999-12-31T23:59:59', '8/22/2011',
          '22-MAY-2011', '2011/02/23', '10:04', 'TRUE', b'1', [1], (1,), [], {}, set(),
          error.NUM, error.VALUE, error.NOT_AVAILABLE, error.DIV_ZERO, error.XLError('#custom'),
          D(1900, 1, 1), D(1900, 1, 1, 0, 0, 1), D(1900, 1, 2), D(1900, 2, 28), D(1900, 2, 28, 23, 59, 59, 999999),
          D(1900, 3, 1), D(1900, 3, 1, 0, 0, 0, 1), D(1899, 12, 31), D(1, 1, 1), D(1970, 1, 1), D(2020, 2, 29, 13, 14, 15),
          D(9999, 12, 31, 23, 59, 59, 999999), D(2020, 1, 1, tzinfo=Aware()), datetime.date(2020, 1, 2),
          datetime.time(1, 2), datetime.timedelta(1)]
for value in NUMBERS + OTHERS:
    call(utils.parse_date, value)
    call(utils.serialize_date, value)

# round trips
for value in NUMBERS[:50] + NUMBERS[58:]:
    try:
        there = utils.parse_date(value)
        back = utils.serialize_date(there)
        again = utils.parse_date(back)
    except BaseException as e:  # noqa
        out('RT %s => RAISED %s' % (show(value), show(e)))
    else:
        out('RT %s => %s => %s => %s' % (show(value), show(there), show(back), show(again)))
    error.clear_tracebacks()

call(utils.parse_date)
call(utils.serialize_date)
call(utils.parse_date, 1, 2)
call(utils.epoch_seconds, utils.date_1900)
call(utils.epoch_seconds, utils.epoch)
out('K date_1900=%r epoch=%r' % (utils.date_1900, utils.epoch))

# ---------------------------------------------------------------- callers of the conversion, through the parser
CONV = [
    'DATEVALUE("8/22/2011")', 'DATEVALUE("22-MAY-2011")', 'DATEVALUE("2011/02/23")', 'DATEVALUE("1900-01-01")',
    'DATEVALUE("1900-02-28")', 'DATEVALUE("1900-03-01")', 'DATEVALUE("1899-12-31")', 'DATEVALUE("x")', 'DATEVALUE(5)',
    'DATEVALUE(60)', 'DATEVALUE(60.5)', 'DATEVALUE(61)', 'DATEVALUE(-1)', 'DATEVALUE()', 'DATEVALUE(,)', 'DATEVALUE(#N/A)',
    'DATEVALUE(DATE(2020,2,29))', 'DATEVALUE(TRUE)', 'DATEVALUE({1,2})', 'DATEVALUE(A4)', 'DATEVALUE("2020-10-12T10:04:11")',
    'TIMEVALUE("10:04:11")', 'TIMEVALUE("2020-10-12 18:00")', 'TIMEVALUE(0.5)', 'TIMEVALUE("x")', 'TIMEVALUE(61.25)',
    'TIMEVALUE(#REF!)', 'TIMEVALUE(A4)', 'TIMEVALUE("00:00")',
    'N(DATE(2020,2,29))', 'N(DATE(1900,1,1))', 'N(DATE(1900,2,28))', 'N(DATE(1900,3,1))', 'N(A1)', 'N(B3)', 'N("x")',
    'DATE(2019,11,20)+2', '2+DATE(2019,11,20)', 'DATE(2019,11,20)-2', 'DATE(2019,11,20)-DATE(2019,11,1)',
    'DATE(2019,11,20)+DATE(2019,11,20)', 'DATE(2019,11,20)*2', 'DATE(2019,11,20)/2', '200000000/DATE(2019,11,20)',
    'DATE(1900,1,1)+59', 'DATE(1900,1,1)+60', 'DATE(1900,1,1)+61', 'DATE(1900,3,1)-1', 'DATE(1900,3,1)-2', 'DATE(1900,1,5)-10',
    'DATE(2019,11,20)+TRUE', 'DATE(2019,11,20)+A4', 'DATE(2019,11,20)+"2"', 'DATE(1900,11,1)+"14/10/1900"',
    'DATE(9999,12,31)+1', 'DATE(2019,11,20)+0.5', 'DATE(2019,11,20)-0.25', 'A1+1', 'A1-A8', 'B3+0', 'B3-1', 'B3*2',
    'DATE(2019,11,20)>DATE(2019,11,19)', 'DATE(2019,11,20)=43789', 'DATE(2019,11,20)<43790', 'DATE(1900,1,1)=0',
    'DATE(1900,1,1)=B3', 'DATE(1900,2,28)=59', 'DATE(1900,3,1)=61', '"1"<DATE(2019,11,20)', '"a">DATE(2019,11,20)',
    'DATE(2019,11,20)<>A4', 'DATE(2019,11,20)>=TRUE', 'A1>A8', 'A1<=A3',
    'DAYS(DATE(2020,3,1),DATE(2020,2,1))', 'DAYS(DATE(1900,3,1),DATE(1900,2,28))', 'DAYS(61,59)', 'DAYS(60,59)', 'DAYS(1,0)',
    'DAYS("2020-03-01","2020-02-01T12:00")', 'DAYS(A1,A8)', 'DAYS(A4,A1)', 'DAYS(#N/A,1)', 'DAYS("x",1)', 'DAYS(-1,1)',
    'DAYS(2958465,1)', 'DAYS(2958466,1)', 'DAYS(1.75,1.25)',
]
for f in CONV:
    ev(f)
for serial in ('0', '0.5', '1', '2', '59', '59.75', '60', '60.5', '61', '366', '367', '41193', '41193.75', '2958465',
               '2958466', '-1', 'TRUE', '"60"', '"61.5"', 'A8', 'A2', '{61}'):
    for part in ('YEAR', 'MONTH', 'DAY', 'HOUR', 'MINUTE', 'SECOND', 'WEEKDAY'):
        ev('%s(%s)' % (part, serial))

# ---------------------------------------------------------------- EDATE
STARTS = ['DATE(2019,10,6)', 'DATE(2020,1,31)', 'DATE(2019,1,31)', 'DATE(2020,2,29)', 'DATE(2019,12,31)', 'DATE(1900,1,1)',
          'DATE(9999,12,31)', 'DATE(2000,3,30)', 'DATE(2100,1,29)', 'DATE(1999,7,8)', 'DATE(2021,8,31)', 'DATE(2021,11,30)']
SHIFTS = ['0', '1', '2', '3', '5', '11', '12', '13', '23', '24', '25', '-1', '-2', '-3', '-11', '-12', '-13', '-24', '-25',
          '404', '-1437', '96000', '-96000', '1200', '-1440', '1.9', '-1.9', '0.5', '-0.5', '"3"', '"x"', '"2.5"', 'TRUE', 'FALSE',
          '', '#N/A', '{1}', 'A4', 'A9', 'B2']
for start in STARTS:
    for shift in SHIFTS:
        ev('EDATE(%s,%s)' % (start, shift))
for start in ['', '0', '0.5', '1', '31', '59', '60', '61', '43861', '43861.75', '"2020-01-31"', '"2020-01-31T10:11:12"',
              '"2020-01-31T10:11:12Z"', '"x"', 'TRUE', 'FALSE', '-1', '#REF!', '{43861}', 'A1', 'A3', 'A4', 'A6', 'A7', 'B3',
              '2958465', '2958466', 'TIME(1,2,3)']:
    for shift in ['0', '1', '2', '3', '4', '5', '6', '7', '8', '9', '10', '11', '12', '13', '14', '25', '26', '-1', '-2', '-10',
                  '-11', '-12', '97188', '97189', '97190', '97200', '', 'A4', '1.5', '"x"']:
        ev('EDATE(%s,%s)' % (start, shift))
ev('EDATE()')
ev('EDATE(1)')
ev('EDATE(,)')
ev('EDATE(,,)')
ev('EDATE(1,2,3)')
ev('EDATE(DATE(2019,10,6);3)')
ev('YEAR(EDATE(DATE(2019,10,6),3))')
ev('DAY(EDATE(DATE(2020,1,31),1))')
ev('EDATE(EDATE(DATE(2020,1,31),1),-1)')
ev('EDATE(DATE(2020,1,31),1)-DATE(2020,1,31)')

DIRECT_STARTS = [D(2020, 1, 31), D(2019, 1, 31, 23, 59, 59, 999999), D(2020, 2, 29), D(2020, 12, 31), D(1900, 1, 1),
                 D(9999, 12, 31), D(1, 1, 1), D(1899, 12, 31), D(2020, 5, 31, tzinfo=Aware()), None, 0, 1, 60, 61, 43861.5,
                 '2020-01-31', 'x', '', True, False, -1, error.NUM, [1], (), 1 + 2j, float('nan'), datetime.date(2020, 1, 31)]
DIRECT_SHIFTS = [0, 1, 2, 11, 12, 13, -1, -11, -12, -13, 1.9, -1.9, '3', ' 4 ', '3.5', 'x', '', True, False, None, 10 ** 6,
                 -10 ** 6, 10 ** 30, float('nan'), float('inf'), 1 + 2j, [1], error.NUM, b'2', 95988, 95989, -1441, -1442]
for start in DIRECT_STARTS:
    for shift in DIRECT_SHIFTS:
        call(dt.EDATE, start, shift)
call(dt.EDATE)
call(dt.EDATE, 1)
call(dt.EDATE, 1, 2, 3)

# every month x a band of shifts, end-of-month days: the clamping and the year carry
for y in (1900, 1999, 2000, 2023, 2024, 2100, 9998):
    for m in range(1, 13):
        last = [31, 29 if (y % 4 == 0 and y % 100 != 0) or y % 400 == 0 else 28, 31, 30, 31, 30, 31, 31, 30, 31, 30, 31][m - 1]
        for d in sorted(set((1, 28, last))):
            res = []
            for shift in range(-26, 27):
                try:
                    r = dt.EDATE(D(y, m, d), shift)
                except BaseException as e:  # noqa
                    res.append('!' + type(e).__name__)
                else:
                    res.append(r.strftime('%Y%m%d') if isinstance(r, D) else show(r))
                error.clear_tracebacks()
            out('E %04d-%02d-%02d -26..26 => %s' % (y, m, d, ' '.join(res)))
# default start date (blank first argument): every residue and the year carry
for shift in list(range(-30, 40)) + [97187, 97188, 97189, 97199, 97200, 97201, 120000, -120000]:
    call(dt.EDATE, None, shift)
for _ in range(120):
    start = D(RNG.randint(1900, 9999), RNG.randint(1, 12), RNG.randint(1, 28), RNG.randint(0, 23), RNG.randint(0, 59))
    call(dt.EDATE, start, RNG.randint(-100000, 100000))

# ---------------------------------------------------------------- WEEKDAY
WD_DATES = ['"2/14/2008"', '"2/15/2008"', '"2/16/2008"', '"2/17/2008"', '"2/18/2008"', '"2/19/2008"', '"2/20/2008"',
            'DATE(1900,1,1)', 'DATE(9999,12,31)', 'DATE(2020,2,29)', '0', '1', '59', '60', '61', '43890', '43890.99',
            '"2020-02-29T23:59:59"', 'A1', 'A3', 'A4', 'A5', 'A6', 'A7', '-1', '"x"', '#NUM!', '{43890}', '', 'TIME(1,2,3)']
WD_TYPES = [None, '1', '2', '3', '0', '4', '11', '-1', '1.0', '2.0', '3.0', '1.5', 'TRUE', 'FALSE', '"1"', '"2"', '"x"', '',
            'A4', 'B1', 'B2', 'A9', '#N/A', '{1}', '1+1', 'A7']
for d in WD_DATES:
    for t in WD_TYPES:
        if t is None:
            ev('WEEKDAY(%s)' % d)
        else:
            ev('WEEKDAY(%s,%s)' % (d, t))
ev('WEEKDAY()')
ev('WEEKDAY(1,2,3)')
ev('WEEKDAY(DATE(2008,2,14);2)')
for day in range(14):
    date = D(2024, 2, 25) + datetime.timedelta(days=day)
    for rt in (1, 2, 3, 1.0, 2.0, 3.0, True, False, 0, 4, None, '1', [1], (1,), 1 + 0j, error.NUM, float('nan')):
        call(dt.WEEKDAY, date, rt)
    call(dt.WEEKDAY, date)
for value in (None, 'x', error.VALUE, -1, [1], 0, 60, 61, '2008-02-14', D(2020, 1, 1, tzinfo=Aware()), datetime.date(2020, 1, 2)):
    call(dt.WEEKDAY, value)
    call(dt.WEEKDAY, value, 2)
    call(dt.WEEKDAY, value, 9)
for _ in range(60):
    call(dt.WEEKDAY, RNG.randint(0, 2958465), RNG.choice((1, 2, 3)))

# ---------------------------------------------------------------- DATEDIF "md" (length of the month before the end date)
for y in (1900, 2019, 2020, 2100, 2400):
    for m in range(1, 13):
        end = D(y, m, 5)
        for start in (D(y - 1, 12, 31), D(y - 1, 11, 30), D(y - 1, 6, 5), D(y - 1, 6, 6), D(y - 1, 2, 28)):
            call(dt.DATEDIF, start, end, 'md')
for f in ('DATEDIF(DATE(2019,1,20),DATE(2019,3,10),"md")', 'DATEDIF(DATE(2020,1,20),DATE(2020,3,10),"MD")',
          'DATEDIF(DATE(2019,12,31),DATE(2020,1,1),"md")', 'DATEDIF(DATE(2019,4,30),DATE(2019,5,1),"md")',
          'DATEDIF(59,61,"md")', 'DATEDIF(31,61,"md")', 'DATEDIF(1,400,"d")', 'DATEDIF(59,61,"d")', 'DATEDIF(0.5,60.5,"d")',
          'DATEDIF(DATE(1900,2,28),DATE(1900,3,1),"d")', 'DATEDIF(DATE(2019,3,31),DATE(2020,2,29),"yd")'):
    ev(f)

# a second parser sees nothing of the first one
P2 = hotxlfp.Parser()
for f in ('EDATE(,4)', 'EDATE(DATE(2019,10,6),-1437)', 'EDATE(0,0)', 'WEEKDAY("2/17/2008",1)', 'DATEVALUE("1900-03-01")',
          'DATE(1900,1,1)+60', 'EDATE(DATE(9999,12,31),1)', 'WEEKDAY(1,4)'):
    ret = P2.parse(f)
    out('P2 %s => result=%s error=%s' % (f, show(ret['result']), show(ret['error'])))
