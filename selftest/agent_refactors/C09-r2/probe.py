# -*- coding: utf-8 -*-
"""
Probe for C09 refactoring 2 (hotxlfp/grammarparser/parser.py: the grammar actions that build
argument / array sequences for the three separators, and the variable sequence actions).

Prints a deterministic transcript: one line per evaluation with its input, repr() of the
outcome, the arguments every custom function received and the events seen.
"""
from __future__ import print_function
import itertools
import os
import random
import re
import sys
import warnings

sys.path.insert(0, os.path.dirname(os.path.dirname(os.path.abspath(__file__))))
warnings.simplefilter('ignore')

import hotxlfp  # noqa: E402
from hotxlfp import Parser  # noqa: E402
from hotxlfp.formulas import error as xlerror  # noqa: E402
from hotxlfp.grammarparser.parser import FormulaParser  # noqa: E402

ADDR = re.compile(r'0x[0-9a-fA-F]+')
COUNT = [0]


def safe_repr(v):
    try:
        r = repr(v)
    except Exception as e:  # pragma: no cover
        r = '<repr failed: %s>' % type(e).__name__
    r = r.encode('ascii', 'backslashreplace').decode('ascii')  # the transcript is plain ASCII
    return ADDR.sub('0x?', r)


def outcome(thunk):
    try:
        return 'value ' + safe_repr(thunk())
    except BaseException as e:
        return 'raised %s %s' % (type(e).__name__, safe_repr(str(e)))


def line(label, text, events=None):
    COUNT[0] += 1
    if events is None:
        print('%04d %s => %s' % (COUNT[0], label, text))
    else:
        print('%04d %s => %s | events %s' % (COUNT[0], label, text, safe_repr(events)))


class Opaque(object):
    """ a value with a fixed repr whose comparisons are logged (sequences must not compare items) """
    def __init__(self, tag, log):
        self.tag = tag
        self.log = log

    def __repr__(self):
        return 'Opaque(%r)' % (self.tag,)

    def __eq__(self, other):
        self.log.append(('Opaque.__eq__', self.tag, safe_repr(other)))
        return True

    def __ne__(self, other):
        self.log.append(('Opaque.__ne__', self.tag, safe_repr(other)))
        return True

    __hash__ = None


def new_parser(log):
    """ a parser with logged events, two recording custom functions and a few variables """
    p = Parser()

    def on_var(name, setter):
        log.append(('callVariable', name))
        if name == 'w':
            setter('listener w')

    def on_fn(name, args, setter):
        log.append(('callFunction', name, safe_repr(args)))

    def on_cell(cell, setter):
        log.append(('callCellValue', safe_repr(cell)))
        if cell.label == 'A1':
            setter(4)

    def on_range(start, end, setter):
        log.append(('callRangeValue', safe_repr(start), safe_repr(end)))
        if (start.label, end.label) == ('A1', 'B2'):
            setter([[1, 2], [3, 4]])

    p.on('callVariable', on_var)
    p.on('callFunction', on_fn)
    p.on('callCellValue', on_cell)
    p.on('callRangeValue', on_range)

    def F(*args):
        log.append(('F got', safe_repr(args)))
        return args[0] if args else 'no args'

    def G(*args):
        log.append(('G got', safe_repr(args)))
        return list(args)

    def ID(*args):
        log.append(('ID got', safe_repr(args)))
        if len(args) == 1:
            return args[0]
        return list(args)

    p.set_function('F', F).set_function('G', G).set_function('ID', ID)
    p.set_variable('v', 3).set_variable('s', 'str').set_variable('n', None).set_variable('l', [1, 2])
    p.set_variable('e', xlerror.VALUE).set_variable('o', Opaque('o', log))
    p.set_variable('semi', ';').set_variable('comma', ',').set_variable('back', '\\')
    return p


def evaluate(p, log, formula, label=None):
    del log[:]
    text = outcome(lambda: p.parse(formula))
    line((label + ' ' if label else '') + 'parse(%r)' % (formula,), text, list(log))


# ---------------------------------------------------------------- A. hand written sequences
HAND = [
    # one separator, no holes
    'G()', 'G(1)', 'G(1,2)', 'G(1,2,3)', 'G(1,2,3,4,5,6,7,8,9,10)', 'G(1;2)', 'G(1;2;3)', 'G(1\\2)', 'G(1\\2\\3)',
    # holes
    'G(,)', 'G(,,)', 'G(,,,)', 'G(1,)', 'G(1,,)', 'G(,1)', 'G(,,1)', 'G(,1,)', 'G(1,,2)', 'G(1,,,2)', 'G(1,2,)',
    'G(,1,2)', 'G(1,,2,,3)', 'G(,1,,2,)', 'G(,,1,,2,,)',
    'G(;)', 'G(;;)', 'G(;;;)', 'G(1;)', 'G(1;;)', 'G(;1)', 'G(;;1)', 'G(;1;)', 'G(1;;2)', 'G(1;;;2)', 'G(1;2;)',
    'G(;1;2)', 'G(1;;2;;3)', 'G(;1;;2;)',
    'G(\\)', 'G(\\\\)', 'G(\\\\\\)', 'G(1\\)', 'G(1\\\\)', 'G(\\1)', 'G(\\\\1)', 'G(\\1\\)', 'G(1\\\\2)', 'G(1\\\\\\2)',
    'G(1\\2\\)', 'G(\\1\\2)', 'G(1\\\\2\\\\3)',
    # rows
    'G(1,2;3,4)', 'G(1,2;3,4;5,6)', 'G(1,2;3)', 'G(1;2,3)', 'G(1,2;3,4,5)', 'G(1,2,3;4)', 'G(1\\2;3\\4)',
    'G(1\\2;3\\4;5\\6)', 'G(1\\2;3)', 'G(1;2\\3)', 'G(1,2;3\\4)', 'G(1\\2;3,4)', 'G(1,2\\3)', 'G(1\\2,3)',
    'G(1,;2,)', 'G(,1;,2)', 'G(,;,)', 'G(,,;,,)', 'G(1,2;)', 'G(;1,2)', 'G(1,2;;3,4)', 'G(1,,2;3,,4)',
    'G(\\\\;\\\\)', 'G(1\\;2\\)', 'G(1,2;3,4;)', 'G(;1,2;3,4)', 'G(1;2;3,4)', 'G(1,2;3;4)',
    # arrays
    '{1}', '{1,2}', '{1,2,3}', '{1;2}', '{1;2;3}', '{1\\2}', '{1,2;3,4}', '{1\\2;3\\4}', '{1,2;3,4;5,6}', '{,}', '{;}',
    '{\\\\}', '{1,}', '{,1}', '{1,,2}', '{1;;2}', '{1\\\\2}', '{}', '{{1,2}}', '{{1,2},{3,4}}', '{{1,2};{3,4}}',
    '{1,{2,3}}', '{1,2;3}', '{1;2,3}', '{"a","b";"c","d"}', '{TRUE,FALSE;NULL,1}', '{v,w;s,n}', '{v,unknown}',
    '{1,2', '1,2}', '{1,2}}', '{1 2}', '{1,2}+1', '{1,2}&"x"', '-{1,2}', '{1,2}={1,2}', 'G({1,2})', 'G({1,2},{3,4})',
    'G({1,2;3,4})', 'G({1;2},{3;4})', 'G({1,2};{3,4})', 'G({1,2}\\{3,4})', 'G({,},{;})', 'SUM({1,2;3,4})',
    'SUM({1,2},{3,4})', 'SUM(1,2;3,4)', 'SUM(1\\2;3\\4)', 'SUM(1;2;3)', 'SUM(1\\2\\3)', 'SUM(,)', 'SUM(1,,2)',
    'SUM(;;)', 'MAX(1;5;3)', 'MAX(1,5;3,9)', 'COUNT(,)', 'COUNTA(,)', 'COUNTA(1,,2)', 'COUNTBLANK(,,)',
    'CONCATENATE("a",,"b")', 'CONCATENATE("a";"b")', 'IF(TRUE,,2)', 'IF(FALSE,,2)', 'IF(,1,2)', 'IF(TRUE;1;2)',
    'IF(FALSE\\1\\2)', 'INDEX({1,2;3,4},2,1)', 'INDEX({1,2;3,4};2;2)', 'AVERAGE(1,2;3,4)', 'AND(TRUE,TRUE;TRUE,FALSE)',
    # what the items are
    'G("a","b")', 'G("a,b","c;d","e\\\\f")', 'G(\'x,y\',\'z\')', 'G(";",",")', 'G(";")', 'G(",")', 'G("\\\\")',
    'G(semi,comma,back)', 'G(semi)', 'G(comma;semi)', 'G(back\\semi)', 'G(semi;semi)', 'G(comma,comma)',
    'G(o)', 'G(o,o)', 'G(o;o)', 'G(o\\o)', 'G(o,)', 'G(,o)', 'G(o,,o)', 'G(o,o;o,o)', '{o,o;o}', 'G(l,l)', 'G(l;l)',
    'G(l,l;l,l)', 'G(n,n)', 'G(n;)', 'G(e,1)', 'G(1,e)', 'G(e;e)', 'G(v,w,s)', 'G(v;w;s)', 'G(v\\w\\s)',
    'G(unknown,1)', 'G(1,unknown)', 'G(1;unknown)', 'G(1\\unknown)', 'G(1,2;unknown,4)', 'G(NOPE(),1)',
    'G(1,NOPE())', 'G(1,2;3,NOPE())', 'G(#N/A,1)', 'G(1,#REF!)', 'G(1/0,2)', 'G(1,2;1/0,4)', 'G(A1,A1:B2)',
    'G(A1;A1:B2)', 'G(A1:B2,A1;A1,A1:B2)', 'G(1+1,2*3)', 'G(-1,-2)', 'G(1=1,2<>2)', 'G(1%,2^2,.5,1.5)',
    'G((1),(2))', 'G((1,2))', 'G(((1)))', 'G(1 , 2)', 'G( 1;2 )', 'G(1, ,2)', 'G( , )', 'G( ; ; )',
    # nesting and order of evaluation
    'G(F(1),F(2),F(3))', 'G(F(1);F(2);F(3))', 'G(F(1)\\F(2)\\F(3))', 'G(F(1),F(2);F(3),F(4))', 'G(G(1,2),G(3,4))',
    'G(G(1,2);G(3,4))', 'G(G(1;2),G(3;4))', 'G(G(,),G(;))', 'G(G(),G())', 'F(G(1,2),3)', 'F(,G(1))', 'F(F(F(1,2),3),4)',
    'ID(1,2)', 'ID(ID(1,2),ID(3,4))', 'ID(ID(1,2);ID(3,4))', 'ID(1,2;3,4)', 'ID(ID(1,2;3,4))', 'ID({1,2;3,4})',
    'ID(ID(1,2),3;4,ID(5;6))', 'G(F(v),F(w),F(unknown),F(s))', 'G(F(1),NOPE(F(2)),F(3))',
    'G(1,2)+G(3,4)', 'F(1,2)+F(3;4)', 'F(1,2)&F(,)', 'F(2,1)*F(3\\1)', 'SUM(G(1,2))', 'SUM(G(1,2;3,4))',
    'SUM(G(1,2),G(3,4))', 'SUM(G(1,2);G(3,4))', 'MAX(G(1,5;3,9))', 'COUNTA(G(,))', 'COUNTA(G(,,))',
    # broken input around sequences
    'G(', 'G(1', 'G(1,', 'G(1,2', 'G)', 'G(1))', 'G(1,2))', 'G((1,2)', 'G(1,2)3', 'G(1 2)', 'G(1:2)', 'G(:)', 'G(1,:)',
    ',', ';', '\\', '1,2', '1;2', '1\\2', ',1', '1,', '(1,2)', '(1;2)', '(,)', 'G(1,2);', 'G(1,2),', 'G(1,2).x',
]


def section_hand_written():
    print('## A hand written sequences')
    log = []
    p = new_parser(log)
    for f in HAND:
        evaluate(p, log, f)


# ---------------------------------------------------------------- B. systematic sequences
ITEMS = ['1', '"a"', 'v', 'w', 'unknown', 'F(2)', 'NOPE(2)', '{1,2}', 'A1', 'n', 'o', '#N/A', '']


def section_systematic():
    print('## B every pattern of items and holes up to four places, for each separator')
    log = []
    p = new_parser(log)
    # which places are holes: all subsets, for 1 to 4 places
    for sep in [',', ';', '\\']:
        for places in range(1, 5):
            for holes in itertools.product([False, True], repeat=places):
                args = sep.join('' if h else str(i + 1) for i, h in enumerate(holes))
                evaluate(p, log, 'G(%s)' % args)
        for places in range(1, 4):
            for holes in itertools.product([False, True], repeat=places):
                args = sep.join('' if h else str(i + 1) for i, h in enumerate(holes))
                evaluate(p, log, '{%s}' % args)
    # rows of comma / backslash sequences separated by semicolons
    for inner in [',', '\\']:
        for left in ['1', '1%s2' % inner, '%s1' % inner, '1%s' % inner, inner + inner, '1%s%s2' % (inner, inner)]:
            for right in ['3', '3%s4' % inner, '%s3' % inner, '3%s' % inner, inner + inner]:
                evaluate(p, log, 'G(%s;%s)' % (left, right))
                evaluate(p, log, '{%s;%s}' % (left, right))
                evaluate(p, log, 'G(%s;%s;5)' % (left, right))
    # what each kind of item does in each position
    for sep in [',', ';', '\\']:
        for a in ITEMS:
            for b in ['1', 'unknown', 'o', '']:
                evaluate(p, log, 'G(%s)' % sep.join([a, b]))
                evaluate(p, log, 'G(%s)' % sep.join([b, a, b]))


# ---------------------------------------------------------------- C. variable sequences
def section_variable_sequences():
    print('## C variable sequences')
    log = []
    p = new_parser(log)
    for f in ['v', 'v.x', 'v.x.y', 'v.x.y.z', 'v.v', 'v.unknown', 'unknown.v', 'unknown.x.y', 'w.x', 'w.x.y', 'n.x',
              'e.x', 'o.x', 'l.x', 's.s.s', 'TRUE.x', 'NULL.x.y', 'v.TRUE', 'v._', '_.v', '_._', 'v.x_1', 'v.a1',
              'v.A1', 'v.1', 'v.', '.v', 'v..x', 'v.x.', 'v. x', 'v .x', 'v.x+1', '1+v.x', '-v.x', 'v.x&s.y',
              'v.x=v.y', 'v.x+unknown.y', 'unknown.y+v.x', 'G(v.x)', 'G(v.x,s.y)', 'G(v.x;s.y)', 'G(v.x\\s.y)',
              'G(v.x,unknown.y)', '{v.x,s.y}', 'F(v.x.y,w.z)', 'SUM(v.x,v.y)', 'v.x()', 'v.G(1)', 'G.v', 'F.G.v',
              'SUM.x', 'v.SUM', 'v.x.1', 'v.x%', 'v.x^2', '(v.x)', '(v).x', 'v.(x)', 'IF(TRUE,v.x,unknown.y)',
              'IF(v.x=3,s.y,n.z)', 'semi.x', 'comma.x.y', 'a.b.c.d.e.f.g.h', 'v.x v.y', 'v.x,v.y']:
        evaluate(p, log, f)
    # the grammar parser on its own: what call_variable / call_function receive
    seen = []

    def call_variable(name):
        seen.append(('variable', safe_repr(name)))
        return 'V'

    def call_function(name, args=None):
        seen.append(('function', name, safe_repr(args)))
        return args

    def call_cell_value(label):
        seen.append(('cell', label))
        return 'C'

    def call_range_value(a, b):
        seen.append(('range', a, b))
        return [['R']]

    def throw_error(err):
        seen.append(('throw', safe_repr(err)))
        raise xlerror.from_message(err)

    fp = FormulaParser(call_function=call_function, call_variable=call_variable, call_cell_value=call_cell_value,
                       call_range_value=call_range_value, throw_error=throw_error)
    for f in ['a', 'a.b', 'a.b.c', 'a.b+c.d', 'f(a.b,c.d)', 'f()', 'f(,)', 'f(1,,2)', 'f(1;2)', 'f(1,2;3,4)',
              'f(1\\2;3\\4)', 'f(;;)', 'f(\\\\)', 'f(g(1,2),g(3;4))', 'f(g(1,2);g(3,4))', '{1,2;3,4}', '{a,b;c,d}',
              '{a.b,c.d}', 'f({1,2},{3;4})', 'f(A1,A1:B2;c)', 'f(1,2', 'f(#N/A)', 'f(a,#REF!)', 'f(1;;2)',
              'f(1,2;;3,4)', 'f(1\\\\2)', 'f(,1;2,)', '{,1;2,}', 'f(a;b,c)', 'f(a,b;c)', 'f(a;b;c,d)', 'f(a,b;c;d)',
              'f(a\\b;c;d)', 'f(a;b\\c;d)', 'f((a,b))', 'f(a)(b)', 'f(f(f(a,b);c)\\d)']:
        del seen[:]
        line('FormulaParser.parse(%r)' % f, outcome(lambda: fp.parse(f)), list(seen))


# ---------------------------------------------------------------- D. generated formulas
def gen_seq(rng, depth):
    shape = rng.random()
    n = rng.choice([0, 1, 1, 2, 2, 3, 4])
    if shape < 0.55:
        sep = rng.choice([',', ',', ';', '\\'])
        return sep.join(gen(rng, depth - 1) if rng.random() > 0.15 else '' for _ in range(n))
    inner = rng.choice([',', '\\'])
    rows = []
    for _ in range(rng.choice([2, 2, 3])):
        m = rng.choice([1, 2, 2, 3])
        rows.append(inner.join(gen(rng, depth - 1) if rng.random() > 0.1 else '' for _ in range(m)))
    return ';'.join(rows)


def gen(rng, depth):
    atoms = ['1', '2.5', '"s"', 'TRUE', 'NULL', 'v', 'w', 'unknown', 'A1', 'A1:B2', '#N/A', 'v.x', 'unknown.y', 'o',
             'n', 'l', 'semi']
    funcs = ['F', 'G', 'ID', 'SUM', 'MAX', 'NOPE', 'IF', 'CONCATENATE', 'COUNTA', 'nope']
    ops = ['+', '-', '*', '&', '=', '<>']
    if depth <= 0 or rng.random() < 0.2:
        return rng.choice(atoms)
    k = rng.random()
    if k < 0.55:
        return '%s(%s)' % (rng.choice(funcs), gen_seq(rng, depth))
    if k < 0.7:
        return '{%s}' % gen_seq(rng, depth)
    if k < 0.9:
        return '%s%s%s' % (gen(rng, depth - 1), rng.choice(ops), gen(rng, depth - 1))
    return '(%s)' % gen(rng, depth - 1)


def section_generated():
    print('## D generated formulas')
    rng = random.Random(9092)
    log = []
    for i in range(300):
        p = new_parser(log)
        evaluate(p, log, gen(rng, 3))


def main():
    line('hotxlfp.Parser is parser.Parser', repr(hotxlfp.Parser is Parser))
    section_hand_written()
    section_systematic()
    section_variable_sequences()
    section_generated()
    print('## total evaluations %d' % COUNT[0])


if __name__ == '__main__':
    main()
