# -*- coding: utf-8 -*-
"""
Probe for C16 refactoring 3 (shared body of the one-argument math wrappers).
Prints a deterministic transcript; it must be byte-identical on the unchanged
and on the changed tree.
"""
import os
import sys

sys.path.insert(0, os.path.dirname(os.path.dirname(os.path.abspath(__file__))))

import hotxlfp  # noqa: E402
from hotxlfp.formulas import error, mathtrig  # noqa: E402

COUNT = [0]


def show(value):
    """ repr that never prints a memory address """
    if isinstance(value, error.XLError):
        return 'XLError(%s)' % str(value)
    if isinstance(value, BaseException):
        return '%s(%s)' % (type(value).__name__, value)
    if isinstance(value, dict):
        return '{' + ', '.join('%r: %s' % (k, show(value[k])) for k in sorted(value)) + '}'
    if isinstance(value, (list, tuple)):
        inner = ', '.join(show(v) for v in value)
        return ('[%s]' if isinstance(value, list) else '(%s)') % inner
    if callable(value):
        return '<callable %s>' % getattr(value, '__name__', '?')
    if type(value).__repr__ is object.__repr__:
        return '<%s instance>' % type(value).__name__
    return '%s:%r' % (type(value).__name__, value)


def line(text):
    COUNT[0] += 1
    print('%04d %s' % (COUNT[0], text))


# ---------------------------------------------------------------------------
# 1. direct calls of the python functions with all sorts of python values
# ---------------------------------------------------------------------------

UNARY = ['ABS', 'ACOS', 'SIN', 'SINH', 'ASIN', 'ASINH', 'COS', 'COSH', 'TAN', 'TANH',
         'ATAN', 'ATANH', 'SQRT', 'LN',
         # neighbours that were not touched, for completeness
         'ACOSH', 'ACOT', 'ACOTH', 'COT', 'EXP', 'RADIANS', 'DEGREES', 'LOG10']


class Opaque(object):
    pass


class StrSub(str):
    pass


VALUES = [
    0, 1, -1, 2, -2, 0.5, -0.5, 1.0, -1.0, 0.0, -0.0, 1e-300, -1e-300, 1e300, -1e300,
    709, 710, 711, -745, -746, 1e16, 3.141592653589793, 1.5707963267948966,
    10 ** 400, -(10 ** 400), float('inf'), float('-inf'), float('nan'),
    True, False, None,
    '', ' ', '0', '1', '-1', ' 1 ', '1.5', '-1.5', '1e3', '1E-3', '0x10', '1_0', 'inf', '-inf', 'nan',
    'abc', 'TRUE', '1,5', '٣', u'½', '#N/A', '#VALUE!',
    StrSub('0.25'), StrSub('zzz'),
    error.VALUE, error.NUM, error.DIV_ZERO, error.NOT_AVAILABLE, error.NAME, error.NULL, error.REF,
    error.ERROR, error.DATA, error.XLError('#CUSTOM!'),
    [], [1], [1, 2], [[1, 2], [3, 4]], (), (1,), {}, {'a': 1}, set(),
    1j, 1 + 0j, 0j, -1 + 2j, b'1', bytearray(b'2'),
    Opaque(), mathtrig.DEFAULT, len,
]


def direct(name, *args):
    fn = getattr(mathtrig, name)
    try:
        out = fn(*args)
    except BaseException as exc:  # noqa
        out = exc
        tag = 'raised'
    else:
        tag = 'returned'
    line('direct %s(%s) %s %s' % (name, ', '.join(show(a) for a in args), tag, show(out)))


for fname in UNARY:
    for v in VALUES:
        direct(fname, v)

# unusual argument counts
for fname in UNARY:
    direct(fname)
    direct(fname, 1, 2)

# the helper may not leak state: an error argument comes back as the very same object
for fname in ['ABS', 'SIN', 'SQRT', 'LN', 'ATANH']:
    for err in (error.VALUE, error.NUM, error.NOT_AVAILABLE):
        line('identity %s %s %r' % (fname, str(err), getattr(mathtrig, fname)(err) is err))
    custom = error.XLError('#CUSTOM!')
    line('identity %s custom %r' % (fname, getattr(mathtrig, fname)(custom) is custom))
    line('name %s %s' % (fname, getattr(mathtrig, fname).__name__))

# ---------------------------------------------------------------------------
# 2. formulas through the parser, with the events that were seen
# ---------------------------------------------------------------------------

FORMULAS = [
    'ABS(-3)', 'ABS(3)', 'ABS(0)', 'ABS(-0.0)', 'ABS("-2.5")', 'ABS(TRUE)', 'ABS(FALSE)', 'ABS("x")', 'ABS("")',
    'ABS()', 'ABS(1,2)', 'ABS(,)', 'ABS(NULL)', 'ABS(A1)', 'ABS(B2)', 'ABS(C3)', 'ABS(D4)', 'ABS(A1:B2)',
    'ABS({1,2})', 'ABS({-1})', 'ABS(#N/A)', 'ABS(#VALUE!)', 'ABS(#REF!)', 'ABS(#NUM!)', 'ABS(#DIV/0!)',
    'ABS(#NULL!)', 'ABS(#NAME?)', 'ABS(1/0)', 'ABS(nosuchvar)', 'ABS(v_num)', 'ABS(v_txt)', 'ABS(v_numtxt)',
    'ABS(v_err)', 'ABS(v_list)', 'ABS(v_none)', 'ABS(v_bool)', 'ABS(v_cplx)', 'ABS(-v_num)', 'ABS(ABS(-1))',
    'SIN(0)', 'SIN(1)', 'SIN(-1)', 'SIN(PI())', 'SIN(PI()/2)', 'SIN("1")', 'SIN(TRUE)', 'SIN("abc")', 'SIN(1e308*10)',
    'SIN(A1)', 'SIN(B2)', 'SIN(C3)', 'SIN(v_cplx)', 'SIN(v_err)', 'SIN(#N/A)', 'SIN({1})', 'SIN()', 'SIN(1,2)',
    'COS(0)', 'COS(1)', 'COS(PI())', 'COS("2")', 'COS(FALSE)', 'COS("")', 'COS(v_list)', 'COS(#NUM!)',
    'TAN(0)', 'TAN(1)', 'TAN(PI()/4)', 'TAN(PI()/2)', 'TAN("q")', 'TAN(TRUE)', 'TAN(C3)',
    'SIN(2)^2+COS(2)^2', 'TAN(0.7)-SIN(0.7)/COS(0.7)', 'COT(0.7)-1/TAN(0.7)', 'COT(0)', 'COT("a")',
    'SINH(0)', 'SINH(1)', 'SINH(-1)', 'SINH(710)', 'SINH(711)', 'SINH("1")', 'SINH("no")', 'SINH(B2)',
    'COSH(0)', 'COSH(1)', 'COSH(-1)', 'COSH(711)', 'COSH(TRUE)', 'COSH(v_txt)',
    'TANH(0)', 'TANH(1)', 'TANH(-1)', 'TANH(1000)', 'TANH("0.5")', 'TANH(#REF!)',
    'ASIN(0)', 'ASIN(1)', 'ASIN(-1)', 'ASIN(0.5)', 'ASIN(1.0000001)', 'ASIN(-2)', 'ASIN("0.5")', 'ASIN(TRUE)',
    'ASIN("z")', 'ASIN(SIN(0.3))', 'SIN(ASIN(0.3))',
    'ACOS(0)', 'ACOS(1)', 'ACOS(-1)', 'ACOS(0.5)', 'ACOS(2)', 'ACOS(-1.5)', 'ACOS("1")', 'ACOS(FALSE)',
    'ACOS("z")', 'ACOS(COS(0.3))', 'COS(ACOS(0.3))',
    'ATAN(0)', 'ATAN(1)', 'ATAN(-1)', 'ATAN(1e308)', 'ATAN("1")', 'ATAN(TRUE)', 'ATAN("z")', 'ATAN(TAN(0.3))',
    'ASINH(0)', 'ASINH(1)', 'ASINH(-1)', 'ASINH(1e300)', 'ASINH("1")', 'ASINH("z")', 'ASINH(SINH(0.3))',
    'ATANH(0)', 'ATANH(0.5)', 'ATANH(-0.5)', 'ATANH(1)', 'ATANH(-1)', 'ATANH(2)', 'ATANH("0.5")', 'ATANH("z")',
    'ATANH(TANH(0.3))', 'ATANH(TRUE)', 'ATANH(FALSE)',
    'ACOSH(1)', 'ACOSH(2)', 'ACOSH(0.5)', 'ACOSH("2")', 'ACOSH(COSH(0.3))',
    'SQRT(0)', 'SQRT(4)', 'SQRT(2)', 'SQRT(-1)', 'SQRT(-0.0)', 'SQRT("9")', 'SQRT(TRUE)', 'SQRT("z")', 'SQRT("")',
    'SQRT(A1)', 'SQRT(B2)', 'SQRT(D4)', 'SQRT(#DIV/0!)', 'SQRT(1/0)', 'SQRT({4})', 'SQRT(SQRT(16))', 'SQRT(-SQRT(16))',
    'SQRT(2)*SQRT(2)', 'SQRT(1e308*10)',
    'LN(1)', 'LN(2)', 'LN(EXP(1))', 'LN(0)', 'LN(-1)', 'LN("2")', 'LN(TRUE)', 'LN(FALSE)', 'LN("z")', 'LN(B2)',
    'LN(v_err)', 'LN(#N/A)', 'LN(1,2)', 'LN()', 'EXP(LN(5))', 'LN(8)/LN(2)', 'LOG(8,2)', 'LOG10(1000)',
    'LN(1e308*10)', 'LN(10^400)',
    'SUM(SIN(1),COS(1),TAN(1))', 'IF(SQRT(-1)=1,1,2)', 'IFERROR(SQRT(-1),"bad")', 'ISERROR(ASIN(2))',
    'ISNUMBER(ABS("z"))', 'ISERROR(ABS("z"))', 'SQRT("a")&"b"', 'ABS(-1)&ABS("1")',
    'RADIANS(180)', 'DEGREES(PI())', 'EXP(0)', 'EXP("1")', 'ACOT(0)', 'ACOT(2)', 'ACOTH(2)',
]


def make_parser(log):
    p = hotxlfp.Parser()
    p.set_variable('v_num', -4.5)
    p.set_variable('v_txt', 'hello')
    p.set_variable('v_numtxt', '-7')
    p.set_variable('v_err', error.NUM)
    p.set_variable('v_list', [1, 2])
    p.set_variable('v_none', None)
    p.set_variable('v_bool', True)
    p.set_variable('v_cplx', 3 + 4j)

    cells = {'A1': 0.25, 'B2': '0.5', 'C3': 'text', 'D4': error.NOT_AVAILABLE}

    def on_function(name, args, done):
        log.append('callFunction %s %s' % (name, show(args)))

    def on_variable(name, done):
        log.append('callVariable %s' % name)

    def on_cell(cell, done):
        log.append('callCellValue %s' % cell.label)
        done(cells.get(cell.label))

    def on_range(start, end, done):
        log.append('callRangeValue %s:%s' % (start.label, end.label))
        done([[0.25, 1], [2, '0.5']])

    p.on('callFunction', on_function)
    p.on('callVariable', on_variable)
    p.on('callCellValue', on_cell)
    p.on('callRangeValue', on_range)
    return p


log1, log2 = [], []
parser1 = make_parser(log1)
parser2 = make_parser(log2)

for rnd in (1, 2):
    for formula in FORMULAS:
        for tag, parser, log in (('p1', parser1, log1), ('p2', parser2, log2)):
            if rnd == 2 and tag == 'p2':
                continue  # second round: the first parser only (repeated evaluation)
            del log[:]
            try:
                out = parser.parse(formula)
            except BaseException as exc:  # noqa
                out = exc
            line('%s round%d %s => %s | events: %s' % (tag, rnd, formula, show(out), '; '.join(log)))

# a listener that overrides the value of the call
p3 = hotxlfp.Parser()
seen = []


def override(name, args, done):
    seen.append('%s %s' % (name, show(args)))
    if name == 'SQRT':
        done(42)


p3.on('callFunction', override)
for formula in ['SQRT(-1)', 'SQRT(4)', 'ABS(SQRT(-1))', 'SIN(SQRT("z"))', 'LN(SQRT(1))']:
    del seen[:]
    line('p3 %s => %s | events: %s' % (formula, show(p3.parse(formula)), '; '.join(seen)))

# user functions take precedence; the built-in one is reachable afterwards on another parser
p4 = hotxlfp.Parser()
p4.set_function('SIN', lambda x: 'mine %r' % (x,))
line('p4 SIN(1) => %s' % show(p4.parse('SIN(1)')))
line('p4 COS(1) => %s' % show(p4.parse('COS(1)')))
line('p1 SIN(1) => %s' % show(parser1.parse('SIN(1)')))

# the shared error values carry nothing over from one evaluation to the next
for err in (error.VALUE, error.NUM, error.ERROR, error.DIV_ZERO):
    line('error state %s traceback=%r context=%r args=%r' % (str(err), err.__traceback__, err.__context__, err.args))

line('total evaluations %d' % COUNT[0])
