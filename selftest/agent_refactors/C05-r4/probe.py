# -*- coding: utf-8 -*-
"""
Probe for C05 refactoring 4: the value slot handed to listeners as the setter
(callFunction / callVariable / callCellValue / callRangeValue), the
normalisation of range corners and column_label_to_index.
Prints one line per evaluation: the input, repr() of the outcome and the
events seen (with their payloads, the setter shown only as callable or not).
"""
import os
import random
import sys

sys.path.insert(0, os.path.dirname(os.path.dirname(os.path.abspath(__file__))))

import hotxlfp  # noqa: E402
from hotxlfp.formulas import error as xlerror  # noqa: E402
from hotxlfp.helper import cell as cellhelper  # noqa: E402

COUNTER = [0]


def show(value):
    if isinstance(value, (list, tuple)):
        inner = ', '.join(show(v) for v in value)
        return ('[%s]' if isinstance(value, list) else '(%s)') % inner
    if isinstance(value, BaseException):
        return '%s(%s)' % (type(value).__name__, value)
    return '%s:%r' % (type(value).__name__, value)


def show_cell(cell):
    row, col = cell  # Cell supports unpacking
    return 'Cell(%s row=%r/%r/%r col=%r/%r/%r)' % (
        cell.label, row.index, row.label, row.is_absolute, col.index, col.label, col.is_absolute)


def line(tag, what, text, events):
    COUNTER[0] += 1
    print('%04d %s %s -> %s | events=%s' % (COUNTER[0], tag, what, text, events))


# --------------------------------------------------------------------------
# a parser with listeners whose behaviour is driven by the payload
# --------------------------------------------------------------------------
TABLE = {
    'A1': 1, 'B1': 2.5, 'C1': 'text', 'D1': True, 'E1': False, 'F1': 0, 'G1': '', 'H1': None,
    'A2': -3, 'B2': 'bee', 'AA10': 1010, 'ZZ99': 'far', 'XFD1048576': 'corner',
    '$A$1': 'abs', '$A1': 'mixcol', 'A$1': 'mixrow',
}


def make_parser(mode):
    parser = hotxlfp.Parser()
    events = []

    def boom(*args):
        raise ValueError('boom')

    def xlraise(*args):
        raise xlerror.NUM

    def xlreturn(*args):
        return xlerror.VALUE

    parser.set_function('ARGS', lambda *a: 'ARGS' + show(a))
    parser.set_function('BOOM', boom)
    parser.set_function('XLRAISE', xlraise)
    parser.set_function('XLRETURN', xlreturn)
    parser.set_function('NOTHING', lambda *a: None)
    parser.set_function('ZERO', lambda *a: 0)
    parser.set_function('SUM', lambda *a: 'custom sum %d' % len(a)) if mode == 'shadow' else None
    parser.set_variable('answer', 42).set_variable('empty', None).set_variable('zero', 0)
    parser.set_variable('name', 'value').set_variable('lst', [1, 2, 3])

    def on_function(name, args, setter):
        events.append('callFunction(%s, %s, setter=%s)' % (name, show(args), callable(setter)))
        if name == 'OVERRIDE':
            setter('never reached')
        if args and args[0] == 'override':
            setter('overridden')
        if args and args[0] == 'none':
            setter(None)  # ignored
        if args and args[0] == 'falsy':
            setter(0)
        if args and args[0] == 'twice':
            setter('first')
            setter('second')
            setter(None)
        if args and args[0] == 'list':
            setter([args, len(args)])

    def on_function_second(name, args, setter):
        events.append('second listener(%s)' % name)
        if args and args[0] == 'both':
            setter('from second listener')

    def on_variable(name, setter):
        events.append('callVariable(%s, setter=%s)' % (name, callable(setter)))
        if name == 'supplied':
            setter('by listener')
        elif name == 'suppliedzero':
            setter(0)
        elif name == 'suppliedfalse':
            setter(False)
        elif name == 'suppliedempty':
            setter('')
        elif name == 'suppliednone':
            setter(None)  # stays unknown
        elif name == 'answer' and mode == 'shadow':
            setter(43)
        elif name == 'TRUE' and mode == 'shadow':
            setter('not true')

    def on_cell(cell, setter):
        events.append('callCellValue(%s, setter=%s)' % (show_cell(cell), callable(setter)))
        setter(TABLE.get(cell.label))

    def on_range(start, end, setter):
        events.append('callRangeValue(%s, %s, setter=%s)' % (show_cell(start), show_cell(end), callable(setter)))
        rows = []
        if 0 <= end.row.index - start.row.index < 6 and 0 <= end.col.index - start.col.index < 6:
            for r in range(start.row.index, end.row.index + 1):
                rows.append([r * 100 + c for c in range(start.col.index, end.col.index + 1)])
            setter(rows)
        elif start.row.index > 1000:
            setter(None)
        else:
            setter('big range')

    if mode != 'silent':
        parser.on('callFunction', on_function)
        parser.on('callFunction', on_function_second)
        parser.on('callVariable', on_variable)
        parser.on('callCellValue', on_cell)
        parser.on('callRangeValue', on_range)
    return parser, events


def evaluate(tag, parser, events, formula):
    del events[:]
    try:
        outcome = parser.parse(formula)
        text = 'result=%s error=%r' % (show(outcome['result']), outcome['error'])
    except Exception as exc:  # not expected
        text = 'raised %s(%s)' % (type(exc).__name__, exc)
    line(tag, repr(formula), text, list(events))


def direct(tag, events, what, fn, *args):
    del events[:]
    try:
        text = show(fn(*args))
    except Exception as exc:
        text = 'raised %s(%s)' % (type(exc).__name__, exc)
    xlerror.clear_tracebacks()
    line(tag, '%s%s' % (what, show(args)), text, list(events))


FORMULAS = (
    # functions: builtin, custom, unknown, failing, overridden by listeners
    'SUM(1,2,3)', 'SUM()', 'SUM(1;2)', 'ARGS()', 'ARGS(1)', 'ARGS(1,"a",TRUE,,2.5)', 'ARGS("override")',
    'ARGS("none")', 'ARGS("falsy")', 'ARGS("twice")', 'ARGS("list",1,2)', 'ARGS("both")', 'ARGS("override","both")',
    'BOOM()', 'BOOM(1)', 'BOOM("override")', 'BOOM("none")', 'XLRAISE()', 'XLRAISE("override")', 'XLRAISE(1)+1',
    'XLRETURN()', 'XLRETURN("falsy")', 'XLRETURN(1)&"x"', 'NOTHING()', 'NOTHING("override")', 'NOTHING("none")',
    'NOTHING()+1', 'ZERO()', 'ZERO("none")', 'ZERO()+1', 'OVERRIDE()', 'OVERRIDE(1)', 'UNKNOWN(1,2)', 'unknown()',
    'sum(1,2)', 'Sum(1,2)', 'args(1)', 'SQRT(-1)', 'SQRT(4)', 'SQRT("override")', 'LN(0)', 'ABS(-2)', 'ABS("none")',
    'ABS("falsy")', 'ABS(-1,-2)', 'ABS()', 'IF(TRUE,ARGS(1),BOOM())', 'ARGS(ARGS("override"),BOOM(),XLRETURN())',
    'ARGS(XLRAISE())', 'ARGS(UNKNOWN())', 'ARGS(BOOM(),1)', 'SUM(ARGS("falsy"),1)', 'ARGS({1,2},{3;4})',
    'ARGS(A1,B1)', 'ARGS(A1:B2)', 'ARGS(answer,TRUE)', 'MAX(1,"a")', 'LEN("abc")', 'UPPER("override")',
    'CONCATENATE("a","b")', 'PI()', 'PI("override")', 'TRUE()', 'FALSE()', 'NOT(TRUE)', 'AND(TRUE,FALSE)',
    # variables
    'TRUE', 'FALSE', 'NULL', 'true', 'answer', 'empty', 'zero', 'name', 'lst', 'unknownvar', 'supplied',
    'suppliedzero', 'suppliedfalse', 'suppliedempty', 'suppliednone', 'answer+1', 'zero+1', 'empty&"x"', 'name&name',
    'supplied&"!"', 'unknownvar+1', 'suppliednone+1', 'a.b', 'answer.b.c', 'unknownvar.answer', 'supplied.x',
    'ARGS(supplied,suppliedzero,suppliedfalse,suppliedempty)', 'ARGS(unknownvar)', '{answer,zero}', '_x', 'x_y',
    # single cells: case, absolute and mixed markers, big labels, blanks, falsy values
    'A1', 'a1', 'B1', 'b1', 'C1', 'c1', 'D1', 'E1', 'F1', 'G1', 'H1', 'A2', 'B2', 'b2', 'AA10', 'aa10', 'Aa10', 'aA10',
    'ZZ99', 'zz99', 'XFD1048576', 'xfd1048576', '$A$1', '$a$1', '$A1', '$a1', 'A$1', 'a$1', 'Q7', 'q7', 'A0', 'a0',
    'A01', 'a001', 'ZZZZ1', 'A1+a1', 'A1&b2', 'F1+1', 'H1+1', 'G1&"x"', 'D1=TRUE', 'A1=a1', '$A$1&$a$1', '-A1', '-a2',
    'A1%', 'A1^2', 'a99999999999999999999', 'A%s' % ('9' * 50), 'abc123', 'ABC123', 'aBc123',
    # ranges: every corner order, case, absolute/mixed markers, equal corners, big ranges
    'A1:B2', 'a1:b2', 'B2:A1', 'b2:a1', 'A2:B1', 'a2:b1', 'B1:A2', 'b1:a2', 'A1:A1', 'a1:A1', 'A1:a1', 'B2:B2',
    'A1:A3', 'A3:A1', 'A1:C1', 'C1:A1', 'c1:a1', '$A$1:$B$2', '$B$2:$A$1', '$b$2:$a$1', '$A1:B$2', 'B$2:$A1',
    'b$2:$a1', 'A$1:$B2', '$B2:A$1', '$A$2:B1', 'B1:$A$2', 'b1:$a$2', '$A2:$B1', 'A$2:B$1', '$B$1:A2', 'a2:$b$1',
    'AA10:AB11', 'ab11:aa10', 'AA11:AB10', 'ab10:aa11', 'Z1:AA2', 'aa2:z1', 'AA1:Z2', 'z2:aa1', 'A1:Z99', 'z99:a1',
    'A1:XFD1048576', 'xfd1048576:a1', 'A2000:B2001', 'b2001:a2000', 'A0:B1', 'b1:a0', 'A1:B0', 'a0:a0',
    'SUM(A1:B2)', 'SUM(b2:a1)', 'ARGS(A1:B2,b2:a1)', 'ARGS(A1:A1)', 'ARGS(A2000:B2001)', '{A1:B2,1}', 'A1:B2&"x"',
    'A1 : B2', ' a1:b2 ', 'A1:B2:C3', 'A1:', ':B2', 'A1:2', 'A:B', '1:2', 'A1:$B', '$A$1:$B$', '$$A1', 'A$$1',
)


def column_labels():
    rng = random.Random(5)
    labels = ['', 'A', 'a', 'B', 'Z', 'z', 'AA', 'aa', 'Aa', 'AZ', 'BA', 'ZZ', 'AAA', 'XFD', 'xfd', 'ZZZ', 'AAAA',
              'A1', '1', '1A', '$A', 'A$', ' ', 'A A', '-', '?', 'AB_', '\xe9', '\xdf', 'A\xdf', 'ZZZZZZZZZZ']
    letters = 'ABCDEFGHIJKLMNOPQRSTUVWXYZabcdefghijklmnopqrstuvwxyz'
    for _ in range(60):
        labels.append(''.join(rng.choice(letters) for _ in range(rng.randint(1, 6))))
    return labels


def main():
    parser, events = make_parser('normal')
    for formula in FORMULAS:
        evaluate('p1', parser, events, formula)
    # same parser again, then parsers with other listener set-ups
    for formula in FORMULAS[::2]:
        evaluate('p1-again', parser, events, formula)
    shadow, shadow_events = make_parser('shadow')
    for formula in FORMULAS[::3]:
        evaluate('shadow', shadow, shadow_events, formula)
    silent, silent_events = make_parser('silent')
    for formula in FORMULAS[1::3]:
        evaluate('silent', silent, silent_events, formula)

    # a once-listener and a listener with a ctx on a fresh parser
    fresh = hotxlfp.Parser()
    fresh_events = []
    fresh.once('callCellValue', lambda cell, setter: (fresh_events.append('once ' + show_cell(cell)), setter('once')))
    fresh.on('callCellValue', lambda cell, setter, bonus: (fresh_events.append('ctx ' + cell.label), setter(bonus) if cell.label == 'B2' else None), {'bonus': 7})
    for formula in ('a1', 'a1', 'b2', 'B2', 'A1&b2', 'c3'):
        evaluate('fresh', fresh, fresh_events, formula)

    # a listener that removes itself / evaluates another formula while being notified
    nested = hotxlfp.Parser()
    nested_events = []

    def nested_cell(cell, setter):
        nested_events.append('cell ' + cell.label)
        if cell.label == 'A1':
            setter(nested.parse('b2+1')['result'])
        elif cell.label == 'B2':
            setter(20)

    def nested_function(name, args, setter):
        nested_events.append('function %s%s' % (name, show(args)))
        if name == 'SUM' and len(args) == 2:
            setter(nested.parse('SUM(%s,%s,100)' % tuple(args))['result'])

    nested.on('callCellValue', nested_cell)
    nested.on('callFunction', nested_function)
    for formula in ('A1', 'a1+B2', 'SUM(1,2)', 'SUM(a1,b2)', 'SUM(1,2,3)'):
        evaluate('nested', nested, nested_events, formula)

    # the call_* entry points used directly
    for tag, prs, evs in (('p1', parser, events), ('silent', silent, silent_events)):
        for args in ((None, None), (None, 'A1'), ('A1', None), ('A1', 'B2'), ('b2', 'a1'), ('$B$2', 'a1'), ('B1', 'A2'),
                     ('a2', '$b1'), ('A1', 'A1'), ('AA1', 'Z1'), ('z1', 'aa1'), ('A10', 'A9'), ('A9', 'A10'),
                     ('nolabel', 'A1'), ('A1', 'nolabel'), ('', ''), ('A1', 'B2 '), (1, 2), ('A1', 2)):
            direct(tag, evs, 'call_range_value', prs.call_range_value, *args)
        for args in (('A1',), ('a1',), ('$a$1',), ('zz99',), ('Q7',), ('nolabel',), ('',), ('A1 ',), (None,), (5,)):
            direct(tag, evs, 'call_cell_value', prs.call_cell_value, *args)
        for args in (('answer',), ('zero',), ('empty',), ('TRUE',), ('unknownvar',), ('supplied',), ('suppliednone',),
                     ('suppliedfalse',), (None,), (5,)):
            direct(tag, evs, 'call_variable', prs.call_variable, *args)
        for args in (('SUM',), ('SUM', [1, 2]), ('SUM', None), ('ARGS', ['override']), ('ARGS', ['none', None]),
                     ('ARGS', ('tuple',)), ('BOOM', []), ('XLRAISE', []), ('XLRETURN', ['falsy']), ('UNKNOWN', [1]),
                     ('sum', [1]), ('NOTHING',), ('ZERO', ['twice']), ('ABS', [-5]), ('ABS', ['x']), ('ABS', [])):
            direct(tag, evs, 'call_function', prs.call_function, *args)

    # column labels <-> indices
    for label in column_labels():
        direct('helper', [], 'column_label_to_index', cellhelper.column_label_to_index, label)
    for label in (None, 5, 2.5, True, ['A'], ('A',), b'A'):
        direct('helper', [], 'column_label_to_index', cellhelper.column_label_to_index, label)
    for label in ('A1', 'a1', '$A$1', '$a1', 'a$1', 'ZZ99', 'xfd1048576', 'AA10', 'A0', 'A', '1', '', 'A1 ', 'A1\n',
                  'A%s' % ('9' * 30), '\xe91'):
        direct('helper', [], 'extract_label', cellhelper.extract_label, label)
    for index in (0, 1, 25, 26, 27, 51, 52, 701, 702, 703, 16383, 18277, 18278):
        label = cellhelper.column_index_to_label(index)
        direct('helper', [], 'roundtrip %d %s' % (index, label), cellhelper.column_label_to_index, label)
    print('evaluations: %d' % COUNTER[0])


if __name__ == '__main__':
    main()
