# -*- coding: utf-8 -*-
"""
Probe for C18 refactoring 3 (MATCH: one scan per match type).
Prints one line per evaluation: the input and repr() of the outcome; for the
parser-driven evaluations also the callFunction events that were seen.
"""
from __future__ import print_function
import os
import sys
import random

sys.path.insert(0, os.path.dirname(os.path.dirname(os.path.abspath(__file__))))

import hotxlfp  # noqa: E402
from hotxlfp.formulas import error  # noqa: E402
from hotxlfp.formulas import lookupandreference as lr  # noqa: E402
from hotxlfp.formulas.utils import DEFAULT  # noqa: E402

COUNT = [0]


def show(kind, label, outcome):
    COUNT[0] += 1
    print('%04d %s %s => %s' % (COUNT[0], kind, label, outcome))


def make_parser(tag, events):
    p = hotxlfp.Parser()

    def on_call(name, args, setter):
        events.append('%s(%r)' % (name, args))

    def on_range(start, end, setter):
        key = '%s:%s' % (start.label, end.label)
        events.append('range ' + key)
        setter(RANGES.get(key))

    def on_cell(cell, setter):
        events.append('cell ' + cell.label)
        setter(CELLS.get(cell.label))

    p.on('callFunction', on_call)
    p.on('callRangeValue', on_range)
    p.on('callCellValue', on_cell)
    p.set_variable('ASC', [1, 3, 5, 7, 9])
    p.set_variable('DESC', [9, 7, 5, 3, 1])
    p.set_variable('EMPTY', [])
    p.set_variable('WORDS', ['apple', 'Banana', 'cherry', 'banana', 'date*', 'fig?'])
    p.set_variable('MIXED', [0, -2, 0.0, 4, -7, 10, 3])
    p.set_variable('TWOD', [[1, 2], [3, 4]])
    p.set_variable('WITHNONE', [None, 1, None, 2])
    p.set_variable('WITHERR', [1, error.NOT_AVAILABLE, 3])
    p.set_variable('TUP', (1, 2, 3))
    p.set_variable('NANS', [float('nan'), 1.0, float('inf')])
    p.set_variable('BOOLS', [False, True, False])
    p.set_variable('X', 5)
    p.set_variable('T', 'banana')
    p.set_variable('BLANK', None)
    return p


RANGES = {
    'A1:E1': [10, 20, 30, 40, 50],
    'A2:E2': [50, 40, 30, 20, 10],
    'A3:C3': ['x', 'Y', 'z*'],
    'A1:B2': [[1, 2], [3, 4]],
    'A4:D4': [None, 0, '', 5],
}
CELLS = {'A1': 10, 'B1': 20, 'C3': 'z*', 'D9': None, 'E1': 50}


def run_formula(p, tag, events, formula):
    del events[:]
    try:
        outcome = repr(p.parse(formula))
    except BaseException as e:  # parse() does not let anything through; be sure to see it if it did
        outcome = 'RAISED %s(%s)' % (type(e).__name__, e)
    show('F[%s]' % tag, formula, '%s events=%s' % (outcome, ' | '.join(events)))


def run_direct(label, fn, *args):
    try:
        outcome = repr(fn(*args))
    except BaseException as e:
        outcome = 'RAISED %s(%s)' % (type(e).__name__, e)
    show('D', label, outcome)


class Shout(str):
    """ a text value of a subclass of str """
    pass


def formulas():
    out = []
    values = ['39', '25', '41', '24', '42', '0', '-1', '38.5', '"b*"', '"f?o"', '"FOO"', '"zzz"', '""',
              'TRUE', 'FALSE', '1/0', '', '"40"']
    arrays = ['{25,38,40,41}', '{41,40,38,25}', '{25;38;40;41}', '{"eee","aaa","foa","foo","Bar"}',
              '{0,-5,3,0,8}', '{1,2;3,4}', '{1,"a",3}', '{"a",1,"b"}', '{5}', '{1,,3}', '7', '"text"',
              '{TRUE,FALSE,TRUE}']
    types = ['1', '0', '-1', None]
    for v in values:
        for a in arrays:
            for t in types:
                if t is None:
                    out.append('MATCH(%s,%s)' % (v, a))
                else:
                    out.append('MATCH(%s,%s,%s)' % (v, a, t))
    # unusual match types
    for t in ['2', '-2', '0.5', '"0"', '"1"', 'TRUE', 'FALSE', '1.0', '0.0', '-1.0', '', '1/0', '{1,2}',
              '{0}', '1+0', '1-1', '-(1)', 'X-5', 'BLANK', '"x"']:
        out.append('MATCH(38,{25,38,40,41},%s)' % t)
        out.append('MATCH("foo",{"eee","foo"},%s)' % t)
    # unusual argument counts
    out += ['MATCH()', 'MATCH(1)', 'MATCH(1,{1,2},0,4)', 'MATCH(,,)', 'MATCH(,{0,1},0)', 'MATCH(,{1,2})',
            'MATCH(0,{1,2})', 'MATCH("",{1,2})', 'MATCH(0,7)', 'MATCH(0,EMPTY)', 'MATCH(1,EMPTY)',
            'MATCH(1,EMPTY,0)', 'MATCH("",EMPTY,0)', 'MATCH(FALSE,EMPTY,-1)']
    # variables, ranges, cells
    for t in ['1', '0', '-1']:
        for v in ['X', '4', '0', '10', 'T', '"BANANA"', '"*an*"', '"date~*"', '"date*"', '"fig?"', '"[a-b]*"',
                  'BLANK', 'TRUE']:
            for a in ['ASC', 'DESC', 'WORDS', 'MIXED', 'TWOD', 'WITHNONE', 'WITHERR', 'TUP', 'NANS', 'BOOLS']:
                out.append('MATCH(%s,%s,%s)' % (v, a, t))
        for v in ['30', '35', '5', '55', 'A1', 'E1', 'D9', '"Z*"', '"y"', 'C3', '""', '0']:
            for a in ['A1:E1', 'A2:E2', 'A3:C3', 'A1:B2', 'A4:D4', 'Z1:Z9']:
                out.append('MATCH(%s,%s,%s)' % (v, a, t))
    # the round trip of the property, and use inside other functions
    for x in ['25', '38', '40', '41', '26']:
        out.append('INDEX({25,38,40,41},MATCH(%s,{25,38,40,41},0))' % x)
        out.append('INDEX({25;38;40;41},MATCH(%s,{25;38;40;41},1))' % x)
        out.append('INDEX({41,40,38,25},MATCH(%s,{41,40,38,25},-1))' % x)
        out.append('CHOOSE(MATCH(%s,{25,38,40,41},0),"a","b","c","d")' % x)
    for x in ['"aaa"', '"FOA"', '"f*"', '"?a?"', '"nope"']:
        out.append('INDEX({"eee","aaa","foa","foo"},MATCH(%s,{"eee","aaa","foa","foo"},0))' % x)
    out += ['MATCH(2,{1,2,3},0)+MATCH(3,{1,2,3},0)', 'IF(MATCH(2,{1,2,3},0)=2,"yes","no")',
            'SUM(MATCH(1,{1},0),MATCH(2,{1,2},0))', 'MATCH(MATCH(2,{1,2,3},0),{3,2,1},-1)',
            'ISNA(MATCH(9,{1,2,3},0))', 'IFERROR(MATCH("q",{1,2,3},1),"bad")', 'match(2,{1,2,3},0)']
    return out


def direct_calls():
    nan = float('nan')
    inf = float('inf')
    rnd = random.Random(1803)
    cases = []
    arrays = [
        [1, 3, 5, 7], [7, 5, 3, 1], [], [0], [0, 0, 0], [-3, -2, -1], [-1, -2, -3], [0, 1, 2], [2, 1, 0],
        [0.0, -0.0, 5], [nan, 1, 2], [1, nan, 3], [inf, -inf, 0], ['a', 'B', 'c'], ['a', 1], [1, 'a'],
        [None, 1], [1, None], [[1, 2], [3, 4]], [[1]], [error.VALUE, 1], [1, error.VALUE], [True, False],
        [1, True, 1.0], ['', 'x'], ['*', '?', '[', ']'], [Shout('ABC'), 'abc'], [b'abc', 'abc'],
        [(1, 2), 3], [1 + 0j, 2], [10 ** 30, 10 ** 31], [1e308, 1e-308],
    ]
    values = [4, 0, -2, 1, 7, 8, 2.5, nan, inf, -inf, 'a', 'A', 'b', '?', '*', '[', '[*', '', None, True, False,
              error.VALUE, [1, 2], (1, 2), Shout('abc'), b'abc', 1 + 0j, 10 ** 30, 0.0, -0.0]
    for a in arrays:
        for v in values:
            for t in (1, 0, -1):
                cases.append((v, list(a), t))
    for t in (2, -2, 0.5, '0', None, True, False, 1.0, 0.0, -1.0, nan, [1], (0,), error.NUM, 1 + 0j, 0j, DEFAULT):
        cases.append((3, [1, 3, 5], t))
        cases.append(('a', ['b', 'a'], t))
    for a in ('abc', (1, 2), {1: 2}, {1, 2}, None, 0, 7, error.REF, range(3)):
        for v in (1, 0, '', 'a', None):
            cases.append((v, a, 0))
            cases.append((v, a, 1))
    for _ in range(60):
        n = rnd.randint(0, 12)
        arr = [rnd.choice([rnd.randint(-5, 5), rnd.randint(-5, 5) / 2.0, 0]) for _ in range(n)]
        if rnd.random() < 0.4:
            arr.sort()
        elif rnd.random() < 0.5:
            arr.sort(reverse=True)
        for t in (1, 0, -1):
            cases.append((rnd.randint(-6, 6), arr, t))
    for _ in range(30):
        words = [rnd.choice(['ab', 'Ab', 'abc', 'b', 'BA', 'a*', 'a?', '', 'c']) for _ in range(rnd.randint(0, 8))]
        pat = rnd.choice(['a*', 'A?', '*', '?', 'ab', 'AB', '*c', 'b*', '[ab]*', 'a[*]', '', 'zz'])
        for t in (1, 0, -1):
            cases.append((pat, words, t))
    return cases


def main():
    ev_a, ev_b = [], []
    pa = make_parser('a', ev_a)
    pb = make_parser('b', ev_b)
    fs = formulas()
    for f in fs:
        run_formula(pa, 'a', ev_a, f)
    # the same parser again on a sample, then a second parser on everything
    for f in fs[::7]:
        run_formula(pa, 'a2', ev_a, f)
    for f in fs[::3]:
        run_formula(pb, 'b', ev_b, f)

    for v, a, t in direct_calls():
        before = repr(a)
        run_direct('MATCH(%r, %s, %s)' % (v, before, 'DEFAULT' if t is DEFAULT else repr(t)), lr.MATCH, v, a, t)
        if isinstance(a, list) and repr(a) != before:
            show('D', 'array changed', repr(a))
    run_direct('MATCH(1, [1])', lr.MATCH, 1, [1])
    run_direct('MATCH(2, [1, 3])', lr.MATCH, 2, [1, 3])
    run_direct('MATCH()', lr.MATCH)
    run_direct('MATCH(1)', lr.MATCH, 1)
    run_direct('MATCH(1, [1], 0, 0)', lr.MATCH, 1, [1], 0, 0)
    # the functions registered for the three names are the module's functions
    show('D', 'registered', repr([hotxlfp.formulas.get_for(n).__name__ for n in ('CHOOSE', 'MATCH', 'INDEX')]))
    show('D', 'supported', repr([n for n in hotxlfp.formulas.supported() if n in ('CHOOSE', 'MATCH', 'INDEX')]))
    # shared error values carry nothing over
    show('D', 'tracebacks', repr([e.__traceback__ for e in (error.NOT_AVAILABLE, error.VALUE, error.REF, error.ERROR)]))


if __name__ == '__main__':
    main()
