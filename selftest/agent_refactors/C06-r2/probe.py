# -*- coding: utf-8 -*-
"""
Probe for C06 refactoring 2 (evaluate_arithmetic split into dispatch + scalar part, value_and_type text branch extracted).
Prints a deterministic transcript: one line per evaluation.
"""
import os
import sys
import random
import datetime
import decimal
import fractions

sys.path.insert(0, os.path.dirname(os.path.dirname(os.path.abspath(__file__))))

import hotxlfp  # noqa: E402
from hotxlfp.formulas import operators, error  # noqa: E402

COUNT = [0]


class Odd(object):
    """an operand the library knows nothing about"""

    def __init__(self, tag):
        self.tag = tag


class Text(str):
    pass


class Whole(int):
    pass


class Stamp(datetime.datetime):
    pass


def show(value):
    """repr() that never prints a memory address"""
    if type(value) is list:
        return '[' + ', '.join(show(v) for v in value) + ']'
    if type(value) is tuple:
        return '(' + ', '.join(show(v) for v in value) + (',)' if len(value) == 1 else ')')
    if type(value) is dict:
        return '{' + ', '.join('%s: %s' % (show(k), show(value[k])) for k in sorted(value, key=repr)) + '}'
    if isinstance(value, Odd):
        return 'Odd(%s)' % value.tag
    if isinstance(value, Text):
        return 'Text(%s)' % str.__repr__(value)
    if isinstance(value, Whole):
        return 'Whole(%s)' % int.__repr__(value)
    if isinstance(value, int) and not isinstance(value, bool) and abs(value) > 10 ** 30:
        digits = str(abs(value))
        return '%sint<%d digits, %s...%s>' % ('-' if value < 0 else '', len(digits), digits[:6], digits[-6:])
    if callable(value) and hasattr(value, '__name__'):
        return 'callable:%s' % value.__name__
    return repr(value)


def line(kind, what, outcome):
    COUNT[0] += 1
    print('%04d %s | %s => %s' % (COUNT[0], kind, what, outcome))


def attempt(fn, *args):
    try:
        return show(fn(*args))
    except BaseException as e:  # the transcript records what was raised
        if isinstance(e, (KeyboardInterrupt, SystemExit)):
            raise
        return 'RAISED %s(%s)' % (type(e).__name__, show(e.args))


UTC = datetime.timezone.utc
VALUES = [
    0, 1, -1, 2, 59, 60, 61, 366, 43831, 2958465, 2958466, 10 ** 20, -10 ** 20, 10 ** 400,
    0.0, -0.0, 0.5, 0.99, 1.5, 60.5, -1e-9, 1e308, -1e308, 5e-324, float('inf'), float('-inf'), float('nan'),
    True, False, None,
    '0', '1', '-1', '+5', '1.5', '.5', '1e3', '1e400', 'inf', 'nan', '-inf', ' 12 ', '\t7\n', '1_000', u'１２',
    '007', '1' + '0' * 30, '-0', '-0.0',
    'abc', '', ' ', 'TRUE', 'true', 'None', '#N/A', '#VALUE!', '12abc', '0x10', 'abc def', '1e', 'e1',
    '2020-01-01', '1900-01-01', '1900-01-02', '1900-02-28', '1900-03-01', '1899-12-31', '1899-12-25', '1800-06-15',
    '2020-01-01 12:00:00', '2020-01-01T06:00:00', '9999-12-31', '0001-01-01', '2020-13-01', '2020-02-30', '2020/01/05',
    '01/02/2020', '1.2.3', '2020-01-01Z', '2020-01-01 00:00:00+02:00',
    datetime.datetime(1900, 1, 1), datetime.datetime(1900, 1, 2), datetime.datetime(1900, 2, 28),
    datetime.datetime(1900, 3, 1), datetime.datetime(1899, 12, 31), datetime.datetime(1899, 12, 25),
    datetime.datetime(1800, 1, 1), datetime.datetime(2020, 1, 1), datetime.datetime(2020, 1, 1, 12, 0, 0),
    datetime.datetime(2020, 1, 1, 0, 0, 0, 500000), datetime.datetime(9999, 12, 31), datetime.datetime.min,
    datetime.datetime.max, datetime.datetime(2020, 1, 1, tzinfo=UTC), Stamp(2020, 1, 2),
    datetime.date(2020, 1, 1), datetime.time(12, 0), datetime.timedelta(days=1),
    1j, complex(0, 0), complex(2, -3), decimal.Decimal('1.5'), fractions.Fraction(1, 2),
    b'1', bytearray(b'2'), (1,), (), {}, {'a': 1}, frozenset(), Odd('v'), Text('5'), Text('abc'), Text('2020-01-01'),
    Whole(3), Whole(0), len, ValueError('x'),
    error.VALUE, error.NUM, error.DIV_ZERO, error.NOT_AVAILABLE, error.ERROR, error.XLError('#CUSTOM!'), error.XLError(),
    [], [1], [1, 2], [1, 2, 3], ['1', None, True], [[1, 2], [3, 4]], [error.NUM], [datetime.datetime(2020, 1, 1), 'x'],
]

# ---------------------------------------------------------------------------
# 1. the classification of an operand
# ---------------------------------------------------------------------------

for value in VALUES:
    line('classify', 'value_and_type(%s)' % show(value), attempt(operators.value_and_type, value))

# ---------------------------------------------------------------------------
# 2. every operator on every pair, called directly
# ---------------------------------------------------------------------------

CORE = [0, 2, -1.5, 10 ** 20, float('nan'), True, None, '3', 'abc', '', '2020-01-01', datetime.datetime(1900, 1, 1),
        datetime.datetime(2020, 1, 1, 12, 0, 0), datetime.datetime(1899, 12, 25), 1j, Odd('c'), error.NOT_AVAILABLE, [1, 2]]
for op in '+-*/':
    for lval in VALUES:
        for rval in CORE:
            line('direct', 'evaluate_arithmetic(%r, %s, %s)' % (op, show(lval), show(rval)),
                 attempt(operators.evaluate_arithmetic, op, lval, rval))
            line('direct', 'evaluate_arithmetic(%r, %s, %s)' % (op, show(rval), show(lval)),
                 attempt(operators.evaluate_arithmetic, op, rval, lval))

# operators the conversion table does not know: what is raised, and when
SMALL = [1, 0, None, True, '2', 'abc', '2020-01-01', '2020-01-01 00:00:00+02:00', datetime.datetime(2020, 1, 1),
         datetime.datetime(2020, 1, 1, tzinfo=UTC), Odd('s'), error.NUM, [1, 2], [], 1j]
for op in ('>', '<', '=', '<>', '>=', '<=', '^', '&', '%', '', ' +', '+ ', '++', None, 0, ('+',)):
    for lval in SMALL:
        for rval in SMALL:
            line('unknown-op', 'evaluate_arithmetic(%s, %s, %s)' % (show(op), show(lval), show(rval)),
                 attempt(operators.evaluate_arithmetic, op, lval, rval))
line('unknown-op', 'evaluate_arithmetic([], 1, 1)', attempt(operators.evaluate_arithmetic, [], 1, 1))
line('arity', 'evaluate_arithmetic()', attempt(operators.evaluate_arithmetic))
line('arity', 'evaluate_arithmetic("+")', attempt(operators.evaluate_arithmetic, '+'))
line('arity', 'evaluate_arithmetic("+", 1)', attempt(operators.evaluate_arithmetic, '+', 1))
line('arity', 'evaluate_arithmetic("+", 1, 2, 3)', attempt(operators.evaluate_arithmetic, '+', 1, 2, 3))
line('arity', 'value_and_type()', attempt(operators.value_and_type))
line('arity', 'value_and_type(1, 2)', attempt(operators.value_and_type, 1, 2))

# ---------------------------------------------------------------------------
# 3. the conversion table itself is what it was
# ---------------------------------------------------------------------------

TYPE_NAMES = [(operators.number_types, 'number'), (datetime.datetime, 'date'), (operators.NoneType, 'blank'),
              (operators.string_types, 'text'), (error.XLError, 'error')]
line('table', 'operators', show(sorted(operators.IMPLICIT_DATA_TYPE_CONVERSIONS)))
for op in sorted(operators.IMPLICIT_DATA_TYPE_CONVERSIONS):
    by_left = operators.IMPLICIT_DATA_TYPE_CONVERSIONS[op]
    for ltype, lname in TYPE_NAMES:
        if ltype not in by_left:
            line('table', '%s %s' % (op, lname), 'absent')
            continue
        for rtype, rname in TYPE_NAMES:
            if rtype not in by_left[ltype]:
                line('table', '%s %s %s' % (op, lname, rname), 'absent')
                continue
            rule = by_left[ltype][rtype]
            described = []
            for key in sorted(rule):
                conv = rule[key]
                if conv is None:
                    described.append('%s=None' % key)
                elif conv.__name__ == '<lambda>':
                    described.append('%s=lambda->%s' % (key, show(conv('anything'))))
                else:
                    described.append('%s=%s' % (key, conv.__name__))
            line('table', '%s %s %s' % (op, lname, rname), ' '.join(described))

# ---------------------------------------------------------------------------
# 4. through the parser, with the events
# ---------------------------------------------------------------------------

EVENTS = []
CELLS = {'A1': 2, 'A2': 3.5, 'A3': None, 'A4': '4', 'A5': 'abc', 'A6': True, 'A7': False, 'A8': '2020-02-03', 'A9': '',
         'B1': [1, 2, 3], 'B2': error.NUM, 'B3': -7, 'B4': 0, 'B5': datetime.datetime(2021, 3, 4), 'B6': 59, 'B7': '1e2'}
RANGES = {('A1', 'A3'): [2, 3.5, None], ('A4', 'A6'): ['4', 'abc', True], ('D1', 'D4'): [10, 20, 30, 40]}


def make_parser():
    p = hotxlfp.Parser()

    def on_function(name, args, setter):
        EVENTS.append('callFunction(%s, %s)' % (name, show(args)))

    def on_variable(name, setter):
        EVENTS.append('callVariable(%s)' % name)

    def on_cell(cell, setter):
        EVENTS.append('callCellValue(%s)' % cell.label)
        setter(CELLS.get(cell.label))

    def on_range(start, end, setter):
        EVENTS.append('callRangeValue(%s, %s)' % (start.label, end.label))
        setter(RANGES.get((start.label, end.label)))

    p.on('callFunction', on_function)
    p.on('callVariable', on_variable)
    p.on('callCellValue', on_cell)
    p.on('callRangeValue', on_range)
    return p


PARSER = make_parser()
VARS = {
    'vnone': None, 'vint': 7, 'vzero': 0, 'vfloat': 2.5, 'vbig': 10 ** 20, 'vinf': float('inf'), 'vnan': float('nan'),
    'vtrue': True, 'vfalse': False, 'vstr': 'text', 'vnumstr': '12', 'vempty': '', 'vdatestr': '2019-12-31',
    'vdate': datetime.datetime(2020, 1, 1), 'vfirst': datetime.datetime(1900, 1, 1), 'vold': datetime.datetime(1899, 12, 25),
    'vaware': datetime.datetime(2020, 1, 1, tzinfo=UTC), 'vmax': datetime.datetime.max, 'vcomplex': 1 + 2j,
    'verr': error.VALUE, 'vna': error.NOT_AVAILABLE, 'varr': [1, 2, 3], 'vtuple': (1, 2), 'vodd': Odd('o'),
    'vdecimal': decimal.Decimal('1.5'), 'vbytes': b'12', 'vtext': Text('8'),
}
for _name, _value in VARS.items():
    PARSER.set_variable(_name, _value)


def formula(expr):
    del EVENTS[:]
    try:
        outcome = show(PARSER.parse(expr))
    except BaseException as e:
        if isinstance(e, (KeyboardInterrupt, SystemExit)):
            raise
        outcome = 'RAISED %s(%s)' % (type(e).__name__, show(e.args))
    line('formula', expr, '%s events=[%s]' % (outcome, '; '.join(EVENTS)))


SCALAR_TEXTS = ['2', '0', '1.5', '"3"', '"-2.5"', '"abc"', '""', 'TRUE', 'FALSE', 'NULL', '"2020-01-01"', '"1900-01-01"',
                '"1899-12-30"', '#N/A', '#DIV/0!', '50%', '2^3', '(1+1)', '{1,2}', 'A1', 'A3', 'A5', 'A8', 'B2', 'B5',
                'vdate', 'vnone', 'vold', 'vcomplex', 'vodd', 'SUM(1,2)', 'SQRT(-1)', 'nosuchname']
for op in '+-*/':
    for left in SCALAR_TEXTS:
        for right in SCALAR_TEXTS:
            formula('%s%s%s' % (left, op, right))
NAMES = sorted(VARS)
for op in '+-*/':
    for a in NAMES:
        for b in ('vnone', 'vint', 'vzero', 'vtrue', 'vnumstr', 'vstr', 'vdate', 'vfirst', 'vold', 'vaware', 'vmax',
                  'vbig', 'vinf', 'vnan', 'verr', 'varr', 'vodd'):
            formula('%s%s%s' % (a, op, b))
            formula('%s%s%s' % (b, op, a))

for expr in ['1+2*3', '(1+2)*3', '1-2-3', '8/4/2', '2*3/4', '1+-1', '1--1', '-1+1', '-"1"+1', '-TRUE', '-NULL', '1/0', '0/0',
             'NULL/NULL', '"x"/0', '0/"x"', '1/0+"x"', '"x"+1/0', '#N/A+1/0', '1/0+#N/A', '"2020-01-01"+1', '1+"2020-01-01"',
             '"2020-01-01"-1', '1-"2020-01-01"', '"2020-01-01"-"2019-01-01"', '"2020-01-01"+"2019-01-01"',
             '"2020-01-01"*2', '2*"2020-01-01"', '"2020-01-01"/2', '2/"2020-01-01"', '"2020-01-01"*-1', '"1900-01-01"-1',
             '"1900-01-01"-0', '"1900-01-01"+0', '"1900-01-01"+1', '"1900-01-01"+59', '"1900-01-01"+60', '"1900-01-01"+61',
             '"2020-01-01"+NULL', 'NULL+"2020-01-01"', '"2020-01-01"-NULL', 'NULL-"2020-01-01"', '"2020-01-01"*NULL',
             'NULL*"2020-01-01"', '"2020-01-01"/NULL', 'NULL/"2020-01-01"', '"2020-01-01"+TRUE', '"2020-01-01"+0.5',
             '"2020-01-01"+"1"', '"2020-01-01"+"x"', '"x"+"2020-01-01"', '"2020-01-01"+1e10', '"2020-01-01"+vbig',
             '"2020-01-01"*vbig', '"9999-12-31"+1', '"9999-12-31"-1', 'vmax+1', 'vmax-vmax', 'vaware+1', '1+vaware',
             'vaware-vaware', 'vold+1', 'vold-vold', 'vold+40000', 'vfirst+vfirst', 'vfirst*5', 'vfirst/5', '5/vfirst',
             'DATE(2020,1,1)+1', 'DATE(2020,1,1)-DATE(2019,1,1)', 'YEAR("2020-01-01"+366)', 'SUM(1,2)+SUM(3,4)*2',
             'A1+A2*A4', 'A1+A3', 'A3+A3', 'A3*A3', 'A3/A3', 'A3-A3', 'A5+1', 'A6+A6', 'A6*A7', 'A7/A6', 'A6/A7', 'A8+1',
             'A8-A8', 'A9+1', 'B2+A5', 'A5+B2', 'B5-A8', 'B6+"1900-01-01"', 'B7*2', 'A1:A3+1', 'A1:A3*A4:A6',
             '1 + 2', ' 1+2 ', '1 +2', '1+ 2', '1++2', '1+*2', '+1', '1+', '*2', '1 2', '', '1.5.5+1', '1e3+1', '1E3+1',
             '"1e3"+1', '"１２"+1', '" 12 "+1', '"1_000"+1', '"+5"+1', '"inf"+1', '"nan"+1', '"inf"-"inf"', '"inf"*0',
             '"1e400"/"1e400"', '"1e308"*10', '"5e-324"/2', '0.1+0.2', '1/3*3', '2^3+1', '1+2^3', '2^3*2', '50%+1',
             '1+50%', '50%*50%', '10%/10%', "'3'+1", "'a'+1", '"it\'s"+1', 'vtuple+1', 'vbytes+1', 'vdecimal+1', 'vtext+1',
             'vtext+vtext', 'vcomplex+vcomplex', 'vcomplex*vcomplex', 'vcomplex/0', 'vcomplex/vzero', 'vcomplex+vdate',
             'vdate+vcomplex', 'vnan+vdate', 'vdate+vnan', 'vinf+vdate', 'vdate-vinf', 'vinf-vinf', 'vinf*vzero', 'vinf/vinf',
             'vzero/vinf', 'vnan/vzero', 'vzero/vnan', 'vbig*vbig', 'vbig/vbig', 'vbig-vbig+1', 'TRUE+TRUE', 'TRUE*FALSE',
             'TRUE/FALSE', 'FALSE/TRUE', 'TRUE-FALSE', '"TRUE"+1', 'TRUE+"1"', 'NULL+NULL', 'NULL-NULL', 'NULL*NULL',
             'NULL+"1"', 'NULL+"x"', 'NULL+""', '""+""', '""+0', '" "+0', '#REF!+1', '1+#REF!', '#REF!+#NUM!', '#NUM!+#REF!',
             '#NULL!*2', '#NAME?/2', '2/#VALUE!', '#BOGUS+1', '1+#BOGUS', 'IF(TRUE,1,2)+IF(FALSE,1,2)', 'IFERROR(1/0,5)+1',
             'ISERROR("x"+1)', 'ISERROR(1/0)', 'ISNUMBER("1"+1)', 'ISNUMBER("2020-01-01"+1)', 'TYPE(1+1)', 'TYPE("a"&1)',
             '1=1+0', '1+1=2', '1+1>1*3', '"a"&1+1', '1+1&"a"', '(1+1)&(2*3)', '1/4&"%"']:
    formula(expr)

# ---------------------------------------------------------------------------
# 5. random scalar formulas (fixed seed)
# ---------------------------------------------------------------------------

rng = random.Random(6062)
ATOMS = ['1', '2', '0', '2.5', '100', '"3"', '"0"', '"abc"', '""', 'TRUE', 'FALSE', 'NULL', '"2020-01-01"', '"1900-01-01"',
         'A1', 'A2', 'A3', 'A4', 'A5', 'A8', 'B3', 'B4', 'B5', 'vdate', 'vnone', 'vold', 'vfirst', 'SUM(1,2)', '#DIV/0!', '10%',
         '{1,2}']
for i in range(600):
    n = rng.randint(2, 5)
    parts = [rng.choice(ATOMS)]
    for j in range(n - 1):
        parts.append(rng.choice(['+', '-', '*', '/']))
        parts.append(rng.choice(ATOMS))
    expr = ''.join(parts)
    if rng.random() < 0.25:
        expr = '(' + expr + ')' + rng.choice(['+', '-', '*', '/']) + rng.choice(ATOMS)
    formula(expr)

# random direct calls on numbers: exact arithmetic
for i in range(300):
    pool = [rng.randint(-1000, 1000), rng.uniform(-1e6, 1e6), str(rng.randint(-50, 50)), repr(rng.uniform(-5, 5)),
            rng.choice([True, False, None]), datetime.datetime(1900, 1, 1) + datetime.timedelta(days=rng.randint(0, 60000)),
            '%04d-%02d-%02d' % (rng.randint(1890, 2100), rng.randint(1, 12), rng.randint(1, 28))]
    lval = rng.choice(pool)
    rval = rng.choice(pool)
    op = rng.choice('+-*/')
    line('random', 'evaluate_arithmetic(%r, %s, %s)' % (op, show(lval), show(rval)),
         attempt(operators.evaluate_arithmetic, op, lval, rval))

# two parsers do not share anything
second = make_parser()
line('isolation', 'second parser knows no variables of the first', show(second.parse('vint+1')))
line('isolation', 'first parser still does', show(PARSER.parse('vint+1')))
line('total', 'evaluations', str(COUNT[0]))
