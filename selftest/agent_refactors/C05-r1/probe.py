# -*- coding: utf-8 -*-
"""
Probe for C05 refactoring 1 (shared action of the expseq* grammar rules).

Prints one line per evaluation: the formula, repr() of the outcome and the events
seen while evaluating it.  Deterministic: no randomness, no clock, no addresses.
"""
from __future__ import print_function
import itertools
import os
import sys

sys.path.insert(0, os.path.dirname(os.path.dirname(os.path.abspath(__file__))))

import hotxlfp  # noqa: E402
from hotxlfp import Parser  # noqa: E402


SEPARATORS = (',', ';', '\\')
COUNT = [0]


def show(value):
    """repr() that is stable for every value the evaluator hands out."""
    if isinstance(value, list):
        return '[' + ', '.join(show(v) for v in value) + ']'
    if isinstance(value, tuple):
        return '(' + ', '.join(show(v) for v in value) + (',)' if len(value) == 1 else ')')
    if isinstance(value, dict):
        return '{' + ', '.join('%r: %s' % (k, show(value[k])) for k in sorted(value)) + '}'
    if isinstance(value, BaseException):
        return '%s(%s)' % (type(value).__name__, value)
    return '%s:%r' % (type(value).__name__, value)


def make_parser(events):
    parser = Parser()

    def on_function(name, args, setter):
        events.append('fn %s%s' % (name, show(args)))

    def on_variable(name, setter):
        events.append('var %s' % name)
        if name == 'foo':
            setter(7)
        elif name == 'Bar_1':
            setter('bar')

    def on_cell(cell, setter):
        events.append('cell %r' % (cell,))
        values = {'A1': 10, 'B2': 'text', 'C3': 2.5, 'AA10': True}
        if cell.label.replace('$', '') in values:
            setter(values[cell.label.replace('$', '')])

    def on_range(start, end, setter):
        events.append('range %r %r' % (start, end))
        rows = range(start.row.index, end.row.index + 1)
        cols = range(start.col.index, end.col.index + 1)
        setter([[r * 10 + c for c in cols] for r in rows])

    parser.on('callFunction', on_function)
    parser.on('callVariable', on_variable)
    parser.on('callCellValue', on_cell)
    parser.on('callRangeValue', on_range)
    parser.set_function('ARGS', lambda *a: list(a))
    parser.set_function('NARGS', lambda *a: len(a))
    parser.set_function('FIRST', lambda *a: a[0])
    parser.set_function('my.fn', lambda *a: ('my.fn', ) + a)
    parser.set_variable('x', 3)
    return parser


EVENTS = []
PARSER = make_parser(EVENTS)


def run(formula, parser=None, events=None):
    parser = PARSER if parser is None else parser
    events = EVENTS if events is None else events
    del events[:]
    try:
        outcome = show(parser.parse(formula))
    except BaseException as e:  # the evaluator is expected to swallow everything
        outcome = 'RAISED %s(%s)' % (type(e).__name__, e)
    COUNT[0] += 1
    line = '%04d %r => %s | %s' % (COUNT[0], formula, outcome, ' ; '.join(events))
    print(line.encode('ascii', 'backslashreplace').decode('ascii'))


def section(title):
    print('--- ' + title)


def slot_patterns(max_len):
    for n in range(1, max_len + 1):
        for pattern in itertools.product((True, False), repeat=n):
            yield pattern


def fill(pattern, values):
    values = iter(values)
    return [next(values) if filled else '' for filled in pattern]


ATOMS = ['1', '"a"', 'TRUE', '2.5', 'A1', '-3', '{7}', 'x', '50%', '#N/A']


def main():
    # 1. every filled / omitted slot pattern, each separator, as call arguments and as array literal
    section('slot patterns in calls')
    for sep in SEPARATORS:
        for pattern in slot_patterns(5):
            run('ARGS(' + sep.join(fill(pattern, ['1', '"b"', '3', 'TRUE', '5.5'])) + ')')
    section('slot patterns in array literals')
    for sep in SEPARATORS:
        for pattern in slot_patterns(5):
            run('{' + sep.join(fill(pattern, ['1', '"b"', '3', 'TRUE', '5.5'])) + '}')

    # 2. longer runs of separators, leading / trailing / doubled / tripled
    section('separator runs')
    for sep in SEPARATORS:
        for text in ('%s', '%s%s', '%s%s%s', '%s%s%s%s', '1%s%s%s2', '1%s%s%s%s2', '%s%s1', '1%s%s',
                     '%s1%s', '%s%s1%s%s', '1%s2%s%s', '%s1%s%s2', '1%s%s2%s%s3', '%s%s%s1',
                     '1%s%s%s', '%s1%s2%s', '1%s2%s3%s4%s5%s6'):
            body = text.replace('%s', sep)
            run('ARGS(' + body + ')')
            run('{' + body + '}')
            run('NARGS(' + body + ')')

    # 3. two-row array literals and other mixtures of separator kinds
    section('rows and mixed separators')
    for body in ('1,2;3,4', '1\\2;3\\4', '1,2;3\\4', '1\\2;3,4', '1,2;3', '1;2,3', '1,2;3,4;5,6',
                 '1,2;3,4;5', '1\\2;3\\4;5\\6', '1,2,3;4,5,6', '1,;3,4', '1,2;,4', ',1;2,', ',,;,,',
                 '1,2;;3,4', ';1,2;3,4', '1,2;3,4;', '1,,2;3,,4', '1\\\\2;3\\\\4', '1,2\\3', '1\\2,3',
                 '1;2\\3', '1\\2;3', '1,2;3;4', '1;2;3,4', '"a","b";"c","d"', 'A1,B2;C3,D4',
                 '{1,2},{3,4}', '{1,2};{3,4}', '{1;2},{3;4}', '{1,2};3,4', '1,2;{3,4}', '{{1}}',
                 '{1,2;3,4};{5,6;7,8}', '-1,-2;-3,-4', '1+1,2*2;3-3,4/4', 'x,foo;nope,1',
                 '1,2;3,#N/A', '#REF!,1;2,3', 'SUM(1,2),3;4,SUM(5;6)'):
        run('{' + body + '}')
        run('ARGS(' + body + ')')
        run('ARGS({' + body + '})')

    # 4. atoms of every kind in every position, every separator
    section('atoms in slots')
    for sep in SEPARATORS:
        for a in ATOMS:
            run('ARGS(' + a + sep + sep + a + ')')
            run('{' + a + sep + a + sep + '}')
            run('{' + sep + a + '}')

    # 5. whitespace around separators / brackets
    section('whitespace')
    for sep in SEPARATORS:
        for text in ('ARGS( 1 %s 2 )', 'ARGS(1 %s %s 2)', 'ARGS( %s 1)', 'ARGS(1 %s )', '{ 1 %s 2 }',
                     '{ %s %s }', '{1 %s\t2}', '{1%s\n2}', 'ARGS (1%s2)', 'ARGS( %s %s )',
                     '  ARGS(1%s2)  ', 'ARGS(\t1\t%s\t%s\t2\t)', '{ 1 , 2 ; 3 %s 4 }'):
            run(text.replace('%s', sep))

    # 6. built-in functions fed by sequences
    section('built-ins')
    for sep in SEPARATORS:
        for text in ('SUM(1%s2%s3)', 'SUM(1%s%s3)', 'SUM(%s1)', 'SUM(1%s)', 'SUM({1%s2%s3})',
                     'SUM({1%s2}%s{3%s4})', 'CONCATENATE("a"%s"b"%s"c")', 'CONCATENATE("a"%s%s"c")',
                     'IF(TRUE%s1%s2)', 'IF(FALSE%s1%s2)', 'IF(TRUE%s%s2)', 'IF(FALSE%s1%s)',
                     'IF(%s1%s2)', 'MAX(1%s5%s3)', 'MIN(%s%s)', 'COUNT(1%s%s"a"%s2)',
                     'COUNTA(1%s%s"a"%s2)', 'AVERAGE(1%s2%s3%s4)', 'AND(TRUE%sFALSE)',
                     'OR(%sTRUE)', 'ROUND(2.567%s1)', 'ROUND(2.567%s)', 'POWER(2%s10)',
                     'SUM(A1:B2%s1)', 'SUM(a1:b2%sA1)', 'INDEX({1,2;3,4}%s2%s1)',
                     'SUM(1%s"x")', 'SUM(1%s#DIV/0!)', 'NOSUCH(1%s2)', 'ABS(1%s2)'):
            run(text.replace('%s', sep))

    # 7. nesting
    section('nesting')
    for text in ('ARGS(ARGS(1,2),ARGS(3;4),ARGS(5\\6))', 'ARGS(ARGS(,),ARGS(;),ARGS(\\))',
                 'ARGS(ARGS(,,),ARGS(;;),ARGS(\\\\))', 'ARGS((1),(2))', 'ARGS((1,2))', 'ARGS(({1,2}))',
                 '{ARGS(1,2),ARGS(3)}', '{ARGS(1,2);ARGS(3)}', 'ARGS({1,2},{3;4},{5\\6})',
                 'ARGS({1,2};{3;4};{5\\6})', 'ARGS({1,2}\\{3;4}\\{5\\6})', 'ARGS(,{,},)',
                 'ARGS(;{;};)', 'FIRST({1,2;3,4})', 'FIRST()', 'FIRST(,1)', 'NARGS()', 'ARGS()',
                 'my.fn(1,2)', 'my.fn(,)', 'my.fn()', 'ARGS(1,2)+ARGS(3)', 'ARGS(1)&ARGS(2)',
                 'NARGS(1,2)+NARGS(;;)+NARGS(\\\\)', 'SUM(NARGS(,),NARGS(,,),NARGS(1,,2))',
                 'ARGS(1=1,2<>2,3>=3)', 'ARGS(-1,-(2),-A1)', 'ARGS("a,b","c;d","e\\f")',
                 "ARGS('a,b','c;d')", 'ARGS(",",";")', '{",",";"}', '{"{1,2}"}', 'ARGS(1,2', 'ARGS 1,2)',
                 '{1,2', '1,2}', '1,2', '1;2', '1\\2', ',', ';', '\\', '()', '{}', '{,}', '{;}', '{\\}',
                 'ARGS(1,2,)', 'ARGS(1;2;)', 'ARGS(1\\2\\)', 'ARGS(,1,2)', 'ARGS(;1;2)', 'ARGS(\\1\\2)'):
        run(text)

    # 8. literals, text, cells: the neighbouring rules of the same grammar
    section('literals and cells')
    for text in ('1', '007', '1.5', '.5', '1.', '1.50', '0.1', '10%', '0%', '2^3', '2^0', '0^0', '10^2',
                 '1.5%', '2.5^2', '1e3', '1 . 5', '. 5', '2 ^ 3', '10 %', '"abc"', "'abc'", '""', "''",
                 '"a""b"', '"a\\"b"', "'a\\'b'", '"it\'s"', '" spaced "', 'A1', 'a1', '$A$1', '$a$1',
                 'A$1', '$a1', 'b2', 'B2', 'aa10', 'Aa10', 'Z99', 'A1:B2', 'a1:b2', 'b2:a1', '$A$1:b$2',
                 'A1:$b2', 'TRUE', 'FALSE', 'NULL', 'x', 'foo', 'Bar_1', 'nope', '#N/A', '#DIV/0!',
                 '#NAME?', '#FOO', '@', '1+', '', ' ', '-1', '--1', '1+2*3', '(1+2)*3', '"a"&"b"',
                 '1&2', '1=1', '1<>1', '"a"="A"', '1/0', '-"a"', '2^3^2', '2^-1', '50%%', 'A1+a1',
                 'A1%', '1 2'):
        run(text)

    # 9. independence of parser instances and repeated evaluation
    section('fresh parsers')
    for text in ('ARGS(1,,2)', '{1,2;3,4}', 'ARGS(;;)', '{1\\\\2}', 'SUM(1;2;3)'):
        events = []
        fresh = make_parser(events)
        run(text, fresh, events)
        run(text, fresh, events)
        run(text)

    print('evaluations: %d' % COUNT[0])


if __name__ == '__main__':
    main()
