# -*- coding: utf-8 -*-
"""
Probe for C15 refactoring 3 (SUBSTITUTE: str.find based scan for the k-th occurrence).
Prints a deterministic transcript, one line per evaluation.
"""
import os
import sys
import random

sys.path.insert(0, os.path.dirname(os.path.dirname(os.path.abspath(__file__))))

import hotxlfp  # noqa: E402
from hotxlfp.formulas import text as xltext  # noqa: E402
from hotxlfp.formulas import error as xlerror  # noqa: E402
from hotxlfp.formulas.utils import DEFAULT  # noqa: E402

if hasattr(sys.stdout, 'reconfigure'):
    sys.stdout.reconfigure(encoding='utf-8')  # same bytes whatever the locale

COUNT = [0]


def show(kind, label, outcome):
    COUNT[0] += 1
    print('%04d %s %s => %s' % (COUNT[0], kind, label, outcome))


def ev(parser, tag, formula):
    try:
        outcome = repr(parser.parse(formula))
    except BaseException as e:  # parse() is not expected to raise
        outcome = 'RAISED %s(%s)' % (type(e).__name__, e)
    show(tag, formula, outcome)


def direct(fn, *args):
    label = '%s(%s)' % (fn.__name__, ', '.join('DEFAULT' if a is DEFAULT else repr(a) for a in args))
    try:
        outcome = repr(fn(*args))
    except BaseException as e:
        outcome = 'RAISED %s(%s)' % (type(e).__name__, e)
    show('direct', label, outcome)


class Recorder(object):
    """Keeps the callFunction events of one parse."""

    def __init__(self, parser):
        self.events = []
        parser.on('callFunction', self.on_call)

    def on_call(self, name, args, setter):
        self.events.append((name, repr(args)))

    def take(self):
        events, self.events = self.events, []
        return events


def main():
    p1 = hotxlfp.Parser()
    p2 = hotxlfp.Parser()
    rec2 = Recorder(p2)

    for p in (p1, p2):
        p.set_variable('txt', 'banana bandana')
        p.set_variable('num', 121212)
        p.set_variable('flt', 1.5)
        p.set_variable('lst', [1, 2, 3, 2, 1])
        p.set_variable('strs', ['a', 'b', 'a'])
        p.set_variable('empty', '')
        p.set_variable('blank', None)
        p.set_variable('yes', True)
        p.set_variable('no', False)
        p.set_variable('tup', ('a', 'b'))
        p.set_variable('uni', u'ééaééé')

    formulas = [
        # all occurrences
        'SUBSTITUTE("Sales Data", "Sales", "Cost")',
        'SUBSTITUTE("aaaa", "a", "b")',
        'SUBSTITUTE("aaaa", "aa", "b")',
        'SUBSTITUTE("aaaa", "a", "")',
        'SUBSTITUTE("aaaa", "x", "y")',
        'SUBSTITUTE("", "a", "b")',
        'SUBSTITUTE("abc", "", "b")',
        'SUBSTITUTE("abc", "abc", "")',
        'SUBSTITUTE("abc", "abcd", "x")',
        'SUBSTITUTE("abc", "B", "x")',
        # k-th occurrence
        'SUBSTITUTE("Quarter 1, 2008", "1", "2", 1)',
        'SUBSTITUTE("Quarter 1, 2011", "1", "2", 3)',
        'SUBSTITUTE("Quarter 1, 2011", "1", "2", 4)',
        'SUBSTITUTE("aaaa", "a", "b", 1)',
        'SUBSTITUTE("aaaa", "a", "b", 2)',
        'SUBSTITUTE("aaaa", "a", "b", 4)',
        'SUBSTITUTE("aaaa", "a", "b", 5)',
        'SUBSTITUTE("aaaa", "aa", "b", 1)',
        'SUBSTITUTE("aaaa", "aa", "b", 2)',
        'SUBSTITUTE("aaaa", "aa", "b", 3)',
        'SUBSTITUTE("aaaa", "aa", "b", 4)',
        'SUBSTITUTE("aaaa", "aaaa", "b", 1)',
        'SUBSTITUTE("aaaa", "aaaa", "b", 2)',
        'SUBSTITUTE("aaaa", "aaaaa", "b", 1)',
        'SUBSTITUTE("abcabcabc", "abc", "", 2)',
        'SUBSTITUTE("abcabcabc", "bca", "-", 2)',
        'SUBSTITUTE("abcabcabc", "c", "", 3)',
        'SUBSTITUTE("abcabcabc", "c", "ccc", 3)',
        'SUBSTITUTE("abababa", "aba", "X", 1)',
        'SUBSTITUTE("abababa", "aba", "X", 2)',
        'SUBSTITUTE("abababa", "aba", "X", 3)',
        'SUBSTITUTE("abababa", "aba", "X", 4)',
        'SUBSTITUTE("abc", "c", "z", 1)',
        'SUBSTITUTE("abc", "a", "z", 1)',
        'SUBSTITUTE("abc", "abc", "z", 1)',
        'SUBSTITUTE("abc", "x", "z", 1)',
        'SUBSTITUTE("", "a", "b", 1)',
        'SUBSTITUTE("abc", "", "b", 1)',
        'SUBSTITUTE("", "", "", 1)',
        # instance numbers of every sort
        'SUBSTITUTE("aaaa", "a", "b", 0)',
        'SUBSTITUTE("aaaa", "a", "b", -1)',
        'SUBSTITUTE("aaaa", "a", "b", -0.5)',
        'SUBSTITUTE("aaaa", "a", "b", 1.5)',
        'SUBSTITUTE("aaaa", "a", "b", 2.0)',
        'SUBSTITUTE("aaaa", "a", "b", 0.5)',
        'SUBSTITUTE("aaaa", "a", "b", "2")',
        'SUBSTITUTE("aaaa", "a", "b", "2.0")',
        'SUBSTITUTE("aaaa", "a", "b", "two")',
        'SUBSTITUTE("aaaa", "a", "b", "")',
        'SUBSTITUTE("aaaa", "a", "b", TRUE)',
        'SUBSTITUTE("aaaa", "a", "b", FALSE)',
        'SUBSTITUTE("aaaa", "a", "b", yes)',
        'SUBSTITUTE("aaaa", "a", "b", no)',
        'SUBSTITUTE("aaaa", "a", "b", blank)',
        'SUBSTITUTE("aaaa", "a", "b", A1)',
        'SUBSTITUTE("aaaa", "a", "b", {2})',
        'SUBSTITUTE("aaaa", "a", "b", lst)',
        'SUBSTITUTE("aaaa", "a", "b", 1/0)',
        'SUBSTITUTE("aaaa", "a", "b", #N/A)',
        'SUBSTITUTE("aaaa", "a", "b", 1+1)',
        'SUBSTITUTE("aaaa", "a", "b", 10^20)',
        'SUBSTITUTE("aaaa", "a", "b", "inf")',
        'SUBSTITUTE("aaaa", "a", "b", "nan")',
        'SUBSTITUTE("aaaa", "a", "b", "1e0")',
        'SUBSTITUTE("", "a", "b", 0)',
        'SUBSTITUTE("", "a", "b", "x")',
        # non text arguments
        'SUBSTITUTE(num, "2", "x")',
        'SUBSTITUTE(num, "2", "x", 2)',
        'SUBSTITUTE(num, 2, 3, 2)',
        'SUBSTITUTE("121212", 2, "x")',
        'SUBSTITUTE("121212", 2, "x", 2)',
        'SUBSTITUTE("121212", "2", 7)',
        'SUBSTITUTE("121212", "2", 7, 2)',
        'SUBSTITUTE("121212", "3", 7, 2)',
        'SUBSTITUTE("121212", "2", blank, 2)',
        'SUBSTITUTE("121212", "2", blank)',
        'SUBSTITUTE("121212", "2", , 2)',
        'SUBSTITUTE("121212", , "x", 2)',
        'SUBSTITUTE(, "2", "x", 2)',
        'SUBSTITUTE("121212", "2", TRUE, 1)',
        'SUBSTITUTE("121212", TRUE, "x", 1)',
        'SUBSTITUTE(TRUE, "T", "x", 1)',
        'SUBSTITUTE(FALSE, "F", "x", 1)',
        'SUBSTITUTE(flt, ".", ",", 1)',
        'SUBSTITUTE(0, "0", "x", 1)',
        'SUBSTITUTE(blank, "a", "b", 1)',
        'SUBSTITUTE(empty, "a", "b", 1)',
        'SUBSTITUTE(txt, "an", "AN")',
        'SUBSTITUTE(txt, "an", "AN", 1)',
        'SUBSTITUTE(txt, "an", "AN", 2)',
        'SUBSTITUTE(txt, "an", "AN", 3)',
        'SUBSTITUTE(txt, "an", "AN", 4)',
        'SUBSTITUTE(txt, "an", "AN", 5)',
        'SUBSTITUTE(txt, "ana", "_", 1)',
        'SUBSTITUTE(txt, "ana", "_", 2)',
        'SUBSTITUTE(txt, "ana", "_", 3)',
        'SUBSTITUTE(txt, " ", "", 1)',
        'SUBSTITUTE(uni, "éé", "E", 1)',
        'SUBSTITUTE(uni, "éé", "E", 2)',
        'SUBSTITUTE(uni, "éé", "E", 3)',
        'SUBSTITUTE(uni, "éé", "E", 4)',
        'SUBSTITUTE(uni, "é", "", 5)',
        # arrays: sliceable and comparable, they take the generic scan
        'SUBSTITUTE(lst, {2}, {9}, 1)',
        'SUBSTITUTE(lst, {2}, {9}, 2)',
        'SUBSTITUTE(lst, {2}, {9}, 3)',
        'SUBSTITUTE(lst, {2}, "x", 1)',
        'SUBSTITUTE(lst, {2}, {9})',
        'SUBSTITUTE(lst, 2, 9, 1)',
        'SUBSTITUTE(lst, {1,2}, {7,8,9}, 1)',
        'SUBSTITUTE(lst, {2,1}, {7,8,9}, 1)',
        'SUBSTITUTE(lst, {2,1}, {7,8,9}, 2)',
        'SUBSTITUTE(lst, {1,2,3,2,1,0}, {7}, 1)',
        'SUBSTITUTE(lst, lst, {}, 1)',
        'SUBSTITUTE(strs, {"a"}, {"z"}, 2)',
        'SUBSTITUTE(strs, "a", "z", 2)',
        'SUBSTITUTE("aba", {"a"}, "z", 2)',
        'SUBSTITUTE("aba", strs, "z", 1)',
        'SUBSTITUTE({"a","b"}, "a", "z", 1)',
        'SUBSTITUTE({"aba"}, "a", "z", 1)',
        'SUBSTITUTE(tup, tup, tup, 1)',
        'SUBSTITUTE(tup, "a", "b", 1)',
        'SUBSTITUTE("ab", tup, "b", 1)',
        # error values
        'SUBSTITUTE(1/0, "a", "b")',
        'SUBSTITUTE(1/0, "a", "b", 1)',
        'SUBSTITUTE("aaa", 1/0, "b", 1)',
        'SUBSTITUTE("aaa", "a", 1/0, 1)',
        'SUBSTITUTE("aaa", "a", #REF!, 2)',
        'SUBSTITUTE(#VALUE!, "a", "b", 0)',
        'SUBSTITUTE(SQRT(-1), "a", "b", 1)',
        'SUBSTITUTE("aaa", "a", "b", SQRT(-1))',
        # argument counts
        'SUBSTITUTE()',
        'SUBSTITUTE("a")',
        'SUBSTITUTE("a", "a")',
        'SUBSTITUTE("a", "a", "b", 1, 2)',
        # nesting and identities from the property
        'SUBSTITUTE(SUBSTITUTE("a-b-c-d", "-", "+", 2), "-", "", 2)',
        'SUBSTITUTE(SUBSTITUTE("a-b-c-d", "-", "+"), "+", "-", 3)',
        'SUBSTITUTE("a-b-c-d", "-", "--", 3)&SUBSTITUTE("x", "x", "", 1)',
        'LEN(SUBSTITUTE("a-b-c-d", "-", "", 1))',
        'LEN(SUBSTITUTE("a-b-c-d", "-", "", 4))',
        'SUBSTITUTE(LEFT("hello world", 5)&RIGHT("hello world", 6), "o", "0", 2)',
        'SUBSTITUTE(UPPER("hello"), "L", "l", 2)',
        'SUBSTITUTE(TRIM("  a  b  "), " ", "_", 1)',
        'SUBSTITUTE(CONCATENATE("ab", "ab", "ab"), "ba", "", 2)',
        'SUBSTITUTE(TEXTJOIN(",", TRUE, "a", "b", "c"), ",", ";", 2)',
        'SUBSTITUTE(REPT("ab", 5), "ab", "", 5)',
        'SUBSTITUTE(REPT("ab", 5), "ab", "", 6)',
        'MID(SUBSTITUTE("abcdef", "cd", "CD", 1), 3, 2)',
        'SUBSTITUTE("it\'s", "\'", "", 1)',
        "SUBSTITUTE('say \"hi\" \"hi\"', '\"hi\"', 'yo', 2)",
        'SUBSTITUTE("a b  c   d", " ", "", 3)',
        'SUBSTITUTE("a b  c   d", "  ", " ", 2)',
        'SUBSTITUTE(CHAR(10)&"x"&CHAR(10), CHAR(10), "", 2)',
    ]

    # first parser, then the same formulas again on the same parser, then on a second parser
    for f in formulas:
        ev(p1, 'p1', f)
    for f in formulas[10:60]:
        ev(p1, 'p1-again', f)
    for f in formulas:
        ev(p2, 'p2', f)
        show('p2-events', f, repr(rec2.take()))

    # direct calls: values the grammar cannot produce
    S = xltext.SUBSTITUTE
    direct(S, 'abcabc', 'b', 'X')
    direct(S, 'abcabc', 'b', 'X', DEFAULT)
    direct(S, 'abcabc', 'b', 'X', 1)
    direct(S, 'abcabc', 'b', 'X', 2)
    direct(S, 'abcabc', 'b', 'X', 3)
    direct(S, 'abcabc', 'b', 'X', 2.0)
    direct(S, 'abcabc', 'b', 'X', 2.5)
    direct(S, 'abcabc', 'b', 'X', True)
    direct(S, 'abcabc', 'b', 'X', False)
    direct(S, 'abcabc', 'b', 'X', None)
    direct(S, 'abcabc', 'b', 'X', '2')
    direct(S, 'abcabc', 'b', 'X', ' 2 ')
    direct(S, 'abcabc', 'b', 'X', 'x')
    direct(S, 'abcabc', 'b', 'X', 2 + 0j)
    direct(S, 'abcabc', 'b', 'X', float('nan'))
    direct(S, 'abcabc', 'b', 'X', float('inf'))
    direct(S, 'abcabc', 'b', 'X', -float('inf'))
    direct(S, 'abcabc', 'b', 'X', 10 ** 30)
    direct(S, 'abcabc', 'b', 'X', [2])
    direct(S, 'abcabc', 'b', 'X', xlerror.NUM)
    direct(S, 'abcabc', 'b', 'X', b'2')
    direct(S, 'abcabc', 'b', None, 2)
    direct(S, 'abcabc', 'b', 5, 2)
    direct(S, 'abcabc', 'b', ['X'], 2)
    direct(S, 'abcabc', 'b', b'X', 2)
    direct(S, 'abcabc', 'b', xlerror.NUM, 2)
    direct(S, 'abcabc', 'z', None, 2)
    direct(S, 'abcabc', 'z', 5, 2)
    direct(S, 'abcabc', None, 'X', 2)
    direct(S, 'abcabc', 0, 'X', 2)
    direct(S, 'abcabc', 5, 'X', 2)
    direct(S, 'abcabc', 5.5, 'X', 2)
    direct(S, 'abcabc', True, 'X', 2)
    direct(S, 'abcabc', b'b', 'X', 2)
    direct(S, 'abcabc', ['b'], 'X', 2)
    direct(S, 'abcabc', ('b',), 'X', 2)
    direct(S, 'abcabc', {'b': 1}, 'X', 1)
    direct(S, 'abcabc', xlerror.NUM, 'X', 2)
    direct(S, None, 'b', 'X', 2)
    direct(S, 0, 'b', 'X', 2)
    direct(S, 5, 'b', 'X', 2)
    direct(S, 5.5, '.', 'X', 1)
    direct(S, True, 'T', 'X', 1)
    direct(S, xlerror.NUM, 'b', 'X', 2)
    direct(S, b'abcabc', b'b', b'X', 2)
    direct(S, b'abcabc', b'b', b'X')
    direct(S, b'abcabc', b'b', 'X', 2)
    direct(S, b'abcabc', 'b', b'X', 2)
    direct(S, bytearray(b'abcabc'), b'b', b'X', 2)
    direct(S, [1, 2, 1, 2], [2], [0], 2)
    direct(S, [1, 2, 1, 2], [2], (0,), 2)
    direct(S, [1, 2, 1, 2], (2,), [0], 2)
    direct(S, (1, 2, 1, 2), (2,), (0,), 2)
    direct(S, (1, 2, 1, 2), (1, 2), (), 2)
    direct(S, (1, 2, 1, 2), (1, 2), (), 3)
    direct(S, [[1], [2], [1]], [[1]], [[3]], 2)
    direct(S, ['ab', 'ab'], ['ab'], ['c'], 2)
    direct(S, ['ab', 'ab'], 'ab', 'c', 2)
    direct(S, 'abab', ['ab'], 'c', 2)
    direct(S, range(5), range(1, 2), 'c', 1)
    direct(S, {'a': 1}, 'a', 'c', 1)
    direct(S, {1, 2}, 'a', 'c', 1)
    direct(S, 'abcabc', 'abcabc', '', 1)
    direct(S, 'abcabc', 'abcabcx', '', 1)
    direct(S, 'a', 'a', 'a' * 5, 1)
    direct(S, u'\U0001F600x\U0001F600', u'\U0001F600', '!', 2)
    direct(S, 'A' * 50, 'AA', 'b', 49)
    direct(S, 'A' * 50, 'AA', 'b', 50)
    direct(S, ' ' * 3, ' ', '', 3)
    direct(S, '\x00\x00', '\x00', 'n', 2)

    # a fixed pseudo-random sweep over a small alphabet (many overlapping candidates)
    rnd = random.Random(150315)
    for _ in range(160):
        text = ''.join(rnd.choice('ab') for _ in range(rnd.randint(0, 9)))
        old = ''.join(rnd.choice('ab') for _ in range(rnd.randint(0, 3)))
        new = ''.join(rnd.choice('abX') for _ in range(rnd.randint(0, 3)))
        k = rnd.choice([1, 1, 2, 2, 3, 4, 5, 7, 0, -1, 2.0, 1.5, '1', '3', True, DEFAULT])
        direct(S, text, old, new, k)
    for _ in range(60):
        text = ''.join(rnd.choice('abc') for _ in range(rnd.randint(0, 8)))
        old = ''.join(rnd.choice('abc') for _ in range(rnd.randint(1, 2)))
        new = ''.join(rnd.choice('xy') for _ in range(rnd.randint(0, 2)))
        k = rnd.randint(1, 4)
        formula = 'SUBSTITUTE("%s", "%s", "%s", %d)' % (text, old, new, k)
        ev(rnd.choice((p1, p2)), 'rnd', formula)
    show('p2-events', 'after random sweep (count only)', repr(len(rec2.take())))

    # the shared error values carry nothing over from the evaluations above
    for name in ('ERROR', 'VALUE', 'NUM', 'DIV_ZERO', 'NAME', 'REF', 'NOT_AVAILABLE'):
        err = getattr(xlerror, name)
        show('state', name, repr((str(err), err.__traceback__ is None, err.__context__ is None)))
    show('state', 'p1.functions/p2.functions', repr((p1.functions, p2.functions)))


if __name__ == '__main__':
    main()
